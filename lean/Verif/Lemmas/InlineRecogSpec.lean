/-
  Spec equivalence, part 1: the faithful recognisers of backslash escapes, autolinks and character references
  against the reference model LeanMark (written from the CommonMark specification).
-/
import Verif.Lemmas.InlineRecogChars
import Verif.Lemmas.InlineRecogTick
namespace Verif.Model.InlineRecog
open Verif.Model.Recognisers
open Verif.Model

theorem emailLocalChars_eq (c : Char) : emailLocalChars.contains c = LeanMark.isEmailLocalChar c := by
  unfold LeanMark.isEmailLocalChar
  have e : ".!#$%&'*+/=?^_`{|}~-".toList =
      ['.', '!', '#', '$', '%', '&', '\'', '*', '+', '/', '=', '?', '^', '_', '`', '{', '|', '}', '~', '-'] := by rfl
  rw [e, ← alnumChars_eq]
  unfold emailLocalChars alnumChars
  rw [contains_append]

/-! ## generic: scans as list functions -/

theorem scanTo_zero (s : Str) (p : Char → Bool) : scanTo s p 0 = (s.takeWhile p).length := by
  unfold scanTo; simp

theorem takeWhile_congr {p q : Char → Bool} (h : ∀ c, p c = q c) (l : Str) : l.takeWhile p = l.takeWhile q := by
  have : p = q := funext h
  rw [this]

theorem scanTo_congr {p q : Char → Bool} (h : ∀ c, p c = q c) (s : Str) (i : Nat) : scanTo s p i = scanTo s q i := by
  unfold scanTo; rw [takeWhile_congr h]

/-! ## backslash escapes (spec 2.4) -/

/-- the faithful recogniser treats `\` + `d` as an escape of `d` exactly when `d` is ASCII punctuation (the 32 characters of the
specification), and never consumes the line ending of a hard break -/
theorem backslash_spec (src : Str) (next : Nat) (sig : Bool) :
    handleInlineBackslash src next sig = .ok
      (match src.drop (next + 1) with
       | [] => ⟨['\\'], [], next + 1⟩
       | d :: _ =>
         if d == '\n' then ⟨['\\'], [], next + 1⟩
         else if LeanMark.isAsciiPunct d then ⟨(if sig then ['\\', Codec.BS] else []) ++ [d], '\\' :: ((if sig then ['\\', Codec.BS] else []) ++ [d]), next + 2⟩
         else ⟨['\\', d], ['\\', d], next + 2⟩) := by
  unfold handleInlineBackslash
  simp only
  by_cases h1 : next + 1 ≥ src.length
  · rw [if_pos h1, List.drop_eq_nil_of_le h1]
  · rw [if_neg h1]
    have hl1 : next + 1 < src.length := by omega
    rw [charAt_lt hl1, List.drop_eq_getElem_cons hl1]
    simp only [backslashPunct_eq]
    split <;> (try rfl)
    split <;> rfl

/-! ## URI autolinks (spec 6.5) -/

theorem takeWhile_length_eq_all (p : Char → Bool) : ∀ (l : Str), ((l.takeWhile p).length == l.length) = l.all p
  | [] => rfl
  | c :: r => by
    by_cases h : p c = true
    · simp only [List.takeWhile_cons, h, if_true, List.length_cons, List.all_cons, Bool.true_and]
      rw [← takeWhile_length_eq_all p r]
      simp
    · simp only [List.takeWhile_cons, h, List.all_cons]
      simp

theorem scan_all (s : Str) (p : Char → Bool) (i : Nat) (h : i ≤ s.length) :
    (scanTo s p i == s.length) = (s.drop i).all p := by
  rw [← takeWhile_length_eq_all]
  unfold scanTo
  rw [List.length_drop]
  rw [Bool.eq_iff_iff]; simp only [beq_iff_eq]; omega

theorem all_and' (p q : Char → Bool) : ∀ (l : Str), l.all (fun d => p d && q d) = (l.all p && l.all q)
  | [] => rfl
  | c :: r => by
    simp only [List.all_cons, all_and' p q r]
    cases p c <;> cases q c <;> simp

theorem all_ne_contains (x : Char) : ∀ (l : Str), l.all (fun d => d != x) = !l.contains x
  | [] => rfl
  | c :: r => by
    rw [List.all_cons, List.contains_cons, all_ne_contains x r]
    by_cases h : c = x
    · subst h; simp
    · have h2 : (x == c) = false := by simp; exact fun e => h e.symm
      simp [h, h2]

theorem all_congr_mem {p q : Char → Bool} : ∀ {l : Str}, (∀ d ∈ l, p d = q d) → l.all p = l.all q
  | [], _ => rfl
  | c :: r, h => by
    rw [List.all_cons, List.all_cons, h c List.mem_cons_self, all_congr_mem (fun d hd => h d (List.mem_cons_of_mem _ hd))]

theorem mem_takeWhile_imp {p : Char → Bool} : ∀ {l : Str} {x : Char}, x ∈ l.takeWhile p → p x = true
  | [], _, h => by simp at h
  | c :: r, x, h => by
    by_cases hc : p c = true
    · simp only [List.takeWhile_cons, hc, if_true] at h
      rcases List.mem_cons.mp h with e | h
      · rw [e]; exact hc
      · exact mem_takeWhile_imp h
    · simp only [List.takeWhile_cons, hc] at h; simp at h

/-- the URI autolink recogniser on the text between `<` and the first `>`: exactly the specification's definition, provided the text
has no U+007F (which the specification counts as a control character and `ord(c) > 32` does not) -/
theorem uri_spec (s : Str) (hne : s ≠ []) (hgt : '>' ∉ s) (hdel : Char.ofNat 127 ∉ s) :
    parseValidUriAutolink s = .ok (LeanMark.isUri s) := by
  rw [parseValidUriAutolink_eq s hne]
  congr 1
  match s, hne with
  | c :: t, _ =>
    unfold uriP LeanMark.isUri
    simp only [List.getElem?_cons_zero]
    rw [asciiLetters_eq]
    rw [scanTo_congr schemeChars_eq]
    have hk : scanTo (c :: t) LeanMark.isSchemeChar 1 = 1 + (t.takeWhile LeanMark.isSchemeChar).length := by
      unfold scanTo; simp
    rw [hk]
    by_cases ha : LeanMark.isAlpha c = true
    · have hsc : LeanMark.isSchemeChar c = true := by
        unfold LeanMark.isSchemeChar LeanMark.isAlnum; simp [ha]
      simp only [List.takeWhile_cons, hsc, if_true, ha, Bool.and_true, List.length_cons]
      have htk := take_takeWhile_length LeanMark.isSchemeChar t
      generalize hm : (t.takeWhile LeanMark.isSchemeChar).length = m at htk
      have hmle : m ≤ t.length := by rw [← hm]; exact takeWhile_length_le _ _
      have e1 : 1 + (1 + m - 1) = m + 1 := by omega
      rw [e1]
      have e2 : (c :: t)[1 + m]? = t[m]? := by rw [Nat.add_comm]; rfl
      rw [e2]
      have e3 : ((c :: t).drop (m + 1)).head? = t[m]? := by
        simp only [List.drop_succ_cons]
        rw [List.head?_drop]
      rw [e3]
      by_cases hcol : t[m]? = some ':'
      · have hml : m < t.length := by
          by_cases hh : m < t.length
          · exact hh
          · rw [List.getElem?_eq_none (by omega)] at hcol; cases hcol
        have hs := scan_all (c :: t) (fun d => decide (d.toNat > 32)) (1 + m + 1) (by simp only [List.length_cons]; omega)
        simp only [List.length_cons] at hs
        rw [hs]
        have e4 : (c :: t).drop (1 + m + 1) = t.drop (m + 1) := by
          rw [show 1 + m + 1 = (m + 1) + 1 by omega, List.drop_succ_cons]
        have e5 : (c :: t).drop (m + 1 + 1) = t.drop (m + 1) := by rw [List.drop_succ_cons]
        rw [e4, e5, hcol]
        have hcm : t[m] = ':' := by rw [List.getElem?_eq_getElem hml] at hcol; injection hcol
        -- `<` does not occur in the scheme and is not the colon: it occurs in the text iff it occurs in the rest
        have hlt : (c :: t).contains '<' = (t.drop (m + 1)).contains '<' := by
          have hsplit : t = t.take m ++ ':' :: t.drop (m + 1) := by
            conv => lhs; rw [← List.take_append_drop m t, List.drop_eq_getElem_cons hml, hcm]
          have hc1 : ('<' == c) = false := by
            simp only [beq_eq_false_iff_ne, ne_eq]; intro e; rw [← e] at ha; revert ha; decide
          have hc2 : (t.take m).contains '<' = false := by
            cases hh : (t.take m).contains '<' with
            | false => rfl
            | true =>
              rw [htk] at hh
              have := mem_takeWhile_imp (List.contains_iff_mem.mp hh)
              revert this; decide
          rw [List.contains_cons, hc1, Bool.false_or]
          conv => lhs; rw [hsplit]
          rw [contains_append, hc2, Bool.false_or, List.contains_cons]
          have : ('<' == ':') = false := by decide
          rw [this, Bool.false_or]
        rw [hlt]
        have hrest : ∀ d ∈ t.drop (m + 1), (!(LeanMark.isCtlOrSpace d || d == '<' || d == '>')) =
            (decide (d.toNat > 32) && d != '<') := by
          intro d hd
          have hd' : d ∈ c :: t := List.mem_cons_of_mem _ (List.mem_of_mem_drop hd)
          have h1 : d ≠ '>' := fun e => hgt (e ▸ hd')
          have h2 : d ≠ Char.ofNat 127 := fun e => hdel (e ▸ hd')
          have h3 : d.toNat ≠ 127 := fun e => h2 (char_eq_of_toNat (by rw [e]; rfl))
          unfold LeanMark.isCtlOrSpace
          by_cases h4 : d = '<'
          · subst h4; decide
          · have h5 : (d == '<') = false := by simpa using h4
            have h6 : (d == '>') = false := by simpa using h1
            have h7 : (d.toNat == 127) = false := by simpa using h3
            rw [h5, h6, h7]
            simp only [Bool.or_false, bne, h5, Bool.not_false, Bool.and_true]
            rw [Bool.eq_iff_iff]; simp only [Bool.not_eq_true', decide_eq_false_iff_not, decide_eq_true_eq]; omega
        rw [all_congr_mem hrest, all_and', all_ne_contains]
        have hd1 : decide (1 + m < t.length + 1) = true := by simp; omega
        rw [hd1]
        simp only [Bool.true_and, Bool.and_true, beq_self_eq_true]
        cases (t.drop (m + 1)).contains '<' <;> simp
      · have : (t[m]? == some ':') = false := by simpa using hcol
        simp [this]
    · have ha' : LeanMark.isAlpha c = false := by simpa using ha
      by_cases hsc : LeanMark.isSchemeChar c = true
      · simp only [List.takeWhile_cons, hsc, if_true, ha', Bool.and_false, Bool.false_and]
      · simp only [List.takeWhile_cons, hsc, ha', Bool.and_false, Bool.false_and]
        rfl

/-- the excluded point is real: U+007F in the path is accepted by the code and not by the specification -/
theorem uri_spec_excluded :
    parseValidUriAutolink ['a', 'b', ':', Char.ofNat 127] = .ok true ∧ LeanMark.isUri ['a', 'b', ':', Char.ofNat 127] = false := by
  constructor
  · rw [parseValidUriAutolink_eq _ (by simp)]; decide
  · decide

/-! ## e-mail autolinks (spec 6.5) -/

theorem splitOnChar_eq (sep : Char) : ∀ (l acc : Str), splitOnChar sep l acc = LeanMark.splitOn sep l acc
  | [], _ => rfl
  | c :: r, acc => by
    rw [splitOnChar, LeanMark.splitOn]
    split
    · rw [splitOnChar_eq sep r []]
    · rw [splitOnChar_eq sep r (c :: acc)]

theorem labelOk_eq (l : Str) : labelOk l = LeanMark.isDomainLabel l := by
  unfold labelOk LeanMark.isDomainLabel
  have e1 : alnumDashChars.contains = fun c => LeanMark.isAlnum c || c == '-' := funext alnumDashChars_eq
  rw [e1]
  cases l with
  | nil => rfl
  | cons c r =>
    simp only [List.head?_cons, alnumChars_eq]
    cases hl : (c :: r).getLast? with
    | none => rfl
    | some d => rfl

/-- the language of the regular expression between `^` and `$` is the specification's e-mail address -/
theorem emailCore_eq (s : Str) : emailCore s = LeanMark.isEmail s := by
  unfold emailCore LeanMark.isEmail
  have e1 : emailLocalChars.contains = LeanMark.isEmailLocalChar := funext emailLocalChars_eq
  have e2 : labelOk = LeanMark.isDomainLabel := funext labelOk_eq
  rw [e1, e2]
  simp only [splitOnChar_eq]

/-- `re.match` with `$`: the specification's e-mail address, or one followed by a final newline -/
theorem email_spec (s : Str) :
    parseValidEmailAutolink s = (LeanMark.isEmail s || (s.getLast? == some '\n' && LeanMark.isEmail s.dropLast)) := by
  unfold parseValidEmailAutolink
  rw [emailCore_eq, emailCore_eq]

theorem email_spec_partial (s : Str) (h : s.getLast? ≠ some '\n') : parseValidEmailAutolink s = LeanMark.isEmail s := by
  rw [email_spec]
  have : (s.getLast? == some '\n') = false := by simpa using h
  rw [this, Bool.false_and, Bool.or_false]

/-- the excluded point is real: an address followed by a line ending is accepted by `re.match(… "$")` -/
theorem email_spec_excluded :
    parseValidEmailAutolink ['a', '@', 'b', '\n'] = true ∧ LeanMark.isEmail ['a', '@', 'b', '\n'] = false := by decide

end Verif.Model.InlineRecog
