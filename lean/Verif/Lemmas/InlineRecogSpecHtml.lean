/-
  Spec equivalence, part 4: closing tag, declaration, processing instruction, CDATA, comment, and the whole
  `parse_raw_html` against LeanMark's `scanRawHtml` (spec 6.6 raw HTML; comment rule of CommonMark 0.29/0.30).
-/
import Verif.Lemmas.InlineRecogSpecTag
namespace Verif.Model.InlineRecog
open Verif.Model.Recognisers
open Verif.Model
open Verif.Model.LeanMark (isAlnum isAlpha isUpper)

/-! ## `str.find` and LeanMark's `findAfter` -/

theorem startsWith_eq : ∀ (p l : List Char), LeanMark.startsWith p l = p.isPrefixOf l
  | [], l => by cases l <;> rfl
  | _ :: _, [] => rfl
  | a :: p, c :: l => by
    rw [LeanMark.startsWith, List.isPrefixOf, startsWith_eq p l]

theorem findAfter_eq (pat : List Char) : ∀ (l : List Char) (n : Nat),
    LeanMark.findAfter pat l n = (findSub pat l).map (fun p => n + p + pat.length)
  | [], n => by
    rw [LeanMark.findAfter, findSub]
    split <;> simp_all
  | c :: r, n => by
    rw [LeanMark.findAfter, findSub, startsWith_eq]
    split
    · simp
    · rw [findAfter_eq pat r (n + 1)]
      cases findSub pat r with
      | none => rfl
      | some p => simp only [Option.map_some]; congr 1; omega

/-- processing instruction and CDATA: the same search -/
theorem special_plain_spec (rem start end_ : Str) (k : Nat) (hk : start.length = k) :
    processRawSpecial rem start end_ false =
      .ok (if start.isPrefixOf rem then
            match findSub end_ (rem.drop k) with
            | some p => (some (start ++ (rem.drop k).take p ++ end_.dropLast), ((p + k + end_.length : Nat) : Int))
            | none => (none, -1)
           else (none, -1)) := by
  subst hk
  unfold processRawSpecial
  split
  · dsimp only
    cases hf : findSub end_ (rem.drop start.length) with
    | none => rfl
    | some p => rfl
  · rfl

/-! ## closing tag -/

/-- `l` (without `>`) is tag-name characters followed by white space — what `closeTagGo` accepts before the `>` -/
def closeOk : Bool → List Char → Bool
  | _, [] => true
  | inWs, c :: r =>
    if LeanMark.isWsChar c then closeOk true r
    else if !inWs && (isAlnum c || c == '-') then closeOk false r
    else false

theorem closeTagGo_eq (rest : List Char) : ∀ (l : List Char) (inWs : Bool) (n : Nat), '>' ∉ l →
    LeanMark.closeTagGo (l ++ '>' :: rest) inWs n = if closeOk inWs l then some (n + l.length + 1) else none
  | [], inWs, n, _ => by
    rw [List.nil_append, LeanMark.closeTagGo]; simp [closeOk]
  | c :: r, inWs, n, h => by
    have hc : (c == '>') = false := by
      simp only [beq_eq_false_iff_ne, ne_eq]; intro e; exact h (by rw [e]; exact List.mem_cons_self)
    have hr : '>' ∉ r := fun e => h (List.mem_cons_of_mem _ e)
    rw [List.cons_append, LeanMark.closeTagGo, closeOk]
    simp only [hc, Bool.false_eq_true, if_false]
    by_cases hw : LeanMark.isWsChar c = true
    · simp only [hw, if_true]
      rw [closeTagGo_eq rest r true (n + 1) hr]
      simp only [List.length_cons]
      split <;> (try rfl)
      congr 1; omega
    · simp only [hw, Bool.false_eq_true, if_false]
      by_cases hn : (!inWs && (isAlnum c || c == '-')) = true
      · simp only [hn, if_true]
        rw [closeTagGo_eq rest r false (n + 1) hr]
        simp only [List.length_cons]
        split <;> (try rfl)
        congr 1; omega
      · simp only [hn, Bool.false_eq_true, if_false]

theorem closeOk_true_all : ∀ (l : List Char), closeOk true l = l.all LeanMark.isWsChar
  | [] => rfl
  | c :: r => by
    rw [closeOk, List.all_cons]
    by_cases hw : LeanMark.isWsChar c = true
    · simp only [hw, if_true, Bool.true_and, closeOk_true_all r]
    · simp [hw]

theorem closeOk_false_eq : ∀ (l : List Char),
    closeOk false l = (l.dropWhile fun c => isAlnum c || c == '-').all LeanMark.isWsChar
  | [] => rfl
  | c :: r => by
    rw [closeOk]
    by_cases hw : LeanMark.isWsChar c = true
    · have hn := nameChar_not_ws hw
      simp only [hw, if_true, List.dropWhile_cons, hn, Bool.false_eq_true, if_false, List.all_cons, Bool.true_and]
      exact closeOk_true_all r
    · simp only [hw, Bool.false_eq_true, if_false, Bool.not_false, Bool.true_and]
      by_cases hn : (isAlnum c || c == '-') = true
      · simp only [hn, if_true, List.dropWhile_cons]
        exact closeOk_false_eq r
      · simp only [hn, Bool.false_eq_true, if_false, List.dropWhile_cons, List.all_cons, hw, Bool.false_and]

/-- `__parse_raw_close_tag` as a pure function of scans -/
theorem parseRawCloseTag_eq (s : Str) :
    parseRawCloseTag s = .ok
      (if isCharAt s 0 '/' && isCharAtOneOf s 1 tagNameStart &&
          ((s.drop (scanTo s tagNameChars.contains 2)).all [SP, TAB].contains) then some s else none) := by
  unfold parseRawCloseTag
  by_cases h0 : isCharAt s 0 '/' = true
  · simp only [h0, if_true, Bool.true_and]
    rw [parseRawTagName_eq]
    by_cases h1 : isCharAtOneOf s 1 tagNameStart = true
    · have hl1 := isCharAtOneOf_true_lt h1
      simp only [h1, if_true, Bool.true_and]
      have hk := scanTo_ge s tagNameChars.contains (1 + 1)
      have hkle := scanTo_le s tagNameChars.contains (1 + 1) (by omega)
      have hlen : (s.take (scanTo s tagNameChars.contains (1 + 1))).length = scanTo s tagNameChars.contains (1 + 1) := by
        rw [List.length_take]; omega
      have hne : (s.take (scanTo s tagNameChars.contains (1 + 1))).isEmpty = false := by
        cases hh : s.take (scanTo s tagNameChars.contains (1 + 1)) with
        | nil => rw [hh] at hlen; simp only [List.length_nil] at hlen; omega
        | cons _ _ => rfl
      simp only [hne, Bool.false_eq_true, if_false]
      rw [hlen, closeTagWs_eq _ _ hkle]
      simp only
      have hall := scan_all s [SP, TAB].contains (scanTo s tagNameChars.contains (1 + 1)) hkle
      by_cases hend : scanTo s tagNameChars.contains (1 + 1) = s.length
      · rw [hend, List.drop_eq_nil_of_le (Nat.le_refl _)]
        simp
      · have : (scanTo s tagNameChars.contains (1 + 1) != s.length) = true := by simp [hend]
        simp only [this, if_true]
        rw [hall]
        split <;> rfl
    · have h1' : isCharAtOneOf s 1 tagNameStart = false := by simpa using h1
      simp only [h1', Bool.false_eq_true, if_false, Bool.false_and]
      rfl
  · have h0' : isCharAt s 0 '/' = false := by simpa using h0
    simp only [h0', Bool.false_eq_true, if_false, Bool.false_and]

/-- white space of the text is only space or tab (what `extract_spaces` skips) -/
def OnlySpTab (l : List Char) : Prop := ∀ c ∈ l, LeanMark.isWsChar c = true → [SP, TAB].contains c = true

theorem sptab_ws {c : Char} (h : [SP, TAB].contains c = true) : LeanMark.isWsChar c = true := by
  simp only [List.contains_cons, List.contains_nil, Bool.or_false, Bool.or_eq_true, beq_iff_eq] at h
  rcases h with h | h <;> (subst h; decide)

/-- the closing tag: `text` = the characters up to the first `>`; the same decision, the same number of characters -/
theorem closeTag_spec (between rest : List Char) (hgt : '>' ∉ between) (hws : OnlySpTab between) :
    ∃ ok : Bool, parseRawCloseTag between = .ok (if ok then some between else none) ∧
      LeanMark.scanCloseTag (between ++ '>' :: rest) = (if ok then some (between.length + 1) else none) := by
  rw [parseRawCloseTag_eq]
  match between, hgt, hws with
  | [], _, _ => exact ⟨false, rfl, rfl⟩
  | [c], hgt, _ =>
    refine ⟨false, ?_, ?_⟩
    · have : isCharAtOneOf [c] 1 tagNameStart = false := rfl
      simp only [this, Bool.and_false, Bool.false_and, Bool.false_eq_true, if_false]
    · have hc : c ≠ '>' := fun e => hgt (by rw [e]; exact List.mem_cons_self)
      show LeanMark.scanCloseTag (c :: '>' :: rest) = none
      unfold LeanMark.scanCloseTag
      split
      · next c' r' heq =>
        injection heq with h1 h2
        injection h2 with h3 _
        subst h3
        simp only [show isAlpha '>' = false by decide, Bool.false_eq_true, if_false]
      · rfl
  | c :: d :: b2, hgt, hws =>
    have hgt2 : '>' ∉ b2 := fun e => hgt (List.mem_cons_of_mem _ (List.mem_cons_of_mem _ e))
    have h0 : isCharAt (c :: d :: b2) 0 '/' = (c == '/') := rfl
    have h1 : isCharAtOneOf (c :: d :: b2) 1 tagNameStart = isAlpha d := by
      unfold isCharAtOneOf tagNameStart
      simp only [List.getElem?_cons_succ, List.getElem?_cons_zero, asciiLetters_eq]
    have hscan : (c :: d :: b2).drop (scanTo (c :: d :: b2) tagNameChars.contains 2) =
        b2.dropWhile (fun c => isAlnum c || c == '-') := by
      rw [scanTo_congr tagNameChars_eq]
      unfold scanTo
      rw [dropWhile_eq_drop]
      simp only [List.drop_succ_cons, List.drop_zero, ← List.drop_drop]
    rw [h0, h1, hscan]
    have hallEq : (b2.dropWhile fun c => isAlnum c || c == '-').all [SP, TAB].contains = closeOk false b2 := by
      rw [closeOk_false_eq]
      apply all_congr_mem
      intro x hx
      have hxb : x ∈ c :: d :: b2 :=
        List.mem_cons_of_mem _ (List.mem_cons_of_mem _ ((List.dropWhile_sublist _).subset hx))
      cases hw : LeanMark.isWsChar x with
      | true => exact hws x hxb hw
      | false =>
        cases hs : [SP, TAB].contains x with
        | false => rfl
        | true => rw [sptab_ws hs] at hw; cases hw
    rw [hallEq]
    refine ⟨c == '/' && isAlpha d && closeOk false b2, rfl, ?_⟩
    by_cases hc : c = '/'
    · subst hc
      show LeanMark.scanCloseTag ('/' :: d :: (b2 ++ '>' :: rest)) = _
      unfold LeanMark.scanCloseTag
      simp only [beq_self_eq_true, Bool.true_and]
      by_cases hd : isAlpha d = true
      · simp only [hd, if_true, Bool.true_and]
        rw [closeTagGo_eq rest b2 false 2 hgt2]
        simp only [List.length_cons]
        split <;> (try rfl)
        congr 1; omega
      · simp only [hd, Bool.false_eq_true, if_false, Bool.false_and]
    · have hc' : (c == '/') = false := by simpa using hc
      simp only [hc', Bool.false_and, Bool.false_eq_true, if_false]
      show LeanMark.scanCloseTag (c :: d :: (b2 ++ '>' :: rest)) = none
      unfold LeanMark.scanCloseTag
      split
      · next c' r' heq => injection heq with h1 _; exact absurd h1 hc
      · rfl

/-! ## declaration -/

/-- `__parse_raw_declaration` as a pure function of scans -/
theorem parseRawDeclaration_eq (s : Str) :
    parseRawDeclaration s = .ok
      (if isCharAt s 0 '!' && decide (1 < scanTo s asciiUpper.contains 1) &&
          decide (scanTo s asciiUpper.contains 1 < scanTo s (· == ' ') (scanTo s asciiUpper.contains 1)) then some s else none) := by
  unfold parseRawDeclaration
  rw [isCharAtOneOf_one]
  by_cases h0 : isCharAt s 0 '!' = true
  · have hl := isCharAt_true_lt h0
    simp only [h0, if_true, Bool.true_and]
    rw [collectWhileOneOfVerified_eq _ _ _ (by omega)]
    simp only
    have hge := scanTo_ge s asciiUpper.contains 1
    have hle := scanTo_le s asciiUpper.contains 1 (by omega)
    rw [slice_isEmpty hge hle, collectWhileChar_eq]
    simp only [hle, if_true]
    have hge2 := scanTo_ge s (· == ' ') (scanTo s asciiUpper.contains 1)
    by_cases hn : scanTo s asciiUpper.contains 1 = 1
    · simp [hn]
    · have h1 : 1 < scanTo s asciiUpper.contains 1 := by omega
      simp only [hn, decide_false, Bool.not_false, if_true, h1, decide_true, Bool.true_and]
      by_cases hc : scanTo s (· == ' ') (scanTo s asciiUpper.contains 1) = scanTo s asciiUpper.contains 1
      · simp [hc]
      · have h2 : scanTo s asciiUpper.contains 1 < scanTo s (· == ' ') (scanTo s asciiUpper.contains 1) := by omega
        have h3 : (scanTo s (· == ' ') (scanTo s asciiUpper.contains 1) - scanTo s asciiUpper.contains 1 != 0) = true := by
          simp only [bne_iff_ne, ne_eq]; omega
        simp only [h3, if_true, h2, decide_true]
  · have h0' : isCharAt s 0 '!' = false := by simpa using h0
    simp only [h0', Bool.false_eq_true, if_false, Bool.false_and]

/-- white space of the text is only the space character -/
def OnlySp (l : List Char) : Prop := ∀ c ∈ l, LeanMark.isWsChar c = true → c = ' '

theorem findSub_single_append (x : Char) (rest : List Char) : ∀ (l : List Char), x ∉ l → findSub [x] (l ++ x :: rest) = some l.length
  | [], _ => by
    rw [List.nil_append, findSub]
    simp [List.isPrefixOf]
  | c :: r, h => by
    have hc : c ≠ x := fun e => h (by rw [e]; exact List.mem_cons_self)
    have hr : x ∉ r := fun e => h (List.mem_cons_of_mem _ e)
    rw [List.cons_append, findSub]
    have : ([x].isPrefixOf (c :: (r ++ x :: rest))) = false := by
      simp only [List.isPrefixOf, Bool.and_true]
      simpa using fun e => hc e.symm
    rw [this]
    simp only [Bool.false_eq_true, if_false]
    rw [findSub_single_append x rest r hr]
    rfl

/-! ## first occurrences -/

/-- `find` returns the FIRST occurrence -/
theorem findSub_first {pat : Str} : ∀ {l : Str} {p : Nat}, findSub pat l = some p → ∀ q, q < p → pat.isPrefixOf (l.drop q) = false
  | [], p, h, q, hq => by
    unfold findSub at h
    split at h
    · injection h with h; omega
    · cases h
  | c :: r, p, h, q, hq => by
    unfold findSub at h
    split at h
    · injection h with h; omega
    · next hnp =>
      cases hf : findSub pat r with
      | none => rw [hf] at h; cases h
      | some p' =>
        rw [hf] at h
        simp only [Option.map_some, Option.some.injEq] at h
        cases q with
        | zero => exact Bool.eq_false_iff.mpr hnp
        | succ q' => rw [List.drop_succ_cons]; exact findSub_first hf q' (by omega)

theorem findSub_none {pat : Str} : ∀ {l : Str}, findSub pat l = none → ∀ q, pat.isPrefixOf (l.drop q) = false
  | [], h, q => by
    unfold findSub at h
    split at h
    · cases h
    · next hne =>
      rw [List.drop_nil]
      cases pat with
      | nil => simp at hne
      | cons _ _ => rfl
  | c :: r, h, q => by
    unfold findSub at h
    split at h
    · cases h
    · next hnp =>
      cases hf : findSub pat r with
      | some p' => rw [hf] at h; cases h
      | none =>
        cases q with
        | zero => exact Bool.eq_false_iff.mpr hnp
        | succ q' => rw [List.drop_succ_cons]; exact findSub_none hf q'

/-- an occurrence at `p` and none before it: `find` returns `p` -/
theorem findSub_of_first {pat : Str} : ∀ {l : Str} {p : Nat}, pat.isPrefixOf (l.drop p) = true →
    (∀ q, q < p → pat.isPrefixOf (l.drop q) = false) → p ≤ l.length → findSub pat l = some p
  | l, p, hp, hmin, hpl => by
    cases hf : findSub pat l with
    | none => have := findSub_none hf p; rw [this] at hp; cases hp
    | some p' =>
      have h1 := findSub_at hf
      have h2 := findSub_first hf
      congr 1
      by_cases hlt : p' < p
      · have := hmin p' hlt; rw [this] at h1; cases h1
      · by_cases hgt : p < p'
        · have := h2 p hgt; rw [this] at hp; cases hp
        · omega

theorem isPrefixOf_two {a b : Char} {l : Str} : [a, b].isPrefixOf l = true ↔ ∃ r, l = a :: b :: r := by
  constructor
  · intro h
    obtain ⟨t, ht⟩ := List.isPrefixOf_iff_prefix.mp h
    exact ⟨t, ht.symm⟩
  · rintro ⟨r, rfl⟩
    exact List.isPrefixOf_iff_prefix.mpr ⟨r, rfl⟩

theorem isPrefixOf_three {a b c : Char} {l : Str} : [a, b, c].isPrefixOf l = true ↔ ∃ r, l = a :: b :: c :: r := by
  constructor
  · intro h
    obtain ⟨t, ht⟩ := List.isPrefixOf_iff_prefix.mp h
    exact ⟨t, ht.symm⟩
  · rintro ⟨r, rfl⟩
    exact List.isPrefixOf_iff_prefix.mpr ⟨r, rfl⟩

/-! ## comment (CommonMark 0.29 / 0.30 rule: the text does not start with `>` or `->`, does not contain `--`, does not end with `-`) -/

def D2 : Str := ['-', '-']
def D3 : Str := ['-', '-', '>']

/-- the first `--` of `A ++ -- …` is the one after `A` exactly when `A` has no `--` and does not end with `-` -/
theorem first_dd (B : Str) (hB : ∃ t, B = '-' :: '-' :: t) : ∀ (A : Str),
    (findSub D2 (A ++ B) = some A.length) ↔ (containsSubstr A D2 = false ∧ A.getLast? ≠ some '-')
  | [] => by
    obtain ⟨t, ht⟩ := hB
    subst ht
    simp [findSub, D2, containsSubstr, List.isPrefixOf]
  | x :: A' => by
    have ih := first_dd B hB A'
    obtain ⟨t, ht⟩ := hB
    rw [List.cons_append, findSub]
    by_cases hp : D2.isPrefixOf (x :: (A' ++ B)) = true
    · rw [if_pos hp]
      constructor
      · intro h; simp at h
      · rintro ⟨h1, h2⟩
        exfalso
        obtain ⟨r, hr⟩ := isPrefixOf_two.mp hp
        injection hr with hx hr
        cases A' with
        | nil => apply h2; rw [hx]; rfl
        | cons y A'' =>
          simp only [List.cons_append] at hr
          injection hr with hy _
          have : D2.isPrefixOf (x :: y :: A'') = true := by rw [hx, hy]; exact isPrefixOf_two.mpr ⟨A'', rfl⟩
          unfold containsSubstr findSub at h1
          rw [if_pos this] at h1; simp at h1
    · rw [if_neg hp]
      have hp' : D2.isPrefixOf (x :: (A' ++ B)) = false := Bool.eq_false_iff.mpr hp
      have hcont : containsSubstr (x :: A') D2 = containsSubstr A' D2 := by
        unfold containsSubstr
        rw [findSub]
        have hnp : D2.isPrefixOf (x :: A') = false := by
          cases hh : D2.isPrefixOf (x :: A') with
          | false => rfl
          | true =>
            obtain ⟨r, hr⟩ := isPrefixOf_two.mp hh
            have : D2.isPrefixOf (x :: (A' ++ B)) = true := by
              rw [← List.cons_append, hr]; exact isPrefixOf_two.mpr ⟨r ++ B, rfl⟩
            rw [this] at hp'; cases hp'
        rw [hnp]
        simp only [Bool.false_eq_true, if_false]
        cases findSub D2 A' <;> rfl
      have hlast : ((x :: A').getLast? ≠ some '-') ↔ (A'.getLast? ≠ some '-') := by
        cases A' with
        | nil =>
          simp only [List.getLast?_singleton, List.getLast?_nil]
          have hx : x ≠ '-' := by
            intro e
            apply hp
            rw [e, List.nil_append, ht]
            exact isPrefixOf_two.mpr ⟨'-' :: t, rfl⟩
          constructor
          · intro _ h; cases h
          · intro _ h; injection h with h; exact hx h
        | cons y A'' => rw [List.getLast?_cons_cons]
      rw [hcont, hlast, ← ih]
      simp only [List.length_cons]
      cases findSub D2 (A' ++ B) with
      | none => simp
      | some q => simp

/-- LeanMark's comment rule on the text after `!--` (consumed characters counted from the `!`) -/
def lmComment (body : Str) : Option Nat :=
  if LeanMark.startsWith ['>'] body || LeanMark.startsWith ['-', '>'] body then none else
  match LeanMark.findAfter ['-', '-'] body 0 with
  | some k => if (body.drop k).head? == some '>' then some (3 + k + 1) else none
  | none => none

theorem drop_head_of_prefix {pat l : Str} {q : Nat} {c : Char} (h : (pat ++ [c]).isPrefixOf (l.drop q) = true) :
    pat.isPrefixOf (l.drop q) = true ∧ (l.drop (q + pat.length)).head? = some c := by
  obtain ⟨t, ht⟩ := List.isPrefixOf_iff_prefix.mp h
  constructor
  · rw [List.isPrefixOf_iff_prefix]; exact ⟨c :: t, by rw [← ht]; simp⟩
  · rw [← List.drop_drop, ← ht]; simp

/-- the comment form: `__process_raw_special(…, "!--", "-->", True)` = the specification's rule, unless the text after `!--`
starts with `-->` (then the code raises) -/
theorem comment_spec (body : Str) (hnc : D3.isPrefixOf body = false) :
    ∃ res, processRawSpecial (['!', '-', '-'] ++ body) ['!', '-', '-'] D3 true = .ok res ∧
      (res.1.map fun _ => res.2.toNat) = lmComment body ∧ (∀ v, res.1 = some v → v ≠ []) := by
  unfold lmComment
  rw [startsWith_eq, startsWith_eq, findAfter_eq]
  unfold processRawSpecial
  have hpre : (['!', '-', '-'].isPrefixOf (['!', '-', '-'] ++ body)) = true :=
    List.isPrefixOf_iff_prefix.mpr ⟨body, rfl⟩
  rw [if_pos hpre]
  have hdrop : (['!', '-', '-'] ++ body).drop ['!', '-', '-'].length = body := by simp
  simp only [hdrop]
  cases h3 : findSub D3 body with
  | none =>
    refine ⟨(none, -1), rfl, ?_, by intro v h; cases h⟩
    simp only [Option.map_none]
    split
    · rfl
    · cases h2 : findSub ['-', '-'] body with
      | none => rfl
      | some q =>
        simp only [Option.map_some]
        have hq := findSub_at h2
        split
        · next hgt =>
          exfalso
          have hgt' : (body.drop (q + 2)).head? = some '>' := by simpa using hgt
          have : D3.isPrefixOf (body.drop q) = true := by
            obtain ⟨r, hr⟩ := isPrefixOf_two.mp hq
            rw [← List.drop_drop, hr] at hgt'
            simp only [List.drop_succ_cons, List.drop_zero] at hgt'
            cases r with
            | nil => simp at hgt'
            | cons z r' =>
              simp only [List.head?_cons, Option.some.injEq] at hgt'
              rw [hr, hgt']; exact isPrefixOf_three.mpr ⟨r', rfl⟩
          rw [findSub_none h3 q] at this; cases this
        · rfl
  | some p =>
    have hp3 := findSub_at h3
    have hpb := findSub_bound h3
    have hfirst3 := findSub_first h3
    obtain ⟨t, ht⟩ := isPrefixOf_three.mp hp3
    have hp0 : p ≠ 0 := by
      intro e; subst e
      rw [List.drop_zero] at hp3; unfold D3 at hnc hp3; rw [hp3] at hnc; cases hnc
    have hbody : body = body.take p ++ ('-' :: '-' :: '>' :: t) := by rw [← ht, List.take_append_drop]
    have hAlen : (body.take p).length = p := by rw [List.length_take]; simp [D3] at hpb; omega
    generalize hA : body.take p = A at hbody hAlen
    have hB : ∃ t', ('-' :: '-' :: '>' :: t) = '-' :: '-' :: t' := ⟨_, rfl⟩
    have hdd := first_dd ('-' :: '-' :: '>' :: t) hB A
    rw [← hbody, hAlen] at hdd
    cases A with
    | nil => simp at hAlen; omega
    | cons a0 A1 =>
      simp only [hA, Bool.not_true, Bool.false_eq_true, if_false]
      rw [charAt_lt (by simp)]
      simp only [List.getElem_cons_zero]
      -- the two start conditions
      have hs1 : ['>'].isPrefixOf body = (a0 == '>') := by
        rw [hbody]; simp only [List.cons_append, List.isPrefixOf, Bool.and_true]
        rw [Bool.eq_iff_iff]; simp only [beq_iff_eq]; exact eq_comm
      have hs2 : ['-', '>'].isPrefixOf body = ['-', '>'].isPrefixOf (a0 :: A1) := by
        rw [hbody]
        cases A1 with
        | nil => simp [List.isPrefixOf]
        | cons a1 A2 => simp [List.isPrefixOf]
      rw [hs1, hs2]
      have hpi : (0 : Int) ≤ ((p + ['!', '-', '-'].length + D3.length : Nat) : Int) := by omega
      have hvne : ∀ v, some (['!', '-', '-'] ++ (a0 :: A1) ++ D3.dropLast) = some v → v ≠ [] := by
        intro v h; injection h with h; rw [← h]; simp
      by_cases c1 : (a0 == '>') = true
      · simp only [c1, if_true, Bool.true_or]
        exact ⟨_, rfl, rfl, by intro v h; cases h⟩
      · simp only [c1, Bool.false_eq_true, if_false, Bool.false_or]
        by_cases c2 : ['-', '>'].isPrefixOf (a0 :: A1) = true
        · simp only [c2, if_true]
          exact ⟨_, rfl, rfl, by intro v h; cases h⟩
        · simp only [c2, Bool.false_eq_true, if_false]
          have hlastne : (a0 :: A1).getLast? ≠ none := by simp
          cases hl : (a0 :: A1).getLast? with
          | none => exact absurd hl hlastne
          | some cl =>
            simp only
            -- the first `--` of the body
            have hd2p : D2.isPrefixOf (body.drop p) = true := by rw [ht]; exact isPrefixOf_two.mpr ⟨_, rfl⟩
            cases h2 : findSub ['-', '-'] body with
            | none => have := findSub_none h2 p; unfold D2 at hd2p; rw [this] at hd2p; cases hd2p
            | some q =>
              simp only [Option.map_some]
              have hq2 := findSub_at h2
              have hfirst2 := findSub_first h2
              have hqle : q ≤ p := by
                by_cases hh : q ≤ p
                · exact hh
                · have := hfirst2 p (by omega); unfold D2 at hd2p; rw [this] at hd2p; cases hd2p
              by_cases hqp : q = p
              · -- the code accepts
                subst hqp
                have hok := hdd.mp (by unfold D2; exact h2)
                rw [hl] at hok
                have c3 : (cl == '-') = false := by
                  simp only [beq_eq_false_iff_ne, ne_eq]; intro e; exact hok.2 (by rw [e])
                simp only [c3, Bool.false_eq_true, if_false]
                unfold D2 at hok
                simp only [hok.1, Bool.false_eq_true, if_false]
                refine ⟨_, rfl, ?_, hvne⟩
                have hhead : (body.drop (0 + q + ['-', '-'].length)).head? = some '>' := by
                  have : 0 + q + ['-', '-'].length = q + 2 := by simp
                  rw [this, ← List.drop_drop, ht]; rfl
                rw [hhead]
                simp only [beq_self_eq_true, if_true, Option.map_some]
                congr 1
                simp [D3]; omega
              · -- the code rejects (a `--` inside the text or a `-` at its end); so does the specification
                have hnot : ¬ (containsSubstr (a0 :: A1) D2 = false ∧ (a0 :: A1).getLast? ≠ some '-') := by
                  intro h
                  have := hdd.mpr h
                  unfold D2 at this
                  rw [h2] at this; injection this with this; exact hqp this
                have hrej : (if (cl == '-') = true then (Except.ok (none, ((p + ['!', '-', '-'].length + D3.length : Nat) : Int)) : Except Err (Option Str × Int))
                    else if containsSubstr (a0 :: A1) ['-', '-'] = true then Except.ok (none, ((p + ['!', '-', '-'].length + D3.length : Nat) : Int))
                    else Except.ok (some (['!', '-', '-'] ++ (a0 :: A1) ++ D3.dropLast), ((p + ['!', '-', '-'].length + D3.length : Nat) : Int))) =
                    Except.ok (none, ((p + ['!', '-', '-'].length + D3.length : Nat) : Int)) := by
                  by_cases c3 : (cl == '-') = true
                  · rw [if_pos c3]
                  · rw [if_neg c3]
                    by_cases c4 : containsSubstr (a0 :: A1) ['-', '-'] = true
                    · rw [if_pos c4]
                    · exfalso; apply hnot
                      refine ⟨by unfold D2; simpa using c4, ?_⟩
                      rw [hl]; intro e; injection e with e; rw [e] at c3; exact c3 (by decide)
                rw [hrej]
                refine ⟨_, rfl, ?_, by intro v h; cases h⟩
                simp only [Option.map_none]
                split
                · next hgt =>
                  exfalso
                  have hgt' : (body.drop (q + 2)).head? = some '>' := by
                    have : 0 + q + ['-', '-'].length = q + 2 := by simp
                    rw [this] at hgt; simpa using hgt
                  have : D3.isPrefixOf (body.drop q) = true := by
                    obtain ⟨r, hr⟩ := isPrefixOf_two.mp hq2
                    rw [← List.drop_drop, hr] at hgt'
                    simp only [List.drop_succ_cons, List.drop_zero] at hgt'
                    cases r with
                    | nil => simp at hgt'
                    | cons z r' =>
                      simp only [List.head?_cons, Option.some.injEq] at hgt'
                      rw [hr, hgt']; exact isPrefixOf_three.mpr ⟨r', rfl⟩
                  rw [hfirst3 q (by omega)] at this; cases this
                · rfl

/-! ## the whole `parse_raw_html` -/

/-- characters consumed after the `<`, from what `parse_raw_html` returns -/
def consumed (between : Str) (x : Str × Int) : Nat := if x.2 = -1 then between.length + 1 else x.2.toNat

theorem truthy_some_ne {v : Str} (h : v ≠ []) : truthy (some v) = true := by
  cases v with
  | nil => exact absurd rfl h
  | cons _ _ => rfl

/-- once a form is recognised, the later attempts are skipped -/
theorem chain_found (between remaining : Str) (v : Str) (e : Int) (hv : v ≠ []) :
    rawChain between remaining (some v, e) = .ok (some (v, e)) := by
  have ht := truthy_some_ne hv
  unfold rawChain
  simp only [orTry, orTryKeep, ht, Bool.not_true, Bool.false_eq_true, if_false, if_true, Option.map_some]

theorem special_not_prefix (rem start end_ : Str) (extra : Bool) (h : start.isPrefixOf rem = false) :
    processRawSpecial rem start end_ extra = .ok (none, -1) := by
  unfold processRawSpecial
  rw [h]; rfl

theorem isPrefixOf_head_ne {a c : Char} {p l : Str} (h : c ≠ a) : (a :: p).isPrefixOf (c :: l) = false := by
  simp only [List.isPrefixOf, Bool.and_eq_false_imp, beq_iff_eq]
  intro e; exact absurd e.symm h

theorem scanCloseTag_head_ne {c : Char} {l : Str} (h : c ≠ '/') : LeanMark.scanCloseTag (c :: l) = none := by
  unfold LeanMark.scanCloseTag
  split
  · next c' r' heq => injection heq with h1 _; exact absurd h1 h
  · rfl

theorem parseRawCloseTag_head_ne {c : Char} {l : Str} (h : c ≠ '/') : parseRawCloseTag (c :: l) = .ok none := by
  rw [parseRawCloseTag_eq]
  have : isCharAt (c :: l) 0 '/' = false := by
    show (c == '/') = false
    simpa using h
  simp only [this, Bool.false_and, Bool.false_eq_true, if_false]

theorem parseRawDeclaration_head_ne {c : Char} {l : Str} (h : c ≠ '!') : parseRawDeclaration (c :: l) = .ok none := by
  rw [parseRawDeclaration_eq]
  have : isCharAt (c :: l) 0 '!' = false := by
    show (c == '!') = false
    simpa using h
  simp only [this, Bool.false_and, Bool.false_eq_true, if_false]

theorem toList_lits : "!--".toList = ['!', '-', '-'] ∧ "?".toList = ['?'] ∧ "![CDATA[".toList = CDATA_START ∧
    ">".toList = ['>'] ∧ "->".toList = ['-', '>'] ∧ "--".toList = ['-', '-'] ∧ "?>".toList = ['?', '>'] ∧
    "]]>".toList = [']', ']', '>'] := ⟨rfl, rfl, rfl, rfl, rfl, rfl, rfl, rfl⟩

/-- no form starts with this character (the open tag has already failed) -/
theorem rawhtml_other (c0 : Char) (b1 rest : Str) (h1 : c0 ≠ '/') (h2 : c0 ≠ '!') (h3 : c0 ≠ '?')
    (hopen : LeanMark.scanOpenTag (c0 :: (b1 ++ '>' :: rest)) = none)
    (hpy : parseRawOpenTag (c0 :: (b1 ++ '>' :: rest)) = .ok none) :
    parseRawHtml (c0 :: b1) (c0 :: (b1 ++ '>' :: rest)) = .ok none ∧ LeanMark.scanRawHtml (c0 :: (b1 ++ '>' :: rest)) = none := by
  have p1 : ['!', '-', '-'].isPrefixOf (c0 :: (b1 ++ '>' :: rest)) = false := isPrefixOf_head_ne h2
  have p2 : ['?'].isPrefixOf (c0 :: (b1 ++ '>' :: rest)) = false := isPrefixOf_head_ne h3
  have p3 : CDATA_START.isPrefixOf (c0 :: (b1 ++ '>' :: rest)) = false := isPrefixOf_head_ne h2
  constructor
  · unfold parseRawHtml
    rw [hpy]
    simp only [openSt]
    unfold rawChain
    rw [parseRawCloseTag_head_ne h1, parseRawDeclaration_head_ne h2]
    rw [special_not_prefix _ ['!', '-', '-'] _ _ p1, special_not_prefix _ ['?'] _ _ p2, special_not_prefix _ CDATA_START _ _ p3]
    simp only [orTry, orTryKeep, truthy, Bool.not_false, if_true, Bool.false_eq_true, if_false]
  · unfold LeanMark.scanRawHtml
    rw [hopen]
    simp only
    rw [scanCloseTag_head_ne h1]
    simp only [startsWith_eq, toList_lits.1, toList_lits.2.1, toList_lits.2.2.1, p1, p2, p3, Bool.false_eq_true, if_false]
    split
    · next c t heq => injection heq with h _; exact absurd h h2
    · rfl

/-- closing tag -/
theorem rawhtml_slash (b1 rest : Str) (hgt : '>' ∉ b1) (hws : OnlySpTab ('/' :: b1))
    (hopen : LeanMark.scanOpenTag ('/' :: (b1 ++ '>' :: rest)) = none)
    (hpy : parseRawOpenTag ('/' :: (b1 ++ '>' :: rest)) = .ok none) :
    ∃ res, parseRawHtml ('/' :: b1) ('/' :: (b1 ++ '>' :: rest)) = .ok res ∧
      res.map (consumed ('/' :: b1)) = LeanMark.scanRawHtml ('/' :: (b1 ++ '>' :: rest)) := by
  have hgt' : '>' ∉ '/' :: b1 := by
    intro h; rcases List.mem_cons.mp h with h | h
    · cases h
    · exact hgt h
  obtain ⟨ok, h1, h2⟩ := closeTag_spec ('/' :: b1) rest hgt' hws
  rw [List.cons_append] at h2
  have p1 : ['!', '-', '-'].isPrefixOf ('/' :: (b1 ++ '>' :: rest)) = false := isPrefixOf_head_ne (by decide)
  have p2 : ['?'].isPrefixOf ('/' :: (b1 ++ '>' :: rest)) = false := isPrefixOf_head_ne (by decide)
  have p3 : CDATA_START.isPrefixOf ('/' :: (b1 ++ '>' :: rest)) = false := isPrefixOf_head_ne (by decide)
  unfold parseRawHtml LeanMark.scanRawHtml
  rw [hpy, hopen, h1, h2]
  simp only [openSt]
  cases ok
  case true =>
    simp only [if_true]
    have hfound := chain_found ('/' :: b1) ('/' :: (b1 ++ '>' :: rest)) ('/' :: b1) (-1) (by simp)
    have hk : orTryKeep (none, -1) (Except.ok (some ('/' :: b1)) : Except Err (Option Str)) = .ok (some ('/' :: b1), -1) := rfl
    rw [hk]
    simp only
    rw [hfound]
    exact ⟨_, rfl, by simp [consumed]⟩
  case false =>
    simp only [Bool.false_eq_true, if_false]
    unfold rawChain
    rw [parseRawDeclaration_head_ne (by decide)]
    rw [special_not_prefix _ ['!', '-', '-'] _ _ p1, special_not_prefix _ ['?'] _ _ p2, special_not_prefix _ CDATA_START _ _ p3]
    refine ⟨none, by simp only [orTry, orTryKeep, truthy, Bool.not_false, if_true, Bool.false_eq_true, if_false], ?_⟩
    simp only [startsWith_eq, toList_lits.1, toList_lits.2.1, toList_lits.2.2.1, p1, p2, p3, Bool.false_eq_true, if_false,
      Option.map_none]
    split
    · next c t heq => injection heq with h _; cases h
    · rfl

/-- processing instruction -/
theorem rawhtml_question (b1 rest : Str)
    (hopen : LeanMark.scanOpenTag ('?' :: (b1 ++ '>' :: rest)) = none)
    (hpy : parseRawOpenTag ('?' :: (b1 ++ '>' :: rest)) = .ok none) :
    ∃ res, parseRawHtml ('?' :: b1) ('?' :: (b1 ++ '>' :: rest)) = .ok res ∧
      res.map (consumed ('?' :: b1)) = LeanMark.scanRawHtml ('?' :: (b1 ++ '>' :: rest)) := by
  have p1 : ['!', '-', '-'].isPrefixOf ('?' :: (b1 ++ '>' :: rest)) = false := isPrefixOf_head_ne (by decide)
  have p2 : ['?'].isPrefixOf ('?' :: (b1 ++ '>' :: rest)) = true := rfl
  have p3 : CDATA_START.isPrefixOf ('?' :: (b1 ++ '>' :: rest)) = false := isPrefixOf_head_ne (by decide)
  unfold parseRawHtml LeanMark.scanRawHtml
  rw [hpy, hopen]
  simp only [openSt]
  rw [parseRawCloseTag_head_ne (by decide), scanCloseTag_head_ne (by decide)]
  unfold rawChain
  rw [special_not_prefix _ ['!', '-', '-'] _ _ p1, special_plain_spec _ ['?'] ['?', '>'] 1 rfl, p2]
  simp only [startsWith_eq, toList_lits.1, toList_lits.2.1, toList_lits.2.2.2.2.2.2.1, p1, p2, Bool.false_eq_true, if_false, if_true,
    findAfter_eq, List.drop_succ_cons, List.drop_zero]
  cases hf : findSub ['?', '>'] (b1 ++ '>' :: rest) with
  | none =>
    simp only
    rw [parseRawDeclaration_head_ne (by decide), special_not_prefix _ CDATA_START _ _ p3]
    exact ⟨none, by simp only [orTry, orTryKeep, truthy, Bool.not_false, if_true, Bool.false_eq_true, if_false], rfl⟩
  | some p =>
    simp only
    have hne : ¬ (((p + 1 + ['?', '>'].length : Nat) : Int) = -1) := by omega
    have hv : ∃ x xs, (['?'] ++ (b1 ++ '>' :: rest).take p ++ ['?', '>'].dropLast) = x :: xs := ⟨'?', _, rfl⟩
    obtain ⟨x, xs, hx⟩ := hv
    rw [hx]
    refine ⟨some (x :: xs, ((p + 1 + ['?', '>'].length : Nat) : Int)), by
      simp only [orTry, orTryKeep, truthy, List.isEmpty, Bool.not_false, Bool.not_true, if_true, Bool.false_eq_true,
        if_false, Option.map_some], ?_⟩
    simp only [Option.map_some, consumed]
    simp only [hne, if_false, Int.toNat_natCast]
    congr 1
    simp

theorem decl_none_of_not_upper (c : Char) (b2 : Str) (h : isUpper c = false) :
    parseRawDeclaration ('!' :: c :: b2) = .ok none := by
  rw [parseRawDeclaration_eq]
  have : scanTo ('!' :: c :: b2) asciiUpper.contains 1 = 1 := by
    apply scanTo_fix (by simp)
    show asciiUpper.contains c = false
    rw [asciiUpper_eq]; exact h
  rw [this]
  simp

/-- comment -/
theorem rawhtml_comment (b2 rest : Str)
    (hcr : COMMENT_CRASH.isPrefixOf ('!' :: ('-' :: '-' :: b2 ++ '>' :: rest)) = false)
    (hopen : LeanMark.scanOpenTag ('!' :: ('-' :: '-' :: b2 ++ '>' :: rest)) = none)
    (hpy : parseRawOpenTag ('!' :: ('-' :: '-' :: b2 ++ '>' :: rest)) = .ok none) :
    ∃ res, parseRawHtml ('!' :: '-' :: '-' :: b2) ('!' :: ('-' :: '-' :: b2 ++ '>' :: rest)) = .ok res ∧
      res.map (consumed ('!' :: '-' :: '-' :: b2)) = LeanMark.scanRawHtml ('!' :: ('-' :: '-' :: b2 ++ '>' :: rest)) := by
  have hnc : D3.isPrefixOf (b2 ++ '>' :: rest) = false := by
    cases hh : D3.isPrefixOf (b2 ++ '>' :: rest) with
    | false => rfl
    | true =>
      obtain ⟨t, ht⟩ := isPrefixOf_three.mp hh
      have : COMMENT_CRASH.isPrefixOf ('!' :: ('-' :: '-' :: b2 ++ '>' :: rest)) = true := by
        rw [List.cons_append, List.cons_append, ht]; rfl
      rw [this] at hcr; cases hcr
  obtain ⟨res, hres, hlm, hvne⟩ := comment_spec (b2 ++ '>' :: rest) hnc
  have hr : ['!', '-', '-'] ++ (b2 ++ '>' :: rest) = '!' :: ('-' :: '-' :: b2 ++ '>' :: rest) := rfl
  rw [hr] at hres
  have hidx : res.1.isSome → res.2 ≠ -1 := by
    obtain ⟨r', hr', _, hi⟩ := processRawSpecial_ok ('!' :: ('-' :: '-' :: b2 ++ '>' :: rest)) ['!', '-', '-'] D3 true
      (by
        rintro ⟨_, _, h0⟩
        have := findSub_zero h0
        simp only [List.length_cons, List.length_nil, List.cons_append, List.drop_succ_cons, List.drop_zero] at this
        rw [this] at hnc; cases hnc)
    rw [hres] at hr'; injection hr' with hr'; rw [hr']; exact hi
  have p2 : ['?'].isPrefixOf ('!' :: ('-' :: '-' :: b2 ++ '>' :: rest)) = false := isPrefixOf_head_ne (by decide)
  have p3 : CDATA_START.isPrefixOf ('!' :: ('-' :: '-' :: b2 ++ '>' :: rest)) = false := by
    simp [CDATA_START, List.isPrefixOf]
  have p1 : ['!', '-', '-'].isPrefixOf ('!' :: ('-' :: '-' :: b2 ++ '>' :: rest)) = true := rfl
  unfold parseRawHtml LeanMark.scanRawHtml
  rw [hpy, hopen]
  simp only [openSt]
  rw [parseRawCloseTag_head_ne (by decide), scanCloseTag_head_ne (by decide)]
  have hk : orTryKeep (none, -1) (Except.ok none : Except Err (Option Str)) = .ok (none, -1) := rfl
  rw [hk]
  simp only
  -- the specification side is `lmComment`
  rw [startsWith_eq, toList_lits.1, p1]
  simp only [if_true]
  change ∃ res', _ ∧ _ = lmComment (b2 ++ '>' :: rest)
  rw [← hlm]
  unfold rawChain
  have hD3 : ['-', '-', '>'] = D3 := rfl
  rw [hD3, hres]
  obtain ⟨r1, r2⟩ := res
  cases r1 with
  | none =>
    simp only at hlm ⊢
    rw [special_not_prefix _ ['?'] _ _ p2, special_not_prefix _ CDATA_START _ _ p3,
      decl_none_of_not_upper '-' ('-' :: b2) (by decide)]
    exact ⟨none, by simp only [orTry, orTryKeep, truthy, Bool.not_false, if_true, Bool.false_eq_true, if_false], rfl⟩
  | some v =>
    have hv := hvne v rfl
    have hi : r2 ≠ -1 := hidx rfl
    obtain ⟨x, xs, hx⟩ : ∃ x xs, v = x :: xs := by
      cases v with
      | nil => exact absurd rfl hv
      | cons x xs => exact ⟨x, xs, rfl⟩
    subst hx
    refine ⟨some (x :: xs, r2), by
      simp only [orTry, orTryKeep, truthy, List.isEmpty, Bool.not_false, Bool.not_true, if_true, Bool.false_eq_true,
        if_false, Option.map_some], ?_⟩
    simp only [Option.map_some, consumed, hi, if_false]

/-- CDATA section: `X` = the text after `![CDATA[` -/
theorem rawhtml_cdata (b2 X : Str)
    (hopen : LeanMark.scanOpenTag ('!' :: '[' :: 'C' :: 'D' :: 'A' :: 'T' :: 'A' :: '[' :: X) = none)
    (hpy : parseRawOpenTag ('!' :: '[' :: 'C' :: 'D' :: 'A' :: 'T' :: 'A' :: '[' :: X) = .ok none) :
    ∃ res, parseRawHtml ('!' :: '[' :: b2) ('!' :: '[' :: 'C' :: 'D' :: 'A' :: 'T' :: 'A' :: '[' :: X) = .ok res ∧
      res.map (consumed ('!' :: '[' :: b2)) = LeanMark.scanRawHtml ('!' :: '[' :: 'C' :: 'D' :: 'A' :: 'T' :: 'A' :: '[' :: X) := by
  have p1 : ['!', '-', '-'].isPrefixOf ('!' :: '[' :: 'C' :: 'D' :: 'A' :: 'T' :: 'A' :: '[' :: X) = false := by
    simp [List.isPrefixOf]
  have p2 : ['?'].isPrefixOf ('!' :: '[' :: 'C' :: 'D' :: 'A' :: 'T' :: 'A' :: '[' :: X) = false := isPrefixOf_head_ne (by decide)
  have p3 : CDATA_START.isPrefixOf ('!' :: '[' :: 'C' :: 'D' :: 'A' :: 'T' :: 'A' :: '[' :: X) = true := by
    simp [CDATA_START, List.isPrefixOf]
  unfold parseRawHtml LeanMark.scanRawHtml
  rw [hpy, hopen]
  simp only [openSt]
  rw [parseRawCloseTag_head_ne (by decide), scanCloseTag_head_ne (by decide)]
  unfold rawChain
  rw [special_not_prefix _ ['!', '-', '-'] _ _ p1, special_not_prefix _ ['?'] _ _ p2,
    special_plain_spec _ CDATA_START [']', ']', '>'] 8 rfl, p3]
  simp only [startsWith_eq, toList_lits.1, toList_lits.2.1, toList_lits.2.2.1, toList_lits.2.2.2.2.2.2.2, p1, p2, p3,
    Bool.false_eq_true, if_false, if_true, findAfter_eq, List.drop_succ_cons, List.drop_zero]
  cases hf : findSub [']', ']', '>'] X with
  | none =>
    simp only
    rw [decl_none_of_not_upper '[' b2 (by decide)]
    exact ⟨none, by simp only [orTry, orTryKeep, truthy, Bool.not_false, if_true, Bool.false_eq_true, if_false], rfl⟩
  | some p =>
    simp only
    have hne : ¬ (((p + 8 + [']', ']', '>'].length : Nat) : Int) = -1) := by omega
    obtain ⟨x, xs, hx⟩ : ∃ x xs, (CDATA_START ++ X.take p ++ [']', ']', '>'].dropLast) = x :: xs := ⟨'!', _, rfl⟩
    rw [hx]
    refine ⟨some (x :: xs, ((p + 8 + [']', ']', '>'].length : Nat) : Int)), by
      simp only [orTry, orTryKeep, truthy, List.isEmpty, Bool.not_false, Bool.not_true, if_true, Bool.false_eq_true,
        if_false, Option.map_some], ?_⟩
    simp only [Option.map_some, consumed]
    simp only [hne, if_false, Int.toNat_natCast]
    congr 1
    simp

theorem takeWhile_append_stop (p : Char → Bool) (x : Char) (t : Str) (hx : p x = false) :
    ∀ (l : Str), (l ++ x :: t).takeWhile p = l.takeWhile p
  | [] => by simp [List.takeWhile_cons, hx]
  | c :: r => by
    simp only [List.cons_append, List.takeWhile_cons]
    split
    · rw [takeWhile_append_stop p x t hx r]
    · rfl

theorem drop_append_le (l Y : Str) (k : Nat) (h : k ≤ l.length) : (l ++ Y).drop k = l.drop k ++ Y := by
  rw [List.drop_append_of_le_length h]

/-- the chain when nothing but a declaration can match -/
theorem chain_decl (between remaining : Str) (h1 : ['!', '-', '-'].isPrefixOf remaining = false)
    (h2 : ['?'].isPrefixOf remaining = false) (h3 : CDATA_START.isPrefixOf remaining = false) (d : Option Str)
    (hd : parseRawDeclaration between = .ok d) (hdne : ∀ v, d = some v → v ≠ []) :
    rawChain between remaining (none, -1) = .ok (d.map fun v => (v, -1)) := by
  unfold rawChain
  rw [special_not_prefix _ ['!', '-', '-'] _ _ h1, special_not_prefix _ ['?'] _ _ h2, special_not_prefix _ CDATA_START _ _ h3, hd]
  cases d with
  | none => simp only [orTry, orTryKeep, truthy, Bool.not_false, if_true, Bool.false_eq_true, if_false, Option.map_none]
  | some v =>
    obtain ⟨x, xs, hx⟩ : ∃ x xs, v = x :: xs := by
      cases v with
      | nil => exact absurd rfl (hdne [] rfl)
      | cons x xs => exact ⟨x, xs, rfl⟩
    subst hx
    simp only [orTry, orTryKeep, truthy, List.isEmpty, Bool.not_false, Bool.not_true, if_true, Bool.false_eq_true, if_false,
      Option.map_some]

/-- declaration (and everything else that starts with `!` but is neither a comment nor CDATA) -/
theorem rawhtml_decl (b1 rest : Str) (hgt : '>' ∉ b1)
    (hn1 : ['!', '-', '-'].isPrefixOf ('!' :: (b1 ++ '>' :: rest)) = false)
    (hn3 : CDATA_START.isPrefixOf ('!' :: (b1 ++ '>' :: rest)) = false)
    (hsp : ∀ c b2, b1 = c :: b2 → isUpper c = true → OnlySp ('!' :: b1))
    (hopen : LeanMark.scanOpenTag ('!' :: (b1 ++ '>' :: rest)) = none)
    (hpy : parseRawOpenTag ('!' :: (b1 ++ '>' :: rest)) = .ok none) :
    ∃ res, parseRawHtml ('!' :: b1) ('!' :: (b1 ++ '>' :: rest)) = .ok res ∧
      res.map (consumed ('!' :: b1)) = LeanMark.scanRawHtml ('!' :: (b1 ++ '>' :: rest)) := by
  have p2 : ['?'].isPrefixOf ('!' :: (b1 ++ '>' :: rest)) = false := isPrefixOf_head_ne (by decide)
  obtain ⟨d, hd, hdv⟩ := parseRawDeclaration_ok ('!' :: b1)
  have hdne : ∀ v, d = some v → v ≠ [] := by
    intro v hv; rw [(hdv v hv).1]; simp
  have hchain := chain_decl ('!' :: b1) ('!' :: (b1 ++ '>' :: rest)) hn1 p2 hn3 d hd hdne
  unfold parseRawHtml LeanMark.scanRawHtml
  rw [hpy, hopen]
  simp only [openSt]
  rw [parseRawCloseTag_head_ne (by decide), scanCloseTag_head_ne (by decide)]
  have hk : orTryKeep (none, -1) (Except.ok none : Except Err (Option Str)) = .ok (none, -1) := rfl
  rw [hk]
  simp only
  rw [hchain]
  refine ⟨_, rfl, ?_⟩
  simp only [startsWith_eq, toList_lits.1, toList_lits.2.1, toList_lits.2.2.1, toList_lits.2.2.2.1, hn1, p2, hn3,
    Bool.false_eq_true, if_false, findAfter_eq]
  -- what the declaration recogniser says, in closed form
  rw [parseRawDeclaration_eq] at hd
  injection hd with hd
  cases b1 with
  | nil =>
    have : scanTo ['!'] asciiUpper.contains 1 = 1 := scanTo_end (by simp)
    rw [this] at hd
    simp at hd
    rw [← hd]
    simp only [List.nil_append, Option.map_none]
    have : isUpper '>' = false := by decide
    simp only [this, Bool.false_eq_true, if_false]
  | cons c b2 =>
    simp only [List.cons_append]
    by_cases hu : isUpper c = true
    · simp only [hu, if_true]
      have hgt' : isUpper '>' = false := by decide
      have hsp' := hsp c b2 rfl hu
      -- the name and what follows it
      have hnm : ((c :: b2) ++ '>' :: rest).takeWhile isUpper = (c :: b2).takeWhile isUpper :=
        takeWhile_append_stop isUpper '>' rest hgt' (c :: b2)
      have hdrop1 : List.drop 1 ('!' :: c :: (b2 ++ '>' :: rest)) = (c :: b2) ++ '>' :: rest := rfl
      rw [hdrop1, hnm]
      generalize hU : ((c :: b2).takeWhile isUpper).length = k
      have hk1 : 1 ≤ k := by rw [← hU]; simp [List.takeWhile_cons, hu]
      have hkle : k ≤ (c :: b2).length := by rw [← hU]; exact takeWhile_length_le _ _
      have hafter : List.drop (1 + k) ('!' :: c :: (b2 ++ '>' :: rest)) = (c :: b2).drop k ++ '>' :: rest := by
        rw [Nat.add_comm, List.drop_succ_cons, ← List.cons_append, drop_append_le _ _ _ hkle]
      rw [hafter]
      have hR : (c :: b2).drop k = (c :: b2).dropWhile isUpper := by rw [dropWhile_eq_drop, hU]
      -- the faithful side
      have hscan : scanTo ('!' :: c :: b2) asciiUpper.contains 1 = 1 + k := by
        rw [scanTo_congr asciiUpper_eq]; unfold scanTo; rw [← hU]; rfl
      rw [hscan] at hd
      have hd1 : decide (1 < 1 + k) = true := by simp; omega
      have h0 : isCharAt ('!' :: c :: b2) 0 '!' = true := rfl
      rw [h0, hd1] at hd
      simp only [Bool.true_and] at hd
      cases hR' : (c :: b2).drop k with
      | nil =>
        have hend : scanTo ('!' :: c :: b2) (· == ' ') (1 + k) = 1 + k := by
          apply scanTo_end
          have := congrArg List.length hR'
          rw [List.length_drop] at this
          simp only [List.length_cons, List.length_nil] at this ⊢
          omega
        rw [hend] at hd
        simp at hd
        rw [← hd]
        simp only [List.nil_append, Option.map_none]
        have : LeanMark.isWsChar '>' = false := by decide
        simp only [this, Bool.false_eq_true, if_false]
      | cons w R' =>
        simp only [List.cons_append]
        have hwmem : w ∈ '!' :: c :: b2 := by
          apply List.mem_cons_of_mem
          have : w ∈ (c :: b2).drop k := by rw [hR']; exact List.mem_cons_self
          exact List.mem_of_mem_drop this
        have hkl : 1 + k < ('!' :: c :: b2).length := by
          have := congrArg List.length hR'
          rw [List.length_drop] at this
          simp only [List.length_cons] at this ⊢
          omega
        have hwk : ('!' :: c :: b2)[1 + k] = w := by
          have h1 : (('!' :: c :: b2).drop (1 + k)).head? = some w := by
            rw [Nat.add_comm, List.drop_succ_cons, hR']; rfl
          rw [List.head?_drop, List.getElem?_eq_getElem hkl] at h1
          injection h1
        have hgtR : '>' ∉ w :: R' := by
          intro hm; rw [← hR'] at hm; exact hgt (List.mem_of_mem_drop hm)
        by_cases hws : LeanMark.isWsChar w = true
        · have hwsp : w = ' ' := hsp' w hwmem hws
          have hgt2 : 1 + k < scanTo ('!' :: c :: b2) (· == ' ') (1 + k) :=
            scanTo_gt hkl (by rw [hwk, hwsp]; rfl)
          have : decide (1 + k < scanTo ('!' :: c :: b2) (· == ' ') (1 + k)) = true := by simpa using hgt2
          rw [this] at hd
          simp only [if_true] at hd
          rw [← hd]
          simp only [hws, if_true, Option.map_some, consumed]
          rw [← List.cons_append, findSub_single_append '>' rest (w :: R') hgtR]
          simp only [Option.map_some]
          congr 1
          have hlen : (c :: b2).length = k + (w :: R').length := by
            have := congrArg List.length hR'
            rw [List.length_drop] at this
            omega
          simp only [List.length_cons, List.length_nil] at hlen ⊢
          omega
        · have hws' : LeanMark.isWsChar w = false := by simpa using hws
          have hne : w ≠ ' ' := by intro e; rw [e] at hws'; revert hws'; decide
          have hfix : scanTo ('!' :: c :: b2) (· == ' ') (1 + k) = 1 + k :=
            scanTo_fix hkl (by rw [hwk]; simpa using hne)
          rw [hfix] at hd
          simp at hd
          rw [← hd]
          simp only [hws', Bool.false_eq_true, if_false, Option.map_none]
    · have hu' : isUpper c = false := by simpa using hu
      simp only [hu', Bool.false_eq_true, if_false]
      have := decl_none_of_not_upper c b2 hu'
      rw [parseRawDeclaration_eq] at this
      injection this with this
      rw [this] at hd
      rw [← hd]; rfl

/-- **raw HTML**: `parse_raw_html` on (the text up to the first `>`, the remaining line) recognises exactly what the specification
(LeanMark's `scanRawHtml`, comment rule of 0.29/0.30) recognises and consumes the same number of characters, for every input with
* no empty unquoted attribute value (`hemp`; else the code accepts more: `rawOpenTag_spec_excluded`),
* a remaining line that does not start with `!---->` (`hcr`; else the code raises: `parseRawHtml_excluded`),
* in a closing tag only spaces / tabs as white space (`hcl`), in a declaration only spaces (`hde`) (else the code rejects more). -/
theorem rawhtml_spec (between rest : Str) (hne : between ≠ []) (hgt : '>' ∉ between)
    (hcr : COMMENT_CRASH.isPrefixOf (between ++ '>' :: rest) = false)
    (hemp : hasEmptyUnq (between ++ '>' :: rest) = false)
    (hcl : between.head? = some '/' → OnlySpTab between)
    (hde : ∀ c t, between = '!' :: c :: t → isUpper c = true → OnlySp between) :
    ∃ res, parseRawHtml between (between ++ '>' :: rest) = .ok res ∧
      res.map (consumed between) = LeanMark.scanRawHtml (between ++ '>' :: rest) := by
  match between, hne with
  | c0 :: b1, _ =>
    rw [List.cons_append] at hcr hemp ⊢
    have hgt1 : '>' ∉ b1 := fun e => hgt (List.mem_cons_of_mem _ e)
    have hpy := rawOpenTag_spec _ hemp
    cases hopen : LeanMark.scanOpenTag (c0 :: (b1 ++ '>' :: rest)) with
    | some n =>
      rw [hopen] at hpy
      simp only [Option.map_some] at hpy
      obtain ⟨r0, hr0, hb0⟩ := parseRawOpenTag_ok (c0 :: (b1 ++ '>' :: rest))
      rw [hpy] at hr0
      injection hr0 with hr0
      obtain ⟨b1', b2', b3', _⟩ := hb0 _ _ hr0.symm
      have hv : List.take (n - 1) (c0 :: (b1 ++ '>' :: rest)) ≠ [] := by
        intro hnil
        have := congrArg List.length hnil
        rw [List.length_take] at this
        simp only [List.length_nil] at this
        omega
      unfold parseRawHtml LeanMark.scanRawHtml
      rw [hpy, hopen]
      simp only [openSt]
      have hk : orTryKeep (some (List.take (n - 1) (c0 :: (b1 ++ '>' :: rest))), (n : Int)) (parseRawCloseTag (c0 :: b1)) =
          .ok (some (List.take (n - 1) (c0 :: (b1 ++ '>' :: rest))), (n : Int)) := by
        unfold orTryKeep
        rw [truthy_some_ne hv]; rfl
      rw [hk]
      simp only
      rw [chain_found _ _ _ _ hv]
      refine ⟨_, rfl, ?_⟩
      simp only [Option.map_some, consumed]
      have : ¬ ((n : Int) = -1) := by omega
      simp only [this, if_false, Int.toNat_natCast]
    | none =>
      rw [hopen] at hpy
      simp only [Option.map_none] at hpy
      by_cases h1 : c0 = '/'
      · subst h1
        exact rawhtml_slash b1 rest hgt1 (hcl rfl) hopen hpy
      · by_cases h3 : c0 = '?'
        · subst h3
          exact rawhtml_question b1 rest hopen hpy
        · by_cases h2 : c0 = '!'
          · subst h2
            by_cases hc : ['!', '-', '-'].isPrefixOf ('!' :: (b1 ++ '>' :: rest)) = true
            · -- comment: the text up to the first `>` starts with `!--`
              obtain ⟨t, ht⟩ := List.isPrefixOf_iff_prefix.mp hc
              simp only [List.cons_append, List.cons.injEq, true_and, List.nil_append] at ht
              match b1, hgt1, ht with
              | [], _, ht => simp at ht
              | [x], _, ht => simp at ht
              | x :: y :: b2, hgt1, ht =>
                simp only [List.cons_append, List.cons.injEq] at ht
                obtain ⟨hx, hy, _⟩ := ht
                subst hx hy
                exact rawhtml_comment b2 rest hcr hopen hpy
            · have hc' : ['!', '-', '-'].isPrefixOf ('!' :: (b1 ++ '>' :: rest)) = false := Bool.eq_false_iff.mpr hc
              by_cases hd : CDATA_START.isPrefixOf ('!' :: (b1 ++ '>' :: rest)) = true
              · obtain ⟨X, hX⟩ := List.isPrefixOf_iff_prefix.mp hd
                match b1, hgt1, hX with
                | [], _, hX => simp [CDATA_START] at hX
                | x :: b2, _, hX =>
                  have hx : x = '[' := by
                    simp only [CDATA_START, List.cons_append, List.cons.injEq, true_and] at hX
                    exact hX.1.symm
                  subst hx
                  have hr : '!' :: ('[' :: b2 ++ '>' :: rest) = '!' :: '[' :: 'C' :: 'D' :: 'A' :: 'T' :: 'A' :: '[' :: X := by
                    rw [← hX]; rfl
                  rw [hr] at hopen hpy ⊢
                  exact rawhtml_cdata b2 X hopen hpy
              · have hd' : CDATA_START.isPrefixOf ('!' :: (b1 ++ '>' :: rest)) = false := Bool.eq_false_iff.mpr hd
                exact rawhtml_decl b1 rest hgt1 hc' hd' (fun c b2 hb hu => hde c b2 (by rw [hb]) hu) hopen hpy
          · have := rawhtml_other c0 b1 rest h1 h2 h3 hopen hpy
            exact ⟨none, this.1, by rw [this.2]; rfl⟩

/-- the excluded points of the closing tag and of the declaration are real: a newline before `>` -/
theorem rawhtml_spec_excluded :
    parseRawHtml ['/', 'a', '\n'] ['/', 'a', '\n', '>'] = .ok none ∧ LeanMark.scanRawHtml ['/', 'a', '\n', '>'] = some 4 ∧
    parseRawHtml ['!', 'A', '\n', 'b'] ['!', 'A', '\n', 'b', '>'] = .ok none ∧ LeanMark.scanRawHtml ['!', 'A', '\n', 'b', '>'] = some 5 := by
  refine ⟨?_, by decide, ?_, by decide⟩
  · unfold parseRawHtml rawChain
    rw [parseRawOpenTag_auto, parseRawCloseTag_eq, parseRawDeclaration_eq]
    decide
  · unfold parseRawHtml rawChain
    rw [parseRawOpenTag_auto, parseRawCloseTag_eq, parseRawDeclaration_eq]
    decide

end Verif.Model.InlineRecog
