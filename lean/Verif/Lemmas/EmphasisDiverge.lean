/-
  The excluded point of totality is real for EVERY fuel: two active `*` tokens with repeat count 0 (left-flanking, then
  right-flanking) make the loop pair them for ever — each round inserts one more emphasis start / end pair and lowers
  both repeat counts by one, never reaching the `== 0` exit.  Core Lean only.
-/
import Verif.Lemmas.EmphasisMain
namespace Verif.Model.Emphasis

/-- the nested emphasis tokens after `k` rounds -/
def divE : Nat → List Block
  | 0 => []
  | k + 1 => .es 1 '*' :: divE k ++ [.ee 1 '*']

def divOpen (r : Int) : Special := ⟨['*'], r, some [' '], some ['a'], true⟩
def divClose (r : Int) : Special := ⟨['*'], r, some ['a'], some [' '], true⟩

def divSt (k : Nat) : St := ⟨.sp 0 :: divE k ++ [.sp 1], [divOpen (-(k : Int)), divClose (-(k : Int))], 0⟩

theorem spIds_divE (k : Nat) : spIds (divE k) = [] := by
  induction k with
  | zero => rfl
  | succ k ih => simp [divE, ih]

set_option maxRecDepth 8000 in
theorem div_closer0 : processThis false (divClose 0) = .ok true := by decide

set_option maxRecDepth 8000 in
theorem div_closer (r : Int) : processThis false (divClose r) = .ok true := div_closer0

set_option maxRecDepth 8000 in
theorem div_valid0 : validPair false (divOpen 0) (divClose 0) 0 0 = .ok true := by decide

set_option maxRecDepth 8000 in
theorem div_valid (r0 r1 ro rc : Int) : validPair false (divOpen r0) (divClose r1) ro rc = .ok true := div_valid0

theorem div_pair (k : Nat) :
    processPair (divSt k).blocks (divSt k).stk 0 1 1 = .ok (divSt (k + 1)) := by
  have hb : (divSt k).blocks = [] ++ .sp 0 :: divE k ++ .sp 1 :: [] := by simp [divSt]
  have hnm : ∀ i, Block.sp i ∉ divE k := fun i h => by
    have := mem_spIds.mpr h; rw [spIds_divE] at this; cases this
  have hL : emphLen (divOpen (-(k : Int))) (divClose (-(k : Int))) = 1 := by
    unfold emphLen divOpen divClose
    have : ¬ ((-(k : Int)) ≥ 2 ∧ (-(k : Int)) ≥ 2) := by omega
    simp only [this, if_false]
  have hro : (divOpen (-(k : Int))).rep = -(k : Int) := rfl
  have hrc : (divClose (-(k : Int))).rep = -(k : Int) := rfl
  have hk : ((-(k : Int)) - ((1 : Nat) : Int) ≠ 0) := by omega
  have hd : decide ((-(k : Int)) - ((1 : Nat) : Int) ≠ 0) = true := decide_eq_true hk
  have h := processPair_spec [] (divE k) [] (divSt k).stk 0 1 1 (divOpen (-(k : Int))) (divClose (-(k : Int))) '*' []
    (by omega) rfl rfl rfl (by simp) (by simp) (hnm 1)
  rw [hL, hro, hrc, spIds_divE, hd] at h
  simp only [hk, ne_eq, not_false_eq_true, if_true] at h
  rw [hb, h]
  simp [divSt, divE, keepIf, deactAll, markStk, reduce, upd, divOpen, divClose]
  omega

theorem div_step (f k : Nat) :
    loop (pyPolicy false) (-1) (f + 1) (divSt k) = loop (pyPolicy false) (-1) f (divSt (k + 1)) := by
  have hlt : (divSt k).cur + 1 < (divSt k).stk.length := by simp [divSt]
  have hg : (divSt k).stk[(divSt k).cur + 1]? = some (divClose (-(k : Int))) := by simp [divSt]
  have hf : findOpener (pyPolicy false) (divSt k).stk ((divSt k).cur + 1) (divClose (-(k : Int))) (-1) ((divSt k).cur + 1)
      = .ok (some 0) := by
    have h0 : (divSt k).stk[0]? = some (divOpen (-(k : Int))) := by simp [divSt]
    have hc : (divSt k).cur = 0 := rfl
    simp only [hc, Nat.zero_add, findOpener, h0, pyPolicy, div_valid, bind, Except.bind, pure, Except.pure, if_true]
    simp
  rw [loop]
  simp only [hlt, if_true, hg, pyPolicy, div_closer, bind, Except.bind, Bool.not_true, Bool.false_eq_true, if_false]
  have hf' := hf
  simp only [pyPolicy] at hf'
  simp only [hf']
  have hp := div_pair k
  have hc : (divSt k).cur + 1 = 1 := rfl
  rw [hc, hp]

/-- the loop is out of fuel from every state of the family, for every fuel -/
theorem div_loop (f : Nat) : ∀ k, loop (pyPolicy false) (-1) f (divSt k) = .error .fuel := by
  induction f with
  | zero => intro k; rfl
  | succ f ih => intro k; rw [div_step]; exact ih (k + 1)

/-- the input list: `*` (left-flanking) and `*` (right-flanking), both active, both with `repeat_count = 0` -/
def zeroRepeat : List Item := [.special (divOpen 0), .special (divClose 0)]

theorem zeroRepeat_diverges (fuel : Nat) : resolveWithFuel (pyPolicy false) fuel none zeroRepeat = .error .fuel := by
  have h := div_loop fuel 0
  have hs : (⟨(createStack zeroRepeat).1, (createStack zeroRepeat).2, ((-1 : Int) + 1).toNat⟩ : St) = divSt 0 := rfl
  unfold resolveWithFuel
  simp only [findWall, bind, Except.bind, pure, Except.pure]
  rw [hs]
  have hlt : ((-1 : Int) + 1).toNat < (createStack zeroRepeat).2.length := by decide
  simp only [hlt, if_true, h]

end Verif.Model.Emphasis
