/-
  The inline dispatcher raises nothing of its own: the invariant of the `while next_index != -1` loop and the step lemma.
-/
import Verif.Model.InlineLoopSpec
import Verif.Lemmas.InlineLoopBasic
namespace Verif.Model.InlineLoop
open Verif.Model.Recognisers (Str slice)

/-- a non-empty `end_string` always holds a line break -/
def EndNl (e : Option Str) : Prop := ∀ s, e = some s → s ≠ [] → NL ∈ s

theorem EndNl_none : EndNl none := by intro s h; cases h

/-- the loop invariant of the totality proof -/
structure Inv (T : Table) (env : Env) (src : Str) (st : St) : Prop where
  next : st.next = indexAnyOf src T.starts st.start
  endNl : EndNl st.endStr
  para : countNl (src.drop st.start) = 0 ∨ ∃ sp, st.splitPara = some sp ∧ countNl (src.drop st.start) + 1 ≤ sp.length
  bq : ∀ b, env.bq = some b → ∃ ls, b.lead = some ls ∧ st.bqIdx + countNl (src.drop st.start) < ls.length

/-! ## the two ways a character is handled -/

theorem handled_error {env : Env} {st : St} {h : Handler} {q : Request} {e : LErr} (he : handled env st h q = .error e) :
    h q = .error e ∨ ∃ r, h q = .ok r ∧ r.reduceBy ≠ 0 := by
  unfold handled at he
  cases hq : h q with
  | error e' => rw [hq] at he; simp only at he; injection he with he; subst he; exact Or.inl rfl
  | ok r =>
    rw [hq] at he; simp only at he
    by_cases hr : r.reduceBy = 0
    · simp [hr] at he
    · exact Or.inr ⟨r, rfl, hr⟩

theorem handled_ok {env : Env} {st : St} {h : Handler} {q : Request} {m : Mid} (hm : handled env st h q = .ok m) :
    ∃ r, h q = .ok r ∧ r.reduceBy = 0 ∧
      m = ⟨r, st.line + r.dLine, (if decide (r.dCol < 0) then -r.dCol else st.col + r.dCol), decide (r.dCol < 0),
        decide (r.dLine ≠ 0), false, q.remaining, st.endStr, st.cur, st.curUnres,
        (if env.bq.isSome then st.bqIdx + rawHtmlNewlines r.newTokens else st.bqIdx)⟩ := by
  unfold handled at hm
  cases hq : h q with
  | error e' => rw [hq] at hm; cases hm
  | ok r =>
    rw [hq] at hm; simp only at hm
    by_cases hr : r.reduceBy = 0
    · simp only [hr, bne_self_eq_false, Bool.false_eq_true, ↓reduceIte, Except.ok.injEq] at hm
      exact ⟨r, rfl, hr, hm.symm⟩
    · have : (r.reduceBy != 0) = true := by simpa using hr
      rw [if_pos this] at hm; cases hm

/-- `__handle_line_end`: without a hard break the new `end_string` is defined and holds a line break -/
theorem handleLineEnd_end (isSetext : Bool) (blocks : List Tok) (remaining : Str) (endStr : Option Str) (cur : Str) (line col : Int)
    (hE : EndNl endStr) :
    let le := handleLineEnd isSetext blocks remaining endStr cur line col
    (le.newTokens = [] → ∃ e, le.endStr = some e ∧ NL ∈ e) ∧ (le.newTokens ≠ [] → le.endStr = endStr) ∧
      (le.newTokens = [] → le.newString = [NL]) := by
  intro le
  have hle : le = handleLineEnd isSetext blocks remaining endStr cur line col := rfl
  clear_value le
  unfold handleLineEnd at hle
  by_cases h1 : isProperHardBreak cur (stripEnd remaining).2.length = true
  · simp only [h1, ↓reduceIte] at hle; subst hle; simp
  · by_cases h2 : (stripEnd remaining).2.length ≥ 2
    · simp only [h1, Bool.false_eq_true, ↓reduceIte, h2] at hle; subst hle; simp
    · simp only [h1, Bool.false_eq_true, ↓reduceIte, h2] at hle; subst hle
      simp only [true_implies, ne_eq, not_true_eq_false, false_implies, and_true, Option.some.injEq, exists_eq_left']
      unfold selectLineEndingNormal
      simp only
      split <;> simp

theorem scanOneOf_ge (s cs : Str) (k : Nat) : k ≤ Recognisers.scanOneOf s cs k := by
  fun_induction Recognisers.scanOneOf s cs k with
  | case1 i _ ih => omega
  | case2 i _ => omega

theorem addRecombined_ok (did : Bool) (src : Str) (ni : Nat) (e : Str) (isSetext : Bool) (h : did = true → isSetext = true)
    (hle : ni ≤ src.length) :
    ∃ ni' e', addRecombinedWhitespace did src ni e isSetext = .ok (ni', e') ∧ ni ≤ ni' ∧ (NL ∈ e → NL ∈ e') := by
  unfold addRecombinedWhitespace
  cases did with
  | false => exact ⟨ni, e, rfl, Nat.le_refl _, id⟩
  | true =>
    have hs := h rfl
    simp only [↓reduceIte, hs, Bool.not_true, Bool.false_eq_true]
    unfold Recognisers.extractSpaces
    simp only [hle, ↓reduceIte]
    split
    · exact ⟨_, _, rfl, scanOneOf_ge _ _ _, fun hn => by simp only [List.mem_append]; exact Or.inl (Or.inl hn)⟩
    · exact ⟨_, _, rfl, Nat.le_refl _, id⟩

theorem newLine_ok {env : Env} {src : Str} {st : St} {q : Request} (hrec : truthy env.recomb = true → env.isSetext = true)
    (hq : q.next < src.length) (hE : EndNl st.endStr) :
    ∃ m ni ns, newLine env src st q NL = .ok m ∧ m.resp.newIndex = some ni ∧ q.next < ni ∧ m.resp.newString = some ns ∧
      m.resp.original = none ∧ m.resp.consumeRest = false ∧ m.wasNewLine = true ∧ EndNl m.endStr ∧
      m.bqIdx = (if env.bq.isSome then st.bqIdx + 1 else st.bqIdx) ∧ m.resp.reduceBy = 0 := by
  unfold newLine
  simp only [bne_self_eq_false, Bool.false_eq_true, ↓reduceIte]
  obtain ⟨h1, h2, h3⟩ := handleLineEnd_end env.isSetext st.blocks q.remaining st.endStr st.cur st.line st.col hE
  generalize handleLineEnd env.isSetext st.blocks q.remaining st.endStr st.cur st.line st.col = le at h1 h2 h3
  by_cases hnt : le.newTokens = []
  · obtain ⟨e, he, hnl⟩ := h1 hnt
    simp only [hnt, List.isEmpty_nil, ↓reduceIte, he]
    obtain ⟨ni', e', ha, hge, hnl'⟩ := addRecombined_ok (truthy env.recomb) src (q.next + 1) e env.isSetext hrec hq
    rw [ha]
    refine ⟨_, _, _, rfl, rfl, ?_, rfl, rfl, rfl, rfl, ?_, rfl, rfl⟩
    · omega
    · intro s hs' _; injection hs' with hs'; subst hs'; exact hnl' hnl
  · have hne : le.newTokens.isEmpty = false := by cases hl : le.newTokens with | nil => exact absurd hl hnt | cons _ _ => rfl
    simp only [hne, Bool.false_eq_true, ↓reduceIte]
    refine ⟨_, _, _, rfl, rfl, ?_, rfl, rfl, rfl, rfl, ?_, rfl, rfl⟩
    · omega
    · rw [h2 hnt]; exact hE

/-! ## after the character was handled -/

theorem cleanupCreate_endStr (st : St) (m : Mid) : (cleanupCreate st m).endStr = none ∨ (cleanupCreate st m).endStr = m.endStr := by
  unfold cleanupCreate
  by_cases hc : m.resp.consumeRest = true
  · simp [hc]
  · simp only [hc, Bool.false_eq_true, ↓reduceIte]
    split
    · exact Or.inr rfl
    · split
      · exact Or.inl rfl
      · split <;> exact Or.inr rfl

theorem cleanupCreate_newString (st : St) (m : Mid) :
    (cleanupCreate st m).newString = if m.resp.consumeRest then some [] else m.resp.newString := by
  unfold cleanupCreate
  by_cases hc : m.resp.consumeRest = true
  · simp only [hc, ↓reduceIte, List.isEmpty_nil]
  · simp only [hc, Bool.false_eq_true, ↓reduceIte]
    split
    · rfl
    · split
      · rfl
      · split <;> rfl

/-- the block-quote line table covers index `idx` -/
def BqCovers (env : Env) (idx : Nat) : Prop := ∀ b, env.bq = some b → ∃ ls, b.lead = some ls ∧ idx < ls.length

theorem bqLen_ok {env : Env} {idx : Nat} (h : BqCovers env idx) : ∃ n, bqLen env idx = .ok n := by
  unfold bqLen
  cases hb : env.bq with
  | none => exact ⟨0, rfl⟩
  | some b =>
    obtain ⟨ls, hl, hlt⟩ := h b hb
    simp only [hl]
    rw [List.getElem?_eq_getElem hlt]
    exact ⟨_, rfl⟩

theorem adjustLineCol_ok {env : Env} {m : Mid} (remaining : Str) {splitPara : Option (List Str)}
    (hnl : m.wasNewLine = true → BqCovers env m.bqIdx ∧ ∃ sp, splitPara = some sp ∧ 2 ≤ sp.length)
    (hrs : m.wasNewLine = false → m.wasReset = true → m.didLineChange = true ∧ BqCovers env m.bqIdx) :
    ∃ l c sp', adjustLineCol env m remaining splitPara = .ok (l, c, sp') ∧
      (m.wasNewLine = true → ∃ sp, splitPara = some sp ∧ sp' = some sp.tail) ∧ (m.wasNewLine = false → sp' = splitPara) := by
  unfold adjustLineCol
  by_cases h1 : m.wasNewLine = true
  · obtain ⟨hb, sp, hsp, hlen⟩ := hnl h1
    obtain ⟨n, hn⟩ := bqLen_ok hb
    simp only [h1, ↓reduceIte, hn, hsp]
    match sp, hlen with
    | a :: b :: r, _ => exact ⟨_, _, _, rfl, by simp, by simp⟩
  · have h1' : m.wasNewLine = false := by simpa using h1
    simp only [h1', Bool.false_eq_true, ↓reduceIte]
    by_cases h2 : m.wasReset = true
    · obtain ⟨hd, hb⟩ := hrs h1' h2
      obtain ⟨n, hn⟩ := bqLen_ok hb
      simp only [h2, Bool.not_true, Bool.false_eq_true, ↓reduceIte, hd, hn]
      exact ⟨_, _, _, rfl, by simp, by simp⟩
    · have h2' : m.wasReset = false := by simpa using h2
      simp only [h2', Bool.not_false, ↓reduceIte]
      exact ⟨_, _, _, rfl, by simp, by simp⟩

theorem completeCur_ok (cur ns : Str) {original unres : Option Str}
    (h : ∀ o, original = some o → unres = none ∨ unres = some o) : ∃ c, completeCur cur ns original unres = .ok c := by
  unfold completeCur
  cases original with
  | none => exact ⟨_, rfl⟩
  | some o =>
    rcases h o rfl with hu | hu
    · subst hu; simp
    · subst hu; simp

theorem splitNl_length_ge_two {e : Str} (h : NL ∈ e) : 2 ≤ (splitNl e).length := by
  rw [splitNl_length]; have := countNl_pos_of_mem h; omega

theorem completeUnres_ok (cu ns : Str) {endStr : Option Str} (unres : Option Str) (hE : EndNl endStr) :
    ∃ c, completeUnres cu ns endStr unres = .ok c := by
  unfold completeUnres
  by_cases hc : (ns == [NL] && truthy endStr) = true
  · simp only [hc, ↓reduceIte]
    simp only [Bool.and_eq_true] at hc
    cases he : endStr with
    | none => rw [he] at hc; simp [truthy] at hc
    | some e =>
      rw [he] at hc
      have hne : e ≠ [] := by
        intro h0; subst h0; simp [truthy] at hc
      have := splitNl_length_ge_two (hE e he hne)
      simp only [Option.getD_some]
      rw [if_neg (by omega)]
      simp only
      split <;> exact ⟨_, rfl⟩
  · simp only [hc, Bool.false_eq_true, ↓reduceIte]
    split <;> exact ⟨_, rfl⟩

theorem finish_ok {T : Table} {env : Env} {src : Str} {st : St} {next : Nat} {c : Char} {m : Mid} {ni : Nat}
    (hni : m.resp.newIndex = some ni)
    (hdef : m.resp.consumeRest = true ∨ m.resp.newString.isSome = true)
    (hun : ∀ o, m.resp.original = some o → m.resp.newStringUnres = none ∨ m.resp.newStringUnres = some o)
    (hE : EndNl m.endStr)
    (hnl : m.wasNewLine = true → BqCovers env m.bqIdx ∧ ∃ sp, st.splitPara = some sp ∧ 2 ≤ sp.length)
    (hrs : m.wasNewLine = false → m.wasReset = true → m.didLineChange = true ∧ BqCovers env m.bqIdx) :
    ∃ st' it, finish T env src st next c m = .ok (st', it) ∧ st'.start = ni ∧ st'.next = indexAnyOf src T.starts ni ∧
      st'.bqIdx = m.bqIdx ∧ EndNl st'.endStr ∧
      (it.start = st.start ∧ it.next = next ∧ it.ch = c ∧ it.newIndex = ni ∧ it.line = st.line ∧ it.col = st.col) ∧
      (m.wasNewLine = true → ∃ sp, st.splitPara = some sp ∧ st'.splitPara = some sp.tail) ∧
      (m.wasNewLine = false → st'.splitPara = st.splitPara) := by
  unfold finish
  obtain ⟨l, cc, sp', ha, hs1, hs2⟩ := adjustLineCol_ok (cleanupCreate st m).remaining hnl hrs
  simp only [ha, hni]
  have hns : ∃ ns, (cleanupCreate st m).newString = some ns := by
    rw [cleanupCreate_newString]
    rcases hdef with hd | hd
    · simp [hd]
    · by_cases hc : m.resp.consumeRest = true
      · simp [hc]
      · simp only [hc, Bool.false_eq_true, ↓reduceIte]; exact Option.isSome_iff_exists.mp hd
  obtain ⟨ns, hns⟩ := hns
  simp only [hns]
  have hE2 : EndNl (cleanupCreate st m).endStr := by
    rcases cleanupCreate_endStr st m with h | h
    · rw [h]; exact EndNl_none
    · rw [h]; exact hE
  obtain ⟨c1, hc1⟩ := completeCur_ok (if (cleanupCreate st m).reset then [] else (cleanupCreate st m).cur) ns hun
  obtain ⟨c2, hc2⟩ := completeUnres_ok (if (cleanupCreate st m).reset then [] else (cleanupCreate st m).curUnres) ns
    m.resp.newStringUnres hE2
  simp only [hc1, hc2]
  exact ⟨_, _, rfl, rfl, rfl, rfl, hE2, ⟨rfl, rfl, rfl, rfl, rfl, rfl⟩, hs1, hs2⟩

/-! ## one turn keeps the invariant -/

theorem countNl_drop_le (s : Str) {a b : Nat} (h : a ≤ b) : countNl (s.drop b) ≤ countNl (s.drop a) := by
  rw [countNl_drop s h]; omega

theorem drop_cons_of_getElem? {s : Str} {i : Nat} {c : Char} (h : s[i]? = some c) : s.drop i = c :: s.drop (i + 1) := by
  have hl : i < s.length := by
    by_cases hh : i < s.length
    · exact hh
    · rw [List.getElem?_eq_none (by omega)] at h; cases h
  rw [List.drop_eq_getElem_cons hl]
  rw [List.getElem?_eq_getElem hl] at h
  injection h with h; rw [h]

theorem mkRequest_reqOK (env : Env) (src : Str) (st : St) (next : Nat) : ReqOK (mkRequest env src st next) := by
  intro ws hws w hw
  unfold mkRequest at hws
  simp only [Option.map_eq_some_iff] at hws
  obtain ⟨p, _, hp⟩ := hws
  subst hp
  exact splitNl_no_nl _ w hw

/-- what one turn of the loop does to the state, as far as the totality argument needs it -/
structure StepFacts (T : Table) (env : Env) (src : Str) (st : St) (next : Nat) (st' : St) (it : Iter) : Prop where
  inv : Inv T env src st'
  progress : next < st'.start
  iter : it.start = st.start ∧ it.next = next ∧ it.newIndex = st'.start ∧ src[next]? = some it.ch ∧ it.line = st.line ∧
    it.col = st.col
  first : st.start ≤ next ∧ T.starts.contains it.ch = true ∧ ∀ c ∈ slice src st.start next, T.starts.contains c = false

theorem step_ok {T : Table} {env : Env} {src : Str} {st : St} {next : Nat} (hT : TableOK T src)
    (hrec : truthy env.recomb = true → env.isSetext = true) (hI : Inv T env src st) (hn : st.next = some next) :
    (∃ st' it, step T env src st next = .ok (st', it) ∧ StepFacts T env src st next st' it) ∨
    (∃ c h e, T.handler c = some h ∧ src[next]? = some c ∧ h (mkRequest env src st next) = .error e ∧
      step T env src st next = .error e) := by
  have hidx : indexAnyOf src T.starts st.start = some next := by rw [← hI.next]; exact hn
  obtain ⟨hge, ⟨hlt, hmem⟩, hfirst⟩ := indexAnyOf_some hidx
  have hc : src[next]? = some src[next] := List.getElem?_eq_getElem hlt
  have hdn : countNl (src.drop next) ≤ countNl (src.drop st.start) := countNl_drop_le src hge
  unfold step
  rw [hc]
  simp only
  unfold dispatchChar
  cases hh : T.handler src[next] with
  | some h =>
    simp only
    cases hm : handled env st h (mkRequest env src st next) with
    | error e =>
      rcases handled_error hm with he | ⟨r, hr, hrb⟩
      · exact Or.inr ⟨_, h, e, hh, rfl, he, rfl⟩
      · exact absurd (hT.resp _ h _ r hh rfl hc (mkRequest_reqOK env src st next) hr).noReduce hrb
    | ok m =>
      obtain ⟨r, hr, _, hmeq⟩ := handled_ok hm
      have hR := hT.resp _ h _ r hh rfl hc (mkRequest_reqOK env src st next) hr
      obtain ⟨ni, hni, hprog⟩ := hR.progress
      have hprog' : next < ni := hprog
      have hraw : rawHtmlNewlines r.newTokens ≤ countNl (slice src next ni) := hR.rawNl ni hni
      have hsplit : countNl (src.drop next) = countNl (slice src next ni) + countNl (src.drop ni) :=
        countNl_drop src (Nat.le_of_lt hprog')
      have hbqI : m.bqIdx ≤ st.bqIdx + rawHtmlNewlines r.newTokens := by
        rw [hmeq]; simp only; split <;> omega
      have hcov : BqCovers env m.bqIdx := by
        intro b hb
        obtain ⟨ls, hl, hlen⟩ := hI.bq b hb
        exact ⟨ls, hl, by omega⟩
      have hmr : m.resp = r := by rw [hmeq]
      have hnw : m.wasNewLine = false := by rw [hmeq]
      obtain ⟨st', it, hf, hs, hnx, hbq, hE, hit, _, hsp⟩ := finish_ok (T := T) (env := env) (src := src) (st := st) (next := next)
        (c := src[next]) (m := m) (ni := ni) (by rw [hmr]; exact hni) (by rw [hmr]; exact hR.defined) (by rw [hmr]; exact hR.unres)
        (by rw [hmeq]; exact hI.endNl) (by rw [hnw]; intro h; cases h)
        (by
          intro _ hrs
          refine ⟨?_, hcov⟩
          rw [hmeq] at hrs ⊢
          simp only [decide_eq_true_eq] at hrs ⊢
          exact hR.reset hrs)
      simp only [hf]
      refine Or.inl ⟨st', it, rfl, ⟨⟨hnx.trans (by rw [hs]), hE, ?_, ?_⟩, by rw [hs]; exact hprog', ?_, ?_⟩⟩
      · rw [hs, hsp hnw]
        rcases hI.para with h0 | ⟨sp, hsp', hlen⟩
        · left; omega
        · right; exact ⟨sp, hsp', by omega⟩
      · intro b hb
        obtain ⟨ls, hl, hlen⟩ := hI.bq b hb
        exact ⟨ls, hl, by rw [hbq, hs]; omega⟩
      · obtain ⟨i1, i2, i3, i4, i5, i6⟩ := hit
        exact ⟨i1, i2, by rw [i4, hs], by rw [i3]; exact hc, i5, i6⟩
      · rw [hit.2.2.1]; exact ⟨hge, hmem, hfirst⟩
  | none =>
    simp only
    have hnl : src[next] = NL := by
      by_cases hx : src[next] = NL
      · exact hx
      · have := hT.nlOnly _ hmem hx
        rw [hh] at this; cases this
    rw [hnl]
    obtain ⟨m, ni, ns, hm, hni, hprog, hns, horig, hcons, hnw, hE, hbq, _⟩ :=
      newLine_ok (env := env) (src := src) (st := st) (q := mkRequest env src st next) hrec hlt hI.endNl
    have hprog' : next < ni := hprog
    rw [hm]
    simp only
    have hd1 : src.drop next = NL :: src.drop (next + 1) := by rw [← hnl]; exact drop_cons_of_getElem? hc
    have hcnt : countNl (src.drop next) = countNl (src.drop (next + 1)) + 1 := by rw [hd1, countNl_cons_nl]
    have hdni : countNl (src.drop ni) ≤ countNl (src.drop (next + 1)) := countNl_drop_le src hprog'
    have hbqI : m.bqIdx ≤ st.bqIdx + 1 := by rw [hbq]; split <;> omega
    have hcov : BqCovers env m.bqIdx := by
      intro b hb
      obtain ⟨ls, hl, hlen⟩ := hI.bq b hb
      exact ⟨ls, hl, by omega⟩
    have hpara : ∃ sp, st.splitPara = some sp ∧ 2 ≤ sp.length ∧ countNl (src.drop ni) + 2 ≤ sp.length := by
      rcases hI.para with h0 | ⟨sp, hsp', hlen⟩
      · omega
      · exact ⟨sp, hsp', by omega, by omega⟩
    obtain ⟨sp, hsp, hsp2, hsp3⟩ := hpara
    obtain ⟨st', it, hf, hs, hnx, hbq', hE', hit, hsp', _⟩ := finish_ok (T := T) (env := env) (src := src) (st := st) (next := next)
      (c := NL) (m := m) (ni := ni) hni (Or.inr (by rw [hns]; rfl)) (by rw [horig]; intro o ho; cases ho) hE
      (fun _ => ⟨hcov, sp, hsp, hsp2⟩) (by rw [hnw]; intro h; cases h)
    simp only [hf]
    refine Or.inl ⟨st', it, rfl, ⟨⟨hnx.trans (by rw [hs]), hE', ?_, ?_⟩, by rw [hs]; exact hprog', ?_, ?_⟩⟩
    · obtain ⟨sp2, h1, h2⟩ := hsp' hnw
      rw [hsp] at h1; injection h1 with h1; subst h1
      right
      refine ⟨_, h2, ?_⟩
      rw [hs, List.length_tail]; omega
    · intro b hb
      obtain ⟨ls, hl, hlen⟩ := hI.bq b hb
      exact ⟨ls, hl, by rw [hbq', hs]; omega⟩
    · obtain ⟨i1, i2, i3, i4, i5, i6⟩ := hit
      exact ⟨i1, i2, by rw [i4, hs], by rw [i3, hc, hnl], i5, i6⟩
    · rw [hit.2.2.1]; exact ⟨hge, by rw [← hnl]; exact hmem, hfirst⟩

/-! ## the loop -/

/-- the trace is a chain of turns from index `s` to index `e`: each turn starts where the previous one ended, handles the FIRST start
character at or after its start, and ends strictly after that character -/
def Chain (src starts : Str) : Nat → List Iter → Nat → Prop
  | s, [], e => s = e
  | s, it :: r, e => it.start = s ∧ s ≤ it.next ∧ it.next < it.newIndex ∧ src[it.next]? = some it.ch ∧
      starts.contains it.ch = true ∧ (∀ c ∈ slice src s it.next, starts.contains c = false) ∧ Chain src starts it.newIndex r e

theorem Chain_snoc {src starts : Str} : ∀ {s : Nat} {tr : List Iter} {e : Nat} {it : Iter}, Chain src starts s tr e →
    it.start = e → e ≤ it.next → it.next < it.newIndex → src[it.next]? = some it.ch → starts.contains it.ch = true →
    (∀ c ∈ slice src e it.next, starts.contains c = false) → Chain src starts s (tr ++ [it]) it.newIndex
  | s, [], e, it, h, h1, h2, h3, h4, h5, h6 => by
    simp only [Chain] at h; subst h
    exact ⟨h1, h2, h3, h4, h5, h6, rfl⟩
  | s, a :: r, e, it, h, h1, h2, h3, h4, h5, h6 => by
    obtain ⟨g1, g2, g3, g4, g5, g6, g7⟩ := h
    exact ⟨g1, g2, g3, g4, g5, g6, Chain_snoc g7 h1 h2 h3 h4 h5 h6⟩

/-- the number of turns still possible: the text left after the next start character -/
def measure (src : Str) (st : St) : Nat := match st.next with | none => 0 | some n => src.length - n

theorem loop_ok {T : Table} {env : Env} {src : Str} (hT : TableOK T src) (hrec : truthy env.recomb = true → env.isSetext = true)
    (s0 : Nat) : ∀ (fuel : Nat) (st : St) (tr : List Iter), Inv T env src st → measure src st ≤ fuel →
      Chain src T.starts s0 tr st.start →
      (∃ st' tr', loop T env src fuel st tr = .ok (st', tr') ∧ st'.next = none ∧ Inv T env src st' ∧
        Chain src T.starts s0 tr' st'.start) ∨
      (∃ c h q e, T.handler c = some h ∧ q.src = src ∧ src[q.next]? = some c ∧ h q = .error e ∧
        loop T env src fuel st tr = .error e)
  | 0, st, tr, hI, hm, hC => by
    cases hn : st.next with
    | none => exact Or.inl ⟨st, tr, by rw [loop]; simp [hn], hn, hI, hC⟩
    | some n =>
      exfalso
      have hidx : indexAnyOf src T.starts st.start = some n := by rw [← hI.next]; exact hn
      obtain ⟨_, ⟨hlt, _⟩, _⟩ := indexAnyOf_some hidx
      unfold measure at hm; rw [hn] at hm; simp only at hm; omega
  | fuel + 1, st, tr, hI, hm, hC => by
    cases hn : st.next with
    | none => exact Or.inl ⟨st, tr, by rw [loop]; simp [hn], hn, hI, hC⟩
    | some n =>
      rw [loop]; simp only [hn]
      rcases step_ok hT hrec hI hn with ⟨st', it, hs, hF⟩ | ⟨c, h, e, h1, h2, h3, h4⟩
      · rw [hs]; simp only
        obtain ⟨i1, i2, i3, i4, _, _⟩ := hF.iter
        obtain ⟨f1, f2, f3⟩ := hF.first
        have hC' : Chain src T.starts s0 (tr ++ [it]) st'.start := by
          rw [← i3]
          exact Chain_snoc hC i1 (by rw [i2]; exact f1) (by rw [i2, i3]; exact hF.progress) (by rw [i2]; exact i4) f2
            (by rw [i2]; exact f3)
        have hm' : measure src st' ≤ fuel := by
          unfold measure at hm ⊢
          rw [hn] at hm; simp only at hm
          cases hn' : st'.next with
          | none => simp
          | some n' =>
            simp only
            have hidx : indexAnyOf src T.starts st'.start = some n' := by rw [← hF.inv.next]; exact hn'
            obtain ⟨hge, ⟨hlt, _⟩, _⟩ := indexAnyOf_some hidx
            have := hF.progress
            omega
        exact loop_ok hT hrec s0 fuel st' (tr ++ [it]) hF.inv hm' hC'
      · rw [h4]; exact Or.inr ⟨c, h, _, e, h1, rfl, h2, h3, rfl⟩

end Verif.Model.InlineLoop
