/-
  LeanMark — theorems about the block event stream that hold for every document:

    L_balanced   : the stream is well nested
    L_classes    : … and class-correct (items exactly inside lists, lists contain only items)
    L_pos_range  : every event has 1 ≤ line ≤ number of lines, column ≥ 1, end line ≤ number of lines,
                   and every payload line number is in range
    L_lines_mono : the start lines of the events never decrease
    L_total      : by construction (no `partial` in the model; see the note at the end)

  The invariant `Inv n` (Model/LeanMark/Core.lean) is a field of `Core n`: it is established by
  `Core.init` and re-proved locally inside each primitive that builds a `Core`.  The block parser
  (`stepLine`, `openBlocks`, …) is written against that interface only, so these theorems never look at
  the parser's decisions: they project the invariant out of the final state.  What remains to be shown
  here is (a) `finish` empties the stack, (b) the line counter equals the number of lines.
-/
import Verif.Model.LeanMark.Block
namespace Verif.Model.LeanMark

/-! ## (a) `finish` empties the container stack -/
theorem closeLeaf_stack {n : Nat} (c : Core n) : c.closeLeaf.stack = c.stack :=
  (c.inv.closeLeaf none none (by simp) (by simp)).2.2

theorem popC_depth {n : Nat} (c : Core n) : c.popC.depth = c.depth - 1 := by
  have hs : (c.raw.closeLeaf none none).stack = c.raw.stack :=
    (c.inv.closeLeaf none none (by simp) (by simp)).2.2
  unfold Core.popC Core.depth
  simp only
  split
  · next h => rw [← hs, h]; rfl
  · next t rest h =>
    show rest.length = c.raw.stack.length - 1
    rw [← hs, h]; simp

/-- with enough fuel `closeTo` reaches the requested depth. -/
theorem closeTo_depth {n : Nat} : ∀ (fuel : Nat) (c : Core n) (d : Nat), c.depth ≤ fuel + d →
    (Core.closeTo fuel c d).depth ≤ d
  | 0, c, d, h => by simpa [Core.closeTo] using h
  | fuel + 1, c, d, h => by
    unfold Core.closeTo
    split
    · apply closeTo_depth fuel c.popC d
      rw [popC_depth]; omega
    · omega

theorem finish_stack_nil (s : BState) : (finish s).core.stack = [] := by
  unfold finish
  simp only
  rw [closeLeaf_stack]
  have h := closeTo_depth s.core.depth s.core 0 (by omega)
  unfold Core.closeToDepth
  unfold Core.depth Core.stack at *
  exact List.eq_nil_of_length_eq_zero (by omega)

/-- **L_classes** (with nesting): for every document the event stream replays — under the rules
    "`close` matches the innermost open container, an `item` is opened exactly inside a `list`, a quote /
    list / leaf is never opened directly inside a `list`" — to the empty stack. -/
theorem L_wellFormedR (rd : Reading) (lines : List Line) : WellFormed (eventsR rd lines) := by
  unfold WellFormed eventsR runR
  have h := (finish (lines.foldl (step rd) BState.init)).core.inv.bal
  have hs := finish_stack_nil (lines.foldl (step rd) BState.init)
  unfold Core.stack at hs
  rw [hs] at h
  simpa [kinds, Core.out] using h

theorem L_wellFormed (lines : List Line) : WellFormed (events lines) := L_wellFormedR {} lines

theorem L_classes (lines : List Line) : WellFormed (events lines) := L_wellFormed lines

/-- **L_balanced**: for every document (list of lines) the event stream is well nested. -/
theorem L_balanced (lines : List Line) : WellNested (events lines) := (L_wellFormed lines).wellNested

theorem L_balanced_doc (doc : List Char) : WellNested (events (docLines doc)) := L_balanced _

/-! ## (b) the line counter -/
theorem foldl_step_n (rd : Reading) : ∀ (ls : List Line) (s : BState), (ls.foldl (step rd) s).n = s.n + ls.length
  | [], s => by simp
  | l :: ls, s => by
    simp only [List.foldl_cons, List.length_cons]
    rw [foldl_step_n rd ls (step rd s l)]
    show s.n + 1 + ls.length = s.n + (ls.length + 1)
    omega

theorem runR_n (rd : Reading) (ls : List Line) : (runR rd ls).n = ls.length := by
  unfold runR finish
  simp only
  rw [foldl_step_n]
  simp [BState.init]

theorem run_n (ls : List Line) : (run ls).n = ls.length := runR_n {} ls

/-- **L_pos_range**: every event of a document of `n` lines satisfies `EvOK n`:
    `open k p`          1 ≤ p.line ≤ n, 1 ≤ p.col;
    `close k e`         e ≤ n;
    `leaf k p e lines`  1 ≤ p.line ≤ n, 1 ≤ p.col, e ≤ n, every payload line number in 1..n. -/
theorem L_pos_rangeR (rd : Reading) (lines : List Line) : ∀ e ∈ eventsR rd lines, EvOK lines.length e := by
  intro e he
  have h := (runR rd lines).core.inv.rng e (by
    unfold eventsR Core.out at he
    exact List.mem_reverse.mp he)
  rw [runR_n] at h
  exact h

theorem L_pos_range (lines : List Line) : ∀ e ∈ events lines, EvOK lines.length e := L_pos_rangeR {} lines

/-- the same, read off the start line of positioned events. -/
theorem L_line_range (lines : List Line) :
    ∀ e ∈ events lines, ∀ l, e.line = some l → 1 ≤ l ∧ l ≤ lines.length := by
  intro e he l hl
  have h := L_pos_range lines e he
  cases e with
  | «open» k p => simp [Ev.line] at hl; subst hl; exact ⟨h.1, h.2.1⟩
  | close k x => simp [Ev.line] at hl
  | leaf k p x pl => simp [Ev.line] at hl; subst hl; exact ⟨h.1, h.2.1⟩

/-! ## start lines never decrease -/
/-- start lines of the positioned events, in stream order. -/
def startLines (es : List Ev) : List Nat := es.filterMap Ev.line

theorem monoRev_pairwise : ∀ (es : List Ev), MonoRev es → (startLines es.reverse).Pairwise (· ≤ ·)
  | [], _ => by simp [startLines]
  | e :: r, h => by
    unfold startLines
    simp only [List.reverse_cons, List.filterMap_append, List.pairwise_append]
    refine ⟨monoRev_pairwise r h.1, ?_, ?_⟩
    · cases hl : e.line <;> simp [hl]
    · intro a ha b hb
      simp only [List.mem_filterMap, List.mem_reverse] at ha
      obtain ⟨x, hx, hxa⟩ := ha
      simp only [List.filterMap_cons, List.filterMap_nil] at hb
      cases hl : e.line with
      | none => simp [hl] at hb
      | some l =>
        simp only [hl, List.mem_singleton] at hb
        rw [hb]
        exact h.2 l hl x hx a hxa

/-- **L_lines_mono**: along the stream, start lines of `open` and `leaf` events never decrease. -/
theorem L_lines_monoR (rd : Reading) (lines : List Line) : (startLines (eventsR rd lines)).Pairwise (· ≤ ·) := by
  unfold eventsR Core.out
  exact monoRev_pairwise _ (runR rd lines).core.inv.mono

theorem L_lines_mono (lines : List Line) : (startLines (events lines)).Pairwise (· ≤ ·) := L_lines_monoR {} lines

/-! ## non-vacuity -/
example : events ["> - a".toList, "> - b".toList] ≠ [] := by decide
example : startLines (events ["> - a".toList, [], "# h".toList]) = [1, 1, 1, 1, 3] := by decide

/-
  L_total.  Every definition under `Verif/Model/LeanMark` is a total Lean function: there is no
  `partial`, `unsafe` or `sorry`.  Recursions: structural on the input list (scanners, `scan` with its
  `skip` counter, renderers, `matchConts`, `looseness`), or on explicit fuel that the call sites make
  large enough — `openBlocks` (fuel = line length + 1; every recursive call has consumed a `>` or a
  list marker), `closeTo` (fuel = stack depth; proved sufficient above: `closeTo_depth`),
  `peelEmit` (fuel = number of paragraph lines; each definition covers ≥ 1 line), `procEmph`
  (fuel = Σ(1 + run length); each call removes an item or at least one delimiter character).
  Exhausting fuel returns the state unchanged, so the stream theorems above hold regardless.
  That the fuel is in fact never exhausted at the model's call sites is proved in LeanMarkFuel.lean
  (`stepLine_fuel`, `closeLeaf_peel_fuel`, `lrdOnlyGo_fuel_add`, `resolveEmph_fuel`).
-/
theorem L_total (doc : List Char) : ∃ es : List Ev, events (docLines doc) = es := ⟨_, rfl⟩

end Verif.Model.LeanMark
