/-
  LeanMark — "block events point at their own opening character" (part 1: definitions, the cursor
  invariant over the tab-expanded line, facts about the line recognisers).

    detab l            the line with tabs expanded to spaces (tab stops every 4 columns)
    charAt lines p     the character of the tab-expanded line `p.line` at column `p.col` (both 1-based)
    OpenerOK lines e   what the position of event `e` points at, by kind
    CurOK l c          the cursor `c` is a faithful view of line `l`:
                       `(detab l).drop c.col = replicate c.ptab ' ' ++ detabFrom (c.col + c.ptab) c.rest`
-/
import Verif.Model.LeanMark.Block
namespace Verif.Model.LeanMark

/-- expand tabs to spaces, the first character standing at visual column `col` (0-based). -/
def detabFrom : Nat → List Char → List Char
  | _, [] => []
  | col, c :: cs =>
    if c = '\t' then List.replicate (4 - col % 4) ' ' ++ detabFrom (col + (4 - col % 4)) cs
    else c :: detabFrom (col + 1) cs

def detab (l : Line) : List Char := detabFrom 0 l

/-- character at a position (1-based line, 1-based column of the tab-expanded line). -/
def charAt (lines : List Line) (p : Pos) : Option Char :=
  (lines[p.line - 1]?).bind (fun l => (detab l)[p.col - 1]?)

/-- position just after 4 columns of indentation: the 4 columns before are spaces, the position exists. -/
def IndentedOK (lines : List Line) (p : Pos) : Prop :=
  5 ≤ p.col ∧ (∀ j, j < 4 → charAt lines ⟨p.line, p.col - 4 + j⟩ = some ' ') ∧ (charAt lines p).isSome = true

/-- position where at most 3 columns of indentation start, followed by `<`. -/
def HtmlOK (lines : List Line) (p : Pos) : Prop :=
  ∃ k, k ≤ 3 ∧ (∀ j, j < k → charAt lines ⟨p.line, p.col + j⟩ = some ' ') ∧
    charAt lines ⟨p.line, p.col + k⟩ = some '<'

def FenceOK (lines : List Line) (p : Pos) : Prop :=
  ∃ c, charAt lines p = some c ∧ (c = '`' ∨ c = '~')

/-- the position of a block event points at the block's own opening character. -/
def OpenerOK (lines : List Line) : Ev → Prop
  | .open .quote p => charAt lines p = some '>'
  | .open (.list false b _) p => charAt lines p = some b ∧ b ∈ ['-', '+', '*']
  | .open (.list true _ _) p => ∃ c, charAt lines p = some c ∧ isDigit c = true
  | .open .item p => ∃ c, charAt lines p = some c ∧ (c ∈ ['-', '+', '*'] ∨ isDigit c = true)
  | .leaf (.heading _ false) p _ _ => charAt lines p = some '#'
  | .leaf (.heading _ true) p _ _ => ∃ c, charAt lines p = some c ∧ c ≠ ' '
  | .leaf .para p _ _ => ∃ c, charAt lines p = some c ∧ c ≠ ' '
  | .leaf .tbreak p _ _ => ∃ c, charAt lines p = some c ∧ c ∈ ['-', '_', '*']
  | .leaf (.fenced _) p _ _ => FenceOK lines p
  | .leaf .indented p _ _ => IndentedOK lines p
  | .leaf .html p _ _ => HtmlOK lines p
  | .leaf (.lrd ..) p _ _ => charAt lines p = some '['
  | .close _ _ => True

/-! ## `detabFrom` -/
theorem detabFrom_tab (col : Nat) (cs : List Char) :
    detabFrom col ('\t' :: cs) = List.replicate (4 - col % 4) ' ' ++ detabFrom (col + (4 - col % 4)) cs := by
  simp [detabFrom]

theorem detabFrom_ne {c : Char} (h : c ≠ '\t') (col : Nat) (cs : List Char) :
    detabFrom col (c :: cs) = c :: detabFrom (col + 1) cs := by
  simp [detabFrom, h]

theorem drop_succ_of_cons {α : Type} {L R : List α} {k : Nat} {x : α} (h : L.drop k = x :: R) :
    L.drop (k + 1) = R := by
  have : (L.drop k).drop 1 = L.drop (k + 1) := by simp [List.drop_drop]
  rw [← this, h]; rfl

theorem drop_add_of_append {α : Type} {L A R : List α} {k : Nat} (h : L.drop k = A ++ R) :
    L.drop (k + A.length) = R := by
  have : (L.drop k).drop A.length = L.drop (k + A.length) := by simp [List.drop_drop]
  rw [← this, h]; simp

theorem getElem?_of_drop_cons {α : Type} {L R : List α} {k : Nat} {x : α} (h : L.drop k = x :: R) :
    L[k]? = some x := by
  have : (L.drop k)[0]? = L[k + 0]? := List.getElem?_drop
  rw [h] at this
  simpa using this.symm

/-! ## white space at the cursor -/
theorem isBlankChars_false {s : List Char} (h : isBlankChars s = false) :
    ∃ x r, s.dropWhile isSpTab = x :: r ∧ isSpTab x = false := by
  induction s with
  | nil => simp [isBlankChars] at h
  | cons a t ih =>
    cases ha : isSpTab a with
    | true =>
      simp only [isBlankChars, ha, Bool.true_and] at h
      simpa [List.dropWhile, ha] using ih h
    | false => exact ⟨a, t, by simp [List.dropWhile, ha], ha⟩

theorem isSpTab_false {x : Char} (h : isSpTab x = false) : x ≠ ' ' ∧ x ≠ '\t' := by
  constructor <;> (intro hx; subst hx; revert h; decide)

theorem wsCols_of_not_sptab {x : Char} {r : List Char} (h : isSpTab x = false) (col : Nat) :
    wsCols (x :: r) col = 0 := by
  have := isSpTab_false h
  unfold wsCols
  split
  · next heq => cases heq; exact absurd rfl this.1
  · next heq => cases heq; exact absurd rfl this.2
  · rfl

/-- the white space in front of the text expands to `wsCols` spaces. -/
theorem detabFrom_ws : ∀ (s : List Char) (col : Nat),
    detabFrom col s = List.replicate (wsCols s col) ' ' ++ detabFrom (col + wsCols s col) (s.dropWhile isSpTab)
  | [], col => by simp [wsCols, detabFrom]
  | a :: t, col => by
    by_cases h1 : a = ' '
    · subst h1
      have ih := detabFrom_ws t (col + 1)
      rw [detabFrom_ne (by decide)]
      have hw : wsCols (' ' :: t) col = 1 + wsCols t (col + 1) := by simp [wsCols]
      have hd : (' ' :: t).dropWhile isSpTab = t.dropWhile isSpTab := by
        simp [List.dropWhile, show isSpTab ' ' = true by decide]
      rw [hw, hd, ih, Nat.add_comm 1, List.replicate_succ, Nat.add_assoc, Nat.add_comm 1]
      rfl
    · by_cases h2 : a = '\t'
      · subst h2
        have ih := detabFrom_ws t (col + (4 - col % 4))
        rw [detabFrom_tab]
        have hw : wsCols ('\t' :: t) col = (4 - col % 4) + wsCols t (col + (4 - col % 4)) := by simp [wsCols]
        have hd : ('\t' :: t).dropWhile isSpTab = t.dropWhile isSpTab := by
          simp [List.dropWhile, show isSpTab '\t' = true by decide]
        rw [hw, hd, ih, ← List.replicate_append_replicate, List.append_assoc, Nat.add_assoc]
      · have hs : isSpTab a = false := by
          simp only [isSpTab, Bool.or_eq_false_iff, beq_eq_false_iff_ne]
          exact ⟨h1, h2⟩
        rw [wsCols_of_not_sptab hs]
        simp [List.dropWhile, hs]

/-! ## the cursor invariant -/
def CurOK (l : Line) (c : Cur) : Prop :=
  (detab l).drop c.col = List.replicate c.ptab ' ' ++ detabFrom (c.col + c.ptab) c.rest

theorem CurOK.ofLine (l : Line) : CurOK l (Cur.ofLine l) := by
  simp [CurOK, Cur.ofLine, detab]

theorem CurOK.skipCols {l : Line} : ∀ (n : Nat) (c : Cur), CurOK l c → CurOK l (c.skipCols n)
  | 0, c, h => by unfold Cur.skipCols; exact h
  | n + 1, c, h => by
    unfold Cur.skipCols
    split
    · next hp =>
      apply CurOK.skipCols n
      unfold CurOK at h ⊢
      obtain ⟨rest, col, ptab⟩ := c
      simp only at h hp ⊢
      obtain ⟨p, rfl⟩ : ∃ p, ptab = p + 1 := ⟨ptab - 1, by omega⟩
      rw [List.replicate_succ, List.cons_append] at h
      rw [drop_succ_of_cons h]
      simp only [Nat.add_sub_cancel]
      rw [show col + 1 + p = col + (p + 1) by omega]
    · next hp =>
      have hp0 : c.ptab = 0 := by omega
      split
      · next cs hr =>
        apply CurOK.skipCols n
        unfold CurOK at h ⊢
        rw [hp0, hr, detabFrom_ne (by decide)] at h
        simp only [List.replicate_zero, List.nil_append, Nat.add_zero] at h ⊢
        exact drop_succ_of_cons h
      · next cs hr =>
        apply CurOK.skipCols n
        unfold CurOK at h ⊢
        rw [hp0, hr, detabFrom_tab] at h
        simp only [List.replicate_zero, List.nil_append, Nat.add_zero] at h ⊢
        obtain ⟨p, hpw⟩ : ∃ p, 4 - c.col % 4 = p + 1 := ⟨4 - c.col % 4 - 1, by omega⟩
        rw [hpw, List.replicate_succ, List.cons_append] at h
        rw [hpw, drop_succ_of_cons h]
        simp only [Nat.add_sub_cancel]
        rw [show c.col + 1 + p = c.col + (p + 1) by omega]
      · exact h

/-- expansion of the white space at the cursor. -/
theorem CurOK.expand {l : Line} {c : Cur} (h : CurOK l c) :
    (detab l).drop c.col =
      List.replicate c.indent ' ' ++ detabFrom (c.col + c.indent) (c.rest.dropWhile isSpTab) := by
  unfold CurOK at h
  rw [h, detabFrom_ws c.rest (c.col + c.ptab)]
  unfold Cur.indent
  rw [← List.replicate_append_replicate, List.append_assoc, Nat.add_assoc]

/-- the cursor after all white space. -/
def Cur.wsEnd (c : Cur) : Cur := ⟨c.rest.dropWhile isSpTab, c.col + c.indent, 0⟩

theorem CurOK.wsEnd {l : Line} {c : Cur} (h : CurOK l c) : CurOK l c.wsEnd := by
  have he := h.expand
  unfold CurOK Cur.wsEnd
  simp only [List.replicate_zero, List.nil_append, Nat.add_zero]
  have := drop_add_of_append he
  simpa using this

theorem wsCols_zero {s : List Char} {col : Nat} (h : wsCols s col = 0) : s.dropWhile isSpTab = s := by
  cases s with
  | nil => rfl
  | cons a t =>
    by_cases h1 : a = ' '
    · subst h1; simp [wsCols] at h
    · by_cases h2 : a = '\t'
      · subst h2; simp only [wsCols] at h; omega
      · have hs : isSpTab a = false := by
          simp only [isSpTab, Bool.or_eq_false_iff, beq_eq_false_iff_ne]
          exact ⟨h1, h2⟩
        simp [List.dropWhile, hs]

theorem wsCols_space (cs : List Char) (col : Nat) : wsCols (' ' :: cs) col = 1 + wsCols cs (col + 1) := by
  simp [wsCols]

theorem wsCols_tab (cs : List Char) (col : Nat) :
    wsCols ('\t' :: cs) col = (4 - col % 4) + wsCols cs (col + (4 - col % 4)) := by
  simp [wsCols]

theorem wsCols_other {s : List Char} (h1 : ∀ cs, s = ' ' :: cs → False) (h2 : ∀ cs, s = '\t' :: cs → False)
    (col : Nat) : wsCols s col = 0 := by
  unfold wsCols
  split
  · next cs => exact (h1 cs rfl).elim
  · next cs => exact (h2 cs rfl).elim
  · rfl

/-- closed form of `skipCols` over exactly the white space. -/
theorem skipCols_indent : ∀ (n : Nat) (c : Cur), c.indent = n →
    c.skipCols n = ⟨c.rest.dropWhile isSpTab, c.col + n, 0⟩
  | 0, c, h => by
    unfold Cur.skipCols
    obtain ⟨rest, col, ptab⟩ := c
    unfold Cur.indent at h
    simp only at h ⊢
    have hp : ptab = 0 := by omega
    have hw : wsCols rest (col + ptab) = 0 := by omega
    rw [wsCols_zero hw, hp]; rfl
  | n + 1, c, h => by
    unfold Cur.skipCols
    obtain ⟨rest, col, ptab⟩ := c
    unfold Cur.indent at h
    simp only at h ⊢
    split
    · next hp =>
      rw [skipCols_indent n ⟨rest, col + 1, ptab - 1⟩ (by
        unfold Cur.indent
        simp only
        rw [show col + 1 + (ptab - 1) = col + ptab by omega]
        omega)]
      simp only [Nat.add_assoc, Nat.add_comm 1 n]
    · next hp =>
      have hp0 : ptab = 0 := by omega
      subst hp0
      simp only [Nat.add_zero, Nat.zero_add] at h
      split
      · next cs =>
        rw [wsCols_space] at h
        rw [skipCols_indent n ⟨cs, col + 1, 0⟩ (by
          unfold Cur.indent
          simp only [Nat.add_zero, Nat.zero_add]
          omega)]
        simp [List.dropWhile, show isSpTab ' ' = true by decide, Nat.add_assoc, Nat.add_comm 1 n]
      · next cs =>
        rw [wsCols_tab] at h
        rw [skipCols_indent n ⟨cs, col + 1, 4 - col % 4 - 1⟩ (by
          unfold Cur.indent
          simp only
          rw [show col + 1 + (4 - col % 4 - 1) = col + (4 - col % 4) by omega]
          omega)]
        simp [List.dropWhile, show isSpTab '\t' = true by decide, Nat.add_assoc, Nat.add_comm 1 n]
      · next h1 h2 =>
        rw [wsCols_other h1 h2] at h
        omega

theorem skipWs_eq (c : Cur) : c.skipWs = c.wsEnd := by
  unfold Cur.skipWs Cur.wsEnd
  exact skipCols_indent c.indent c rfl

theorem skipCols_col : ∀ (n : Nat) (c : Cur), n ≤ c.indent → (c.skipCols n).col = c.col + n
  | 0, c, _ => by unfold Cur.skipCols; rfl
  | n + 1, c, h => by
    unfold Cur.skipCols
    obtain ⟨rest, col, ptab⟩ := c
    unfold Cur.indent at h
    simp only at h ⊢
    split
    · next hp =>
      rw [skipCols_col n ⟨rest, col + 1, ptab - 1⟩ (by
        unfold Cur.indent
        simp only
        rw [show col + 1 + (ptab - 1) = col + ptab by omega]
        omega)]
      simp only [Nat.add_assoc, Nat.add_comm 1 n]
    · next hp =>
      have hp0 : ptab = 0 := by omega
      subst hp0
      simp only [Nat.add_zero, Nat.zero_add] at h
      split
      · next cs =>
        rw [wsCols_space] at h
        rw [skipCols_col n ⟨cs, col + 1, 0⟩ (by
          unfold Cur.indent
          simp only [Nat.add_zero, Nat.zero_add]
          omega)]
        simp only [Nat.add_assoc, Nat.add_comm 1 n]
      · next cs =>
        rw [wsCols_tab] at h
        rw [skipCols_col n ⟨cs, col + 1, 4 - col % 4 - 1⟩ (by
          unfold Cur.indent
          simp only
          rw [show col + 1 + (4 - col % 4 - 1) = col + (4 - col % 4) by omega]
          omega)]
        simp only [Nat.add_assoc, Nat.add_comm 1 n]
      · next h1 h2 =>
        rw [wsCols_other h1 h2] at h
        omega

/-! ## reading characters off the cursor -/
theorem CurOK.space_at {l : Line} {c : Cur} (h : CurOK l c) {j : Nat} (hj : j < c.indent) :
    (detab l)[c.col + j]? = some ' ' := by
  have he := h.expand
  have : ((detab l).drop c.col)[j]? = (detab l)[c.col + j]? := List.getElem?_drop
  rw [← this, he, List.getElem?_append_left (by simpa using hj)]
  simp [hj]

theorem CurOK.char_at {l : Line} {c : Cur} (h : CurOK l c) (hp : c.ptab = 0) {x : Char} {r : List Char}
    (hr : c.rest = x :: r) (hx : x ≠ '\t') : (detab l)[c.col]? = some x := by
  unfold CurOK at h
  rw [hp, hr, detabFrom_ne hx] at h
  exact getElem?_of_drop_cons (by simpa using h)

theorem CurOK.after_char {l : Line} {c : Cur} (h : CurOK l c) (hp : c.ptab = 0) {x : Char} {r : List Char}
    (hr : c.rest = x :: r) (hx : x ≠ '\t') : CurOK l ⟨r, c.col + 1, 0⟩ := by
  unfold CurOK at h ⊢
  rw [hp, hr, detabFrom_ne hx] at h
  simp only [List.replicate_zero, List.nil_append, Nat.add_zero] at h ⊢
  exact drop_succ_of_cons h

theorem CurOK.after_chars {l : Line} : ∀ (w : Nat) (c : Cur), CurOK l c → c.ptab = 0 → w ≤ c.rest.length →
    (∀ x ∈ c.rest.take w, x ≠ '\t') → CurOK l ⟨c.rest.drop w, c.col + w, 0⟩
  | 0, c, h, hp, _, _ => by
    obtain ⟨rest, col, ptab⟩ := c
    simp only at hp; subst hp
    simpa using h
  | w + 1, c, h, hp, hw, hx => by
    cases hr : c.rest with
    | nil => rw [hr] at hw; simp at hw
    | cons a t =>
      rw [hr] at hw hx
      have h1 := h.after_char hp hr (hx a (by simp))
      have h2 := CurOK.after_chars w ⟨t, c.col + 1, 0⟩ h1 rfl (by simpa using hw)
        (by intro x hm; exact hx x (by simp [List.take_succ_cons, hm]))
      simp only [List.drop_succ_cons]
      simpa [Nat.add_assoc, Nat.add_comm 1 w] using h2

/-- facts about the cursor after the white space of a non-blank rest. -/
theorem skipWs_facts {l : Line} {c : Cur} (h : CurOK l c) :
    CurOK l c.skipWs ∧ c.skipWs.ptab = 0 ∧ c.skipWs.col = c.col + c.indent ∧
    c.skipWs.rest = c.rest.dropWhile isSpTab := by
  rw [skipWs_eq]
  exact ⟨h.wsEnd, rfl, rfl, rfl⟩

theorem skipWs_head {c : Cur} (hb : c.blank = false) :
    ∃ x r, c.skipWs.rest = x :: r ∧ isSpTab x = false := by
  rw [skipWs_eq]
  exact isBlankChars_false hb

/-! ## the line recognisers look at the first character -/
theorem countWhile_pos {p : Char → Bool} {t : List Char} (h : countWhile p t ≠ 0) :
    ∃ c r, t = c :: r ∧ p c = true := by
  cases t with
  | nil => simp [countWhile] at h
  | cons c r =>
    refine ⟨c, r, rfl, ?_⟩
    cases hp : p c with
    | true => rfl
    | false => simp [countWhile, hp] at h

theorem atx?_head {t : List Char} {res : Nat × List Char} (h : atx? t = some res) : ∃ r, t = '#' :: r := by
  by_cases hn : countWhile (· == '#') t = 0
  · simp [atx?, hn] at h
  · obtain ⟨c, r, rfl, hc⟩ := countWhile_pos hn
    simp only [beq_iff_eq] at hc
    subst hc
    exact ⟨r, rfl⟩

theorem fenceOpen?_head {t : List Char} {ch : Char} {len : Nat} {info : List Char}
    (h : fenceOpen? t = some (ch, len, info)) : ∃ r, t = ch :: r ∧ (ch = '`' ∨ ch = '~') := by
  unfold fenceOpen? at h
  split at h
  · next c r =>
    split at h
    · next hc =>
      simp only at h
      split at h
      · cases h
      · split at h
        · cases h
        · simp only [Option.some.injEq, Prod.mk.injEq] at h
          obtain ⟨rfl, _, _⟩ := h
          exact ⟨r, rfl, by simpa using hc⟩
    · cases h
  · cases h

theorem isTBreak_head {t : List Char} (h : isTBreak t = true) :
    ∃ c r, t = c :: r ∧ c ∈ ['-', '_', '*'] := by
  unfold isTBreak at h
  split at h
  · next c r =>
    refine ⟨c, r, rfl, ?_⟩
    simp only [Bool.and_eq_true, Bool.or_eq_true, beq_iff_eq] at h
    rcases h.1.1 with (h1 | h1) | h1 <;> simp [h1]
  · cases h

theorem take_succ_takeWhile {p : Char → Bool} {d : Char} {r2 : List Char} : ∀ (t : List Char),
    t.drop (t.takeWhile p).length = d :: r2 →
    (t.takeWhile p).length + 1 ≤ t.length ∧ ∀ x ∈ t.take ((t.takeWhile p).length + 1), p x = true ∨ x = d
  | [], h => by simp at h
  | a :: t', h => by
    cases hp : p a with
    | true =>
      simp only [List.takeWhile_cons, hp, ↓reduceIte, List.length_cons, List.drop_succ_cons] at h ⊢
      have ih := take_succ_takeWhile t' h
      refine ⟨by omega, ?_⟩
      intro x hx
      rw [List.take_succ_cons] at hx
      rcases List.mem_cons.mp hx with rfl | hx
      · exact Or.inl hp
      · exact ih.2 x hx
    | false =>
      simp only [List.takeWhile_cons, hp, Bool.false_eq_true, ↓reduceIte, List.length_nil, List.drop_zero,
        List.cons.injEq] at h ⊢
      obtain ⟨rfl, _⟩ := h
      refine ⟨by simp, ?_⟩
      intro x hx
      simp at hx
      exact Or.inr hx

theorem ite_some_none {α : Type} {b : Prop} [Decidable b] {a x : α}
    (h : (if b then some a else none) = some x) : a = x := by
  split at h
  · exact Option.some.inj h
  · cases h

theorem isDigit_ne_tab {c : Char} (h : isDigit c = true) : c ≠ '\t' := by
  intro hc; subst hc; revert h; decide

/-- a list marker: first character (bullet, or first digit), and its `w` characters contain no tab. -/
theorem listMarker?_facts {t : List Char} {ord : Bool} {d : Char} {st w : Nat}
    (h : listMarker? t = some (ord, d, st, w)) :
    ∃ c r, t = c :: r ∧ (ord = false → d = c ∧ c ∈ ['-', '+', '*']) ∧ (ord = true → isDigit c = true) ∧
      w ≤ t.length ∧ ∀ x ∈ t.take w, x ≠ '\t' := by
  unfold listMarker? at h
  split at h
  · next c r =>
    split at h
    · next hc =>
      have hb : c ∈ ['-', '+', '*'] := by
        simp only [Bool.or_eq_true, beq_iff_eq] at hc
        rcases hc with (h1 | h1) | h1 <;> simp [h1]
      have hnt : c ≠ '\t' := by
        intro hx; subst hx; revert hb; decide
      have key : ∀ {o : Option (Bool × Char × Nat × Nat)}, (o = some (false, c, 0, 1) ∨ o = none) →
          o = some (ord, d, st, w) → ord = false ∧ d = c ∧ w = 1 := by
        intro o ho hh
        rcases ho with ho | ho
        · rw [ho] at hh
          simp only [Option.some.injEq, Prod.mk.injEq] at hh
          exact ⟨hh.1.symm, hh.2.1.symm, hh.2.2.2.symm⟩
        · rw [ho] at hh; cases hh
      have h3 : ord = false ∧ d = c ∧ w = 1 := by
        split at h
        · exact key (Or.inl rfl) h
        · split at h
          · exact key (Or.inl rfl) h
          · exact key (Or.inr rfl) h
      obtain ⟨rfl, rfl, rfl⟩ := h3
      exact ⟨d, r, rfl, fun _ => ⟨rfl, hb⟩, by simp, by simp, by simpa using hnt⟩
    · split at h
      · next hdg =>
        simp only at h
        split at h
        · cases h
        · split at h
          · next d' r2 hdrop =>
            split at h
            · next hd' =>
              · have h := ite_some_none h
                simp only [Prod.mk.injEq] at h
                obtain ⟨rfl, rfl, _, rfl⟩ := h
                have hk := take_succ_takeWhile (c :: r) hdrop
                refine ⟨c, r, rfl, by simp, fun _ => hdg, hk.1, ?_⟩
                intro x hx
                rcases hk.2 x hx with hx | hx
                · exact isDigit_ne_tab hx
                · subst hx
                  simp only [Bool.or_eq_true, beq_iff_eq] at hd'
                  rcases hd' with h1 | h1 <;> (rw [h1]; decide)
            · cases h
          · cases h
      · cases h
  · cases h

theorem htmlStart?_head {t : List Char} {k : Nat} (h : htmlStart? t = some k) : ∃ r, t = '<' :: r := by
  unfold htmlStart? at h
  split at h
  · next r => exact ⟨r, rfl⟩
  · cases h

end Verif.Model.LeanMark
