/-
  When do `is_ulist_start` / `is_olist_start` accept?  The verdict as one conjunction of named clauses over the text after the
  index (`parseMarker`), for an arbitrary stack.
-/
import Verif.Lemmas.ListStartsBridge
namespace Verif.Model.ListStarts
open Verif.Model.Recognisers (Str charAt slice isCharAtOneOf isWsAt extractSpacesVerified calcLength lenLe isStartUlist isStartOlist
  SP TAB scanTo digits thematicBodyB)
open Verif.Model.ListStartsSpec (Marker MarkerAt parseMarker followOkB isSpTab isDigit isDelim isBulletChar Blank blankB)

/-- the paragraph clauses of phase one and phase two together: the candidate is refused because it would interrupt the
paragraph on top of the stack (`blank` = `at_end_of_line`, `notOne` = `is_not_one`) -/
def paraRefuses (top : Entry) (t2 : Option Entry) (blank notOne : Bool) (start : Nat) : Bool :=
  top.isPara && (blank || notOne) &&
    (match t2 with
      | some e => !e.isList || decide (start ≥ e.indent)
      | none => true)

/-- `is_block_within_list`: a fenced / HTML block is open inside a list and the marker ends right of the list's indent -/
def blockWithin (top : Entry) (t2 : Option Entry) (markerEnd : Nat) : Bool :=
  (top.kind == .fenced || top.kind == .html) &&
    (match t2 with
      | some e => e.isList && decide (markerEnd + 1 > e.mtIndent)
      | none => false)

theorem phases_eq (top : Entry) (t2 : Option Entry) (line : Str) (me : Nat) (n1 : Bool) (start : Nat) :
    (p1Pure top t2 line me n1 && p2Pure top t2 n1 (afterWs line (me + 1)) line start) =
      (!paraRefuses top t2 (afterWs line (me + 1) == line.length) n1 start && !blockWithin top t2 me &&
        (isWsAt line (me + 1) || me + 1 == line.length)) := by
  unfold p1Pure p2Pure paraRefuses blockWithin
  cases t2 with
  | none =>
    simp only [optIsList]
    cases top.isPara <;> cases (afterWs line (me + 1) == line.length) <;> cases n1 <;>
      cases (top.kind == Kind.fenced || top.kind == Kind.html) <;>
      cases (isWsAt line (me + 1) || me + 1 == line.length) <;> rfl
  | some e =>
    simp only [optIsList]
    cases top.isPara <;> cases (afterWs line (me + 1) == line.length) <;> cases n1 <;>
      cases (top.kind == Kind.fenced || top.kind == Kind.html) <;>
      cases (isWsAt line (me + 1) || me + 1 == line.length) <;> cases e.isList <;>
      cases decide (start ≥ e.indent) <;> cases decide (me + 1 > e.mtIndent) <;> rfl

theorem ulistPure_isStart_raw (top : Entry) (t2 t3 : Option Entry) (line : Str) (start : Nat) (ews : Str) (skip : Bool)
    (adjWs : Option Str) :
    (ulistPure top t2 t3 line start ews skip adjWs).isStart =
      ((lenLe (adjustPure (cpPure top t2 t3) (exWsOf ews adjWs) start).1
            (3 + (adjustPure (cpPure top t2 t3) (exWsOf ews adjWs) start).2) || skip) &&
        bulletB line start (thematicWs ews (adjustPure (cpPure top t2 t3) (exWsOf ews adjWs) start).2) &&
        (p1Pure top t2 line start false && p2Pure top t2 false (afterWs line (start + 1)) line start)) := by
  unfold ulistPure
  simp only
  by_cases hC : (lenLe (adjustPure (cpPure top t2 t3) (exWsOf ews adjWs) start).1
      (3 + (adjustPure (cpPure top t2 t3) (exWsOf ews adjWs) start).2) || skip) = true
  · by_cases hB : bulletB line start (thematicWs ews (adjustPure (cpPure top t2 t3) (exWsOf ews adjWs) start).2) = true
    · by_cases hP : p1Pure top t2 line start false = true
      · simp [hC, hB, hP]
      · simp only [Bool.not_eq_true] at hP
        simp [hC, hB, hP]
    · simp only [Bool.not_eq_true] at hB
      simp [hC, hB]
  · simp only [Bool.not_eq_true] at hC
    simp [hC]

theorem bool_rearrange (C B1 T PP R W F M : Bool) (hph : PP = (!R && !W && F)) (hbv : (B1 && F) = M) :
    (C && (B1 && !T) && PP) = (C && M && !T && !R && !W) := by
  subst hph; subst hbv
  cases C <;> cases B1 <;> cases T <;> cases R <;> cases W <;> cases F <;> rfl

/-- **`is_ulist_start` accepts iff** — for every stack (three topmost tokens), line, index, whitespace, flag -/
theorem ulistPure_isStart (top : Entry) (t2 t3 : Option Entry) (line : Str) (start : Nat) (ews : Str) (skip : Bool)
    (adjWs : Option Str) :
    (ulistPure top t2 t3 line start ews skip adjWs).isStart =
      ((lenLe (adjustPure (cpPure top t2 t3) (exWsOf ews adjWs) start).1
            (3 + (adjustPure (cpPure top t2 t3) (exWsOf ews adjWs) start).2) || skip) &&
        isBulletMarker (parseMarker (line.drop start)) &&
        !(lenLe (thematicWs ews (adjustPure (cpPure top t2 t3) (exWsOf ews adjWs) start).2) 3 && thematicBodyB (line.drop start)) &&
        !paraRefuses top t2 (blankB (line.drop (start + 1))) false start &&
        !blockWithin top t2 start) := by
  rw [ulistPure_isStart_raw]
  by_cases hl : start < line.length
  · unfold bulletB
    apply bool_rearrange
    · rw [phases_eq, atEol_view line (start + 1) (by omega)]
    · exact bullet_view line start
  · have h1 : bulletB line start (thematicWs ews (adjustPure (cpPure top t2 t3) (exWsOf ews adjWs) start).2) = false := by
      cases hb : bulletB line start (thematicWs ews (adjustPure (cpPure top t2 t3) (exWsOf ews adjWs) start).2)
      · rfl
      · exact absurd (bulletB_lt hb) hl
    have h2 : parseMarker (line.drop start) = none := by
      rw [List.drop_eq_nil_of_le (by omega)]; rfl
    rw [h1, h2]
    simp [isBulletMarker]

theorem olistPure_isStart_raw (top : Entry) (t2 t3 : Option Entry) (line : Str) (start : Nat) (ews : Str) (skip : Bool)
    (adjWs : Option Str) :
    (olistPure top t2 t3 line start ews skip adjWs).isStart =
      ((lenLe (adjustPure (cpPure top t2 t3) (exWsOf ews adjWs) start).1
            (3 + (adjustPure (cpPure top t2 t3) (exWsOf ews adjWs) start).2) || skip) &&
        olistMarkerB line start &&
        (p1Pure top t2 line (digitsEnd line start) (notOneB line start) &&
          p2Pure top t2 (notOneB line start) (afterWs line (digitsEnd line start + 1)) line start)) := by
  unfold olistPure
  simp only
  by_cases hC : (lenLe (adjustPure (cpPure top t2 t3) (exWsOf ews adjWs) start).1
      (3 + (adjustPure (cpPure top t2 t3) (exWsOf ews adjWs) start).2) || skip) = true
  · by_cases hD : isCharAtOneOf line start digits = true
    · by_cases hB : olistMarkerB line start = true
      · by_cases hP : p1Pure top t2 line (digitsEnd line start) (notOneB line start) = true
        · simp [hC, hD, hB, hP]
        · simp only [Bool.not_eq_true] at hP
          simp [hC, hD, hB, hP]
      · simp only [Bool.not_eq_true] at hB
        simp [hC, hD, hB]
    · simp only [Bool.not_eq_true] at hD
      have hB : olistMarkerB line start = false := by
        unfold olistMarkerB; rw [hD]; rfl
      simp [hC, hD, hB]
  · simp only [Bool.not_eq_true] at hC
    simp [hC]

theorem bool_rearrange_o (C B PP R W F M : Bool) (hph : PP = (!R && !W && F)) (hbv : (B && F) = M) :
    (C && B && PP) = (C && M && !R && !W) := by
  subst hph; subst hbv
  cases C <;> cases B <;> cases R <;> cases W <;> cases F <;> rfl

/-- **`is_olist_start` accepts iff** — for every stack (three topmost tokens), line, index, whitespace, flag -/
theorem olistPure_isStart (top : Entry) (t2 t3 : Option Entry) (line : Str) (start : Nat) (ews : Str) (skip : Bool)
    (adjWs : Option Str) :
    (olistPure top t2 t3 line start ews skip adjWs).isStart =
      ((lenLe (adjustPure (cpPure top t2 t3) (exWsOf ews adjWs) start).1
            (3 + (adjustPure (cpPure top t2 t3) (exWsOf ews adjWs) start).2) || skip) &&
        isOrderedMarker (parseMarker (line.drop start)) &&
        !paraRefuses top t2 (blankB (line.drop (digitsEnd line start + 1))) (notOneB line start) start &&
        !blockWithin top t2 (digitsEnd line start)) := by
  rw [olistPure_isStart_raw]
  by_cases hm : olistMarkerB line start = true
  · obtain ⟨-, hlt⟩ := olistMarkerB_lt hm
    apply bool_rearrange_o
    · rw [phases_eq, atEol_view line (digitsEnd line start + 1) (by omega)]
    · exact ordered_view line start
  · simp only [Bool.not_eq_true] at hm
    have h2 := ordered_view line start
    rw [hm, Bool.false_and] at h2
    rw [hm, ← h2]
    simp

end Verif.Model.ListStarts
