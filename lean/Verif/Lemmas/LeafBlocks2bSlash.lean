/-
  Lemmas for `html_start_spec6` with the self-closing `/`: the closed form of
  `__check_for_normal_html_blocks_adjust_tag` (`getLast?` / `dropLast`) against "followed by … the string `/>`".
-/
import Verif.Lemmas.LeafBlocks2bSix
namespace Verif.Model.LeafBlocks2
open Verif.Model.Recognisers Verif.Model.InlineRecog
open Verif.Model.HtmlBlockSpec (cond1 cond2 cond3 cond4 cond5 cond6 gfm029 cm031 startOfText startOfLine indentOf beginsCI follow1 follow6 lower)

/-- the characters of a tag name proper: up to space, `>` or `/` -/
def p6 (d : Char) : Bool := p1 d && d != '/'

def stopP (p : Char → Bool) : Str → Bool
  | [] => true
  | c :: _ => !p c

def slashOK : Str → Bool
  | [] => true
  | c :: t => if c == '/' then t.head? == some '>' else true

theorem dropWhile_eq_drop (p : Char → Bool) (l : Str) : l.dropWhile p = l.drop (l.takeWhile p).length := by
  induction l with
  | nil => rfl
  | cons a t ih =>
    by_cases h : p a = true
    · simp [h, ih]
    · simp [h]

theorem p6_p1 (c : Char) (h : p6 c = true) : p1 c = true := by
  unfold p6 at h; simp only [Bool.and_eq_true] at h; exact h.1

theorem lower_iff6 (c x : Char) (hx : p6 x = true) (hc : c ≠ KELVIN) :
    (p6 c = true ∧ pyLowerChar c = x) ↔ (lower c == x) = true := by
  rw [← lower_iff2 c x (p6_p1 x hx) hc]
  constructor
  · rintro ⟨h1, h2⟩; exact ⟨p6_p1 c h1, h2⟩
  · rintro ⟨h1, h2⟩
    refine ⟨?_, h2⟩
    unfold p6; rw [h1, Bool.true_and]
    simp only [bne_iff_ne, ne_eq]
    intro e; subst e
    have e1 : pyLowerChar '/' = '/' := by decide
    rw [e1] at h2; subst h2
    exact absurd hx (by decide)

theorem takeWhile_name_gen (p : Char → Bool)
    (hp : ∀ c x, p x = true → c ≠ KELVIN → ((p c = true ∧ pyLowerChar c = x) ↔ (lower c == x) = true))
    (n : Str) (hn : ∀ x ∈ n, p x = true) : ∀ r : Str, KELVIN ∉ r →
    ((pyLower (r.takeWhile p) = n) ↔ (beginsCI n r = true ∧ stopP p (r.drop n.length) = true)) := by
  induction n with
  | nil =>
    intro r _
    cases r with
    | nil => simp [pyLower, beginsCI, stopP]
    | cons c cs =>
      simp only [List.takeWhile_cons, beginsCI, List.length_nil, List.drop_zero, stopP, true_and]
      by_cases hpc : p c = true
      · simp [hpc, pyLower]
      · simp [hpc, pyLower]
  | cons x xs ih =>
    intro r hr
    cases r with
    | nil => simp [pyLower, beginsCI]
    | cons c cs =>
      have hx := hn x (List.mem_cons_self ..)
      have hcK : c ≠ KELVIN := fun e => hr (e ▸ List.mem_cons_self ..)
      have ih' := ih (fun y hy => hn y (List.mem_cons_of_mem _ hy)) cs (fun hm => hr (List.mem_cons_of_mem _ hm))
      have hc := hp c x hx hcK
      simp only [List.takeWhile_cons, beginsCI, List.length_cons, List.drop_succ_cons, Bool.and_eq_true]
      by_cases hpc : p c = true
      · rw [if_pos hpc]
        simp only [pyLower, List.map_cons, List.cons.injEq]
        constructor
        · rintro ⟨h1, h2⟩
          obtain ⟨b, c'⟩ := ih'.mp h2
          exact ⟨⟨hc.mp ⟨hpc, h1⟩, b⟩, c'⟩
        · rintro ⟨⟨h1, b⟩, c'⟩
          exact ⟨(hc.mpr h1).2, ih'.mpr ⟨b, c'⟩⟩
      · rw [if_neg hpc]
        constructor
        · intro h; simp [pyLower] at h
        · rintro ⟨⟨h1, _⟩, _⟩; exact absurd (hc.mpr h1).1 hpc

/-- "followed by a space, a tab, the end of the line, `>` or `/>`" on a tab-free text -/
theorem follow6_split (b : Str) (h : TAB ∉ b) : follow6 b = (stopP p6 b && slashOK b) := by
  cases b with
  | nil => rfl
  | cons c t =>
    have hc : c ≠ '\t' := by intro e; subst e; exact h (List.mem_cons_self ..)
    have e1 : (c == '\t') = false := beq_eq_false_iff_ne.mpr hc
    by_cases hs : c = '/'
    · subst hs
      simp [follow6, stopP, slashOK, p6, p1, HtmlBlockSpec.isSpTab]
    · have e2 : (c == '/') = false := beq_eq_false_iff_ne.mpr hs
      have e3 : (c != '/') = true := by simp [hs]
      simp only [follow6, stopP, slashOK, p6, e2, e3, Bool.false_and, Bool.or_false, Bool.and_true, Bool.false_eq_true,
        if_false, HtmlBlockSpec.isSpTab, e1]
      simp [p1]
      try rfl

theorem block6_p6 : ∀ n ∈ block6Names, ∀ x ∈ n, p6 x = true := by decide

/-- the specification's condition 6 on a text without TAB and U+212A: the name up to space / `>` / `/` is in the table and a `/`
after it is followed by `>` -/
theorem cond6_spec_closed (r : Str) (hnt : TAB ∉ afterSlash r) (hK : KELVIN ∉ afterSlash r) :
    cond6 gfm029 r =
      (block6Names.contains (pyLower ((afterSlash r).takeWhile p6)) && slashOK ((afterSlash r).dropWhile p6)) := by
  rw [cond6_afterSlash, block6_029, Bool.eq_iff_iff, List.any_eq_true, Bool.and_eq_true, List.contains_iff_mem]
  constructor
  · rintro ⟨n, hn, h⟩
    rw [Bool.and_eq_true, follow6_split _ (notMem_drop hnt _), Bool.and_eq_true] at h
    obtain ⟨hb, hst, hsl⟩ := h
    have hu := (takeWhile_name_gen p6 lower_iff6 n (block6_p6 n hn) (afterSlash r) hK).mpr ⟨hb, hst⟩
    refine ⟨hu ▸ hn, ?_⟩
    have hlen : ((afterSlash r).takeWhile p6).length = n.length := by
      rw [← hu]; simp [pyLower]
    have hd : (afterSlash r).dropWhile p6 = (afterSlash r).drop n.length := by
      rw [← hlen]; exact dropWhile_eq_drop p6 _
    rw [hd]; exact hsl
  · rintro ⟨hm, hsl⟩
    refine ⟨_, hm, ?_⟩
    have h := (takeWhile_name_gen p6 lower_iff6 _ (block6_p6 _ hm) (afterSlash r) hK).mp rfl
    have hlen : (pyLower ((afterSlash r).takeWhile p6)).length = ((afterSlash r).takeWhile p6).length := by simp [pyLower]
    have hd : (afterSlash r).dropWhile p6 = (afterSlash r).drop (pyLower ((afterSlash r).takeWhile p6)).length := by
      rw [hlen]; exact dropWhile_eq_drop p6 _
    rw [Bool.and_eq_true, follow6_split _ (notMem_drop hnt _), Bool.and_eq_true, ← hd]
    rw [← hd] at h
    exact ⟨h.1, h.2, hsl⟩

/-! ## the code side: the adjusted name -/

/-- the adjusted name in terms of the collected text `w` and the character after it -/
def codeAdj (w : Str) (hd : Option Char) : Str :=
  if (hd == some '>') && (w.getLast? == some '/') then pyLower w.dropLast else pyLower w

theorem mem_takeWhile_p (p : Char → Bool) (l : Str) (c : Char) (h : c ∈ l.takeWhile p) : p c = true := by
  induction l with
  | nil => cases h
  | cons a t ih =>
    rw [List.takeWhile_cons] at h
    split at h
    · next hp =>
      rcases List.mem_cons.mp h with e | e
      · rw [e]; exact hp
      · exact ih e
    · cases h

theorem stopP_dropWhile (p : Char → Bool) (l : Str) : stopP p (l.dropWhile p) = true := by
  induction l with
  | nil => rfl
  | cons a t ih =>
    by_cases h : p a = true
    · simp [h, ih]
    · simp [h, stopP]

theorem slash_not_block6 (a : Str) (h : '/' ∈ a) : block6Names.contains a = false := by
  cases hc : block6Names.contains a with
  | false => rfl
  | true =>
    have := block6_p6 a (List.contains_iff_mem.mp hc) '/' h
    exact absurd this (by decide)

theorem slash_mem_pyLower (a : Str) (h : '/' ∈ a) : '/' ∈ pyLower a :=
  List.mem_map.mpr ⟨'/', h, by decide⟩

theorem codeAdj_closed (u b : Str) (hu : ∀ c ∈ u, p6 c = true) (hb : stopP p6 b = true) :
    block6Names.contains (codeAdj (u ++ b.takeWhile p1) (b.dropWhile p1).head?) =
      (block6Names.contains (pyLower u) && slashOK b) := by
  have hus : '/' ∉ u := fun hm => absurd (hu _ hm) (by decide)
  have hul : (u.getLast? == some '/') = false := by
    rw [beq_eq_false_iff_ne]; intro e; exact hus (List.mem_of_getLast? e)
  cases b with
  | nil => simp [codeAdj, slashOK]
  | cons c t =>
    by_cases hc : c = '/'
    · subst hc
      have hp : p1 '/' = true := by decide
      simp only [List.takeWhile_cons, List.dropWhile_cons, hp, if_true, slashOK, beq_self_eq_true]
      cases t with
      | nil =>
        have : '/' ∈ codeAdj (u ++ ['/']) none := by
          unfold codeAdj
          have e0 : ((none : Option Char) == some '>') = false := rfl
          rw [e0, Bool.false_and, if_neg Bool.false_ne_true]; exact slash_mem_pyLower _ (by simp)
        simp only [List.takeWhile_nil, List.dropWhile_nil, List.head?_nil]
        rw [slash_not_block6 _ this]; simp
      | cons d t2 =>
        by_cases hd : d = '>'
        · subst hd
          have hp2 : p1 '>' = false := by decide
          simp only [List.takeWhile_cons, List.dropWhile_cons, hp2, Bool.false_eq_true, if_false, List.head?_cons,
            beq_self_eq_true, Bool.and_true]
          unfold codeAdj
          rw [List.getLast?_concat, List.dropLast_concat]
          simp
        · have hne : (some d == some '>') = false := by simp [hd]
          simp only [List.head?_cons, hne, Bool.and_false]
          apply slash_not_block6
          unfold codeAdj
          split
          · next hcond =>
            simp only [Bool.and_eq_true] at hcond
            by_cases hpd : p1 d = true
            · simp only [List.takeWhile_cons, hpd, if_true]
              apply slash_mem_pyLower
              rw [List.dropLast_append_cons, List.dropLast_cons_of_ne_nil (by simp)]
              simp
            · exfalso
              simp only [List.dropWhile_cons, hpd] at hcond
              have := hcond.1
              simp at this
              exact hd this
          · apply slash_mem_pyLower; simp
    · have e2 : (c == '/') = false := beq_eq_false_iff_ne.mpr hc
      have hp : p1 c = false := by
        have hb' : (!(p1 c && c != '/')) = true := hb
        have e3 : (c != '/') = true := by simp [hc]
        rw [e3, Bool.and_true] at hb'
        simpa using hb'
      simp only [List.takeWhile_cons, List.dropWhile_cons, hp, Bool.false_eq_true, if_false, List.append_nil, slashOK, e2,
        Bool.and_true]
      unfold codeAdj
      rw [hul, Bool.and_false, if_neg Bool.false_ne_true]

theorem contains_codeAdj (l : Str) :
    block6Names.contains (codeAdj (l.takeWhile p1) (l.dropWhile p1).head?) =
      (block6Names.contains (pyLower (l.takeWhile p6)) && slashOK (l.dropWhile p6)) := by
  have hu : ∀ a ∈ l.takeWhile p6, p1 a = true := fun a ha => p6_p1 a (mem_takeWhile_p p6 l a ha)
  have h1 : l.takeWhile p1 = l.takeWhile p6 ++ (l.dropWhile p6).takeWhile p1 := by
    have := List.takeWhile_append_of_pos (p := p1) (l₁ := l.takeWhile p6) (l₂ := l.dropWhile p6) hu
    rwa [List.takeWhile_append_dropWhile] at this
  have h2 : l.dropWhile p1 = (l.dropWhile p6).dropWhile p1 := by
    have := List.dropWhile_append_of_pos (p := p1) (l₁ := l.takeWhile p6) (l₂ := l.dropWhile p6) hu
    rwa [List.takeWhile_append_dropWhile] at this
  rw [h1, h2]
  exact codeAdj_closed _ _ (mem_takeWhile_p p6 l) (stopP_dropWhile p6 l)

theorem line_at (k : Nat) (r : Str) :
    (List.replicate k SP ++ '<' :: r)[k + 1 + (r.takeWhile p1).length]? = (r.dropWhile p1).head? := by
  rw [dropWhile_eq_drop, List.head?_drop]
  have : List.replicate k SP ++ '<' :: r = (List.replicate k SP ++ ['<']) ++ r := by simp
  rw [this, List.getElem?_append_right (by simp)]
  congr 1
  simp

theorem pyLower_getLast (w : Str) : ((pyLower w).getLast? == some '/') = (w.getLast? == some '/') := by
  unfold pyLower
  rw [List.getLast?_map]
  cases w.getLast? with
  | none => rfl
  | some c =>
    by_cases hc : c = '/'
    · subst hc; decide
    · have h1 : pyLowerChar c ≠ '/' := fun e => hc (pyLowerChar_slash c e)
      simp
      rw [beq_eq_false_iff_ne.mpr h1, beq_eq_false_iff_ne.mpr hc]

theorem pyLower_dropLast (w : Str) : (pyLower w).dropLast = pyLower w.dropLast := by
  unfold pyLower; exact List.map_dropLast.symm

theorem match_gt (o : Option Char) : (match o with | some c => c == '>' | none => false) = (o == some '>') := by
  cases o <;> simp

theorem head_not_slash (r : Str) (h : ¬ ∃ x, r = '/' :: x) :
    ((pyLower (r.takeWhile p1)).head? == some '/') = false := by
  cases r with
  | nil => rfl
  | cons c cs =>
    have hc : c ≠ '/' := fun e => h ⟨cs, by rw [e]⟩
    rw [List.takeWhile_cons]
    split
    · have h1 : pyLowerChar c ≠ '/' := fun e => hc (pyLowerChar_slash c e)
      simp [pyLower, h1]
    · rfl

/-- **closed form of `__check_for_normal_html_blocks_adjust_tag`**: the adjusted name, in terms of the text after the optional `/`
of an end tag -/
theorem adjName_eq (r line : Str) (ci : Nat) (hline : line[ci]? = (r.dropWhile p1).head?) :
    adjName (pyLower (r.takeWhile p1)) line ci =
      codeAdj ((afterSlash r).takeWhile p1) ((afterSlash r).dropWhile p1).head? := by
  by_cases h : ∃ x, r = '/' :: x
  · obtain ⟨x, rfl⟩ := h
    have e : afterSlash ('/' :: x) = x := rfl
    have hp : p1 '/' = true := by decide
    have e1 : pyLower ('/' :: x.takeWhile p1) = '/' :: pyLower (x.takeWhile p1) := by
      show pyLowerChar '/' :: _ = _
      rw [show pyLowerChar '/' = '/' from by decide]; rfl
    rw [e] 
    unfold adjName codeAdj
    rw [hline]
    simp only [List.takeWhile_cons, List.dropWhile_cons, hp, if_true, e1, List.head?_cons, beq_self_eq_true,
      List.drop_succ_cons, List.drop_zero]
    rw [pyLower_getLast, pyLower_dropLast]
  · have e : afterSlash r = r := by
      unfold afterSlash
      split
      · next x => exact absurd ⟨x, rfl⟩ h
      · rfl
    rw [e]
    unfold adjName codeAdj
    rw [hline]
    simp only [head_not_slash r h, Bool.false_eq_true, if_false]
    rw [pyLower_getLast, pyLower_dropLast]

/-- **closed form of start condition 6** (0.29) on a text without TAB and U+212A: the adjusted name of the code is in the kind-6
table iff the specification's condition holds (self-closing `/>` included) -/
theorem cond6_closed_full (r line : Str) (ci : Nat) (hline : line[ci]? = (r.dropWhile p1).head?)
    (hnt : TAB ∉ afterSlash r) (hK : KELVIN ∉ afterSlash r) :
    block6Names.contains (adjName (pyLower (r.takeWhile p1)) line ci) = cond6 gfm029 r := by
  rw [adjName_eq r line ci hline, contains_codeAdj, cond6_spec_closed r hnt hK]

end Verif.Model.LeafBlocks2
