/-
  C04 helper: producers that write only through push / pop / leaf primitives emit well-nested streams;
  producers that write through the monitor-guarded primitives emit accepted streams.
-/
import Verif.Lemmas.WellFormed
namespace Verif.Lemmas.WellFormed
open Verif.Model.WellFormed

def PInv (p : Producer) : Prop := gRun balSpec [] 0 p.out = some p.stack

theorem gRun_snoc (P : Spec) (xs : List Tok) (t : Tok) (st : Stack) (h : gRun P [] 0 xs = some st) :
    gRun P [] 0 (xs ++ [t]) = gStep P st xs.length t := by
  rw [gRun_append, h]
  simp only [Option.bind_some, Nat.zero_add, gRun]
  cases gStep P st xs.length t <;> simp

theorem pinv_empty : PInv Producer.empty := by simp [PInv, Producer.empty, gRun]

theorem push_inv {p : Producer} (h : PInv p) (n : String) (c : Cls) : PInv (p.push n c) := by
  unfold PInv at *
  simp only [Producer.push]
  rw [gRun_snoc _ _ _ _ h]
  simp [gStep, balSpec]

theorem pop_inv {p : Producer} (h : PInv p) : PInv p.pop := by
  unfold Producer.pop
  split
  · exact h
  · rename_i i s r hs
    unfold PInv at *
    simp only
    rw [hs] at h
    rw [gRun_snoc _ _ _ _ h]
    simp [gStep, balSpec]

theorem leaf_inv {p : Producer} (h : PInv p) (n : String) (c : Cls) : PInv (p.leaf n c) := by
  unfold PInv at *
  simp only [Producer.leaf]
  rw [gRun_snoc _ _ _ _ h]
  simp [gStep, balSpec]

theorem exec_inv : ∀ (cs : List Cmd) {p : Producer}, PInv p → PInv (exec p cs)
  | [], _, h => h
  | .push n c :: cs, _, h => exec_inv cs (push_inv h n c)
  | .pop :: cs, _, h => exec_inv cs (pop_inv h)
  | .leaf n c :: cs, _, h => exec_inv cs (leaf_inv h n c)

theorem popAll_inv : ∀ n {p : Producer}, PInv p → PInv (popAll n p)
  | 0, _, h => h
  | n + 1, _, h => popAll_inv n (pop_inv h)

theorem pop_len (p : Producer) : p.pop.stack.length = p.stack.length - 1 := by
  unfold Producer.pop; split <;> simp_all

theorem popAll_empty : ∀ n (p : Producer), p.stack.length ≤ n → (popAll n p).stack = []
  | 0, p, h => by
    have : p.stack.length = 0 := by omega
    simpa [popAll] using this
  | n + 1, p, h => popAll_empty n p.pop (by rw [pop_len]; omega)

theorem produce_balanced {σ α : Type} (decide : σ → Producer → α → σ × List Cmd) (s0 : σ) (inputs : List α) :
    gRun balSpec [] 0 (produce decide s0 inputs).out = some [] := by
  have hfold : ∀ (ls : List α) (sp : σ × Producer), PInv sp.2 →
      PInv (ls.foldl (fun (sp : σ × Producer) a => let d := decide sp.1 sp.2 a; (d.1, exec sp.2 d.2)) sp).2 := by
    intro ls; induction ls with
    | nil => intro sp h; exact h
    | cons l ls ih => intro sp h; exact ih _ (exec_inv _ h)
  have h1 := hfold inputs (s0, Producer.empty) pinv_empty
  unfold produce
  simp only
  generalize (inputs.foldl (fun (sp : σ × Producer) a => let d := decide sp.1 sp.2 a; (d.1, exec sp.2 d.2))
    (s0, Producer.empty)) = r at h1 ⊢
  have h2 := popAll_inv r.2.stack.length h1
  have h3 := popAll_empty r.2.stack.length r.2 (Nat.le_refl _)
  simp only [PInv] at h2
  rw [h2, h3]

/-! ### guarded producer -/

def GInv (g : GProd) : Prop := run St.init g.out = .ok g.mon

theorem run_snoc : ∀ (xs : List Tok) (s m : St) (t : Tok), run s xs = .ok m → run s (xs ++ [t]) = step m t
  | [], s, m, t, h => by
    simp only [run, Except.ok.injEq] at h; subst h
    simp only [List.nil_append, run]
    cases step s t <;> rfl
  | x :: xs, s, m, t, h => by
    simp only [run, List.cons_append] at h ⊢
    cases hs : step s x with
    | error e => simp [hs] at h
    | ok s' =>
      simp only [hs] at h ⊢
      exact run_snoc xs s' m t h

theorem ginv_empty : GInv GProd.empty := by simp [GInv, GProd.empty, run]

theorem emit_inv {g : GProd} (h : GInv g) (t : Tok) : GInv (g.emit t) := by
  unfold GProd.emit
  split
  · rename_i m hm
    unfold GInv at *
    simp only
    rw [run_snoc _ _ _ _ h, hm]
  · exact h

theorem close_inv {g : GProd} (h : GInv g) : GInv g.close := by
  unfold GProd.close
  split
  · exact h
  · exact emit_inv h _

theorem closeAll_inv : ∀ n {g : GProd}, GInv g → GInv (GProd.closeAll n g)
  | 0, _, h => h
  | n + 1, _, h => closeAll_inv n (close_inv h)

theorem gexec_inv : ∀ (cs : List (Option Tok)) {g : GProd}, GInv g → GInv (gexec g cs)
  | [], _, h => h
  | some t :: cs, _, h => gexec_inv cs (emit_inv h t)
  | none :: cs, _, h => gexec_inv cs (close_inv h)

/-- while in the body phase, closing always succeeds and pops exactly one -/
theorem close_body {g : GProd} (hb : g.mon.phase = .body) :
    g.close.mon.phase = .body ∧ g.close.mon.stack.length = g.mon.stack.length - 1 := by
  unfold GProd.close
  split
  · rename_i hs; simp [hb, hs]
  · rename_i i s r hs
    have e1 : ∀ q, (Kind.end_ q == Kind.atom) = false := by intro q; rfl
    have hstep : step g.mon ⟨endName s.name, .inline, .end_ i⟩ = .ok ⟨r, g.mon.idx + 1, .body⟩ := by
      simp [step, posStep, hb, isFront, isPragma, isEOS, e1, treeStep, hs]
    simp [GProd.emit, hstep, hs]

theorem closeAll_body : ∀ n (g : GProd), g.mon.phase = .body → g.mon.stack.length ≤ n →
    (GProd.closeAll n g).mon.stack = []
  | 0, g, _, h => by
    have : g.mon.stack.length = 0 := by omega
    simpa [GProd.closeAll] using this
  | n + 1, g, hb, h => by
    have := close_body hb
    exact closeAll_body n g.close this.1 (by rw [this.2]; omega)

theorem emit_phase_body {g : GProd} {t : Tok} (hb : g.mon.phase = .body)
    (he : isEOS t = false) (hp : isPragma t = false) : (g.emit t).mon.phase = .body := by
  unfold GProd.emit
  split
  · rename_i m hm
    unfold step at hm
    simp only [hb, posStep, hp, he, Bool.false_eq_true, if_false] at hm
    split at hm
    · cases hm
    · rename_i ph hph
      split at hm
      · cases hm
      · cases hm
        simp only
        split at hph
        · cases hph
        · cases hph; rfl
  · exact hb

end Verif.Lemmas.WellFormed
