/-
  LeanMark — "block events point at their own opening character" (part 2: the invariant `OInv` over the
  sink, preserved by every raw operation and every `Core` primitive under a hypothesis about the position
  the primitive stamps).
-/
import Verif.Lemmas.LeanMarkOpenerDefs
namespace Verif.Model.LeanMark

/-- a buffered paragraph line points at its first character, which is not a space. -/
def PLineOK (lines : List Line) (pl : PLine) : Prop :=
  ∃ c, pl.text.head? = some c ∧ c ≠ ' ' ∧ charAt lines ⟨pl.line, pl.col0 + 1⟩ = some c

/-- what `OpenerOK` will need of the buffered leaf when it is flushed. -/
def LeafOpOK (lines : List Line) : OpenLeaf → Prop
  | .none => True
  | .para ls => ∀ pl ∈ ls, PLineOK lines pl
  | .fenced pos _ _ _ _ _ => FenceOK lines pos
  | .indented pos _ _ => IndentedOK lines pos
  | .html pos _ _ => HtmlOK lines pos

structure OInv (lines : List Line) (r : RawCore) : Prop where
  out : ∀ e ∈ r.outRev, OpenerOK lines e
  lf : LeafOpOK lines r.leaf

variable {lines : List Line}

/-! ## raw operations -/
theorem OInv.emit {r : RawCore} (h : OInv lines r) {e : Ev} (st : List OpenC) {lf : OpenLeaf}
    (he : OpenerOK lines e) (hl : LeafOpOK lines lf) : OInv lines (r.emit e st lf) := by
  refine ⟨?_, hl⟩
  intro x hx
  rcases List.mem_cons.mp hx with rfl | hx
  · exact he
  · exact h.out x hx

theorem OInv.emit0 {r : RawCore} (h : OInv lines r) {e : Ev} (st : List OpenC)
    (he : OpenerOK lines e) : OInv lines (r.emit e st .none) := h.emit st he trivial

theorem OInv.emitLeaf {r : RawCore} (h : OInv lines r) {k : LeafKind} {p : Pos} (e : Nat) (pl : List PLine)
    (he : OpenerOK lines (.leaf k p e pl)) : OInv lines (r.emitLeaf k p e pl) :=
  h.emit0 _ he

theorem peelEmit_oinv : ∀ (fuel : Nat) (r : RawCore) (ls : List PLine),
    OInv lines r → r.leaf = .none → (∀ pl ∈ ls, PLineOK lines pl) →
    OInv lines (peelEmit fuel r ls).1 ∧ (peelEmit fuel r ls).1.leaf = .none ∧
    ∀ pl ∈ (peelEmit fuel r ls).2, PLineOK lines pl
  | 0, r, ls, h, hn, hls => ⟨h, hn, hls⟩
  | fuel + 1, r, ls, h, hn, hls => by
    unfold peelEmit
    split
    · exact ⟨h, hn, by simp⟩
    · next l0 tl =>
      split
      · exact ⟨h, hn, hls⟩
      · next hhead =>
        simp only
        split
        · exact ⟨h, hn, hls⟩
        · next lab dest title nchars _ =>
          have hb : l0.text.head? = some '[' := by simpa using hhead
          obtain ⟨c, hc, _, hat⟩ := hls l0 List.mem_cons_self
          rw [hb] at hc
          have hcc : c = '[' := (Option.some.inj hc).symm
          subst hcc
          exact peelEmit_oinv fuel _ _ (h.emitLeaf _ _ hat) rfl
            (fun pl hpl => hls pl (List.mem_of_mem_drop hpl))

theorem OInv.closeLeaf {r : RawCore} (h : OInv lines r) (fe : Option Nat) (sx : Option (Nat × Nat)) :
    OInv lines (r.closeLeaf fe sx) ∧ (r.closeLeaf fe sx).leaf = .none := by
  unfold RawCore.closeLeaf
  split
  · next hlf => exact ⟨h, hlf⟩
  · next ls hlf =>
    have hL := h.lf
    rw [hlf] at hL
    have hp := peelEmit_oinv (lines := lines) ls.length { r with leaf := .none } ls.reverse
      ⟨h.out, trivial⟩ rfl (fun pl hpl => hL pl (List.mem_reverse.mp hpl))
    generalize peelEmit ls.length { r with leaf := .none } ls.reverse = res at hp
    obtain ⟨r1, rest⟩ := res
    simp only at hp ⊢
    split
    · exact ⟨hp.1, hp.2.1⟩
    · next p0 tl =>
      obtain ⟨c, _, hc, hat⟩ := hp.2.2 p0 List.mem_cons_self
      split
      · exact ⟨hp.1.emitLeaf _ _ ⟨c, hat, hc⟩, rfl⟩
      · exact ⟨hp.1.emitLeaf _ _ ⟨c, hat, hc⟩, rfl⟩
  · next pos ch len ind info ls hlf =>
    have hL := h.lf
    rw [hlf] at hL
    exact ⟨h.emitLeaf _ _ hL, rfl⟩
  · next pos ls pend hlf =>
    have hL := h.lf
    rw [hlf] at hL
    exact ⟨h.emitLeaf _ _ hL, rfl⟩
  · next pos kind ls hlf =>
    have hL := h.lf
    rw [hlf] at hL
    exact ⟨h.emitLeaf _ _ hL, rfl⟩

theorem OInv.mapMeta {r : RawCore} (h : OInv lines r) (f : Nat → OpenC → Meta) : OInv lines (r.mapMeta f) :=
  ⟨h.out, h.lf⟩

theorem OInv.markChild {r : RawCore} (h : OInv lines r) : OInv lines r.markChild := h.mapMeta _

theorem OInv.dropList {r : RawCore} (h : OInv lines r) (hn : r.leaf = .none) :
    OInv lines r.dropList ∧ r.dropList.leaf = .none := by
  unfold RawCore.dropList
  split
  · split
    · exact ⟨h.emit0 _ trivial, rfl⟩
    · exact ⟨h, hn⟩
  · exact ⟨h, hn⟩

theorem OInv.ready {r : RawCore} (h : OInv lines r) : OInv lines r.ready ∧ r.ready.leaf = .none := by
  have h1 := h.closeLeaf none none
  have h2 := h1.1.dropList h1.2
  exact ⟨h2.1.markChild, h2.2⟩

/-! ## the primitives of `Core` -/
namespace Core
variable {n : Nat}

/-- the sink satisfies the opener invariant. -/
def OK (lines : List Line) (c : Core n) : Prop := OInv lines c.raw

theorem OK.nextLine {c : Core n} (h : c.OK lines) : c.nextLine.OK lines := h

theorem OK.closeLeaf {c : Core n} (h : c.OK lines) : c.closeLeaf.OK lines := (OInv.closeLeaf h none none).1

theorem OK.closeFence {c : Core (n + 1)} (h : c.OK lines) : c.closeFence.OK lines :=
  (OInv.closeLeaf h (some (n + 1)) none).1

theorem OK.closeSetext {c : Core (n + 1)} (h : c.OK lines) (lvl : Nat) : (c.closeSetext lvl).OK lines :=
  (OInv.closeLeaf h none (some (lvl, n + 1))).1

theorem OK.pushQuote {c : Core (n + 1)} (h : c.OK lines) {col0 : Nat}
    (hq : charAt lines ⟨n + 1, col0 + 1⟩ = some '>') : (c.pushQuote col0).OK lines :=
  (OInv.ready h).1.emit0 _ hq

theorem OK.pushItem {c : Core (n + 1)} (h : c.OK lines) {ord : Bool} {delim : Char} {start col0 : Nat} (m : Meta)
    (hl : OpenerOK lines (.open (.list ord delim start) ⟨n + 1, col0 + 1⟩))
    (hi : OpenerOK lines (.open .item ⟨n + 1, col0 + 1⟩)) : (c.pushItem ord delim start col0 m).OK lines := by
  unfold Core.pushItem Core.OK
  simp only
  split
  · exact (OInv.closeLeaf h none none).1.emit0 _ hi
  · exact ((OInv.ready h).1.emit0 _ hl).emit0 _ hi

theorem OK.popC {c : Core n} (h : c.OK lines) : c.popC.OK lines := by
  unfold Core.popC Core.OK
  simp only
  split
  · exact (OInv.closeLeaf h none none).1
  · exact (OInv.closeLeaf h none none).1.emit0 _ trivial

theorem OK.emitLeaf {c : Core (n + 1)} (h : c.OK lines) {k : LeafKind} {col0 : Nat}
    (payload : List (Nat × List Char))
    (hk : ∀ e pl, OpenerOK lines (.leaf k ⟨n + 1, col0 + 1⟩ e pl)) : (c.emitLeaf k col0 payload).OK lines :=
  (OInv.ready h).1.emitLeaf _ _ (hk _ _)

theorem OK.startWith {c : Core (n + 1)} (h : c.OK lines) {lf : OpenLeaf}
    (hlf : ∀ last, last ≤ n + 1 → LeafOK (n + 1) last lf) (hl : LeafOpOK lines lf) :
    (c.startWith lf hlf).OK lines :=
  ⟨(OInv.ready h).1.out, hl⟩

theorem OK.startPara {c : Core (n + 1)} (h : c.OK lines) {col0 : Nat} {text : List Char}
    (hp : PLineOK lines ⟨n + 1, col0, text⟩) : (c.startPara col0 text).OK lines :=
  OK.startWith h _ (by
    intro pl hpl
    simp only [List.mem_singleton] at hpl
    subst hpl
    exact hp)

theorem OK.startFenced {c : Core (n + 1)} (h : c.OK lines) {col0 : Nat} (ch : Char) (len ind : Nat)
    (info : List Char) (hp : FenceOK lines ⟨n + 1, col0 + 1⟩) : (c.startFenced col0 ch len ind info).OK lines :=
  OK.startWith h _ hp

theorem OK.startIndented {c : Core (n + 1)} (h : c.OK lines) {col0 : Nat} (tcol0 : Nat) (text : List Char)
    (hp : IndentedOK lines ⟨n + 1, col0 + 1⟩) : (c.startIndented col0 tcol0 text).OK lines :=
  OK.startWith h _ hp

theorem OK.startHtml {c : Core (n + 1)} (h : c.OK lines) {col0 : Nat} (kind : Nat) (text : List Char)
    (hp : HtmlOK lines ⟨n + 1, col0 + 1⟩) : (c.startHtml col0 kind text).OK lines :=
  OK.startWith h _ hp

theorem OK.setLeaf {c : Core n} (h : c.OK lines) {lf : OpenLeaf} (h1 : LeafOK n c.raw.last lf)
    (hne : c.raw.leaf = .none → lf = .none) (hl : LeafOpOK lines lf) : (c.setLeaf lf h1 hne).OK lines :=
  ⟨h.out, hl⟩

/-- adding the current line to the buffered leaf: only a paragraph needs the line to point at its text. -/
theorem OK.addLine {c : Core (n + 1)} (h : c.OK lines) {col0 : Nat} {text : List Char}
    (hp : ∀ ls, c.raw.leaf = .para ls → PLineOK lines ⟨n + 1, col0, text⟩) :
    (c.addLine col0 text).OK lines := by
  unfold Core.addLine
  simp only
  split
  · exact h
  · next ls hlf =>
    apply OK.setLeaf h
    have hL := h.lf
    rw [hlf] at hL
    intro pl hpl
    rcases List.mem_cons.mp hpl with rfl | hpl
    · exact hp ls hlf
    · exact hL pl hpl
  · next hlf =>
    apply OK.setLeaf h
    have hL := h.lf
    rw [hlf] at hL
    exact hL
  · next hlf =>
    apply OK.setLeaf h
    have hL := h.lf
    rw [hlf] at hL
    exact hL
  · next hlf =>
    apply OK.setLeaf h
    have hL := h.lf
    rw [hlf] at hL
    exact hL

theorem OK.addPending {c : Core (n + 1)} (h : c.OK lines) (col0 : Nat) (text : List Char) :
    (c.addPending col0 text).OK lines := by
  unfold Core.addPending
  simp only
  split
  · next hlf =>
    apply OK.setLeaf h
    have hL := h.lf
    rw [hlf] at hL
    exact hL
  · exact h

theorem OK.touch {c : Core (n + 1)} (h : c.OK lines) (k : Nat) : (c.touch k).OK lines := OInv.mapMeta h _

theorem OK.touchAll {c : Core (n + 1)} (h : c.OK lines) : c.touchAll.OK lines := OK.touch h _

theorem OK.closeTo : ∀ (fuel : Nat) {c : Core n}, c.OK lines → ∀ d, (Core.closeTo fuel c d).OK lines
  | 0, _, h, _ => by unfold Core.closeTo; exact h
  | fuel + 1, c, h, d => by
    unfold Core.closeTo
    split
    · exact OK.closeTo fuel (OK.popC h) d
    · exact h

theorem OK.closeToDepth {c : Core n} (h : c.OK lines) (d : Nat) : (c.closeToDepth d).OK lines :=
  OK.closeTo _ h d

theorem OK.dropDanglingList {c : Core n} (h : c.OK lines) : c.dropDanglingList.OK lines := by
  unfold Core.dropDanglingList
  split
  · split
    · exact OK.popC h
    · exact h
  · exact h

theorem OK.prep {c : Core (n + 1)} (h : c.OK lines) (k : Nat) : (c.prep k).OK lines :=
  OK.touchAll (OK.dropDanglingList (OK.closeToDepth h k))

theorem OK.init : (Core.init).OK lines := ⟨by simp [Core.init], trivial⟩

end Core

end Verif.Model.LeanMark
