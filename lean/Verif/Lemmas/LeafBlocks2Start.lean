/-
  Lemmas for `html_start_spec`: the classifier of start conditions 2–5 on the text after `<`, and the reduction of the
  line-level recogniser to the classifier.
-/
import Verif.Lemmas.LeafBlocks2Html
namespace Verif.Model.LeafBlocks2
open Verif.Model.Recognisers Verif.Model.InlineRecog

theorem isCharAt_shift (p r : Str) (j : Nat) (c : Char) : isCharAt (p ++ r) (p.length + j) c = isCharAt r j c := by
  unfold isCharAt
  rw [List.getElem?_append_right (by omega)]
  simp

theorem isCharAtOneOf_shift (p r : Str) (j : Nat) (cs : Str) : isCharAtOneOf (p ++ r) (p.length + j) cs = isCharAtOneOf r j cs := by
  unfold isCharAtOneOf
  rw [List.getElem?_append_right (by omega)]
  simp

theorem areCharsAt_shift (p r : Str) (j : Nat) (pat : Str) : areCharsAt (p ++ r) (p.length + j) pat = areCharsAt r j pat := by
  unfold areCharsAt slice
  simp only [List.length_append]
  have h1 : (p.length + j + pat.length ≤ p.length + r.length) = (j + pat.length ≤ r.length) := by
    apply propext; constructor <;> intro h <;> omega
  have h2 : List.drop (p.length + j) (List.take (p.length + j + pat.length) (p ++ r)) = List.drop j (List.take (j + pat.length) r) := by
    rw [List.take_append, List.drop_append]
    have : List.take (p.length + j + pat.length) p = p := List.take_of_length_le (by omega)
    rw [this]
    have : List.drop (p.length + j) p = [] := List.drop_eq_nil_of_le (by omega)
    rw [this]
    simp only [List.nil_append]
    congr 1
    · omega
    · congr 1; omega
  rw [h2]
  simp only [h1]

/-- the classifier looks only at the text from its index on -/
theorem checkSpecial_shift (p r : Str) : checkSpecial (p ++ r) p.length = checkSpecial r 0 := by
  unfold checkSpecial
  have e0 : ∀ c, isCharAt (p ++ r) p.length c = isCharAt r 0 c := fun c => isCharAt_shift p r 0 c
  have e1 : ∀ pat, areCharsAt (p ++ r) (p.length + 1) pat = areCharsAt r (0 + 1) pat := fun pat => areCharsAt_shift p r 1 pat
  have e2 : isCharAtOneOf (p ++ r) (p.length + 1) asciiUpper = isCharAtOneOf r (0 + 1) asciiUpper := isCharAtOneOf_shift p r 1 _
  simp only [e0, e1, e2, List.length_append]
  have : (p.length ≥ p.length + r.length) = (0 ≥ r.length) := by apply propext; constructor <;> intro h <;> omega
  simp only [this]

end Verif.Model.LeafBlocks2
