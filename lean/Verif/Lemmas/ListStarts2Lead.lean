/-
  The leading-space move of `__handle_list_nesting_all_conditionals` (model: `nestLoop`): what is conserved.
  `bleading_spaces` is a "\n"-joined list of per-line leading-space strings.  The move takes the last line off the block-quote
  token found before the close (`remove_last_bleading_space`) and appends it to the block-quote token found after it
  (`add_bleading_spaces`).  Conserved: the non-empty lines, each token's in order (primitives), the multiset over all block-quote
  tokens on the stack and closed by the call (loop).
-/
import Verif.Lemmas.ListStartsNest
namespace Verif.Model.ListStarts
open Verif.Model.Recognisers (Str)

/-- Python `s.split("\n")` -/
def leadSplit : Str → List Str
  | [] => [[]]
  | c :: cs =>
    if c = '\n' then [] :: leadSplit cs
    else match leadSplit cs with
      | [] => [[c]]
      | l :: ls => (c :: l) :: ls

theorem leadSplit_ne_nil (s : Str) : leadSplit s ≠ [] := by
  cases s with
  | nil => simp [leadSplit]
  | cons c cs =>
    unfold leadSplit
    split
    · simp
    · split <;> simp

theorem leadSplit_cons (c : Char) (cs : Str) : leadSplit (c :: cs) =
    if c = '\n' then [] :: leadSplit cs
    else match leadSplit cs with
      | [] => [[c]]
      | l :: ls => (c :: l) :: ls := by
  rw [leadSplit]

theorem leadSplit_append (a b : Str) : leadSplit (a ++ '\n' :: b) = leadSplit a ++ leadSplit b := by
  induction a with
  | nil => rw [List.nil_append, leadSplit_cons, if_pos rfl]; rfl
  | cons c a ih =>
    rw [List.cons_append, leadSplit_cons, leadSplit_cons c a]
    by_cases hc : c = '\n'
    · rw [if_pos hc, if_pos hc, ih]; rfl
    · rw [if_neg hc, if_neg hc, ih]
      cases h : leadSplit a with
      | nil => exact absurd h (leadSplit_ne_nil a)
      | cons l ls => rfl

/-- the non-empty per-line leading-space strings of a `bleading_spaces` value, in order -/
def neLines (s : Str) : List Str := (leadSplit s).filter (fun l => !l.isEmpty)

theorem neLines_nil : neLines [] = [] := by decide

theorem neLines_append (a b : Str) : neLines (a ++ '\n' :: b) = neLines a ++ neLines b := by
  unfold neLines
  rw [leadSplit_append, List.filter_append]

theorem addLead_lines (c r : Str) : neLines (addLead c r) = neLines c ++ neLines r := by
  unfold addLead
  cases c with
  | nil => simp [neLines_nil]
  | cons x xs =>
    rw [if_neg (by simp)]
    exact neLines_append _ _

theorem removeLastLead_split (l : Str) :
    ((removeLastLead l).1 = l ∧ (removeLastLead l).2 = []) ∨
      l = (removeLastLead l).2 ++ '\n' :: (removeLastLead l).1 := by
  unfold removeLastLead
  split
  · left; exact ⟨rfl, rfl⟩
  · rename_i k hk
    right
    rw [List.findIdx?_eq_some_iff_getElem] at hk
    obtain ⟨hlt, hp, -⟩ := hk
    rw [List.length_reverse] at hlt
    rw [List.getElem_reverse] at hp
    have hc : l[l.length - 1 - k]'(by omega) = '\n' := by simpa using hp
    show l = l.take (l.length - k - 1) ++ '\n' :: l.drop (l.length - k)
    obtain ⟨i, hi1, hi2, hi3⟩ : ∃ i, l.length - k - 1 = i ∧ l.length - k = i + 1 ∧ i < l.length :=
      ⟨_, rfl, by omega, by omega⟩
    have hc' : l[i] = '\n' := by
      rw [← hc]; congr 1; omega
    rw [hi1, hi2]
    have := List.drop_eq_getElem_cons (l := l) (i := i) hi3
    rw [hc'] at this
    rw [← this, List.take_append_drop]

theorem removeLastLead_lines (l : Str) :
    neLines (removeLastLead l).2 ++ neLines (removeLastLead l).1 = neLines l := by
  rcases removeLastLead_split l with ⟨h1, h2⟩ | h
  · rw [h1, h2, neLines_nil]; rfl
  · conv => rhs; rw [h]
    rw [neLines_append]

/-! ## over the stack -/

/-- `bleading_spaces` of the block-quote tokens of a stack, bottom first -/
def bqLeads (st : Stack) : List Str := (st.filter Entry.isBq).map (·.lead)

/-- all non-empty leading-space lines held by block-quote tokens: those on the stack, then those closed by the call -/
def allLines (st : Stack) (cl : List Str) : List Str := (bqLeads st ++ cl).flatMap neLines

def W (l : Str) (st : Stack) : Nat := ((bqLeads st).flatMap neLines).count l
def Wc (l : Str) (cl : List Str) : Nat := (cl.flatMap neLines).count l

theorem allLines_count (l : Str) (st : Stack) (cl : List Str) : (allLines st cl).count l = W l st + Wc l cl := by
  simp [allLines, W, Wc, List.flatMap_append, List.count_append]

theorem W_nil (l : Str) : W l [] = 0 := by simp [W, bqLeads]

theorem W_cons (l : Str) (e : Entry) (st : Stack) :
    W l (e :: st) = (if e.isBq then (neLines e.lead).count l else 0) + W l st := by
  unfold W bqLeads
  rw [List.filter_cons]
  split <;> simp [List.count_append]

theorem W_append (l : Str) (a b : Stack) : W l (a ++ b) = W l a + W l b := by
  simp [W, bqLeads, List.flatMap_append, List.count_append]

theorem Wc_append (l : Str) (a b : List Str) : Wc l (a ++ b) = Wc l a + Wc l b := by
  simp [Wc, List.flatMap_append, List.count_append]

theorem Wc_bqLeads (l : Str) (st : Stack) : Wc l (bqLeads st) = W l st := rfl

theorem W_take_drop (l : Str) (st : Stack) (k : Nat) : W l st = W l (st.take k) + W l (st.drop k) := by
  rw [← W_append, List.take_append_drop]

theorem W_set (l : Str) (x : Entry) (hx : x.isBq = true) : ∀ (st : Stack) (i : Nat) (hi : i < st.length),
    st[i].isBq = true → W l (st.set i x) + (neLines st[i].lead).count l = W l st + (neLines x.lead).count l := by
  intro st
  induction st with
  | nil => intro i hi; simp at hi
  | cons a st ih =>
    intro i hi hb
    cases i with
    | zero =>
      simp only [List.set_cons_zero, List.getElem_cons_zero] at hb ⊢
      rw [W_cons, W_cons, if_pos hx, if_pos hb]; omega
    | succ i =>
      simp only [List.set_cons_succ, List.getElem_cons_succ] at hb ⊢
      rw [W_cons, W_cons]
      have := ih i (by simpa using hi) hb
      omega

theorem findLastBqFrom_spec (st : Stack) : ∀ (i j : Nat), findLastBqFrom st i = .ok j →
    ∃ e, st[j]? = some e ∧ (e.isDoc || e.isBq) = true := by
  intro i
  induction i with
  | zero =>
    intro j h
    unfold findLastBqFrom at h
    split at h
    · cases h
    · rename_i e he
      split at h
      · rename_i hc
        injection h with h
        subst h
        exact ⟨e, he, hc⟩
      · cases h
  | succ i ih =>
    intro j h
    unfold findLastBqFrom at h
    split at h
    · cases h
    · rename_i e he
      split at h
      · rename_i hc
        injection h with h
        subst h
        exact ⟨e, he, hc⟩
      · exact ih j h

theorem findLastBq_spec {st : Stack} {j : Nat} (h : findLastBq st = .ok j) :
    ∃ e, st[j]? = some e ∧ (e.isDoc || e.isBq) = true := by
  unfold findLastBq at h
  split at h
  · cases h
  · exact findLastBqFrom_spec st _ j h

theorem findLastBq_isBq {st : Stack} (hD : DocBottom st) {j : Nat} (h : findLastBq st = .ok j) (hj : j ≠ 0)
    (hlt : j < st.length) : st[j].isBq = true := by
  obtain ⟨e, he, hc⟩ := findLastBq_spec h
  rw [List.getElem?_eq_getElem hlt] at he
  injection he with he
  rw [he]
  have := hD.notdoc hj (List.getElem?_eq_getElem hlt)
  rw [he] at this
  rw [this] at hc
  simpa using hc

/-- one iteration of the loop of `__handle_list_nesting`, with the count of every line over all block-quote tokens -/
theorem nestLoop_step_lines {st : Stack} (hD : DocBottom st) (pl cur f adjusted : Nat) (cl : List Str) (hlt : cur < adjusted) :
    ∃ st' cl', DocBottom st' ∧ (∀ l, (allLines st' cl').count l = (allLines st cl).count l) ∧
      nestLoop pl cur (f + 1) adjusted st false cl =
        nestLoop pl cur f (adjusted - 1) st' (decide (st'.length < st.length)) cl' := by
  obtain ⟨lbi, hlbi, hlt1⟩ := findLastBq_ok hD
  have hlen := hD.ne_nil
  have hst1 := closeTo_eq hD lbi
  have hD1 : DocBottom (st.take (max lbi 1)) := hD.take _ (by omega)
  have hl1 : (st.take (max lbi 1)).length = max lbi 1 := by rw [List.length_take]; omega
  obtain ⟨top, htop⟩ := negAt_one_ok (st := st.take (max lbi 1)) (by omega)
  obtain ⟨lbi2, hlbi2, hlt2⟩ := findLastBq_ok hD1
  by_cases hb : (lbi2 ≠ 0 && (top.isDoc || (!top.isDoc && pl == top.mtLine) || top.isBq)) = true
  · have hb' := hb
    simp only [Bool.and_eq_true, decide_eq_true_eq] at hb'
    have h20 : lbi2 ≠ 0 := by simpa using hb'.1
    have hlbi0 : lbi ≠ 0 := by rw [hl1] at hlt2; omega
    have hmax : max lbi 1 = lbi := by omega
    have hprev : st[lbi].isDoc = false := hD.notdoc hlbi0 (List.getElem?_eq_getElem hlt1)
    have hcur : ((st.take (max lbi 1))[lbi2]).isDoc = false := hD1.notdoc h20 (List.getElem?_eq_getElem hlt2)
    have hprevB : st[lbi].isBq = true := findLastBq_isBq hD hlbi hlbi0 hlt1
    have hcurB : ((st.take (max lbi 1))[lbi2]).isBq = true := findLastBq_isBq hD1 hlbi2 h20 hlt2
    have hne : (lbi2 == lbi) = false := by
      rw [hl1] at hlt2
      simp only [beq_eq_false_iff_ne, ne_eq]; omega
    refine ⟨setAt (st.take (max lbi 1)) lbi2 { (st.take (max lbi 1))[lbi2] with
          lead := addLead (st.take (max lbi 1))[lbi2].lead (removeLastLead st[lbi].lead).1 },
        bqLeads ((setAt st lbi { st[lbi] with lead := (removeLastLead st[lbi].lead).2 }).drop (st.take (max lbi 1)).length) ++ cl,
        hD1.set h20 _ hcur, ?_, ?_⟩
    · intro l
      rw [allLines_count, allLines_count, Wc_append, Wc_bqLeads, hl1]
      unfold setAt
      have e1 := W_set l { (st.take (max lbi 1))[lbi2] with
          lead := addLead (st.take (max lbi 1))[lbi2].lead (removeLastLead st[lbi].lead).1 }
        hcurB (st.take (max lbi 1)) lbi2 hlt2 hcurB
      have hd : (st.set lbi { st[lbi] with lead := (removeLastLead st[lbi].lead).2 }).drop (max lbi 1) =
          (st.drop lbi).set 0 { st[lbi] with lead := (removeLastLead st[lbi].lead).2 } := by
        rw [hmax, List.drop_set]; simp
      have e2 := W_set l { st[lbi] with lead := (removeLastLead st[lbi].lead).2 } hprevB (st.drop lbi) 0
        (by rw [List.length_drop]; omega) (by simpa using hprevB)
      rw [hd]
      have e3 := W_take_drop l st (max lbi 1)
      have hdd : st.drop (max lbi 1) = st.drop lbi := by rw [hmax]
      rw [hdd] at e3
      have e4 := congrArg (List.count l) (addLead_lines (st.take (max lbi 1))[lbi2].lead (removeLastLead st[lbi].lead).1)
      have e5 := congrArg (List.count l) (removeLastLead_lines st[lbi].lead)
      rw [List.count_append] at e4 e5
      simp only [List.getElem_drop, Nat.add_zero] at e2
      dsimp only at e1 e2 ⊢
      omega
    · rw [setAt_length]
      conv => lhs; unfold nestLoop
      rw [if_pos hlt]
      simp only [Bool.false_eq_true, ↓reduceIte, hlbi, bind_ok, stackAt_ok hlt1, hst1, htop, hlbi2]
      rw [if_pos hb, stackAt_ok hlt2]
      simp only [bind_ok, hprev, Bool.false_eq_true, ↓reduceIte, hne, Bool.false_and]
      rfl
  · refine ⟨st.take (max lbi 1), bqLeads (st.drop (st.take (max lbi 1)).length) ++ cl, hD1, ?_, ?_⟩
    · intro l
      rw [allLines_count, allLines_count, Wc_append, Wc_bqLeads, hl1, W_take_drop l st (max lbi 1)]
      omega
    · conv => lhs; unfold nestLoop
      rw [if_pos hlt]
      simp only [Bool.false_eq_true, ↓reduceIte, hlbi, bind_ok, stackAt_ok hlt1, hst1, htop, hlbi2]
      rw [if_neg hb]
      rfl

theorem nestLoop_conserves (pl cur : Nat) : ∀ (f adjusted : Nat) (st : Stack) (b : Bool) (cl : List Str), DocBottom st →
    ∀ a' st' b' cl', nestLoop pl cur f adjusted st b cl = .ok (a', st', b', cl') →
      ∀ l, (allLines st' cl').count l = (allLines st cl).count l := by
  intro f
  induction f with
  | zero =>
    intro adjusted st b cl _ a' st' b' cl' h l
    rw [nestLoop_zero] at h
    injection h with h
    injection h with h1 h2
    injection h2 with h2 h3
    injection h3 with h3 h4
    rw [h2, h4]
  | succ f ih =>
    intro adjusted st b cl hD a' st' b' cl' h l
    by_cases hlt : cur < adjusted
    · cases b with
      | true => rw [nestLoop_assert _ _ _ _ _ _ hlt] at h; cases h
      | false =>
        obtain ⟨st1, cl1, hD1, hc, hstep⟩ := nestLoop_step_lines hD pl cur f adjusted cl hlt
        rw [hstep] at h
        rw [ih _ _ _ _ hD1 _ _ _ _ h l, hc l]
    · rw [nestLoop_done _ _ _ _ _ _ _ hlt] at h
      injection h with h
      injection h with h1 h2
      injection h2 with h2 h3
      injection h3 with h3 h4
      rw [h2, h4]

end Verif.Model.ListStarts
