/-
  Lemmas about the Python-list primitives of `Verif.Model.Emphasis` (`idxOf`, `insertAt`, `removeE`, `upd`,
  `deactRange`) on lists given as concatenations.  Core Lean only.
-/
import Verif.Model.Emphasis
namespace Verif.Model.Emphasis

/-! ## `list.index`, `list.insert`, `list.remove` -/
theorem idxOf_append_cons {α : Type} [DecidableEq α] (a : α) (P R : List α) (h : a ∉ P) :
    idxOf a (P ++ a :: R) = some P.length := by
  induction P with
  | nil => simp [idxOf]
  | cons x P ih =>
    have hx : x ≠ a := fun e => h (by simp [e])
    have hP : a ∉ P := fun m => h (by simp [m])
    simp [idxOf, hx, ih hP]

theorem idxOf_none {α : Type} [DecidableEq α] (a : α) (l : List α) (h : a ∉ l) : idxOf a l = none := by
  induction l with
  | nil => rfl
  | cons x l ih =>
    have hx : x ≠ a := fun e => h (by simp [e])
    have hl : a ∉ l := fun m => h (by simp [m])
    simp [idxOf, hx, ih hl]

theorem idxOfE_append_cons {α : Type} [DecidableEq α] (a : α) (P R : List α) (h : a ∉ P) :
    idxOfE a (P ++ a :: R) = .ok P.length := by
  simp [idxOfE, idxOf_append_cons a P R h]; rfl

theorem insertAt_append {α : Type} (P R : List α) (a : α) : insertAt (P ++ R) P.length a = P ++ a :: R := by
  simp [insertAt]

theorem removeE_append_cons {α : Type} [DecidableEq α] (a : α) (P R : List α) (h : a ∉ P) :
    removeE a (P ++ a :: R) = .ok (P ++ R) := by
  have hm : a ∈ P ++ a :: R := by simp
  simp [removeE, hm, List.erase_append_right _ h]; rfl

/-! ## the delimiter stack as a heap: `upd`, `deact`, `reduce` -/
theorem length_upd (stk : List Special) (i : Nat) (f : Special → Special) : (upd stk i f).length = stk.length := by
  unfold upd; split <;> simp

theorem getElem?_upd (stk : List Special) (i j : Nat) (f : Special → Special) :
    (upd stk i f)[j]? = if j = i then stk[j]?.map f else stk[j]? := by
  unfold upd
  split
  · rename_i t ht
    by_cases hji : j = i
    · subst hji
      have hlt : j < stk.length := by
        rcases Nat.lt_or_ge j stk.length with h | h
        · exact h
        · rw [List.getElem?_eq_none h] at ht; cases ht
      have hg : stk[j] = t := by
        have := List.getElem?_eq_getElem hlt
        rw [ht] at this; exact (Option.some.inj this).symm
      simp [hlt, hg]
    · have : i ≠ j := fun e => hji e.symm
      simp [this, hji]
  · rename_i hn
    by_cases hji : j = i
    · subst hji; simp [hn]
    · simp [hji]

@[simp] theorem length_deact (stk : List Special) (i : Nat) : (deact stk i).length = stk.length := length_upd _ _ _
@[simp] theorem length_reduce (stk : List Special) (i : Nat) (n : Int) : (reduce stk i n).length = stk.length :=
  length_upd _ _ _

/-- deactivate every stack entry whose id is in `ids` -/
def deactAll (ids : List Nat) (stk : List Special) : List Special := ids.foldl deact stk

@[simp] theorem length_deactAll (ids : List Nat) (stk : List Special) : (deactAll ids stk).length = stk.length := by
  induction ids generalizing stk with
  | nil => rfl
  | cons i ids ih => simp [deactAll, List.foldl] at *; rw [ih]; simp

theorem getElem?_deactAll (ids : List Nat) (stk : List Special) (j : Nat) :
    (deactAll ids stk)[j]? = if j ∈ ids then stk[j]?.map (fun t => { t with active := false }) else stk[j]? := by
  induction ids generalizing stk with
  | nil => simp [deactAll]
  | cons i ids ih =>
    have : deactAll (i :: ids) stk = deactAll ids (deact stk i) := rfl
    rw [this, ih, deact, getElem?_upd]
    by_cases hji : j = i
    · subst hji
      by_cases hm : j ∈ ids
      · simp [hm]; cases stk[j]? <;> simp
      · simp [hm]
    · by_cases hm : j ∈ ids <;> simp [hm, hji]

/-! ## special ids of a block list -/
def spIds (b : List Block) : List Nat := b.filterMap fun x => match x with | .sp i => some i | _ => none

@[simp] theorem spIds_nil : spIds [] = [] := rfl
@[simp] theorem spIds_cons_sp (i : Nat) (b : List Block) : spIds (.sp i :: b) = i :: spIds b := by simp [spIds]
@[simp] theorem spIds_cons_plain (t : Nat) (b : List Block) : spIds (.plain t :: b) = spIds b := by simp [spIds]
@[simp] theorem spIds_cons_es (n : Nat) (c : Char) (b : List Block) : spIds (.es n c :: b) = spIds b := by simp [spIds]
@[simp] theorem spIds_cons_ee (n : Nat) (c : Char) (b : List Block) : spIds (.ee n c :: b) = spIds b := by simp [spIds]
@[simp] theorem spIds_append (a b : List Block) : spIds (a ++ b) = spIds a ++ spIds b := by simp [spIds]

theorem mem_spIds {i : Nat} {b : List Block} : i ∈ spIds b ↔ Block.sp i ∈ b := by
  induction b with
  | nil => simp
  | cons x b ih => cases x <;> simp [ih]

/-! ## the `while inline_index < end_index_in_blocks` loop on a segment -/
theorem deactRange_segment (A X B : List Block) (stk : List Special) :
    deactRange (A ++ X ++ B) X.length A.length stk = .ok (deactAll (spIds X) stk) := by
  induction X generalizing A stk with
  | nil => simp [deactRange, deactAll]; rfl
  | cons x X ih =>
    have hget : (A ++ x :: X ++ B)[A.length]? = some x := by simp
    have hre : A ++ x :: X ++ B = (A ++ [x]) ++ X ++ B := by simp
    have hlen : A.length + 1 = (A ++ [x]).length := by simp
    simp only [List.length_cons, deactRange, hget]
    cases x with
    | sp i =>
      simp only []
      rw [hre, hlen, ih]
      simp [deactAll]
    | plain t => simp only []; rw [hre, hlen, ih]; simp
    | es n c => simp only []; rw [hre, hlen, ih]; simp
    | ee n c => simp only []; rw [hre, hlen, ih]; simp

end Verif.Model.Emphasis
