/-
  `is_ulist_start` / `is_olist_start` evaluated: under the stack guard both are pure functions of the line and of the three
  topmost stack tokens (`ulistPure`, `olistPure`).  Totality is a corollary; the specification theorems start from here.
-/
import Verif.Lemmas.ListStartsBasic
namespace Verif.Model.ListStarts
open Verif.Model.Recognisers (Str charAt slice isCharAtOneOf isWsAt extractSpacesVerified calcLength lenLe isStartUlist isStartOlist
  SP TAB scanTo digits thematicBodyB)

/-! ## the two marker tests -/

/-- `__is_start_ulist` -/
def bulletB (line : Str) (start : Nat) (w : Str) : Bool :=
  isCharAtOneOf line start ['-', '+', '*'] && !(lenLe w 3 && thematicBodyB (line.drop start))

theorem isStartUlist_eval (line : Str) (start : Nat) (w : Str) : isStartUlist line start w = .ok (bulletB line start w) := by
  unfold isStartUlist bulletB
  have hev := Recognisers.isThematicBreak_eval line start w
  cases hc : isCharAtOneOf line start ['-', '+', '*']
  · simp
  · simp only [↓reduceIte, Bool.true_and]
    cases ht : Recognisers.isThematicBreak line start w false true with
    | error e => rw [ht] at hev; simp [Except.map] at hev
    | ok r =>
      rw [ht] at hev
      simp only [Except.map] at hev
      injection hev with hev
      simp only
      rw [← hev]
      cases r <;> rfl

theorem bulletB_lt {line : Str} {start : Nat} {w : Str} (h : bulletB line start w = true) : start < line.length := by
  unfold bulletB at h
  simp only [Bool.and_eq_true] at h
  exact Recognisers.isCharAtOneOf_lt h.1

/-- index after the digits that begin at `start` -/
def digitsEnd (line : Str) (start : Nat) : Nat := scanTo line digits.contains start

/-- `__is_start_olist` -/
def olistMarkerB (line : Str) (start : Nat) : Bool :=
  isCharAtOneOf line start digits && (decide (digitsEnd line start - start ≤ 9) &&
    isCharAtOneOf line (digitsEnd line start) ['.', ')'])

/-- `is_not_one`: the text of the number is not exactly `"1"` -/
def notOneB (line : Str) (start : Nat) : Bool := slice line start (digitsEnd line start) != ['1']

theorem slice_len {s : Str} {a b : Nat} (hab : a ≤ b) (hb : b ≤ s.length) : (slice s a b).length = b - a := by
  unfold slice
  simp [List.length_drop, List.length_take]
  omega

theorem digitsEnd_le {line : Str} {start : Nat} (h : start ≤ line.length) : digitsEnd line start ≤ line.length :=
  Recognisers.scanTo_le _ _ _ h

theorem digitsEnd_ge (line : Str) (start : Nat) : start ≤ digitsEnd line start := Recognisers.scanTo_ge _ _ _

theorem isStartOlist_eval (line : Str) (start : Nat) :
    isStartOlist line start =
      if isCharAtOneOf line start digits then
        .ok (olistMarkerB line start,
          some (digitsEnd line start, digitsEnd line start - start, notOneB line start))
      else .ok (false, none) := by
  unfold isStartOlist
  split
  · next h =>
    have hl := Recognisers.isCharAtOneOf_lt h
    unfold Recognisers.collectWhileOneOfVerified
    rw [Recognisers.collectWhileOneOf_eq, if_pos (by omega)]
    simp only [olistMarkerB, h, Bool.true_and]
    have hlen : (slice line start (scanTo line digits.contains start)).length = digitsEnd line start - start :=
      slice_len (digitsEnd_ge line start) (digitsEnd_le (by omega))
    rw [hlen]
    rfl
  · rfl

theorem olistMarkerB_lt {line : Str} {start : Nat} (h : olistMarkerB line start = true) :
    start < line.length ∧ digitsEnd line start < line.length := by
  unfold olistMarkerB at h
  simp only [Bool.and_eq_true] at h
  exact ⟨Recognisers.isCharAtOneOf_lt h.1, Recognisers.isCharAtOneOf_lt h.2.2⟩

/-! ## `is_ulist_start` -/

def exWsOf (ews : Str) (adjWs : Option Str) : Str := adjWs.getD ews

/-- the whitespace handed to the thematic-break test of `__is_start_ulist` -/
def thematicWs (ews : Str) (parentIndent : Nat) : Str := if parentIndent ≠ 0 then ews.drop parentIndent else ews

/-- `is_ulist_start` as a function of the three topmost stack tokens -/
def ulistPure (top : Entry) (t2 t3 : Option Entry) (line : Str) (start : Nat) (ews : Str) (skip : Bool) (adjWs : Option Str) :
    StartRes :=
  let a := adjustPure (cpPure top t2 t3) (exWsOf ews adjWs) start
  let after := afterWs line (start + 1)
  if (lenLe a.1 (3 + a.2) || skip) && bulletB line start (thematicWs ews a.2) then
    if p1Pure top t2 line start false then
      ⟨p2Pure top t2 false after line start, after, some start, some 0⟩
    else ⟨false, after, some start, some 0⟩
  else ⟨false, -1, some start, some 0⟩

theorem ulistCore_eval {st : Stack} (hOK : StackOK st) {top : Entry} {r : Stack} (h : st.reverse = top :: r)
    (line : Str) (start : Nat) (ews : Str) (skip : Bool) (cw : Str) (pi : Nat) :
    ulistCore st line start ews skip cw pi =
      .ok (if (lenLe cw (3 + pi) || skip) && bulletB line start (thematicWs ews pi) then
          if p1Pure top r[0]? line start false then
            ⟨p2Pure top r[0]? false (afterWs line (start + 1)) line start, afterWs line (start + 1), some start, some 0⟩
          else ⟨false, afterWs line (start + 1), some start, some 0⟩
        else ⟨false, -1, some start, some 0⟩) := by
  unfold ulistCore
  have htw : (if pi ≠ 0 then List.drop pi ews else ews) = thematicWs ews pi := rfl
  rw [htw]
  by_cases hc : (lenLe cw (3 + pi) || skip) = true
  · rw [if_pos hc, isStartUlist_eval, liftR_ok]
    simp only [bind_ok, hc, Bool.true_and]
    cases hb : bulletB line start (thematicWs ews pi)
    · simp [pure_eq]
    · have hlt := bulletB_lt hb
      have hbelow : top.kind ≠ .document → r ≠ [] := by
        intro hk
        obtain ⟨t2, r2, hr⟩ := hOK.below h hk
        rw [hr]; exact List.cons_ne_nil _ _
      rw [phaseOne_eval h line start false hlt (by
        intro hh
        apply hbelow
        rcases hh with hh | hh | hh
        · unfold Entry.isPara at hh
          intro hk; rw [hk] at hh; cases hh
        · rw [hh]; intro hk; cases hk
        · rw [hh]; intro hk; cases hk)]
      simp only [bind_ok, Bool.not_true, Bool.false_eq_true, ↓reduceIte]
      cases hp1 : p1Pure top r[0]? line start false
      · simp [pure_eq]
      · rw [Recognisers.charAt_lt hlt, liftR_ok]
        simp only [bind_ok, Bool.not_true, Bool.false_eq_true, ↓reduceIte]
        rw [phaseTwo_eval h _ true false _ line start (by
          intro hp
          have hk : top.kind ≠ .document := by
            unfold Entry.isPara at hp
            intro hk; rw [hk] at hp; cases hp
          obtain ⟨t2, r2, hr⟩ := hOK.below h hk
          refine ⟨t2, r2, hr, ?_⟩
          apply hOK.chars
          apply StackOK.mem_of_rev h
          rw [hr]; simp)]
        simp [pure_eq, bind_ok]
  · simp only [Bool.not_eq_true] at hc
    rw [hc]
    simp [pure_eq, bind_ok]

theorem isUlistStartN_eval {st : Stack} (hOK : StackOK st) {top : Entry} {r : Stack} (h : st.reverse = top :: r)
    (line : Str) (start : Nat) (ews : Str) (skip : Bool) (adjWs : Option Str) :
    isUlistStartN st line start ews skip adjWs = .ok (ulistPure top r[0]? r[1]? line start ews skip adjWs) := by
  unfold isUlistStartN
  rw [adjustWs_eval h]
  simp only [bind_ok]
  rw [ulistCore_eval hOK h]
  rfl

/-! ## `is_olist_start` -/

theorem olistCore_eval {st : Stack} (hOK : StackOK st) {top : Entry} {r : Stack} (h : st.reverse = top :: r)
    (line : Str) (start : Nat) (skip : Bool) (cw : Str) (pi : Nat) :
    olistCore st line start skip cw pi =
      .ok (if lenLe cw (3 + pi) || skip then
          if isCharAtOneOf line start digits then
            if olistMarkerB line start then
              if p1Pure top r[0]? line (digitsEnd line start) (notOneB line start) then
                ⟨p2Pure top r[0]? (notOneB line start) (afterWs line (digitsEnd line start + 1)) line start,
                  afterWs line (digitsEnd line start + 1), some (digitsEnd line start : Int), some (digitsEnd line start - start)⟩
              else ⟨false, afterWs line (digitsEnd line start + 1), some (digitsEnd line start : Int),
                some (digitsEnd line start - start)⟩
            else ⟨false, -1, some (digitsEnd line start : Int), some (digitsEnd line start - start)⟩
          else ⟨false, -1, none, none⟩
        else ⟨false, -1, none, none⟩) := by
  unfold olistCore
  by_cases hc : (lenLe cw (3 + pi) || skip) = true
  · rw [if_pos hc, if_pos hc, isStartOlist_eval, ]
    by_cases hd : isCharAtOneOf line start digits = true
    · rw [if_pos hd, if_pos hd, liftR_ok]
      simp only [bind_ok]
      cases hm : olistMarkerB line start
      · simp [pure_eq]
      · obtain ⟨-, hlt⟩ := olistMarkerB_lt hm
        have hbelow : top.kind ≠ .document → r ≠ [] := by
          intro hk
          obtain ⟨t2, r2, hr⟩ := hOK.below h hk
          rw [hr]; exact List.cons_ne_nil _ _
        simp only
        rw [phaseOne_eval h line (digitsEnd line start) _ hlt (by
          intro hh
          apply hbelow
          rcases hh with hh | hh | hh
          · unfold Entry.isPara at hh
            intro hk; rw [hk] at hh; cases hh
          · rw [hh]; intro hk; cases hk
          · rw [hh]; intro hk; cases hk)]
        simp only [bind_ok, ↓reduceIte]
        by_cases hp1 : p1Pure top r[0]? line (digitsEnd line start) (notOneB line start) = true
        · rw [if_pos hp1]
          simp only [hp1, Bool.not_true, Bool.false_eq_true, ↓reduceIte]
          rw [Recognisers.charAt_lt hlt, liftR_ok]
          simp only [bind_ok, Bool.not_true, Bool.false_eq_true, ↓reduceIte]
          rw [phaseTwo_eval h _ false _ _ line start (by
            intro hp
            have hk : top.kind ≠ .document := by
              unfold Entry.isPara at hp
              intro hk; rw [hk] at hp; cases hp
            obtain ⟨t2, r2, hr⟩ := hOK.below h hk
            refine ⟨t2, r2, hr, ?_⟩
            apply hOK.chars
            apply StackOK.mem_of_rev h
            rw [hr]; simp)]
          simp [pure_eq, bind_ok]
        · rw [if_neg hp1]
          simp only [Bool.not_eq_true] at hp1
          simp [hp1, pure_eq]
    · rw [if_neg hd, if_neg hd, liftR_ok]
      simp [pure_eq, bind_ok]
  · rw [if_neg hc, if_neg hc]
    rfl

/-- `is_olist_start` as a function of the three topmost stack tokens -/
def olistPure (top : Entry) (t2 t3 : Option Entry) (line : Str) (start : Nat) (ews : Str) (skip : Bool) (adjWs : Option Str) :
    StartRes :=
  let a := adjustPure (cpPure top t2 t3) (exWsOf ews adjWs) start
  let idx := digitsEnd line start
  let after := afterWs line (idx + 1)
  if lenLe a.1 (3 + a.2) || skip then
    if isCharAtOneOf line start digits then
      if olistMarkerB line start then
        if p1Pure top t2 line idx (notOneB line start) then
          ⟨p2Pure top t2 (notOneB line start) after line start, after, some (idx : Int), some (idx - start)⟩
        else ⟨false, after, some (idx : Int), some (idx - start)⟩
      else ⟨false, -1, some (idx : Int), some (idx - start)⟩
    else ⟨false, -1, none, none⟩
  else ⟨false, -1, none, none⟩

theorem isOlistStartN_eval {st : Stack} (hOK : StackOK st) {top : Entry} {r : Stack} (h : st.reverse = top :: r)
    (line : Str) (start : Nat) (ews : Str) (skip : Bool) (adjWs : Option Str) :
    isOlistStartN st line start ews skip adjWs = .ok (olistPure top r[0]? r[1]? line start ews skip adjWs) := by
  unfold isOlistStartN
  rw [adjustWs_eval h]
  simp only [bind_ok]
  rw [olistCore_eval hOK h]
  rfl

/-! ## every start index -/

theorem isUlistStart_total {st : Stack} (hOK : StackOK st) (line : Str) (start : Int) (ews : Str) (skip : Bool)
    (adjWs : Option Str) : Returns (isUlistStart st line start ews skip adjWs) := by
  obtain ⟨top, r, h⟩ := hOK.rev
  unfold isUlistStart
  split
  · rw [adjustWs_eval h]; exact ⟨_, rfl⟩
  · rw [isUlistStartN_eval hOK h]; exact ⟨_, rfl⟩

theorem isOlistStart_total {st : Stack} (hOK : StackOK st) (line : Str) (start : Int) (ews : Str) (skip : Bool)
    (adjWs : Option Str) : Returns (isOlistStart st line start ews skip adjWs) := by
  obtain ⟨top, r, h⟩ := hOK.rev
  unfold isOlistStart
  split
  · rw [adjustWs_eval h]; exact ⟨_, rfl⟩
  · rw [isOlistStartN_eval hOK h]; exact ⟨_, rfl⟩

end Verif.Model.ListStarts
