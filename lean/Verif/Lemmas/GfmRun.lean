/-
  The generator on a well-formed stream: lock-step induction over the forest structure.
  Results: the run succeeds (no IndexError / AssertionError / stack underflow), the transform stack is restored after
  every complete subtree, and the tags written form a balanced word.
-/
import Verif.Lemmas.GfmStep
namespace Verif.Lemmas.GfmRun
open Verif.Model.GfmRender Verif.Model.GfmSpec Verif.Lemmas.GfmBasic Verif.Lemmas.GfmScan Verif.Lemmas.GfmOut
open Verif.Lemmas.GfmCalcTotal Verif.Lemmas.GfmStep Verif.Lemmas.GfmReset

/-! ### the three list tokens -/

def listOpen (t : Tok) : Tag := if t.isKind .olist then .ol else .ul

theorem list_start_step (ts : List Tok) (st : St) (o : Out) (t : Tok) (hl : t.isListStart = true) (l : Bool)
    (hcalc : calculateListLooseness ts st.idx = .ok l) :
    ∃ st' x, stepTok ts (st, o) t = .ok (st', []) ∧ st'.stack = x :: st.stack ∧ st'.idx = st.idx + 1 ∧
      st'.inLoose = l ∧
      tagsOf (virt st'.stack []) = tagsOf (virt st.stack o) ++ [.opn (listOpen t), .opn .li] := by
  obtain ⟨ln, b⟩ := t
  cases b <;> simp [Tok.isListStart, Tok.isKind, Tok.kind?, Body.kind?] at hl
  case ulist =>
    simp only [stepTok, applyTransformation, hListStart, hcalc, bind, Except.bind, pure, Except.pure, applyLeading]
    refine ⟨_, _, rfl, rfl, rfl, rfl, ?_⟩
    simp [virt, tagsOf_append, tagsOf_optNL, tagsOf, listOpen, Tok.isKind, Tok.kind?, Body.kind?]
  case olist n =>
    simp only [stepTok, applyTransformation, hListStart, hcalc, bind, Except.bind, pure, Except.pure, applyLeading]
    refine ⟨_, _, rfl, rfl, rfl, rfl, ?_⟩
    simp [virt, tagsOf_append, tagsOf_optNL, tagsOf, listOpen, Tok.isKind, Tok.kind?, Body.kind?]

theorem li_step (ts : List Tok) (st : St) (o : Out) (ln : Nat) (top : Out) (rest : List Out) (hs : st.stack = top :: rest) :
    ∃ st' x, stepTok ts (st, o) ⟨ln, .li⟩ = .ok (st', []) ∧ st'.stack = x :: rest ∧ st'.idx = st.idx + 1 ∧
      st'.inLoose = st.inLoose ∧
      tagsOf (virt st'.stack []) = tagsOf (virt st.stack o) ++ [.cls .li, .opn .li] := by
  simp only [stepTok, applyTransformation, hLi, bind, Except.bind, pure, Except.pure, applyTrailing, hs, applyLeading]
  refine ⟨_, _, rfl, rfl, rfl, rfl, ?_⟩
  simp [virt, hs, tagsOf_append, tagsOf_optNL, tagsOf]

theorem list_end_step (ts : List Tok) (st : St) (o : Out) (e : Tok) (k : Kind) (p : Nat) (f : Bool)
    (he : e.body = .end_ k p f) (hk : k = .ulist ∨ k = .olist) (top : Out) (rest : List Out) (hs : st.stack = top :: rest)
    (l : Bool) (hr : resetListLooseness ts { st with trailing := none, leading := none } st.idx = .ok l) :
    ∃ st' o', stepTok ts (st, o) e = .ok (st', o') ∧ st'.stack = rest ∧ st'.idx = st.idx + 1 ∧ st'.inLoose = l ∧
      flat o' ≠ [] ∧
      tagsOf (virt st'.stack o') = tagsOf (virt st.stack o) ++ [.cls .li, .cls (if k = .ulist then .ul else .ol)] := by
  obtain ⟨ln, b⟩ := e
  simp only at he; subst he
  rcases hk with rfl | rfl
  · simp only [stepTok, applyTransformation, hListEnd, bind, Except.bind, pure, Except.pure]
    simp only [hr]
    simp only [applyTrailing, hs]
    refine ⟨_, _, rfl, rfl, rfl, rfl, ?_, ?_⟩
    · apply flat_ne_nil_append_right; simp [flat, Chunk.flat]
    · simp [virt, hs, tagsOf_append, tagsOf_optNL, tagsOf]
  · simp only [stepTok, applyTransformation, hListEnd, bind, Except.bind, pure, Except.pure]
    simp only [hr]
    simp only [applyTrailing, hs]
    refine ⟨_, _, rfl, rfl, rfl, rfl, ?_, ?_⟩
    · apply flat_ne_nil_append_right; simp [flat, Chunk.flat]
    · simp [virt, hs, tagsOf_append, tagsOf_optNL, tagsOf]

/-! ### inside a leaf block or an inline scope there are only inline tokens -/

theorem inline_body {par : Option Kind} {a : Nat} {F : List Tok} (h : GForest par a F) (hp : inlineCtx par = true) :
    ∀ t ∈ F, ∀ k, t.kind? = some k → k.cls = .inline := by
  induction h with
  | nil => intro t ht; simp at ht
  | @atom par a t k rest hk _ ha _ ih =>
    intro t' ht' k' hk'
    simp only [List.mem_cons] at ht'
    rcases ht' with rfl | ht'
    · rw [hk] at hk'; cases hk'
      unfold atomOK at ha
      cases hc : k.cls <;> simp only [hc] at ha
      · cases par <;> simp_all [listCtx, inlineCtx]
        rename_i p
        obtain ⟨_, h2⟩ := ha
        rcases h2 with rfl | rfl <;> simp [Kind.cls] at hp
      · cases par <;> simp_all [blockCtx, inlineCtx]
      · rfl
      · cases par <;> simp_all [inlineCtx]
    · exact ih hp t' ht' k' hk'
  | @node par a s k body e f rest hk _ hso _ he _ ihb ihr =>
    intro t' ht' k' hk'
    have hkc : k.cls = .inline := by
      unfold startOK at hso
      cases hc : k.cls <;> simp only [hc] at hso
      · cases par <;> simp_all [blockCtx, inlineCtx]
      · cases par <;> simp_all [blockCtx, inlineCtx]
      · rfl
      · cases hso
    simp only [List.mem_cons, List.mem_append] at ht'
    rcases ht' with rfl | ht' | rfl | ht'
    · rw [hk] at hk'; cases hk'; exact hkc
    · exact ihb (by simp [inlineCtx, hkc]) t' ht' k' hk'
    · obtain ⟨le, be⟩ := t'; simp only at he; subst he; simp [Tok.kind?, Body.kind?] at hk'
    · exact ihr hp t' ht' k' hk'

theorem not_isKind_of_inline {t : Tok} {k : Kind} (hk : k.cls ≠ .inline)
    (h : ∀ k', t.kind? = some k' → k'.cls = .inline) : t.isKind k = false := by
  unfold Tok.isKind
  cases hh : t.kind? with
  | none => rfl
  | some k' =>
    have := h k' hh
    have : k' ≠ k := by intro heq; subst heq; exact hk this
    simp [this]

/-! ### the invariant -/

structure Inv (par : Option Kind) (st : St) (o : Out) : Prop where
  stackNe : listCtx par = true → st.stack ≠ []
  outNe : (par = some .bquote ∨ par = some .fcode) → flat o ≠ []

/-- what processing a complete forest below `par` does -/
structure After (par : Option Kind) (a n : Nat) (st : St) (o : Out) (st' : St) (o' : Out) : Prop where
  idx : st'.idx = a + n
  inv : Inv par st' o'
  stackLen : st'.stack.length = st.stack.length
  mono : listCtx par = false → flat o ≠ [] → flat o' ≠ []
  loose : inlineCtx par = true → st'.inLoose = st.inLoose
  tags : ∀ S T, (listCtx par = true → T.head? = some .li) → tagRun S (tagsOf (virt st.stack o)) = some T →
    tagRun S (tagsOf (virt st'.stack o')) = some T

theorem tagRun_step {S T U : List Tag} {x : List TagEv} {δ : List TagEv} (h : tagRun S x = some T)
    (hδ : tagRun T δ = some U) : tagRun S (x ++ δ) = some U := by
  rw [tagRun_append, h]; exact hδ

theorem listCtx_false_of {par : Option Kind} (h : inlineCtx par = true) : listCtx par = false := by
  cases par with
  | none => rfl
  | some p => cases p <;> simp_all [inlineCtx, listCtx, Kind.cls]

theorem mem_split_get {ts pre F post : List Tok} (h : ts = pre ++ F ++ post) (m : Nat) (hm : m < F.length) :
    ts[pre.length + m]? = F[m]? := by
  subst h
  rw [List.append_assoc, List.getElem?_append_right (by omega)]
  have : pre.length + m - pre.length = m := by omega
  rw [this, List.getElem?_append_left hm]


theorem After.trans {par : Option Kind} {a n m : Nat} {st st1 st2 : St} {o o1 o2 : Out}
    (h1 : After par a n st o st1 o1) (h2 : After par (a + n) m st1 o1 st2 o2) : After par a (n + m) st o st2 o2 where
  idx := by rw [h2.idx]; omega
  inv := h2.inv
  stackLen := by rw [h2.stackLen, h1.stackLen]
  mono := fun hl h => h2.mono hl (h1.mono hl h)
  loose := fun hl => by rw [h2.loose hl, h1.loose hl]
  tags := fun S T hT h => h2.tags S T hT (h1.tags S T hT h)

theorem openTags_eq {st st2 : St} {s : Tok} (h : s.kind? = some .para → st2.inLoose = st.inLoose) :
    openTags st2 s = openTags st s := by
  obtain ⟨ln, b⟩ := s
  cases b <;> simp [openTags]
  case para => rw [h rfl]

theorem inline_not_block {par : Option Kind} (h : inlineCtx par = true) : blockCtx par = false := by
  cases par with
  | none => simp [inlineCtx] at h
  | some p => cases p <;> simp_all [inlineCtx, blockCtx, Kind.cls]

theorem virt_plain_tags {st st1 : St} {o o1 : Out} {δ : List TagEv} (hp : Plain st o st1 o1 δ) :
    tagsOf (virt st1.stack o1) = tagsOf (virt st.stack o) ++ δ := by
  simp only [virt, tagsOf_append, hp.stack, hp.tags, List.append_assoc]

/-- the payload-level calls succeed: either by hypothesis on every token, or because the run itself is known to succeed -/
def StepsOK (ts : List Tok) (F : List Tok) (st : St) (o : Out) : Prop :=
  PayloadOK ts ∨ ∃ r, runToks ts F (st, o) = .ok r

theorem StepsOK.cons {ts : List Tok} {t : Tok} {F : List Tok} {st st1 : St} {o o1 : Out}
    (h : StepsOK ts (t :: F) st o) (hs : stepTok ts (st, o) t = .ok (st1, o1)) : StepsOK ts F st1 o1 := by
  rcases h with h | ⟨r, hr⟩
  · exact Or.inl h
  · rw [runToks_cons, hs] at hr; exact Or.inr ⟨r, hr⟩

theorem StepsOK.left {ts : List Tok} {A B : List Tok} {st : St} {o : Out} (h : StepsOK ts (A ++ B) st o) :
    StepsOK ts A st o := by
  rcases h with h | ⟨r, hr⟩
  · exact Or.inl h
  · rw [runToks_append] at hr
    cases hA : runToks ts A (st, o) with
    | error e => rw [hA] at hr; cases hr
    | ok acc => exact Or.inr ⟨acc, hA⟩

theorem StepsOK.right {ts : List Tok} {A B : List Tok} {st st1 : St} {o o1 : Out} (h : StepsOK ts (A ++ B) st o)
    (hA : runToks ts A (st, o) = .ok (st1, o1)) : StepsOK ts B st1 o1 := by
  rcases h with h | ⟨r, hr⟩
  · exact Or.inl h
  · rw [runToks_append, hA] at hr; exact Or.inr ⟨r, hr⟩

theorem StepsOK.head {ts : List Tok} {t : Tok} {F : List Tok} {st : St} {o : Out} (h : StepsOK ts (t :: F) st o)
    (hmem : t ∈ ts) : payloadOK t = true ∨ ∃ r, applyTransformation ts st o t = .ok r := by
  rcases h with h | ⟨r, hr⟩
  · exact Or.inl (h t hmem)
  · right
    rw [runToks_cons] at hr
    cases hs : stepTok ts (st, o) t with
    | error e => rw [hs] at hr; cases hr
    | ok acc =>
      unfold stepTok at hs
      cases ha : applyTransformation ts st o t with
      | error e => simp [ha, bind, Except.bind] at hs
      | ok r => exact ⟨r, rfl⟩

theorem startOK_list_block {par : Option Kind} {k : Kind} (hk : k = .ulist ∨ k = .olist) (h : startOK par k = true) :
    blockCtx par = true := by
  rcases hk with rfl | rfl <;> simpa [startOK, Kind.cls] using h

theorem isListStart_of_kind {s : Tok} {k : Kind} (hk : s.kind? = some k) (hl : k = .ulist ∨ k = .olist) :
    s.isListStart = true := by
  rw [(start_isList hk).1]; rcases hl with rfl | rfl <;> rfl

theorem listOpen_of_kind {s : Tok} {k : Kind} (hk : s.kind? = some k) (hl : k = .ulist ∨ k = .olist) :
    listOpen s = (if k = .ulist then .ul else .ol) := by
  obtain ⟨ln, b⟩ := s
  rcases hl with rfl | rfl <;> cases b <;> simp [Tok.kind?, Body.kind?] at hk <;>
    simp [listOpen, Tok.isKind, Tok.kind?, Body.kind?]

/-- a list node: start token, items, end token -/
theorem node_list (ts : List Tok) (hG : GForest none 0 ts) (par : Option Kind) (a : Nat) (s : Tok) (k : Kind)
    (body : List Tok) (e : Tok) (f : Bool) (hk : s.kind? = some k) (hl : k = .ulist ∨ k = .olist)
    (hso : startOK par k = true) (hbodyF : GForest (some k) (a + 1) body) (he : e.body = .end_ k a f)
    (pre post : List Tok) (hts : ts = pre ++ s :: (body ++ e :: post)) (hpre : pre.length = a)
    (ihb : ∀ st o, st.idx = a + 1 → Inv (some k) st o → StepsOK ts body st o →
      ∃ st' o', runToks ts body (st, o) = .ok (st', o') ∧ After (some k) (a + 1) body.length st o st' o')
    (st : St) (o : Out) (hi : st.idx = a) (hinv : Inv par st o) (hS : StepsOK ts (s :: (body ++ [e])) st o) :
    ∃ st3 o3, runToks ts (s :: (body ++ [e])) (st, o) = .ok (st3, o3) ∧ After par a (body.length + 2) st o st3 o3 := by
  have hls := isListStart_of_kind hk hl
  subst hpre
  obtain ⟨l, hcalc⟩ := calc_total pre s k body e f post hk hls hbodyF he
  rw [← hts, ← hi] at hcalc
  obtain ⟨st1, x, hstep1, hstack1, hidx1, _, htags1⟩ := list_start_step ts st o s hls l hcalc
  have hlk : listCtx (some k) = true := by rcases hl with rfl | rfl <;> rfl
  have hinv1 : Inv (some k) st1 [] :=
    ⟨fun _ => by rw [hstack1]; simp, fun hb => by rcases hb with hb | hb <;> rcases hl with rfl | rfl <;> cases hb⟩
  obtain ⟨st2, o2, hrun2, haft2⟩ := ihb st1 [] (by omega) hinv1 (hS.cons hstep1).left
  have hlen2 : st2.stack.length = st.stack.length + 1 := by rw [haft2.stackLen, hstack1]; simp
  obtain ⟨top, rest2, hs2⟩ := List.exists_cons_of_ne_nil (haft2.inv.stackNe hlk)
  obtain ⟨l2, hreset⟩ := reset_total hG { st2 with trailing := none, leading := none } st2.idx
  obtain ⟨st3, o3, hstep3, hstack3, hidx3, _, hne3, htags3⟩ := list_end_step ts st2 o2 e k pre.length f he hl top rest2 hs2 l2 hreset
  refine ⟨st3, o3, ?_, ?_⟩
  · rw [runToks_cons, hstep1]
    simp only
    rw [runToks_append, hrun2]
    simp only [runToks, hstep3]
    rfl
  · have hlen3 : st3.stack.length = st.stack.length := by
      rw [hstack3]; rw [hs2] at hlen2; simp at hlen2; omega
    refine ⟨by rw [hidx3, haft2.idx]; omega, ⟨?_, fun _ => hne3⟩, hlen3, fun _ _ => hne3, ?_, ?_⟩
    · intro hlc
      have := hinv.stackNe hlc
      intro h0
      rw [h0] at hlen3
      exact this (List.length_eq_zero_iff.mp hlen3.symm)
    · intro hic
      have := startOK_list_block hl hso
      rw [inline_not_block hic] at this; cases this
    · intro S T hT hrun
      rw [htags3]
      have h1 : tagRun S (tagsOf (virt st1.stack [])) = some (.li :: (if k = .ulist then .ul else .ol) :: T) := by
        rw [htags1]
        refine tagRun_step hrun ?_
        rw [listOpen_of_kind hk hl]; simp [tagRun]
      have h2 := haft2.tags S _ (fun _ => rfl) h1
      refine tagRun_step h2 ?_
      simp [tagRun]

theorem leafKind_cls {k : Kind} (h : k = .atx ∨ k = .setext ∨ k = .fcode) : k.cls = .leaf := by
  rcases h with rfl | rfl | rfl <;> rfl

/-- a leaf block, an inline scope or a block quote: start token, content, end token -/
theorem node_other (ts : List Tok) (hG : GForest none 0 ts) (par : Option Kind) (a : Nat) (s : Tok) (k : Kind)
    (body : List Tok) (e : Tok) (f : Bool) (hk : s.kind? = some k) (hst : Kind.isStart k = true)
    (hnl : k ≠ .ulist ∧ k ≠ .olist)
    (hso : startOK par k = true) (hbodyF : GForest (some k) (a + 1) body) (he : e.body = .end_ k a f)
    (pre post : List Tok) (hts : ts = pre ++ s :: (body ++ e :: post)) (hpre : pre.length = a)
    (ihb : ∀ st o, st.idx = a + 1 → Inv (some k) st o → StepsOK ts body st o →
      ∃ st' o', runToks ts body (st, o) = .ok (st', o') ∧ After (some k) (a + 1) body.length st o st' o')
    (st : St) (o : Out) (hi : st.idx = a) (hinv : Inv par st o) (hS : StepsOK ts (s :: (body ++ [e])) st o) :
    ∃ st3 o3, runToks ts (s :: (body ++ [e])) (st, o) = .ok (st3, o3) ∧ After par a (body.length + 2) st o st3 o3 := by
  have hne : ts ≠ [] := by rw [hts]; simp
  have hlen : ts.length = pre.length + 1 + body.length + 1 + post.length := by rw [hts]; simp; omega
  have hsa : ts[a]? = some s := by rw [hts, ← hpre]; simp
  have hbodyget : ∀ m, m < body.length → ts[a + 1 + m]? = body[m]? := by
    intro m hm
    rw [hts, ← hpre, List.getElem?_append_right (by omega)]
    have : pre.length + 1 + m - pre.length = m + 1 := by omega
    rw [this, List.getElem?_cons_succ, List.getElem?_append_left hm]
  -- start token
  obtain ⟨st1, o1, δ1, happ1, hpl1, htag1, hout1, hloose1⟩ :=
    start_step ts st o s k hk hst hnl hne (by omega)
  have hstep1 := stepTok_plain happ1 hpl1
  have hlk : listCtx (some k) = false := by
    cases k <;> simp_all [listCtx]
  have hinv1 : Inv (some k) { st1 with idx := st.idx + 1 } o1 := by
    refine ⟨fun h => ?_, fun hb => hout1 ?_⟩
    · rw [hlk] at h; cases h
    · rcases hb with hb | hb
      · exact Or.inl (Option.some.inj hb)
      · exact Or.inr (Option.some.inj hb)
  obtain ⟨st2, o2, hrun2, haft2⟩ := ihb _ o1 (by simp; omega) hinv1 (hS.cons hstep1).left
  -- end token
  have hidx2 : st2.idx = a + 1 + body.length := haft2.idx
  have hbetween : (k = .atx ∨ k = .setext ∨ k = .fcode) → ∀ m, a < m → m < st2.idx →
      ∃ b, ts[m]? = some b ∧ b.isKind k = false := by
    intro hkk m h1 h2
    have hm : m - (a + 1) < body.length := by omega
    have hget := hbodyget (m - (a + 1)) hm
    have hmm : a + 1 + (m - (a + 1)) = m := by omega
    rw [hmm] at hget
    obtain ⟨b, hb⟩ := getElem?_of_lt body (m - (a + 1)) hm
    refine ⟨b, by rw [hget, hb], ?_⟩
    have hcls := leafKind_cls hkk
    apply not_isKind_of_inline (by rw [hcls]; simp)
    exact inline_body hbodyF (by simp [inlineCtx, hcls]) b (List.mem_of_getElem? hb)
  have hout2 : (k = .bquote ∨ k = .fcode) → flat o2 ≠ [] := fun hb =>
    haft2.inv.outNe (by rcases hb with rfl | rfl; exact Or.inl rfl; exact Or.inr rfl)
  obtain ⟨st3, o3, δ3, happ3, hpl3, htag3, hloose3⟩ :=
    end_step ts hG st2 o2 s e k a f hk hst hnl he hsa (by omega) (by omega) hbetween hout2
  have hstep3 := stepTok_plain happ3 hpl3
  refine ⟨{ st3 with idx := st2.idx + 1 }, o3, ?_, ?_⟩
  · rw [runToks_cons, hstep1]
    simp only
    rw [runToks_append, hrun2]
    simp only [runToks, hstep3]
    rfl
  · have hlen3 : st3.stack.length = st.stack.length := by
      have h2 : st2.stack.length = st1.stack.length := by simpa using haft2.stackLen
      rw [hpl3.stack, h2, hpl1.stack]
    have hmono : flat o ≠ [] → flat o3 ≠ [] := fun h =>
      hpl3.mono (haft2.mono hlk (hpl1.mono h))
    have hloose : k ≠ .bquote → st3.inLoose = st.inLoose := by
      intro hkb
      rw [hloose3 hkb]
      by_cases hic : inlineCtx (some k) = true
      · have := haft2.loose hic
        simp only at this
        rw [this, hloose1 hkb]
      · -- a leaf block / inline scope always has an inline context; block quotes are excluded
        exfalso
        apply hic
        cases k <;> simp_all [inlineCtx, Kind.cls, Kind.isStart, Kind.requiresEnd]
    refine ⟨by simp only; rw [hidx2]; omega, ⟨?_, ?_⟩, by simpa using hlen3, fun _ h => hmono h, ?_, ?_⟩
    · intro hlc
      have := hinv.stackNe hlc
      intro h0
      simp only at h0
      rw [h0] at hlen3
      exact this (List.length_eq_zero_iff.mp hlen3.symm)
    · intro hb; exact hmono (hinv.outNe hb)
    · intro hic
      simp only
      apply hloose
      intro hkb; subst hkb
      have : blockCtx par = true := by simpa [startOK, Kind.cls] using hso
      rw [inline_not_block hic] at this; cases this
    · intro S T _ hrun
      simp only
      rw [virt_plain_tags hpl3]
      have h1 : tagRun S (tagsOf (virt st1.stack o1)) = some (openTags st s ++ T) := by
        rw [virt_plain_tags hpl1]
        exact tagRun_step hrun (htag1 T)
      have h2 := haft2.tags S (openTags st s ++ T) (fun h => by rw [hlk] at h; cases h) (by simpa using h1)
      refine tagRun_step h2 ?_
      have hot : openTags st2 s = openTags st s := by
        apply openTags_eq
        intro hpara
        have hkp : k = .para := by rw [hk] at hpara; exact Option.some.inj hpara
        subst hkp
        have := haft2.loose (by simp [inlineCtx, Kind.cls])
        simp only at this
        rw [this, hloose1 (by simp)]
      rw [← hot]
      exact htag3 T

/-- **the generator on a well-formed forest** -/
theorem forest_render (ts : List Tok) (hG : GForest none 0 ts) :
    ∀ {par : Option Kind} {a : Nat} {F : List Tok}, GForest par a F →
    ∀ (pre post : List Tok), ts = pre ++ F ++ post → pre.length = a →
    ∀ (st : St) (o : Out), st.idx = a → Inv par st o → StepsOK ts F st o →
    ∃ st' o', runToks ts F (st, o) = .ok (st', o') ∧ After par a F.length st o st' o' := by
  intro par a F h
  induction h with
  | nil =>
    intro pre post _ _ st o hi hinv _
    exact ⟨st, o, rfl, ⟨by simpa using hi, hinv, rfl, fun _ h => h, fun _ => rfl, fun S T _ h => h⟩⟩
  | @atom par a t k rest hk hst ha hrest ih =>
    intro pre post hts hpre st o hi hinv hS
    have hmem : t ∈ ts := by subst hts; simp
    have hts' : ts = (pre ++ [t]) ++ rest ++ post := by rw [hts]; simp
    -- one token
    have hone : ∃ st1 o1, stepTok ts (st, o) t = .ok (st1, o1) ∧ After par a 1 st o st1 o1 := by
      by_cases hli : k = .li
      · subst hli
        have hlc : listCtx par = true := by
          simp only [atomOK, Kind.cls, beq_self_eq_true, Bool.true_and] at ha; exact ha
        obtain ⟨top, rest', hs⟩ := List.exists_cons_of_ne_nil (hinv.stackNe hlc)
        obtain ⟨ln, b⟩ := t
        have hb : b = .li := by
          cases b <;> simp [Tok.kind?, Body.kind?] at hk <;> rfl
        subst hb
        obtain ⟨st1, x, hstep, hstack, hidx, hloose, htags⟩ := li_step ts st o ln top rest' hs
        refine ⟨st1, [], hstep, ⟨by omega, ⟨fun _ => by rw [hstack]; simp, ?_⟩, by rw [hstack, hs]; simp, ?_, fun _ => hloose, ?_⟩⟩
        · intro hbf
          rcases hbf with rfl | rfl <;> simp [listCtx] at hlc
        · intro hl; rw [hlc] at hl; cases hl
        · intro S T hT hrun
          rw [htags]
          refine tagRun_step hrun ?_
          have := hT hlc
          cases T with
          | nil => simp at this
          | cons t0 T0 =>
            simp only [List.head?_cons, Option.some.injEq] at this
            subst this
            simp [tagRun]
      · obtain ⟨st1, o1, δ, happ, hpl, hneu, hloose⟩ := atom_step ts st o t k hk hst hli (hS.head hmem)
        refine ⟨_, o1, stepTok_plain happ hpl, ⟨by simp; omega, ⟨?_, ?_⟩, by simp [hpl.stack], ?_, fun _ => by simpa using hloose, ?_⟩⟩
        · intro hl; simp only [hpl.stack]; exact hinv.stackNe hl
        · intro hb; exact hpl.mono (hinv.outNe hb)
        · intro _ h; exact hpl.mono h
        · intro S T _ hrun
          simp only
          rw [virt_plain_tags hpl]
          exact tagRun_step hrun (hneu T)
    obtain ⟨st1, o1, hstep, haft⟩ := hone
    obtain ⟨st', o', hrun, haft'⟩ := ih (pre ++ [t]) post hts' (by simp; omega) st1 o1 (by rw [haft.idx]) haft.inv
      (hS.cons hstep)
    refine ⟨st', o', ?_, ?_⟩
    · simp only [runToks, hstep]; exact hrun
    · have := haft.trans haft'
      simpa [Nat.add_comm] using this
  | @node par a s k body e f rest hk hst hso hbody he hrest ihb ihr =>
    intro pre post hts hpre st o hi hinv hS
    have hsplit : s :: (body ++ e :: rest) = (s :: (body ++ [e])) ++ rest := by simp
    rw [hsplit] at hS
    have hts1 : ts = pre ++ s :: (body ++ e :: (rest ++ post)) := by rw [hts]; simp
    have hts2 : ts = (pre ++ [s]) ++ body ++ (e :: (rest ++ post)) := by rw [hts]; simp
    have hts3 : ts = (pre ++ s :: (body ++ [e])) ++ rest ++ post := by rw [hts]; simp
    have ihb' : ∀ st o, st.idx = a + 1 → Inv (some k) st o → StepsOK ts body st o →
        ∃ st' o', runToks ts body (st, o) = .ok (st', o') ∧ After (some k) (a + 1) body.length st o st' o' :=
      fun st o h1 h2 h3 => ihb (pre ++ [s]) (e :: (rest ++ post)) hts2 (by simp; omega) st o h1 h2 h3
    have hpart : ∃ st3 o3, runToks ts (s :: (body ++ [e])) (st, o) = .ok (st3, o3) ∧
        After par a (body.length + 2) st o st3 o3 := by
      by_cases hl : k = .ulist ∨ k = .olist
      · exact node_list ts hG par a s k body e f hk hl hso hbody he pre (rest ++ post) hts1 hpre ihb' st o hi hinv hS.left
      · have hnl : k ≠ .ulist ∧ k ≠ .olist := ⟨fun h => hl (Or.inl h), fun h => hl (Or.inr h)⟩
        exact node_other ts hG par a s k body e f hk hst hnl hso hbody he pre (rest ++ post) hts1 hpre ihb' st o hi hinv hS.left
    obtain ⟨st3, o3, hrun3, haft3⟩ := hpart
    obtain ⟨st', o', hrun, haft'⟩ := ihr (pre ++ s :: (body ++ [e])) post hts3 (by simp; omega) st3 o3
      (by rw [haft3.idx]; omega) haft3.inv (hS.right hrun3)
    refine ⟨st', o', ?_, ?_⟩
    · rw [hsplit, runToks_append, hrun3]
      exact hrun
    · have h := haft3.trans (by
        have e1 : a + (body.length + 2) = a + 1 + body.length + 1 := by omega
        rw [e1]; exact haft')
      have e2 : (s :: (body ++ e :: rest)).length = body.length + 2 + rest.length := by simp; omega
      rw [e2]; exact h

end Verif.Lemmas.GfmRun
