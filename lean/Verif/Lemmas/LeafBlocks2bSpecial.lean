/-
  Lemmas for `html_start_spec_partial` (Props/LeafBlocks2b): list-level closed forms of the classifier of start conditions
  2–5 (`checkSpecial`) against the specification's `cond2` … `cond5`, and the reduction of the line-level recogniser to it
  for a line indented by at most three spaces.
-/
import Verif.Lemmas.LeafBlocks2Start
import Verif.Lemmas.InlineRecogChars
import Verif.Lemmas.LeafBlocks2Code
namespace Verif.Model.LeafBlocks2
open Verif.Model.Recognisers Verif.Model.InlineRecog
open Verif.Model.HtmlBlockSpec (cond1 cond2 cond3 cond4 cond5 gfm029 cm031 startOfText startOfLine indentOf)

/-- `are_characters_at_index(s, 0, pat)` is "s begins with pat" -/
theorem areCharsAt_zero (s pat : Str) : areCharsAt s 0 pat = pat.isPrefixOf s := by
  unfold areCharsAt slice
  simp only [Nat.zero_add, List.drop_zero]
  by_cases h : pat <+: s
  · rw [List.isPrefixOf_iff_prefix.mpr h]
    have := List.prefix_iff_eq_take.mp h
    rw [← this]
    simp [h.length_le]
  · have h' : pat.isPrefixOf s = false := by
      cases hh : pat.isPrefixOf s with
      | false => rfl
      | true => exact absurd (List.isPrefixOf_iff_prefix.mp hh) h
    rw [h']
    cases hh : (List.take pat.length s == pat) with
    | false => simp
    | true =>
      exfalso; apply h
      have := eq_of_beq hh
      rw [List.prefix_iff_eq_take]; exact this.symm

theorem areCharsAt_one (c : Char) (s pat : Str) : areCharsAt (c :: s) 1 pat = pat.isPrefixOf s := by
  have := areCharsAt_shift [c] s 0 pat
  simp only [List.singleton_append, List.length_cons, List.length_nil, Nat.zero_add, Nat.add_zero] at this
  rw [this, areCharsAt_zero]

theorem isUpper_eq (c : Char) : asciiUpper.contains c = HtmlBlockSpec.isUpper c := by
  rw [asciiUpper_eq, isUpper_nat]; rfl

theorem cdata_toList : "![CDATA[".toList = '!' :: CDATA_REST := by decide

/-- **closed form of `__check_for_special_html_blocks`** on the text `r` after the `<` -/
theorem checkSpecial_closed (r : Str) :
    checkSpecial r 0 =
      if cond2 r then some 2 else if cond3 r then some 3 else if cond4 gfm029 r then some 4
      else if cond5 r then some 5 else none := by
  cases r with
  | nil => rfl
  | cons c s =>
    unfold checkSpecial
    have hlen : ¬ (0 ≥ (c :: s).length) := by simp
    rw [if_neg hlen]
    simp only [Nat.zero_add, areCharsAt_one]
    have h0 : ∀ x, isCharAt (c :: s) 0 x = (c == x) := fun x => rfl
    have h1 : isCharAtOneOf (c :: s) 1 asciiUpper = cond4 gfm029 ('!' :: s) := by
      cases s with
      | nil => rfl
      | cons d t => show asciiUpper.contains d = _; rw [isUpper_eq]; rfl
    rw [h0, h0, h1]
    have e5 : ∀ x, cond5 (x :: s) = (('!' == x) && CDATA_REST.isPrefixOf s) := by
      intro x; unfold cond5; rw [cdata_toList]; rfl
    have e2 : ∀ x, cond2 (x :: s) = (('!' == x) && (['-', '-'] : Str).isPrefixOf s) := fun x => rfl
    have e3 : ∀ x, cond3 (x :: s) = ('?' == x) := by
      intro x; unfold cond3; simp [List.isPrefixOf]
    rw [e2, e3, e5]
    by_cases hc : c = '!'
    · subst hc
      have hq : ('?' == '!') = false := by decide
      simp [hq]
    · have hb : (c == '!') = false := beq_eq_false_iff_ne.mpr hc
      have hb4 : ('!' == c) = false := by rw [beq_eq_false_iff_ne]; exact fun e => hc e.symm
      have e4 : cond4 gfm029 (c :: s) = false := by
        unfold cond4
        split
        · next h => injection h with h _; exact absurd h hc
        · rfl
      rw [hb, hb4, e4]
      by_cases hq : c = '?'
      · subst hq; simp
      · have hb2 : (c == '?') = false := beq_eq_false_iff_ne.mpr hq
        have hb3 : ('?' == c) = false := by rw [beq_eq_false_iff_ne]; exact fun e => hq e.symm
        simp [hb2, hb3]

/-! ## the line-level recogniser on a line indented by `k` spaces -/

theorem indentOf_spaces (k col : Nat) (d : Char) (rest : Str) (hd : isWsChar d = false) :
    indentOf (List.replicate k SP ++ d :: rest) col = (col + k, d :: rest) := by
  induction k generalizing col with
  | zero =>
    have h1 : (d == ' ') = false := by
      cases h : d == ' ' with
      | false => rfl
      | true => rw [eq_of_beq h] at hd; cases hd
    have h2 : (d == '\t') = false := by
      cases h : d == '\t' with
      | false => rfl
      | true => rw [eq_of_beq h] at hd; cases hd
    simp [indentOf, h1, h2]
  | succ k ih =>
    rw [List.replicate_succ, List.cons_append]
    unfold indentOf
    have : (SP == ' ') = true := by decide
    rw [if_pos this, ih]
    congr 1; omega

theorem lineHtmlStart_lt (k : Nat) (hk : k ≤ 3) (r : Str) (inPara : Bool) :
    lineHtmlStart (List.replicate k SP ++ '<' :: r) inPara =
      (determineType (List.replicate k SP ++ '<' :: r) k inPara).map (Option.map (·.1)) := by
  unfold lineHtmlStart
  rw [leadWs_spaces k '<' r (by decide)]
  unfold isHtmlBlock
  have h1 : lenLe (List.replicate k SP) 3 = true := by
    unfold lenLe; rw [calcLength_spaces]; exact decide_eq_true hk
  have h2 : isCharAt (List.replicate k SP ++ '<' :: r) k '<' = true := by
    have := isCharAt_shift (List.replicate k SP) ('<' :: r) 0 '<'
    simp only [List.length_replicate, Nat.add_zero] at this
    rw [this]; rfl
  simp only [h1, h2, Bool.or_true, Bool.and_true, if_true]

theorem lineHtmlStart_ge (k : Nat) (hk : 4 ≤ k) (d : Char) (rest : Str) (hd : isWsChar d = false) (inPara : Bool) :
    lineHtmlStart (List.replicate k SP ++ d :: rest) inPara = .ok none := by
  unfold lineHtmlStart
  rw [leadWs_spaces k d rest hd]
  unfold isHtmlBlock
  have h1 : lenLe (List.replicate k SP) 3 = false := by
    unfold lenLe; rw [calcLength_spaces]; exact decide_eq_false (by omega)
  simp only [h1, Bool.or_false, Bool.false_and, Bool.false_eq_true, if_false]
  rfl

theorem lineHtmlStart_other (k : Nat) (d : Char) (rest : Str) (hd : isWsChar d = false) (hlt : d ≠ '<') (inPara : Bool) :
    lineHtmlStart (List.replicate k SP ++ d :: rest) inPara = .ok none := by
  unfold lineHtmlStart
  rw [leadWs_spaces k d rest hd]
  unfold isHtmlBlock
  have h2 : isCharAt (List.replicate k SP ++ d :: rest) k '<' = false := by
    have := isCharAt_shift (List.replicate k SP) (d :: rest) 0 '<'
    simp only [List.length_replicate, Nat.add_zero] at this
    rw [this]; exact beq_eq_false_iff_ne.mpr hlt
  simp only [h2, Bool.and_false, Bool.false_eq_true, if_false]
  rfl

theorem checkSpecial_line (k : Nat) (r : Str) :
    checkSpecial (List.replicate k SP ++ '<' :: r) (k + 1) = checkSpecial r 0 := by
  have := checkSpecial_shift (List.replicate k SP ++ ['<']) r
  simp only [List.length_append, List.length_replicate, List.length_cons, List.length_nil, Nat.zero_add,
    List.append_assoc, List.singleton_append] at this
  exact this

/-- `__check_for_normal_html_blocks` answers only None / 1 / 6 / 7 whenever it answers -/
theorem checkNormal_range (tag line : Str) (ci : Nat) (t : Nat) (h : checkNormal tag line ci = .ok (some t)) :
    t = 1 ∨ t = 6 ∨ t = 7 := by
  unfold checkNormal at h
  split at h
  · injection h with h; injection h with h; exact Or.inl h.symm
  · split at h
    · cases h
    · split at h
      · injection h with h; injection h with h; exact Or.inr (Or.inl h.symm)
      · split at h
        · split at h
          · cases h
          · next idx _ =>
            injection h with h
            split at h
            · rcases sevenTail_cases line idx with h7 | h7 <;> rw [h7] at h
              · injection h with h; exact Or.inr (Or.inr h.symm)
              · cases h
            · cases h
        · split at h
          · cases h
          · cases h
          · cases h
          · next idx _ =>
            injection h with h
            rcases sevenTail_cases line idx with h7 | h7 <;> rw [h7] at h
            · injection h with h; exact Or.inr (Or.inr h.symm)
            · cases h

theorem determineType_special (line : Str) (start : Nat) (inPara : Bool) (t : Nat)
    (h : checkSpecial line (start + 1) = some t) : determineType line start inPara = .ok (some (t, [])) := by
  unfold determineType; rw [h]

theorem determineType_normal_range (line : Str) (start : Nat) (inPara : Bool) (t : Nat) (tag : Str)
    (h : checkSpecial line (start + 1) = none) (hd : determineType line start inPara = .ok (some (t, tag))) :
    t = 1 ∨ t = 6 ∨ t = 7 := by
  unfold determineType at hd
  rw [h] at hd
  simp only at hd
  split at hd
  · cases hd
  · split at hd
    · cases hd
    · cases hd
    · next t' hcn =>
      split at hd
      · cases hd
      · injection hd with hd; injection hd with hd
        have : t' = t := congrArg Prod.fst hd
        subst this
        exact checkNormal_range _ _ _ _ hcn

/-! ## the specification side -/

/-- conditions 2–5 begin with `!` or `?`, condition 1 with a letter -/
theorem cond1_excl (r : Str) (h : (cond2 r || cond3 r || cond4 gfm029 r || cond5 r) = true) :
    cond1 gfm029 r = false ∧ cond1 cm031 r = false := by
  cases r with
  | nil => simp [cond2, cond3, cond4, cond5, cdata_toList, List.isPrefixOf] at h
  | cons c s =>
    by_cases hc : c = '!'
    · subst hc; exact ⟨rfl, rfl⟩
    · by_cases hq : c = '?'
      · subst hq; exact ⟨rfl, rfl⟩
      · exfalso
        have hb3 : ('?' == c) = false := by rw [beq_eq_false_iff_ne]; exact fun e => hq e.symm
        have hb4 : ('!' == c) = false := by rw [beq_eq_false_iff_ne]; exact fun e => hc e.symm
        have e4 : cond4 gfm029 (c :: s) = false := by
          unfold cond4
          split
          · next h => injection h with h _; exact absurd h hc
          · rfl
        rw [e4] at h
        simp [cond2, cond3, cond5, cdata_toList, List.isPrefixOf, hb3, hb4] at h

theorem startOfText_special (r : Str) (ip : Bool) (t : Nat) (ht : 2 ≤ t ∧ t ≤ 5) :
    startOfText gfm029 ('<' :: r) ip = some t ↔ checkSpecial r 0 = some t := by
  rw [checkSpecial_closed]
  simp only [startOfText]
  have hx := cond1_excl r
  obtain ⟨h2t, h5t⟩ := ht
  cases h2 : cond2 r <;> cases h3 : cond3 r <;> cases h4 : cond4 gfm029 r <;> cases h5 : cond5 r <;>
    simp only [h2, h3, h4, h5, Bool.or_self, Bool.or_true, Bool.or_false, forall_const] at hx <;>
    (try rw [hx.1]) <;> simp
  · cases h1 : cond1 gfm029 r
    · simp only [Bool.false_eq_true, if_false]
      split
      · simp; omega
      · split <;> simp; omega
    · simp; omega

/-- the conditions 2–5 exclude each other -/
theorem cond_excl (r : Str) :
    (cond3 r = true → cond2 r = false) ∧ (cond4 gfm029 r = true → cond2 r = false ∧ cond3 r = false) ∧
    (cond5 r = true → cond2 r = false ∧ cond3 r = false ∧ cond4 gfm029 r = false) := by
  cases r with
  | nil => decide
  | cons c s =>
    by_cases hc : c = '!'
    · subst hc
      have e3 : cond3 ('!' :: s) = false := rfl
      cases s with
      | nil => decide
      | cons d t =>
        by_cases hd : d = '-'
        · subst hd
          have e4 : cond4 gfm029 ('!' :: '-' :: t) = false := rfl
          have e5 : cond5 ('!' :: '-' :: t) = false := by unfold cond5; rw [cdata_toList]; rfl
          simp [e3, e4, e5]
        · have hb : ('-' == d) = false := by rw [beq_eq_false_iff_ne]; exact fun e => hd e.symm
          have e2 : cond2 ('!' :: d :: t) = false := by simp [cond2, List.isPrefixOf, hb]
          by_cases hk : d = '['
          · subst hk
            have e4 : cond4 gfm029 ('!' :: '[' :: t) = false := rfl
            simp [e2, e3, e4]
          · have hb2 : ('[' == d) = false := by rw [beq_eq_false_iff_ne]; exact fun e => hk e.symm
            have e5 : cond5 ('!' :: d :: t) = false := by
              unfold cond5; rw [cdata_toList]; simp [CDATA_REST, List.isPrefixOf, hb2]
            simp [e2, e3, e5]
    · have hb4 : ('!' == c) = false := by rw [beq_eq_false_iff_ne]; exact fun e => hc e.symm
      have e4 : cond4 gfm029 (c :: s) = false := by
        unfold cond4
        split
        · next h => injection h with h _; exact absurd h hc
        · rfl
      have e2 : cond2 (c :: s) = false := by simp [cond2, List.isPrefixOf, hb4]
      have e5 : cond5 (c :: s) = false := by unfold cond5; rw [cdata_toList]; simp [List.isPrefixOf, hb4]
      simp [e2, e4, e5]

/-- kind by kind: `__check_for_special_html_blocks` answers k iff the specification's start condition k holds -/
theorem checkSpecial_iff (r : Str) :
    (checkSpecial r 0 = some 2 ↔ cond2 r = true) ∧ (checkSpecial r 0 = some 3 ↔ cond3 r = true) ∧
    (checkSpecial r 0 = some 4 ↔ cond4 gfm029 r = true) ∧ (checkSpecial r 0 = some 5 ↔ cond5 r = true) := by
  obtain ⟨x3, x4, x5⟩ := cond_excl r
  rw [checkSpecial_closed]
  cases c2 : cond2 r <;> cases c3 : cond3 r <;> cases c4 : cond4 gfm029 r <;> cases c5 : cond5 r <;>
    simp_all

/-! ## CommonMark 0.31.2 -/

theorem cond5_not_cond4cm (r : Str) (h : cond5 r = true) : cond4 cm031 r = false := by
  unfold cond5 at h
  rw [cdata_toList] at h
  obtain ⟨t, ht⟩ := List.isPrefixOf_iff_prefix.mp h
  subst ht
  rfl

/-- against 0.31.2 the kinds 2, 3, 5 are unchanged (kind 4 is wider there: `html_start_differs_decl_lower`) -/
theorem startOfText_special_cm (r : Str) (ip : Bool) (t : Nat) (ht : t = 2 ∨ t = 3 ∨ t = 5) :
    startOfText cm031 ('<' :: r) ip = some t ↔ checkSpecial r 0 = some t := by
  rw [checkSpecial_closed]
  simp only [startOfText]
  have hx := cond1_excl r
  obtain ⟨x3, x4, x5⟩ := cond_excl r
  have y5 := cond5_not_cond4cm r
  rcases ht with rfl | rfl | rfl <;>
    (cases c1 : cond1 cm031 r <;> cases c2 : cond2 r <;> cases c3 : cond3 r <;> cases c4 : cond4 gfm029 r <;>
      cases c4' : cond4 cm031 r <;> cases c5 : cond5 r <;> simp_all <;> (repeat' split) <;> simp_all)

end Verif.Model.LeafBlocks2
