/-
  Spec equivalence, part 2: `handle_character_reference` against LeanMark's `entityAt` (spec 6.2 entity and numeric
  character references).
-/
import Verif.Lemmas.InlineRecogSpec
namespace Verif.Model.InlineRecog
open Verif.Model.Recognisers
open Verif.Model

/-- a number that `chr()` accepts and that is a Unicode scalar value -/
def CodePointOk (v : Nat) : Prop := v ≤ 0x10FFFF ∧ ¬ (0xD800 ≤ v ∧ v ≤ 0xDFFF)

theorem toNat_ofNat_valid (v : Nat) (h : v.isValidChar) : (Char.ofNat v).toNat = v := by
  simp [Char.ofNat, h, Char.toNat, Char.ofNatAux]

/-- the replacement character of the specification as a code point -/
theorem cpChar_toNat (v : Nat) (h : CodePointOk v) : (LeanMark.cpChar v).toNat = if v = 0 then 0xFFFD else v := by
  unfold LeanMark.cpChar
  obtain ⟨h1, h2⟩ := h
  by_cases h0 : v = 0
  · subst h0; decide
  · have : (v == 0 || decide (v > 1114111) || decide (55296 ≤ v) && decide (v ≤ 57343)) = false := by
      simp [h0]; omega
    rw [this]
    simp only [Bool.false_eq_true, if_false, h0]
    apply toNat_ofNat_valid
    unfold Nat.isValidChar
    omega

theorem parseHex_eq (ds : Str) : parseHex ds = ds.foldl (fun a c => a * 16 + LeanMark.hexDigitVal c) 0 := rfl
theorem parseDec_eq (ds : Str) : parseDec ds = ds.foldl (fun a c => a * 10 + (c.toNat - 48)) 0 := rfl

theorem numericFinish_eq (src ns : Str) (e : Nat) (tr : Int) :
    numericFinish src ns e tr =
      if (decide (0 ≤ tr) && (src[e]? == some ';')) = true then
        (if (tr == 0) = true then .ok ([0xFFFD], e + 1, some (ns ++ [';']))
         else if tr.toNat > 0x10FFFF then .error .value
         else .ok ([tr.toNat], e + 1, some (ns ++ [';'])))
      else .ok (cps ns, e, none) := by
  unfold numericFinish
  rw [guardedIs_char, liftR_ok]

/-- how the specification's answer and the faithful answer are compared -/
def SpecAgree (src : Str) (next : Nat) (r : CharRefRes) (spec : Option (List Char × Nat)) : Prop :=
  match spec with
  | some (rep, n) =>
    r.original = some (slice src next (next + 1 + n)) ∧ r.newCps.map Char.ofNat = rep ∧ r.newIndex = next + 1 + n
  | none => r.original = none ∧ r.newCps = cps (slice src next r.newIndex)

/-! index ↔ list -/

theorem getElem?_after (src : Str) (a k : Nat) : src[a + k]? = (src.drop a)[k]? := by
  rw [List.getElem?_drop]

theorem scanTo_after (src : Str) (p : Char → Bool) (a k : Nat) :
    scanTo src p (a + k) = a + k + (((src.drop a).drop k).takeWhile p).length := by
  unfold scanTo; rw [List.drop_drop]

theorem slice_scan_after (src : Str) (p : Char → Bool) (a k : Nat) :
    slice src (a + k) (scanTo src p (a + k)) = ((src.drop a).drop k).takeWhile p := by
  rw [slice_scan, List.drop_drop]

theorem head?_drop_eq (l : Str) (k : Nat) : (l.drop k).head? = l[k]? := by rw [List.head?_drop]

/-- the named form -/
theorem named_spec (src : Str) (next : Nat) (hl : next < src.length) (hc : src[next] = '&')
    (hnum : (src.drop (next + 1)).head? ≠ some '#') :
    ∃ r, namedReference src (next + 1) = .ok r ∧ SpecAgree src next r (LeanMark.entityAt (src.drop (next + 1))) := by
  generalize hs : src.drop (next + 1) = s at hnum
  have hentity : LeanMark.entityAt s =
      (let nm := s.takeWhile LeanMark.isAlnum
       if nm.isEmpty then none else
       if (s.drop nm.length).head? == some ';' then
         match Verif.Gen.Entities.lookup nm with
         | some cps => some (cps.map Char.ofNat, nm.length + 1)
         | none => none
       else none) := by
    unfold LeanMark.entityAt
    split
    · next r => simp at hnum
    · rfl
  rw [hentity]
  unfold namedReference
  rw [collectWhileOneOf_eq, liftR_ok]
  simp only [show next + 1 ≤ src.length by omega, if_true]
  have hscan : scanTo src (asciiLetters ++ digitChars).contains (next + 1) =
      next + 1 + (s.takeWhile LeanMark.isAlnum).length := by
    rw [scanTo_congr alnum_eq]; unfold scanTo; rw [hs]
  have hslice : slice src (next + 1) (scanTo src (asciiLetters ++ digitChars).contains (next + 1)) =
      s.takeWhile LeanMark.isAlnum := by
    rw [slice_scan, hs, takeWhile_congr alnum_eq]
  rw [hslice, hscan]
  generalize hnm : s.takeWhile LeanMark.isAlnum = nm
  have hone : cps (slice src next (next + 1)) = ['&'.toNat] := by rw [slice_one hl, hc]; rfl
  have hnmle : next + 1 + nm.length ≤ src.length := by
    have := takeWhile_length_le LeanMark.isAlnum s
    rw [hnm, ← hs, List.length_drop] at this; omega
  have hname : '&' :: nm = slice src next (next + 1 + nm.length) := by
    rw [← slice_cons' hl hc (by omega) hnmle]
    congr 1
    rw [← slice_drop_take, hs, ← hnm, take_takeWhile_length]
  by_cases hemp : nm.isEmpty = true
  · simp only [hemp, if_true]
    exact ⟨_, rfl, rfl, hone.symm⟩
  · simp only [hemp, Bool.false_eq_true, if_false]
    rw [guardedIs_char, liftR_ok]
    have hsemi : src[next + 1 + nm.length]? = (s.drop nm.length).head? := by
      rw [head?_drop_eq, ← hs, getElem?_after]
    rw [hsemi]
    cases hsc : ((s.drop nm.length).head? == some ';')
    case false =>
      simp only [Bool.false_eq_true, if_false]
      refine ⟨_, rfl, rfl, ?_⟩
      simp only; rw [hname]
    case true =>
      simp only [if_true]
      have hsl : next + 1 + nm.length < src.length := by
        have : src[next + 1 + nm.length]? = some ';' := by rw [hsemi]; simpa using hsc
        by_cases hh : next + 1 + nm.length < src.length
        · exact hh
        · rw [List.getElem?_eq_none (by omega)] at this; cases this
      have hsemic : src[next + 1 + nm.length] = ';' := by
        have : src[next + 1 + nm.length]? = some ';' := by rw [hsemi]; simpa using hsc
        rw [List.getElem?_eq_getElem hsl] at this; injection this
      have hfull : '&' :: nm ++ [';'] = slice src next (next + 1 + (nm.length + 1)) := by
        rw [show next + 1 + (nm.length + 1) = (next + 1 + nm.length) + 1 by omega, slice_snoc (by omega) hsl, hsemic, ← hname]
      cases hlook : Verif.Gen.Entities.lookup nm with
      | some cp =>
        simp only
        exact ⟨_, rfl, by simp only; rw [hfull], rfl, rfl⟩
      | none =>
        simp only
        refine ⟨_, rfl, rfl, ?_⟩
        simp only; rw [hfull]
        congr 2

/-- the `;` step against the specification's condition -/
theorem finish_agree (src : Str) (next e : Nat) (ns : Str) (okLen : Bool) (v : Nat) (hv : CodePointOk v)
    (hns : ns = slice src next e) (hne : next ≤ e) :
    ∃ cp ni orig, numericFinish src ns e (if okLen then (v : Int) else -1) = .ok (cp, ni, orig) ∧
      (if (okLen && (src[e]? == some ';')) = true then
        orig = some (slice src next (e + 1)) ∧ cp.map Char.ofNat = [LeanMark.cpChar v] ∧ ni = e + 1
       else orig = none ∧ cp = cps (slice src next ni) ∧ ni = e) := by
  rw [numericFinish_eq]
  cases okLen
  case false =>
    have : (decide ((0 : Int) ≤ (if false = true then (v : Int) else -1)) && (src[e]? == some ';')) = false := by simp
    rw [this]
    simp only [Bool.false_eq_true, if_false, Bool.false_and]
    exact ⟨_, _, _, rfl, rfl, by rw [hns], rfl⟩
  case true =>
    simp only [if_true, Bool.true_and]
    have h0 : decide ((0 : Int) ≤ (v : Int)) = true := by simp
    rw [h0, Bool.true_and]
    cases hsemi : (src[e]? == some ';')
    case false =>
      simp only [Bool.false_eq_true, if_false]
      exact ⟨_, _, _, rfl, rfl, by rw [hns], rfl⟩
    case true =>
      simp only [if_true]
      have h1 : src[e]? = some ';' := by simpa using hsemi
      have hel : e < src.length := by
        by_cases hh : e < src.length
        · exact hh
        · rw [List.getElem?_eq_none (by omega)] at h1; cases h1
      rw [List.getElem?_eq_getElem hel] at h1
      injection h1 with h1
      have horig : ns ++ [';'] = slice src next (e + 1) := by rw [slice_snoc hne hel, h1, hns]
      have hcp := cpChar_toNat v hv
      by_cases hz : v = 0
      · subst hz
        simp only [Int.natCast_zero, beq_self_eq_true, if_true]
        refine ⟨_, _, _, rfl, by rw [horig], ?_, rfl⟩
        decide
      · have hz' : (((v : Nat) : Int) == 0) = false := by simp; omega
        rw [hz']
        simp only [Bool.false_eq_true, if_false, Int.toNat_natCast]
        have hle : ¬ v > 0x10FFFF := by have := hv.1; omega
        simp only [hle, if_false]
        refine ⟨_, _, _, rfl, by rw [horig], ?_, rfl⟩
        simp only [List.map_cons, List.map_nil]
        congr 1
        rw [if_neg hz] at hcp
        exact (char_eq_of_toNat (by rw [hcp, toNat_ofNat_valid]; unfold Nat.isValidChar; have := hv.1; have := hv.2; omega)).symm

/-- the numeric forms -/
theorem numeric_spec (src : Str) (next : Nat) (hl : next < src.length) (hc : src[next] = '&')
    (hnum : (src.drop (next + 1)).head? = some '#')
    (hdec : CodePointOk (parseDec ((src.drop (next + 2)).takeWhile LeanMark.isDigit)))
    (hhex : CodePointOk (parseHex ((src.drop (next + 3)).takeWhile LeanMark.isHexDigit))) :
    ∃ r, handleCharacterReference src next = .ok r ∧ SpecAgree src next r (LeanMark.entityAt (src.drop (next + 1))) := by
  have h1 : src[next + 1]? = some '#' := by rw [← head?_drop_eq]; simpa using hnum
  have hl1 : next + 1 < src.length := by
    by_cases hh : next + 1 < src.length
    · exact hh
    · rw [List.getElem?_eq_none (by omega)] at h1; cases h1
  have hhash : src[next + 1] = '#' := by rw [List.getElem?_eq_getElem hl1] at h1; injection h1
  have hs : src.drop (next + 1) = '#' :: src.drop (next + 2) := by rw [List.drop_eq_getElem_cons hl1, hhash]
  have hamp : ∀ e, next + 1 < e → e ≤ src.length → ∀ t, '#' :: t = slice src (next + 1) e → '&' :: '#' :: t = slice src next e := by
    intro e h1 h2 t ht
    rw [ht, slice_cons' hl hc (by omega) h2]
  unfold handleCharacterReference
  simp only
  rw [guardedIs_char, liftR_ok, h1]
  simp only [beq_self_eq_true]
  unfold numericInner
  simp only
  rw [guardedIs_eq, liftR_ok, hs]
  simp only
  cases hx : src[next + 1 + 1]? with
  | none =>
    -- `&#` ends the text
    have hlen : src.length = next + 2 := by
      have := List.getElem?_eq_none_iff.mp hx; omega
    have hr : src.drop (next + 2) = [] := List.drop_eq_nil_of_le (by omega)
    simp only [Bool.false_eq_true, if_false]
    rw [numericDec_eq _ _ (by omega), liftR_ok]
    simp only
    have he : scanTo src digitChars.contains (next + 1 + 1) = next + 2 := by
      unfold scanTo; rw [show next + 1 + 1 = next + 2 by omega, hr]; rfl
    rw [he]
    have hsl : slice src (next + 1 + 1) (next + 2) = [] := slice_self _ _
    rw [hsl]
    obtain ⟨cp, ni, orig, hfin, hag⟩ := finish_agree src next (next + 2) ('&' :: '#' :: []) (decide (1 ≤ next + 2 - (next + 1 + 1)) && decide (next + 2 - (next + 1 + 1) ≤ 7))
      (parseDec []) (by unfold CodePointOk; decide)
      (by rw [← hamp (next + 2) (by omega) (by omega) [] (by rw [slice_one hl1, hhash])]) (by omega)
    rw [hfin]
    have hok : (decide (1 ≤ next + 2 - (next + 1 + 1)) && decide (next + 2 - (next + 1 + 1) ≤ 7)) = false := by
      have : next + 2 - (next + 1 + 1) = 0 := by omega
      rw [this]; rfl
    rw [hok] at hag
    simp only [Bool.false_and, Bool.false_eq_true, if_false] at hag
    refine ⟨_, rfl, ?_⟩
    rw [hr]
    simp only [LeanMark.entityAt, SpecAgree]
    obtain ⟨a, b, c⟩ := hag
    subst c
    exact ⟨a, b⟩
  | some x =>
    have hl2 : next + 2 < src.length := by
      by_cases hh : next + 2 < src.length
      · exact hh
      · rw [List.getElem?_eq_none (by omega)] at hx; cases hx
    have hx' : src[next + 2] = x := by
      rw [show next + 1 + 1 = next + 2 by omega, List.getElem?_eq_getElem hl2] at hx; injection hx
    have hr : src.drop (next + 2) = x :: src.drop (next + 3) := by rw [List.drop_eq_getElem_cons hl2, hx']
    rw [hr]
    simp only
    by_cases hxx : ['x', 'X'].contains x = true
    · -- hexadecimal
      have hcc : ['x', 'X'].contains x = (x == 'x' || x == 'X') := by
        rw [List.contains_cons, List.contains_cons, List.contains_nil, Bool.or_false]
      have hcond : (x == 'x' || x == 'X') = true := by rw [← hcc]; exact hxx
      simp only [hxx, if_true]
      rw [numericHex_eq _ _ (by omega), liftR_ok]
      simp only
      have hds : slice src (next + 1 + 1 + 1) (scanTo src hexDigitChars.contains (next + 1 + 1 + 1)) =
          (src.drop (next + 3)).takeWhile LeanMark.isHexDigit := by
        rw [slice_scan, takeWhile_congr hexDigitChars_eq]
      have he : scanTo src hexDigitChars.contains (next + 1 + 1 + 1) =
          next + 3 + ((src.drop (next + 3)).takeWhile LeanMark.isHexDigit).length := by
        rw [scanTo_congr hexDigitChars_eq]; unfold scanTo; rfl
      rw [hds, he]
      generalize hdsg : (src.drop (next + 3)).takeWhile LeanMark.isHexDigit = ds at hhex
      have hdle : next + 3 + ds.length ≤ src.length := by
        have := takeWhile_length_le LeanMark.isHexDigit (src.drop (next + 3))
        rw [hdsg, List.length_drop] at this; omega
      have hdsl : ds = slice src (next + 3) (next + 3 + ds.length) := by
        rw [← slice_drop_take, ← hdsg, take_takeWhile_length]
      have hns : '&' :: '#' :: src[next + 1 + 1] :: ds = slice src next (next + 3 + ds.length) := by
        apply hamp _ (by omega) hdle
        rw [← slice_cons' hl1 hhash (by omega) hdle]
        congr 1
        rw [← slice_cons' (show next + 1 + 1 < src.length by omega) rfl (by omega) hdle]
        congr 1
      obtain ⟨cp, ni, orig, hfin, hag⟩ := finish_agree src next (next + 3 + ds.length) _
        (decide (1 ≤ next + 3 + ds.length - (next + 1 + 1 + 1)) && decide (next + 3 + ds.length - (next + 1 + 1 + 1) ≤ 6))
        (parseHex ds) hhex hns (by omega)
      rw [hfin]
      refine ⟨_, rfl, ?_⟩
      simp only [LeanMark.entityAt, hcond, if_true, hdsg]
      have hlen : next + 3 + ds.length - (next + 1 + 1 + 1) = ds.length := by omega
      rw [hlen] at hag
      have hsemi : src[next + 3 + ds.length]? = ((src.drop (next + 3)).drop ds.length).head? := by
        rw [head?_drop_eq, getElem?_after]
      rw [hsemi] at hag
      by_cases hc2 : (decide (1 ≤ ds.length) && decide (ds.length ≤ 6) && (((src.drop (next + 3)).drop ds.length).head? == some ';')) = true
      · rw [if_pos hc2] at hag
        rw [if_pos hc2]
        simp only [SpecAgree]
        obtain ⟨a, b, c⟩ := hag
        refine ⟨?_, ?_, ?_⟩
        · rw [a]; congr 2; omega
        · rw [b, parseHex_eq]
        · rw [c]; omega
      · rw [if_neg hc2] at hag
        rw [if_neg hc2]
        simp only [SpecAgree]
        obtain ⟨a, b, c⟩ := hag
        subst c
        exact ⟨a, b⟩
    · -- decimal
      have hcc : ['x', 'X'].contains x = (x == 'x' || x == 'X') := by
        rw [List.contains_cons, List.contains_cons, List.contains_nil, Bool.or_false]
      have hcond : (x == 'x' || x == 'X') = false := by
        rw [← hcc]; cases hh : ['x', 'X'].contains x with
        | false => rfl
        | true => exact absurd hh hxx
      simp only [hxx, Bool.false_eq_true, if_false]
      rw [numericDec_eq _ _ (by omega), liftR_ok]
      simp only
      have hds : slice src (next + 1 + 1) (scanTo src digitChars.contains (next + 1 + 1)) =
          (src.drop (next + 2)).takeWhile LeanMark.isDigit := by
        rw [slice_scan, takeWhile_congr digitChars_eq]
      have he : scanTo src digitChars.contains (next + 1 + 1) =
          next + 2 + ((src.drop (next + 2)).takeWhile LeanMark.isDigit).length := by
        rw [scanTo_congr digitChars_eq]; unfold scanTo; rfl
      rw [hds, he]
      generalize hdsg : (src.drop (next + 2)).takeWhile LeanMark.isDigit = ds at hdec
      have hdle : next + 2 + ds.length ≤ src.length := by
        have := takeWhile_length_le LeanMark.isDigit (src.drop (next + 2))
        rw [hdsg, List.length_drop] at this; omega
      have hdsl : ds = slice src (next + 2) (next + 2 + ds.length) := by
        rw [← slice_drop_take, ← hdsg, take_takeWhile_length]
      have hns : '&' :: '#' :: ds = slice src next (next + 2 + ds.length) := by
        apply hamp _ (by omega) hdle
        rw [← slice_cons' hl1 hhash (by omega) hdle]
        congr 1
      obtain ⟨cp, ni, orig, hfin, hag⟩ := finish_agree src next (next + 2 + ds.length) _
        (decide (1 ≤ next + 2 + ds.length - (next + 1 + 1)) && decide (next + 2 + ds.length - (next + 1 + 1) ≤ 7))
        (parseDec ds) hdec hns (by omega)
      rw [hfin]
      refine ⟨_, rfl, ?_⟩
      simp only [LeanMark.entityAt, hcond, Bool.false_eq_true, if_false]
      rw [← hr, hdsg]
      have hlen : next + 2 + ds.length - (next + 1 + 1) = ds.length := by omega
      rw [hlen] at hag
      have hsemi : src[next + 2 + ds.length]? = ((src.drop (next + 2)).drop ds.length).head? := by
        rw [head?_drop_eq, getElem?_after]
      rw [hsemi] at hag
      by_cases hc2 : (decide (1 ≤ ds.length) && decide (ds.length ≤ 7) && (((src.drop (next + 2)).drop ds.length).head? == some ';')) = true
      · rw [if_pos hc2] at hag
        rw [if_pos hc2]
        simp only [SpecAgree]
        obtain ⟨a, b, c⟩ := hag
        refine ⟨?_, ?_, ?_⟩
        · rw [a]; congr 2; omega
        · rw [b, parseDec_eq]
        · rw [c]; omega
      · rw [if_neg hc2] at hag
        rw [if_neg hc2]
        simp only [SpecAgree]
        obtain ⟨a, b, c⟩ := hag
        subst c
        exact ⟨a, b⟩

/-- `handle_character_reference` = the specification's entity / numeric character reference, whenever the digits of a numeric
reference denote a Unicode scalar value (≤ U+10FFFF, not a surrogate) -/
theorem charref_spec (src : Str) (next : Nat) (hl : next < src.length) (hc : src[next] = '&')
    (hdec : CodePointOk (parseDec ((src.drop (next + 2)).takeWhile LeanMark.isDigit)))
    (hhex : CodePointOk (parseHex ((src.drop (next + 3)).takeWhile LeanMark.isHexDigit))) :
    ∃ r, handleCharacterReference src next = .ok r ∧ SpecAgree src next r (LeanMark.entityAt (src.drop (next + 1))) := by
  by_cases hnum : (src.drop (next + 1)).head? = some '#'
  · exact numeric_spec src next hl hc hnum hdec hhex
  · obtain ⟨r, hr, hag⟩ := named_spec src next hl hc hnum
    refine ⟨r, ?_, hag⟩
    unfold handleCharacterReference
    simp only
    rw [guardedIs_char, liftR_ok]
    have : (src[next + 1]? == some '#') = false := by
      rw [← head?_drop_eq] at *
      simpa using hnum
    rw [this]
    exact hr

/-- the excluded points are real: a surrogate is passed through (the specification wants U+FFFD) … -/
theorem charref_spec_excluded_surrogate :
    handleCharacterReference ['&', '#', 'x', 'D', '8', '0', '0', ';'] 0 =
      .ok ⟨[0xD800], 8, some ['&', '#', 'x', 'D', '8', '0', '0', ';'], some ['&', '#', 'x', 'D', '8', '0', '0', ';']⟩ ∧
    LeanMark.entityAt ['#', 'x', 'D', '8', '0', '0', ';'] = some ([Char.ofNat 0xFFFD], 7) := by
  constructor
  · unfold handleCharacterReference numericInner numericFinish
    simp only [guardedIs_eq, liftR_ok]
    rw [numericHex_eq _ _ (by decide), numericDec_eq _ _ (by decide)]
    decide
  · decide

end Verif.Model.InlineRecog
