/-
  List looseness, part C: the looseness loop over the children of a flat list computes the specification's fold.
-/
import Verif.Lemmas.GfmLooseB
namespace Verif.Lemmas.GfmLoose
open Verif.Model.GfmRender Verif.Model.GfmSpec Verif.Lemmas.GfmBasic
open Verif.Model.WellFormed (Cls)

@[simp] theorem pk_beq (a b : PK) : (a == b) = decide (a = b) := by cases a <;> cases b <;> rfl
@[simp] theorem pk_bne (a b : PK) : (a != b) = !decide (a = b) := by cases a <;> cases b <;> rfl

/-- the specification's scanning state, from what the loop has behind it -/
def lsOf (pk : PK) (nb : Nat) : LS :=
  ⟨pk != .block && nb == 0, pk == .block, pk == .block && decide (1 ≤ nb),
   (pk == .block && decide (1 ≤ nb)) || decide (2 ≤ nb)⟩

/-- number of BLANK children the list of children begins with -/
def leadBlanks : List Node → Nat
  | [] => 0
  | n :: ns => if n.tok.isBlank then leadBlanks ns + 1 else 0

/-! ### the specification's fold, one child at a time -/

theorem looseKids_li {n : Node} (ns : List Node) (pk : PK) (nb : Nat) (h1 : n.tok.isLrd = false)
    (h2 : n.tok.isLi = true) :
    looseKids (n :: ns) (lsOf pk nb) =
      if (decide (1 ≤ nb) && !(nb == 1 && pk != .block)) = true then true else looseKids ns (lsOf .li 0) := by
  have e : lsOf .li 0 = {} := rfl
  rw [e]
  simp only [looseKids, h1, h2, Bool.false_eq_true, if_false, if_true, lsOf]
  cases pk <;> rcases nb with _ | _ | nb <;> simp

theorem looseKids_blank {n : Node} (ns : List Node) (pk : PK) (nb : Nat) (h1 : n.tok.isLrd = false)
    (h2 : n.tok.isLi = false) (h3 : n.tok.isBlank = true) :
    looseKids (n :: ns) (lsOf pk nb) = looseKids ns (lsOf pk (nb + 1)) := by
  simp only [looseKids, h1, h2, h3, Bool.false_eq_true, if_false, if_true, lsOf]
  cases pk <;> rcases nb with _ | _ | nb <;> simp

theorem looseKids_block {n : Node} (ns : List Node) (pk : PK) (nb : Nat) (h1 : n.tok.isLrd = false)
    (h2 : n.tok.isLi = false) (h3 : n.tok.isBlank = false) (h4 : n.trailingBlank = none) :
    looseKids (n :: ns) (lsOf pk nb) =
      if ((lsOf pk nb).seenBlock && (lsOf pk nb).gap) = true then true else looseKids ns (lsOf .block 0) := by
  have e : lsOf .block 0 = ⟨false, true, false, false⟩ := rfl
  rw [e]
  simp only [looseKids, h1, h2, h3, h4, Bool.false_eq_true, if_false, Option.isSome_none]

theorem cond_block (pk : PK) (nb : Nat) (h : pk = .start → nb ≤ 1) :
    (decide (1 ≤ nb) && (pk != .li) && (decide (1 ≤ nb) && !(nb == 1 && pk != .block))) =
      ((lsOf pk nb).seenBlock && (lsOf pk nb).gap) := by
  cases pk with
  | start =>
    have := h rfl
    rcases nb with _ | _ | nb
    · simp [lsOf]
    · simp [lsOf]
    · omega
  | li => simp [lsOf]
  | block => rcases nb with _ | _ | nb <;> simp [lsOf]

theorem trailingBlank_leaf {j : Nat} {t : Tok} (h : t.isBlank = false) : (Node.leaf j t).trailingBlank = none := by
  simp [Node.trailingBlank, h]

theorem trailingBlank_leafBlock {j : Nat} {s e : Tok} {ks : List Node} (h1 : s.isListStart = false)
    (h2 : s.isBqStart = false) : (Node.node j s ks e).trailingBlank = none := by
  obtain ⟨l, b⟩ := s
  cases b <;> simp_all [Node.trailingBlank, Tok.isBqStart, Tok.isKind, Tok.kind?, Body.kind?]


/-! ### what stands directly inside a list -/

theorem atom_kinds {k k' : Kind} (hk : k = .ulist ∨ k = .olist) (ha : atomOK (some k) k' = true)
    (hs : Kind.isStart k' = false) : k' = .li ∨ k' = .blank ∨ k' = .tbreak ∨ k' = .lrd ∨ k' = .frontMatter := by
  rcases hk with rfl | rfl <;> cases k' <;>
    simp_all [atomOK, Kind.isStart, Kind.cls, Kind.requiresEnd, blockCtx, inlineCtx, listCtx]

theorem node_kinds {k k' : Kind} (hk : k = .ulist ∨ k = .olist) (ha : startOK (some k) k' = true)
    (hs : Kind.isStart k' = true) (h1 : (k' == .ulist || k' == .olist) = false) (h2 : (k' == .bquote) = false) :
    k' = .para ∨ k' = .atx ∨ k' = .setext ∨ k' = .htmlBlock ∨ k' = .fcode ∨ k' = .icode := by
  rcases hk with rfl | rfl <;> cases k' <;>
    simp_all [startOK, Kind.isStart, Kind.cls, Kind.requiresEnd, blockCtx, inlineCtx]

theorem atom_quiet {t : Tok} {k' : Kind} (hk : t.kind? = some k') (hs : Kind.isStart k' = false) : quiet t = true := by
  obtain ⟨h1, h2, h3, h4, _⟩ := tests_of_kind hk
  simp only [quiet, h1, h2, h3, h4]
  cases k' <;> simp_all [Kind.isStart, Kind.requiresEnd]

theorem quiet_of_inl {t : Tok} (h : inl t = true) : quiet t = true := by
  simp only [inl, Bool.and_eq_true] at h
  exact h.1.1.1

/-- no token between the start and the end of a flat list opens or closes a container -/
theorem flat_quiet {k : Kind} (hk : k = .ulist ∨ k = .olist) {par : Option Kind} {j : Nat} {seg : List Tok}
    {ns : List Node} (h : GTree par j seg ns) :
    par = some k → (∀ n ∈ ns, n.tok.isListStart = false ∧ n.tok.isBqStart = false) → ∀ t ∈ seg, quiet t = true := by
  induction h with
  | nil => intro _ _ t ht; simp at ht
  | @atom par j t k' rest0 ns hk' hst ha _ ih =>
    intro hpar hflat u hu
    obtain ⟨_, hflat'⟩ := List.forall_mem_cons.mp hflat
    rcases List.mem_cons.mp hu with rfl | hu
    · exact atom_quiet hk' hst
    · exact ih hpar hflat' u hu
  | @node par j s0 k0 body0 e0 f0 rest0 ks ns hk0 hst ho hb he0 _ _ ih =>
    intro hpar hflat u hu
    subst hpar
    obtain ⟨hflat0, hflat'⟩ := List.forall_mem_cons.mp hflat
    simp only [Node.tok] at hflat0
    obtain ⟨t1, t2, t3, t4, _⟩ := tests_of_kind hk0
    have hkinds := node_kinds hk ho hst (by rw [← t1]; exact hflat0.1) (by rw [← t2]; exact hflat0.2)
    have hcls : k0.cls = .leaf := by rcases hkinds with rfl | rfl | rfl | rfl | rfl | rfl <;> rfl
    rcases List.mem_cons.mp hu with rfl | hu
    · simp [quiet, hflat0.1, hflat0.2, t3, t4]
    · rcases List.mem_append.mp hu with hu | hu
      · exact quiet_of_inl (gtree_inline hb (by simp [inlineCtx, hcls]) u hu)
      · rcases List.mem_cons.mp hu with rfl | hu
        · exact quiet_of_inl (inl_of_inline_end he0 (Or.inr hcls))
        · exact ih rfl hflat' u hu

/-! ### the loop over the children -/

theorem calc_flat {ts : List Tok} {i E p : Nat} {s e : Tok} {rest : List Tok} {k : Kind} {f : Bool}
    (hs : ts[i]? = some s) (hsl : s.isListStart = true) (hk : k = .ulist ∨ k = .olist)
    (heb : e.body = .end_ k p f)
    (hRL : ∀ m, i < m → m ≤ E → reallyLooseLoop ts m 0 = .ok true)
    (hFM : ∀ m t, ts[m]? = some t → t.isKind .frontMatter = true → m = 0) :
    ∀ {par : Option Kind} {j : Nat} {seg : List Tok} {ns : List Node}, GTree par j seg ns → par = some k →
      ∀ (pk : PK) (nb : Nat), (∀ n ∈ ns, n.tok.isListStart = false ∧ n.tok.isBqStart = false) →
        (∀ n ∈ ns, n.tok.isLrd = false) → ts.drop j = seg ++ e :: rest → j + seg.length = E → i < j →
        Back ts j pk nb → (pk = .start → nb + leadBlanks ns ≤ 1) →
        calcLoop ts (seg ++ e :: rest) j 0 false = .ok (looseKids ns (lsOf pk nb)) := by
  intro par j seg ns h
  induction h with
  | nil =>
    intro _ pk nb _ _ _ _ _ _ _
    obtain ⟨h1, h2, h3, h4, h5, _⟩ := tests_of_end heb
    have h3' : e.isBqEnd = false := by rw [h3]; rcases hk with rfl | rfl <;> rfl
    have h4' : e.isListEnd = true := by rw [h4]; rcases hk with rfl | rfl <;> rfl
    simp only [List.nil_append, calcLoop, forContainers, h1, h2, h3', h4', h5, handleListEnd, Bool.false_eq_true,
      if_false, if_true, beq_self_eq_true, bind, Except.bind, pure, Except.pure, looseKids]
  | @atom par j t k' rest0 ns hk' hst ha _ ih =>
    intro hpar pk nb hflat hnolrd hdrop hlen hij hback hlead
    subst hpar
    obtain ⟨hflat0, hflat'⟩ := List.forall_mem_cons.mp hflat
    obtain ⟨hnolrd0, hnolrd'⟩ := List.forall_mem_cons.mp hnolrd
    simp only [Node.tok] at hflat0 hnolrd0
    obtain ⟨htj, hdrop'⟩ := drop_cons_step (by simpa using hdrop)
    simp only [List.length_cons] at hlen
    have hq := atom_quiet hk' hst
    obtain ⟨t1, t2, t3, t4, t5, t6, t7, t8, t9⟩ := tests_of_kind hk'
    rw [List.cons_append, calcLoop_step hs hsl hij (fun m a b => hRL m a (by omega)) hback t _ hq]
    have hj1 : j + 1 - 1 - 0 = j := by omega
    rcases atom_kinds hk ha hst with rfl | rfl | rfl | rfl | rfl
    · -- li
      have hli : t.isLi = true := by rw [t5]; rfl
      have hbl : t.isBlank = false := by rw [t6]; rfl
      rw [looseKids_li (n := .leaf j t) _ _ _ hnolrd0 hli]
      simp only [hli, Bool.true_or, Bool.true_and]
      split
      · rfl
      · refine ih rfl .li 0 hflat' hnolrd' hdrop' (by omega) (by omega) ?_ (by intro h; cases h)
        exact ⟨by omega, fun m a b => by omega, t, by rw [hj1]; exact htj, hbl, hnolrd0, hli⟩
    · -- blank
      have hli : t.isLi = false := by rw [t5]; rfl
      have hbl : t.isBlank = true := by rw [t6]; rfl
      have hbk : t.isBlock = false := by rw [t9]; rfl
      rw [looseKids_blank (n := .leaf j t) _ _ _ hnolrd0 hli hbl]
      simp only [hli, hbk, Bool.false_or, Bool.and_false, Bool.false_and, Bool.false_eq_true, if_false]
      obtain ⟨b1, b2, q, b3, b4, b5, b6⟩ := hback
      refine ih rfl pk (nb + 1) hflat' hnolrd' hdrop' (by omega) (by omega) ?_ ?_
      · refine ⟨by omega, ?_, q, ?_, b4, b5, b6⟩
        · intro m hm1 hm2
          by_cases hmj : m = j
          · subst hmj; exact ⟨t, htj, hbl⟩
          · exact b2 m (by omega) (by omega)
        · have : j + 1 - 1 - (nb + 1) = j - 1 - nb := by omega
          rw [this]; exact b3
      · intro hp
        have := hlead hp
        simp only [leadBlanks, Node.tok, hbl, if_true] at this
        omega
    · -- tbreak
      have hli : t.isLi = false := by rw [t5]; rfl
      have hbl : t.isBlank = false := by rw [t6]; rfl
      have hbk : t.isBlock = true := by rw [t9]; rfl
      have het : t.isEndToken = false := by rw [t8]; rfl
      have hls : t.isListStart = false := hflat0.1
      rw [looseKids_block (n := .leaf j t) _ _ _ hnolrd0 hli hbl (trailingBlank_leaf hbl)]
      simp only [hli, hbk, hnolrd0, Bool.false_or, Bool.and_true, Bool.not_false]
      rw [cond_block pk nb (fun hp => by have := hlead hp; omega)]
      split
      · rfl
      · refine ih rfl .block 0 hflat' hnolrd' hdrop' (by omega) (by omega) ?_ (by intro h; cases h)
        exact ⟨by omega, fun m a b => by omega, t, by rw [hj1]; exact htj, hbl, hnolrd0, hli, hls,
          Or.inl ⟨het, hbk⟩⟩
    · -- lrd
      rw [t7] at hnolrd0; cases hnolrd0
    · -- front matter
      have := hFM j t htj (by rw [isKind_of_kind hk']; rfl)
      omega
  | @node par j s0 k0 body0 e0 f0 rest0 ks ns hk0 hst ho hb he0 _ _ ih =>
    intro hpar pk nb hflat hnolrd hdrop hlen hij hback hlead
    subst hpar
    obtain ⟨hflat0, hflat'⟩ := List.forall_mem_cons.mp hflat
    obtain ⟨hnolrd0, hnolrd'⟩ := List.forall_mem_cons.mp hnolrd
    simp only [Node.tok] at hflat0 hnolrd0
    obtain ⟨t1, t2, t3, t4, t5, t6, t7, t8, t9⟩ := tests_of_kind hk0
    have hq : quiet s0 = true := by simp [quiet, hflat0.1, hflat0.2, t3, t4]
    have hkinds := node_kinds hk ho hst (by rw [← t1]; exact hflat0.1) (by rw [← t2]; exact hflat0.2)
    have hcls : k0.cls = .leaf := by rcases hkinds with rfl | rfl | rfl | rfl | rfl | rfl <;> rfl
    have hli : s0.isLi = false := by rw [t5]; rcases hkinds with rfl | rfl | rfl | rfl | rfl | rfl <;> rfl
    have hbl : s0.isBlank = false := by rw [t6]; rcases hkinds with rfl | rfl | rfl | rfl | rfl | rfl <;> rfl
    have hbk : s0.isBlock = true := by rw [t9]; rcases hkinds with rfl | rfl | rfl | rfl | rfl | rfl <;> rfl
    have hdrop0 : ts.drop j = s0 :: ((body0 ++ [e0]) ++ (rest0 ++ e :: rest)) := by simpa using hdrop
    obtain ⟨htj, hdrop1⟩ := drop_cons_step hdrop0
    have hdrop2 := drop_append_step _ _ hdrop1
    have hlen2 : (body0 ++ [e0]).length = body0.length + 1 := by simp
    have eidx : j + 1 + (body0 ++ [e0]).length = j + 1 + body0.length + 1 := by rw [hlen2]; omega
    rw [eidx] at hdrop2
    have hseg : (s0 :: (body0 ++ e0 :: rest0)) ++ e :: rest = s0 :: ((body0 ++ [e0]) ++ (rest0 ++ e :: rest)) := by
      simp
    rw [hseg, calcLoop_step hs hsl hij (fun m a b => hRL m a (by omega)) hback s0 _ hq]
    rw [looseKids_block (n := .node j s0 ks e0) _ _ _ hnolrd0 hli hbl (trailingBlank_leafBlock hflat0.1 hflat0.2)]
    simp only [hli, hbk, hnolrd0, Bool.false_or, Bool.and_true, Bool.not_false]
    rw [cond_block pk nb (fun hp => by have := hlead hp; omega)]
    split
    · rfl
    · have hinl : ∀ t ∈ body0 ++ [e0], inl t = true := by
        intro t ht
        rcases List.mem_append.mp ht with ht | ht
        · exact gtree_inline hb (by simp [inlineCtx, hcls]) t ht
        · simp only [List.mem_singleton] at ht
          subst ht
          exact inl_of_inline_end he0 (Or.inr hcls)
      rw [calcLoop_skipMany _ _ (j + 1) s0 hinl (by omega) (by simpa using htj) hbl hdrop1, eidx]
      simp only [List.length_cons, List.length_append] at hlen
      have he0j : ts[j + 1 + body0.length]? = some e0 := by
        rw [getElem?_of_drop hdrop1 body0.length]
        simp
      obtain ⟨u1, u2, u3, u4, u5, u6, u7, u8, u9⟩ := tests_of_end he0
      refine ih rfl .block 0 hflat' hnolrd' hdrop2 (by omega) (by omega) ?_ (by intro h; cases h)
      refine ⟨by omega, fun m a b => by omega, e0, ?_, u6, u7, u5, u1, Or.inr ⟨k0, j, f0, s0, he0, htj, hbk, hnolrd0⟩⟩
      have : j + 1 + body0.length + 1 - 1 - 0 = j + 1 + body0.length := by omega
      rw [this]; exact he0j

end Verif.Lemmas.GfmLoose
