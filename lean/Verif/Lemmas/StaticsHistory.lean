/-
  Why the three-way classification of long-lived state (constant / reset per document / exception
  that no output reads) gives history independence.

  The process state is a valuation of keys.  Processing one document is: re-initialise the `reset`
  keys, then run an arbitrary body.  About the body only two things are assumed:
    * it never changes a `const` key                                    (`PreservesConst`)
    * its output does not depend on the values of the `exc` keys        (`OutputIgnores`)
  and about the keys: every key is const, reset or exc                  (`Covered`).
  Then the output for a document is the same after any history of documents as from the
  initial state.
-/
namespace Verif.Lemmas.StaticsHistory

variable {K V D O : Type} [DecidableEq K]

structure Shell (K V D O : Type) where
  constK : List K
  resetK : List K
  excK   : List K
  init   : K → V                          -- the value a reset key is re-bound to
  body   : (K → V) → D → (K → V) × O      -- everything else that happens for one document

namespace Shell
variable (sh : Shell K V D O)

def reset (s : K → V) : K → V := fun k => if k ∈ sh.resetK then sh.init k else s k

/-- One document: per-document initialisation, then the body. -/
def doc (s : K → V) (d : D) : (K → V) × O := sh.body (sh.reset s) d

/-- A whole history of documents; the state after it. -/
def after (s : K → V) : List D → (K → V)
  | [] => s
  | d :: ds => after (sh.doc s d).1 ds

def Covered : Prop := ∀ k, k ∈ sh.constK ∨ k ∈ sh.resetK ∨ k ∈ sh.excK
def PreservesConst : Prop := ∀ s d k, k ∈ sh.constK → (sh.body s d).1 k = s k
def OutputIgnores : Prop := ∀ s s' d, (∀ k, k ∉ sh.excK → s k = s' k) → (sh.body s d).2 = (sh.body s' d).2

theorem after_const (hp : sh.PreservesConst) (k : K) (hk : k ∈ sh.constK) (hr : k ∉ sh.resetK) :
    ∀ (ds : List D) (s : K → V), sh.after s ds k = s k
  | [], _ => rfl
  | d :: ds, s => by
    rw [after, after_const hp k hk hr ds]
    simp [doc, hp _ d k hk, reset, hr]

/-- The output for document `d` after any history `hs` equals its output from the initial state. -/
theorem doc_history_free (hc : sh.Covered) (hp : sh.PreservesConst) (ho : sh.OutputIgnores)
    (s₀ : K → V) (hs : List D) (d : D) :
    (sh.doc (sh.after s₀ hs) d).2 = (sh.doc s₀ d).2 := by
  apply ho
  intro k hk
  by_cases hr : k ∈ sh.resetK
  · simp [reset, hr]
  · have hck : k ∈ sh.constK := by
      rcases hc k with h | h | h
      · exact h
      · exact absurd h hr
      · exact absurd h hk
    simp [reset, hr, after_const sh hp k hck hr hs s₀]

end Shell

/-- Non-vacuity / necessity: one key that is neither reset nor constant nor ignored makes the output
of the second document depend on the first. -/
def leaky : Shell Unit Nat Nat Nat :=
  { constK := [], resetK := [], excK := [], init := fun _ => 0,
    body := fun s d => (fun _ => s () + d, s ()) }

example : (leaky.doc (leaky.after (fun _ => 0) [5]) 1).2 ≠ (leaky.doc (fun _ => 0) 1).2 := by decide

/-- … and the same body with the key reset per document is history free. -/
def fixed : Shell Unit Nat Nat Nat := { leaky with resetK := [()] }

example : (fixed.doc (fixed.after (fun _ => 0) [5]) 1).2 = (fixed.doc (fun _ => 0) 1).2 := by decide

end Verif.Lemmas.StaticsHistory
