/- Life-cycle with failures: whatever raises, every rule has received a PREFIX of its life-cycle. -/
import Verif.Model.Engine
import Verif.Lemmas.Dispatch
namespace Verif.Model.Engine
variable {τ : Type}

/-- A relation between the components of two state vectors, rule by rule. -/
def CompRel (R : (r : Rule τ) → Comp r → Comp r → Prop) : (rs : List (Rule τ)) → States rs → States rs → Prop
  | [], _, _ => True
  | r :: rs, (c, cs), (c', cs') => R r c c' ∧ CompRel R rs cs cs'

theorem CompRel.mono {R S : (r : Rule τ) → Comp r → Comp r → Prop} (h : ∀ r c c', R r c c' → S r c c') :
    ∀ (rs : List (Rule τ)) (ss ss' : States rs), CompRel R rs ss ss' → CompRel S rs ss ss'
  | [], _, _, _ => trivial
  | r :: rs, (c, cs), (c', cs'), hc => ⟨h r c c' hc.1, CompRel.mono h rs cs cs' hc.2⟩

theorem CompRel.comp {R S T : (r : Rule τ) → Comp r → Comp r → Prop}
    (h : ∀ r c c' c'', R r c c' → S r c' c'' → T r c c'') :
    ∀ (rs : List (Rule τ)) (a b c : States rs), CompRel R rs a b → CompRel S rs b c → CompRel T rs a c
  | [], _, _, _, _, _ => trivial
  | r :: rs, (x, xs), (y, ys), (z, zs), h1, h2 => ⟨h r x y z h1.1 h2.1, CompRel.comp h rs xs ys zs h1.2 h2.2⟩

theorem CompRel.refl {R : (r : Rule τ) → Comp r → Comp r → Prop} (h : ∀ r c, R r c c) :
    ∀ (rs : List (Rule τ)) (ss : States rs), CompRel R rs ss ss
  | [], _ => trivial
  | r :: rs, (c, cs) => ⟨h r c, CompRel.refl h rs cs⟩

/-- One plug-in, one event: the log gains the event (only if the rule handles it) or nothing. -/
theorem stepOne_log (r : Rule τ) (c : Comp r) (ev : Event τ) (acc : Acc) :
    (stepOne r c ev acc).1.log = c.log ∨ (r.handles ev = true ∧ (stepOne r c ev acc).1.log = c.log ++ [ev]) := by
  unfold stepOne
  by_cases hf : acc.fault.isSome
  · simp [hf]
  · by_cases hh : r.handles ev
    · simp only [hf, hh, Bool.false_eq_true, if_false, if_true]
      right; refine ⟨trivial, ?_⟩
      cases (r.call c.st ev).2 <;> rfl
    · simp [hf, hh]

/-- …and when no fault is pending afterwards, it gained it exactly if the rule handles it. -/
theorem stepOne_log_nofault (r : Rule τ) (c : Comp r) (ev : Event τ) (acc : Acc)
    (h : (stepOne r c ev acc).2.fault = none) :
    (stepOne r c ev acc).1.log = c.log ++ [ev].filter r.handles := by
  unfold stepOne at h ⊢
  by_cases hf : acc.fault.isSome
  · simp only [hf, if_true] at h; rw [h] at hf; cases hf
  · by_cases hh : r.handles ev
    · simp only [hf, hh, Bool.false_eq_true, if_false, if_true] at h ⊢
      cases hc : (r.call c.st ev).2 with
      | none => simp only [hc] at h; cases h
      | some out => simp [hh]
    · simp [hf, hh]

theorem stepOne_fault_sticky (r : Rule τ) (c : Comp r) (ev : Event τ) (acc : Acc)
    (h : acc.fault.isSome = true) : stepOne r c ev acc = (c, acc) := by
  simp [stepOne, h]

theorem stepOne_fault_mono' (r : Rule τ) (c : Comp r) (ev : Event τ) (acc : Acc)
    (h : (stepOne r c ev acc).2.fault = none) : acc.fault = none := by
  unfold stepOne at h
  by_cases hf : acc.fault.isSome
  · simp only [hf, if_true] at h; rw [h] at hf; cases hf
  · cases hx : acc.fault with
    | none => rfl
    | some x => rw [hx] at hf; simp at hf

theorem dispatch_fault_sticky : (rs : List (Rule τ)) → (ss : States rs) → (ev : Event τ) → (acc : Acc) →
    acc.fault.isSome = true → dispatch rs ss ev acc = (ss, acc)
  | [], (), _, _, _ => rfl
  | r :: rs, (c, cs), ev, acc, h => by
    simp only [dispatch, stepOne_fault_sticky r c ev acc h, dispatch_fault_sticky rs cs ev acc h]

theorem dispatch_fault_mono' : (rs : List (Rule τ)) → (ss : States rs) → (ev : Event τ) → (acc : Acc) →
    (dispatch rs ss ev acc).2.fault = none → acc.fault = none
  | [], _, _, _, h => h
  | r :: rs, (c, cs), ev, acc, h => by
    simp only [dispatch] at h
    exact stepOne_fault_mono' r c ev acc (dispatch_fault_mono' rs cs ev _ h)

theorem dispatch_log : (rs : List (Rule τ)) → (ss : States rs) → (ev : Event τ) → (acc : Acc) →
    CompRel (fun r c c' => c'.log = c.log ∨ (r.handles ev = true ∧ c'.log = c.log ++ [ev])) rs ss (dispatch rs ss ev acc).1
  | [], _, _, _ => trivial
  | r :: rs, (c, cs), ev, acc => by
    simp only [dispatch]
    exact ⟨stepOne_log r c ev acc, dispatch_log rs cs ev _⟩

theorem dispatch_log_nofault : (rs : List (Rule τ)) → (ss : States rs) → (ev : Event τ) → (acc : Acc) →
    (dispatch rs ss ev acc).2.fault = none →
    CompRel (fun r c c' => c'.log = c.log ++ [ev].filter r.handles) rs ss (dispatch rs ss ev acc).1
  | [], _, _, _, _ => trivial
  | r :: rs, (c, cs), ev, acc, h => by
    simp only [dispatch] at h ⊢
    have h1 : (stepOne r c ev acc).2.fault = none := dispatch_fault_mono' rs cs ev _ h
    exact ⟨stepOne_log_nofault r c ev acc h1, dispatch_log_nofault rs cs ev _ h⟩

theorem runEvents_fault_sticky (rs : List (Rule τ)) : ∀ (evs : List (Event τ)) (ss : States rs) (acc : Acc),
    acc.fault.isSome = true → runEvents rs ss evs acc = (ss, acc)
  | [], _, _, _ => rfl
  | ev :: evs, ss, acc, h => by
    simp only [runEvents, dispatch_fault_sticky rs ss ev acc h]
    exact runEvents_fault_sticky rs evs ss acc h

/-- **Prefix life-cycle.**  For ANY rules (callbacks may raise), after any event list every rule's
log has grown by the events it handles among the first `k` events, for some `k` — a prefix of its
life-cycle, in order, nothing twice, nothing out of order. -/
theorem runEvents_log_prefix (rs : List (Rule τ)) : ∀ (evs : List (Event τ)) (ss : States rs) (acc : Acc),
    CompRel (fun r c c' => ∃ k, k ≤ evs.length ∧ c'.log = c.log ++ (evs.take k).filter r.handles)
      rs ss (runEvents rs ss evs acc).1
  | [], ss, _ => CompRel.refl (fun r c => ⟨0, Nat.le_refl _, by simp⟩) rs ss
  | ev :: evs, ss, acc => by
    simp only [runEvents]
    cases hf : (dispatch rs ss ev acc).2.fault with
    | none =>
      have h1 := dispatch_log_nofault rs ss ev acc hf
      have h2 := runEvents_log_prefix rs evs (dispatch rs ss ev acc).1 (dispatch rs ss ev acc).2
      refine CompRel.comp ?_ rs _ _ _ h1 h2
      rintro r c c' c'' e1 ⟨k, hk, e2⟩
      refine ⟨k + 1, by simp only [List.length_cons]; omega, ?_⟩
      rw [e2, e1, List.take_succ_cons, List.filter_cons, List.append_assoc]
      by_cases hh : r.handles ev <;> simp [hh]
    | some x =>
      have hs : (dispatch rs ss ev acc).2.fault.isSome = true := by rw [hf]; rfl
      rw [runEvents_fault_sticky rs evs _ _ hs]
      refine CompRel.mono ?_ rs _ _ (dispatch_log rs ss ev acc)
      rintro r c c' (e | ⟨hh, e⟩)
      · exact ⟨0, Nat.zero_le _, by simp [e]⟩
      · exact ⟨1, by simp, by simp [e, hh]⟩

end Verif.Model.Engine
