/-
  Helper lemmas for C19: what the argument loop of `determine_files_to_scan` computes.
-/
import Verif.Model.FileScan
import Verif.Lemmas.FileScanBasic
namespace Verif.Lemmas.FileScan
open Verif.Model.FileScan

/-- File strings one argument contributes when it is processed. -/
def contrib (t : Tree) (r : Bool) (e : List Str) (a : Str) : List Str :=
  if isGlobArg a then (glob t a).flatMap fun g => (processPath t r e g).files
  else (processPath t r e a).files

/-- The argument makes the loop stop with the error flag set. -/
def argFails (t : Tree) (r : Bool) (e : List Str) (a : Str) : Bool :=
  if isGlobArg a then (glob t a).isEmpty else !(processPath t r e a).found

theorem foldl_absorb_files (t : Tree) (r : Bool) (e : List Str) {f : Str} :
    ∀ (gs : List Str) (st : St),
      f ∈ (gs.foldl (fun s g => s.absorb (processPath t r e g)) st).files ↔
        f ∈ st.files ∨ ∃ g ∈ gs, f ∈ (processPath t r e g).files
  | [], st => by simp
  | g :: gs, st => by
    rw [List.foldl_cons, foldl_absorb_files t r e gs]
    simp only [St.absorb, mem_setAddAll, List.mem_cons, exists_eq_or_imp, or_assoc]

theorem foldl_absorb_nodup (t : Tree) (r : Bool) (e : List Str) :
    ∀ (gs : List Str) (st : St), st.files.Nodup →
      (gs.foldl (fun s g => s.absorb (processPath t r e g)) st).files.Nodup
  | [], _, h => by simpa using h
  | g :: gs, st, h => by
    rw [List.foldl_cons]
    exact foldl_absorb_nodup t r e gs _ (nodup_setAddAll h)

theorem scanLoop_err (t : Tree) (r : Bool) (e : List Str) :
    ∀ (args : List Str) (st : St), (scanLoop t r e args st).2 = args.any (argFails t r e)
  | [], _ => by simp [scanLoop]
  | a :: rest, st => by
    simp only [scanLoop, List.any_cons, argFails]
    by_cases hg : isGlobArg a = true
    · simp only [hg, if_true]
      by_cases he : (glob t a).isEmpty = true
      · simp [he]
      · simp only [he, Bool.false_eq_true, if_false, Bool.false_or]
        exact scanLoop_err t r e rest _
    · simp only [hg, Bool.false_eq_true, if_false]
      by_cases hf : (processPath t r e a).found = true
      · simp only [hf, if_true, Bool.not_true, Bool.false_or]
        exact scanLoop_err t r e rest _
      · simp [hf]

theorem scanLoop_nodup (t : Tree) (r : Bool) (e : List Str) :
    ∀ (args : List Str) (st : St), st.files.Nodup → (scanLoop t r e args st).1.files.Nodup
  | [], _, h => by simpa [scanLoop] using h
  | a :: rest, st, h => by
    simp only [scanLoop]
    split
    · split
      · exact h
      · exact scanLoop_nodup t r e rest _ (foldl_absorb_nodup t r e _ _ h)
    · split
      · exact scanLoop_nodup t r e rest _ (nodup_setAddAll h)
      · exact nodup_setAddAll h

/-- Everything in the set came from the initial set or from some argument. -/
theorem scanLoop_sound (t : Tree) (r : Bool) (e : List Str) {f : Str} :
    ∀ (args : List Str) (st : St), f ∈ (scanLoop t r e args st).1.files →
      f ∈ st.files ∨ ∃ a ∈ args, f ∈ contrib t r e a
  | [], _, h => by simpa [scanLoop] using h
  | a :: rest, st, h => by
    simp only [scanLoop] at h
    by_cases hg : isGlobArg a = true
    · simp only [hg, if_true] at h
      by_cases he : (glob t a).isEmpty = true
      · simp only [he, if_true] at h; exact Or.inl h
      · simp only [he, Bool.false_eq_true, if_false] at h
        rcases scanLoop_sound t r e rest _ h with h' | ⟨b, hb, hf⟩
        · rcases (foldl_absorb_files t r e _ _).mp h' with h'' | ⟨g, hg', hf⟩
          · exact Or.inl h''
          · refine Or.inr ⟨a, by simp, ?_⟩
            simp only [contrib, hg, if_true, List.mem_flatMap]
            exact ⟨g, hg', hf⟩
        · exact Or.inr ⟨b, List.mem_cons_of_mem _ hb, hf⟩
    · simp only [hg, Bool.false_eq_true, if_false] at h
      have key : ∀ x, x ∈ (st.absorb (processPath t r e a)).files →
          x ∈ st.files ∨ ∃ b ∈ a :: rest, x ∈ contrib t r e b := by
        intro x hx
        rcases mem_setAddAll.mp hx with h' | h'
        · exact Or.inl h'
        · refine Or.inr ⟨a, by simp, ?_⟩
          simpa [contrib, hg] using h'
      by_cases hf : (processPath t r e a).found = true
      · simp only [hf, if_true] at h
        rcases scanLoop_sound t r e rest _ h with h' | ⟨b, hb, hf'⟩
        · exact key f h'
        · exact Or.inr ⟨b, List.mem_cons_of_mem _ hb, hf'⟩
      · simp only [hf, Bool.false_eq_true, if_false] at h
        exact key f h

/-- Without an error every argument was processed. -/
theorem scanLoop_complete (t : Tree) (r : Bool) (e : List Str) {f : Str} :
    ∀ (args : List Str) (st : St), (scanLoop t r e args st).2 = false →
      (f ∈ st.files ∨ ∃ a ∈ args, f ∈ contrib t r e a) → f ∈ (scanLoop t r e args st).1.files
  | [], _, _, h => by simpa [scanLoop] using h
  | a :: rest, st, hne, h => by
    simp only [scanLoop] at hne ⊢
    by_cases hg : isGlobArg a = true
    · simp only [hg, if_true] at hne ⊢
      by_cases he : (glob t a).isEmpty = true
      · simp [he] at hne
      · simp only [he, Bool.false_eq_true, if_false] at hne ⊢
        refine scanLoop_complete t r e rest _ hne ?_
        rcases h with h | ⟨b, hb, hf⟩
        · exact Or.inl ((foldl_absorb_files t r e _ _).mpr (Or.inl h))
        · rcases List.mem_cons.mp hb with e' | hb'
          · subst e'
            simp only [contrib, hg, if_true, List.mem_flatMap] at hf
            exact Or.inl ((foldl_absorb_files t r e _ _).mpr (Or.inr hf))
          · exact Or.inr ⟨b, hb', hf⟩
    · simp only [hg, Bool.false_eq_true, if_false] at hne ⊢
      by_cases hfd : (processPath t r e a).found = true
      · simp only [hfd, if_true] at hne ⊢
        refine scanLoop_complete t r e rest _ hne ?_
        rcases h with h | ⟨b, hb, hf⟩
        · exact Or.inl (mem_setAddAll.mpr (Or.inl h))
        · rcases List.mem_cons.mp hb with e' | hb'
          · subst e'
            refine Or.inl (mem_setAddAll.mpr (Or.inr ?_))
            simpa [contrib, hg] using hf
          · exact Or.inr ⟨b, hb', hf⟩
      · simp [hfd] at hne

/-- Membership in the result of `discover`. -/
theorem mem_discover_sound {t : Tree} {o : Opts} {args : List Str} {f : Str}
    (h : f ∈ (discover t o args).files) :
    ∃ a ∈ args, f ∈ contrib t o.recurse (splitOn ',' o.exts) a := by
  simp only [discover] at h
  rcases scanLoop_sound t _ _ args _ (mem_sortStr.mp h) with h' | h'
  · simp at h'
  · exact h'

theorem mem_discover_complete {t : Tree} {o : Opts} {args : List Str} {f : Str}
    (hne : (discover t o args).didError = false)
    (h : ∃ a ∈ args, f ∈ contrib t o.recurse (splitOn ',' o.exts) a) :
    f ∈ (discover t o args).files := by
  simp only [discover] at hne ⊢
  exact mem_sortStr.mpr (scanLoop_complete t _ _ args _ hne (Or.inr h))

theorem discover_err {t : Tree} {o : Opts} {args : List Str} :
    (discover t o args).didError = args.any (argFails t o.recurse (splitOn ',' o.exts)) := by
  simp only [discover]; exact scanLoop_err t _ _ args _

theorem discover_strict (t : Tree) (o : Opts) (args : List Str) :
    StrictSorted (discover t o args).files := by
  simp only [discover]
  exact sortStr_strict (scanLoop_nodup t _ _ args _ (by simp))

end Verif.Lemmas.FileScan
