/-
  What a pairing step conserves: the per-character weight (remaining repeat counts + emitted emphasis lengths),
  the non-special tokens and their order, the texts / neighbours of the special tokens, the stack length,
  "removed from the list ⇒ repeat count 0".  Core Lean only.
-/
import Verif.Lemmas.EmphasisLoop
namespace Verif.Model.Emphasis

/-! ## weight -/
theorem weight_append (cof : Nat → Option Char) (stk : List Special) (ch : Char) (A B : List Block) :
    weight cof stk ch (A ++ B) = weight cof stk ch A + weight cof stk ch B := by
  induction A with
  | nil => simp [weight]
  | cons x A ih => cases x <;> simp [weight, ih] <;> omega

theorem weight_congr (cof : Nat → Option Char) (stk stk' : List Special) (ch : Char) (A : List Block)
    (h : ∀ i ∈ spIds A, repOf stk' i = repOf stk i) : weight cof stk' ch A = weight cof stk ch A := by
  induction A with
  | nil => rfl
  | cons x A ih =>
    cases x with
    | sp i =>
      have hi := h i (by simp)
      simp only [weight, hi]
      rw [ih (fun j hj => h j (by simp [hj]))]
    | plain t => simp only [weight]; exact ih (by simpa using h)
    | es n c => simp only [weight]; rw [ih (by simpa using h)]
    | ee n c => simp only [weight]; rw [ih (by simpa using h)]

theorem repOf_step (stk : List Special) (o c : Nat) (L : Int) (ko kc : Bool) (ids : List Nat) (hne : o ≠ c) (j : Nat) :
    repOf (deactAll ids (markStk stk o c L ko kc)) j =
      if (j = c ∨ j = o) ∧ j < stk.length then repOf stk j - L else repOf stk j := by
  simp only [repOf, getElem?_step _ _ _ _ _ _ _ hne]
  cases hs : stk[j]? with
  | none =>
    have : ¬ j < stk.length := fun h => by simp [List.getElem?_eq_getElem h] at hs
    simp [this]
  | some t =>
    have : j < stk.length := by
      rcases Nat.lt_or_ge j stk.length with h | h
      · exact h
      · rw [List.getElem?_eq_none h] at hs; cases hs
    by_cases hj : j = c ∨ j = o <;> simp [hj, this]

theorem charOf_step (stk : List Special) (o c : Nat) (L : Int) (ko kc : Bool) (ids : List Nat) (hne : o ≠ c) (j : Nat) :
    charOf (deactAll ids (markStk stk o c L ko kc)) j = charOf stk j := by
  simp only [charOf, getElem?_step _ _ _ _ _ _ _ hne]
  cases stk[j]? <;> simp

theorem lt_of_get {stk : List Special} {i : Nat} {t : Special} (h : stk[i]? = some t) : i < stk.length := by
  rcases Nat.lt_or_ge i stk.length with h' | h'
  · exact h'
  · rw [List.getElem?_eq_none h'] at h; cases h

theorem weight_keepIf (cof : Nat → Option Char) (stk : List Special) (ch : Char) (b : Bool) (i : Nat) :
    weight cof stk ch (keepIf b (.sp i)) = if b then (if cof i = some ch then repOf stk i else 0) else 0 := by
  cases b <;> simp [keepIf, weight]

/-- the per-character weight is conserved by a pairing step (characters read from the stack itself) -/
theorem weight_step {stk : List Special} {o c : Nat} {blocks blocks' : List Block} {stk' : List Special}
    (cof : Nat → Option Char) (hcof : ∀ j, charOf stk j = cof j)
    (h : PairStep stk o c blocks blocks' stk') (ch' : Char) :
    weight cof stk' ch' blocks' = weight cof stk ch' blocks ∧ ∀ j, charOf stk' j = cof j := by
  cases h with
  | mk P M R ot ct ch tl tl' ho hc hch hcc hoa hca hP hM hR hoc =>
  have hne : o ≠ c := by omega
  generalize emphLen ot ct = L at *
  have hrep := repOf_step stk o c L (decide (ot.rep - (L : Int) ≠ 0)) (decide (ct.rep - (L : Int) ≠ 0)) (spIds M) hne
  refine ⟨?_, fun j => by rw [charOf_step _ _ _ _ _ _ _ hne]; exact hcof j⟩
  have hco : cof o = some ch := by rw [← hcof o]; simp [charOf, ho, hch]
  have hcc' : cof c = some ch := by rw [← hcof c]; simp [charOf, hc, hcc]
  have hro : repOf stk o = ot.rep := by simp [repOf, ho]
  have hrc : repOf stk c = ct.rep := by simp [repOf, hc]
  have hwP : weight cof (deactAll (spIds M) (markStk stk o c L (decide (ot.rep - (L : Int) ≠ 0)) (decide (ct.rep - (L : Int) ≠ 0)))) ch' P
      = weight cof stk ch' P := weight_congr _ _ _ _ _ (fun i hi => by
        have := hP i hi; rw [hrep]; have h1 : i ≠ c := by omega
        have h2 : i ≠ o := by omega
        simp [h1, h2])
  have hwM : weight cof (deactAll (spIds M) (markStk stk o c L (decide (ot.rep - (L : Int) ≠ 0)) (decide (ct.rep - (L : Int) ≠ 0)))) ch' M
      = weight cof stk ch' M := weight_congr _ _ _ _ _ (fun i hi => by
        have := hM i hi; rw [hrep]; have h1 : i ≠ c := by omega
        have h2 : i ≠ o := by omega
        simp [h1, h2])
  have hwR : weight cof (deactAll (spIds M) (markStk stk o c L (decide (ot.rep - (L : Int) ≠ 0)) (decide (ct.rep - (L : Int) ≠ 0)))) ch' R
      = weight cof stk ch' R := weight_congr _ _ _ _ _ (fun i hi => by
        have := hR i hi; rw [hrep]; have h1 : i ≠ c := by omega
        have h2 : i ≠ o := by omega
        simp [h1, h2])
  have hro' := hrep o
  have hrc' := hrep c
  simp only [lt_of_get ho, lt_of_get hc, or_true, true_or, and_self, if_true, hro, hrc] at hro' hrc'
  simp only [weight_append, weight, weight_keepIf, hwP, hwM, hwR, hco, hcc', hro', hrc', hro, hrc]
  by_cases hch' : ch = ch' <;> by_cases hko : ot.rep - (L : Int) = 0 <;> by_cases hkc : ct.rep - (L : Int) = 0 <;>
    simp [hch', hko, hkc] <;> omega

/-! ## non-special tokens -/
theorem plains_append (A B : List Block) : plains (A ++ B) = plains A ++ plains B := by simp [plains]

theorem plains_step {stk : List Special} {o c : Nat} {blocks blocks' : List Block} {stk' : List Special}
    (h : PairStep stk o c blocks blocks' stk') : plains blocks' = plains blocks := by
  cases h with
  | mk P M R ot ct ch tl tl' ho hc hch hcc hoa hca hP hM hR hoc =>
  generalize decide (ot.rep - (emphLen ot ct : Int) ≠ 0) = ko
  generalize decide (ct.rep - (emphLen ot ct : Int) ≠ 0) = kc
  cases ko <;> cases kc <;> simp [plains, keepIf]

/-! ## the static fields and the stack length -/
theorem length_markStk (stk : List Special) (o c : Nat) (L : Int) (ko kc : Bool) :
    (markStk stk o c L ko kc).length = stk.length := by
  unfold markStk; cases ko <;> cases kc <;> simp

theorem length_step {stk : List Special} {o c : Nat} {blocks blocks' : List Block} {stk' : List Special}
    (h : PairStep stk o c blocks blocks' stk') : stk'.length = stk.length := by
  cases h; simp [length_markStk]

/-- text and neighbours of every stack entry -/
def statics (stk : List Special) : List (Str × Option Str × Option Str) := stk.map fun t => (t.text, t.prec, t.foll)

theorem statics_step {stk : List Special} {o c : Nat} {blocks blocks' : List Block} {stk' : List Special}
    (h : PairStep stk o c blocks blocks' stk') : statics stk' = statics stk := by
  cases h with
  | mk P M R ot ct ch tl tl' ho hc hch hcc hoa hca hP hM hR hoc =>
  have hne : o ≠ c := by omega
  apply List.ext_getElem?
  intro j
  simp only [statics, List.getElem?_map, getElem?_step _ _ _ _ _ _ _ hne]
  cases stk[j]? <;> simp

/-! ## removed from the list ⇒ repeat count 0 -/
def Gone (blocks : List Block) (stk : List Special) : Prop := ∀ i, i < stk.length → i ∉ spIds blocks → repOf stk i = 0

theorem gone_step {stk : List Special} {o c : Nat} {blocks blocks' : List Block} {stk' : List Special}
    (hg : Gone blocks stk) (h : PairStep stk o c blocks blocks' stk') : Gone blocks' stk' := by
  cases h with
  | mk P M R ot ct ch tl tl' ho hc hch hcc hoa hca hP hM hR hoc =>
  have hne : o ≠ c := by omega
  generalize emphLen ot ct = L at *
  intro i hi hni
  rw [repOf_step _ _ _ _ _ _ _ hne]
  simp only [length_deactAll, length_markStk] at hi
  simp only [spIds_append, spIds_cons_es, spIds_cons_ee, spIds_keepIf, List.mem_append, not_or] at hni
  have hro : repOf stk o = ot.rep := by simp [repOf, ho]
  have hrc : repOf stk c = ct.rep := by simp [repOf, hc]
  by_cases hio : i = o
  · subst hio
    have : ¬ ot.rep - (L : Int) ≠ 0 := fun hk => by simp [hk] at hni
    simp [hi, hro]; omega
  · by_cases hic : i = c
    · subst hic
      have : ¬ ct.rep - (L : Int) ≠ 0 := fun hk => by simp [hk] at hni
      simp [hi, hrc]; omega
    · simp only [hio, hic, or_self, false_and, if_false]
      apply hg i hi
      intro hmem
      simp only [spIds_append, spIds_cons_sp, List.mem_append, List.mem_cons] at hmem
      rcases hmem with (h | h | h) | h | h
      · exact hni.1.1.1.1 h
      · exact hio h
      · exact hni.1.1.2 h
      · exact hic h
      · exact hni.2 h

end Verif.Model.Emphasis
