/-
  Lemmas about the inline recogniser models, part 2: `calculate_deltas`, the URI autolink recogniser,
  `handle_angle_brackets` (totality, progress, reassembly).
-/
import Verif.Lemmas.InlineRecog
namespace Verif.Model.InlineRecog
open Verif.Model.Recognisers

/-! ## the codec loops used by `calculate_deltas` never hang -/

theorem fweLoop_some_lt (s : Str) (c : Char) : ∀ (fuel st i : Nat), Codec.fweLoop s c fuel st = some i → i < s.length
  | 0, _, _, h => by simp [Codec.fweLoop] at h
  | fuel + 1, st, i, h => by
    rw [Codec.fweLoop] at h
    split at h
    · cases hf : Codec.findFrom c s st with
      | none => rw [hf] at h; cases h
      | some j =>
        rw [hf] at h
        simp only at h
        split at h
        · exact fweLoop_some_lt s c fuel (j + 1) i h
        · injection h with h
          subst h
          exact (Verif.Lemmas.Codec.findFrom_some_lt c s st j hf).2.1
    · cases h

theorem cutLoop_total (c : Char) (adv : Nat) : ∀ (fuel : Nat) (t : Str) (o : Option Nat), t.length < fuel →
    (∀ i, o = some i → i < t.length) → ∃ r, Codec.cutLoop c false adv fuel t o = .ok r
  | fuel, t, none, _, _ => by cases fuel <;> exact ⟨t, by simp [Codec.cutLoop]⟩
  | 0, _, some _, hf, _ => by omega
  | fuel + 1, t, some i, hf, hi => by
    rw [Codec.cutLoop]
    have hit := hi i rfl
    have hlen : (Codec.cutAt false t i).length = t.length - 1 := by
      simp only [Codec.cutAt, Bool.false_eq_true, if_false, List.length_append, List.length_take, List.length_drop]
      omega
    apply cutLoop_total c adv fuel
    · omega
    · intro j hj
      exact fweLoop_some_lt _ _ _ _ _ hj

theorem resolveEscapes_total (t : Str) : ∃ r, Codec.resolveEscapes t = .ok r := by
  unfold Codec.resolveEscapes Codec.cutAll
  exact cutLoop_total _ _ _ _ _ (by omega) (fun j hj => fweLoop_some_lt _ _ _ _ _ hj)

theorem resolveReplacementMarkers_noAL (t : Str) (h : Codec.AL ∉ t) : Codec.resolveReplacementMarkers t = .ok t := by
  unfold Codec.resolveReplacementMarkers
  apply Verif.Lemmas.Codec.replAll_guarded
  intro i hi
  exact absurd (List.mem_of_getElem? hi) h

/-! ## `calculate_deltas` -/

theorem splitNl_mem : ∀ (s acc : Str) (p : Str), p ∈ splitNl s acc → ∀ c ∈ p, c ∈ s ∨ c ∈ acc
  | [], acc, p, hp, c, hc => by
    simp only [splitNl, List.mem_singleton] at hp
    subst hp
    exact Or.inr (by simpa using hc)
  | x :: r, acc, p, hp, c, hc => by
    rw [splitNl] at hp
    split at hp
    · rcases List.mem_cons.mp hp with hp | hp
      · subst hp; exact Or.inr (by simpa using hc)
      · rcases splitNl_mem r [] p hp c hc with h | h
        · exact Or.inl (List.mem_cons_of_mem _ h)
        · simp at h
    · rcases splitNl_mem r (x :: acc) p hp c hc with h | h
      · exact Or.inl (List.mem_cons_of_mem _ h)
      · rcases List.mem_cons.mp h with h | h
        · subst h; exact Or.inl (List.mem_cons_self)
        · exact Or.inr h

/-- without U+0007 in the text `calculate_deltas` returns -/
theorem calculateDeltas_ok (text : Str) (h : Codec.AL ∉ text) : ∃ r, calculateDeltas text = .ok r := by
  unfold calculateDeltas
  split
  · have hlast : Codec.AL ∉ (splitNl text []).getLast?.getD [] := by
      intro hm
      cases hl : (splitNl text []).getLast? with
      | none => rw [hl] at hm; simp at hm
      | some p =>
        rw [hl] at hm
        simp only [Option.getD_some] at hm
        rcases splitNl_mem text [] p (List.mem_of_getLast? hl) _ hm with h1 | h1
        · exact h h1
        · simp at h1
    dsimp only
    rw [resolveReplacementMarkers_noAL _ hlast]
    obtain ⟨r, hr⟩ := resolveEscapes_total ((splitNl text []).getLast?.getD [])
    simp only [liftC, hr]
    exact ⟨_, rfl⟩
  · exact ⟨_, rfl⟩

/-! ## the URI autolink recogniser -/

/-- `__parse_valid_uri_autolink` as a pure function of scans -/
def uriP (s : Str) : Bool :=
  !s.contains '<' &&
  (match s[0]? with | some c => asciiLetters.contains c | none => false) &&
  (2 ≤ 1 + (scanTo s schemeChars.contains 1 - 1) && 1 + (scanTo s schemeChars.contains 1 - 1) ≤ 32 &&
    scanTo s schemeChars.contains 1 < s.length) &&
  (s[scanTo s schemeChars.contains 1]? == some ':') &&
  (scanTo s (fun d => d.toNat > 32) (scanTo s schemeChars.contains 1 + 1) == s.length)

theorem parseValidUriAutolink_eq (s : Str) (h : s ≠ []) : parseValidUriAutolink s = .ok (uriP s) := by
  have hl : 0 < s.length := by cases s with | nil => exact absurd rfl h | cons _ _ => simp
  unfold parseValidUriAutolink uriP
  cases h1 : s.contains '<'
  case true => simp only [Bool.not_true, Bool.false_eq_true, if_false, Bool.false_and]
  case false =>
    simp only [Bool.not_false, if_true, Bool.true_and]
    rw [charAt_lt hl, List.getElem?_eq_getElem hl]
    simp only
    cases h2 : asciiLetters.contains s[0]
    case false => simp only [Bool.false_eq_true, if_false, Bool.false_and]
    case true =>
      simp only [if_true, Bool.true_and]
      rw [collectWhileOneOfVerified_eq _ _ _ (by omega)]
      simp only
      rw [slice_length_scan _ _ _ (by omega)]
      cases h3 : (decide (2 ≤ 1 + (scanTo s schemeChars.contains 1 - 1)) && decide (1 + (scanTo s schemeChars.contains 1 - 1) ≤ 32) &&
          decide (scanTo s schemeChars.contains 1 < s.length))
      case false => simp only [Bool.false_eq_true, if_false, Bool.false_and]
      case true =>
        have hlt : scanTo s schemeChars.contains 1 < s.length := by
          simp only [Bool.and_eq_true, decide_eq_true_eq] at h3; exact h3.2
        simp only [if_true, Bool.true_and]
        rw [charAt_lt hlt, List.getElem?_eq_getElem hlt]
        simp only
        cases h4 : (s[scanTo s schemeChars.contains 1] == ':')
        case false =>
          have : (some s[scanTo s schemeChars.contains 1] == some ':') = false := by simpa using h4
          simp only [Bool.false_eq_true, if_false, this, Bool.false_and]
        case true =>
          have : (some s[scanTo s schemeChars.contains 1] == some ':') = true := by simpa using h4
          simp only [if_true, this, Bool.true_and]
          rw [pLoop_eq]

theorem parseValidUriAutolink_excluded : parseValidUriAutolink [] = .error .index := by decide

/-! ## `str.find` of one character -/

theorem findSub_at {pat : Str} : ∀ {l : Str} {p : Nat}, findSub pat l = some p → pat.isPrefixOf (l.drop p) = true
  | [], p, h => by
    unfold findSub at h
    split at h
    · next he => cases pat <;> simp_all
    · cases h
  | c :: r, p, h => by
    unfold findSub at h
    split at h
    · next hp => injection h with h; subst h; exact hp
    · cases hf : findSub pat r with
      | none => rw [hf] at h; cases h
      | some q =>
        rw [hf] at h
        simp only [Option.map_some, Option.some.injEq] at h
        subst h
        simpa using findSub_at hf

theorem pyFind_char_at {s : Str} {c : Char} {start p : Nat} (h : pyFind s [c] start = some p) : s[p]? = some c := by
  have hb := pyFind_bound h
  unfold pyFind at h
  split at h
  · cases hf : findSub [c] (s.drop start) with
    | none => rw [hf] at h; cases h
    | some q =>
      rw [hf] at h
      simp only [Option.map_some, Option.some.injEq] at h
      have := findSub_at hf
      rw [List.drop_drop] at this
      have hq : start + q = p := by omega
      rw [hq] at this
      have hp : p < s.length := by simp at hb; omega
      rw [List.drop_eq_getElem_cons hp] at this
      simp only [List.isPrefixOf, Bool.and_eq_true, beq_iff_eq] at this
      rw [List.getElem?_eq_getElem hp, this.1]
  · cases h

/-! ## `handle_angle_brackets` -/

theorem slice_cons {s : Str} {i j : Nat} (hi : i < j) (hj : j ≤ s.length) :
    slice s i j = s[i]'(by omega) :: slice s (i + 1) j := by
  unfold slice
  have : i < (s.take j).length := by rw [List.length_take]; omega
  rw [List.drop_eq_getElem_cons this, List.getElem_take]

theorem slice_snoc {s : Str} {i j : Nat} (hi : i ≤ j) (hj : j < s.length) :
    slice s i (j + 1) = slice s i j ++ [s[j]] := by
  unfold slice
  rw [List.take_add_one, List.getElem?_eq_getElem hj]
  simp only [Option.toList_some]
  rw [List.drop_append_of_le_length (by rw [List.length_take]; omega)]

theorem mem_slice {s : Str} {a b : Nat} {c : Char} (h : c ∈ slice s a b) : c ∈ s :=
  List.mem_of_mem_take (List.mem_of_mem_drop h)

theorem slice_drop_take (s : Str) (i e : Nat) : (s.drop i).take e = slice s i (i + e) := by
  unfold slice
  rw [List.drop_take]
  congr 1
  omega

theorem liftR_ok {α : Type} (x : α) : liftR (.ok x : Except Err α) = .ok x := rfl

theorem angleFind_ok (src : Str) (next : Nat) (hlt : next < src.length) (hc : src[next] = '<')
    (hcr : COMMENT_CRASH.isPrefixOf (src.drop (next + 1)) = false) :
    ∃ o, angleFind src next = .ok o ∧
      ∀ k b ci, o = some (k, b, ci) → 1 ≤ k ∧ next + 1 < ci ∧ ci ≤ src.length ∧ '<' :: b ++ ['>'] = slice src next ci := by
  unfold angleFind
  cases hf : pyFind src ['>'] next with
  | none => exact ⟨none, rfl, by intro k b ci h; cases h⟩
  | some c =>
    have hb := pyFind_bound hf
    have hat := pyFind_char_at hf
    simp only [List.length_cons, List.length_nil] at hb
    have hcl : c < src.length := by omega
    rw [List.getElem?_eq_getElem hcl] at hat
    injection hat with hat
    have hne : c ≠ next := by
      intro e; subst e; rw [hc] at hat; cases hat
    simp only
    by_cases h1 : (c == next + 1) = true
    · rw [if_pos h1]; exact ⟨none, rfl, by intro k b ci h; cases h⟩
    · rw [if_neg h1]
      have hc1 : next + 1 < c := by
        have : c ≠ next + 1 := by simpa using h1
        omega
      have hbne : slice src (next + 1) c ≠ [] := by
        intro hn
        have := congrArg List.length hn
        unfold slice at this
        rw [List.length_drop, List.length_take] at this
        simp only [List.length_nil] at this; omega
      -- the span of an autolink / closing tag / declaration
      have hspan : '<' :: slice src (next + 1) c ++ ['>'] = slice src next (c + 1) := by
        rw [slice_snoc (by omega) hcl, slice_cons (show next < c by omega) (by omega), hc, hat]
      rw [parseValidUriAutolink_eq _ hbne, liftR_ok]
      cases huri : uriP (slice src (next + 1) c) with
      | true => exact ⟨_, rfl, by
          intro k b ci h
          simp only [Option.some.injEq, Prod.mk.injEq] at h
          obtain ⟨e1, e2, e3⟩ := h
          subst e1 e2 e3
          exact ⟨by omega, by omega, by omega, hspan⟩⟩
      | false =>
        simp only
        by_cases hem : parseValidEmailAutolink (slice src (next + 1) c) = true
        · rw [if_pos hem]
          exact ⟨_, rfl, by
            intro k b ci h
            simp only [Option.some.injEq, Prod.mk.injEq] at h
            obtain ⟨e1, e2, e3⟩ := h
            subst e1 e2 e3
            exact ⟨by omega, by omega, by omega, hspan⟩⟩
        · rw [if_neg hem]
          obtain ⟨r, hr, hg⟩ := parseRawHtml_ok (slice src (next + 1) c) (src.drop (next + 1)) hcr
          rw [hr, liftR_ok]
          cases r with
          | none => exact ⟨none, rfl, by intro k b ci h; cases h⟩
          | some ve =>
            obtain ⟨v, e⟩ := ve
            obtain ⟨_, hgood⟩ := hg v e rfl
            simp only
            rcases hgood with ⟨e1, e2⟩ | ⟨e1, e2, e3⟩
            · have : (e != -1) = false := by simp [e1]
              rw [this]
              simp only [Bool.false_eq_true, if_false]
              exact ⟨_, rfl, by
                intro k b ci h
                simp only [Option.some.injEq, Prod.mk.injEq] at h
                obtain ⟨h1, h2, h3⟩ := h
                subst h1 h2 h3
                rw [e2]
                exact ⟨by omega, by omega, by omega, hspan⟩⟩
            · have : (e != -1) = true := by
                simp only [bne_iff_ne, ne_eq]; omega
              rw [this]
              simp only [if_true]
              rw [List.length_drop] at e2
              refine ⟨_, rfl, ?_⟩
              intro k b ci h
              simp only [Option.some.injEq, Prod.mk.injEq] at h
              obtain ⟨h1, h2, h3⟩ := h
              subst h1 h2 h3
              have hci : (e + (next : Int) + 1).toNat = next + 1 + e.toNat := by omega
              refine ⟨by omega, by omega, by omega, ?_⟩
              rw [hci, List.cons_append, e3, slice_drop_take]
              rw [slice_cons (show next < next + 1 + e.toNat by omega) (by omega), hc]

/-- `handle_angle_brackets` at a `<`: returns (no U+0007 in the text, remaining text not `!---->…`), moves forward, stays inside
the text; a token's text between `<` and `>` is exactly the consumed span -/
theorem handleAngleBrackets_ok (src : Str) (next : Nat) (hlt : next < src.length) (hc : src[next] = '<')
    (hal : Codec.AL ∉ src) (hcr : COMMENT_CRASH.isPrefixOf (src.drop (next + 1)) = false) :
    ∃ r, handleAngleBrackets src next = .ok r ∧ next < r.newIndex ∧ r.newIndex ≤ src.length ∧
      ((r.kind = 0 ∧ r.newString = ['<'] ∧ r.newIndex = next + 1) ∨
       (1 ≤ r.kind ∧ r.newString = [] ∧ '<' :: r.tokenText ++ ['>'] = slice src next r.newIndex)) := by
  unfold handleAngleBrackets
  obtain ⟨o, ho, hb⟩ := angleFind_ok src next hlt hc hcr
  rw [ho]
  cases o with
  | none =>
    simp only
    have : calculateDeltas ['<'] = .ok (0, 1) := by decide
    rw [this]
    exact ⟨_, rfl, by simp only; omega, by simp only; omega, Or.inl ⟨rfl, rfl, rfl⟩⟩
  | some t =>
    obtain ⟨k, b, ci⟩ := t
    obtain ⟨b1, b2, b3, b4⟩ := hb k b ci rfl
    simp only
    have hnal : Codec.AL ∉ '<' :: b ++ ['>'] := by
      rw [List.cons_append] at b4
      rw [List.cons_append, b4]
      intro hm; exact hal (mem_slice hm)
    obtain ⟨d, hd⟩ := calculateDeltas_ok _ hnal
    rw [hd]
    exact ⟨_, rfl, by simp only; omega, by simp only; omega, Or.inr ⟨b1, rfl, by rw [List.cons_append] at b4 ⊢; exact b4⟩⟩

end Verif.Model.InlineRecog
