/-
  The pieces of a recognised marker, in the line: where `rest` begins, what `is_not_one` and `at_end_of_line` say about it,
  the start number of a digit string.
-/
import Verif.Lemmas.ListStartsAccept
namespace Verif.Model.ListStarts
open Verif.Model.Recognisers (Str charAt slice isCharAtOneOf isWsAt extractSpacesVerified calcLength lenLe isStartUlist isStartOlist
  SP TAB scanTo digits thematicBodyB)
open Verif.Model.ListStartsSpec (Marker MarkerAt parseMarker followOkB isSpTab isDigit isDelim isBulletChar Blank blankB
  IsThematic ItemStart CanInterrupt numberOf colsFrom)

theorem isUlistStart_nat (st : Stack) (line : Str) (n : Nat) (ews : Str) (skip : Bool) (adj : Option Str) :
    isUlistStart st line (n : Int) ews skip adj = isUlistStartN st line n ews skip adj := by
  unfold isUlistStart
  rw [if_neg (by omega)]
  rfl

theorem isOlistStart_nat (st : Stack) (line : Str) (n : Nat) (ews : Str) (skip : Bool) (adj : Option Str) :
    isOlistStart st line (n : Int) ews skip adj = isOlistStartN st line n ews skip adj := by
  unfold isOlistStart
  rw [if_neg (by omega)]
  rfl

/-! ## bullets -/

theorem isBulletMarker_iff (d : Str) : isBulletMarker (parseMarker d) = true ↔ ∃ c rest, MarkerAt d (.bullet c) rest := by
  constructor
  · intro h
    cases hp : parseMarker d with
    | none => rw [hp] at h; cases h
    | some x =>
      obtain ⟨m, rest⟩ := x
      cases m with
      | bullet c => exact ⟨c, rest, ListStartsSpec.parseMarker_sound hp⟩
      | ordered ds dl => rw [hp] at h; cases h
  · rintro ⟨c, rest, h⟩
    rw [ListStartsSpec.parseMarker_complete h]; rfl

theorem isOrderedMarker_iff (d : Str) :
    isOrderedMarker (parseMarker d) = true ↔ ∃ ds dl rest, MarkerAt d (.ordered ds dl) rest := by
  constructor
  · intro h
    cases hp : parseMarker d with
    | none => rw [hp] at h; cases h
    | some x =>
      obtain ⟨m, rest⟩ := x
      cases m with
      | bullet c => rw [hp] at h; cases h
      | ordered ds dl => exact ⟨ds, dl, rest, ListStartsSpec.parseMarker_sound hp⟩
  · rintro ⟨ds, dl, rest, h⟩
    rw [ListStartsSpec.parseMarker_complete h]; rfl

theorem bullet_rest {line : Str} {start : Nat} {c : Char} {rest : Str} (h : MarkerAt (line.drop start) (.bullet c) rest) :
    line.drop (start + 1) = rest := by
  obtain ⟨-, hd, -⟩ := h
  exact drop_succ_of hd

/-! ## ordered markers -/

theorem ordered_parts {line : Str} {start : Nat} {ds : Str} {dl : Char} {rest : Str}
    (h : MarkerAt (line.drop start) (.ordered ds dl) rest) :
    digitsEnd line start = start + ds.length ∧ slice line start (digitsEnd line start) = ds ∧
      line.drop (digitsEnd line start + 1) = rest := by
  obtain ⟨⟨h1, h9, hall, hdl⟩, hd, -⟩ := h
  simp only [Marker.text, List.append_assoc, List.singleton_append] at hd
  have hdd : isDigit dl = false := ListStartsSpec.delim_not_digit ((ListStartsSpec.isDelim_iff dl).mpr hdl)
  obtain ⟨htw, hdw⟩ := ListStartsSpec.takeWhile_append_of_all (p := isDigit) ds dl rest hall hdd
  have he : digitsEnd line start = start + ds.length := by
    unfold digitsEnd scanTo
    rw [digits_isDigit, hd, htw]
  refine ⟨he, ?_, ?_⟩
  · unfold digitsEnd
    rw [Recognisers.slice_scanTo, digits_isDigit, hd, htw]
  · have : line.drop (digitsEnd line start) = dl :: rest := by
      unfold digitsEnd
      rw [Recognisers.drop_scanTo, digits_isDigit, hd, hdw]
    exact drop_succ_of this

theorem notOneB_eq {line : Str} {start : Nat} {ds : Str} {dl : Char} {rest : Str}
    (h : MarkerAt (line.drop start) (.ordered ds dl) rest) : notOneB line start = (ds != ['1']) := by
  unfold notOneB
  rw [(ordered_parts h).2.1]

/-! ## the start number -/

theorem foldl_num_ge (ds : Str) (a : Nat) :
    a * 10 ^ ds.length ≤ ds.foldl (fun a ch => a * 10 + (ch.toNat - 48)) a := by
  induction ds generalizing a with
  | nil => simp
  | cons x xs ih =>
    simp only [List.foldl_cons, List.length_cons]
    have := ih (a * 10 + (x.toNat - 48))
    have h2 : a * 10 ^ (xs.length + 1) ≤ (a * 10 + (x.toNat - 48)) * 10 ^ xs.length := by
      rw [Nat.pow_succ, Nat.add_mul]
      have : a * (10 ^ xs.length * 10) = a * 10 * 10 ^ xs.length := by
        rw [Nat.mul_comm (10 ^ xs.length) 10, Nat.mul_assoc]
      omega
    omega

theorem digit_toNat {x : Char} (h : isDigit x = true) : 48 ≤ x.toNat ∧ x.toNat ≤ 57 := by
  unfold isDigit ListStartsSpec.digitChars at h
  simp only [List.contains_cons, List.contains_nil, Bool.or_false, Bool.or_eq_true, beq_iff_eq] at h
  rcases h with h | h | h | h | h | h | h | h | h | h <;> subst h <;> decide

/-- a digit string without a leading zero denotes 1 only if it is the text `1` -/
theorem numberOf_one {ds : Str} (hall : ∀ x ∈ ds, isDigit x = true) (h0 : ds.head? ≠ some '0') (h1 : numberOf ds = 1) :
    ds = ['1'] := by
  cases ds with
  | nil => simp [numberOf] at h1
  | cons x xs =>
    have hx := digit_toNat (hall x (List.mem_cons_self ..))
    have hx0 : x.toNat ≠ 48 := by
      intro h
      apply h0
      have : x = '0' := by
        have : x = Char.ofNat x.toNat := by simp
        rw [this, h]
      rw [this]; rfl
    unfold numberOf at h1
    simp only [List.foldl_cons, Nat.zero_mul, Nat.zero_add] at h1
    have hge := foldl_num_ge xs (x.toNat - 48)
    rw [h1] at hge
    cases xs with
    | nil =>
      simp only [List.foldl_nil] at h1
      have : x.toNat = 49 := by omega
      have : x = '1' := by
        have h' : x = Char.ofNat x.toNat := by simp
        rw [h', this]
      rw [this]
    | cons y ys =>
      exfalso
      simp only [List.length_cons, Nat.pow_succ] at hge
      have hp : 1 ≤ 10 ^ ys.length := Nat.pow_pos (by omega)
      have : 1 ≤ x.toNat - 48 := by omega
      have : 10 ≤ (x.toNat - 48) * (10 ^ ys.length * 10) := by
        calc 10 = 1 * (1 * 10) := by omega
          _ ≤ (x.toNat - 48) * (10 ^ ys.length * 10) := Nat.mul_le_mul this (Nat.mul_le_mul hp (Nat.le_refl _))
      omega

theorem numberOf_one_text : numberOf ['1'] = 1 := by decide

/-! ## thematic breaks and ordered markers do not meet -/

theorem ordered_not_thematic {d : Str} {ds : Str} {dl : Char} {rest : Str} (h : MarkerAt d (.ordered ds dl) rest) :
    ¬ IsThematic d := by
  obtain ⟨⟨h1, -, hall, -⟩, hd, -⟩ := h
  rintro ⟨c, r, hc, hd2, -, -⟩
  cases ds with
  | nil => simp at h1
  | cons x xs =>
    have hx := hall x (List.mem_cons_self ..)
    rw [hd2] at hd
    simp only [Marker.text, List.cons_append] at hd
    injection hd with hcx _
    subst hcx
    rcases hc with h | h | h <;> subst h <;> revert hx <;> decide

theorem blank_iff_blankB (rest : Str) : Blank rest ↔ blankB rest = true := (ListStartsSpec.blankB_iff rest).symm

theorem lenLe_iff_cols (w : Str) (n : Nat) : lenLe w n = true ↔ colsFrom 0 w ≤ n := by
  unfold lenLe
  rw [ListStartsSpec.calcLength_eq_colsFrom]
  simp

end Verif.Model.ListStarts
