import Verif.Lemmas.TokenRules.Md037Basic
/-!
  MD037 — what an `EligibleEmphasis` and a `PendingFixes` record say about the text they were taken from:
  `EGood037` (a genuine run of one emphasis character with its two neighbours) and `PGood037` (a non-empty run of blanks inside the
  text, directly after or directly before an emphasis character).
-/
namespace Verif.Model.TokenRules
open Verif.Model

/-! ## the three collectors -/

theorem runLen037_le (ch : Char) : ∀ (s : Str), runLen037 ch s ≤ s.length
  | [] => Nat.le_refl 0
  | c :: cs => by
    unfold runLen037
    split
    · have := runLen037_le ch cs; simp only [List.length_cons]; omega
    · exact Nat.zero_le _

theorem runLen037_get (ch : Char) : ∀ (s : Str) (k : Nat), k < runLen037 ch s → s[k]? = some ch
  | [], k, h => by simp [runLen037] at h
  | c :: cs, k, h => by
    unfold runLen037 at h
    split at h
    · rename_i hc
      cases k with
      | zero => simp [hc]
      | succ k => simp only [List.getElem?_cons_succ]; exact runLen037_get ch cs k (by omega)
    · omega

theorem runLen037_pos (ch : Char) (s : Str) (h : s[0]? = some ch) : 1 ≤ runLen037 ch s := by
  cases s with
  | nil => simp at h
  | cons c cs =>
    simp only [List.getElem?_cons_zero, Option.some.injEq] at h
    unfold runLen037; rw [if_pos h]; omega

theorem blanksFwd037_le : ∀ (s : Str), blanksFwd037 s ≤ s.length
  | [] => Nat.le_refl 0
  | c :: cs => by
    unfold blanksFwd037
    split
    · have := blanksFwd037_le cs; simp only [List.length_cons]; omega
    · exact Nat.zero_le _

theorem blanksFwd037_get : ∀ (s : Str) (k : Nat), k < blanksFwd037 s → ∃ c, s[k]? = some c ∧ isBlank037 c = true
  | [], k, h => by simp [blanksFwd037] at h
  | c :: cs, k, h => by
    unfold blanksFwd037 at h
    split at h
    · rename_i hc
      cases k with
      | zero => exact ⟨c, by simp, hc⟩
      | succ k => simp only [List.getElem?_cons_succ]; exact blanksFwd037_get cs k (by omega)
    · omega

/-- the collector stops at the end of the string or on a character that is not a blank -/
theorem blanksFwd037_stop : ∀ (s : Str), isBlankO037 (s[blanksFwd037 s]?) = false
  | [] => rfl
  | c :: cs => by
    unfold blanksFwd037
    split
    · simp only [List.getElem?_cons_succ]; exact blanksFwd037_stop cs
    · rename_i hc; simp only [List.getElem?_cons_zero, isBlankO037]; simpa using hc

theorem blanksFwd037_pos (s : Str) (c : Char) (h : s[0]? = some c) (hb : isBlank037 c = true) : 1 ≤ blanksFwd037 s := by
  cases s with
  | nil => simp at h
  | cons d ds =>
    simp only [List.getElem?_cons_zero, Option.some.injEq] at h; subst h
    unfold blanksFwd037; rw [if_pos hb]; omega

theorem blanksBack037_le (s : Str) : blanksBack037 s ≤ s.length := by
  unfold blanksBack037; have := blanksFwd037_le s.reverse; simpa using this

theorem blanksBack037_get (s : Str) (k : Nat) (h : k < blanksBack037 s) :
    ∃ c, s[s.length - 1 - k]? = some c ∧ isBlank037 c = true := by
  unfold blanksBack037 at h
  obtain ⟨c, hc, hb⟩ := blanksFwd037_get s.reverse k h
  have hl := blanksFwd037_le s.reverse
  rw [List.length_reverse] at hl
  refine ⟨c, ?_, hb⟩
  rw [List.getElem?_reverse (by omega)] at hc
  exact hc

/-- going backwards the collector stops at the start of the string or on a character that is not a blank -/
theorem blanksBack037_stop (s : Str) (h : blanksBack037 s < s.length) :
    isBlankO037 (s[s.length - 1 - blanksBack037 s]?) = false := by
  have := blanksFwd037_stop s.reverse
  unfold blanksBack037 at h ⊢
  rw [List.getElem?_reverse (by simpa using h)] at this
  exact this

/-! ## `EligibleEmphasis` -/

structure EGood037 (e : Emph037) : Prop where
  ch : e.ch = '*' ∨ e.ch = '_'
  len : 1 ≤ e.len
  inside : e.start + e.len ≤ e.text.length
  run : ∀ k, k < e.len → e.text[e.start + k]? = some e.ch
  before : e.before = if e.start = 0 then none else e.text[e.start - 1]?
  after : e.after = e.text[e.start + e.len]?

/-- what `__find_next_eligible_emphasis` hands to `__check_text_token` is a genuine run of `*` or `_` with its neighbours -/
theorem findNext037_good {text : Str} {start nx : Nat} {f : Found037} (h : findNext037 text start = (some f, some nx))
    (i : Nat) (line col : Int) : EGood037 ⟨f.ch, f.start, f.len, f.before, f.after, i, text, line, col⟩ ∧ nx = f.start := by
  rcases findNext037_cases text start with h0 | ⟨si, ch, hp, h1 | h1⟩
  · rw [h0] at h; cases h
  · rw [h1] at h; cases h
  · rw [h1] at h
    simp only [Prod.mk.injEq, Option.some.injEq] at h
    obtain ⟨hf, hn⟩ := h
    subst hf
    obtain ⟨_, hlt, hch, hc⟩ := pick037_bounds hp
    refine ⟨⟨hc, ?_, ?_, ?_, rfl, rfl⟩, hn.symm⟩
    · exact runLen037_pos ch _ (by rw [List.getElem?_drop]; simpa using hch)
    · have := runLen037_le ch (text.drop si)
      simp only [List.length_drop] at this
      show si + runLen037 ch (text.drop si) ≤ text.length
      omega
    · intro k hk
      have := runLen037_get ch (text.drop si) k hk
      rw [List.getElem?_drop] at this
      exact this

/-! ## `PendingFixes` -/

structure PGood037 (p : Pend037) : Prop where
  nonempty : p.start < p.stop
  inside : p.stop ≤ p.text.length
  blank : ∀ k, p.start ≤ k → k < p.stop → ∃ c, p.text[k]? = some c ∧ isBlank037 c = true
  marker : (0 < p.start ∧ (p.text[p.start - 1]? = some '*' ∨ p.text[p.start - 1]? = some '_')) ∨
           (p.text[p.stop]? = some '*' ∨ p.text[p.stop]? = some '_')

/-- `__fix(…, was_after=True)`, called when the character after the run is a space: the blanks directly after the run, all of them -/
theorem fixAfter037_good (e : Emph037) (he : EGood037 e) (ha : e.after = some ' ') :
    PGood037 (fixAfter037 e) ∧ (fixAfter037 e).tidx = e.tidx ∧ (fixAfter037 e).text = e.text ∧
      (fixAfter037 e).start = e.start + e.len ∧ isBlankO037 (e.text[(fixAfter037 e).stop]?) = false := by
  have hsp : e.text[e.start + e.len]? = some ' ' := by rw [← he.after]; exact ha
  have hpos : 1 ≤ blanksFwd037 (e.text.drop (e.start + e.len)) :=
    blanksFwd037_pos _ ' ' (by rw [List.getElem?_drop]; simpa using hsp) (by decide)
  have hle := blanksFwd037_le (e.text.drop (e.start + e.len))
  simp only [List.length_drop] at hle
  refine ⟨⟨?_, ?_, ?_, ?_⟩, rfl, rfl, rfl, ?_⟩
  · show e.start + e.len < e.start + e.len + blanksFwd037 _; omega
  · show e.start + e.len + blanksFwd037 _ ≤ e.text.length; omega
  · intro k h1 h2
    have h1' : e.start + e.len ≤ k := h1
    have h2' : k < e.start + e.len + blanksFwd037 (e.text.drop (e.start + e.len)) := h2
    obtain ⟨c, hc, hb⟩ := blanksFwd037_get (e.text.drop (e.start + e.len)) (k - (e.start + e.len)) (by omega)
    rw [List.getElem?_drop] at hc
    exact ⟨c, by rw [← hc]; congr 1; omega, hb⟩
  · left
    refine ⟨by show 0 < e.start + e.len; have := he.len; omega, ?_⟩
    have := he.run (e.len - 1) (by have := he.len; omega)
    have heq : e.start + e.len - 1 = e.start + (e.len - 1) := by have := he.len; omega
    show e.text[e.start + e.len - 1]? = some '*' ∨ e.text[e.start + e.len - 1]? = some '_'
    rw [heq, this]
    rcases he.ch with h | h <;> simp [h]
  · have := blanksFwd037_stop (e.text.drop (e.start + e.len))
    rw [List.getElem?_drop] at this
    exact this

/-- `__fix(…, was_after=False)`, called when the character before the run is a space: the blanks directly before the run, all of them -/
theorem fixBefore037_good (e : Emph037) (he : EGood037 e) (hb : e.before = some ' ') :
    PGood037 (fixBefore037 e) ∧ (fixBefore037 e).tidx = e.tidx ∧ (fixBefore037 e).text = e.text ∧
      (fixBefore037 e).stop = e.start ∧
      ((fixBefore037 e).start = 0 ∨ isBlankO037 (e.text[(fixBefore037 e).start - 1]?) = false) := by
  have h0 : e.start ≠ 0 := by
    intro h; have := he.before; rw [if_pos h, hb] at this; cases this
  have hsp : e.text[e.start - 1]? = some ' ' := by
    have := he.before; rw [if_neg h0, hb] at this; exact this.symm
  have hin := he.inside
  have hlen : (e.text.take (e.start - 1)).length = e.start - 1 := by simp; omega
  have hle := blanksBack037_le (e.text.take (e.start - 1))
  rw [hlen] at hle
  refine ⟨⟨?_, ?_, ?_, ?_⟩, rfl, rfl, rfl, ?_⟩
  · show e.start - 1 - blanksBack037 _ < e.start; omega
  · show e.start ≤ e.text.length; omega
  · intro k h1 h2
    have h1' : e.start - 1 - blanksBack037 (e.text.take (e.start - 1)) ≤ k := h1
    have h2' : k < e.start := h2
    by_cases hk : k = e.start - 1
    · exact ⟨' ', by rw [hk]; exact hsp, by decide⟩
    · obtain ⟨c, hc, hbl⟩ := blanksBack037_get (e.text.take (e.start - 1)) (e.start - 1 - 1 - k) (by omega)
      rw [hlen, List.getElem?_take] at hc
      have hidx : e.start - 1 - 1 - (e.start - 1 - 1 - k) = k := by omega
      rw [hidx, if_pos (by omega)] at hc
      exact ⟨c, hc, hbl⟩
  · right
    have := he.run 0 he.len
    show e.text[e.start]? = some '*' ∨ e.text[e.start]? = some '_'
    rw [Nat.add_zero] at this
    rw [this]
    rcases he.ch with h | h <;> simp [h]
  · by_cases hz : e.start - 1 - blanksBack037 (e.text.take (e.start - 1)) = 0
    · exact .inl hz
    · right
      have hlt : blanksBack037 (e.text.take (e.start - 1)) < (e.text.take (e.start - 1)).length := by rw [hlen]; omega
      have := blanksBack037_stop (e.text.take (e.start - 1)) hlt
      rw [hlen, List.getElem?_take, if_pos (by omega)] at this
      show isBlankO037 (e.text[e.start - 1 - blanksBack037 (e.text.take (e.start - 1)) - 1]?) = false
      have hidx : e.start - 1 - blanksBack037 (e.text.take (e.start - 1)) - 1 = e.start - 1 - 1 - blanksBack037 (e.text.take (e.start - 1)) := by omega
      rw [hidx]; exact this

end Verif.Model.TokenRules
