import Verif.Lemmas.TokenRules.Md030Ok2
/-!
  MD030 over `Tok2`, ALL streams: which exceptions the fix can end with.  The `KeyError` of `ListTracker.get_start_stop` and the
  `ValueError` of `actual_tokens.index` are modelled and unreachable: the token-keyed dicts of a level always hold the level's tokens,
  and every request names a token of the stream.
-/
namespace Verif.Model.TokenRules

/-- the four exceptions the fix of MD030 can end with -/
def FixErr030 (e : Err2) : Prop := e = .assertion ∨ e = .indexError ∨ e = .attributeError ∨ e = .badFix

theorem step030f_error (s : St030f) (i : Nat) (t : Tok2) (e : Err2) (h : step030f s i t = .error e) :
    e = .assertion ∨ e = .indexError := by
  cases hc : cls030 t.kind with
  | start => rw [step030f_start s i t hc] at h; cases h
  | stop =>
    rw [step030f_stop s i t hc] at h
    cases hs : s.stack with
    | nil => rw [hs] at h; cases h; exact .inl rfl
    | cons fr rest => rw [hs] at h; cases h
  | item =>
    rw [step030f_item s i t hc] at h
    cases hs : s.stack with
    | nil => rw [hs] at h; cases h; exact .inr rfl
    | cons fr rest => rw [hs] at h; cases h
  | para =>
    rw [step030f_para s i t hc] at h
    cases hs : s.stack with
    | nil => rw [hs] at h; cases h
    | cons fr rest => rw [hs] at h; cases h
  | other => rw [step030f_other s i t hc] at h; cases h

/-- after `ListTracker.list_end` every registered token has its start and stop -/
theorem regs_startStop030 (c : C030) (all : List Tok2) (fr : Fr030f) (hF : FrOk030 all fr) :
    ∀ r ∈ regMap030 (viol030 c fr.ordered fr.ents), ∃ a b,
      startStop030 { fr with ends := dictSet030 fr.cur fr.lineCount fr.ends } r.1 = .ok (a, b) ∧ b ≤ fr.lineCount := by
  intro r hr
  rcases regMap030_keys _ [] r hr with h | ⟨v, hv, hvr⟩
  · cases h
  · obtain ⟨hv1, _, _⟩ := (mem_viol030 c _ _ v).mp hv
    have hq : (v.1, v.2.1) ∈ fr.ents := hv1
    unfold startStop030
    simp only
    rw [← hvr]
    have h1 := hF.starts _ hq
    cases hs : dictGet030 v.1 fr.starts with
    | none => simp only [hs] at h1; cases h1
    | some a =>
      simp only
      by_cases hqc : fr.cur = v.1
      · rw [hqc, dictGet_dictSet_same030]
        exact ⟨a, _, rfl, Nat.le_refl _⟩
      · rw [dictGet_dictSet_ne030 _ _ _ hqc]
        obtain ⟨b, hb1, hb2⟩ := hF.ends _ hq (fun e => hqc e.symm)
        simp only at hb1
        rw [hb1]
        exact ⟨a, b, rfl, hb2⟩

theorem listEnd030f_error (c : C030) (all : List Tok2) (fr : Fr030f) (t : Tok2) (hF : FrOk030 all fr) (e : Err2)
    (h : listEnd030f c true all fr t = .error e) : e = .attributeError ∨ e = .indexError := by
  have hregs := regs_startStop030 c all fr hF
  unfold listEnd030f at h
  simp only [↓reduceIte] at h
  split at h
  · cases h
  · split at h
    · rename_i e' he'
      cases h
      unfold regs030 at he'
      split at he'
      · cases he'; exact .inl rfl
      · split at he'
        · cases he'; exact .inl rfl
        · split at he'
          · cases he'; exact .inl rfl
          · split at he'
            · cases he'
            · split at he'
              · cases he'
              · rename_i ld _ _
                rcases (regsGo030_ok _ fr.lineCount _ (splitOn1 '\n' ld) hregs).2 with ⟨ls', hls'⟩ | herr
                · rw [hls'] at he'
                  simp only at he'
                  split at he' <;> cases he'
                · rw [herr] at he'
                  cases he'
                  exact .inr rfl
    · cases h

theorem closings_frok030 (all : List Tok2) : ∀ (ts : List Tok2) (s : St030f) (i : Nat), StOk030 all s → all.drop i = ts →
    ∀ cl ∈ closings030 s i ts, FrOk030 all cl.1 := by
  intro ts
  induction ts with
  | nil => intro s i _ _ cl h; cases h
  | cons t ts ih =>
    intro s i hS hd cl hcl
    obtain ⟨ht, hd'⟩ := drop_cons_get030 all i t ts hd
    unfold closings030 at hcl
    rcases List.mem_append.mp hcl with hcl | hcl
    · unfold closing030 at hcl
      split at hcl
      · cases hs : s.stack with
        | nil => rw [hs] at hcl; cases hcl
        | cons fr rest =>
          rw [hs] at hcl
          simp only [List.mem_singleton] at hcl
          subst hcl
          exact hS fr (by rw [hs]; exact List.mem_cons_self)
      · cases hcl
    · cases hst : step030f s i t with
      | error e => rw [hst] at hcl; cases hcl
      | ok s1 =>
        rw [hst] at hcl
        exact ih s1 (i + 1) (hS.step ht hst) hd' cl hcl

theorem runFrom2_md030f_error (c : C030) (all : List Tok2) : ∀ (ts : List Tok2) (s : St030f) (i : Nat) (e : Err2),
    StOk030 all s → all.drop i = ts → runFrom2 md030f c true all s i ts = .error e →
    e = .assertion ∨ e = .indexError ∨ e = .attributeError := by
  intro ts
  induction ts with
  | nil => intro s i e _ _ h; cases h
  | cons t ts ih =>
    intro s i e hS hd h
    obtain ⟨ht, hd'⟩ := drop_cons_get030 all i t ts hd
    unfold runFrom2 at h
    rw [show md030f.next = next030f from rfl] at h
    unfold next030f at h
    cases hst : step030f s i t with
    | error e0 =>
      rw [hst] at h
      cases h
      rcases step030f_error s i t e hst with h' | h'
      · exact .inl h'
      · exact .inr (.inl h')
    | ok s1 =>
      rw [hst] at h
      simp only at h
      cases hout : out030f c true all s t with
      | error e0 =>
        rw [hout] at h
        cases h
        -- the output of the token is that of the closing it causes
        rw [out030f_eq_outs] at hout
        unfold closing030 at hout
        split at hout
        · cases hs : s.stack with
          | nil => rw [hs] at hout; cases hout
          | cons fr rest =>
            rw [hs] at hout
            simp only [outs030] at hout
            cases hl : listEnd030f c true all fr t with
            | error e1 =>
              rw [hl] at hout
              cases hout
              rcases listEnd030f_error c all fr t (hS fr (by rw [hs]; exact List.mem_cons_self)) e hl with h' | h'
              · exact .inr (.inr h')
              · exact .inr (.inl h')
            | ok o1 => rw [hl] at hout; cases hout
        · cases hout
      | ok o1 =>
        rw [hout] at h
        simp only at h
        cases hr : runFrom2 md030f c true all s1 (i + 1) ts with
        | error e1 =>
          rw [hr] at h
          cases h
          exact ih s1 (i + 1) e (hS.step ht hst) hd' hr
        | ok x => rw [hr] at h; cases h

theorem applyFieldsGo_error (reqs : List FixReq2) : ∀ (order : List Nat) (cur : List Tok2) (e : Err2),
    (∀ i ∈ order, i < cur.length) → applyFieldsGo reqs order cur = .error e → e = .badFix := by
  intro order
  induction order with
  | nil => intro cur e _ h; cases h
  | cons i is ih =>
    intro cur e hlt h
    unfold applyFieldsGo at h
    have hi := hlt i List.mem_cons_self
    have : cur[i]? = some cur[i] := by simp [hi]
    rw [this] at h
    simp only at h
    cases hg : applyGroup2 cur[i] (groupOf2 reqs i) with
    | error e0 =>
      rw [hg] at h
      cases h
      unfold applyGroup2 at hg
      split at hg
      · cases hg; rfl
      · -- `modAll2` fails with `BadPluginFixError` only
        have : ∀ (g : List (Field2 × Val)) (t : Tok2) e, modAll2 t g = .error e → e = .badFix := by
          intro g
          induction g with
          | nil => intro t e h; cases h
          | cons p g ihg =>
            intro t e h
            obtain ⟨f, v⟩ := p
            unfold modAll2 at h
            split at h
            · exact ihg _ e h
            · cases h; rfl
        exact this _ _ e hg
    | ok t' =>
      rw [hg] at h
      simp only at h
      exact ih _ e (by intro j hj; simpa using hlt j (List.mem_cons_of_mem _ hj)) h

/-- on ANY stream the fix of MD030 succeeds or ends with one of four exceptions — never `KeyError`, never `ValueError` -/
theorem fix2_md030f_errors (c : C030) (toks : List Tok2) :
    (∃ toks', fix2 md030f c toks = .ok toks') ∨ ∃ e, fix2 md030f c toks = .error e ∧ FixErr030 e := by
  unfold fix2 fixOut
  rw [show md030f.init c = ({} : St030f) from rfl]
  cases hr : runFrom2 md030f c true toks {} 0 toks with
  | error e =>
    right
    refine ⟨e, rfl, ?_⟩
    rcases runFrom2_md030f_error c toks toks {} 0 e (by intro fr h; cases h) (by simp) hr with h | h | h
    · exact .inl h
    · exact .inr (.inl h)
    · exact .inr (.inr (.inl h))
  | ok x =>
    obtain ⟨s', o⟩ := x
    simp only
    obtain ⟨_, houts⟩ := runFrom2_md030f_ok c true toks toks {} 0 s' o hr
    obtain ⟨_, hrepl, hreq, _⟩ := outs030_fix c toks _ o houts
    obtain ⟨_, _, hdata⟩ := closings_facts030 toks toks {} 0 (Inv030.init toks) (by simp)
    rw [hrepl, applyFixes2_noRepl030]
    cases hf : applyFields toks o.reqs with
    | ok ts => exact .inl ⟨_, rfl⟩
    | error e =>
      right
      refine ⟨e, rfl, .inr (.inr (.inr ?_))⟩
      unfold applyFields at hf
      apply applyFieldsGo_error o.reqs _ toks e _ hf
      intro i hi
      obtain ⟨hm, _⟩ := (firstOcc_mem [] _ i).mp hi
      obtain ⟨q, hq, rfl⟩ := List.mem_map.mp hm
      obtain ⟨cl, hclm, ocl, hocl, hqo⟩ := hreq q hq
      obtain ⟨_, _, lead, hl, hlead⟩ := listEnd030f_fix c toks cl.1 cl.2 ocl hocl
      rw [hl] at hqo
      have hsome : ∃ t0, toks[q.idx]? = some t0 := by
        rcases List.mem_append.mp hqo with hqo | hqo
        · obtain ⟨w, hw, rfl⟩ := List.mem_map.mp hqo
          obtain ⟨w1, _, _⟩ := (mem_viol030 c _ _ w).mp hw
          obtain ⟨t0, ht0, _⟩ := hdata cl hclm _ w1
          exact ⟨t0, ht0⟩
        · rcases hlead with hlead | ⟨_, hlead⟩
          · rw [hlead] at hqo; cases hqo
          · obtain ⟨j, lt, _, hlt', _, hrq⟩ := regs030_shape toks cl.2 _ _ lead hlead
            rcases hrq with hrq | ⟨ld, ls, _, _, _, _, hrq⟩
            · rw [hrq] at hqo; cases hqo
            · rw [hrq] at hqo
              simp only [List.mem_singleton] at hqo
              subst hqo
              exact ⟨lt, hlt'⟩
      obtain ⟨t0, ht0⟩ := hsome
      rcases Nat.lt_or_ge q.idx toks.length with h | h
      · exact h
      · rw [List.getElem?_eq_none h] at ht0; cases ht0

end Verif.Model.TokenRules
