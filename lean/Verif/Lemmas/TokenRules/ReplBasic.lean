import Verif.Model.TokenRules.Basic2
/-!
  Generic theory of `applyFixes2` with replacement records (`Repl`, `applyRepl`, `reindex`, `collide` of `Model/TokenRules/Basic2`)
  — part 1: the projections, the small list lemmas (`findTag`, `skipEnds`, `modStore`, `modSeg`, `tagNew`, `reindex`).
-/
namespace Verif.Model.TokenRules

/-! ## projections: the fields the replacement machinery itself rewrites -/
/-- everything but `line` and `pragmaLines` (what `adjLine` / `adjPragma` may change) -/
def coreL (t : Tok2) : Tok2 := { t with line := 0, pragmaLines := [] }

/-- everything but `line`, `startIdx` and `pragmaLines` (`reindex` renumbers `startIdx`) -/
def core (t : Tok2) : Tok2 := { t with line := 0, startIdx := none, pragmaLines := [] }

theorem coreL_adjLine (d : Int) (t : Tok2) : coreL (adjLine d t) = coreL t := by
  unfold adjLine; split <;> rfl

theorem coreL_adjPragma (l d : Int) (t : Tok2) : coreL (adjPragma l d t) = coreL t := rfl

theorem adjPragma_line (l d : Int) (t : Tok2) : (adjPragma l d t).line = t.line := rfl

theorem core_of_coreL {t u : Tok2} (h : coreL t = coreL u) : core t = core u := by
  have : core t = { coreL t with startIdx := none } := rfl
  rw [this, h]; rfl

theorem coreL_kind {t u : Tok2} (h : coreL t = coreL u) : t.kind = u.kind := congrArg (·.kind) h
theorem coreL_startIdx {t u : Tok2} (h : coreL t = coreL u) : t.startIdx = u.startIdx := congrArg (·.startIdx) h
theorem core_kind {t u : Tok2} (h : core t = core u) : t.kind = u.kind := congrArg (·.kind) h
theorem core_text {t u : Tok2} (h : core t = core u) : t.text = u.text := congrArg (·.text) h
theorem core_ws {t u : Tok2} (h : core t = core u) : t.ws = u.ws := congrArg (·.ws) h
theorem core_col {t u : Tok2} (h : core t = core u) : t.col = u.col := congrArg (·.col) h

/-- a token is determined by its `core` and the three fields `core` forgets -/
theorem eq_of_core {t u : Tok2} (h : core t = core u) (h1 : t.line = u.line) (h2 : t.startIdx = u.startIdx)
    (h3 : t.pragmaLines = u.pragmaLines) : t = u := by
  have e : ∀ x : Tok2, x = { core x with line := x.line, startIdx := x.startIdx, pragmaLines := x.pragmaLines } := fun _ => rfl
  rw [e t, e u, h, h1, h2, h3]

/-- the same for elements of the working list -/
def wcoreL : WTok → WTok
  | .orig i => .orig i
  | .new o t => .new o (coreL t)

/-! ## `rangeIncl`, `collide` -/
theorem mem_rangeIncl (a b j : Nat) : j ∈ rangeIncl a b ↔ a ≤ j ∧ j ≤ b := by
  unfold rangeIncl
  simp only [List.mem_map, List.mem_range]
  constructor
  · rintro ⟨x, hx, rfl⟩; omega
  · rintro ⟨h1, h2⟩; exact ⟨j - a, by omega, by omega⟩

/-! ## `findTag` -/
theorem findTag_lt (i : Nat) : ∀ (l : List WTok) (p : Nat), findTag i l = some p → p < l.length := by
  intro l
  induction l with
  | nil => intro p h; simp [findTag] at h
  | cons x ws ih =>
    intro p h
    simp only [findTag] at h
    split at h
    · cases h; simp
    · cases hf : findTag i ws with
      | none => rw [hf] at h; simp at h
      | some q =>
        rw [hf] at h
        simp only [Option.map_some, Option.some.injEq] at h
        have := ih q hf
        simp only [List.length_cons]; omega

theorem findTag_getElem (i : Nat) : ∀ (l : List WTok) (p : Nat), findTag i l = some p → l[p]? = some (.orig i) := by
  intro l
  induction l with
  | nil => intro p h; simp [findTag] at h
  | cons x ws ih =>
    intro p h
    simp only [findTag] at h
    split at h
    · rename_i hx; cases h; simp [hx]
    · cases hf : findTag i ws with
      | none => rw [hf] at h; simp at h
      | some q =>
        rw [hf] at h
        simp only [Option.map_some, Option.some.injEq] at h
        subst h
        simpa using ih q hf

theorem findTag_append_of_not_mem (i : Nat) : ∀ (pre l : List WTok), WTok.orig i ∉ pre →
    findTag i (pre ++ l) = (findTag i l).map (· + pre.length) := by
  intro pre
  induction pre with
  | nil => intro l _; simp
  | cons x ws ih =>
    intro l h
    have hx : ¬ x = .orig i := fun e => h (e ▸ List.mem_cons_self)
    have hw : WTok.orig i ∉ ws := fun e => h (List.mem_cons_of_mem _ e)
    simp only [List.cons_append, findTag, hx, ↓reduceIte, ih l hw, Option.map_map, List.length_cons]
    congr 1

theorem findTag_origRange (j : Nat) : ∀ (m k : Nat),
    findTag j ((List.range' k m).map WTok.orig) = if k ≤ j ∧ j < k + m then some (j - k) else none := by
  intro m
  induction m with
  | zero => intro k; simp [findTag]
  | succ m ih =>
    intro k
    simp only [List.range'_succ, List.map_cons, findTag, ih]
    by_cases h : k = j
    · subst h; simp
    · have h1 : ¬ (WTok.orig k = WTok.orig j) := by intro e; cases e; exact h rfl
      simp only [h1, ↓reduceIte]
      by_cases h2 : k + 1 ≤ j ∧ j < k + 1 + m
      · have h3 : k ≤ j ∧ j < k + (m + 1) := by omega
        simp only [h2, and_self, ↓reduceIte, Option.map_some, h3, Option.some.injEq]; omega
      · have h3 : ¬ (k ≤ j ∧ j < k + (m + 1)) := by omega
        simp [h2, h3]

theorem findTag_wcoreL (i : Nat) : ∀ (l : List WTok), findTag i (l.map wcoreL) = findTag i l := by
  intro l
  induction l with
  | nil => rfl
  | cons x ws ih =>
    simp only [List.map_cons, findTag, ih]
    cases x with
    | orig k => rfl
    | new o t => simp [wcoreL]

/-! ## `skipEnds` -/
theorem skipEnds_bounds (w : Work) (e : Nat) : ∀ (fuel a : Nat), a ≤ e → a ≤ skipEnds w e fuel a ∧ skipEnds w e fuel a ≤ e := by
  intro fuel
  induction fuel with
  | zero => intro a h; exact ⟨Nat.le_refl _, h⟩
  | succ fuel ih =>
    intro a h
    simp only [skipEnds]
    split
    · split
      · rename_i hc
        have := ih (a + 1) (by omega)
        omega
      · exact ⟨Nat.le_refl _, h⟩
    · exact ⟨Nat.le_refl _, h⟩

/-- the token at the start position is no end token: the loop does not move -/
theorem skipEnds_notEnd (w : Work) (e fuel a : Nat) (t : Tok2) (h : w.list[a]? >>= w.tok = some t) (hk : t.kind.isEnd = false) :
    skipEnds w e fuel a = a := by
  cases fuel with
  | zero => rfl
  | succ fuel => simp only [skipEnds, h, hk, Bool.false_eq_true, and_false, ↓reduceIte]

/-! ## `modStore`, `modSeg` -/
theorem modStore_length (f : Tok2 → Tok2) (st : List Tok2) (i : Nat) : (modStore f st i).length = st.length := by
  unfold modStore; split <;> simp

theorem modStore_getElem? (f : Tok2 → Tok2) (st : List Tok2) (i j : Nat) :
    (modStore f st i)[j]? = if j = i then st[j]?.map f else st[j]? := by
  unfold modStore
  split
  · rename_i t ht
    rw [List.getElem?_set]
    by_cases hji : j = i
    · subst hji
      have hlt : j < st.length := by
        rcases Nat.lt_or_ge j st.length with h | h
        · exact h
        · rw [List.getElem?_eq_none h] at ht; cases ht
      rw [List.getElem?_eq_getElem hlt] at ht
      cases ht
      simp [hlt]
    · have : ¬ i = j := fun e => hji e.symm
      simp [hji, this]
  · rename_i hn
    by_cases hji : j = i
    · subst hji; simp [hn]
    · simp [hji]

theorem modSeg_orig (f : Tok2 → Tok2) : ∀ (l : List Nat) (st : List Tok2),
    modSeg f st (l.map .orig) = (l.foldl (modStore f) st, l.map .orig) := by
  intro l
  induction l with
  | nil => intro st; rfl
  | cons i l ih =>
    intro st
    simp only [List.map_cons, modSeg, ih, List.foldl_cons]

theorem foldl_modStore_length (f : Tok2 → Tok2) : ∀ (l : List Nat) (st : List Tok2), (l.foldl (modStore f) st).length = st.length := by
  intro l
  induction l with
  | nil => intro st; rfl
  | cons i l ih => intro st; simp only [List.foldl_cons, ih, modStore_length]

/-- a field-preserving `f` on a segment: every object keeps its `coreL` -/
theorem foldl_modStore_coreL (f : Tok2 → Tok2) (hf : ∀ t, coreL (f t) = coreL t) : ∀ (l : List Nat) (st : List Tok2) (j : Nat),
    ((l.foldl (modStore f) st)[j]?).map coreL = (st[j]?).map coreL := by
  intro l
  induction l with
  | nil => intro st j; rfl
  | cons i l ih =>
    intro st j
    simp only [List.foldl_cons]
    rw [ih, modStore_getElem?]
    split
    · cases st[j]? <;> simp [hf]
    · rfl

/-- on a segment of consecutive objects: exactly those are changed, once -/
theorem foldl_modStore_range' (f : Tok2 → Tok2) : ∀ (m a : Nat) (st : List Tok2) (j : Nat),
    (((List.range' a m).foldl (modStore f) st)[j]?) = if a ≤ j ∧ j < a + m then (st[j]?).map f else st[j]? := by
  intro m
  induction m with
  | zero =>
    intro a st j
    have : ¬ (a ≤ j ∧ j < a + 0) := by omega
    rw [if_neg this]; rfl
  | succ m ih =>
    intro a st j
    simp only [List.range'_succ, List.foldl_cons]
    rw [ih, modStore_getElem?]
    by_cases h1 : j = a
    · subst h1
      have h2 : ¬ (j + 1 ≤ j ∧ j < j + 1 + m) := by omega
      have h3 : j ≤ j ∧ j < j + (m + 1) := by omega
      simp [h2, h3]
    · by_cases h2 : a + 1 ≤ j ∧ j < a + 1 + m
      · have h3 : a ≤ j ∧ j < a + (m + 1) := by omega
        simp [h1, h2, h3]
      · have h3 : ¬ (a ≤ j ∧ j < a + (m + 1)) := by omega
        simp [h1, h2, h3]

theorem modSeg_single (f : Tok2 → Tok2) (st : List Tok2) (x : WTok) :
    modSeg f st [x] = match x with
      | .orig i => (modStore f st i, [.orig i])
      | .new o t => (st, [.new o (f t)]) := by
  cases x <;> rfl

/-! ## `tagNew` -/
def tagOne (p : Nat) : RTok → WTok
  | .new t => .new p t
  | .ref i => .orig i

theorem tagNew_getElem? : ∀ (ts : List RTok) (b q : Nat), (tagNew b ts)[q]? = (ts[q]?).map (tagOne (b + q)) := by
  intro ts
  induction ts with
  | nil => intro b q; simp [tagNew]
  | cons x ts ih =>
    intro b q
    cases q with
    | zero => cases x <;> simp [tagNew, tagOne]
    | succ q =>
      cases x <;> simp only [tagNew, List.getElem?_cons_succ, ih] <;> congr 2 <;> omega

theorem tagNew_length : ∀ (ts : List RTok) (b : Nat), (tagNew b ts).length = ts.length := by
  intro ts
  induction ts with
  | nil => intro b; rfl
  | cons x ts ih => intro b; cases x <;> simp [tagNew, ih]

theorem tagNew_ne_nil (ts : List RTok) (b : Nat) (h : ts ≠ []) : tagNew b ts ≠ [] := by
  intro e
  have := tagNew_length ts b
  rw [e] at this
  cases ts with
  | nil => exact h rfl
  | cons _ _ => simp at this

theorem mem_tagNew_orig : ∀ (ts : List RTok) (b j : Nat), WTok.orig j ∈ tagNew b ts → RTok.ref j ∈ ts := by
  intro ts
  induction ts with
  | nil => intro b j h; simp [tagNew] at h
  | cons x ts ih =>
    intro b j h
    cases x with
    | new t =>
      simp only [tagNew, List.mem_cons] at h
      rcases h with h | h
      · cases h
      · exact List.mem_cons_of_mem _ (ih _ _ h)
    | ref i =>
      simp only [tagNew, List.mem_cons] at h
      rcases h with h | h
      · cases h; exact List.mem_cons_self
      · exact List.mem_cons_of_mem _ (ih _ _ h)

theorem mem_tagNew_new : ∀ (ts : List RTok) (b o : Nat) (t : Tok2), WTok.new o t ∈ tagNew b ts → RTok.new t ∈ ts := by
  intro ts
  induction ts with
  | nil => intro b o t h; simp [tagNew] at h
  | cons x ts ih =>
    intro b o t h
    cases x with
    | new u =>
      simp only [tagNew, List.mem_cons] at h
      rcases h with h | h
      · cases h; exact List.mem_cons_self
      · exact List.mem_cons_of_mem _ (ih _ _ _ h)
    | ref i =>
      simp only [tagNew, List.mem_cons] at h
      rcases h with h | h
      · cases h
      · exact List.mem_cons_of_mem _ (ih _ _ _ h)

/-! ## the tokens a working list denotes -/
/-- `Work.tok` as a function of the store alone -/
def tokOf (st : List Tok2) : WTok → Option Tok2
  | .orig i => st[i]?
  | .new _ t => some t

theorem Work.tok_eq (w : Work) : w.tok = tokOf w.store := by
  funext x; cases x <;> rfl

/-- the stream a working list denotes, given the object states -/
def view (st : List Tok2) (l : List WTok) : List Tok2 := l.filterMap (tokOf st)

theorem view_append (st : List Tok2) (l1 l2 : List WTok) : view st (l1 ++ l2) = view st l1 ++ view st l2 := by
  simp [view, List.filterMap_append]

theorem view_origRange (st : List Tok2) : ∀ (m k : Nat), k + m ≤ st.length →
    view st ((List.range' k m).map .orig) = (st.drop k).take m := by
  intro m
  induction m with
  | zero => intro k _; simp [view]
  | succ m ih =>
    intro k hk
    have hlt : k < st.length := by omega
    have hd : st.drop k = st[k] :: st.drop (k + 1) := by rw [List.drop_eq_getElem_cons hlt]
    have := ih (k + 1) (by omega)
    simp only [view] at this
    simp only [List.range'_succ, List.map_cons, view, List.filterMap_cons, tokOf, List.getElem?_eq_getElem hlt, this, hd,
      List.take_succ_cons]

/-- what `view` shows modulo `core` depends on the list modulo `wcoreL` and the store modulo `coreL` -/
theorem view_core (st st' : List Tok2) (hst : ∀ j : Nat, (st'[j]?).map coreL = (st[j]?).map coreL) :
    ∀ (l l' : List WTok), l'.map wcoreL = l.map wcoreL → (view st' l').map core = (view st l).map core := by
  intro l
  induction l with
  | nil => intro l' h; cases l' with
    | nil => rfl
    | cons _ _ => simp at h
  | cons x l ih =>
    intro l' h
    cases l' with
    | nil => simp at h
    | cons x' l' =>
      simp only [List.map_cons, List.cons.injEq] at h
      obtain ⟨hx, hl⟩ := h
      have ih' := ih l' hl
      simp only [view] at ih' ⊢
      simp only [List.filterMap_cons]
      cases x with
      | orig i =>
        cases x' with
        | new _ _ => simp [wcoreL] at hx
        | orig i' =>
          simp only [wcoreL, WTok.orig.injEq] at hx
          subst hx
          simp only [tokOf]
          have := hst i'
          cases h1 : st'[i']? with
          | none =>
            rw [h1] at this
            cases h2 : st[i']? with
            | none => simpa using ih'
            | some _ => rw [h2] at this; simp at this
          | some t' =>
            rw [h1] at this
            cases h2 : st[i']? with
            | none => rw [h2] at this; simp at this
            | some t =>
              rw [h2] at this
              simp only [Option.map_some, Option.some.injEq] at this
              simp only [List.map_cons, ih', core_of_coreL this]
      | new o t =>
        cases x' with
        | orig _ => simp [wcoreL] at hx
        | new o' t' =>
          simp only [wcoreL, WTok.new.injEq] at hx
          simp only [tokOf, List.map_cons, ih', core_of_coreL hx.2]

/-! ## `reindex` -/
/-- the final token for one element of the working list at position `p` -/
def reTok (w : Work) (p : Nat) : WTok → Option Tok2
  | .orig i => (w.store[i]?).map (fun t => match t.startIdx with | some j => { t with startIdx := findTag j w.list } | none => t)
  | .new off t => some (match t.startIdx with | some j => { t with startIdx := some (p - off + j) } | none => t)

theorem reindex_cons (w : Work) (p : Nat) (x : WTok) (ws : List WTok) :
    reindex w p (x :: ws) = (reTok w p x).toList ++ reindex w (p + 1) ws := by
  cases x with
  | orig i =>
    simp only [reindex, reTok]
    cases w.store[i]? <;> rfl
  | new o t => simp only [reindex, reTok]; rfl

theorem reindex_append (w : Work) : ∀ (l1 l2 : List WTok) (p : Nat),
    reindex w p (l1 ++ l2) = reindex w p l1 ++ reindex w (p + l1.length) l2 := by
  intro l1
  induction l1 with
  | nil => intro l2 p; simp [reindex]
  | cons x l1 ih =>
    intro l2 p
    simp only [List.cons_append, reindex_cons, ih, List.append_assoc, List.length_cons]
    congr 3; omega

theorem reTok_core (w : Work) (p : Nat) (x : WTok) : (reTok w p x).map core = (tokOf w.store x).map core := by
  cases x with
  | orig i =>
    simp only [reTok, tokOf]
    cases w.store[i]? with
    | none => rfl
    | some t =>
      simp only [Option.map_some, Option.some.injEq]
      cases t.startIdx <;> rfl
  | new o t =>
    simp only [reTok, tokOf, Option.map_some, Option.some.injEq]
    cases t.startIdx <;> rfl

/-- `reindex` changes nothing but `startIdx` -/
theorem reindex_core (w : Work) : ∀ (l : List WTok) (p : Nat), (reindex w p l).map core = (view w.store l).map core := by
  intro l
  induction l with
  | nil => intro p; rfl
  | cons x l ih =>
    intro p
    rw [reindex_cons, List.map_append, ih]
    simp only [view, List.filterMap_cons]
    have := reTok_core w p x
    cases h1 : reTok w p x with
    | none =>
      rw [h1] at this
      cases h2 : tokOf w.store x with
      | none => simp
      | some _ => rw [h2] at this; simp at this
    | some t =>
      rw [h1] at this
      cases h2 : tokOf w.store x with
      | none => rw [h2] at this; simp at this
      | some u =>
        rw [h2] at this
        simp only [Option.map_some, Option.some.injEq] at this
        simp [this]

/-- all objects the list names exist -/
def InStore (n : Nat) (l : List WTok) : Prop := ∀ i, WTok.orig i ∈ l → i < n

theorem reindex_getElem? (w : Work) : ∀ (l : List WTok) (p q : Nat), InStore w.store.length l →
    (reindex w p l)[q]? = (l[q]?).bind (reTok w (p + q)) := by
  intro l
  induction l with
  | nil => intro p q _; simp [reindex]
  | cons x l ih =>
    intro p q hin
    have hl : InStore w.store.length l := fun i hi => hin i (List.mem_cons_of_mem _ hi)
    rw [reindex_cons]
    have hx : ∃ t, reTok w p x = some t := by
      cases x with
      | orig i =>
        have := hin i List.mem_cons_self
        simp only [reTok, List.getElem?_eq_getElem this, Option.map_some]
        exact ⟨_, rfl⟩
      | new o t => exact ⟨_, rfl⟩
    obtain ⟨t, ht⟩ := hx
    rw [ht]
    cases q with
    | zero => simp [ht]
    | succ q =>
      simp only [Option.toList_some, List.singleton_append, List.getElem?_cons_succ]
      rw [ih (p + 1) q hl]
      congr 2; omega

theorem reindex_length (w : Work) : ∀ (l : List WTok) (p : Nat), InStore w.store.length l → (reindex w p l).length = l.length := by
  intro l
  induction l with
  | nil => intro p _; rfl
  | cons x l ih =>
    intro p hin
    have hl : InStore w.store.length l := fun i hi => hin i (List.mem_cons_of_mem _ hi)
    rw [reindex_cons, List.length_append, ih (p + 1) hl]
    cases x with
    | orig i =>
      have := hin i List.mem_cons_self
      simp only [reTok, List.getElem?_eq_getElem this, Option.map_some, Option.toList_some, List.length_cons, List.length_nil]
      omega
    | new o t => simp only [reTok, Option.toList_some, List.length_cons, List.length_nil]; omega

end Verif.Model.TokenRules
