import Verif.Lemmas.TokenRules.Md044Fields
/-!
  MD044 — no exception in fix mode on the domain (`domTok044`, names `simpleS` and non-empty) under the structural invariant
  (`wfTok044`): one step.
-/
namespace Verif.Model.TokenRules
open Verif.Model.Codec (removeAll)

def NamesDom (names : List Str) : Prop := ∀ n ∈ names, simpleS n = true ∧ n ≠ []

theorem okStr044_iff (s : Str) (h : okStr044 s = true) : ∃ r, removeAll s = .ok r ∧ simpleS r = true := by
  unfold okStr044 at h
  split at h
  · exact ⟨_, by assumption, h⟩
  · cases h

theorem search044_total (names : List Str) (hnd : NamesDom names) (keep : Bool) (s : Str) (sl sx sy : Int) (hsl : sl ≤ 0)
    (h : (keep = true ∧ simpleS s = true) ∨ (keep = false ∧ okStr044 s = true)) :
    ∃ hs, search044 names keep s sl sx sy = .ok hs := by
  unfold search044
  rcases h with ⟨rfl, hs⟩ | ⟨rfl, hs⟩
  · simp only [↓reduceIte]
    exact searchNames044_total s sl sx sy hsl hs names hnd
  · obtain ⟨r, hr, hsr⟩ := okStr044_iff s hs
    simp only [Bool.false_eq_true, ↓reduceIte, hr]
    exact searchNames044_total r sl sx sy hsl hsr names hnd

theorem tagged_total (p : Part044) {r : Except Err2 (List Hit044)} (h : ∃ hs, r = .ok hs) : ∃ x, tag044 p r = .ok x := by
  obtain ⟨hs, rfl⟩ := h
  exact ⟨_, rfl⟩

theorem adjSearch044_total (names : List Str) (hnd : NamesDom names) (body full s : Str) (sl : Int) (hsl : sl ≤ 0)
    (h : okStr044 s = true) : ∃ hs, adjSearch044 names body full s sl = .ok hs := by
  unfold adjSearch044
  split
  exact search044_total names hnd false s sl _ _ hsl (Or.inr ⟨rfl, h⟩)

theorem seq044_total {a b : Except Err2 (List PHit044)} (ha : ∃ x, a = .ok x) (hb : ∃ y, b = .ok y) : ∃ z, seq044 a b = .ok z := by
  obtain ⟨x, rfl⟩ := ha
  obtain ⟨y, rfl⟩ := hb
  exact ⟨_, rfl⟩

theorem okOpt_getD {o : Option Str} (h : okOpt044 o = true) (ht : truthy044 o = true) : okStr044 (o.getD []) = true := by
  cases o with
  | none => cases ht
  | some s => exact h

theorem lrdOffset044_le (t : Tok2) : lrdOffset044 t ≤ 0 := by
  unfold lrdOffset044 lrdFull044
  simp only [List.length_cons]
  omega

/-- fix mode: the searches of one step succeed -/
theorem hits044_total_fix (c : C044) (hnd : NamesDom c.names) (all : List Tok2) (s : St044) (t : Tok2) (hd : domTok044 t = true)
    (hw : wfTok044 all t = true) : ∃ hits, hits044 c true all s t = .ok hits := by
  unfold hits044
  split
  · -- text
    rename_i hk
    unfold domTok044 at hd; rw [hk] at hd; simp only [Bool.and_eq_true] at hd
    split
    · exact tagged_total _ (search044_total _ hnd true _ 0 0 0 (Int.le_refl _) (Or.inl ⟨rfl, hd.1⟩))
    · exact ⟨_, rfl⟩
  · rename_i hk
    unfold domTok044 at hd; rw [hk] at hd; simp only [Bool.and_eq_true] at hd
    split
    · exact tagged_total _ (search044_total _ hnd true _ _ 0 0 (spanOffset044_le t) (Or.inl ⟨rfl, hd.1⟩))
    · exact ⟨_, rfl⟩
  · exact ⟨_, rfl⟩
  · -- image
    rename_i hk
    unfold domTok044 at hd; rw [hk] at hd; simp only [Bool.and_eq_true] at hd
    unfold wfTok044 at hw; rw [hk] at hw; simp only [Bool.and_eq_true] at hw
    simp only [↓reduceIte]
    obtain ⟨lt, hlt⟩ := Option.isSome_iff_exists.mp hw.1
    rw [hlt]
    have hlt' : okStr044 lt = true := by have := hd.1.2; rw [hlt] at this; exact this
    have h2 := tagged_total .textFromBlocks (search044_total _ hnd false t.text 0 0 0 (Int.le_refl _) (Or.inr ⟨rfl, hd.1.1⟩))
    exact seq044_total (tagged_total _ (search044_total _ hnd false t.text (-2) 0 0 (by omega) (Or.inr ⟨rfl, hd.1.1⟩)))
      (seq044_total (tagged_total _ (search044_total _ hnd false lt 0 0 0 (Int.le_refl _) (Or.inr ⟨rfl, hlt'⟩))) h2)
  · -- lrd
    rename_i hk
    unfold domTok044 at hd; rw [hk] at hd; simp only [Bool.and_eq_true] at hd
    obtain ⟨⟨⟨h1, h2⟩, h3⟩, h4⟩ := hd
    simp only [↓reduceIte, Bool.true_and]
    apply seq044_total
    · apply seq044_total
      · split
        · exact ⟨_, rfl⟩
        · exact tagged_total _ (search044_total _ hnd false _ (-1) 0 0 (by omega) (Or.inr ⟨rfl, h1⟩))
      · exact tagged_total _ (search044_total _ hnd false _ (-1) 0 0 (by omega) (Or.inr ⟨rfl, h2⟩))
    · apply seq044_total
      · exact tagged_total _ (adjSearch044_total _ hnd _ _ _ _ (lrdOffset044_le t) h3)
      · split
        · rename_i htr
          exact tagged_total _ (adjSearch044_total _ hnd _ _ _ _ (lrdOffset044_le t) (okOpt_getD h4 htr))
        · exact ⟨_, rfl⟩
  · -- link
    rename_i hk
    unfold domTok044 at hd; rw [hk] at hd; simp only [Bool.and_eq_true] at hd
    unfold wfTok044 at hw; rw [hk] at hw; simp only [Bool.and_eq_true] at hw
    simp only [↓reduceIte]
    obtain ⟨lt, hlt⟩ := Option.isSome_iff_exists.mp hw.1.1
    rw [hlt]
    have hlt' : okStr044 lt = true := by have := hd.1.2; rw [hlt] at this; exact this
    apply seq044_total (tagged_total _ (search044_total _ hnd false lt 0 0 0 (Int.le_refl _) (Or.inr ⟨rfl, hlt'⟩)))
    apply seq044_total (tagged_total _ (search044_total _ hnd false t.text 0 0 0 (Int.le_refl _) (Or.inr ⟨rfl, hd.1.1⟩)))
    split
    · rename_i hcond
      exact tagged_total _ (search044_total _ hnd false _ 0 0 0 (Int.le_refl _) (Or.inr ⟨rfl, okOpt_getD hd.2 hcond.2⟩))
    · exact ⟨_, rfl⟩
  · exact ⟨_, rfl⟩

theorem applyMatching044_total (i : Nat) (s : Str) (items : List PHit044) (p : Part044) (f : Field2) :
    ∃ rs, applyMatching044 i (some s) items p f = .ok rs := by
  unfold applyMatching044
  simp only
  split <;> exact ⟨_, rfl⟩

theorem seqReq_total {a b : Except Err2 (List FixReq2)} (ha : ∃ x, a = .ok x) (hb : ∃ y, b = .ok y) : ∃ z, seqReq a b = .ok z := by
  obtain ⟨x, rfl⟩ := ha
  obtain ⟨y, rfl⟩ := hb
  exact ⟨_, rfl⟩

/-- the hits of a text / code-span step in fix mode: all of one search of the token's own text -/
theorem hits044_textual (c : C044) (all : List Tok2) (s : St044) (t : Tok2) (hk : t.kind = .text ∨ t.kind = .codeSpan)
    (hits : List PHit044) (h : hits044 c true all s t = .ok hits) :
    hits = [] ∨ ∃ sl items, searchNames044 t.text (lowerS t.text) sl 0 0 c.names = .ok items ∧ hits = items.map (fun h => (Part044.none, h)) := by
  unfold hits044 at h
  rcases hk with hk | hk <;> rw [hk] at h <;> simp only at h
  · split at h
    · rw [tag044_ok] at h
      obtain ⟨hs, h1, rfl⟩ := h
      right; exact ⟨0, hs, by unfold search044 at h1; exact h1, rfl⟩
    · cases h; left; rfl
  · split at h
    · rw [tag044_ok] at h
      obtain ⟨hs, h1, rfl⟩ := h
      right; exact ⟨_, hs, by unfold search044 at h1; exact h1, rfl⟩
    · cases h; left; rfl

theorem applyItems044_total (c : C044) (hnd : NamesDom c.names) (all : List Tok2) (s : St044) (i : Nat) (t : Tok2)
    (hd : domTok044 t = true) (hw : wfTok044 all t = true) (hits : List PHit044) (hh : hits044 c true all s t = .ok hits)
    (hne : hits.isEmpty = false) : ∃ rs, applyItems044 i t hits = .ok rs := by
  by_cases hk : t.kind = .text ∨ t.kind = .codeSpan
  · have hs : simpleS t.text = true := by
      unfold domTok044 at hd
      rcases hk with hk | hk <;> rw [hk] at hd <;> simp only [Bool.and_eq_true] at hd <;> exact hd.1
    rcases hits044_textual c all s t hk hits hh with rfl | ⟨sl, items, hi, rfl⟩
    · cases hne
    · have hg := searchNames044_good t.text (lowerS t.text) sl 0 0 c.names c.names items (fun _ h => h) hi
      have hne' : items ≠ [] := by intro h0; rw [h0] at hne; cases hne
      have hdiff : applyHits t.text items ≠ t.text := by
        apply applyHits_ne t.text items hne' (fun h hh => (hg h hh).inText hs (fun n hn => (hnd n hn).1))
        intro h hh
        have := (hg h hh).ne
        rw [(hg h hh).found] at this
        exact this
      unfold applyItems044
      rcases hk with hk | hk <;> rw [hk] <;> simp only <;> unfold applyNormal044 <;>
        rw [applyAll044_eq, map_snd_tag, if_neg hdiff] <;> exact ⟨_, rfl⟩
  · simp only [not_or] at hk
    unfold applyItems044
    split
    · rename_i h; exact absurd h hk.1
    · rename_i h; exact absurd h hk.2
    · apply seqReq_total (applyMatching044_total _ _ _ _ _)
      apply seqReq_total
      · split
        · exact ⟨_, rfl⟩
        · exact applyMatching044_total _ _ _ _ _
      · apply seqReq_total (applyMatching044_total _ _ _ _ _)
        split
        · rename_i htr
          cases hlt : t.linkTitle with
          | none => rw [hlt] at htr; cases htr
          | some lt => exact applyMatching044_total _ _ _ _ _
        · exact ⟨_, rfl⟩
    · rename_i hkl
      unfold wfTok044 at hw; rw [hkl] at hw; simp only [Bool.and_eq_true] at hw
      obtain ⟨lt, hlt⟩ := Option.isSome_iff_exists.mp hw.1.1
      obtain ⟨pt, hpt⟩ := Option.isSome_iff_exists.mp hw.1.2
      rw [hlt, hpt]
      exact seqReq_total (applyMatching044_total _ _ _ _ _) (seqReq_total (applyMatching044_total _ _ _ _ _) (applyMatching044_total _ _ _ _ _))
    · rename_i hkl
      unfold wfTok044 at hw; rw [hkl] at hw; simp only [Bool.and_eq_true] at hw
      obtain ⟨lt, hlt⟩ := Option.isSome_iff_exists.mp hw.1
      rw [hlt]
      exact seqReq_total (applyMatching044_total _ _ _ _ _) (applyMatching044_total _ _ _ _ _)
    · -- no other kind has hits
      rename_i h1 h2 h3 h4 h5
      exfalso
      have : hits044 c true all s t = .ok [] := by
        unfold hits044
        split <;> first | rfl | (rename_i hx; first | exact absurd hx h1 | exact absurd hx h2 | exact absurd hx h3 | exact absurd hx h4 | exact absurd hx h5)
      rw [this] at hh
      cases hh
      cases hne

/-- one fix step on the domain never raises, and `__apply_token_fix` accepts its requests -/
theorem fix_ok_step (c : C044) (hnd : NamesDom c.names) (all : List Tok2) (s : St044) (i : Nat) (t : Tok2)
    (hd : domTok044 t = true) (hw : wfTok044 all t = true) :
    ∃ o t', next044 c true all s i t = .ok (stateNext044 c s t, o) ∧ applyGroup2 t (reqPairs044 o.reqs) = .ok t' := by
  unfold next044 stateNext044
  split
  · exact ⟨{}, t, rfl, applyGroup2_nil044 t⟩
  · obtain ⟨hits, hh⟩ := hits044_total_fix c hnd all s t hd hw
    rw [hh]
    simp only [↓reduceIte]
    cases hne : hits.isEmpty with
    | true => exact ⟨{}, t, rfl, applyGroup2_nil044 t⟩
    | false =>
      obtain ⟨rs, hr⟩ := applyItems044_total c hnd all s i t hd hw hits hh hne
      simp only [Bool.false_eq_true, ↓reduceIte, hr]
      obtain ⟨t', ht', _⟩ := applyGroup2_step i t hits rs hr
      exact ⟨_, t', rfl, ht'⟩

/-! ## what a fix step may change -/
/-- the new text has the length of the old one and the same lower case position by position, and differs from it only inside
    standalone occurrences (`GoodHit`: a configured name matched in lower case, neither neighbour alphanumeric, spelled differently) -/
def CaseOnly (names : List Str) (old new : Str) : Prop :=
  new.length = old.length ∧ new.map lc044 = old.map lc044 ∧
  ∀ j, new[j]? ≠ old[j]? → ∃ h, GoodHit old (lowerS old) names h ∧ h.idx ≤ j ∧ j < h.idx + h.cap.length

theorem CaseOnly.refl (names : List Str) (s : Str) : CaseOnly names s s := ⟨rfl, rfl, fun _ h => absurd rfl h⟩

theorem caseOnly_applyHits (names : List Str) (s : Str) (items : List Hit044) (hs : simpleS s = true)
    (hn : ∀ n ∈ names, simpleS n = true) (hg : ∀ h ∈ items, GoodHit s (lowerS s) names h) : CaseOnly names s (applyHits s items) := by
  have hin : ∀ h ∈ items, InText s h := fun h hh => (hg h hh).inText hs hn
  obtain ⟨h1, h2⟩ := applyHits_inv s items s hin rfl rfl
  refine ⟨h1, h2, ?_⟩
  intro j hj
  rcases applyHits_get s items s (fun h hh => (hin h hh).1) rfl j with ⟨h, hh, hc, _⟩ | ⟨_, he⟩
  · exact ⟨h, hg h hh, hc.1, hc.2⟩
  · exact absurd he hj

/-- the components of a token MD044 does not write on a token of kind `k` are untouched -/
def Untouched (t t' : Tok2) : Prop :=
  t'.kind = t.kind ∧ others044 t' = others044 t ∧
  (.linkTitle ∉ mayWrite044 t.kind → t'.linkTitle = t.linkTitle) ∧ (.preLinkTitle ∉ mayWrite044 t.kind → t'.preLinkTitle = t.preLinkTitle) ∧
  (.linkName ∉ mayWrite044 t.kind → t'.linkName = t.linkName) ∧ (.linkTitleRaw ∉ mayWrite044 t.kind → t'.titleRaw = t.titleRaw) ∧
  ((∀ f ∈ mayWrite044 t.kind, ∀ b, f ≠ .base b) → t'.text = t.text)

theorem Untouched.refl (t : Tok2) : Untouched t t := ⟨rfl, rfl, fun _ => rfl, fun _ => rfl, fun _ => rfl, fun _ => rfl, fun _ => rfl⟩

theorem only_style_step (c : C044) (all : List Tok2) (s : St044) (i : Nat) (t : Tok2) (s' : St044) (o : Out) (t' : Tok2)
    (hn : next044 c true all s i t = .ok (s', o)) (ha : applyGroup2 t (reqPairs044 o.reqs) = .ok t') :
    Untouched t t' ∧
    ((t.kind = .text ∨ t.kind = .codeSpan) → simpleS t.text = true → NamesDom c.names → CaseOnly c.names t.text t'.text) := by
  have hnil : ∀ o : Out, o.reqs = [] → applyGroup2 t (reqPairs044 o.reqs) = .ok t' → t' = t := by
    intro o ho h
    rw [ho] at h
    simp only [reqPairs044, List.map_nil, applyGroup2_nil044, Except.ok.injEq] at h
    exact h.symm
  unfold next044 at hn
  split at hn
  · cases hn
    rw [hnil {} rfl ha]
    exact ⟨Untouched.refl t, fun _ _ _ => CaseOnly.refl _ _⟩
  · split at hn
    · cases hn
    · rename_i hits hh
      simp only [↓reduceIte] at hn
      split at hn
      · cases hn
        rw [hnil {} rfl ha]
        exact ⟨Untouched.refl t, fun _ _ _ => CaseOnly.refl _ _⟩
      · rename_i hne
        split at hn
        · cases hn
        · rename_i rs hr
          cases hn
          simp only at ha
          obtain ⟨t'', ht'', ho, g1, g2, g3, g4, g5⟩ := applyGroup2_step i t hits rs hr
          rw [ht''] at ha
          cases ha
          have hkind : t'.kind = t.kind := (applyGroup2_kind_idx044 t t' _ ht'').2
          refine ⟨⟨hkind, ho, g1, g2, g3, g4, g5⟩, ?_⟩
          intro hk hs hnd
          rcases hits044_textual c all s t hk hits hh with rfl | ⟨sl, items, hi, rfl⟩
          · exact absurd rfl hne
          · have hg := searchNames044_good t.text (lowerS t.text) sl 0 0 c.names c.names items (fun _ h => h) hi
            have hco := caseOnly_applyHits c.names t.text items hs (fun n hn => (hnd n hn).1) hg
            have hne' : items ≠ [] := by intro h0; rw [h0] at hne; exact hne rfl
            have hdiff : applyHits t.text items ≠ t.text := by
              apply applyHits_ne t.text items hne' (fun h hh => (hg h hh).inText hs (fun n hn => (hnd n hn).1))
              intro h hh
              have := (hg h hh).ne
              rw [(hg h hh).found] at this
              exact this
            have htext : t'.text = applyHits t.text items := by
              unfold applyItems044 at hr
              rcases hk with hk | hk <;> rw [hk] at hr <;> simp only at hr <;> unfold applyNormal044 at hr <;>
                rw [applyAll044_eq, map_snd_tag, if_neg hdiff] at hr <;> cases hr <;>
                simp only [reqPairs044, List.map_cons, List.map_nil, applyGroup2_single044, modify2, modify, hk, Option.map_some,
                  Except.ok.injEq] at ht'' <;> rw [← ht'']
            rw [htext]
            exact hco

/-! ## no exception in scan mode -/
theorem inlineTitleHits044_total (names : List Str) (hnd : NamesDom names) (part : Part044) (pre : Str) (t : Tok2)
    (hopt : t.beforeLinkWs.isSome = true ∧ t.beforeTitleWs.isSome = true ∧ t.boundChar.isSome = true) (hlt : t.linkTitle.isSome = true)
    (hd1 : okOpt044 t.linkTitle = true) (hd2 : okOpt044 t.preLinkTitle = true) :
    ∃ x, inlineTitleHits044 names part pre t = .ok x := by
  unfold inlineTitleHits044
  obtain ⟨a, ha⟩ := Option.isSome_iff_exists.mp hopt.1
  obtain ⟨b, hb⟩ := Option.isSome_iff_exists.mp hopt.2.1
  obtain ⟨c, hc⟩ := Option.isSome_iff_exists.mp hopt.2.2
  obtain ⟨lt, hl⟩ := Option.isSome_iff_exists.mp hlt
  rw [ha, hb, hc]
  simp only
  have hact : ∃ title, activeTitle044 t = some title ∧ okStr044 title = true := by
    unfold activeTitle044
    rw [hl] at hd1 ⊢
    cases hp : t.preLinkTitle with
    | none => exact ⟨lt, rfl, hd1⟩
    | some p =>
      rw [hp] at hd2
      simp only
      split
      · exact ⟨lt, rfl, hd1⟩
      · exact ⟨p, rfl, hd2⟩
  obtain ⟨title, ht, hok⟩ := hact
  rw [ht]
  simp only
  exact tagged_total _ (adjSearch044_total _ hnd _ _ _ _ (by omega) hok)

theorem kind_beq_link (k : Kind) (h : (k == Kind.link) = true) : k = .link := by
  cases k <;> first | rfl | cases h

theorem hits044_total_scan (c : C044) (hnd : NamesDom c.names) (all : List Tok2) (hdall : ∀ u ∈ all, domTok044 u = true)
    (hwall : ∀ u ∈ all, wfTok044 all u = true) (s : St044) (t : Tok2) (hd : domTok044 t = true) (hw : wfTok044 all t = true) :
    ∃ hits, hits044 c false all s t = .ok hits := by
  unfold hits044
  split
  · rename_i hk
    unfold domTok044 at hd; rw [hk] at hd; simp only [Bool.and_eq_true] at hd
    split
    · exact tagged_total _ (search044_total _ hnd false _ 0 0 0 (Int.le_refl _) (Or.inr ⟨rfl, hd.2⟩))
    · exact ⟨_, rfl⟩
  · rename_i hk
    unfold domTok044 at hd; rw [hk] at hd; simp only [Bool.and_eq_true] at hd
    split
    · exact tagged_total _ (search044_total _ hnd false _ _ 0 0 (spanOffset044_le t) (Or.inr ⟨rfl, hd.2⟩))
    · exact ⟨_, rfl⟩
  · -- end-link: the link token is in the stream
    rename_i hk
    unfold wfTok044 at hw; rw [hk] at hw
    simp only [Bool.false_eq_true, ↓reduceIte]
    unfold startTok044
    cases hlook : t.startIdx.bind (fun j => all[j]?) with
    | none => rw [hlook] at hw; cases hw
    | some lt =>
      rw [hlook] at hw
      replace hw := kind_beq_link _ hw
      simp only [hw, true_or, ↓reduceIte]
      have hmem : lt ∈ all := by
        cases hsi : t.startIdx with
        | none => rw [hsi] at hlook; cases hlook
        | some j => rw [hsi] at hlook; exact List.mem_of_getElem? hlook
      have hdl := hdall lt hmem
      have hwl := hwall lt hmem
      unfold domTok044 at hdl; rw [hw] at hdl; simp only [Bool.and_eq_true] at hdl
      unfold wfTok044 at hwl; rw [hw] at hwl; simp only [Bool.and_eq_true] at hwl
      split
      · rename_i hin
        have hio := hwl.2
        unfold inlineOk044 at hio
        simp only [hin, bne_self_eq_false, Bool.false_or, Bool.and_eq_true] at hio
        exact inlineTitleHits044_total _ hnd _ _ lt ⟨hio.1.1, hio.1.2, hio.2⟩ hwl.1.1 hdl.1.2 hdl.2
      · exact ⟨_, rfl⟩
  · -- image
    rename_i hk
    unfold domTok044 at hd; rw [hk] at hd; simp only [Bool.and_eq_true] at hd
    unfold wfTok044 at hw; rw [hk] at hw; simp only [Bool.and_eq_true] at hw
    simp only [Bool.false_eq_true, ↓reduceIte]
    apply seq044_total (tagged_total _ (search044_total _ hnd false t.text (-2) 0 0 (by omega) (Or.inr ⟨rfl, hd.1.1⟩)))
    split
    · rename_i hin
      have hio := hw.2
      unfold inlineOk044 at hio
      simp only [hin, bne_self_eq_false, Bool.false_or, Bool.and_eq_true] at hio
      exact inlineTitleHits044_total _ hnd _ _ t ⟨hio.1.1, hio.1.2, hio.2⟩ hw.1 hd.1.2 hd.2
    · exact ⟨_, rfl⟩
  · -- lrd
    rename_i hk
    unfold domTok044 at hd; rw [hk] at hd; simp only [Bool.and_eq_true] at hd
    obtain ⟨⟨⟨h1, h2⟩, h3⟩, h4⟩ := hd
    simp only [Bool.false_eq_true, ↓reduceIte, Bool.false_and]
    apply seq044_total
    · apply tagged_total
      apply search044_total _ hnd false _ (-1) 0 0 (by omega)
      right
      refine ⟨rfl, ?_⟩
      unfold lrdName044
      split
      · exact h2
      · exact h1
    · exact seq044_total (tagged_total _ (adjSearch044_total _ hnd _ _ _ _ (lrdOffset044_le t) h3)) ⟨_, rfl⟩
  · exact ⟨_, rfl⟩
  · exact ⟨_, rfl⟩

theorem scan_ok_step (c : C044) (hnd : NamesDom c.names) (all : List Tok2) (hdall : ∀ u ∈ all, domTok044 u = true)
    (hwall : ∀ u ∈ all, wfTok044 all u = true) (s : St044) (i : Nat) (t : Tok2) (hd : domTok044 t = true) (hw : wfTok044 all t = true) :
    ∃ s' o, next044 c false all s i t = .ok (s', o) := by
  unfold next044
  split
  · exact ⟨_, _, rfl⟩
  · obtain ⟨hits, hh⟩ := hits044_total_scan c hnd all hdall hwall s t hd hw
    rw [hh]
    exact ⟨_, _, rfl⟩

end Verif.Model.TokenRules
