import Verif.Lemmas.TokenRules.Md037Proc
/-!
  MD037 — the whole fix (`fix2 md037`) on a stream whose pending lists are grouped (`wf037`) or grouped and ordered (`wfOrd037`).
-/
namespace Verif.Model.TokenRules
open Verif.Model

theorem ReqsFrom037.imp {all : List Tok2} {chk chk' : List Pend037 → Bool} (hc : ∀ L, chk L = true → chk' L = true)
    {lo : Nat} {r : List FixReq2} (h : ReqsFrom037 all chk lo r) : ReqsFrom037 all chk' lo r := by
  induction h with
  | nil lo => exact .nil lo
  | flush lo hi L rest hne hk hL _ ih => exact .flush lo hi L rest hne (hc L hk) hL ih

theorem ordered037_grouped (L : List Pend037) (h : ordered037 L = true) : grouped037 L = true := by
  unfold ordered037 at h
  simp only [Bool.and_eq_true] at h
  exact h.1

/-- grouped pending lists: no token is requested twice, every requested token is a text token of the stream -/
theorem ReqsFrom037.nodup {all : List Tok2} {lo : Nat} {r : List FixReq2} (h : ReqsFrom037 all grouped037 lo r) :
    (r.map (·.idx)).Nodup ∧ ∀ q ∈ r, lo ≤ q.idx ∧ ∃ txt, TextAt037 all q.idx txt := by
  induction h with
  | nil lo => exact ⟨List.nodup_nil, by intro q hq; cases hq⟩
  | flush lo hi L rest hne hk hL hrest ih =>
    have hidx := procFixes037_idx L
    have hmem : ∀ q ∈ procFixes037 L, lo ≤ q.idx ∧ q.idx < hi ∧ ∃ txt, TextAt037 all q.idx txt := by
      intro q hq
      have : q.idx ∈ compress037 (L.map (·.tidx)) := by rw [← hidx]; exact List.mem_map_of_mem hq
      obtain ⟨p, hp, e⟩ := List.mem_map.mp (mem_compress037 _ _ this)
      have := hL p hp
      rw [← e]
      exact ⟨this.1, this.2.1, p.text, this.2.2.1⟩
    have hmono : ∀ q ∈ rest, hi ≤ q.idx := by
      intro q hq
      cases hrest with
      | nil => cases hq
      | flush _ hi' L' rest' _ _ _ _ => exact (ih.2 q hq).1
    constructor
    · rw [List.map_append]
      apply List.nodup_append.mpr
      refine ⟨?_, ih.1, ?_⟩
      · rw [hidx]; unfold grouped037 at hk; exact of_decide_eq_true hk
      · intro a ha b hb e
        obtain ⟨q1, hq1, e1⟩ := List.mem_map.mp ha
        obtain ⟨q2, hq2, e2⟩ := List.mem_map.mp hb
        have h1 := (hmem q1 hq1).2.1
        have h2 := hmono q2 hq2
        omega
    · intro q hq
      rcases List.mem_append.mp hq with h | h
      · have := hmem q h; exact ⟨this.1, this.2.2⟩
      · have := ih.2 q h
        have hlh : lo ≤ hi := by
          cases L with
          | nil => exact absurd rfl hne
          | cons p _ => have := hL p List.mem_cons_self; omega
        exact ⟨by omega, this.2⟩

/-- grouped and ordered pending lists: every request carries the text of its token without a chain of genuine blank runs -/
theorem ReqsFrom037.cuts {all : List Tok2} {lo : Nat} {r : List FixReq2} (h : ReqsFrom037 all ordered037 lo r) :
    ∀ q ∈ r, ∃ (txt : Str) (seg : List Pend037), TextAt037 all q.idx txt ∧ q.val = .str (cutGo037 txt 0 seg) ∧
      Chain037 0 seg ∧ ∀ p ∈ seg, p.text = txt ∧ PGood037 p := by
  induction h with
  | nil lo => intro q hq; cases hq
  | flush lo hi L rest hne hk hL _ ih =>
    intro q hq
    rcases List.mem_append.mp hq with h | h
    · obtain ⟨segs, hsegs⟩ := segs037_exists L
      have ho : ordGo037 L = true := by unfold ordered037 at hk; simp only [Bool.and_eq_true] at hk; exact hk.2
      obtain ⟨txts, _, heq, hall⟩ := procFixes037_segs all hsegs ho (fun p hp => (hL p hp).2.2)
      rw [heq] at h
      obtain ⟨g, hg, e⟩ := List.mem_map.mp h
      obtain ⟨ha, hc, ht⟩ := hall g hg
      refine ⟨g.2, g.1.2, by rw [← e]; exact ha, by rw [← e]; rfl, hc, ?_⟩
      intro p hp
      have hgm : g.1 ∈ segs := (List.of_mem_zip hg).1
      exact ⟨ht p hp, (hL p (hsegs.mem g.1 hgm p hp)).2.2.2⟩
    · exact ih q h

theorem stInv037_init (all : List Tok2) : StInv037 all 0 0 {} :=
  StInv037.mk (by intro e he; cases he) (by intro p hp; cases hp)

/-- the fix of a stream whose pending lists pass `chk` at every block end -/
theorem fixOut037_wf (toks : List Tok2) (chk : List Pend037 → Bool) (hw : wfGoG037 chk {} 0 toks = true) :
    ∃ o, fixOut md037 () toks = .ok o ∧ o.repls = [] ∧ o.reports = [] ∧ ReqsFrom037 toks chk 0 o.reqs := by
  obtain ⟨s', o, hr, h1, h2, h3⟩ := run037_fix toks chk toks [] {} 0 rfl (stInv037_init toks) (Nat.le_refl 0) hw
  refine ⟨o, ?_, h1, h2, h3⟩
  unfold fixOut
  have : runFrom2 md037 () true toks (md037.init ()) 0 toks = .ok (s', o) := hr
  rw [this]

/-- `wf037`: the fix does not raise, and the fixed stream is the old one with the requested texts (and dangling
    `start_markdown_token` references cleared, as `applyFixes2` does) -/
theorem fix037_wf (toks : List Tok2) (hw : wf037 toks = true) :
    ∃ (o : Out) (ts' : List Tok2), fixOut md037 () toks = .ok o ∧ fix2 md037 () toks = .ok (ts'.map (normIdx037 ts'.length)) ∧ ts'.length = toks.length ∧
      ReqsFrom037 toks grouped037 0 o.reqs ∧ ∀ k t, toks[k]? = some t → ts'[k]? = some (upd037 o.reqs k t) := by
  obtain ⟨o, ho, hrep, _, hreq⟩ := fixOut037_wf toks grouped037 hw
  have hshape := fixOut037_shape toks o ho
  obtain ⟨hnd, hmem⟩ := hreq.nodup
  obtain ⟨ts', h1, h2, h3⟩ := applyFields_ok037 toks o.reqs hshape.2 hnd (by
    intro q hq
    obtain ⟨_, txt, t, ht, hk, _⟩ := hmem q hq
    exact ⟨t, ht, hk⟩)
  refine ⟨o, ts', ho, ?_, h2, hreq, h3⟩
  unfold fix2
  rw [ho]
  dsimp only
  rw [hrep, applyFixes2_noRepl037, h1]

theorem wfGoG037_imp {chk chk' : List Pend037 → Bool} (hc : ∀ L, chk L = true → chk' L = true) :
    ∀ (ts : List Tok2) (s : St037) (i : Nat), wfGoG037 chk s i ts = true → wfGoG037 chk' s i ts = true := by
  intro ts
  induction ts with
  | nil => intro _ _ _; rfl
  | cons t ts ih =>
    intro s i h
    rw [wfGoG037] at h ⊢
    split at h
    · cases h
    · rename_i s' o hn
      simp only [Bool.and_eq_true, Bool.or_eq_true, Bool.not_eq_true'] at h ⊢
      exact ⟨h.1.imp id (hc _), ih s' (i + 1) h.2⟩

theorem wfOrd037_wf037 (toks : List Tok2) (h : wfOrd037 toks = true) : wf037 toks = true :=
  wfGoG037_imp ordered037_grouped toks {} 0 h

theorem All₂.of_get037 {α β : Type} {P : α → β → Prop} : ∀ (as : List α) (bs : List β), as.length = bs.length →
    (∀ (k : Nat) (a : α) (b : β), as[k]? = some a → bs[k]? = some b → P a b) → All₂ P as bs
  | [], [], _, _ => .nil
  | [], _ :: _, h, _ => by cases h
  | _ :: _, [], h, _ => by cases h
  | a :: as, b :: bs, h, hp =>
    .cons (hp 0 a b rfl rfl) (All₂.of_get037 as bs (by simpa using h) (fun k x y hx hy => hp (k + 1) x y (by simpa using hx) (by simpa using hy)))

/-- `wfOrd037`: the fix succeeds and every token keeps everything but its text; the new text of a text token is the old one without a
    chain of genuine blank runs next to emphasis characters -/
theorem fix037_ordered (toks : List Tok2) (hw : wfOrd037 toks = true) :
    ∃ toks', fix2 md037 () toks = .ok toks' ∧
      All₂ (fun t t' => ∃ seg : List Pend037, t' = normIdx037 toks.length { t with text := cutGo037 t.text 0 seg } ∧
        Chain037 0 seg ∧ (∀ p ∈ seg, p.text = t.text ∧ PGood037 p) ∧ (t.kind ≠ .text → seg = [])) toks toks' := by
  obtain ⟨o, ts', ho, hfix, hlen, _, hget⟩ := fix037_wf toks (wfOrd037_wf037 toks hw)
  obtain ⟨o2, ho2, _, _, hreq⟩ := fixOut037_wf toks ordered037 hw
  rw [ho] at ho2; cases ho2
  refine ⟨_, hfix, All₂.of_get037 _ _ (by simp [hlen]) ?_⟩
  intro k t t' hk hk'
  have h1 := hget k t hk
  rw [List.getElem?_map, h1] at hk'
  simp only [Option.map_some, Option.some.injEq] at hk'
  subst hk'
  rw [hlen]
  unfold upd037
  cases hf : o.reqs.find? (·.idx == k) with
  | none => exact ⟨[], rfl, trivial, (fun p hp => by cases hp), fun _ => rfl⟩
  | some q =>
    have hq : q ∈ o.reqs := List.mem_of_find?_eq_some hf
    have hqi : q.idx = k := by have := List.find?_some hf; simpa using this
    obtain ⟨txt, seg, ⟨t0, ht0, hkind, htxt⟩, hv, hc, hp⟩ := hreq.cuts q hq
    rw [hqi, hk] at ht0; cases ht0
    dsimp only
    rw [hv]
    refine ⟨seg, by rw [htxt], hc, by rw [htxt]; exact hp, fun hn => absurd hkind hn⟩

/-! ## whatever the stream: fix mode does not raise inside the rule, and the only exception of the whole fix is `BadPluginFixError` -/

theorem wfGoG037_true (all : List Tok2) : ∀ (ts pre : List Tok2) (s : St037) (lo : Nat), all = pre ++ ts →
    StInv037 all lo pre.length s → lo ≤ pre.length → wfGoG037 (fun _ => true) s pre.length ts = true := by
  intro ts
  induction ts with
  | nil => intro _ _ _ _ _ _; rfl
  | cons t ts ih =>
    intro pre s lo hall hs hlo
    have ht : all[pre.length]? = some t := by rw [hall]; simp
    obtain ⟨s1, o1, hn, _, _, hcase⟩ := next037_fix all lo pre.length s t hs ht hlo
    have hn' : next037 () true [] s pre.length t = .ok (s1, o1) := hn
    rw [wfGoG037, hn']
    simp only [Bool.or_true, Bool.true_and]
    have hall' : all = (pre ++ [t]) ++ ts := by rw [hall]; simp
    have hlen : (pre ++ [t]).length = pre.length + 1 := by simp
    rcases hcase with ⟨_, hpe, hpa, _⟩ | ⟨_, _, hs1⟩
    · have := ih (pre ++ [t]) s1 (pre.length + 1) hall'
        (StInv037.mk (by intro e he; rw [hpa] at he; cases he) (by intro p hp; rw [hpe] at hp; cases hp)) (by omega)
      rw [hlen] at this; exact this
    · have := ih (pre ++ [t]) s1 lo hall' (by rw [hlen]; exact hs1) (by omega)
      rw [hlen] at this; exact this

/-- for EVERY stream the fix-mode pass of the rule ends without an exception and without a report -/
theorem fixOut037_total (toks : List Tok2) : ∃ o, fixOut md037 () toks = .ok o ∧ o.repls = [] ∧ o.reports = [] := by
  obtain ⟨o, h, h1, h2, _⟩ := fixOut037_wf toks (fun _ => true) (wfGoG037_true toks toks [] {} 0 rfl (stInv037_init toks) (Nat.le_refl 0))
  exact ⟨o, h, h1, h2⟩

theorem modAll2_err037 : ∀ (g : List (Field2 × Val)) (t : Tok2) (e : Err2), modAll2 t g = .error e → e = .badFix
  | [], _, _, h => by cases h
  | (f, v) :: g, t, e, h => by
    rw [modAll2] at h
    split at h
    · exact modAll2_err037 g _ e h
    · cases h; rfl

theorem applyFieldsGo_err037 (reqs : List FixReq2) (n : Nat) : ∀ (is : List Nat) (ts : List Tok2) (e : Err2),
    (∀ i ∈ is, i < n) → ts.length = n → applyFieldsGo reqs is ts = .error e → e = .badFix := by
  intro is
  induction is with
  | nil => intro ts e _ _ h; cases h
  | cons i is ih =>
    intro ts e hi hl h
    rw [applyFieldsGo] at h
    split at h
    · rename_i hnone
      have : i < ts.length := by rw [hl]; exact hi i List.mem_cons_self
      rw [List.getElem?_eq_getElem this] at hnone; cases hnone
    · rename_i t ht
      split at h
      · rename_i e' hg
        cases h
        unfold applyGroup2 at hg
        split at hg
        · cases hg; rfl
        · exact modAll2_err037 _ _ _ hg
      · exact ih _ e (fun j hj => hi j (List.mem_cons_of_mem _ hj)) (by rw [List.length_set]; exact hl) h

theorem mem_firstOcc037 : ∀ (l seen : List Nat) (x : Nat), x ∈ firstOcc seen l → x ∈ l
  | [], _, _, h => by cases h
  | i :: l, seen, x, h => by
    rw [firstOcc] at h
    split at h
    · exact List.mem_cons_of_mem _ (mem_firstOcc037 l seen x h)
    · rcases List.mem_cons.mp h with h | h
      · rw [h]; exact List.mem_cons_self
      · exact List.mem_cons_of_mem _ (mem_firstOcc037 l (i :: seen) x h)

/-- the requests of ANY fix-mode run name text tokens of the stream -/
theorem ReqsFrom037.inRange {all : List Tok2} {chk : List Pend037 → Bool} {lo : Nat} {r : List FixReq2} (h : ReqsFrom037 all chk lo r) :
    ∀ q ∈ r, q.idx < all.length := by
  induction h with
  | nil lo => intro q hq; cases hq
  | flush lo hi L rest _ _ hL _ ih =>
    intro q hq
    rcases List.mem_append.mp hq with h | h
    · have : q.idx ∈ compress037 (L.map (·.tidx)) := by rw [← procFixes037_idx]; exact List.mem_map_of_mem h
      obtain ⟨p, hp, e⟩ := List.mem_map.mp (mem_compress037 _ _ this)
      obtain ⟨_, _, ⟨t, ht, _⟩, _⟩ := hL p hp
      rw [← e]
      exact (List.getElem?_eq_some_iff.mp ht).1
    · exact ih q h

/-- whatever the stream: when the fix raises, it raises `BadPluginFixError` -/
theorem fix037_err_badFix (toks : List Tok2) (e : Err2) (h : fix2 md037 () toks = .error e) : e = .badFix := by
  obtain ⟨o, ho, hrep, _, hreq⟩ := fixOut037_wf toks (fun _ => true) (wfGoG037_true toks toks [] {} 0 rfl (stInv037_init toks) (Nat.le_refl 0))
  unfold fix2 at h
  rw [ho] at h
  dsimp only at h
  rw [hrep, applyFixes2_noRepl037] at h
  split at h
  · rename_i e' he
    cases h
    unfold applyFields at he
    refine applyFieldsGo_err037 o.reqs toks.length _ toks e ?_ rfl he
    intro i hi
    obtain ⟨q, hq, rfl⟩ := List.mem_map.mp (mem_firstOcc037 _ _ _ hi)
    exact hreq.inRange q hq
  · cases h

/-! ## the converse of `md037_fix_ok`: a pending list that is not grouped always ends in `BadPluginFixError` -/

theorem applyFieldsGo_ok_noDup037 (reqs : List FixReq2) : ∀ (is : List Nat) (ts ts' : List Tok2),
    applyFieldsGo reqs is ts = .ok ts' → ∀ i ∈ is, hasDup2 ((groupOf2 reqs i).map (·.1)) = false := by
  intro is
  induction is with
  | nil => intro _ _ _ i hi; cases hi
  | cons j is ih =>
    intro ts ts' h i hi
    rw [applyFieldsGo] at h
    split at h
    · cases h
    · rename_i t ht
      split at h
      · cases h
      · rename_i t1 hg
        rcases List.mem_cons.mp hi with e | e
        · subst e
          unfold applyGroup2 at hg
          split at hg
          · cases hg
          · rename_i hd; simpa using hd
        · exact ih _ ts' h i e

theorem mem_firstOcc_of_mem037 : ∀ (l seen : List Nat) (x : Nat), x ∈ l → x ∉ seen → x ∈ firstOcc seen l
  | [], _, _, h, _ => by cases h
  | i :: l, seen, x, h, hs => by
    rw [firstOcc]
    split
    · rename_i hc
      have hne : x ≠ i := by
        intro e; subst e
        exact hs (by simpa using hc)
      rcases List.mem_cons.mp h with e | e
      · exact absurd e hne
      · exact mem_firstOcc_of_mem037 l seen x e hs
    · by_cases e : x = i
      · rw [e]; exact List.mem_cons_self
      · rcases List.mem_cons.mp h with e' | e'
        · exact absurd e' e
        · exact List.mem_cons_of_mem _ (mem_firstOcc_of_mem037 l (i :: seen) x e' (by
            intro hm; rcases List.mem_cons.mp hm with h1 | h1
            · exact e h1
            · exact hs h1))

theorem twice_of_not_nodup037 : ∀ (reqs : List FixReq2), ¬ (reqs.map (·.idx)).Nodup →
    ∃ j, 2 ≤ (reqs.filter (·.idx == j)).length
  | [], h => absurd List.nodup_nil h
  | r :: rs, h => by
    simp only [List.map_cons, List.nodup_cons] at h
    by_cases h1 : r.idx ∈ rs.map (·.idx)
    · obtain ⟨q, hq, e⟩ := List.mem_map.mp h1
      refine ⟨r.idx, ?_⟩
      rw [List.filter_cons, if_pos (by simp)]
      have : q ∈ rs.filter (·.idx == r.idx) := List.mem_filter.mpr ⟨hq, by simp [e]⟩
      have := List.length_pos_of_mem this
      simp only [List.length_cons]; omega
    · obtain ⟨j, hj⟩ := twice_of_not_nodup037 rs (fun hn => h ⟨h1, hn⟩)
      refine ⟨j, ?_⟩
      rw [List.filter_cons]
      split
      · simp only [List.length_cons]; omega
      · exact hj

theorem hasDup2_of_twice037 (reqs : List FixReq2) (hr : ∀ q ∈ reqs, IsTextReq037 q) (j : Nat)
    (h : 2 ≤ (reqs.filter (·.idx == j)).length) : hasDup2 ((groupOf2 reqs j).map (·.1)) = true := by
  unfold groupOf2
  rw [List.map_map]
  have hall : ∀ f ∈ (reqs.filter (·.idx == j)).map ((fun p : Field2 × Val => p.1) ∘ fun q => (q.field, q.val)), f = .base .tokenText := by
    intro f hf
    obtain ⟨q, hq, rfl⟩ := List.mem_map.mp hf
    exact (hr q (List.mem_filter.mp hq).1).1
  generalize hl : (reqs.filter (·.idx == j)).map ((fun p : Field2 × Val => p.1) ∘ fun q => (q.field, q.val)) = l at hall
  have hlen : 2 ≤ l.length := by rw [← hl, List.length_map]; exact h
  match l, hall, hlen with
  | a :: b :: l', hall, _ =>
    have ha := hall a List.mem_cons_self
    have hb := hall b (List.mem_cons_of_mem _ List.mem_cons_self)
    subst ha hb
    simp only [hasDup2, List.contains_cons, Bool.or_eq_true]
    exact .inl (.inl (by decide))

/-- a token named twice: `__apply_token_fix` refuses -/
theorem applyFields_dup037 (toks : List Tok2) (reqs : List FixReq2) (hr : ∀ q ∈ reqs, IsTextReq037 q)
    (hn : ¬ (reqs.map (·.idx)).Nodup) : ∀ ts', applyFields toks reqs ≠ .ok ts' := by
  intro ts' h
  obtain ⟨j, hj⟩ := twice_of_not_nodup037 reqs hn
  have hjm : j ∈ reqs.map (·.idx) := by
    have : 0 < (reqs.filter (·.idx == j)).length := by omega
    obtain ⟨q, hq⟩ := List.exists_mem_of_length_pos this
    have := List.mem_filter.mp hq
    exact List.mem_map.mpr ⟨q, this.1, by simpa using this.2⟩
  unfold applyFields at h
  have := applyFieldsGo_ok_noDup037 reqs _ toks ts' h j (mem_firstOcc_of_mem037 _ [] j hjm (by intro hh; cases hh))
  rw [hasDup2_of_twice037 reqs hr j hj] at this
  cases this

/-- a fix-mode run on which some block end finds a pending list that is not grouped registers two requests for one token -/
theorem run037_notGrouped (all : List Tok2) : ∀ (ts pre : List Tok2) (s : St037) (lo : Nat), all = pre ++ ts →
    StInv037 all lo pre.length s → lo ≤ pre.length → wfGoG037 grouped037 s pre.length ts = false →
    ∀ s' o, runFrom2 md037 () true all s pre.length ts = .ok (s', o) → ¬ (o.reqs.map (·.idx)).Nodup := by
  intro ts
  induction ts with
  | nil => intro _ _ _ _ _ _ h; cases h
  | cons t ts ih =>
    intro pre s lo hall hs hlo hwf s' o hr
    have ht : all[pre.length]? = some t := by rw [hall]; simp
    obtain ⟨s1, o1, hn, _, _, hcase⟩ := next037_fix all lo pre.length s t hs ht hlo
    have hn' : next037 () true [] s pre.length t = .ok (s1, o1) := hn
    rw [wfGoG037, hn'] at hwf
    have hall' : all = (pre ++ [t]) ++ ts := by rw [hall]; simp
    have hlen : (pre ++ [t]).length = pre.length + 1 := by simp
    rw [runFrom2] at hr
    have hn2 : md037.next () true all s pre.length t = .ok (s1, o1) := hn
    rw [hn2] at hr
    dsimp only at hr
    cases hr2 : runFrom2 md037 () true all s1 (pre.length + 1) ts with
    | error e => rw [hr2] at hr; cases hr
    | ok r2 =>
      obtain ⟨s2, o2⟩ := r2
      rw [hr2] at hr
      cases hr
      rw [Out.append_reqs037, List.map_append]
      intro hnd
      obtain ⟨hnd1, hnd2, _⟩ := List.nodup_append.mp hnd
      simp only [Bool.and_eq_false_iff, Bool.or_eq_false_iff, Bool.not_eq_false'] at hwf
      rcases hwf with ⟨hbe, hg⟩ | hrest
      · -- this block end has a pending list that is not grouped
        rcases hcase with ⟨_, _, _, hq⟩ | ⟨hbe', _, _⟩
        · rw [hq] at hnd1
          by_cases he : s.pending.isEmpty = true
          · have : s.pending = [] := by simpa using he
            rw [this] at hg; revert hg; decide
          · rw [if_neg he, procFixes037_idx] at hnd1
            unfold grouped037 at hg
            exact (of_decide_eq_false hg) hnd1
        · rw [hbe] at hbe'; cases hbe'
      · rcases hcase with ⟨_, hpe, hpa, _⟩ | ⟨_, _, hs1⟩
        · refine ih (pre ++ [t]) s1 (pre.length + 1) hall'
            (StInv037.mk (by intro e he; rw [hpa] at he; cases he) (by intro p hp; rw [hpe] at hp; cases hp)) (by omega)
            (by rw [hlen]; exact hrest) s' o2 (by rw [hlen]; exact hr2) hnd2
        · exact ih (pre ++ [t]) s1 lo hall' (by rw [hlen]; exact hs1) (by omega) (by rw [hlen]; exact hrest) s' o2
            (by rw [hlen]; exact hr2) hnd2

/-- … and the fix ends in `BadPluginFixError` -/
theorem fix037_not_wf (toks : List Tok2) (hw : wf037 toks = false) : fix2 md037 () toks = .error .badFix := by
  obtain ⟨o, ho, hrep, _⟩ := fixOut037_total toks
  have hshape := fixOut037_shape toks o ho
  have hnd : ¬ (o.reqs.map (·.idx)).Nodup := by
    have hr : ∃ s', runFrom2 md037 () true toks (md037.init ()) 0 toks = .ok (s', o) := by
      unfold fixOut at ho
      split at ho
      · cases ho
      · rename_i s' o' h'; cases ho; exact ⟨s', h'⟩
    obtain ⟨s', hr⟩ := hr
    exact run037_notGrouped toks toks [] {} 0 rfl (stInv037_init toks) (Nat.le_refl 0) hw s' o hr
  cases hf : fix2 md037 () toks with
  | error e => rw [fix037_err_badFix toks e hf]
  | ok toks' =>
    exfalso
    unfold fix2 at hf
    rw [ho] at hf
    dsimp only at hf
    rw [hrep, applyFixes2_noRepl037] at hf
    split at hf
    · cases hf
    · rename_i ts hts
      exact applyFields_dup037 toks o.reqs hshape.2 hnd ts hts

end Verif.Model.TokenRules
