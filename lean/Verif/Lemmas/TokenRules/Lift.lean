import Verif.Model.TokenRules.Basic2
import Verif.Lemmas.TokenRules.Basic
/-!
  The nine rules of `Model/TokenRules/Basic` run on the extended tokens (`Rule.lift`): scan and fix of the lifted rule are the scan
  and fix of the original rule on the projected stream (`toTok`), the fixed base tokens put back into the extended tokens (`rebase`).
-/
namespace Verif.Model.TokenRules
variable {Cfg St : Type}

/-- the extended tokens with their base parts replaced, position by position -/
def rebase : List Tok2 → List Tok → List Tok2
  | t :: ts, b :: bs => { t with toTok := b } :: rebase ts bs
  | _, _ => []

def liftReq (q : FixReq) : FixReq2 := ⟨q.idx, .base q.field, q.val⟩

theorem runFrom2_lift (r : Rule Cfg St) (c : Cfg) (fm : Bool) (all : List Tok2) :
    ∀ (ts : List Tok2) (s : St) (i : Nat),
      runFrom2 r.lift c fm all s i ts =
        match runFrom r c fm s i (ts.map (·.toTok)) with
        | .error e => .error e.to2
        | .ok (s', rps, fxs) => .ok (s', ⟨rps, fxs.map liftReq, []⟩) := by
  intro ts
  induction ts with
  | nil => intro s i; rfl
  | cons t ts ih =>
    intro s i
    simp only [runFrom2, List.map_cons, runFrom, Rule.lift]
    cases hn : r.next c fm s i t.toTok with
    | error e => rfl
    | ok x =>
      obtain ⟨s', rp, fx⟩ := x
      simp only
      have := ih s' (i + 1)
      simp only [Rule.lift] at this
      rw [this]
      cases hr : runFrom r c fm s' (i + 1) (ts.map (·.toTok)) with
      | error e => rfl
      | ok y =>
        obtain ⟨s'', rps, fxs⟩ := y
        show Except.ok (s'', Out.append ⟨rp, fx.map _, []⟩ ⟨rps, fxs.map liftReq, []⟩) = _
        simp [Out.append, liftReq]

/-- the scan of a lifted rule is the scan of the rule on the base tokens -/
theorem scan2_lift (r : Rule Cfg St) (c : Cfg) (toks : List Tok2) :
    scan2 r.lift c toks = match scan r c (toks.map (·.toTok)) with
      | .error e => .error e.to2
      | .ok rps => .ok rps := by
  unfold scan2 scan
  rw [runFrom2_lift]
  show (match (match runFrom r c false (r.init c) 0 (toks.map (·.toTok)) with
        | .error e => .error e.to2 | .ok (s', rps, fxs) => .ok (s', ⟨rps, fxs.map liftReq, []⟩) : Except Err2 (St × Out)) with
        | .error e => .error e | .ok (_, o) => .ok o.reports : Except Err2 (List Report)) = _
  cases runFrom r c false (r.init c) 0 (toks.map (·.toTok)) with
  | error e => rfl
  | ok x => rfl

/-! ## the fix of a lifted rule -/

theorem beq_base (f g : Field) : (Field2.base f == Field2.base g) = (f == g) := by
  cases f <;> cases g <;> rfl

theorem contains_base (fs : List Field) (f : Field) : (fs.map Field2.base).contains (Field2.base f) = fs.contains f := by
  induction fs with
  | nil => rfl
  | cons g gs ih =>
    simp only [List.map_cons, List.contains_cons, beq_base, ih]

theorem hasDup2_base (fs : List Field) : hasDup2 (fs.map Field2.base) = hasDup fs := by
  induction fs with
  | nil => rfl
  | cons f fs ih => simp only [List.map_cons, hasDup2, hasDup, ih, contains_base]

theorem modAll2_base (t : Tok2) (g : List (Field × Val)) :
    modAll2 t (g.map (fun p => (Field2.base p.1, p.2))) =
      match modAll t.toTok g with
      | .ok b => .ok { t with toTok := b }
      | .error e => .error e.to2 := by
  induction g generalizing t with
  | nil => rfl
  | cons p g ih =>
    obtain ⟨f, v⟩ := p
    simp only [List.map_cons, modAll2, modify2, modAll]
    cases hm : modify t.toTok f v with
    | none => rfl
    | some b =>
      simp only [Option.map_some]
      rw [ih]

theorem applyGroup2_base (t : Tok2) (g : List (Field × Val)) :
    applyGroup2 t (g.map (fun p => (Field2.base p.1, p.2))) =
      match applyGroup t.toTok g with
      | .ok b => .ok { t with toTok := b }
      | .error e => .error e.to2 := by
  unfold applyGroup2 applyGroup
  have : (g.map (fun p => (Field2.base p.1, p.2))).map (·.1) = (g.map (·.1)).map Field2.base := by
    simp [List.map_map]
  rw [this, hasDup2_base]
  split
  · rfl
  · exact modAll2_base t g

theorem groupOf2_lift (reqs : List FixReq) (i : Nat) :
    groupOf2 (reqs.map liftReq) i = (groupOf reqs i).map (fun p => (Field2.base p.1, p.2)) := by
  unfold groupOf2 groupOf
  induction reqs with
  | nil => rfl
  | cons q qs ih =>
    simp only [List.map_cons, List.filter_cons, liftReq]
    by_cases h : (q.idx == i) = true
    · simp only [h, ↓reduceIte, List.map_cons, ih]
    · have h' : (q.idx == i) = false := by simpa using h
      simp only [h', Bool.false_eq_true, ↓reduceIte]
      exact ih

theorem applyFrom_get (reqs : List FixReq) : ∀ (ts : List Tok) (k : Nat) (bs : List Tok), applyFrom reqs k ts = .ok bs →
    bs.length = ts.length ∧ ∀ i t, ts[i]? = some t → ∃ b, bs[i]? = some b ∧ applyGroup t (groupOf reqs (k + i)) = .ok b := by
  intro ts
  induction ts with
  | nil =>
    intro k bs h
    simp only [applyFrom, Except.ok.injEq] at h
    subst h
    exact ⟨rfl, fun i t hi => by simp at hi⟩
  | cons t ts ih =>
    intro k bs h
    unfold applyFrom at h
    split at h
    · cases h
    · rename_i t' ha
      split at h
      · cases h
      · rename_i ts' hr
        cases h
        obtain ⟨hl, hg⟩ := ih (k + 1) ts' hr
        refine ⟨by simp [hl], ?_⟩
        intro i u hi
        cases i with
        | zero =>
          simp only [List.getElem?_cons_zero, Option.some.injEq] at hi
          subst hi
          exact ⟨t', by simp, by simpa using ha⟩
        | succ j =>
          simp only [List.getElem?_cons_succ] at hi
          obtain ⟨b, hb, hgb⟩ := hg j u hi
          refine ⟨b, by simpa using hb, ?_⟩
          have : k + (j + 1) = k + 1 + j := by omega
          rw [this]; exact hgb

theorem rebase_get (ts : List Tok2) (bs : List Tok) (i : Nat) :
    (rebase ts bs)[i]? = match ts[i]?, bs[i]? with
      | some t, some b => some { t with toTok := b }
      | _, _ => none := by
  induction ts generalizing bs i with
  | nil => simp [rebase]
  | cons t ts ih =>
    cases bs with
    | nil => cases i <;> simp [rebase]
    | cons b bs =>
      cases i with
      | zero => simp [rebase]
      | succ j => simpa [rebase] using ih bs j

theorem firstOcc_mem (seen is : List Nat) (i : Nat) : i ∈ firstOcc seen is ↔ i ∈ is ∧ i ∉ seen := by
  induction is generalizing seen with
  | nil => simp [firstOcc]
  | cons j js ih =>
    unfold firstOcc
    by_cases hj : seen.contains j = true
    · simp only [hj, ↓reduceIte, ih, List.mem_cons]
      have hj' : j ∈ seen := by simpa using hj
      constructor
      · rintro ⟨h1, h2⟩; exact ⟨.inr h1, h2⟩
      · rintro ⟨h1 | h1, h2⟩
        · subst h1; exact absurd hj' h2
        · exact ⟨h1, h2⟩
    · simp only [hj, Bool.false_eq_true, ↓reduceIte, List.mem_cons, ih]
      have hj' : j ∉ seen := by simpa using hj
      constructor
      · rintro (h | ⟨h1, h2⟩)
        · subst h; exact ⟨.inl rfl, hj'⟩
        · exact ⟨.inr h1, fun h => h2 (.inr h)⟩
      · rintro ⟨h1 | h1, h2⟩
        · exact .inl h1
        · by_cases he : i = j
          · exact .inl he
          · exact .inr ⟨h1, by rintro (h | h); exact he h; exact h2 h⟩

theorem firstOcc_nodup (seen is : List Nat) : (firstOcc seen is).Nodup := by
  induction is generalizing seen with
  | nil => simp [firstOcc]
  | cons j js ih =>
    unfold firstOcc
    split
    · exact ih seen
    · refine List.nodup_cons.mpr ⟨?_, ih _⟩
      rw [firstOcc_mem]
      simp

/-- the dict-ordered application of the groups reaches the positional result -/
theorem applyFieldsGo_lift (reqs : List FixReq) (ts : List Tok2) (bs : List Tok)
    (hb : applyFrom reqs 0 (ts.map (·.toTok)) = .ok bs) :
    ∀ (order done : List Nat) (cur : List Tok2), order.Nodup → (∀ i ∈ order, i ∉ done ∧ i < ts.length) →
      (∀ i, cur[i]? = if i ∈ done then (rebase ts bs)[i]? else ts[i]?) →
      ∃ fin, applyFieldsGo (reqs.map liftReq) order cur = .ok fin ∧
        ∀ i, fin[i]? = if i ∈ done ∨ i ∈ order then (rebase ts bs)[i]? else ts[i]? := by
  obtain ⟨hlen, hget⟩ := applyFrom_get reqs _ 0 bs hb
  intro order
  induction order with
  | nil =>
    intro done cur _ _ hinv
    exact ⟨cur, rfl, by simpa using hinv⟩
  | cons i is ih =>
    intro done cur hnd hin hinv
    obtain ⟨hid, hilt⟩ := hin i List.mem_cons_self
    have hti : ts[i]? = some ts[i] := by simp [hilt]
    have hci : cur[i]? = some ts[i] := by rw [hinv i, if_neg hid, hti]
    obtain ⟨b, hbi, hgb⟩ := hget i ts[i].toTok (by simp [hilt])
    simp only [Nat.zero_add] at hgb
    unfold applyFieldsGo
    rw [hci]
    simp only
    rw [groupOf2_lift, applyGroup2_base, hgb]
    simp only
    have hnd' := (List.nodup_cons.mp hnd)
    obtain ⟨fin, hf, hfin⟩ := ih (i :: done) (cur.set i { ts[i] with toTok := b }) hnd'.2
      (fun j hj => ⟨by
          intro h
          rcases List.mem_cons.mp h with h | h
          · subst h; exact hnd'.1 hj
          · exact (hin j (List.mem_cons_of_mem _ hj)).1 h,
        (hin j (List.mem_cons_of_mem _ hj)).2⟩)
      (by
        intro j
        rw [List.getElem?_set]
        by_cases hij : i = j
        · subst hij
          have hlt : i < cur.length := by
            have := hci
            rcases Nat.lt_or_ge i cur.length with h | h
            · exact h
            · rw [List.getElem?_eq_none h] at this; cases this
          simp only [↓reduceIte, hlt, List.mem_cons, true_or]
          rw [rebase_get, hti, hbi]
        · simp only [hij, ↓reduceIte, List.mem_cons]
          rw [hinv j]
          have : (j = i) = False := by simp; exact fun h => hij h.symm
          simp only [this, false_or])
    refine ⟨fin, hf, ?_⟩
    intro j
    rw [hfin j]
    simp only [List.mem_cons]
    congr 1
    apply propext
    constructor
    · rintro ((h | h) | h)
      · exact .inr (.inl h)
      · exact .inl h
      · exact .inr (.inr h)
    · rintro (h | h | h)
      · exact .inl (.inr h)
      · exact .inl (.inl h)
      · exact .inr h

/-! ## nothing to replace: `reindex` is the identity on a stream whose `startIdx` point into the stream -/

theorem findTag_range' (j : Nat) : ∀ (m k : Nat),
    findTag j ((List.range' k m).map WTok.orig) = if k ≤ j ∧ j < k + m then some (j - k) else none := by
  intro m
  induction m with
  | zero => intro k; simp [findTag]
  | succ m ih =>
    intro k
    simp only [List.range'_succ, List.map_cons, findTag, ih]
    by_cases h : k = j
    · subst h; simp
    · have h1 : ¬ (WTok.orig k = WTok.orig j) := by intro e; cases e; exact h rfl
      simp only [h1, ↓reduceIte]
      by_cases h2 : k + 1 ≤ j ∧ j < k + 1 + m
      · have h3 : k ≤ j ∧ j < k + (m + 1) := by omega
        simp only [h2, and_self, ↓reduceIte, Option.map_some, h3, Option.some.injEq]; omega
      · have h3 : ¬ (k ≤ j ∧ j < k + (m + 1)) := by omega
        simp [h2, h3]

theorem reindex_range' (w : Work)
    (hv : ∀ t ∈ w.store, ∀ j, t.startIdx = some j → findTag j w.list = some j) :
    ∀ (m k p : Nat), k + m ≤ w.store.length →
      reindex w p ((List.range' k m).map WTok.orig) = (w.store.drop k).take m := by
  intro m
  induction m with
  | zero => intro k p _; simp [reindex]
  | succ m ih =>
    intro k p hk
    have hlt : k < w.store.length := by omega
    simp only [List.range'_succ, List.map_cons, reindex]
    rw [ih (k + 1) (p + 1) (by omega)]
    have hget : w.store[k]? = some w.store[k] := by simp [hlt]
    rw [hget]
    simp only
    have hd : w.store.drop k = w.store[k] :: w.store.drop (k + 1) := by
      rw [List.drop_eq_getElem_cons hlt]
    rw [hd, List.take_succ_cons]
    congr 1
    cases hs : w.store[k].startIdx with
    | none => rfl
    | some j =>
      simp only
      rw [hv w.store[k] (List.getElem_mem hlt) j hs, ← hs]
      rfl

theorem applyFixes2_noRepl_tail (ts : List Tok2)
    (hv : ∀ t ∈ ts, ∀ j, t.startIdx = some j → j < ts.length) :
    (match applyRepls ⟨ts, (List.range ts.length).map .orig⟩ [] with
     | .error e => .error e
     | .ok w => .ok (reindex w 0 w.list) : Except Err2 (List Tok2)) = .ok ts := by
  simp only [applyRepls]
  rw [List.range_eq_range']
  have := reindex_range' ⟨ts, (List.range' 0 ts.length).map .orig⟩
    (by
      intro t ht j hj
      show findTag j ((List.range' 0 ts.length).map .orig) = some j
      rw [findTag_range']
      have := hv t ht j hj
      simp [this]) ts.length 0 0 (by simp)
  simp only [this, List.drop_zero, List.take_length]

/-- the fix of a lifted rule is the fix of the rule on the base tokens, put back into the extended tokens -/
theorem fix2_lift (r : Rule Cfg St) (c : Cfg) (toks : List Tok2) (bs : List Tok)
    (hv : ∀ t ∈ toks, ∀ j, t.startIdx = some j → j < toks.length)
    (h : fix r c (toks.map (·.toTok)) = .ok bs) : fix2 r.lift c toks = .ok (rebase toks bs) := by
  unfold fix fixReqs at h
  split at h
  · cases h
  · rename_i fxs hf
    split at hf
    · cases hf
    · rename_i s' rps fxs' hr
      cases hf
      unfold applyFixes at h
      split at h
      · cases h
      · rename_i hrange
        have hrange' : ∀ q ∈ fxs, q.idx < toks.length := by
          intro q hq
          have h1 : (fxs.any fun q => decide ((toks.map (·.toTok)).length ≤ q.idx)) = false := by simpa using hrange
          have := List.any_eq_false.mp h1 q hq
          simpa using this
        obtain ⟨hlen, hget⟩ := applyFrom_get fxs _ 0 bs h
        simp only [List.length_map] at hlen
        -- the rule's output
        have hout : fixOut r.lift c toks = .ok ⟨rps, fxs.map liftReq, []⟩ := by
          unfold fixOut
          rw [runFrom2_lift]
          show (match (match runFrom r c true (r.init c) 0 (toks.map (·.toTok)) with
                | .error e => .error e.to2 | .ok (s', rps, fxs) => .ok (s', ⟨rps, fxs.map liftReq, []⟩) : Except Err2 (St × Out)) with
                | .error e => .error e | .ok (_, o) => .ok o : Except Err2 Out) = _
          rw [hr]
        unfold fix2
        rw [hout]
        simp only
        unfold applyFixes2 applyFields
        have hidx : (fxs.map liftReq).map (·.idx) = fxs.map (·.idx) := by simp [List.map_map, liftReq, Function.comp_def]
        rw [hidx]
        obtain ⟨fin, hfin, hfget⟩ := applyFieldsGo_lift fxs toks bs h (firstOcc [] (fxs.map (·.idx))) [] toks
          (firstOcc_nodup _ _)
          (fun i hi => ⟨by simp, by
            obtain ⟨hm, _⟩ := (firstOcc_mem [] _ i).mp hi
            obtain ⟨q, hq, rfl⟩ := List.mem_map.mp hm
            exact hrange' q hq⟩)
          (fun i => by simp)
        rw [hfin]
        simp only [collide]
        have hfe : fin = rebase toks bs := by
          apply List.ext_getElem?
          intro i
          rw [hfget i]
          by_cases hi : i ∈ firstOcc [] (fxs.map (·.idx))
          · simp [hi]
          · simp only [List.not_mem_nil, false_or, hi, ↓reduceIte]
            have hni : i ∉ fxs.map (·.idx) := fun hm => hi ((firstOcc_mem [] _ i).mpr ⟨hm, by simp⟩)
            have hg : groupOf fxs i = [] := groupOf_none fxs i (fun q hq he => hni (List.mem_map.mpr ⟨q, hq, he⟩))
            rw [rebase_get]
            cases hti : toks[i]? with
            | none => rfl
            | some t =>
              obtain ⟨b, hb, hgb⟩ := hget i t.toTok (by simp [hti])
              simp only [Nat.zero_add, hg, applyGroup_nil, Except.ok.injEq] at hgb
              rw [hb]; subst hgb; rfl
        subst hfe
        have hlen2 : (rebase toks bs).length = toks.length := by
          have : ∀ (a : List Tok2) (b : List Tok), a.length = b.length → (rebase a b).length = a.length := by
            intro a
            induction a with
            | nil => intro b _; cases b <;> rfl
            | cons x xs ih =>
              intro b hb
              cases b with
              | nil => simp at hb
              | cons y ys => simp [rebase, ih ys (by simpa using hb)]
          exact this toks bs hlen.symm
        have hv2 : ∀ t ∈ rebase toks bs, ∀ j, t.startIdx = some j → j < (rebase toks bs).length := by
          intro t ht j hj
          rw [hlen2]
          obtain ⟨i, hi, hti⟩ := List.getElem_of_mem ht
          have h1 : (rebase toks bs)[i]? = some t := by simp [hi, hti]
          rw [rebase_get] at h1
          cases hti2 : toks[i]? with
          | none => simp [hti2] at h1
          | some u =>
            cases hbi : bs[i]? with
            | none => simp [hti2, hbi] at h1
            | some b =>
              simp only [hti2, hbi, Option.some.injEq] at h1
              subst h1
              exact hv u (List.mem_of_getElem? hti2) j hj
        exact applyFixes2_noRepl_tail (rebase toks bs) hv2

end Verif.Model.TokenRules
