import Verif.Model.TokenRules.Basic2
import Verif.Lemmas.TokenRules.Basic
/-!
  Generic non-interference for rules over `Tok2`: a change of the stream that keeps every field a rule's `next` reads (relation
  `Same`, which must also cover what `next` looks up in the whole stream) cannot change that rule's scan.
-/
namespace Verif.Model.TokenRules
variable {Cfg St : Type}

theorem runFrom2_congr (r : Rule2 Cfg St) (c : Cfg) (fm : Bool) (Same : Tok2 → Tok2 → Prop) (all all' : List Tok2)
    (hnext : ∀ s i t t', Same t t' → r.next c fm all' s i t' = r.next c fm all s i t) :
    ∀ (ts ts' : List Tok2), All₂ Same ts ts' → ∀ s i, runFrom2 r c fm all' s i ts' = runFrom2 r c fm all s i ts := by
  intro ts ts' hs
  induction hs with
  | nil => intro s i; rfl
  | cons hp _ ih =>
    intro s i
    unfold runFrom2
    rw [hnext s i _ _ hp]
    split
    · rfl
    · rw [ih]

/-- `Same` position by position (and `next` not telling related streams apart) ⇒ same scan -/
theorem scan2_congr (r : Rule2 Cfg St) (c : Cfg) (Same : Tok2 → Tok2 → Prop)
    (hnext : ∀ all all' s i t t', All₂ Same all all' → Same t t' → r.next c false all' s i t' = r.next c false all s i t)
    (toks toks' : List Tok2) (h : All₂ Same toks toks') : scan2 r c toks' = scan2 r c toks := by
  unfold scan2
  rw [runFrom2_congr r c false Same toks toks' (fun s i t t' hp => hnext toks toks' s i t t' h hp) toks toks' h]

theorem All₂.map_left {α β γ : Type} {P : γ → β → Prop} (f : α → γ) {as : List α} {bs : List β}
    (h : All₂ (fun a b => P (f a) b) as bs) : All₂ P (as.map f) bs := by
  induction h with
  | nil => exact .nil
  | cons hp _ ih => exact .cons hp ih

theorem All₂.refl' {α : Type} {P : α → α → Prop} (hP : ∀ a, P a a) (as : List α) : All₂ P as as := by
  induction as with
  | nil => exact .nil
  | cons a as ih => exact .cons (hP a) ih

end Verif.Model.TokenRules
