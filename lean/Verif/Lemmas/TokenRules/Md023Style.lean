import Verif.Lemmas.TokenRules.Md023Fix
/-!
  MD023, what the fix may change (token-level C08): from `Good023` requests to the per-token relation `Style023`.
-/
namespace Verif.Model.TokenRules

/-- what `modify2` does with the four fields MD023 writes -/
def setField023 (t : Tok2) (f : Field2) (v : Str) : Tok2 :=
  match f with
  | .base .extractedWhitespace => { t with toTok := { t.toTok with ws := v } }
  | .endWhitespace => { t with endWs := some v }
  | .base .tokenText => { t with toTok := { t.toTok with text := v } }
  | .base .leadingSpaces => { t with toTok := { t.toTok with leading := some v } }
  | _ => t

theorem modify2_ws023 (t t2 : Tok2) (v : Str) (h : modify2 t (.base .extractedWhitespace) (.str v) = some t2) :
    t2 = { t with toTok := { t.toTok with ws := v } } := by
  unfold modify2 at h
  simp only [Option.map_eq_some_iff] at h
  obtain ⟨b, hb, rfl⟩ := h
  congr 1
  unfold modify at hb
  cases hk : t.kind <;> simp only [hk] at hb <;>
    simp only [leafMod, listMod, baseMod, Option.some.injEq, reduceCtorEq] at hb <;> first | exact hb.symm | (cases hb; done) | (cases hb; simp [hk])

theorem modify2_text023 (t t2 : Tok2) (v : Str) (h : modify2 t (.base .tokenText) (.str v) = some t2) :
    t2 = { t with toTok := { t.toTok with text := v } } := by
  unfold modify2 at h
  simp only [Option.map_eq_some_iff] at h
  obtain ⟨b, hb, rfl⟩ := h
  congr 1
  unfold modify at hb
  cases hk : t.kind <;> simp only [hk] at hb <;>
    simp only [leafMod, listMod, baseMod, Option.some.injEq, reduceCtorEq] at hb <;> first | exact hb.symm | (cases hb; done) | (cases hb; simp [hk])

theorem modify2_lead023 (t t2 : Tok2) (v : Str) (h : modify2 t (.base .leadingSpaces) (.str v) = some t2) :
    t2 = { t with toTok := { t.toTok with leading := some v } } := by
  unfold modify2 at h
  simp only [Option.map_eq_some_iff] at h
  obtain ⟨b, hb, rfl⟩ := h
  congr 1
  unfold modify at hb
  cases hk : t.kind <;> simp only [hk] at hb <;>
    simp only [leafMod, listMod, baseMod, Option.some.injEq, reduceCtorEq] at hb <;> first | exact hb.symm | (cases hb; done) | (cases hb; simp [hk])

theorem modify2_endWs023 (t t2 : Tok2) (v : Str) (h : modify2 t .endWhitespace (.str v) = some t2) :
    t2 = { t with endWs := some v } := by
  unfold modify2 at h
  cases hk : t.kind <;> simp only [hk] at h <;> first | exact (Option.some.inj h).symm | (cases h; done) | (cases h; simp [hk])

/-- what a token may look like after MD023's requests for it were applied, relative to the ORIGINAL token `t` -/
structure Sty023 (t t' : Tok2) : Prop where
  rest : t' = { t with toTok := { t.toTok with ws := t'.ws, text := t'.text, leading := t'.leading }, endWs := t'.endWs }
  ws : t'.ws = t.ws ∨
    ((t.kind = .atx ∨ t.kind = .setext ∨ t.kind = .setextEnd) ∧ ∃ c r, t.ws = c :: r ∧ (t'.ws = [] ∨ (t'.ws = [' '] ∧ c = '\t')))
  endWs : t'.endWs = t.endWs ∨
    (t.kind = .text ∧ ∃ e ls', t.endWs = some e ∧ t'.endWs = some (joinWith nl023 ls') ∧ All₂ EndLine023 (splitOn1 '\n' e) ls')
  text : t'.text = t.text ∨
    (t.kind = .text ∧ ∃ ls', t'.text = joinWith nl023 ls' ∧ All₂ TextLine023 (splitOn1 '\n' t.text) ls')
  leading : t'.leading = t.leading ∨
    ((t.kind = .ulist ∨ t.kind = .olist) ∧ ∃ l ls', t.leading = some l ∧ t'.leading = some (joinWith nl023 ls') ∧
      All₂ (LeadLine023 t.indent) (splitOn1 '\n' l) ls')

theorem Sty023.refl (t : Tok2) : Sty023 t t := ⟨rfl, .inl rfl, .inl rfl, .inl rfl, .inl rfl⟩

/-- one accepted `Good` request keeps `Sty023` (relative to the original token) -/
theorem modify2_sty023 (t0 t1 t2 : Tok2) (f : Field2) (v : Val) (hg : GoodFor023 t0 f v) (hs : Sty023 t0 t1)
    (h : modify2 t1 f v = some t2) : Sty023 t0 t2 := by
  obtain ⟨hr, hw, he, ht, hl⟩ := hs
  rcases hg with ⟨c, r, w, hk, rfl, hws, rfl, hw'⟩ | ⟨e, ls', hk, rfl, hew, rfl, hall⟩ | ⟨ls', hk, rfl, rfl, hall⟩ |
      ⟨l, ls', hk, rfl, hld, rfl, hall⟩
  · have := modify2_ws023 t1 t2 w h
    subst this
    refine ⟨?_, .inr ⟨hk, c, r, hws, hw'⟩, he, ht, hl⟩
    simp only
    rw [hr]
  · have := modify2_endWs023 t1 t2 _ h
    subst this
    refine ⟨?_, hw, .inr ⟨hk, e, ls', hew, rfl, hall⟩, ht, hl⟩
    simp only
    rw [hr]
  · have := modify2_text023 t1 t2 _ h
    subst this
    refine ⟨?_, hw, he, .inr ⟨hk, ls', rfl, hall⟩, hl⟩
    simp only
    rw [hr]
  · have := modify2_lead023 t1 t2 _ h
    subst this
    refine ⟨?_, hw, he, ht, .inr ⟨hk, l, ls', hld, rfl, hall⟩⟩
    simp only
    rw [hr]

theorem modAll2_sty023 (t0 : Tok2) : ∀ (g : List (Field2 × Val)) (t1 t' : Tok2), (∀ p ∈ g, GoodFor023 t0 p.1 p.2) → Sty023 t0 t1 →
    modAll2 t1 g = .ok t' → Sty023 t0 t' := by
  intro g
  induction g with
  | nil => intro t1 t' _ hs h; simp only [modAll2, Except.ok.injEq] at h; subst h; exact hs
  | cons p g ih =>
    intro t1 t' hg hs h
    obtain ⟨f, v⟩ := p
    unfold modAll2 at h
    split at h
    · rename_i t2 hm
      exact ih t2 t' (fun p hp => hg p (List.mem_cons_of_mem _ hp)) (modify2_sty023 t0 t1 t2 f v (hg (f, v) List.mem_cons_self) hs hm) h
    · cases h

theorem applyGroup2_sty023 (toks : List Tok2) (reqs : List FixReq2) (hg : ∀ q ∈ reqs, Good023 toks q) (i : Nat) (t t' : Tok2)
    (ht : toks[i]? = some t) (h : applyGroup2 t (groupOf2 reqs i) = .ok t') : Sty023 t t' := by
  unfold applyGroup2 at h
  split at h
  · cases h
  · apply modAll2_sty023 t _ t t' _ (Sty023.refl t) h
    intro p hp
    unfold groupOf2 at hp
    obtain ⟨q, hq, rfl⟩ := List.mem_map.mp hp
    obtain ⟨hq1, hq2⟩ := List.mem_filter.mp hq
    have hqi : q.idx = i := by simpa using hq2
    obtain ⟨tq, htq, hgood⟩ := hg q hq1
    rw [hqi, ht] at htq
    cases htq
    exact hgood

/-- the relation of `md023_fix_only_style`: `Sty023` up to the `startIdx` normalisation of `applyFixes2` (an index that points outside
    the stream becomes `none`; never the case for the abstraction of a real stream) -/
def Style023 (n : Nat) (t t' : Tok2) : Prop := ∃ u, Sty023 t u ∧ t' = normIdx023 n u

theorem fix2_023_style (toks toks' : List Tok2) (h : fix2 md023 () toks = .ok toks') : All₂ (Style023 toks.length) toks toks' := by
  unfold fix2 at h
  split at h
  · cases h
  · rename_i o ho
    obtain ⟨hrep, hgood⟩ := fixOut023_good toks o ho
    rw [hrep, applyFixes2_noRepl023] at h
    split at h
    · cases h
    · rename_i ts hts
      simp only [Except.ok.injEq] at h
      subst h
      obtain ⟨hlen, hget⟩ := applyFields_get023 toks ts o.reqs hts
      apply All₂.of_get023
      · simp [hlen]
      · intro i t hti
        obtain ⟨t', ht', hti'⟩ := hget i t hti
        refine ⟨normIdx023 ts.length t', by simp [hti'], t', applyGroup2_sty023 toks o.reqs hgood i t t' hti ht', by rw [hlen]⟩

end Verif.Model.TokenRules
