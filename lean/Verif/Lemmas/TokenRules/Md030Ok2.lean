import Verif.Lemmas.TokenRules.Md030Ok
/-!
  MD030 over `Tok2`: the registered requests can be applied — no token gets two requests for one field (no `BadPluginFixError`),
  every request names a token of the stream whose class accepts the field.  With `Md030Ok`: `fix2_md030f_ok_of`.
-/
namespace Verif.Model.TokenRules

def key030 (q : FixReq2) : Nat × Field2 := (q.idx, q.field)

theorem viol030_cons (c : C030) (ordered : Bool) (p : Nat × Ent030) (ps : List (Nat × Ent030)) :
    viol030 c ordered (p :: ps) =
      if adj030 c ordered p.2 ≠ 0 then (p.1, p.2, adj030 c ordered p.2) :: viol030 c ordered ps else viol030 c ordered ps := by
  unfold viol030 adj030
  simp only [List.filterMap_cons]
  by_cases h : delta030 ordered p.2 - required030 c ordered p.2.paras = 0 <;> simp [h]

theorem viol_idx_sublist030 (c : C030) (ordered : Bool) : ∀ (ents : List (Nat × Ent030)),
    List.Sublist ((viol030 c ordered ents).map (·.1)) (ents.map (·.1)) := by
  intro ents
  induction ents with
  | nil => exact List.Sublist.slnil
  | cons p ps ih =>
    rw [viol030_cons]
    split
    · exact List.Sublist.cons_cons _ ih
    · exact List.Sublist.cons _ ih

theorem nodup_map_pair030 {α β γ : Type} (f : α → β) (a : γ) : ∀ (l : List α), (l.map f).Nodup → (l.map (fun x => (f x, a))).Nodup := by
  intro l
  induction l with
  | nil => intro _; exact List.nodup_nil
  | cons x xs ih =>
    intro h
    simp only [List.map_cons, List.nodup_cons] at h ⊢
    refine ⟨?_, ih h.2⟩
    intro hm
    obtain ⟨y, hy, hxy⟩ := List.mem_map.mp hm
    simp only [Prod.mk.injEq, and_true] at hxy
    exact h.1 (List.mem_map.mpr ⟨y, hy, hxy⟩)

/-- every request of a closing names a token of that closing -/
theorem listEnd_reqs_idx030 (c : C030) (all : List Tok2) (cl : Fr030f × Tok2) (ocl : Out) (hW : ClWf030 cl)
    (h : listEnd030f c true all cl.1 cl.2 = .ok ocl) : ∀ q ∈ ocl.reqs, q.idx ∈ clIdx030 cl := by
  intro q hq
  rcases listEnd030f_req c all cl.1 cl.2 ocl h q hq with ⟨w, hw, rfl⟩ | ⟨s, _, _, hsi⟩
  · obtain ⟨w1, _, _⟩ := (mem_viol030 c _ _ w).mp hw
    exact List.mem_map.mpr ⟨_, w1, rfl⟩
  · obtain ⟨p, hp, hsi'⟩ := hW
    rw [hsi] at hsi'
    simp only [Option.some.injEq] at hsi'
    rw [hsi']
    have : p ∈ cl.1.ents := by
      cases he : cl.1.ents with
      | nil => rw [he] at hp; cases hp
      | cons a as =>
        rw [he] at hp
        simp only [List.head?_cons, Option.some.injEq] at hp
        subst hp
        exact List.mem_cons_self
    exact List.mem_map.mpr ⟨p, this, rfl⟩

theorem listEnd_reqs_nodup030 (c : C030) (all : List Tok2) (cl : Fr030f × Tok2) (ocl : Out) (hnd : (clIdx030 cl).Nodup)
    (h : listEnd030f c true all cl.1 cl.2 = .ok ocl) : (ocl.reqs.map key030).Nodup := by
  obtain ⟨_, _, lead, hl, hlead⟩ := listEnd030f_fix c all cl.1 cl.2 ocl h
  rw [hl, List.map_append]
  have h1 : (((viol030 c cl.1.ordered cl.1.ents).map indentReq030).map key030).Nodup := by
    rw [List.map_map]
    have := nodup_map_pair030 (fun v : Nat × Ent030 × Int => v.1) (Field2.base .indentLevel) _
      (List.Nodup.sublist (viol_idx_sublist030 c cl.1.ordered cl.1.ents) hnd)
    exact this
  have hleadShape : lead = [] ∨ ∃ j s, lead = [⟨j, .base .leadingSpaces, .str s⟩] := by
    rcases hlead with hlead | ⟨_, hlead⟩
    · exact .inl hlead
    · obtain ⟨j, lt, _, _, _, hrq⟩ := regs030_shape all cl.2 _ _ lead hlead
      rcases hrq with hrq | ⟨ld, ls, _, _, _, _, hrq⟩
      · exact .inl hrq
      · exact .inr ⟨j, _, hrq⟩
  rcases hleadShape with hlead | ⟨j, s, hlead⟩
  · rw [hlead]; simpa using h1
  · rw [hlead]
    refine List.nodup_append.mpr ⟨h1, by simp, ?_⟩
    intro a ha b hb
    simp only [List.map_cons, List.map_nil, List.mem_singleton, key030] at hb
    obtain ⟨q, hq, rfl⟩ := List.mem_map.mp ha
    obtain ⟨w, _, rfl⟩ := List.mem_map.mp hq
    rw [hb]
    simp [key030, indentReq030]

theorem outs_keys_nodup030 (c : C030) (all : List Tok2) : ∀ (cs : List (Fr030f × Tok2)) (o : Out),
    (cs.flatMap clIdx030).Nodup → (∀ cl ∈ cs, ClWf030 cl) → outs030 c true all cs = .ok o →
    (o.reqs.map key030).Nodup ∧ ∀ q ∈ o.reqs, q.idx ∈ cs.flatMap clIdx030 := by
  intro cs
  induction cs with
  | nil =>
    intro o _ _ h
    simp only [outs030, Except.ok.injEq] at h
    subst h
    exact ⟨List.nodup_nil, by intro q hq; cases hq⟩
  | cons cl cs ih =>
    intro o hnd hW h
    unfold outs030 at h
    split at h
    · cases h
    · rename_i o1 h1
      split at h
      · cases h
      · rename_i o2 h2
        cases h
        simp only [List.flatMap_cons] at hnd
        obtain ⟨n1, n2, n3⟩ := List.nodup_append.mp hnd
        obtain ⟨i1, i2⟩ := ih o2 n2 (fun x hx => hW x (List.mem_cons_of_mem _ hx)) h2
        have hidx := listEnd_reqs_idx030 c all cl o1 (hW cl List.mem_cons_self) h1
        have hk1 := listEnd_reqs_nodup030 c all cl o1 n1 h1
        refine ⟨?_, ?_⟩
        · show ((o1.reqs ++ o2.reqs).map key030).Nodup
          rw [List.map_append]
          refine List.nodup_append.mpr ⟨hk1, i1, ?_⟩
          intro a ha b hb hab
          obtain ⟨q, hq, rfl⟩ := List.mem_map.mp ha
          obtain ⟨q', hq', rfl⟩ := List.mem_map.mp hb
          have : q.idx = q'.idx := congrArg (·.1) hab
          exact n3 q.idx (hidx q hq) q'.idx (i2 q' hq') this
        · intro q hq
          have hq' : q ∈ o1.reqs ++ o2.reqs := hq
          simp only [List.flatMap_cons, List.mem_append]
          rcases List.mem_append.mp hq' with hq' | hq'
          · exact .inl (hidx q hq')
          · exact .inr (i2 q hq')

theorem group_fields_nodup030 : ∀ (reqs : List FixReq2) (i : Nat), (reqs.map key030).Nodup →
    ((groupOf2 reqs i).map (·.1)).Nodup := by
  intro reqs i
  induction reqs with
  | nil => intro _; exact List.nodup_nil
  | cons q qs ih =>
    intro h
    simp only [List.map_cons, List.nodup_cons] at h
    obtain ⟨h1, h2⟩ := h
    unfold groupOf2 at ih ⊢
    simp only [List.filter_cons]
    split
    · rename_i hqi
      simp only [List.map_cons, List.nodup_cons]
      refine ⟨?_, ih h2⟩
      intro hm
      simp only [List.map_map, List.mem_map, List.mem_filter, Function.comp] at hm
      obtain ⟨q', ⟨hq', hq'i⟩, hf⟩ := hm
      apply h1
      refine List.mem_map.mpr ⟨q', hq', ?_⟩
      simp only [beq_iff_eq] at hqi hq'i
      simp only [key030, Prod.mk.injEq]
      exact ⟨by rw [hq'i, hqi], hf⟩
    · exact ih h2

theorem hasDup2_false_of_nodup030 : ∀ (fs : List Field2),
    (∀ y ∈ fs, y = .base .indentLevel ∨ y = .base .leadingSpaces) → fs.Nodup → hasDup2 fs = false := by
  intro fs
  induction fs with
  | nil => intro _ _; rfl
  | cons f fs ih =>
    intro hy hnd
    simp only [List.nodup_cons] at hnd
    unfold hasDup2
    rw [ih (fun y h => hy y (List.mem_cons_of_mem _ h)) hnd.2, Bool.or_false]
    -- `contains` is sound on the two field names
    have sound : ∀ (l : List Field2), (∀ y ∈ l, y = .base .indentLevel ∨ y = .base .leadingSpaces) → l.contains f = true → f ∈ l := by
      intro l
      induction l with
      | nil => intro _ h; simp at h
      | cons a as iha =>
        intro hl h
        rw [List.contains_cons, Bool.or_eq_true] at h
        rcases h with h | h
        · have hf := hy f List.mem_cons_self
          have ha := hl a List.mem_cons_self
          rcases hf with hf | hf <;> rcases ha with ha | ha <;> rw [hf, ha] at h ⊢
          · exact List.mem_cons_self
          · exact absurd h (by decide)
          · exact absurd h (by decide)
          · exact List.mem_cons_self
        · exact List.mem_cons_of_mem _ (iha (fun y h' => hl y (List.mem_cons_of_mem _ h')) h)
    cases hc : fs.contains f with
    | false => rfl
    | true => exact absurd (sound fs (fun y h => hy y (List.mem_cons_of_mem _ h)) hc) hnd.1

theorem modAll2_ok_style030 : ∀ (g : List (Field2 × Val)) (t : Tok2),
    (∀ p ∈ g, ((∃ n, p = (Field2.base .indentLevel, Val.int n)) ∧ (t.kind = .ulist ∨ t.kind = .olist ∨ t.kind = .li)) ∨
              ((∃ s, p = (Field2.base .leadingSpaces, Val.str s)) ∧ (t.kind = .ulist ∨ t.kind = .olist))) →
    ∃ t', modAll2 t g = .ok t' := by
  intro g
  induction g with
  | nil => intro t _; exact ⟨t, rfl⟩
  | cons p g ih =>
    intro t h
    rcases h p List.mem_cons_self with ⟨⟨n, rfl⟩, hk⟩ | ⟨⟨s, rfl⟩, hk⟩
    · unfold modAll2
      rw [modify2_indent_ok030 t n hk]
      simp only
      apply ih
      intro q hq
      exact h q (List.mem_cons_of_mem _ hq)
    · unfold modAll2
      rw [modify2_leading_ok030 t s hk]
      simp only
      apply ih
      intro q hq
      exact h q (List.mem_cons_of_mem _ hq)

/-- the fix of a well-formed stream: it succeeds when the line counts are covered; otherwise the only exception is `IndexError` -/
theorem fix2_md030f_ok_of (c : C030) (toks : List Tok2) (hW : wf030 toks = true) :
    (cover030 toks = true → ∃ toks', fix2 md030f c toks = .ok toks') ∧
    ((∃ toks', fix2 md030f c toks = .ok toks') ∨ fix2 md030f c toks = .error .indexError) := by
  obtain ⟨⟨s', hs'⟩, hcl, hcov⟩ := closings_wf030 toks toks {} 0 (by intro fr h; cases h) (by simp) hW
  obtain ⟨hnd, _, hdata⟩ := closings_facts030 toks toks {} 0 (Inv030.init toks) (by simp)
  have hrun := runFrom2_md030f_steps_ok c true toks toks {} 0 s' hs'
  -- when the closings' outputs exist, the requests can be applied
  have happly : ∀ o, outs030 c true toks (closings030 {} 0 toks) = .ok o → ∃ toks', fix2 md030f c toks = .ok toks' := by
    intro o ho
    rw [ho] at hrun
    simp only at hrun
    obtain ⟨_, hrepl, hreq, _⟩ := outs030_fix c toks _ o ho
    obtain ⟨hkeys, hidx⟩ := outs_keys_nodup030 c toks _ o hnd (fun cl h => (hcl cl h).2) ho
    have hlt : ∀ q ∈ o.reqs, q.idx < toks.length := by
      intro q hq
      obtain ⟨cl, hclm, hk⟩ := List.mem_flatMap.mp (hidx q hq)
      obtain ⟨p, hp, hpk⟩ := List.mem_map.mp hk
      obtain ⟨t0, ht0, _⟩ := hdata cl hclm p hp
      rw [hpk] at ht0
      rcases Nat.lt_or_ge q.idx toks.length with h | h
      · exact h
      · rw [List.getElem?_eq_none h] at ht0; cases ht0
    have hg : ∀ i t, toks[i]? = some t → ∃ t', applyGroup2 t (groupOf2 o.reqs i) = .ok t' := by
      intro i t ht
      have hsty := group_style030 c toks _ o ho i
      have hdup : hasDup2 ((groupOf2 o.reqs i).map (·.1)) = false := by
        apply hasDup2_false_of_nodup030 _ _ (group_fields_nodup030 o.reqs i hkeys)
        intro y hy
        obtain ⟨p, hp, rfl⟩ := List.mem_map.mp hy
        rcases hsty p hp with ⟨n, rfl⟩ | ⟨s, rfl⟩
        · exact .inl rfl
        · exact .inr rfl
      have hmod : ∃ t', modAll2 t (groupOf2 o.reqs i) = .ok t' := by
        apply modAll2_ok_style030
        intro p hp
        obtain ⟨q, hq, hqi, hqf⟩ := (mem_groupOf2030 o.reqs i p).mp hp
        obtain ⟨cl, hclm, ocl, hocl, hqo⟩ := hreq q hq
        obtain ⟨_, _, lead, hl, hlead⟩ := listEnd030f_fix c toks cl.1 cl.2 ocl hocl
        rw [hl] at hqo
        rcases List.mem_append.mp hqo with hqo | hqo
        · obtain ⟨w, hw, rfl⟩ := List.mem_map.mp hqo
          obtain ⟨w1, _, _⟩ := (mem_viol030 c _ _ w).mp hw
          obtain ⟨t0, ht0, _, _, hk0⟩ := hdata cl hclm _ w1
          simp only [indentReq030] at hqi hqf ht0
          rw [hqi, ht] at ht0
          cases ht0
          exact .inl ⟨⟨_, hqf.symm⟩, hk0⟩
        · rcases hlead with hlead | ⟨_, hlead⟩
          · rw [hlead] at hqo; cases hqo
          · obtain ⟨j, lt, _, hlt', hk0, hrq⟩ := regs030_shape toks cl.2 _ _ lead hlead
            rcases hrq with hrq | ⟨ld, ls, _, _, _, _, hrq⟩
            · rw [hrq] at hqo; cases hqo
            · rw [hrq] at hqo
              simp only [List.mem_singleton] at hqo
              subst hqo
              simp only at hqi hqf
              rw [hqi, ht] at hlt'
              cases hlt'
              exact .inr ⟨⟨_, hqf.symm⟩, hk0⟩
      obtain ⟨t', ht'⟩ := hmod
      exact ⟨t', (applyGroup2_ok_iff030 t t' _).mpr ⟨hdup, ht'⟩⟩
    obtain ⟨fin, hfin⟩ := applyFields_ok030 toks o.reqs hlt hg
    refine ⟨fin.map (normIdx030 fin.length), ?_⟩
    unfold fix2 fixOut
    rw [show md030f.init c = ({} : St030f) from rfl, hrun]
    simp only
    rw [hrepl, applyFixes2_noRepl030, hfin]
  constructor
  · intro hC
    have hall : ∀ cl ∈ closings030 {} 0 toks, ∃ o, listEnd030f c true toks cl.1 cl.2 = .ok o := by
      intro cl hclm
      exact (listEnd030f_ok c toks cl (hcl cl hclm).1 (hcl cl hclm).2).1 (hcov hC cl hclm)
    obtain ⟨o, ho⟩ := outs030_ok_of_all c toks _ hall
    exact happly o ho
  · have hall : ∀ cl ∈ closings030 {} 0 toks, (∃ o, listEnd030f c true toks cl.1 cl.2 = .ok o) ∨
        listEnd030f c true toks cl.1 cl.2 = .error .indexError := by
      intro cl hclm
      exact (listEnd030f_ok c toks cl (hcl cl hclm).1 (hcl cl hclm).2).2
    rcases outs030_ok_or_index c toks _ hall with ⟨o, ho⟩ | herr
    · exact .inl (happly o ho)
    · right
      rw [herr] at hrun
      unfold fix2 fixOut
      rw [show md030f.init c = ({} : St030f) from rfl, hrun]

end Verif.Model.TokenRules
