import Verif.Lemmas.TokenRules.Repl
/-!
  Generic theory of `applyFixes2` with replacement records — part 3: all records; the result is the obvious splice.
    `applyFixes2_repls`        success + the final working list is `spliceW` (exactly, when no new token is a pragma token)
    `applyFixes2_ok`           (1) success
    `applyFixes2_core`         (2) result = `splice` of the original stream, modulo `line` / `startIdx` / `pragmaLines`
    `applyFixes2_nil`          (3) nothing registered: the stream is returned unchanged when its `startIdx` point into it
    `applyFixes2_startIdx_lt`  (4) every `startIdx` of the result points into the result
-/
namespace Verif.Model.TokenRules

/-- the final working list, symbolically: objects before a range, the record's list, and so on -/
def spliceW (n : Nat) : Nat → List Repl → List WTok
  | k, [] => (List.range' k (n - k)).map .orig
  | k, r :: rs => (List.range' k (r.startIdx - k)).map .orig ++ tagNew 0 r.toks ++ spliceW n (r.endIdx + 1) rs

theorem applyRepls_inv (n : Nat) : ∀ (rs : List Repl) (k : Nat) (store : List Tok2) (pre : List WTok),
    store.length = n → InStore k pre → ReplsOk n k rs →
    ∃ w, applyRepls ⟨store, pre ++ (List.range' k (n - k)).map .orig⟩ rs = .ok w ∧ w.store.length = n ∧
      (∀ j : Nat, (w.store[j]?).map coreL = (store[j]?).map coreL) ∧
      w.list.map wcoreL = (pre ++ spliceW n k rs).map wcoreL ∧
      (NoNewPragma rs → (∀ o t, WTok.new o t ∈ pre → t.kind ≠ .pragma) → w.list = pre ++ spliceW n k rs) := by
  intro rs
  induction rs with
  | nil =>
    intro k store pre hlen _ _
    exact ⟨_, rfl, hlen, fun _ => rfl, rfl, fun _ _ => rfl⟩
  | cons r rs ih =>
    intro k store pre hlen hpre hok
    obtain ⟨h1, h2, h3, h4, h5, h6⟩ := hok
    obtain ⟨a, first, endTok, l0, ll, _, _, _, _, _, _, _, hδ⟩ := replDelta_inv n k store pre r hlen hpre h1 h2 h3 h4 h5
    obtain ⟨store', A0, x, x', hA, hap, hx, hxe, hlen', hcore', _⟩ :=
      applyRepl_step n k store pre r hlen hpre h1 h2 h3 h4 h5 _ _ _ _ hδ rfl rfl
    have hAin : InStore (r.endIdx + 1) (A0 ++ [x]) := by
      rw [← hA]
      intro i hm
      rcases List.mem_append.mp hm with hm | hm
      · rcases List.mem_append.mp hm with hm | hm
        · have := hpre _ hm; omega
        · simp only [List.mem_map, List.mem_range'_1, WTok.orig.injEq] at hm
          obtain ⟨a, ha, rfl⟩ := hm; omega
      · have := (h5 _ (mem_tagNew_orig _ _ _ hm)).2; omega
    have hpre' : InStore (r.endIdx + 1) (A0 ++ [x']) := by
      intro i hm
      rcases List.mem_append.mp hm with hm | hm
      · exact hAin i (List.mem_append_left _ hm)
      · simp only [List.mem_singleton] at hm
        exact hAin i (List.mem_append_right _ (by rw [hx.orig i hm.symm]; simp))
    obtain ⟨w, hw, hwlen, hwcore, hwlist, hwexact⟩ := ih (r.endIdx + 1) store' (A0 ++ [x']) hlen' hpre' h6
    refine ⟨w, ?_, hwlen, fun j => by rw [hwcore, hcore'], ?_, ?_⟩
    · simp only [applyRepls, hap, hw]
    · rw [hwlist]
      simp only [spliceW, ← List.append_assoc, hA]
      simp only [List.map_append, List.map_cons, List.map_nil, hx.wcoreL]
    · intro hnp hprenp
      have hrs : NoNewPragma rs := fun r' hr' => hnp r' (List.mem_cons_of_mem _ hr')
      have hxnp : ∀ o t, x = .new o t → t.kind ≠ .pragma := by
        intro o t hxe'
        have hm : WTok.new o t ∈ pre ++ (List.range' k (r.startIdx - k)).map WTok.orig ++ tagNew 0 r.toks := by
          rw [hA, hxe']; simp
        rcases List.mem_append.mp hm with hm | hm
        · rcases List.mem_append.mp hm with hm | hm
          · exact hprenp o t hm
          · simp at hm
        · exact hnp r List.mem_cons_self t (mem_tagNew_new _ _ _ _ hm)
      have hxx := hxe hxnp
      rw [hxx] at hwexact
      have := hwexact hrs (by
        intro o t hm
        have hm' : WTok.new o t ∈ pre ++ (List.range' k (r.startIdx - k)).map WTok.orig ++ tagNew 0 r.toks := by rw [hA]; exact hm
        rcases List.mem_append.mp hm' with hm' | hm'
        · rcases List.mem_append.mp hm' with hm' | hm'
          · exact hprenp o t hm'
          · simp at hm'
        · exact hnp r List.mem_cons_self t (mem_tagNew_new _ _ _ _ hm'))
      rw [this, ← hA]
      simp only [spliceW, List.append_assoc]

/-! ## the whole of `applyFixes2` without field requests -/
theorem applyFixes2_repls (toks : List Tok2) (repls : List Repl) (h : ReplsOk toks.length 0 repls) :
    ∃ w, applyFixes2 toks [] repls = .ok (reindex w 0 w.list) ∧ w.store.length = toks.length ∧
      (∀ j : Nat, (w.store[j]?).map coreL = (toks[j]?).map coreL) ∧
      w.list.map wcoreL = (spliceW toks.length 0 repls).map wcoreL ∧
      (NoNewPragma repls → w.list = spliceW toks.length 0 repls) := by
  obtain ⟨w, hw, h1, h2, h3, h4⟩ := applyRepls_inv toks.length repls 0 toks [] rfl (fun _ hm => by simp at hm) h
  refine ⟨w, ?_, h1, h2, by simpa using h3, fun hnp => by simpa using h4 hnp (fun _ _ hm => by simp at hm)⟩
  have hc := collide_ok toks.length repls 0 [] h (fun _ hm => by simp at hm)
  have hf : applyFields toks [] = .ok toks := rfl
  have hl : (List.range toks.length).map WTok.orig = [] ++ (List.range' 0 (toks.length - 0)).map WTok.orig := by
    rw [List.range_eq_range']; rfl
  unfold applyFixes2
  simp only [hf, List.map_nil, firstOcc, hc, hl, hw]

/-- (1) the fix application succeeds -/
theorem applyFixes2_ok (toks : List Tok2) (repls : List Repl) (h : ReplsOk toks.length 0 repls) :
    ∃ out, applyFixes2 toks [] repls = .ok out := by
  obtain ⟨w, hw, _⟩ := applyFixes2_repls toks repls h
  exact ⟨_, hw⟩

/-! ## the obvious splice of the original stream -/
def RTok.resolve (toks : List Tok2) : RTok → Option Tok2
  | .new t => some t
  | .ref j => toks[j]?

/-- tokens before a range unchanged, the range replaced by the record's tokens, and so on -/
def splice (toks : List Tok2) : Nat → List Repl → List Tok2
  | k, [] => toks.drop k
  | k, r :: rs => (toks.drop k).take (r.startIdx - k) ++ r.toks.filterMap (RTok.resolve toks) ++ splice toks (r.endIdx + 1) rs

theorem view_tagNew (st : List Tok2) : ∀ (ts : List RTok) (b : Nat), view st (tagNew b ts) = ts.filterMap (RTok.resolve st) := by
  intro ts
  induction ts with
  | nil => intro b; rfl
  | cons x ts ih =>
    intro b
    have := ih (b + 1)
    simp only [view] at this
    cases x <;> simp only [tagNew, view, List.filterMap_cons, tokOf, RTok.resolve, this]

theorem view_spliceW (toks : List Tok2) : ∀ (rs : List Repl) (k : Nat), ReplsOk toks.length k rs →
    view toks (spliceW toks.length k rs) = splice toks k rs := by
  intro rs
  induction rs with
  | nil =>
    intro k _
    simp only [spliceW, splice]
    by_cases hk : k ≤ toks.length
    · rw [view_origRange _ _ _ (by omega), List.take_of_length_le (by simp)]
    · have : toks.length - k = 0 := by omega
      rw [this, List.drop_eq_nil_of_le (by omega)]; rfl
  | cons r rs ih =>
    intro k h
    obtain ⟨h1, h2, h3, _, _, h6⟩ := h
    simp only [spliceW, splice, view_append, view_tagNew, ih _ h6]
    rw [view_origRange _ _ _ (by omega)]

/-- (2) the result is the splice of the original stream, modulo the three fields the machinery itself rewrites: in particular the
    kind, text, whitespace and every other string field of every token of the result is that of the spliced stream -/
theorem applyFixes2_core (toks : List Tok2) (repls : List Repl) (h : ReplsOk toks.length 0 repls) (out : List Tok2)
    (ho : applyFixes2 toks [] repls = .ok out) : out.map core = (splice toks 0 repls).map core := by
  obtain ⟨w, hw, _, h2, h3, _⟩ := applyFixes2_repls toks repls h
  rw [hw] at ho
  cases ho
  rw [reindex_core, ← view_spliceW toks repls 0 h]
  exact view_core toks w.store h2 _ _ h3

theorem applyFixes2_kinds (toks : List Tok2) (repls : List Repl) (h : ReplsOk toks.length 0 repls) (out : List Tok2)
    (ho : applyFixes2 toks [] repls = .ok out) : out.map (·.kind) = (splice toks 0 repls).map (·.kind) := by
  have := congrArg (List.map (·.kind)) (applyFixes2_core toks repls h out ho)
  simpa [List.map_map, Function.comp_def, core] using this

/-! ## (3) nothing registered -/
theorem applyFixes2_nil (toks : List Tok2) (hv : ∀ t ∈ toks, ∀ j, t.startIdx = some j → j < toks.length) :
    applyFixes2 toks [] [] = .ok toks := by
  have hf : applyFields toks [] = .ok toks := rfl
  unfold applyFixes2
  simp only [hf, collide, applyRepls]
  congr 1
  rw [List.range_eq_range']
  apply List.ext_getElem?
  intro q
  rw [reindex_getElem? _ _ _ _ (by
    intro i hm
    simp only [List.mem_map, List.mem_range'_1, WTok.orig.injEq] at hm
    obtain ⟨a, ha, rfl⟩ := hm
    show a < toks.length
    omega)]
  by_cases hq : q < toks.length
  · rw [List.getElem?_map, List.getElem?_range' hq]
    simp only [Option.map_some, Option.bind_some, reTok, List.getElem?_eq_getElem hq, Option.some.injEq, Nat.zero_add, Nat.one_mul]
    cases hs : toks[q].startIdx with
    | none => rfl
    | some j =>
      have hj := hv _ (List.getElem_mem hq) j hs
      simp only [findTag_origRange]
      have : 0 ≤ j ∧ j < 0 + toks.length := by omega
      simp only [this, and_self, ↓reduceIte, Nat.sub_zero]
      have e : toks[q] = { toks[q] with startIdx := toks[q].startIdx } := rfl
      rw [hs] at e
      exact e.symm
  · rw [List.getElem?_eq_none (by simp; omega), List.getElem?_eq_none (by omega)]
    rfl

/-- the hypothesis of `applyFixes2_nil` is needed: a `startIdx` beyond the stream (a representation artefact — Python's reference
    points at a token of the stream or at none) is reset -/
example : applyFixes2 [{ kind := .paraEnd, startIdx := some 5 }] [] [] = .ok [{ kind := .paraEnd, startIdx := none }] := rfl

/-! ## (4) the `startIdx` of the result point into the result -/
/-- a new end token's `startIdx` (a position in its own replacement list) stays inside the list -/
def TagOk (l : List WTok) : Prop :=
  ∀ (p o : Nat) (t : Tok2) (j : Nat), l[p]? = some (WTok.new o t) → t.startIdx = some j → o ≤ p ∧ p - o + j < l.length

/-- the new end tokens of every record name positions inside their own replacement list -/
def NewEndsOk (rs : List Repl) : Prop :=
  ∀ r ∈ rs, ∀ (q : Nat) (t : Tok2) (j : Nat), r.toks[q]? = some (RTok.new t) → t.startIdx = some j → j < r.toks.length

theorem TagOk.append {l1 l2 : List WTok} (h1 : TagOk l1) (h2 : TagOk l2) : TagOk (l1 ++ l2) := by
  intro p o t j hp hs
  by_cases hlt : p < l1.length
  · rw [List.getElem?_append_left hlt] at hp
    have := h1 p o t j hp hs
    simp only [List.length_append]; omega
  · rw [List.getElem?_append_right (by omega)] at hp
    have := h2 _ o t j hp hs
    simp only [List.length_append]; omega

theorem TagOk.origs (l : List Nat) : TagOk (l.map .orig) := by
  intro p o t j hp _
  rw [List.getElem?_map] at hp
  cases h : l[p]? <;> simp [h] at hp

theorem TagOk.tagNew (ts : List RTok) (h : ∀ (q : Nat) (t : Tok2) (j : Nat), ts[q]? = some (RTok.new t) → t.startIdx = some j → j < ts.length) :
    TagOk (tagNew 0 ts) := by
  intro p o t j hp hs
  rw [tagNew_getElem?] at hp
  cases hq : ts[p]? with
  | none => simp [hq] at hp
  | some x =>
    cases x with
    | ref i => simp [hq, tagOne] at hp
    | new u =>
      simp only [hq, Option.map_some, tagOne, Option.some.injEq, WTok.new.injEq] at hp
      obtain ⟨rfl, rfl⟩ := hp
      have := h p u j hq hs
      rw [tagNew_length]; omega

theorem TagOk.spliceW (n : Nat) : ∀ (rs : List Repl) (k : Nat), NewEndsOk rs → TagOk (spliceW n k rs) := by
  intro rs
  induction rs with
  | nil => intro k _; exact TagOk.origs _
  | cons r rs ih =>
    intro k h
    exact ((TagOk.origs _).append (TagOk.tagNew _ (h r List.mem_cons_self))).append
      (ih _ (fun r' hr' => h r' (List.mem_cons_of_mem _ hr')))

theorem TagOk.of_wcoreL {l l' : List WTok} (h : l'.map wcoreL = l.map wcoreL) (hl : TagOk l) : TagOk l' := by
  intro p o t j hp hs
  have hlen : l'.length = l.length := by simpa using congrArg List.length h
  have hp' := congrArg (·[p]?) h
  simp only [List.getElem?_map, hp, Option.map_some] at hp'
  cases hq : l[p]? with
  | none => simp [hq] at hp'
  | some x =>
    cases x with
    | orig i => simp [hq, wcoreL] at hp'
    | new o' t' =>
      simp only [hq, Option.map_some, wcoreL, Option.some.injEq, WTok.new.injEq] at hp'
      obtain ⟨rfl, hc⟩ := hp'
      have := hl p o t' j hq (by rw [← coreL_startIdx hc]; exact hs)
      omega

theorem mem_orig_wcoreL (i : Nat) (l : List WTok) : WTok.orig i ∈ l.map wcoreL ↔ WTok.orig i ∈ l := by
  simp only [List.mem_map]
  constructor
  · rintro ⟨x, hx, he⟩
    cases x with
    | orig k => simp only [wcoreL, WTok.orig.injEq] at he; subst he; exact hx
    | new o t => simp [wcoreL] at he
  · intro h; exact ⟨_, h, rfl⟩

theorem InStore_spliceW (n : Nat) : ∀ (rs : List Repl) (k : Nat), ReplsOk n k rs → InStore n (spliceW n k rs) := by
  intro rs
  induction rs with
  | nil =>
    intro k _ i hm
    simp only [spliceW, List.mem_map, List.mem_range'_1, WTok.orig.injEq] at hm
    obtain ⟨a, ha, rfl⟩ := hm; omega
  | cons r rs ih =>
    intro k h i hm
    obtain ⟨h1, h2, h3, _, h5, h6⟩ := h
    simp only [spliceW] at hm
    rcases List.mem_append.mp hm with hm | hm
    · rcases List.mem_append.mp hm with hm | hm
      · simp only [List.mem_map, List.mem_range'_1, WTok.orig.injEq] at hm
        obtain ⟨a, ha, rfl⟩ := hm; omega
      · have := (h5 _ (mem_tagNew_orig _ _ _ hm)).2; omega
    · exact ih _ h6 i hm

theorem applyFixes2_startIdx_lt (toks : List Tok2) (repls : List Repl) (h : ReplsOk toks.length 0 repls) (hn : NewEndsOk repls)
    (out : List Tok2) (ho : applyFixes2 toks [] repls = .ok out) : ∀ t ∈ out, ∀ j, t.startIdx = some j → j < out.length := by
  obtain ⟨w, hw, h1, _, h3, _⟩ := applyFixes2_repls toks repls h
  rw [hw] at ho
  cases ho
  have hin : InStore w.store.length w.list := by
    intro i hm
    rw [h1]
    apply InStore_spliceW _ _ _ h i
    rw [← mem_orig_wcoreL, ← h3, mem_orig_wcoreL]; exact hm
  have htag : TagOk w.list := TagOk.of_wcoreL h3 (TagOk.spliceW _ _ _ hn)
  intro t ht j hs
  obtain ⟨q, hq⟩ := List.getElem?_of_mem ht
  rw [reindex_getElem? _ _ _ _ hin] at hq
  rw [reindex_length _ _ _ hin]
  cases hx : w.list[q]? with
  | none => simp [hx] at hq
  | some x =>
    rw [hx] at hq
    cases x with
    | orig i =>
      simp only [Option.bind_some, reTok] at hq
      cases hsi : w.store[i]? with
      | none => simp [hsi] at hq
      | some u =>
        simp only [hsi, Option.map_some, Option.some.injEq] at hq
        cases hu : u.startIdx with
        | none =>
          simp only [hu] at hq
          rw [← hq, hu] at hs; cases hs
        | some j' =>
          simp only [hu] at hq
          rw [← hq] at hs
          exact findTag_lt _ _ _ hs
    | new o u =>
      simp only [Option.bind_some, reTok, Option.some.injEq] at hq
      cases hu : u.startIdx with
      | none =>
        simp only [hu] at hq
        rw [← hq, hu] at hs; cases hs
      | some j' =>
        simp only [hu] at hq
        rw [← hq] at hs
        simp only [Option.some.injEq, Nat.zero_add] at hs
        have := htag q o u j' hx hu
        omega


end Verif.Model.TokenRules
