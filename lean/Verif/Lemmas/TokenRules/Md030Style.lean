import Verif.Lemmas.TokenRules.Md030Sim
import Verif.Lemmas.TokenRules.Md030Lead
/-!
  MD030 over `Tok2`: what a successful fix changes, token by token (token-level C08).
-/
namespace Verif.Model.TokenRules

theorem indent_after030 (c : C030) (ordered : Bool) (e : Ent030) :
    e.indent - adj030 c ordered e = e.col + required030 c ordered e.paras + (if ordered then (e.contentLen : Int) else 0) := by
  simp only [adj030, delta030]
  generalize required030 c ordered e.paras = r
  generalize (if ordered = true then (e.contentLen : Int) else 0) = x
  omega

theorem normIdx_startIdx030 (n : Nat) (a : Tok2) :
    (normIdx030 n a).startIdx = a.startIdx.bind (fun j => if j < n then some j else none) := by
  unfold normIdx030
  cases h : a.startIdx <;> simp [h]

theorem fix2_md030f_style (c : C030) (toks toks' : List Tok2) (h : fix2 md030f c toks = .ok toks') :
    ∀ (i : Nat) t t', toks[i]? = some t → toks'[i]? = some t' →
      Same030 t t' ∧ t'.startIdx = (normIdx030 toks.length t).startIdx ∧
      (t'.indent ≠ t.indent → (t.kind = .ulist ∨ t.kind = .olist ∨ t.kind = .li) ∧
        ∃ ordered paras, t'.indent = t.col + required030 c ordered paras + (if ordered then (t.content.length : Int) else 0)) ∧
      (t'.leading ≠ t.leading → (t.kind = .ulist ∨ t.kind = .olist) ∧
        ∃ ld ld', t.leading = some ld ∧ ld ≠ [] ∧ t'.leading = some ld' ∧ LeadAdj030 ld ld') := by
  obtain ⟨hlen, o, houts, hget⟩ := fix2_md030f_get c toks toks' h
  obtain ⟨_, _, hdata⟩ := closings_facts030 toks toks {} 0 (Inv030.init toks) (by simp)
  obtain ⟨_, _, hreq, _⟩ := outs030_fix c toks _ o houts
  intro i t t' ht ht'
  obtain ⟨t1, hdup, hmod, hi⟩ := hget i t ht
  rw [ht'] at hi
  cases hi
  obtain ⟨m1, m2, m3, m4, m5, m6, m7⟩ := modAll2_style030 _ t t1 (group_style030 c toks _ o houts i) hmod
  have hni : (normIdx030 toks.length t1).indent = t1.indent := by unfold normIdx030; split <;> rfl
  have hnl : (normIdx030 toks.length t1).leading = t1.leading := by unfold normIdx030; split <;> rfl
  have hts : t1.startIdx = t.startIdx := by rw [m1]
  refine ⟨?_, ?_, ?_, ?_⟩
  · unfold Same030 normIdx030
    split <;> rw [m1]
  · rw [normIdx_startIdx030, normIdx_startIdx030, hts]
  · intro hne
    rw [hni] at hne ⊢
    have hex : ∃ v, (Field2.base .indentLevel, v) ∈ groupOf2 o.reqs i := by
      apply Classical.byContradiction
      intro hno
      exact hne (m2 (fun v hv => hno ⟨v, hv⟩))
    refine ⟨m4 hex, ?_⟩
    obtain ⟨v, hv⟩ := hex
    obtain ⟨q, hq, hqi, hqf⟩ := (mem_groupOf2030 o.reqs i _).mp hv
    simp only [Prod.mk.injEq] at hqf
    obtain ⟨cl, hcl, ocl, hocl, hqo⟩ := hreq q hq
    rcases listEnd030f_req c toks cl.1 cl.2 ocl hocl q hqo with ⟨w, hw, rfl⟩ | ⟨s, h1, _, _⟩
    · obtain ⟨w1, w2, _⟩ := (mem_viol030 c _ _ w).mp hw
      simp only [indentReq030] at hqi hqf
      obtain ⟨t0, ht0, hpe, _, _⟩ := hdata cl hcl (w.1, w.2.1) w1
      simp only at ht0 hpe
      rw [hqi, ht] at ht0
      cases ht0
      have := m6 hdup (w.2.1.indent - w.2.2) (by rw [hqf.2]; exact hv)
      rw [this, w2, indent_after030]
      refine ⟨cl.1.ordered, w.2.1.paras, ?_⟩
      rw [hpe]
      rfl
    · rw [h1] at hqf
      cases hqf.1
  · intro hne
    rw [hnl] at hne ⊢
    have hex : ∃ v, (Field2.base .leadingSpaces, v) ∈ groupOf2 o.reqs i := by
      apply Classical.byContradiction
      intro hno
      exact hne (m3 (fun v hv => hno ⟨v, hv⟩))
    refine ⟨m5 hex, ?_⟩
    obtain ⟨v, hv⟩ := hex
    obtain ⟨q, hq, hqi, hqf⟩ := (mem_groupOf2030 o.reqs i _).mp hv
    simp only [Prod.mk.injEq] at hqf
    obtain ⟨cl, hcl, ocl, hocl, hqo⟩ := hreq q hq
    obtain ⟨_, _, lead, hl, hlead⟩ := listEnd030f_fix c toks cl.1 cl.2 ocl hocl
    rw [hl] at hqo
    rcases List.mem_append.mp hqo with hqo | hqo
    · obtain ⟨w, _, rfl⟩ := List.mem_map.mp hqo
      simp only [indentReq030] at hqf
      cases hqf.1
    · rcases hlead with hlead | ⟨_, hlead⟩
      · rw [hlead] at hqo; cases hqo
      · obtain ⟨j, lt, _, hlt, _, hrq⟩ := regs030_shape toks cl.2 _ _ lead hlead
        rcases hrq with hrq | ⟨ld, ls, hld, hne', hgo, _, hrq⟩
        · rw [hrq] at hqo; cases hqo
        · rw [hrq] at hqo
          simp only [List.mem_singleton] at hqo
          subst hqo
          simp only at hqi hqf
          rw [hqi, ht] at hlt
          cases hlt
          have := m7 hdup (joinWith ['\n'] ls) (by rw [hqf.2]; exact hv)
          exact ⟨ld, _, hld, hne', this, regsGo030_leadAdj _ _ ld ls hgo⟩

end Verif.Model.TokenRules
