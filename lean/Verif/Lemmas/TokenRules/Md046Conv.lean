import Verif.Lemmas.TokenRules.Md046Fix
import Verif.Lemmas.TokenRules.Basic
/-!
  MD046 — the records of a fix-mode run satisfy the hypotheses of the generic replacement theory; the fixed stream as a relation
  (`Conv046`) with the original one.
-/
namespace Verif.Model.TokenRules

/-! ## the records are well-formed -/
theorem mem_blank046 {req : Sty046} {prev : Option Tok2} {t : Tok2} (h : t ∈ blank046 req prev) : t = newBlank := by
  unfold blank046 at h
  split at h
  · simpa using h
  · simp at h

theorem blank046_length_le (req : Sty046) (prev : Option Tok2) : (blank046 req prev).length ≤ 1 := by
  unfold blank046; split <;> simp

theorem newStart046_startIdx (req : Sty046) (x : Option Tok2) : (newStart046 req x).startIdx = none := by cases req <;> rfl
theorem newEnd046_startIdx (req : Sty046) (k : Nat) : (newEnd046 req k).startIdx = some k := by cases req <;> rfl
theorem newStart046_kind (req : Sty046) (x : Option Tok2) : (newStart046 req x).kind = (match req with | .fenced => .fence | .indented => .icode) := by
  cases req <;> rfl
theorem newEnd046_kind (req : Sty046) (k : Nat) : (newEnd046 req k).kind = (match req with | .fenced => .fenceEnd | .indented => .icodeEnd) := by
  cases req <;> rfl

theorem fix046_length (all : List Tok2) (req : Sty046) (i : Nat) (inn bef : Option Nat) :
    (fix046 all ⟨some req, some i, inn, bef⟩).length =
      (blank046 req (bef.bind (fun j => all[j]?))).length + 1 + inn.toList.length + 1 := by
  rw [fix046_eq]; simp only [List.length_append, List.length_map, List.length_cons, List.length_nil]

theorem fix046_ne_nil (all : List Tok2) (req : Sty046) (i : Nat) (inn bef : Option Nat) :
    fix046 all ⟨some req, some i, inn, bef⟩ ≠ [] := by
  intro e
  have := fix046_length all req i inn bef
  rw [e] at this; simp at this

theorem fix046_mem (all : List Tok2) (req : Sty046) (i : Nat) (inn bef : Option Nat) (x : RTok)
    (h : x ∈ fix046 all ⟨some req, some i, inn, bef⟩) :
    x = .new newBlank ∨ x = .new (newStart046 req (inn.bind (fun j => all[j]?))) ∨ (∃ j, inn = some j ∧ x = .ref j) ∨
      x = .new (newEnd046 req (blank046 req (bef.bind (fun j => all[j]?))).length) := by
  rw [fix046_eq] at h
  simp only [List.mem_append, List.mem_map, List.mem_singleton] at h
  rcases h with ((⟨t, ht, rfl⟩ | h) | ⟨j, hj, rfl⟩) | h
  · exact .inl (by rw [mem_blank046 ht])
  · exact .inr (.inl h)
  · exact .inr (.inr (.inl ⟨j, by simpa using hj, rfl⟩))
  · exact .inr (.inr (.inr h))

theorem fix046_refOk (all : List Tok2) (req : Sty046) (i : Nat) (inn bef : Option Nat) (s e : Nat)
    (hin : ∀ j, inn = some j → s ≤ j ∧ j ≤ e) : ∀ x ∈ fix046 all ⟨some req, some i, inn, bef⟩, x.refOk s e := by
  intro x hx
  rcases fix046_mem all req i inn bef x hx with rfl | rfl | ⟨j, hj, rfl⟩ | rfl
  · trivial
  · trivial
  · exact hin j hj
  · trivial

theorem fix046_new (all : List Tok2) (req : Sty046) (i : Nat) (inn bef : Option Nat) (t : Tok2)
    (h : RTok.new t ∈ fix046 all ⟨some req, some i, inn, bef⟩) :
    t.kind ≠ .pragma ∧ ∀ j, t.startIdx = some j → j < (fix046 all ⟨some req, some i, inn, bef⟩).length := by
  rcases fix046_mem all req i inn bef _ h with e | e | ⟨j, _, e⟩ | e
  · cases e; exact ⟨by decide, fun j hj => by cases hj⟩
  · cases e
    refine ⟨by rw [newStart046_kind]; cases req <;> decide, fun j hj => ?_⟩
    rw [newStart046_startIdx] at hj; cases hj
  · cases e
  · cases e
    refine ⟨by rw [newEnd046_kind]; cases req <;> decide, fun j hj => ?_⟩
    rw [newEnd046_startIdx] at hj
    cases hj
    rw [fix046_length]; omega

theorem Run046.replsOk {all : List Tok2} {a : Option Sty046} {i : Nat} {ts : List Tok2} {rs : List Repl}
    (h : Run046 all a i ts rs) : ReplsOk (i + ts.length) i rs := by
  induction h with
  | nil => trivial
  | keep a i t ts rs _ _ ih =>
    have e : i + (t :: ts).length = i + 1 + ts.length := by simp only [List.length_cons]; omega
    rw [e]; exact ReplsOk.mono _ _ _ _ (by omega) ih
  | block0 req i t e ts rs _ _ _ _ _ ih =>
    have e' : i + (t :: e :: ts).length = i + 2 + ts.length := by simp only [List.length_cons]; omega
    rw [e']
    exact ⟨Nat.le_refl _, by simp, by simp; omega, fix046_ne_nil _ _ _ _ _,
      fix046_refOk _ _ _ _ _ _ _ (fun j hj => by cases hj), ih⟩
  | block1 req i t x e ts rs _ _ _ _ _ _ ih =>
    have e' : i + (t :: x :: e :: ts).length = i + 3 + ts.length := by simp only [List.length_cons]; omega
    rw [e']
    exact ⟨Nat.le_refl _, by simp, by simp; omega, fix046_ne_nil _ _ _ _ _,
      fix046_refOk _ _ _ _ _ _ _ (fun j hj => by cases hj; constructor <;> simp), ih⟩
  | open0 => trivial
  | open1 => trivial

theorem Run046.noNewPragma {all : List Tok2} {a : Option Sty046} {i : Nat} {ts : List Tok2} {rs : List Repl}
    (h : Run046 all a i ts rs) : NoNewPragma rs := by
  induction h with
  | nil => intro r hr; simp at hr
  | keep _ _ _ _ _ _ _ ih => exact ih
  | block0 req i t e ts rs _ _ _ _ _ ih =>
    intro r hr u hu
    rcases List.mem_cons.mp hr with rfl | hr
    · exact (fix046_new _ _ _ _ _ u hu).1
    · exact ih r hr u hu
  | block1 req i t x e ts rs _ _ _ _ _ _ ih =>
    intro r hr u hu
    rcases List.mem_cons.mp hr with rfl | hr
    · exact (fix046_new _ _ _ _ _ u hu).1
    · exact ih r hr u hu
  | open0 => intro r hr; simp at hr
  | open1 => intro r hr; simp at hr

theorem Run046.newEndsOk {all : List Tok2} {a : Option Sty046} {i : Nat} {ts : List Tok2} {rs : List Repl}
    (h : Run046 all a i ts rs) : NewEndsOk rs := by
  induction h with
  | nil => intro r hr; simp at hr
  | keep _ _ _ _ _ _ _ ih => exact ih
  | block0 req i t e ts rs _ _ _ _ _ ih =>
    intro r hr q u j hq hj
    rcases List.mem_cons.mp hr with rfl | hr
    · exact (fix046_new _ _ _ _ _ u (List.mem_of_getElem? hq)).2 j hj
    · exact ih r hr q u j hq hj
  | block1 req i t x e ts rs _ _ _ _ _ _ ih =>
    intro r hr q u j hq hj
    rcases List.mem_cons.mp hr with rfl | hr
    · exact (fix046_new _ _ _ _ _ u (List.mem_of_getElem? hq)).2 j hj
    · exact ih r hr q u j hq hj
  | open0 => intro r hr; simp at hr
  | open1 => intro r hr; simp at hr

/-! ## the fixed stream as a relation with the original stream -/
/-- `Conv046 a prev p ts ts'`: `ts'` (starting at position `p` of the fixed stream) is the conversion of `ts`, with `a` the style in
    force and `prev` the token of the original stream in front of `ts`.
    * `keep`     a token that is no wrong-style code block start stays, up to `line` / `startIdx` / `pragmaLines` (`core`);
    * `block`    `start :: text? ++ [end]` with a wrong-style start becomes `[blank]? ++ newStart :: text? ++ [newEnd]`: the text token is
                 the same object (unchanged up to `core`), the new tokens are exactly `newStart046` / `newEnd046` / `newBlank`, the new end
                 token names the position of the new start token;
    * `openTail` a wrong-style start with at most one text token and NO end token at the very end of the stream stays. -/
inductive Conv046 : Option Sty046 → Option Tok2 → Nat → List Tok2 → List Tok2 → Prop
  | nil (a : Option Sty046) (prev : Option Tok2) (p : Nat) : Conv046 a prev p [] []
  | keep (a : Option Sty046) (prev : Option Tok2) (p : Nat) (t t' : Tok2) (ts ts' : List Tok2) :
      mism046 a t = false → core t' = core t → Conv046 (step046 a t) (some t) (p + 1) ts ts' →
      Conv046 a prev p (t :: ts) (t' :: ts')
  | block (req : Sty046) (prev : Option Tok2) (p : Nat) (t e : Tok2) (inner inner' ts ts' : List Tok2) :
      mism046 (some req) t = true → inner.length ≤ 1 → (∀ x ∈ inner, x.kind = .text) →
      All₂ (fun x x' => core x' = core x) inner inner' →
      e.kind.isEnd = true → e.kind ≠ .eos →
      Conv046 (some req) (some e) (p + (blank046 req prev).length + 1 + inner.length + 1) ts ts' →
      Conv046 (some req) prev p (t :: (inner ++ e :: ts))
        (blank046 req prev ++ (newStart046 req inner.head? :: (inner' ++ newEnd046 req (p + (blank046 req prev).length) :: ts')))
  | openTail (req : Sty046) (prev : Option Tok2) (p : Nat) (t t' : Tok2) (inner inner' : List Tok2) :
      mism046 (some req) t = true → inner.length ≤ 1 → (∀ x ∈ inner, x.kind = .text) → core t' = core t →
      All₂ (fun x x' => core x' = core x) inner inner' →
      Conv046 (some req) prev p (t :: inner) (t' :: inner')

theorem spliceW_step (n i : Nat) (rs : List Repl) (hi : i < n) (h : ReplsOk n (i + 1) rs) :
    spliceW n i rs = .orig i :: spliceW n (i + 1) rs := by
  cases rs with
  | nil =>
    simp only [spliceW]
    have : n - i = (n - (i + 1)) + 1 := by omega
    rw [this, List.range'_succ]; rfl
  | cons r rs =>
    obtain ⟨h1, _⟩ := h
    simp only [spliceW]
    have : r.startIdx - i = (r.startIdx - (i + 1)) + 1 := by omega
    rw [this, List.range'_succ]; rfl

/-- the object `j` in the final list: the original token up to `core` -/
theorem reindex_orig (w : Work) (all : List Tok2) (hcore : ∀ j : Nat, (w.store[j]?).map coreL = (all[j]?).map coreL)
    (j : Nat) (t : Tok2) (ht : all[j]? = some t) (p : Nat) (l : List WTok) :
    ∃ t', reindex w p (.orig j :: l) = t' :: reindex w (p + 1) l ∧ core t' = core t := by
  have h := hcore j
  rw [ht] at h
  cases hs : w.store[j]? with
  | none => rw [hs] at h; simp at h
  | some u =>
    rw [hs] at h
    simp only [Option.map_some, Option.some.injEq] at h
    have hc := reTok_core w p (.orig j)
    simp only [tokOf, hs, Option.map_some] at hc
    cases hr : reTok w p (.orig j) with
    | none => rw [hr] at hc; simp at hc
    | some t' =>
      rw [hr] at hc
      simp only [Option.map_some, Option.some.injEq] at hc
      refine ⟨t', ?_, by rw [hc]; exact core_of_coreL h⟩
      rw [reindex_cons, hr]; rfl

theorem reTok_new_none (w : Work) (p o : Nat) (t : Tok2) (h : t.startIdx = none) : reTok w p (.new o t) = some t := by
  simp only [reTok, h]

theorem reTok_newEnd (w : Work) (p o : Nat) (req : Sty046) (k : Nat) :
    reTok w p (.new o (newEnd046 req k)) = some (newEnd046 req (p - o + k)) := by
  cases req <;> rfl

theorem tagNew_append : ∀ (l1 l2 : List RTok) (b : Nat), tagNew b (l1 ++ l2) = tagNew b l1 ++ tagNew (b + l1.length) l2 := by
  intro l1
  induction l1 with
  | nil => intro l2 b; rfl
  | cons x l1 ih =>
    intro l2 b
    cases x <;> simp only [List.cons_append, tagNew, ih, List.length_cons] <;> congr 3 <;> omega

/-- the replacement list in the final stream, when there is no inner token -/
theorem reindex_fix046_0 (w : Work) (all : List Tok2) (req : Sty046) (i : Nat) (bef : Option Nat) (p : Nat) (l : List WTok) :
    reindex w p (tagNew 0 (fix046 all ⟨some req, some i, none, bef⟩) ++ l) =
      blank046 req (bef.bind (fun j => all[j]?)) ++ newStart046 req none ::
        newEnd046 req (p + (blank046 req (bef.bind (fun j => all[j]?))).length) ::
        reindex w (p + (blank046 req (bef.bind (fun j => all[j]?))).length + 1 + 0 + 1) l := by
  rw [fix046_eq]
  unfold blank046
  split
  · simp only [List.map_cons, List.map_nil, Option.toList_none, List.append_nil, List.cons_append, List.nil_append, tagNew,
      reindex_cons, reTok_new_none _ _ _ _ (rfl : newBlank.startIdx = none), reTok_new_none _ _ _ _ (newStart046_startIdx req _),
      reTok_newEnd, Option.toList_some, List.length_cons, List.length_nil, Option.bind_none]
    rw [show p + 1 + 1 - (0 + 1 + 1) + (0 + 1) = p + (0 + 1) by omega, show p + 1 + 1 + 1 = p + (0 + 1) + 1 + 0 + 1 by omega]
  · simp only [List.map_nil, Option.toList_none, List.append_nil, List.cons_append, List.nil_append, tagNew,
      reindex_cons, reTok_new_none _ _ _ _ (newStart046_startIdx req _),
      reTok_newEnd, Option.toList_some, List.length_nil, Option.bind_none]
    rw [show p + 1 - (0 + 1) + 0 = p + 0 by omega, show p + 1 + 1 = p + 0 + 1 + 0 + 1 by omega]


theorem reTok_orig (w : Work) (all : List Tok2) (hcore : ∀ j : Nat, (w.store[j]?).map coreL = (all[j]?).map coreL)
    (j : Nat) (t : Tok2) (ht : all[j]? = some t) : ∃ t', (∀ P, reTok w P (.orig j) = some t') ∧ core t' = core t := by
  have h := hcore j
  rw [ht] at h
  cases hs : w.store[j]? with
  | none => rw [hs] at h; simp at h
  | some u =>
    rw [hs] at h
    simp only [Option.map_some, Option.some.injEq] at h
    have hc := reTok_core w 0 (.orig j)
    simp only [tokOf, hs, Option.map_some] at hc
    cases hr : reTok w 0 (.orig j) with
    | none => rw [hr] at hc; simp at hc
    | some t' =>
      rw [hr] at hc
      simp only [Option.map_some, Option.some.injEq] at hc
      exact ⟨t', fun P => hr, by rw [hc]; exact core_of_coreL h⟩

/-- the replacement list in the final stream, with the inner text token (object `j`) -/
theorem reindex_fix046_1 (w : Work) (all : List Tok2) (hcore : ∀ j : Nat, (w.store[j]?).map coreL = (all[j]?).map coreL)
    (req : Sty046) (i j : Nat) (x : Tok2) (hx : all[j]? = some x) (bef : Option Nat) (p : Nat) (l : List WTok) :
    ∃ x', core x' = core x ∧
    reindex w p (tagNew 0 (fix046 all ⟨some req, some i, some j, bef⟩) ++ l) =
      blank046 req (bef.bind (fun j => all[j]?)) ++ newStart046 req (some x) :: x' ::
        newEnd046 req (p + (blank046 req (bef.bind (fun j => all[j]?))).length) ::
        reindex w (p + (blank046 req (bef.bind (fun j => all[j]?))).length + 1 + 1 + 1) l := by
  obtain ⟨x', hx', hc⟩ := reTok_orig w all hcore j x hx
  refine ⟨x', hc, ?_⟩
  rw [fix046_eq]
  unfold blank046
  split
  · simp only [List.map_cons, List.map_nil, Option.toList_some, List.cons_append, List.nil_append, tagNew,
      reindex_cons, reTok_new_none _ _ _ _ (rfl : newBlank.startIdx = none), reTok_new_none _ _ _ _ (newStart046_startIdx req _),
      reTok_newEnd, List.length_cons, List.length_nil, Option.bind_some, hx, hx']
    rw [show p + 1 + 1 + 1 - (0 + 1 + 1 + 1) + (0 + 1) = p + (0 + 1) by omega,
      show p + 1 + 1 + 1 + 1 = p + (0 + 1) + 1 + 1 + 1 by omega]
  · simp only [List.map_cons, List.map_nil, Option.toList_some, List.cons_append, List.nil_append, tagNew,
      reindex_cons, reTok_new_none _ _ _ _ (newStart046_startIdx req _),
      reTok_newEnd, List.length_nil, Option.bind_some, hx, hx']
    rw [show p + 1 + 1 - (0 + 1 + 1) + 0 = p + 0 by omega, show p + 1 + 1 + 1 = p + 0 + 1 + 1 + 1 by omega]


theorem getElem?_pfx046 {all pfx ts : List Tok2} {i : Nat} (hall : all = pfx ++ ts) (hi : pfx.length = i) (m : Nat) :
    all[i + m]? = ts[m]? := by
  rw [hall, List.getElem?_append_right (by omega)]; congr 1; omega

theorem pred046_succ (all : List Tok2) (i : Nat) : (pred046 (i + 1)).bind (fun j => all[j]?) = all[i]? := by
  simp [pred046]

/-- the stream after the fix, for ANY final store that keeps `coreL` of the objects -/
theorem Run046.conv {all : List Tok2} {a : Option Sty046} {i : Nat} {ts : List Tok2} {rs : List Repl} (h : Run046 all a i ts rs) :
    ∀ (pfx : List Tok2), all = pfx ++ ts → pfx.length = i →
    ∀ (w : Work), (∀ j : Nat, (w.store[j]?).map coreL = (all[j]?).map coreL) → ∀ p,
    Conv046 a ((pred046 i).bind (fun j => all[j]?)) p ts (reindex w p (spliceW all.length i rs)) := by
  induction h with
  | nil a i =>
    intro pfx hall hi w hc p
    have : all.length - i = 0 := by rw [hall]; simp [hi]
    simp only [spliceW, this, List.range'_zero, List.map_nil, reindex]
    exact .nil _ _ _
  | keep a i t ts rs hm hrun ih =>
    intro pfx hall hi w hc p
    have hlen : all.length = i + 1 + ts.length := by rw [hall]; simp [hi]; omega
    have hti : all[i]? = some t := by have := getElem?_pfx046 hall hi 0; simpa using this
    have hok := hrun.replsOk
    rw [← hlen] at hok
    rw [spliceW_step _ _ _ (by omega) hok]
    obtain ⟨t', hre, hct⟩ := reindex_orig w all hc i t hti p (spliceW all.length (i + 1) rs)
    rw [hre]
    have := ih (pfx ++ [t]) (by rw [hall]; simp) (by simp [hi]) w hc (p + 1)
    rw [pred046_succ, hti] at this
    exact .keep a _ p t t' ts _ hm hct this
  | block0 req i t e ts rs hm he1 he2 he3 hrun ih =>
    intro pfx hall hi w hc p
    have hei : all[i + 1]? = some e := by have := getElem?_pfx046 hall hi 1; simpa using this
    simp only [spliceW, Nat.sub_self, List.range'_zero, List.map_nil, List.nil_append]
    rw [reindex_fix046_0]
    have := ih (pfx ++ [t, e]) (by rw [hall]; simp) (by simp [hi]) w hc
      (p + (blank046 req ((pred046 i).bind (fun j => all[j]?))).length + 1 + 0 + 1)
    rw [show i + 2 = (i + 1) + 1 from rfl, pred046_succ, hei] at this
    exact Conv046.block req _ p t e [] [] ts _ hm (by simp) (by simp) .nil he1 he2 this
  | block1 req i t x e ts rs hm hx he1 he2 he3 hrun ih =>
    intro pfx hall hi w hc p
    have hxi : all[i + 1]? = some x := by have := getElem?_pfx046 hall hi 1; simpa using this
    have hei : all[i + 2]? = some e := by have := getElem?_pfx046 hall hi 2; simpa using this
    simp only [spliceW, Nat.sub_self, List.range'_zero, List.map_nil, List.nil_append]
    obtain ⟨x', hcx, hre⟩ := reindex_fix046_1 w all hc req i (i + 1) x hxi (pred046 i) p (spliceW all.length (i + 2 + 1) rs)
    rw [hre]
    have := ih (pfx ++ [t, x, e]) (by rw [hall]; simp) (by simp [hi]) w hc
      (p + (blank046 req ((pred046 i).bind (fun j => all[j]?))).length + 1 + 1 + 1)
    rw [show i + 3 = (i + 2) + 1 from rfl, pred046_succ, hei] at this
    exact Conv046.block req _ p t e [x] [x'] ts _ hm (by simp) (by simpa using hx) (.cons hcx .nil) he1 he2 this
  | open0 req i t hm =>
    intro pfx hall hi w hc p
    have hlen : all.length - i = 1 := by rw [hall]; simp [hi]
    have hti : all[i]? = some t := by have := getElem?_pfx046 hall hi 0; simpa using this
    simp only [spliceW, hlen, List.range'_succ, List.range'_zero, List.map_cons, List.map_nil]
    obtain ⟨t', hre, hct⟩ := reindex_orig w all hc i t hti p []
    rw [hre]
    exact .openTail req _ p t t' [] [] hm (by simp) (by simp) hct .nil
  | open1 req i t x hm hx =>
    intro pfx hall hi w hc p
    have hlen : all.length - i = 2 := by rw [hall]; simp [hi]
    have hti : all[i]? = some t := by have := getElem?_pfx046 hall hi 0; simpa using this
    have hxi : all[i + 1]? = some x := by have := getElem?_pfx046 hall hi 1; simpa using this
    simp only [spliceW, hlen, List.range'_succ, List.range'_zero, List.map_cons, List.map_nil]
    obtain ⟨t', hre, hct⟩ := reindex_orig w all hc i t hti p [.orig (i + 1)]
    obtain ⟨x', hre2, hcx⟩ := reindex_orig w all hc (i + 1) x hxi (p + 1) []
    rw [hre, hre2]
    exact .openTail req _ p t t' [x] [x'] hm (by simp) (by simpa using hx) hct (.cons hcx .nil)


end Verif.Model.TokenRules
