import Verif.Model.TokenRules.Md030
import Verif.Lemmas.TokenRules.Md030Apply
/-!
  MD030's two kinds of field request (`indent_level := int`, `leading_spaces := str`) and what `_modify_token` / `__apply_token_fix`
  do with a group of them.
-/
namespace Verif.Model.TokenRules

/-- the two shapes of request MD030 registers -/
def IsStyle030 (p : Field2 × Val) : Prop :=
  (∃ n, p = (.base .indentLevel, .int n)) ∨ (∃ s, p = (.base .leadingSpaces, .str s))

theorem modify2_indent030 (t t' : Tok2) (n : Int) (h : modify2 t (.base .indentLevel) (.int n) = some t') :
    t' = { t with indent := n } ∧ (t.kind = .ulist ∨ t.kind = .olist ∨ t.kind = .li) := by
  unfold modify2 at h
  simp only [Option.map_eq_some_iff] at h
  obtain ⟨b, hb, rfl⟩ := h
  unfold modify at hb
  cases hk : t.kind <;> rw [hk] at hb <;> simp [listMod, leafMod, baseMod] at hb <;> subst hb <;> simp <;> assumption

theorem modify2_leading030 (t t' : Tok2) (s : Str) (h : modify2 t (.base .leadingSpaces) (.str s) = some t') :
    t' = { t with leading := some s } ∧ (t.kind = .ulist ∨ t.kind = .olist) := by
  unfold modify2 at h
  simp only [Option.map_eq_some_iff] at h
  obtain ⟨b, hb, rfl⟩ := h
  unfold modify at hb
  cases hk : t.kind <;> rw [hk] at hb <;> simp [listMod, leafMod, baseMod] at hb <;> subst hb <;> simp <;> assumption

theorem modify2_indent_ok030 (t : Tok2) (n : Int) (h : t.kind = .ulist ∨ t.kind = .olist ∨ t.kind = .li) :
    modify2 t (.base .indentLevel) (.int n) = some { t with indent := n } := by
  unfold modify2 modify
  dsimp only
  split <;> first | rfl | (exfalso; simp_all)

theorem modify2_leading_ok030 (t : Tok2) (s : Str) (h : t.kind = .ulist ∨ t.kind = .olist) :
    modify2 t (.base .leadingSpaces) (.str s) = some { t with leading := some s } := by
  unfold modify2 modify
  dsimp only
  split <;> first | rfl | (exfalso; simp_all)

theorem contains_of_mem_self030 (x : Field2) (hx : (x == x) = true) : ∀ (fs : List Field2), x ∈ fs → fs.contains x = true := by
  intro fs
  induction fs with
  | nil => intro h; cases h
  | cons a as ih =>
    intro h
    rw [List.contains_cons]
    rcases List.mem_cons.mp h with h | h
    · subst h; simp [hx]
    · simp [ih h]

/-- a group of MD030 requests applied to one token -/
theorem modAll2_style030 : ∀ (g : List (Field2 × Val)) (t t' : Tok2), (∀ p ∈ g, IsStyle030 p) → modAll2 t g = .ok t' →
    t' = { t with indent := t'.indent, leading := t'.leading } ∧
    ((∀ v, (Field2.base .indentLevel, v) ∉ g) → t'.indent = t.indent) ∧
    ((∀ v, (Field2.base .leadingSpaces, v) ∉ g) → t'.leading = t.leading) ∧
    ((∃ v, (Field2.base .indentLevel, v) ∈ g) → (t.kind = .ulist ∨ t.kind = .olist ∨ t.kind = .li)) ∧
    ((∃ v, (Field2.base .leadingSpaces, v) ∈ g) → (t.kind = .ulist ∨ t.kind = .olist)) ∧
    (hasDup2 (g.map (·.1)) = false → ∀ n, (Field2.base .indentLevel, Val.int n) ∈ g → t'.indent = n) ∧
    (hasDup2 (g.map (·.1)) = false → ∀ s, (Field2.base .leadingSpaces, Val.str s) ∈ g → t'.leading = some s) := by
  intro g
  induction g with
  | nil =>
    intro t t' _ h
    simp only [modAll2, Except.ok.injEq] at h
    subst h
    refine ⟨rfl, fun _ => rfl, fun _ => rfl, ?_, ?_, ?_, ?_⟩
    · rintro ⟨v, hv⟩; cases hv
    · rintro ⟨v, hv⟩; cases hv
    · intro _ n hn; cases hn
    · intro _ s hs; cases hs
  | cons p g ih =>
    intro t t' hsty h
    obtain ⟨f, v⟩ := p
    unfold modAll2 at h
    split at h
    · rename_i t1 hm
      obtain ⟨i1, i2, i3, i4, i5, i6, i7⟩ := ih t1 t' (fun q hq => hsty q (List.mem_cons_of_mem _ hq)) h
      rcases hsty (f, v) List.mem_cons_self with ⟨n, hn⟩ | ⟨s, hs⟩
      · -- an indent request
        simp only [Prod.mk.injEq] at hn
        obtain ⟨rfl, rfl⟩ := hn
        obtain ⟨ht1, hk⟩ := modify2_indent030 t t1 n hm
        have hk1 : t1.kind = t.kind := by rw [ht1]
        have hl1 : t1.leading = t.leading := by rw [ht1]
        refine ⟨?_, ?_, ?_, fun _ => hk, ?_, ?_, ?_⟩
        · rw [i1, ht1]
        · intro hno; exact absurd List.mem_cons_self (hno (.int n))
        · intro hno
          rw [i3 (fun v hv => hno v (List.mem_cons_of_mem _ hv)), hl1]
        · rintro ⟨v, hv⟩
          rcases List.mem_cons.mp hv with hv | hv
          · cases hv
          · rw [← hk1]; exact i5 ⟨v, hv⟩
        · intro hd m hm'
          simp only [List.map_cons, hasDup2, Bool.or_eq_false_iff] at hd
          have hnot : ∀ v, (Field2.base .indentLevel, v) ∉ g := by
            intro v hv
            have := contains_of_mem_self030 (.base .indentLevel) (by decide) (g.map (·.1)) (List.mem_map.mpr ⟨_, hv, rfl⟩)
            rw [this] at hd
            cases hd.1
          rcases List.mem_cons.mp hm' with hm' | hm'
          · simp only [Prod.mk.injEq, Val.int.injEq, true_and] at hm'
            subst hm'
            rw [i2 hnot, ht1]
          · exact absurd hm' (hnot _)
        · intro hd s hs
          simp only [List.map_cons, hasDup2, Bool.or_eq_false_iff] at hd
          rcases List.mem_cons.mp hs with hs | hs
          · cases hs
          · exact i7 hd.2 s hs
      · -- a leading-spaces request
        simp only [Prod.mk.injEq] at hs
        obtain ⟨rfl, rfl⟩ := hs
        obtain ⟨ht1, hk⟩ := modify2_leading030 t t1 s hm
        have hk1 : t1.kind = t.kind := by rw [ht1]
        have hl1 : t1.indent = t.indent := by rw [ht1]
        refine ⟨?_, ?_, ?_, ?_, fun _ => hk, ?_, ?_⟩
        · rw [i1, ht1]
        · intro hno
          rw [i2 (fun v hv => hno v (List.mem_cons_of_mem _ hv)), hl1]
        · intro hno; exact absurd List.mem_cons_self (hno (.str s))
        · rintro ⟨v, hv⟩
          rcases List.mem_cons.mp hv with hv | hv
          · cases hv
          · rw [← hk1]; exact i4 ⟨v, hv⟩
        · intro hd m hm'
          simp only [List.map_cons, hasDup2, Bool.or_eq_false_iff] at hd
          rcases List.mem_cons.mp hm' with hm' | hm'
          · cases hm'
          · exact i6 hd.2 m hm'
        · intro hd s' hs'
          simp only [List.map_cons, hasDup2, Bool.or_eq_false_iff] at hd
          have hnot : ∀ v, (Field2.base .leadingSpaces, v) ∉ g := by
            intro v hv
            have := contains_of_mem_self030 (.base .leadingSpaces) (by decide) (g.map (·.1)) (List.mem_map.mpr ⟨_, hv, rfl⟩)
            rw [this] at hd
            cases hd.1
          rcases List.mem_cons.mp hs' with hs' | hs'
          · simp only [Prod.mk.injEq, Val.str.injEq, true_and] at hs'
            subst hs'
            rw [i3 hnot, ht1]
          · exact absurd hs' (hnot _)
    · cases h

theorem applyGroup2_ok_iff030 (t t' : Tok2) (g : List (Field2 × Val)) :
    applyGroup2 t g = .ok t' ↔ hasDup2 (g.map (·.1)) = false ∧ modAll2 t g = .ok t' := by
  unfold applyGroup2
  cases hd : hasDup2 (g.map (·.1)) <;> simp

theorem mem_groupOf2030 (reqs : List FixReq2) (i : Nat) (p : Field2 × Val) :
    p ∈ groupOf2 reqs i ↔ ∃ q ∈ reqs, q.idx = i ∧ (q.field, q.val) = p := by
  unfold groupOf2
  simp only [List.mem_map, List.mem_filter, beq_iff_eq]
  constructor
  · rintro ⟨q, ⟨h1, h2⟩, h3⟩; exact ⟨q, h1, h2, h3⟩
  · rintro ⟨q, h1, h2, h3⟩; exact ⟨q, ⟨h1, h2⟩, h3⟩

end Verif.Model.TokenRules
