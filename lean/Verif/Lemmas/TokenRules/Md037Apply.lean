import Verif.Model.TokenRules.Md037
import Verif.Lemmas.TokenRules.Basic
/-!
  MD037 — applying `token_text` requests (`applyFixes2` without replacement records).
  * `applyFixes2_noRepl037`: without replacement records the result is `applyFields` followed by the re-indexing of the
    `start_markdown_token` references (a reference to a token outside the stream becomes `none`);
  * `applyFields_textOnly037`: requests for `token_text` change only the `text` of text tokens (and fail on any other token);
  * `applyFields_ok037`: they succeed when no token is named twice and every named token is a text token of the stream;
  * `applyFields_dup037`: a token named twice ends in `BadPluginFixError`.
-/
namespace Verif.Model.TokenRules

/-- what the final re-indexing does to a token of an unchanged-length stream -/
def normIdx037 (n : Nat) (t : Tok2) : Tok2 :=
  match t.startIdx with
  | some j => if j < n then t else { t with startIdx := none }
  | none => t

theorem findTag_range037 (j : Nat) : ∀ (m a : Nat),
    findTag j ((List.range' a m).map WTok.orig) = if a ≤ j ∧ j < a + m then some (j - a) else none := by
  intro m
  induction m with
  | zero => intro a; simp [findTag]
  | succ m ih =>
    intro a
    rw [List.range'_succ, List.map_cons, findTag]
    by_cases h : WTok.orig a = WTok.orig j
    · have : a = j := by injection h
      subst this; simp
    · have hne : a ≠ j := fun e => h (by rw [e])
      rw [if_neg h, ih (a + 1)]
      by_cases h2 : a + 1 ≤ j ∧ j < a + 1 + m
      · rw [if_pos h2, if_pos (by omega)]; simp only [Option.map_some, Option.some.injEq]; omega
      · rw [if_neg h2, if_neg (by omega)]; rfl

theorem findTag_range037' (j n : Nat) : findTag j ((List.range n).map WTok.orig) = if j < n then some j else none := by
  rw [List.range_eq_range', findTag_range037]
  by_cases h : j < n
  · rw [if_pos (by omega), if_pos h]; rfl
  · rw [if_neg (by omega), if_neg h]

theorem reindex_orig037 (w : Work) : ∀ (m a p : Nat), a + m = w.store.length →
    reindex w p ((List.range' a m).map WTok.orig) =
      ((w.store.drop a).take m).map (fun t => match t.startIdx with
        | some j => { t with startIdx := findTag j w.list } | none => t) := by
  intro m
  induction m with
  | zero => intro a p _; simp [reindex]
  | succ m ih =>
    intro a p h
    rw [List.range'_succ, List.map_cons, reindex]
    have hlt : a < w.store.length := by omega
    rw [List.getElem?_eq_getElem hlt, ih (a + 1) (p + 1) (by omega)]
    rw [List.drop_eq_getElem_cons hlt, List.take_succ_cons, List.map_cons]
    rfl

theorem applyFixes2_noRepl037 (toks : List Tok2) (reqs : List FixReq2) :
    applyFixes2 toks reqs [] =
      match applyFields toks reqs with
      | .error e => .error e
      | .ok ts => .ok (ts.map (normIdx037 ts.length)) := by
  unfold applyFixes2
  cases applyFields toks reqs with
  | error e => rfl
  | ok ts =>
    simp only [collide, applyRepls]
    have := reindex_orig037 ⟨ts, (List.range ts.length).map .orig⟩ ts.length 0 0 (by simp)
    rw [← List.range_eq_range'] at this
    rw [this]
    simp only [List.drop_zero, List.take_length]
    congr 1
    apply List.map_congr_left
    intro t _
    unfold normIdx037
    cases h : t.startIdx with
    | none => rfl
    | some j =>
      dsimp only
      rw [findTag_range037']
      by_cases hj : j < ts.length
      · rw [if_pos hj, if_pos hj, ← h]
      · rw [if_neg hj, if_neg hj]

/-! ## `token_text` requests -/

def IsTextReq037 (q : FixReq2) : Prop := q.field = .base .tokenText ∧ ∃ s, q.val = .str s

/-- `t'` is `t` with possibly another `text`; only a text token can differ -/
def TextOnly037 (t t' : Tok2) : Prop := t' = { t with text := t'.text } ∧ (t.kind ≠ .text → t' = t)

theorem TextOnly037.refl (t : Tok2) : TextOnly037 t t := ⟨rfl, fun _ => rfl⟩

theorem TextOnly037.kind {t t' : Tok2} (h : TextOnly037 t t') : t'.kind = t.kind := by
  rw [h.1]

theorem TextOnly037.trans {a b c : Tok2} (h1 : TextOnly037 a b) (h2 : TextOnly037 b c) : TextOnly037 a c := by
  refine ⟨?_, fun hk => ?_⟩
  · rw [h2.1, h1.1]
  · have hb := h1.2 hk
    subst hb
    exact h2.2 hk

theorem modify2_tokenText037 (t : Tok2) (s : Str) :
    modify2 t (.base .tokenText) (.str s) = if t.kind = .text then some { t with text := s } else none := by
  unfold modify2
  dsimp only
  cases hk : t.kind <;> simp [modify, hk, leafMod, listMod, baseMod]

theorem modAll2_textOnly037 : ∀ (g : List (Field2 × Val)) (t t' : Tok2),
    (∀ p ∈ g, p.1 = .base .tokenText ∧ ∃ s, p.2 = .str s) → modAll2 t g = .ok t' → TextOnly037 t t' := by
  intro g
  induction g with
  | nil => intro t t' _ h; simp only [modAll2, Except.ok.injEq] at h; subst h; exact .refl t
  | cons p g ih =>
    intro t t' hg h
    obtain ⟨f, v⟩ := p
    obtain ⟨hf, s, hv⟩ := hg (f, v) (List.mem_cons_self)
    dsimp only at hf hv
    subst hf hv
    rw [modAll2, modify2_tokenText037] at h
    by_cases hk : t.kind = .text
    · rw [if_pos hk] at h
      dsimp only at h
      have := ih _ t' (fun p hp => hg p (List.mem_cons_of_mem _ hp)) h
      refine TextOnly037.trans ⟨rfl, fun hn => absurd hk hn⟩ this
    · rw [if_neg hk] at h; cases h

theorem All₂.refl037 {α : Type} {P : α → α → Prop} (hr : ∀ a, P a a) : ∀ (l : List α), All₂ P l l
  | [] => .nil
  | a :: l => .cons (hr a) (All₂.refl037 hr l)

theorem All₂.trans037 {α : Type} {P : α → α → Prop} (ht : ∀ a b c, P a b → P b c → P a c) :
    ∀ {l1 l2 l3 : List α}, All₂ P l1 l2 → All₂ P l2 l3 → All₂ P l1 l3
  | _, _, _, .nil, .nil => .nil
  | _, _, _, .cons h1 t1, .cons h2 t2 => .cons (ht _ _ _ h1 h2) (All₂.trans037 ht t1 t2)

theorem All₂.set037 {α : Type} {P : α → α → Prop} (hr : ∀ a, P a a) :
    ∀ (l : List α) (i : Nat) (a b : α), l[i]? = some a → P a b → All₂ P l (l.set i b)
  | [], _, _, _, h, _ => by simp at h
  | x :: l, 0, a, b, h, hp => by
    simp only [List.getElem?_cons_zero, Option.some.injEq] at h; subst h
    exact .cons hp (All₂.refl037 hr l)
  | x :: l, i + 1, a, b, h, hp => by
    simp only [List.getElem?_cons_succ] at h
    exact .cons (hr x) (All₂.set037 hr l i a b h hp)

theorem groupOf2_isText037 (reqs : List FixReq2) (hr : ∀ q ∈ reqs, IsTextReq037 q) (i : Nat) :
    ∀ p ∈ groupOf2 reqs i, p.1 = .base .tokenText ∧ ∃ s, p.2 = .str s := by
  intro p hp
  unfold groupOf2 at hp
  obtain ⟨q, hq, rfl⟩ := List.mem_map.mp hp
  exact hr q (List.mem_filter.mp hq).1

theorem applyFieldsGo_textOnly037 (reqs : List FixReq2) (hr : ∀ q ∈ reqs, IsTextReq037 q) :
    ∀ (is : List Nat) (ts ts' : List Tok2), applyFieldsGo reqs is ts = .ok ts' → All₂ TextOnly037 ts ts' := by
  intro is
  induction is with
  | nil => intro ts ts' h; simp only [applyFieldsGo, Except.ok.injEq] at h; subst h; exact All₂.refl037 TextOnly037.refl ts
  | cons i is ih =>
    intro ts ts' h
    rw [applyFieldsGo] at h
    split at h
    · cases h
    · rename_i t ht
      split at h
      · cases h
      · rename_i t1 hg
        unfold applyGroup2 at hg
        split at hg
        · cases hg
        · have h1 := modAll2_textOnly037 _ t t1 (groupOf2_isText037 reqs hr i) hg
          exact All₂.trans037 (P := TextOnly037) (fun _ _ _ h1 h2 => TextOnly037.trans h1 h2) (All₂.set037 TextOnly037.refl ts i t t1 ht h1) (ih _ ts' h)

/-- requests for `token_text` only: a successful application changes nothing but the `text` of text tokens -/
theorem applyFields_textOnly037 (toks ts' : List Tok2) (reqs : List FixReq2) (hr : ∀ q ∈ reqs, IsTextReq037 q)
    (h : applyFields toks reqs = .ok ts') : All₂ TextOnly037 toks ts' :=
  applyFieldsGo_textOnly037 reqs hr _ toks ts' h

/-! ## success: no token named twice, every named token a text token of the stream -/

theorem firstOcc_nodup037 : ∀ (l seen : List Nat), l.Nodup → (∀ x ∈ l, x ∉ seen) → firstOcc seen l = l
  | [], _, _, _ => rfl
  | i :: l, seen, hn, hs => by
    have hi : seen.contains i = false := by
      have := hs i List.mem_cons_self
      simpa using this
    rw [firstOcc, hi]
    simp only [Bool.false_eq_true, if_false]
    rw [firstOcc_nodup037 l (i :: seen) (List.nodup_cons.mp hn).2]
    intro x hx hm
    rcases List.mem_cons.mp hm with h | h
    · subst h; exact (List.nodup_cons.mp hn).1 hx
    · exact hs x (List.mem_cons_of_mem _ hx) h

theorem filter_of_nodup037 : ∀ (reqs : List FixReq2) (q : FixReq2), (reqs.map (·.idx)).Nodup → q ∈ reqs →
    reqs.filter (·.idx == q.idx) = [q]
  | [], _, _, h => by cases h
  | r :: reqs, q, hn, hq => by
    simp only [List.map_cons, List.nodup_cons] at hn
    rw [List.filter_cons]
    rcases List.mem_cons.mp hq with h | h
    · subst h
      simp only [beq_self_eq_true, if_true]
      congr 1
      apply List.filter_eq_nil_iff.mpr
      intro x hx hc
      have : x.idx = q.idx := by simpa using hc
      exact hn.1 (by rw [← this]; exact List.mem_map_of_mem hx)
    · have hne : (r.idx == q.idx) = false := by
        apply Bool.eq_false_iff.mpr
        intro hc
        have : r.idx = q.idx := by simpa using hc
        exact hn.1 (by rw [this]; exact List.mem_map_of_mem h)
      rw [hne]
      simp only [Bool.false_eq_true, if_false]
      exact filter_of_nodup037 reqs q hn.2 h

theorem find_of_nodup037 (reqs : List FixReq2) (q : FixReq2) (hn : (reqs.map (·.idx)).Nodup) (hq : q ∈ reqs) :
    reqs.find? (·.idx == q.idx) = some q := by
  have h := filter_of_nodup037 reqs q hn hq
  rw [← List.head?_filter, h]; rfl

theorem find_none037 (reqs : List FixReq2) (k : Nat) (h : k ∉ reqs.map (·.idx)) : reqs.find? (·.idx == k) = none := by
  apply List.find?_eq_none.mpr
  intro x hx hc
  have : x.idx = k := by simpa using hc
  exact h (by rw [← this]; exact List.mem_map_of_mem hx)

/-- the token at index `k` after the requests were applied -/
def upd037 (reqs : List FixReq2) (k : Nat) (t : Tok2) : Tok2 :=
  match reqs.find? (·.idx == k) with
  | some q => (match q.val with | .str s => { t with text := s } | .int _ => t)
  | none => t

theorem applyFieldsGo_ok037 (toks : List Tok2) (reqs : List FixReq2) (hr : ∀ q ∈ reqs, IsTextReq037 q)
    (hn : (reqs.map (·.idx)).Nodup) (ht : ∀ q ∈ reqs, ∃ t, toks[q.idx]? = some t ∧ t.kind = .text) :
    ∀ (is : List Nat), is.Nodup → (∀ i ∈ is, ∃ q ∈ reqs, q.idx = i) → ∀ (ts : List Tok2), ts.length = toks.length →
      (∀ i ∈ is, ts[i]? = toks[i]?) →
      ∃ ts', applyFieldsGo reqs is ts = .ok ts' ∧ ts'.length = toks.length ∧ (∀ k, k ∉ is → ts'[k]? = ts[k]?) ∧
        (∀ k ∈ is, ∀ t, toks[k]? = some t → ts'[k]? = some (upd037 reqs k t)) := by
  intro is
  induction is with
  | nil => intro _ _ ts hl _; exact ⟨ts, rfl, hl, fun _ _ => rfl, by intro k hk; cases hk⟩
  | cons i is ih =>
    intro hnd hq ts hl hsame
    obtain ⟨q, hqm, hqi⟩ := hq i List.mem_cons_self
    obtain ⟨t, htk, hkind⟩ := ht q hqm
    rw [hqi] at htk
    obtain ⟨hf, s, hv⟩ := hr q hqm
    have hts : ts[i]? = some t := by rw [hsame i List.mem_cons_self]; exact htk
    have hg : groupOf2 reqs i = [(.base .tokenText, .str s)] := by
      unfold groupOf2
      rw [← hqi, filter_of_nodup037 reqs q hn hqm]
      simp only [List.map_cons, List.map_nil, hf, hv]
    have hap : applyGroup2 t (groupOf2 reqs i) = .ok { t with text := s } := by
      rw [hg]
      simp only [applyGroup2, List.map_cons, List.map_nil, hasDup2, List.contains_nil, Bool.or_self, Bool.false_eq_true, if_false,
        modAll2, modify2_tokenText037, if_pos hkind]
    rw [applyFieldsGo, hts]
    dsimp only
    rw [hap]
    dsimp only
    have hnd' := List.nodup_cons.mp hnd
    obtain ⟨ts', h1, h2, h3, h4⟩ := ih hnd'.2 (fun j hj => hq j (List.mem_cons_of_mem _ hj)) (ts.set i { t with text := s })
      (by rw [List.length_set]; exact hl)
      (by
        intro j hj
        have : i ≠ j := fun e => hnd'.1 (e ▸ hj)
        rw [List.getElem?_set_ne this]; exact hsame j (List.mem_cons_of_mem _ hj))
    refine ⟨ts', h1, h2, ?_, ?_⟩
    · intro k hk
      have hki : i ≠ k := fun e => hk (e ▸ List.mem_cons_self)
      rw [h3 k (fun h => hk (List.mem_cons_of_mem _ h)), List.getElem?_set_ne hki]
    · intro k hk t0 ht0
      rcases List.mem_cons.mp hk with h | h
      · subst h
        rw [h3 k hnd'.1, List.getElem?_set_self (by
          have := List.getElem?_eq_some_iff.mp hts; obtain ⟨hlt, _⟩ := this; exact hlt)]
        rw [htk] at ht0; cases ht0
        unfold upd037
        rw [← hqi, find_of_nodup037 reqs q hn hqm]
        simp only [hv]
      · exact h4 k h t0 ht0

/-- `token_text` requests, no token named twice, every named token a text token of the stream: the application succeeds, and token
    `k` gets the text requested for it -/
theorem applyFields_ok037 (toks : List Tok2) (reqs : List FixReq2) (hr : ∀ q ∈ reqs, IsTextReq037 q)
    (hn : (reqs.map (·.idx)).Nodup) (ht : ∀ q ∈ reqs, ∃ t, toks[q.idx]? = some t ∧ t.kind = .text) :
    ∃ ts', applyFields toks reqs = .ok ts' ∧ ts'.length = toks.length ∧
      ∀ k t, toks[k]? = some t → ts'[k]? = some (upd037 reqs k t) := by
  unfold applyFields
  rw [firstOcc_nodup037 _ [] hn (fun _ _ h => by cases h)]
  obtain ⟨ts', h1, h2, h3, h4⟩ := applyFieldsGo_ok037 toks reqs hr hn ht (reqs.map (·.idx)) hn
    (fun i hi => by obtain ⟨q, hq, e⟩ := List.mem_map.mp hi; exact ⟨q, hq, e⟩) toks rfl (fun _ _ => rfl)
  refine ⟨ts', h1, h2, ?_⟩
  intro k t hk
  by_cases hm : k ∈ reqs.map (·.idx)
  · exact h4 k hm t hk
  · rw [h3 k hm, hk]
    unfold upd037
    rw [find_none037 reqs k hm]

end Verif.Model.TokenRules
