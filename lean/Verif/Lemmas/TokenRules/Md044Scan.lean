import Verif.Model.TokenRules.Md044Spec
import Verif.Lemmas.TokenRules.Md044Total
/-!
  MD044 — the hits of one search are exactly the triggers of the specification (`specTriggers044`) when no name overlaps itself
  (`noSelfOverlap044`): the Python loop resumes BEHIND a lower-case match, the specification looks at every index.
-/
namespace Verif.Model.TokenRules
open Verif.Model.Codec (removeAll plain)

/-- a lower-case match of `n` at index `i` of `s` -/
def LMatch (n s : Str) (i : Nat) : Prop := (n.map lc044).isPrefixOf ((s.map lc044).drop i) = true

theorem findSub_none (pat : Str) : ∀ (s : Str) (start : Nat), findSub pat s start = none →
    ∀ i, start ≤ i → i ≤ s.length → pat.isPrefixOf (s.drop i) = false := by
  intro s
  induction s with
  | nil =>
    intro start h i hi hl
    simp only [List.length_nil, Nat.le_zero_eq] at hl
    subst hl
    have : start = 0 := by omega
    subst this
    unfold findSub at h
    split at h
    · cases h
    · rename_i hp; exact Bool.eq_false_iff.mpr hp
  | cons x xs ih =>
    intro start h i hi hl
    cases start with
    | zero =>
      unfold findSub at h
      split at h
      · cases h
      · rename_i hp
        cases i with
        | zero => exact Bool.eq_false_iff.mpr hp
        | succ k =>
          simp only [Option.map_eq_none_iff] at h
          have := ih 0 h k (Nat.zero_le _) (by simpa using hl)
          simpa using this
    | succ n =>
      simp only [findSub, Option.map_eq_none_iff] at h
      cases i with
      | zero => omega
      | succ k =>
        have := ih n h k (by omega) (by simpa using hl)
        simpa using this

theorem findSub_min (pat : Str) : ∀ (s : Str) (start i : Nat), findSub pat s start = some i →
    ∀ j, start ≤ j → j < i → pat.isPrefixOf (s.drop j) = false := by
  intro s
  induction s with
  | nil =>
    intro start i h j hj hji
    cases start with
    | zero =>
      unfold findSub at h
      split at h
      · cases h; omega
      · cases h
    | succ n => simp [findSub] at h
  | cons x xs ih =>
    intro start i h j hj hji
    cases start with
    | zero =>
      unfold findSub at h
      split at h
      · cases h; omega
      · rename_i hp
        simp only [Option.map_eq_some_iff] at h
        obtain ⟨k, hk, rfl⟩ := h
        cases j with
        | zero => exact Bool.eq_false_iff.mpr hp
        | succ j' =>
          have := ih 0 k hk j' (Nat.zero_le _) (by omega)
          simpa using this
    | succ n =>
      simp only [findSub, Option.map_eq_some_iff] at h
      obtain ⟨k, hk, rfl⟩ := h
      cases j with
      | zero => omega
      | succ j' =>
        have := ih n k hk j' (by omega) (by omega)
        simpa using this

/-- no name lies over itself with the same lower case at a shift 0 < d < len -/
def noSelfOverlap044 (n : Str) : Bool := (List.range n.length).all (fun d => d == 0 || !agreeLc (n.drop d) n)

theorem lmatch_bound {n s : Str} {i : Nat} (hne : n ≠ []) (h : LMatch n s i) : i + n.length ≤ s.length := by
  have := isPrefixOf_length h
  simp only [List.length_map, List.length_drop] at this
  have : 0 < n.length := List.length_pos_iff.mpr hne
  omega

theorem no_overlap {n s : Str} {i d : Nat} (hno : noSelfOverlap044 n = true) (h1 : LMatch n s i) (hd : 0 < d) (hdl : d < n.length) :
    ¬ LMatch n s (i + d) := by
  intro h2
  unfold noSelfOverlap044 at hno
  rw [List.all_eq_true] at hno
  have := hno d (List.mem_range.mpr hdl)
  have hd0 : (d == 0) = false := by simp; omega
  rw [hd0] at this
  simp only [Bool.false_or, Bool.not_eq_true'] at this
  have hag : agreeLc (n.drop d) n = true := by
    apply agreeLc_of_get
    intro q a b ha hb
    rw [List.getElem?_drop] at ha
    have e1 := prefix_get h1 _ a ha
    have e2 := prefix_get h2 _ b hb
    have : i + (d + q) = i + d + q := by omega
    rw [this, e2] at e1
    exact (Option.some.inj e1).symm
  rw [hag] at this
  cases this

/-- a trigger of the specification is a lower-case match -/
theorem trigger_lmatch {n s : Str} {i : Nat} (h : isTrigger044 n s i = true) : LMatch n s i := by
  unfold isTrigger044 at h
  simp only [Bool.and_eq_true, decide_eq_true_eq] at h
  obtain ⟨⟨⟨hb, hsame⟩, _⟩, _⟩ := h
  unfold sameLetters044 at hsame
  have hsame' : (specSlice044 s i n.length).map lc044 = n.map lc044 := by simpa using hsame
  unfold LMatch
  rw [List.isPrefixOf_iff_prefix]
  refine ⟨((s.map lc044).drop i).drop n.length, ?_⟩
  rw [← hsame']
  unfold specSlice044
  rw [List.map_take, List.map_drop]
  exact List.take_append_drop _ _

/-- at a lower-case match `__check_for_proper_match` finds exactly the specification's trigger -/
theorem check044_spec (s n : Str) (fi : Nat) (dl dc : Int) (hne : n ≠ []) (hm : LMatch n s fi) :
    check044 s fi n dl dc = .ok (if isTrigger044 n s fi = true then [⟨fi, n, specSlice044 s fi n.length, dl, dc⟩] else []) := by
  have hb := lmatch_bound hne hm
  obtain ⟨hsl, _⟩ := slice_of_prefix hm
  have hsame : sameLetters044 (specSlice044 s fi n.length) n = true := by
    unfold sameLetters044 specSlice044; simpa using hsl
  have hlen : (sliceAt s fi n.length).length = n.length := by
    unfold sliceAt; rw [List.length_take, List.length_drop]; omega
  unfold check044 isTrigger044 standalone044 beforeAlnum afterAlnum
  have e : sliceAt s fi n.length = specSlice044 s fi n.length := rfl
  rw [e] at hlen ⊢
  simp only [hb, decide_true, hsame, Bool.true_and]
  by_cases hp : fi > 0
  · have hlt : fi - 1 < s.length := by omega
    simp only [hp, ↓reduceIte, List.getElem?_eq_getElem hlt, Option.map_some]
    have h0 : (fi == 0) = false := by simp; omega
    simp only [h0, Bool.false_or]
    cases ha : s[fi + n.length]? with
    | none => cases hbv : isAlnum044 s[fi - 1] <;> by_cases hne' : specSlice044 s fi n.length = n <;> simp [hne', hlen]
    | some c => cases hbv : isAlnum044 s[fi - 1] <;> cases hav : isAlnum044 c <;> by_cases hne' : specSlice044 s fi n.length = n <;>
        simp [hav, hne', hlen]
  · have h0 : fi = 0 := by omega
    subst h0
    simp only [Nat.lt_irrefl, ↓reduceIte, BEq.rfl, Bool.true_or, Nat.zero_add]
    cases ha : s[n.length]? with
    | none => by_cases hne' : specSlice044 s 0 n.length = n <;> simp [hne', hlen]
    | some c => cases hav : isAlnum044 c <;> by_cases hne' : specSlice044 s 0 n.length = n <;> simp [hav, hne', hlen]

theorem filter_range'_nil (p : Nat → Bool) (a m : Nat) (h : ∀ i, a ≤ i → i < a + m → p i = false) : (List.range' a m).filter p = [] := by
  rw [List.filter_eq_nil_iff]
  intro i hi
  rw [List.mem_range'_1] at hi
  rw [h i hi.1 hi.2]
  simp

/-- the name loop = the specification's triggers from `start` on -/
theorem nameLoop044_spec (s n : Str) (hs : simpleS s = true) (hn : simpleS n = true) (hne : n ≠ []) (hno : noSelfOverlap044 n = true)
    (sl sx sy : Int) : ∀ (fuel start : Nat) (hits : List Hit044), nameLoop044 s (lowerS s) n sl sx sy fuel start = .ok hits →
      start ≤ s.length + 1 →
      hits.map (fun h => (h.cap, h.idx, h.found)) =
        ((List.range' start (s.length + 1 - start)).filter (isTrigger044 n s)).map (fun i => (n, i, specSlice044 s i n.length)) := by
  have hnl : 0 < n.length := List.length_pos_iff.mpr hne
  intro fuel
  induction fuel with
  | zero => intro start hits h; simp [nameLoop044] at h
  | succ fuel ih =>
    intro start hits h hstart
    unfold nameLoop044 at h
    rw [lowerS_simple hs, lowerS_simple hn] at h
    split at h
    · -- no further lower-case match
      rename_i hf
      cases h
      rw [filter_range'_nil]
      · rfl
      · intro i hi1 hi2
        rw [Bool.eq_false_iff]
        intro ht
        have hm := trigger_lmatch ht
        have := findSub_none _ _ _ hf i hi1 (by simp only [List.length_map]; omega)
        unfold LMatch at hm
        rw [hm] at this
        cases this
    · rename_i fi hf
      obtain ⟨hge, _, hpre⟩ := findSub_some _ _ _ _ hf
      have hm : LMatch n s fi := hpre
      have hb := lmatch_bound hne hm
      split at h
      · cases h
      · rename_i dl dc _
        rw [check044_spec s n fi dl dc hne hm] at h
        simp only at h
        split at h
        · cases h
        · rename_i rest hr
          cases h
          rw [← lowerS_simple hs] at hr
          have hrest := ih (fi + n.length) rest hr (by omega)
          -- split the range at fi, fi + 1, fi + len
          have e1 : s.length + 1 - start = (fi - start) + (1 + ((n.length - 1) + (s.length + 1 - (fi + n.length)))) := by omega
          rw [e1, ← List.range'_append_1, ← List.range'_append_1, ← List.range'_append_1]
          simp only [List.filter_append, List.map_append]
          rw [filter_range'_nil _ start (fi - start)]
          · rw [filter_range'_nil _ (start + (fi - start) + 1) (n.length - 1)]
            · have e2 : start + (fi - start) = fi := by omega
              have e3 : fi + 1 + (n.length - 1) = fi + n.length := by omega
              rw [e2, e3, hrest]
              simp only [List.map_nil, List.nil_append, List.range'_one, List.filter_cons, List.filter_nil]
              split <;> rfl
            · intro i hi1 hi2
              rw [Bool.eq_false_iff]
              intro ht
              have hm2 := trigger_lmatch ht
              have : i = fi + (i - fi) := by omega
              rw [this] at hm2
              exact no_overlap hno hm (by omega) (by omega) hm2
          · intro i hi1 hi2
            rw [Bool.eq_false_iff]
            intro ht
            have hm2 := trigger_lmatch ht
            have := findSub_min _ _ _ _ hf i hi1 (by omega)
            unfold LMatch at hm2
            rw [hm2] at this
            cases this

/-- the domain of the scan theorems for names -/
structure NamesScan (names : List Str) : Prop where
  simple : ∀ n ∈ names, simpleS n = true
  nonempty : ∀ n ∈ names, n ≠ []
  noOverlap : ∀ n ∈ names, noSelfOverlap044 n = true

theorem searchNames044_spec (s : Str) (hs : simpleS s = true) (sl sx sy : Int) :
    ∀ (ns : List Str) (_ : NamesScan ns) (hits : List Hit044), searchNames044 s (lowerS s) sl sx sy ns = .ok hits →
      hits.map (fun h => (h.cap, h.idx, h.found)) = (specTriggers044 ns s).map (fun p => (p.1, p.2, specSlice044 s p.2 p.1.length)) := by
  intro ns
  induction ns with
  | nil => intro _ hits h; simp only [searchNames044, Except.ok.injEq] at h; subst h; rfl
  | cons n ns ih =>
    intro hn hits h
    unfold searchNames044 at h
    split at h
    · cases h
    · rename_i h1 hl
      split at h
      · cases h
      · rename_i h2 hr
        cases h
        have hn' : NamesScan ns := ⟨fun m hm => hn.simple m (List.mem_cons_of_mem _ hm), fun m hm => hn.nonempty m (List.mem_cons_of_mem _ hm),
          fun m hm => hn.noOverlap m (List.mem_cons_of_mem _ hm)⟩
        have e1 := nameLoop044_spec s n hs (hn.simple n List.mem_cons_self) (hn.nonempty n List.mem_cons_self)
          (hn.noOverlap n List.mem_cons_self) sl sx sy _ 0 h1 hl (Nat.zero_le _)
        have e2 := ih hn' h2 hr
        rw [List.map_append, e1, e2]
        unfold specTriggers044
        simp only [List.flatMap_cons, List.map_append, List.map_map, Nat.sub_zero, List.range_eq_range']
        rfl

/-! ## positions on one-line text -/
/-- neither the text nor its lower case contains a line break (no character of the CPython tables lower-cases to a line break; the
    second half is kept as a hypothesis instead of a table lemma) -/
def oneLine044 (s : Str) : Bool := !s.contains '\n' && !(lowerS s).contains '\n'

theorem adjNlGo_noNl (en : Nat) : ∀ (cs : Str) (k : Nat) (acc : Int × Int), cs.contains '\n' = false → adjNlGo en k cs acc = acc := by
  intro cs
  induction cs with
  | nil => intros; rfl
  | cons c cs ih =>
    intro k acc h
    simp only [List.contains_cons, Bool.or_eq_false_iff, beq_eq_false_iff_ne, ne_eq] at h
    obtain ⟨col, line⟩ := acc
    unfold adjNlGo
    have : ¬ (k < en ∧ c = '\n') := by intro hc; exact h.1 hc.2.symm
    rw [if_neg this]
    exact ih _ _ h.2

theorem posAdj044_oneLine (low : Str) (start fi : Nat) (sl : Int) (hsl : sl ≤ 0) (h : low.contains '\n' = false) :
    posAdj044 low start fi sl 0 0 = .ok (0, (fi : Int) - sl) := by
  unfold posAdj044 adjNl
  have hd : (low.drop start).contains '\n' = false := by
    rw [Bool.eq_false_iff] at h ⊢
    intro hc
    apply h
    rw [List.contains_iff_mem] at hc ⊢
    exact List.mem_of_mem_drop hc
  rw [adjNlGo_noNl _ _ _ _ hd]
  have hc : ¬ ((fi : Int) < 0 ∨ sl > 0) := by omega
  simp only [and_self, ↓reduceIte, hc, ne_eq, not_true_eq_false, and_false, Int.add_zero]

theorem nameLoop044_pos (s low n : Str) (sl : Int) (hsl : sl ≤ 0) (h1 : low.contains '\n' = false) :
    ∀ (fuel start : Nat) (hits : List Hit044), nameLoop044 s low n sl 0 0 fuel start = .ok hits →
      ∀ h ∈ hits, h.dl = 0 ∧ h.dc = (h.idx : Int) - sl := by
  intro fuel
  induction fuel with
  | zero => intro start hits h; simp [nameLoop044] at h
  | succ fuel ih =>
    intro start hits h
    unfold nameLoop044 at h
    split at h
    · cases h; intro x hx; cases hx
    · rename_i fi hf
      rw [posAdj044_oneLine low start fi sl hsl h1] at h
      simp only at h
      split at h
      · cases h
      · rename_i hc1 hc
        split at h
        · cases h
        · rename_i rest hr
          cases h
          intro x hx
          rcases List.mem_append.mp hx with hx | hx
          · obtain ⟨hcase, _⟩ := check044_cases s fi n 0 ((fi : Int) - sl) hc1 hc
            rcases hcase with rfl | rfl
            · cases hx
            · simp only [List.mem_singleton] at hx; subst hx; exact ⟨rfl, rfl⟩
          · exact ih _ _ hr x hx

theorem searchNames044_pos (s low : Str) (sl : Int) (hsl : sl ≤ 0) (h1 : low.contains '\n' = false) :
    ∀ (ns : List Str) (hits : List Hit044), searchNames044 s low sl 0 0 ns = .ok hits → ∀ h ∈ hits, h.dl = 0 ∧ h.dc = (h.idx : Int) - sl := by
  intro ns
  induction ns with
  | nil => intro hits h; simp only [searchNames044, Except.ok.injEq] at h; subst h; intro x hx; cases hx
  | cons n ns ih =>
    intro hits h
    unfold searchNames044 at h
    split at h
    · cases h
    · rename_i a ha
      split at h
      · cases h
      · rename_i b hb
        cases h
        intro x hx
        rcases List.mem_append.mp hx with hx | hx
        · exact nameLoop044_pos s low n sl hsl h1 _ _ _ ha x hx
        · exact ih b hb x hx

theorem report044_spec (line col sl : Int) (hsl : sl ≤ 0) (s : Str) (h : Hit044) (d1 : h.dl = 0) (d2 : h.dc = (h.idx : Int) - sl)
    (hf : h.found = specSlice044 s h.idx h.cap.length) (htake : (s.take h.idx).contains '\n' = false) :
    report044 line col h = specReport044 line (col - sl) s (h.cap, h.idx) := by
  have hnn : (h.idx : Int) - sl ≥ 0 := by omega
  unfold report044 specReport044 specPos044
  rw [htake, d1, d2, hf]
  simp only [Bool.false_eq_true, ↓reduceIte, hnn, Int.add_zero, Report.mk.injEq]
  refine ⟨trivial, by omega, rfl⟩

/-- on one-line, marker-free, `simpleS` text the reports of a search are the specification's reports -/
theorem search044_reports (names : List Str) (hn : NamesScan names) (s : Str) (hs : simpleS s = true) (hp : plain s = true)
    (h1 : oneLine044 s = true) (sl : Int) (hsl : sl ≤ 0) (line col : Int) :
    ∃ hits, search044 names false s sl 0 0 = .ok hits ∧
      hits.map (report044 line col) = (specTriggers044 names s).map (specReport044 line (col - sl) s) := by
  unfold oneLine044 at h1
  simp only [Bool.and_eq_true, Bool.not_eq_true'] at h1
  obtain ⟨hits, hh⟩ := searchNames044_total s sl 0 0 hsl hs names (fun n h => ⟨hn.simple n h, hn.nonempty n h⟩)
  have hsearch : search044 names false s sl 0 0 = .ok hits := by
    unfold search044
    rw [if_neg (by simp), removeAll_plain044 s hp]
    exact hh
  refine ⟨hits, hsearch, ?_⟩
  have e1 := searchNames044_spec s hs sl 0 0 names hn hits hh
  have e2 := searchNames044_pos s (lowerS s) sl hsl h1.2 names hits hh
  have e3 : hits.map (report044 line col) =
      (hits.map (fun h => (h.cap, h.idx, h.found))).map (fun p => specReport044 line (col - sl) s (p.1, p.2.1)) := by
    rw [List.map_map]
    apply List.map_congr_left
    intro h hh'
    obtain ⟨d1, d2⟩ := e2 h hh'
    have hfound : (h.cap, h.idx, h.found) ∈ hits.map (fun h => (h.cap, h.idx, h.found)) := List.mem_map.mpr ⟨h, hh', rfl⟩
    rw [e1] at hfound
    obtain ⟨p, _, hp'⟩ := List.mem_map.mp hfound
    simp only [Prod.mk.injEq] at hp'
    obtain ⟨q1, q2, q3⟩ := hp'
    have htake : (s.take h.idx).contains '\n' = false := by
      rw [Bool.eq_false_iff]
      intro hc
      rw [List.contains_iff_mem] at hc
      have := List.mem_of_mem_take hc
      rw [← List.contains_iff_mem] at this
      rw [h1.1] at this
      cases this
    rw [q1, q2] at q3
    exact report044_spec line col sl hsl s h d1 d2 q3.symm htake
  rw [e3, e1, List.map_map]
  rfl

/-! ## one scan step = the specification of the token -/
def namesScan044 (names : List Str) : Bool := names.all (fun n => simpleS n && !n.isEmpty && noSelfOverlap044 n)

theorem namesScan044_iff (names : List Str) (h : namesScan044 names = true) : NamesScan names := by
  unfold namesScan044 at h
  rw [List.all_eq_true] at h
  refine ⟨?_, ?_, ?_⟩ <;> intro n hn <;> have := h n hn <;> simp only [Bool.and_eq_true, Bool.not_eq_true', List.isEmpty_eq_false_iff] at this
  · exact this.1.1
  · exact this.1.2
  · exact this.2

/-- the token kinds of the domain of the scan theorems: `plainTok044`, and the text of text / code-span tokens on one line -/
def scanTok044 (t : Tok2) : Bool :=
  plainTok044 t && (match t.kind with | .text | .codeSpan => oneLine044 t.text | _ => true)

theorem specTok044_other (c : C044) (b : Bool) (t : Tok2) (h1 : t.kind ≠ .text) (h2 : t.kind ≠ .codeSpan) : specTok044 c b t = [] := by
  unfold specTok044
  split <;> first | contradiction | rfl

theorem scan_step (c : C044) (hn : NamesScan c.names) (all : List Tok2) (s : St044) (i : Nat) (t : Tok2) (hW : scanTok044 t = true) :
    next044 c false all s i t = .ok (stateNext044 c s t, { reports := specTok044 c s.inCode t }) := by
  unfold scanTok044 at hW
  simp only [Bool.and_eq_true] at hW
  obtain ⟨hW, h1⟩ := hW
  unfold next044 stateNext044
  by_cases hne : c.names.isEmpty = true
  · rw [if_pos hne, if_pos hne]
    have : c.names = [] := by simpa using hne
    have hsp : specTok044 c s.inCode t = [] := by
      unfold specTok044 specTriggers044
      rw [this]
      split
      · split <;> rfl
      · split <;> rfl
      · rfl
    rw [hsp]
  · rw [if_neg hne, if_neg hne]
    by_cases hk1 : t.kind = .text
    · have hs : simpleS t.text = true ∧ plain t.text = true := by
        unfold plainTok044 at hW; rw [hk1] at hW; simpa using hW
      rw [hk1] at h1
      simp only at h1
      have hrep : repTok044 all t = t := by unfold repTok044; rw [hk1]
      unfold hits044 specTok044
      rw [hk1, hrep]
      simp only
      by_cases hcb : (!s.inCode || c.codeBlocks) = true
      · rw [if_pos hcb, if_pos hcb]
        obtain ⟨hits, hh, hr⟩ := search044_reports c.names hn t.text hs.1 hs.2 h1 0 (Int.le_refl _) t.line t.col
        rw [hh]
        simp only [tag044, Bool.false_eq_true, ↓reduceIte, List.map_map]
        rw [Int.sub_zero] at hr
        rw [← hr]
        rfl
      · rw [if_neg hcb, if_neg hcb]
        rfl
    · by_cases hk2 : t.kind = .codeSpan
      · have hs : simpleS t.text = true ∧ plain t.text = true := by
          unfold plainTok044 at hW; rw [hk2] at hW; simpa using hW
        rw [hk2] at h1
        simp only at h1
        have hrep : repTok044 all t = t := by unfold repTok044; rw [hk2]
        unfold hits044 specTok044
        rw [hk2, hrep]
        simp only
        by_cases hcb : c.codeSpans = true
        · rw [if_pos hcb, if_pos hcb]
          obtain ⟨hits, hh, hr⟩ := search044_reports c.names hn t.text hs.1 hs.2 h1 (spanOffset044 t) (spanOffset044_le t) t.line t.col
          rw [hh]
          simp only [tag044, Bool.false_eq_true, ↓reduceIte, List.map_map]
          have hcol : t.col - spanOffset044 t = t.col + ((t.startTicks.length + t.leadWs.length : Nat) : Int) := by
            unfold spanOffset044; omega
          rw [hcol] at hr
          rw [← hr]
          rfl
        · rw [if_neg hcb, if_neg hcb]
          rfl
      · have hk : t.kind ≠ .linkEnd ∧ t.kind ≠ .image ∧ t.kind ≠ .lrd ∧ t.kind ≠ .link := by
          unfold plainTok044 at hW
          refine ⟨?_, ?_, ?_, ?_⟩ <;> (intro hk; rw [hk] at hW; cases hW)
        rw [hits044_other c false all s t hk1 hk2 hk.1 hk.2.1 hk.2.2.1 hk.2.2.2, specTok044_other c _ t hk1 hk2]
        rfl

theorem state044_inCode (s : St044) (t : Tok2) :
    (state044 s t).inCode = (match t.kind with | .fence | .icode => true | .fenceEnd | .icodeEnd => false | _ => s.inCode) := by
  unfold state044
  cases t.kind <;> rfl

theorem specScanFrom044_nil_names (c : C044) (h : c.names = []) : ∀ (ts : List Tok2) (b : Bool), specScanFrom044 c b ts = [] := by
  intro ts
  induction ts with
  | nil => intro b; rfl
  | cons t ts ih =>
    intro b
    unfold specScanFrom044
    rw [ih]
    unfold specTok044 specTriggers044
    rw [h]
    split
    · split <;> rfl
    · split <;> rfl
    · rfl

theorem specScanFrom044_cons (c : C044) (b : Bool) (t : Tok2) (ts : List Tok2) :
    specScanFrom044 c b (t :: ts) = specTok044 c b t ++ specScanFrom044 c (match t.kind with
        | .fence | .icode => true
        | .fenceEnd | .icodeEnd => false
        | _ => b) ts := rfl

theorem runFrom2_spec (c : C044) (hn : NamesScan c.names) (all : List Tok2) :
    ∀ (ts : List Tok2) (s : St044) (i : Nat), (∀ t ∈ ts, scanTok044 t = true) →
      ∃ s' o, runFrom2 md044 c false all s i ts = .ok (s', o) ∧ o.reports = specScanFrom044 c s.inCode ts := by
  intro ts
  induction ts with
  | nil => intro s i _; exact ⟨_, _, rfl, rfl⟩
  | cons t ts ih =>
    intro s i hW
    have h1 := scan_step c hn all s i t (hW t List.mem_cons_self)
    obtain ⟨s', o, h2, h3⟩ := ih (stateNext044 c s t) (i + 1) (fun u hu => hW u (List.mem_cons_of_mem _ hu))
    unfold runFrom2
    have e : md044.next c false all s i t = next044 c false all s i t := rfl
    rw [e, h1]
    simp only
    rw [h2]
    refine ⟨_, _, rfl, ?_⟩
    rw [out_append_reports044, h3, specScanFrom044_cons]
    congr 1
    by_cases hne : c.names.isEmpty = true
    · have : c.names = [] := by simpa using hne
      rw [specScanFrom044_nil_names c this, specScanFrom044_nil_names c this]
    · unfold stateNext044
      rw [if_neg hne, state044_inCode]

end Verif.Model.TokenRules
