import Verif.Lemmas.TokenRules.ReplBasic
/-!
  Generic theory of `applyFixes2` with replacement records — part 2: one record (`applyRepl`) under the invariant
  "working list = finished prefix ++ the untouched objects k … n−1", all records (`applyRepls`), the symbolic result `spliceW`.
-/
namespace Verif.Model.TokenRules

/-! ## the records a rule may register -/
/-- a stream object used inside its own replacement list lies in the replaced range -/
def RTok.refOk (s e : Nat) : RTok → Prop
  | .new _ => True
  | .ref j => s ≤ j ∧ j ≤ e

/-- sorted, pairwise disjoint, in range (`k ≤ startIdx ≤ endIdx < n`, the next record starts behind the end of the previous one),
    non-empty replacement lists whose stream objects come from the replaced range -/
def ReplsOk (n : Nat) : Nat → List Repl → Prop
  | _, [] => True
  | k, r :: rs => k ≤ r.startIdx ∧ r.startIdx ≤ r.endIdx ∧ r.endIdx < n ∧ r.toks ≠ [] ∧
      (∀ x ∈ r.toks, x.refOk r.startIdx r.endIdx) ∧ ReplsOk n (r.endIdx + 1) rs

/-- no rule creates pragma tokens -/
def NoNewPragma (rs : List Repl) : Prop := ∀ r ∈ rs, ∀ t, RTok.new t ∈ r.toks → t.kind ≠ .pragma

theorem ReplsOk.mono (n : Nat) : ∀ (rs : List Repl) (k k' : Nat), k' ≤ k → ReplsOk n k rs → ReplsOk n k' rs := by
  intro rs
  cases rs with
  | nil => intro _ _ _ _; trivial
  | cons r rs =>
    intro k k' hk h
    obtain ⟨h1, h2⟩ := h
    exact ⟨by omega, h2⟩

/-! ## `collide` -/
theorem collide_ok (n : Nat) : ∀ (rs : List Repl) (k : Nat) (repd : List Nat), ReplsOk n k rs → (∀ j ∈ repd, j < k) →
    collide n [] repd rs = .ok () := by
  intro rs
  induction rs with
  | nil => intro _ _ _ _; rfl
  | cons r rs ih =>
    intro k repd h hr
    obtain ⟨h1, h2, h3, _, _, h6⟩ := h
    have c1 : ¬ (n ≤ r.startIdx ∨ n ≤ r.endIdx) := by omega
    have c2 : (rangeIncl r.startIdx r.endIdx).any ([] : List Nat).contains = false := by
      rw [List.any_eq_false]; intro x _; simp
    have c3 : (rangeIncl r.startIdx r.endIdx).any repd.contains = false := by
      rw [List.any_eq_false]
      intro x hx hc
      have h4 := (mem_rangeIncl _ _ _).mp hx
      have := hr x (List.contains_iff_mem.mp hc)
      omega
    unfold collide
    simp only [c1, ↓reduceIte, c2, c3, Bool.false_eq_true]
    apply ih (r.endIdx + 1) _ h6
    intro j hj
    rcases List.mem_append.mp hj with hj | hj
    · have := (mem_rangeIncl _ _ _).mp hj; omega
    · have := hr j hj; omega

/-! ## `applyRepl` in two halves -/
/-- the last part of `__apply_replacement_fix`: the pragma token, if it is the last token of the new list -/
def finishRepl (store' : List Tok2) (list' : List WTok) (endLine d : Int) : Except Err2 Work :=
  match list'.getLast? with
  | some last =>
    (match (Work.tok ⟨store', list'⟩ last) with
     | some lt =>
       if lt.kind = .pragma then
         let (store'', l2) := modSeg (adjPragma endLine d) store' [last]
         .ok ⟨store'', list'.dropLast ++ l2⟩
       else .ok ⟨store', list'⟩
     | none => .error .indexError)
  | none => .error .indexError

/-- the first part: positions of the start and end token in the working list, `end_token.line_number`, `line_number_delta` -/
def replDelta (w : Work) (r : Repl) : Option (Nat × Nat × Int × Int) :=
  match findTag r.startIdx w.list, findTag r.endIdx w.list with
  | some s, some e =>
    match w.list[skipEnds w e w.list.length s]? >>= w.tok, w.store[r.endIdx]?,
          r.toks.head? >>= RTok.line w.store, r.toks.getLast? >>= RTok.line w.store with
    | some first, some endTok, some l0, some ll => some (s, e, endTok.line, (ll - l0 + 1) - (endTok.line - first.line + 1))
    | _, _, _, _ => none
  | _, _ => none

theorem applyRepl_eq (w : Work) (r : Repl) (s e : Nat) (el d : Int) (h : replDelta w r = some (s, e, el, d)) :
    applyRepl w r = finishRepl (modSeg (adjLine d) w.store (w.list.drop (e + 1))).1
      (w.list.take s ++ tagNew 0 r.toks ++ (modSeg (adjLine d) w.store (w.list.drop (e + 1))).2) el d := by
  unfold replDelta at h
  unfold applyRepl
  split at h
  · rename_i s' e' hs he
    rw [hs, he]
    simp only []
    split at h
    · rename_i first endTok l0 ll h1 h2 h3 h4
      rw [h1, h2, h3, h4]
      simp only [Option.some.injEq, Prod.mk.injEq] at h
      obtain ⟨rfl, rfl, rfl, rfl⟩ := h
      rfl
    · cases h
  · cases h

/-- what the pragma branch may do to the last element of the new list -/
def XRel (el d : Int) (x x' : WTok) : Prop :=
  x' = x ∨ ∃ o t, x = .new o t ∧ t.kind = .pragma ∧ x' = .new o (adjPragma el d t)

theorem XRel.wcoreL {el d : Int} {x x' : WTok} (h : XRel el d x x') : wcoreL x' = wcoreL x := by
  rcases h with rfl | ⟨o, t, rfl, _, rfl⟩
  · rfl
  · rfl

theorem XRel.orig {el d : Int} {x x' : WTok} (h : XRel el d x x') (i : Nat) : x' = .orig i → x = .orig i := by
  rcases h with rfl | ⟨o, t, rfl, _, rfl⟩
  · exact id
  · intro e; cases e

theorem finishRepl_concat (st : List Tok2) (B : List WTok) (y : WTok) (el d : Int) (hy : ∀ i, y = .orig i → i < st.length) :
    ∃ st' y', finishRepl st (B ++ [y]) el d = .ok ⟨st', B ++ [y']⟩ ∧ XRel el d y y' ∧ st'.length = st.length ∧
      (∀ j : Nat, (st'[j]?).map coreL = (st[j]?).map coreL) ∧ (∀ j : Nat, (st'[j]?).map (·.line) = (st[j]?).map (·.line)) ∧
      ((∀ o t, y = .new o t → t.kind ≠ .pragma) → y' = y) := by
  unfold finishRepl
  simp only [List.getLast?_concat, List.dropLast_concat]
  cases y with
  | orig i =>
    have hi := hy i rfl
    simp only [Work.tok, List.getElem?_eq_getElem hi]
    by_cases hp : st[i].kind = .pragma
    · simp only [hp, ↓reduceIte, modSeg]
      refine ⟨_, .orig i, rfl, .inl rfl, modStore_length _ _ _, ?_, ?_, fun _ => rfl⟩
      · intro j
        rw [modStore_getElem?]
        split
        · cases st[j]? <;> simp [coreL_adjPragma]
        · rfl
      · intro j
        rw [modStore_getElem?]
        split
        · cases st[j]? <;> simp [adjPragma_line]
        · rfl
    · simp only [hp, ↓reduceIte]
      exact ⟨st, .orig i, rfl, .inl rfl, rfl, fun _ => rfl, fun _ => rfl, fun _ => rfl⟩
  | new o t =>
    simp only [Work.tok]
    by_cases hp : t.kind = .pragma
    · simp only [hp, ↓reduceIte, modSeg]
      exact ⟨st, .new o (adjPragma el d t), rfl, .inr ⟨o, t, rfl, hp, rfl⟩, rfl, fun _ => rfl, fun _ => rfl,
        fun h => absurd hp (h o t rfl)⟩
    · simp only [hp, ↓reduceIte]
      exact ⟨st, .new o t, rfl, .inl rfl, rfl, fun _ => rfl, fun _ => rfl, fun _ => rfl⟩

theorem RTok.line_some (st : List Tok2) (s e : Nat) (he : e < st.length) (x : RTok) (hx : x.refOk s e) :
    ∃ l, RTok.line st x = some l := by
  cases x with
  | new t => exact ⟨_, rfl⟩
  | ref j =>
    have : j < st.length := by have := hx.2; omega
    simp only [RTok.line, List.getElem?_eq_getElem this, Option.map_some]
    exact ⟨_, rfl⟩

/-- the three segments of the untouched part of the working list -/
theorem range'_split3 (k s e n : Nat) (h1 : k ≤ s) (h2 : s ≤ e) (h3 : e < n) :
    List.range' k (n - k) = List.range' k (s - k) ++ List.range' s (e + 1 - s) ++ List.range' (e + 1) (n - (e + 1)) := by
  have a := @List.range'_append k (s - k) (e + 1 - s) 1
  have b := @List.range'_append k (e + 1 - k) (n - (e + 1)) 1
  have e1 : k + 1 * (s - k) = s := by omega
  have e2 : k + 1 * (e + 1 - k) = e + 1 := by omega
  have e3 : s - k + (e + 1 - s) = e + 1 - k := by omega
  have e4 : e + 1 - k + (n - (e + 1)) = n - k := by omega
  rw [e1, e3] at a
  rw [e2, e4] at b
  rw [a, b]

theorem replDelta_inv (n k : Nat) (store : List Tok2) (pre : List WTok) (r : Repl)
    (hlen : store.length = n) (hpre : InStore k pre)
    (hk : k ≤ r.startIdx) (hse : r.startIdx ≤ r.endIdx) (hen : r.endIdx < n) (hne : r.toks ≠ [])
    (href : ∀ x ∈ r.toks, x.refOk r.startIdx r.endIdx) :
    ∃ (a : Nat) (first endTok : Tok2) (l0 ll : Int),
      r.startIdx ≤ a ∧ a ≤ r.endIdx ∧ store[a]? = some first ∧
      (∀ ts, store[r.startIdx]? = some ts → ts.kind.isEnd = false → a = r.startIdx) ∧
      store[r.endIdx]? = some endTok ∧
      r.toks.head? >>= RTok.line store = some l0 ∧ r.toks.getLast? >>= RTok.line store = some ll ∧
      replDelta ⟨store, pre ++ (List.range' k (n - k)).map .orig⟩ r =
        some (pre.length + (r.startIdx - k), pre.length + (r.endIdx - k), endTok.line,
          (ll - l0 + 1) - (endTok.line - first.line + 1)) := by
  obtain ⟨L, hL⟩ : ∃ L, L = pre ++ (List.range' k (n - k)).map WTok.orig := ⟨_, rfl⟩
  rw [← hL]
  have hLlen : L.length = pre.length + (n - k) := by rw [hL]; simp
  -- positions of the start and the end token
  have hpos : ∀ j, k ≤ j → j < n → findTag j L = some (pre.length + (j - k)) := by
    intro j h1 h2
    have hnot : WTok.orig j ∉ pre := fun h => by have := hpre _ h; omega
    rw [hL, findTag_append_of_not_mem _ _ _ hnot, findTag_origRange]
    have : k ≤ j ∧ j < k + (n - k) := by omega
    simp only [this, and_self, ↓reduceIte, Option.map_some, Option.some.injEq]; omega
  have hget : ∀ p, pre.length ≤ p → p < pre.length + (n - k) → L[p]? = some (.orig (k + (p - pre.length))) := by
    intro p h1 h2
    rw [hL, List.getElem?_append_right h1, List.getElem?_map, List.getElem?_range' (by omega)]
    simp
  have hs := hpos r.startIdx hk (by omega)
  have he := hpos r.endIdx (by omega) hen
  have hb := skipEnds_bounds ⟨store, L⟩ (pre.length + (r.endIdx - k)) L.length (pre.length + (r.startIdx - k)) (by omega)
  generalize ha : skipEnds ⟨store, L⟩ (pre.length + (r.endIdx - k)) L.length (pre.length + (r.startIdx - k)) = a' at hb
  have hidx : k + (a' - pre.length) < store.length := by omega
  have hfirst : L[a']? >>= (Work.tok ⟨store, L⟩) = some store[k + (a' - pre.length)] := by
    rw [hget a' (by omega) (by omega)]
    show store[k + (a' - pre.length)]? = _
    exact List.getElem?_eq_getElem hidx
  have hend : store[r.endIdx]? = some store[r.endIdx] := List.getElem?_eq_getElem (by omega)
  obtain ⟨l0, hl0⟩ : ∃ l0, r.toks.head? >>= RTok.line store = some l0 := by
    rw [List.head?_eq_some_head hne]
    exact RTok.line_some store _ _ (by omega) _ (href _ (List.head_mem hne))
  obtain ⟨ll, hll⟩ : ∃ ll, r.toks.getLast? >>= RTok.line store = some ll := by
    rw [List.getLast?_eq_some_getLast hne]
    exact RTok.line_some store _ _ (by omega) _ (href _ (List.getLast_mem hne))
  refine ⟨k + (a' - pre.length), store[k + (a' - pre.length)], store[r.endIdx], l0, ll, by omega, by omega,
    List.getElem?_eq_getElem hidx, ?_, hend, hl0, hll, ?_⟩
  · intro ts hts hk'
    have h0 : L[pre.length + (r.startIdx - k)]? >>= (Work.tok ⟨store, L⟩) = some ts := by
      rw [hget _ (by omega) (by omega)]
      show store[k + (pre.length + (r.startIdx - k) - pre.length)]? = _
      rw [← hts]; congr 1; omega
    have := skipEnds_notEnd ⟨store, L⟩ (pre.length + (r.endIdx - k)) L.length (pre.length + (r.startIdx - k)) ts h0 hk'
    rw [ha] at this
    omega
  · unfold replDelta
    simp only [hs, he, ha, hfirst, hend, hl0, hll]


theorem applyRepl_step (n k : Nat) (store : List Tok2) (pre : List WTok) (r : Repl)
    (hlen : store.length = n) (hpre : InStore k pre)
    (hk : k ≤ r.startIdx) (hse : r.startIdx ≤ r.endIdx) (hen : r.endIdx < n) (hne : r.toks ≠ [])
    (href : ∀ x ∈ r.toks, x.refOk r.startIdx r.endIdx) (s' e' : Nat) (el d : Int)
    (hδ : replDelta ⟨store, pre ++ (List.range' k (n - k)).map .orig⟩ r = some (s', e', el, d))
    (hs' : s' = pre.length + (r.startIdx - k)) (he' : e' = pre.length + (r.endIdx - k)) :
    ∃ store' A0 x x',
      pre ++ (List.range' k (r.startIdx - k)).map .orig ++ tagNew 0 r.toks = A0 ++ [x] ∧
      applyRepl ⟨store, pre ++ (List.range' k (n - k)).map .orig⟩ r =
        .ok ⟨store', A0 ++ [x'] ++ (List.range' (r.endIdx + 1) (n - (r.endIdx + 1))).map .orig⟩ ∧
      XRel el d x x' ∧ ((∀ o t, x = .new o t → t.kind ≠ .pragma) → x' = x) ∧ store'.length = n ∧
      (∀ j : Nat, (store'[j]?).map coreL = (store[j]?).map coreL) ∧
      (∀ j : Nat, (store'[j]?).map (·.line) = (store[j]?).map (fun t => if r.endIdx < j then (adjLine d t).line else t.line)) := by
  rw [applyRepl_eq _ _ _ _ _ _ hδ]
  have hsplit := range'_split3 k r.startIdx r.endIdx n hk hse hen
  generalize hR1 : (List.range' k (r.startIdx - k)).map WTok.orig = R1
  have hR1len : R1.length = r.startIdx - k := by rw [← hR1]; simp
  have hlist : pre ++ (List.range' k (n - k)).map WTok.orig =
      (pre ++ R1) ++ ((List.range' r.startIdx (r.endIdx + 1 - r.startIdx)).map WTok.orig ++
        (List.range' (r.endIdx + 1) (n - (r.endIdx + 1))).map WTok.orig) := by
    rw [hsplit, ← hR1]; simp only [List.map_append, List.append_assoc]
  have hlist2 : pre ++ (List.range' k (n - k)).map WTok.orig =
      ((pre ++ R1) ++ (List.range' r.startIdx (r.endIdx + 1 - r.startIdx)).map WTok.orig) ++
        (List.range' (r.endIdx + 1) (n - (r.endIdx + 1))).map WTok.orig := by
    rw [hlist]; simp only [List.append_assoc]
  have htake : (pre ++ (List.range' k (n - k)).map WTok.orig).take s' = pre ++ R1 := by
    rw [hlist]; exact List.take_left' (by simp [hR1len, hs'])
  have hdrop : (pre ++ (List.range' k (n - k)).map WTok.orig).drop (e' + 1) =
      (List.range' (r.endIdx + 1) (n - (r.endIdx + 1))).map WTok.orig := by
    rw [hlist2]; exact List.drop_left' (by simp [hR1len, he']; omega)
  simp only [htake, hdrop, modSeg_orig]
  generalize hst1 : (List.range' (r.endIdx + 1) (n - (r.endIdx + 1))).foldl (modStore (adjLine d)) store = st1
  have hst1len : st1.length = n := by rw [← hst1, foldl_modStore_length, hlen]
  have hst1core : ∀ j : Nat, (st1[j]?).map coreL = (store[j]?).map coreL := by
    intro j; rw [← hst1]; exact foldl_modStore_coreL _ (coreL_adjLine d) _ _ _
  have hst1line : ∀ j : Nat, (st1[j]?).map (·.line) =
      (store[j]?).map (fun t => if r.endIdx < j then (adjLine d t).line else t.line) := by
    intro j
    rw [← hst1, foldl_modStore_range']
    by_cases hj : j < n
    · by_cases h2 : r.endIdx < j
      · have : r.endIdx + 1 ≤ j ∧ j < r.endIdx + 1 + (n - (r.endIdx + 1)) := by omega
        simp only [this, and_self, ↓reduceIte, Option.map_map, h2]; rfl
      · have : ¬ (r.endIdx + 1 ≤ j ∧ j < r.endIdx + 1 + (n - (r.endIdx + 1))) := by omega
        simp only [this, ↓reduceIte, h2]
    · have : store[j]? = none := List.getElem?_eq_none (by omega)
      simp [this]
  -- the new list ends with an element of the replacement
  have hA : pre ++ R1 ++ tagNew 0 r.toks ≠ [] := by
    intro e
    exact tagNew_ne_nil r.toks 0 hne (List.append_eq_nil_iff.mp e).2
  obtain ⟨A0, x, hAx⟩ : ∃ A0 x, pre ++ R1 ++ tagNew 0 r.toks = A0 ++ [x] := by
    rcases List.eq_nil_or_concat (pre ++ R1 ++ tagNew 0 r.toks) with h | ⟨l, b, h⟩
    · exact absurd h hA
    · exact ⟨l, b, by rw [h, List.concat_eq_append]⟩
  have hxin : ∀ i, x = .orig i → i < st1.length := by
    intro i hi
    have hm : WTok.orig i ∈ pre ++ R1 ++ tagNew 0 r.toks := by rw [hAx, hi]; simp
    rw [hst1len]
    rcases List.mem_append.mp hm with hm | hm
    · rcases List.mem_append.mp hm with hm | hm
      · have := hpre _ hm; omega
      · rw [← hR1] at hm
        simp only [List.mem_map, List.mem_range'_1, WTok.orig.injEq] at hm
        obtain ⟨a, ha, rfl⟩ := hm; omega
    · have := href _ (mem_tagNew_orig _ _ _ hm)
      have := this.2; omega
  rw [hAx]
  cases hm : n - (r.endIdx + 1) with
  | zero =>
    simp only [List.range'_zero, List.map_nil, List.append_nil]
    obtain ⟨st', y', h1, h2, h3, h4, h5, h6⟩ := finishRepl_concat st1 A0 x el d hxin
    refine ⟨st', A0, x, y', rfl, h1, h2, h6, by rw [h3, hst1len], fun j => by rw [h4, hst1core], fun j => by rw [h5, hst1line]⟩
  | succ m =>
    rw [List.range'_concat, List.map_append, List.map_cons, List.map_nil]
    obtain ⟨st', y', h1, h2, h3, h4, h5, h6⟩ := finishRepl_concat st1 (A0 ++ [x] ++ (List.range' (r.endIdx + 1) m).map WTok.orig)
      (.orig (r.endIdx + 1 + 1 * m)) el d (by intro i hi; cases hi; omega)
    have hy : y' = .orig (r.endIdx + 1 + 1 * m) := h6 (by intro o t h; cases h)
    rw [hy] at h1
    refine ⟨st', A0, x, x, rfl, by simpa only [List.append_assoc] using h1, .inl rfl, fun _ => rfl, by rw [h3, hst1len], fun j => by rw [h4, hst1core],
      fun j => by rw [h5, hst1line]⟩


end Verif.Model.TokenRules
