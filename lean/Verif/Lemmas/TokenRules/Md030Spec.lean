import Verif.Model.TokenRules.Md030Spec
import Verif.Lemmas.TokenRules.Md030Scan
import Verif.Lemmas.TokenRules.Md030Sim
import Verif.Lemmas.TokenRules.Md030Ok2
/-!
  MD030: the scan of the flattened tree is the tree's specification (`Blk030.spec`), via the old scan-only model
  (`scan2_md030f_eq_old`).  `absorbEs030` = what the tokens of a list body do to the entries of the level they lie in.
-/
namespace Verif.Model.TokenRules

def absorbEs030 : List Ent030 → List Blk030 → List Ent030
  | es, [] => es
  | es, .leaf t :: bs => absorbEs030 (if t.kind = .para then bumpLast es else es) bs
  | es, .item t :: bs => absorbEs030 (es ++ [ent030 t.toTok]) bs
  | es, .list _ _ _ :: bs => absorbEs030 es bs

def absorbSt030 : St030 → List Blk030 → St030
  | [], _ => []
  | fr :: rest, bs => (fr.1, absorbEs030 fr.2 bs) :: rest

def noItems030 : List Blk030 → Bool
  | [] => true
  | b :: bs => !b.isItem && noItems030 bs

/-- the run over `pre ++ tl` when the run over `pre` is known -/
def After030 (c : C030) (st : St030) (i : Nat) (pre : List Tok2) (st' : St030) (rps : List Report) : Prop :=
  ∀ tl : List Tok, runFrom md030 c false st i (pre.map (·.toTok) ++ tl) =
    match runFrom md030 c false st' (i + pre.length) tl with
    | .error e => .error e
    | .ok (s, r, f) => .ok (s, rps ++ r, f)

theorem After030.nil (c : C030) (st : St030) (i : Nat) : After030 c st i [] st [] := by
  intro tl
  simp only [List.map_nil, List.nil_append, List.length_nil, Nat.add_zero]
  cases runFrom md030 c false st i tl with
  | error e => rfl
  | ok x => obtain ⟨s, r, f⟩ := x; rfl

theorem After030.append {c : C030} {st st1 st2 : St030} {i : Nat} {p1 p2 : List Tok2} {r1 r2 : List Report}
    (h1 : After030 c st i p1 st1 r1) (h2 : After030 c st1 (i + p1.length) p2 st2 r2) : After030 c st i (p1 ++ p2) st2 (r1 ++ r2) := by
  intro tl
  rw [List.map_append, List.append_assoc, h1, h2, List.length_append, Nat.add_assoc]
  cases runFrom md030 c false st2 (i + (p1.length + p2.length)) tl with
  | error e => rfl
  | ok x => obtain ⟨s, r, f⟩ := x; simp [List.append_assoc]

/-- one token whose `next030` is known -/
theorem After030.one (c : C030) (st st' : St030) (i : Nat) (t : Tok2) (rp : List Report)
    (h : next030 c false st i t.toTok = .ok (st', rp, [])) : After030 c st i [t] st' rp := by
  intro tl
  simp only [List.map_cons, List.map_nil, List.cons_append, List.nil_append, runFrom, List.length_cons, List.length_nil]
  rw [show md030.next = next030 from rfl, h]
  simp only [Nat.zero_add]
  cases runFrom md030 c false st' (i + 1) tl with
  | error e => rfl
  | ok x => obtain ⟨s, r, f⟩ := x; simp

theorem next030_leaf (c : C030) (st : St030) (i : Nat) (t : Tok2) (h : isListTok030 t.kind = false) :
    next030 c false st i t.toTok = .ok (absorbSt030 st [.leaf t], [], []) := by
  cases st with
  | nil =>
    show next030 c false [] i t.toTok = .ok ([], [], [])
    unfold next030
    cases hk : t.kind <;> simp_all [isListTok030]
  | cons fr rest =>
    obtain ⟨ord, es⟩ := fr
    show next030 c false ((ord, es) :: rest) i t.toTok = .ok ((ord, absorbEs030 es [.leaf t]) :: rest, [], [])
    simp only [absorbEs030]
    by_cases hp : t.kind = .para
    · simp only [hp, ↓reduceIte]
      unfold next030
      simp [hp]
    · simp only [hp, ↓reduceIte]
      unfold next030
      cases hk : t.kind <;> simp_all [isListTok030]

/-! ## the entries a body leaves behind = the items of the specification -/
/-- items (marker token, direct paragraphs) from a current item with `n` paragraphs so far -/
def itemsFrom030 (cur : Tok2) (n : Nat) : List Blk030 → List (Tok2 × Nat)
  | [] => [(cur, n)]
  | .leaf t :: bs => itemsFrom030 cur (if t.kind = .para then n + 1 else n) bs
  | .item t :: bs => (cur, n) :: itemsFrom030 t 0 bs
  | .list _ _ _ :: bs => itemsFrom030 cur n bs

def entOfItem030 (p : Tok2 × Nat) : Ent030 := { ent030 p.1.toTok with paras := p.2 }

theorem bumpLast_append_one030 (done : List Ent030) (e : Ent030) :
    bumpLast (done ++ [e]) = done ++ [{ e with paras := e.paras + 1 }] := by
  induction done with
  | nil => rfl
  | cons d ds ih =>
    cases ds with
    | nil => rfl
    | cons d2 ds2 =>
      simp only [List.cons_append, bumpLast]
      simp only [List.cons_append] at ih
      rw [ih]

theorem absorbEs_items030 : ∀ (bs : List Blk030) (done : List Ent030) (cur : Tok2) (n : Nat),
    absorbEs030 (done ++ [entOfItem030 (cur, n)]) bs = done ++ (itemsFrom030 cur n bs).map entOfItem030 := by
  intro bs
  induction bs with
  | nil => intro done cur n; rfl
  | cons b bs ih =>
    intro done cur n
    cases b with
    | leaf t =>
      simp only [absorbEs030, itemsFrom030]
      by_cases hp : t.kind = .para
      · simp only [hp, ↓reduceIte, bumpLast_append_one030]
        exact ih done cur (n + 1)
      · simp only [hp, ↓reduceIte]
        exact ih done cur n
    | item t =>
      simp only [absorbEs030, itemsFrom030, List.map_cons]
      have := ih (done ++ [entOfItem030 (cur, n)]) t 0
      simp only [List.append_assoc, List.singleton_append] at this ⊢
      exact this
    | list s body e =>
      simp only [absorbEs030, itemsFrom030]
      exact ih done cur n

theorem directParas_cons_leaf030 (t : Tok2) (bs : List Blk030) :
    directParas030 (.leaf t :: bs) = (if t.kind = .para then 1 else 0) + directParas030 bs := by
  unfold directParas030
  rw [List.countP_cons]
  by_cases h : t.kind = .para <;> simp [Blk030.isPara, h] <;> omega

theorem itemsFrom_eq030 : ∀ (bs : List Blk030) (cur : Tok2) (n : Nat),
    itemsFrom030 cur n bs = (cur, n + directParas030 (splitItems030 bs).1) :: (splitItems030 bs).2.map (fun p => (p.1, directParas030 p.2)) := by
  intro bs
  induction bs with
  | nil => intro cur n; simp [itemsFrom030, splitItems030, directParas030]
  | cons b bs ih =>
    intro cur n
    cases b with
    | leaf t =>
      simp only [itemsFrom030, splitItems030, ih, directParas_cons_leaf030]
      by_cases h : t.kind = .para <;> simp [h] <;> omega
    | item t =>
      simp only [itemsFrom030, splitItems030, ih, List.map_cons]
      simp [directParas030]
    | list s body e =>
      simp only [itemsFrom030, splitItems030, ih]
      simp [directParas030, Blk030.isPara]

theorem filterMap_ext030 {α β : Type} (f g : α → Option β) : ∀ (l : List α), (∀ x ∈ l, f x = g x) → l.filterMap f = l.filterMap g := by
  intro l
  induction l with
  | nil => intro _; rfl
  | cons a as ih =>
    intro h
    simp only [List.filterMap_cons, h a List.mem_cons_self, ih (fun x hx => h x (List.mem_cons_of_mem _ hx))]

theorem kind_beq_olist030 (k : Kind) : (k == Kind.olist) = decide (k = .olist) := by
  cases k <;> decide

/-- the check of one item, on (marker token, paragraph count) -/
def specItem030 (c : C030) (ordered : Bool) (p : Tok2 × Nat) : Option Report :=
  let want := wanted030 c ordered (decide (2 ≤ p.2))
  if actual030 ordered p.1 ≠ want then some ⟨p.1.line, p.1.col, some (msg030 want (actual030 ordered p.1))⟩ else none

theorem wanted030_eq (c : C030) (ordered : Bool) (n : Nat) :
    wanted030 c ordered (decide (2 ≤ n)) =
      (if ordered then (if n > 1 then c.olMulti else c.olSingle) else (if n > 1 then c.ulMulti else c.ulSingle)) := by
  unfold wanted030
  cases ordered <;> by_cases h2 : 2 ≤ n
  · have : n > 1 := by omega
    simp [h2, this]
  · have : ¬ n > 1 := by omega
    simp [h2, this]
  · have : n > 1 := by omega
    simp [h2, this]
  · have : ¬ n > 1 := by omega
    simp [h2, this]

theorem required030_eq_wanted (c : C030) (ordered : Bool) (n : Nat) :
    required030 c ordered n = wanted030 c ordered (decide (2 ≤ n)) := by
  rw [wanted030_eq]; rfl

theorem specItem030_eq (c : C030) (ordered : Bool) (k : Nat) (p : Tok2 × Nat) :
    specItem030 c ordered p =
      if adj030 c ordered (entOfItem030 p) ≠ 0 then some (repOf030 c ordered (k, entOfItem030 p, adj030 c ordered (entOfItem030 p))) else none := by
  have hd : delta030 ordered (entOfItem030 p) = actual030 ordered p.1 := rfl
  have hr : required030 c ordered (entOfItem030 p).paras = wanted030 c ordered (decide (2 ≤ p.2)) := required030_eq_wanted c ordered p.2
  unfold specItem030 adj030 repOf030
  simp only [hd, hr]
  by_cases h : actual030 ordered p.1 = wanted030 c ordered (decide (2 ≤ p.2))
  · have h0 : actual030 ordered p.1 - wanted030 c ordered (decide (2 ≤ p.2)) = 0 := by omega
    simp only [h0, ne_eq, not_true_eq_false, ↓reduceIte]
    simp only [h, not_true_eq_false, ↓reduceIte]
  · have h0 : actual030 ordered p.1 - wanted030 c ordered (decide (2 ≤ p.2)) ≠ 0 := by omega
    simp only [h, h0, ne_eq, not_false_eq_true, ↓reduceIte]
    rfl

theorem viol_entOfItem030 (c : C030) (ordered : Bool) : ∀ (l : List (Tok2 × Nat)),
    (viol030 c ordered (l.map (fun p => (0, entOfItem030 p)))).map (repOf030 c ordered) = l.filterMap (specItem030 c ordered) := by
  intro l
  induction l with
  | nil => rfl
  | cons p ps ih =>
    rw [List.map_cons, viol030_cons, List.filterMap_cons, specItem030_eq c ordered 0 p]
    by_cases h : adj030 c ordered (entOfItem030 p) = 0
    · simp only [h, ne_eq, not_true_eq_false, ↓reduceIte]
      exact ih
    · simp only [h, ne_eq, not_false_eq_true, ↓reduceIte, List.map_cons]
      rw [ih]

theorem check030_entOfItem (c : C030) (ordered : Bool) (l : List (Tok2 × Nat)) :
    check030 c ordered (l.map entOfItem030) = l.filterMap (specItem030 c ordered) := by
  have := check030_eq_viol c ordered (l.map (fun p => (0, entOfItem030 p)))
  rw [List.map_map] at this
  rw [← viol_entOfItem030, ← this]
  rfl

theorem specList030_eq (paras : List Blk030 → Nat) (c : C030) (s : Tok2) (body : List Blk030) :
    specList030 paras c s body =
      ((items030 s body).map (fun it => (it.1, paras it.2))).filterMap (specItem030 c (decide (s.kind = .olist))) := by
  unfold specList030
  rw [List.filterMap_map]
  rfl

theorem check030_items (c : C030) (s : Tok2) (body : List Blk030) :
    check030 c (decide (s.kind = .olist)) (absorbEs030 [ent030 s.toTok] body) = specList030 directParas030 c s body := by
  have h0 : [ent030 s.toTok] = [] ++ [entOfItem030 (s, 0)] := rfl
  rw [h0, absorbEs_items030, itemsFrom_eq030, List.nil_append, check030_entOfItem, specList030_eq]
  simp only [Nat.zero_add, items030, List.map_cons]

/-! ## the run over a flattened tree -/
theorem absorbSt_append030 (st : St030) (b : Blk030) (bs : List Blk030) : absorbSt030 (absorbSt030 st [b]) bs = absorbSt030 st (b :: bs) := by
  cases st with
  | nil => rfl
  | cons fr rest =>
    cases b <;> rfl

theorem absorbSt_list030 (st : St030) (s e : Tok2) (body : List Blk030) : absorbSt030 st [.list s body e] = st := by
  cases st with
  | nil => rfl
  | cons fr rest => rfl

mutual
theorem run_blk030 (c : C030) : ∀ (b : Blk030) (st : St030) (i : Nat), b.wk = true → (st = [] → b.isItem = false) →
    After030 c st i b.flatten (absorbSt030 st [b]) (b.spec c)
  | .leaf t, st, i, hwk, _ => by
    simp only [Blk030.flatten, Blk030.spec]
    apply After030.one
    exact next030_leaf c st i t (by simpa [Blk030.wk] using hwk)
  | .item t, st, i, hwk, hne => by
    simp only [Blk030.flatten, Blk030.spec]
    apply After030.one
    have hk : t.kind = .li := by simpa [Blk030.wk] using hwk
    cases st with
    | nil => simp [Blk030.isItem] at hne
    | cons fr rest =>
      unfold next030
      simp only [Bool.false_eq_true, ↓reduceIte, hk]
      rfl
  | .list s body e, st, i, hwk, _ => by
    simp only [Blk030.wk, Bool.and_eq_true, decide_eq_true_eq] at hwk
    obtain ⟨⟨hs, he⟩, hb⟩ := hwk
    simp only [Blk030.flatten, Blk030.spec, absorbSt_list030]
    have h1 : After030 c st i [s] ((decide (s.kind = .olist), [ent030 s.toTok]) :: st) [] := by
      apply After030.one
      unfold next030
      rcases hs with hs | hs <;> simp [hs]
    have h2 := run_body030 c body ((decide (s.kind = .olist), [ent030 s.toTok]) :: st) (i + 1) hb (by intro h; cases h)
    have h3 : After030 c (absorbSt030 ((decide (s.kind = .olist), [ent030 s.toTok]) :: st) body) (i + 1 + (flattenL030 body).length) [e] st
        (specList030 directParas030 c s body) := by
      apply After030.one
      unfold next030
      simp only [absorbSt030]
      rcases he with he | he <;> simp [he, check030_items]
    have := (h1.append (h2.append h3))
    simpa using this
theorem run_body030 (c : C030) : ∀ (bs : List Blk030) (st : St030) (i : Nat), wkL030 bs = true → (st = [] → noItems030 bs = true) →
    After030 c st i (flattenL030 bs) (absorbSt030 st bs) (specL030 c bs)
  | [], st, i, _, _ => by
    simp only [flattenL030, specL030]
    cases st with
    | nil => exact After030.nil c [] i
    | cons fr rest => exact After030.nil c _ i
  | b :: bs, st, i, hwk, hne => by
    simp only [wkL030, Bool.and_eq_true] at hwk
    simp only [flattenL030, specL030]
    have hb := run_blk030 c b st i hwk.1 (by
      intro h
      have := hne h
      simp only [noItems030, Bool.and_eq_true, Bool.not_eq_true'] at this
      exact this.1)
    have hbs := run_body030 c bs (absorbSt030 st [b]) (i + b.flatten.length) hwk.2 (by
      intro h
      have hst : st = [] := by
        cases st with
        | nil => rfl
        | cons fr rest => cases h
      have := hne hst
      simp only [noItems030, Bool.and_eq_true] at this
      exact this.2)
    rw [absorbSt_append030] at hbs
    exact hb.append hbs
end

/-- the scan of the flattened tree is the tree's specification -/
theorem scan_md030_flatten (c : C030) (doc : List Blk030) (hwk : wkL030 doc = true) (hni : noItems030 doc = true) :
    scan md030 c ((flattenL030 doc).map (·.toTok)) = .ok (specL030 c doc) := by
  have h := run_body030 c doc [] 0 hwk (fun _ => hni) []
  simp only [List.append_nil, runFrom] at h
  unfold scan
  rw [show md030.init c = ([] : St030) from rfl, h]

theorem scan2_md030f_flatten (c : C030) (doc : List Blk030) (hwk : wkL030 doc = true) (hni : noItems030 doc = true) :
    scan2 md030f c (flattenL030 doc) = .ok (specL030 c doc) := by
  rw [scan2_md030f_eq_old, scan_md030_flatten c doc hwk hni]
  rfl

mutual
theorem spec_eq_lists030 (c : C030) : ∀ (b : Blk030), b.spec c = b.lists.flatMap (fun sb => specList030 directParas030 c sb.1 sb.2)
  | .leaf _ => rfl
  | .item _ => rfl
  | .list s body e => by
    simp only [Blk030.spec, Blk030.lists, List.flatMap_append, List.flatMap_cons, List.flatMap_nil, List.append_nil]
    rw [specL_eq_lists030 c body]
theorem specL_eq_lists030 (c : C030) : ∀ (bs : List Blk030), specL030 c bs = (listsL030 bs).flatMap (fun sb => specList030 directParas030 c sb.1 sb.2)
  | [] => rfl
  | b :: bs => by
    simp only [specL030, listsL030, List.flatMap_append]
    rw [spec_eq_lists030 c b, specL_eq_lists030 c bs]
end

/-- membership in the specification, spelled out -/
theorem mem_specL030 (c : C030) (doc : List Blk030) (r : Report) :
    r ∈ specL030 c doc ↔ ∃ sb ∈ listsL030 doc, ∃ it ∈ items030 sb.1 sb.2,
      actual030 (decide (sb.1.kind = .olist)) it.1 ≠ wanted030 c (decide (sb.1.kind = .olist)) (decide (2 ≤ directParas030 it.2)) ∧
      r = ⟨it.1.line, it.1.col, some (msg030 (wanted030 c (decide (sb.1.kind = .olist)) (decide (2 ≤ directParas030 it.2)))
            (actual030 (decide (sb.1.kind = .olist)) it.1))⟩ := by
  rw [specL_eq_lists030]
  simp only [List.mem_flatMap, specList030, List.mem_filterMap]
  constructor
  · rintro ⟨sb, hsb, it, hit, h⟩
    refine ⟨sb, hsb, it, hit, ?_⟩
    split at h
    · rename_i hne
      simp only [Option.some.injEq] at h
      exact ⟨hne, h.symm⟩
    · cases h
  · rintro ⟨sb, hsb, it, hit, hne, hr⟩
    refine ⟨sb, hsb, it, hit, ?_⟩
    simp only [hne, ne_eq, not_false_eq_true, ↓reduceIte, hr]

end Verif.Model.TokenRules
