import Verif.Model.TokenRules.Basic
/-!
  Generic lemmas about rules whose fix requests always name the CURRENT token (`IsLocal`):
  * `fix_ok_iff` — the whole-stream `fix` (collect every request, then apply them grouped by token) equals the
    token-by-token `fixFrom`;
  * `scan_fix_nil_of_sim` (H1), `fix_idem_of_sim` (idempotence), `fix_forall₂` (what a fix may change): each
    reduces the whole-stream statement to a ONE-STEP statement about `next`.
-/
namespace Verif.Model.TokenRules
variable {Cfg St : Type}

instance {ε α : Type} [DecidableEq ε] [DecidableEq α] : DecidableEq (Except ε α)
  | .ok a, .ok b => if h : a = b then isTrue (by rw [h]) else isFalse (by intro e; cases e; exact h rfl)
  | .error a, .error b => if h : a = b then isTrue (by rw [h]) else isFalse (by intro e; cases e; exact h rfl)
  | .ok _, .error _ => isFalse (by intro e; cases e)
  | .error _, .ok _ => isFalse (by intro e; cases e)

def IsLocal (r : Rule Cfg St) : Prop :=
  ∀ c s i t s' rp fx, r.next c true s i t = .ok (s', rp, fx) → ∀ q ∈ fx, q.idx = i

abbrev reqPairs (fx : List FixReq) : List (Field × Val) := fx.map (fun q => (q.field, q.val))

theorem runFrom_idx (r : Rule Cfg St) (hl : IsLocal r) (c : Cfg) :
    ∀ (ts : List Tok) (s : St) (i : Nat) s' rps fxs, runFrom r c true s i ts = .ok (s', rps, fxs) →
      ∀ q ∈ fxs, i ≤ q.idx ∧ q.idx < i + ts.length := by
  intro ts
  induction ts with
  | nil => intro s i s' rps fxs h q hq; simp [runFrom] at h; simp [h.2.2] at hq
  | cons t ts ih =>
    intro s i s' rps fxs h q hq
    unfold runFrom at h
    split at h
    · cases h
    · rename_i s1 rp fx hn
      split at h
      · cases h
      · rename_i s2 rps' fxs' hr
        simp only [Except.ok.injEq, Prod.mk.injEq] at h
        obtain ⟨_, _, rfl⟩ := h
        rcases List.mem_append.mp hq with hq | hq
        · have := hl c s i t s1 rp fx hn q hq; simp [this]
        · have := ih s1 (i + 1) s2 rps' fxs' hr q hq; simp only [List.length_cons]; omega

theorem groupOf_append (a b : List FixReq) (j : Nat) : groupOf (a ++ b) j = groupOf a j ++ groupOf b j := by
  simp [groupOf, List.filter_append]

theorem groupOf_all_eq (a : List FixReq) (i : Nat) (h : ∀ q ∈ a, q.idx = i) : groupOf a i = reqPairs a := by
  unfold groupOf
  rw [List.filter_eq_self.mpr]
  intro q hq; simp [h q hq]

theorem groupOf_none (a : List FixReq) (j : Nat) (h : ∀ q ∈ a, q.idx ≠ j) : groupOf a j = [] := by
  unfold groupOf
  rw [List.filter_eq_nil_iff.mpr]
  · rfl
  · intro q hq; simp [h q hq]

theorem applyFrom_eq_fixFrom (r : Rule Cfg St) (hl : IsLocal r) (c : Cfg) :
    ∀ (ts : List Tok) (s : St) (i : Nat) s' rps fxs (reqs : List FixReq),
      runFrom r c true s i ts = .ok (s', rps, fxs) →
      (∀ j, i ≤ j → groupOf reqs j = groupOf fxs j) →
      applyFrom reqs i ts = fixFrom r c s i ts := by
  intro ts
  induction ts with
  | nil => intros; simp [applyFrom, fixFrom]
  | cons t ts ih =>
    intro s i s' rps fxs reqs h hg
    unfold runFrom at h
    split at h
    · cases h
    · rename_i s1 rp fx hn
      split at h
      · cases h
      · rename_i s2 rps' fxs' hr
        simp only [Except.ok.injEq, Prod.mk.injEq] at h
        obtain ⟨_, _, rfl⟩ := h
        have hfx := hl c s i t s1 rp fx hn
        have hrest := runFrom_idx r hl c ts s1 (i + 1) s2 rps' fxs' hr
        have h1 : groupOf reqs i = reqPairs fx := by
          rw [hg i (Nat.le_refl _), groupOf_append, groupOf_all_eq fx i hfx,
              groupOf_none fxs' i (fun q hq => by have := (hrest q hq).1; omega)]
          simp
        have h2 : ∀ j, i + 1 ≤ j → groupOf reqs j = groupOf fxs' j := by
          intro j hj
          rw [hg j (by omega), groupOf_append, groupOf_none fx j (fun q hq => by have := hfx q hq; omega)]
          simp
        unfold applyFrom fixFrom
        rw [hn, h1]
        simp only
        rw [ih s1 (i + 1) s2 rps' fxs' reqs hr h2]

theorem fixFrom_ok_runFrom (r : Rule Cfg St) (c : Cfg) :
    ∀ (ts : List Tok) (s : St) (i : Nat) x, fixFrom r c s i ts = .ok x →
      ∃ s' rps fxs, runFrom r c true s i ts = .ok (s', rps, fxs) := by
  intro ts
  induction ts with
  | nil => intros; exact ⟨_, _, _, rfl⟩
  | cons t ts ih =>
    intro s i x h
    unfold fixFrom at h
    split at h
    · cases h
    · rename_i s1 rp fx hn
      split at h
      · cases h
      · split at h
        · cases h
        · rename_i ts' hr
          obtain ⟨s2, rps', fxs', h2⟩ := ih s1 (i + 1) ts' hr
          unfold runFrom
          rw [hn]; simp only; rw [h2]
          exact ⟨_, _, _, rfl⟩

/-- for a local rule the whole-stream fix is the token-by-token fix -/
theorem fix_ok_iff (r : Rule Cfg St) (hl : IsLocal r) (c : Cfg) (toks x : List Tok) :
    fix r c toks = .ok x ↔ fixFrom r c (r.init c) 0 toks = .ok x := by
  unfold fix fixReqs
  constructor
  · intro h
    split at h
    · cases h
    · rename_i fxs hf
      split at hf
      · cases hf
      · rename_i s' rps fxs' hr
        cases hf
        have hidx := runFrom_idx r hl c toks (r.init c) 0 s' rps fxs hr
        unfold applyFixes at h
        split at h
        · cases h
        · rw [applyFrom_eq_fixFrom r hl c toks (r.init c) 0 s' rps fxs fxs hr (fun _ _ => rfl)] at h
          exact h
  · intro h
    obtain ⟨s', rps, fxs, hr⟩ := fixFrom_ok_runFrom r c toks (r.init c) 0 x h
    rw [hr]
    have hidx := runFrom_idx r hl c toks (r.init c) 0 s' rps fxs hr
    simp only
    unfold applyFixes
    have : (fxs.any fun q => decide (toks.length ≤ q.idx)) = false := by
      rw [List.any_eq_false]
      intro q hq
      have := (hidx q hq).2
      simp; omega
    rw [this]
    simp only [Bool.false_eq_true, ↓reduceIte]
    rw [applyFrom_eq_fixFrom r hl c toks (r.init c) 0 s' rps fxs fxs hr (fun _ _ => rfl)]
    exact h

/-- H1 from a one-step simulation: `R` relates the fix-mode state on the original stream with the
    scan-mode state on the fixed stream. -/
theorem scanFrom_fixFrom_nil (r : Rule Cfg St) (c : Cfg) (R : St → St → Prop)
    (hstep : ∀ s₁ s₂ i t s₁' rp fx t', R s₁ s₂ → r.next c true s₁ i t = .ok (s₁', rp, fx) →
      applyGroup t (reqPairs fx) = .ok t' →
      ∃ s₂' fx', r.next c false s₂ i t' = .ok (s₂', [], fx') ∧ R s₁' s₂') :
    ∀ (ts : List Tok) (s₁ s₂ : St) (i : Nat) ts', R s₁ s₂ → fixFrom r c s₁ i ts = .ok ts' →
      ∃ s' fxs, runFrom r c false s₂ i ts' = .ok (s', [], fxs) := by
  intro ts
  induction ts with
  | nil =>
    intro s₁ s₂ i ts' _ h
    simp only [fixFrom, Except.ok.injEq] at h
    subst h
    exact ⟨_, _, rfl⟩
  | cons t ts ih =>
    intro s₁ s₂ i ts' hR h
    unfold fixFrom at h
    split at h
    · cases h
    · rename_i s1 rp fx hn
      split at h
      · cases h
      · rename_i t' ha
        split at h
        · cases h
        · rename_i tl hr
          cases h
          obtain ⟨s₂', fx', hn2, hR'⟩ := hstep s₁ s₂ i t s1 rp fx t' hR hn ha
          obtain ⟨s', fxs, h2⟩ := ih s1 s₂' (i + 1) tl hR' hr
          unfold runFrom
          rw [hn2]; simp only; rw [h2]
          exact ⟨_, _, rfl⟩

theorem scan_fix_nil_of_sim (r : Rule Cfg St) (hl : IsLocal r) (c : Cfg) (R : St → St → Prop)
    (hinit : R (r.init c) (r.init c))
    (hstep : ∀ s₁ s₂ i t s₁' rp fx t', R s₁ s₂ → r.next c true s₁ i t = .ok (s₁', rp, fx) →
      applyGroup t (reqPairs fx) = .ok t' →
      ∃ s₂' fx', r.next c false s₂ i t' = .ok (s₂', [], fx') ∧ R s₁' s₂')
    (toks toks' : List Tok) (h : fix r c toks = .ok toks') : scan r c toks' = .ok [] := by
  rw [fix_ok_iff r hl] at h
  obtain ⟨s', fxs, h2⟩ := scanFrom_fixFrom_nil r c R hstep toks _ _ 0 toks' hinit h
  unfold scan; rw [h2]

/-- idempotence from a one-step simulation between the fix-mode runs on the original and the fixed stream -/
theorem fixFrom_idem (r : Rule Cfg St) (c : Cfg) (R : St → St → Prop)
    (hstep : ∀ s₁ s₂ i t s₁' rp fx t', R s₁ s₂ → r.next c true s₁ i t = .ok (s₁', rp, fx) →
      applyGroup t (reqPairs fx) = .ok t' →
      ∃ s₂' rp' fx', r.next c true s₂ i t' = .ok (s₂', rp', fx') ∧ applyGroup t' (reqPairs fx') = .ok t' ∧ R s₁' s₂') :
    ∀ (ts : List Tok) (s₁ s₂ : St) (i : Nat) ts', R s₁ s₂ → fixFrom r c s₁ i ts = .ok ts' →
      fixFrom r c s₂ i ts' = .ok ts' := by
  intro ts
  induction ts with
  | nil =>
    intro s₁ s₂ i ts' _ h
    simp only [fixFrom, Except.ok.injEq] at h
    subst h; rfl
  | cons t ts ih =>
    intro s₁ s₂ i ts' hR h
    unfold fixFrom at h
    split at h
    · cases h
    · rename_i s1 rp fx hn
      split at h
      · cases h
      · rename_i t' ha
        split at h
        · cases h
        · rename_i tl hr
          cases h
          obtain ⟨s₂', rp', fx', hn2, ha2, hR'⟩ := hstep s₁ s₂ i t s1 rp fx t' hR hn ha
          have h2 := ih s1 s₂' (i + 1) tl hR' hr
          unfold fixFrom
          rw [hn2]; simp only; rw [ha2]; simp only; rw [h2]

theorem fix_idem_of_sim (r : Rule Cfg St) (hl : IsLocal r) (c : Cfg) (R : St → St → Prop)
    (hinit : R (r.init c) (r.init c))
    (hstep : ∀ s₁ s₂ i t s₁' rp fx t', R s₁ s₂ → r.next c true s₁ i t = .ok (s₁', rp, fx) →
      applyGroup t (reqPairs fx) = .ok t' →
      ∃ s₂' rp' fx', r.next c true s₂ i t' = .ok (s₂', rp', fx') ∧ applyGroup t' (reqPairs fx') = .ok t' ∧ R s₁' s₂')
    (toks toks' : List Tok) (h : fix r c toks = .ok toks') : fix r c toks' = .ok toks' := by
  rw [fix_ok_iff r hl] at h ⊢
  exact fixFrom_idem r c R hstep toks _ _ 0 toks' hinit h

/-- pointwise relation of two lists (same length, related position by position) -/
inductive All₂ {α β : Type} (P : α → β → Prop) : List α → List β → Prop
  | nil : All₂ P [] []
  | cons {a b as bs} : P a b → All₂ P as bs → All₂ P (a :: as) (b :: bs)

theorem All₂.length_eq {α β : Type} {P : α → β → Prop} {as : List α} {bs : List β} (h : All₂ P as bs) :
    as.length = bs.length := by
  induction h with
  | nil => rfl
  | cons _ _ ih => simp [ih]

theorem All₂.get {α β : Type} {P : α → β → Prop} {as : List α} {bs : List β} (h : All₂ P as bs) :
    ∀ (i : Nat) (ha : i < as.length) (hb : i < bs.length), P as[i] bs[i] := by
  induction h with
  | nil => intro i ha; simp at ha
  | cons hp _ ih =>
    intro i ha hb
    cases i with
    | zero => exact hp
    | succ k => exact ih k (by simpa using ha) (by simpa using hb)

theorem All₂.imp {α β : Type} {P Q : α → β → Prop} (hpq : ∀ a b, P a b → Q a b) {as : List α} {bs : List β}
    (h : All₂ P as bs) : All₂ Q as bs := by
  induction h with
  | nil => exact .nil
  | cons hp _ ih => exact .cons (hpq _ _ hp) ih

/-- what a fix may change, from the one-step statement; `I` is an invariant of the fix-mode state -/
theorem fixFrom_forall₂ (r : Rule Cfg St) (c : Cfg) (I : St → Prop) (P : Tok → Tok → Prop)
    (hstep : ∀ s i t s' rp fx t', I s → r.next c true s i t = .ok (s', rp, fx) →
      applyGroup t (reqPairs fx) = .ok t' → P t t' ∧ I s') :
    ∀ (ts : List Tok) (s : St) (i : Nat) ts', I s → fixFrom r c s i ts = .ok ts' → All₂ P ts ts' := by
  intro ts
  induction ts with
  | nil =>
    intro s i ts' _ h
    simp only [fixFrom, Except.ok.injEq] at h
    subst h; exact .nil
  | cons t ts ih =>
    intro s i ts' hI h
    unfold fixFrom at h
    split at h
    · cases h
    · rename_i s1 rp fx hn
      split at h
      · cases h
      · rename_i t' ha
        split at h
        · cases h
        · rename_i tl hr
          cases h
          obtain ⟨hp, hI'⟩ := hstep s i t s1 rp fx t' hI hn ha
          exact .cons hp (ih s1 (i + 1) tl hI' hr)

theorem fix_forall₂ (r : Rule Cfg St) (hl : IsLocal r) (c : Cfg) (I : St → Prop) (P : Tok → Tok → Prop)
    (hinit : I (r.init c))
    (hstep : ∀ s i t s' rp fx t', I s → r.next c true s i t = .ok (s', rp, fx) →
      applyGroup t (reqPairs fx) = .ok t' → P t t' ∧ I s')
    (toks toks' : List Tok) (h : fix r c toks = .ok toks') : All₂ P toks toks' := by
  rw [fix_ok_iff r hl] at h
  exact fixFrom_forall₂ r c I P hstep toks _ 0 toks' hinit h

/-- the fix succeeds on every stream whose tokens satisfy `W`, when one step succeeds under `W` and the
    state invariant `I` -/
theorem fixFrom_ok (r : Rule Cfg St) (c : Cfg) (I : St → Prop) (W : Tok → Prop)
    (hstep : ∀ s i t, I s → W t → ∃ s' rp fx t', r.next c true s i t = .ok (s', rp, fx) ∧
      applyGroup t (reqPairs fx) = .ok t' ∧ I s') :
    ∀ (ts : List Tok) (s : St) (i : Nat), I s → (∀ t ∈ ts, W t) → ∃ ts', fixFrom r c s i ts = .ok ts' := by
  intro ts
  induction ts with
  | nil => intros; exact ⟨_, rfl⟩
  | cons t ts ih =>
    intro s i hI hW
    obtain ⟨s', rp, fx, t', hn, ha, hI'⟩ := hstep s i t hI (hW t (List.mem_cons_self))
    obtain ⟨tl, h2⟩ := ih s' (i + 1) hI' (fun u hu => hW u (List.mem_cons_of_mem _ hu))
    unfold fixFrom
    rw [hn]; simp only; rw [ha]; simp only; rw [h2]
    exact ⟨_, rfl⟩

theorem fix_ok_of_wf (r : Rule Cfg St) (hl : IsLocal r) (c : Cfg) (I : St → Prop) (W : Tok → Prop)
    (hinit : I (r.init c))
    (hstep : ∀ s i t, I s → W t → ∃ s' rp fx t', r.next c true s i t = .ok (s', rp, fx) ∧
      applyGroup t (reqPairs fx) = .ok t' ∧ I s')
    (toks : List Tok) (hW : ∀ t ∈ toks, W t) : ∃ toks', fix r c toks = .ok toks' := by
  obtain ⟨ts', h⟩ := fixFrom_ok r c I W hstep toks _ 0 hinit hW
  exact ⟨ts', (fix_ok_iff r hl c toks ts').mpr h⟩

end Verif.Model.TokenRules

namespace Verif.Model.TokenRules
variable {Cfg St : Type}

theorem applyGroup_nil (t : Tok) : applyGroup t [] = .ok t := by simp [applyGroup, hasDup, modAll]

theorem applyGroup_single (t : Tok) (f : Field) (v : Val) :
    applyGroup t [(f, v)] = match modify t f v with | some t' => .ok t' | none => .error .badFix := by
  simp only [applyGroup, List.map, hasDup, List.contains_nil, Bool.or_self, Bool.false_eq_true, ↓reduceIte, modAll]
  cases modify t f v <;> rfl

/-- the fix succeeds on every stream satisfying a predicate `P` of (state, rest of the stream) that one step preserves -/
theorem fixFrom_ok_stream (r : Rule Cfg St) (c : Cfg) (P : St → List Tok → Prop)
    (hstep : ∀ s i t ts, P s (t :: ts) → ∃ s' rp fx t', r.next c true s i t = .ok (s', rp, fx) ∧
      applyGroup t (reqPairs fx) = .ok t' ∧ P s' ts) :
    ∀ (ts : List Tok) (s : St) (i : Nat), P s ts → ∃ ts', fixFrom r c s i ts = .ok ts' := by
  intro ts
  induction ts with
  | nil => intros; exact ⟨_, rfl⟩
  | cons t ts ih =>
    intro s i hP
    obtain ⟨s', rp, fx, t', hn, ha, hP'⟩ := hstep s i t ts hP
    obtain ⟨tl, h2⟩ := ih s' (i + 1) hP'
    unfold fixFrom
    rw [hn]; simp only; rw [ha]; simp only; rw [h2]
    exact ⟨_, rfl⟩

theorem fix_ok_of_stream (r : Rule Cfg St) (hl : IsLocal r) (c : Cfg) (P : St → List Tok → Prop)
    (hstep : ∀ s i t ts, P s (t :: ts) → ∃ s' rp fx t', r.next c true s i t = .ok (s', rp, fx) ∧
      applyGroup t (reqPairs fx) = .ok t' ∧ P s' ts)
    (toks : List Tok) (hP : P (r.init c) toks) : ∃ toks', fix r c toks = .ok toks' := by
  obtain ⟨ts', h⟩ := fixFrom_ok_stream r c P hstep toks _ 0 hP
  exact ⟨ts', (fix_ok_iff r hl c toks ts').mpr h⟩

theorem runFrom_cons_ok (r : Rule Cfg St) (c : Cfg) (fm : Bool) (s s1 s2 : St) (i : Nat) (t : Tok) (ts : List Tok)
    rp fx rps fxs (h1 : r.next c fm s i t = .ok (s1, rp, fx)) (h2 : runFrom r c fm s1 (i + 1) ts = .ok (s2, rps, fxs)) :
    runFrom r c fm s i (t :: ts) = .ok (s2, rp ++ rps, fx ++ fxs) := by
  unfold runFrom; rw [h1]; simp only; rw [h2]

end Verif.Model.TokenRules

namespace Verif.Model.TokenRules
variable {Cfg St : Type}

/-- `scan_fix_nil_of_sim` with a per-token hypothesis `W` on the ORIGINAL stream -/
theorem scanFrom_fixFrom_nil_wf (r : Rule Cfg St) (c : Cfg) (R : St → St → Prop) (W : Tok → Prop)
    (hstep : ∀ s₁ s₂ i t s₁' rp fx t', W t → R s₁ s₂ → r.next c true s₁ i t = .ok (s₁', rp, fx) →
      applyGroup t (reqPairs fx) = .ok t' →
      ∃ s₂' fx', r.next c false s₂ i t' = .ok (s₂', [], fx') ∧ R s₁' s₂') :
    ∀ (ts : List Tok) (s₁ s₂ : St) (i : Nat) ts', (∀ t ∈ ts, W t) → R s₁ s₂ → fixFrom r c s₁ i ts = .ok ts' →
      ∃ s' fxs, runFrom r c false s₂ i ts' = .ok (s', [], fxs) := by
  intro ts
  induction ts with
  | nil =>
    intro s₁ s₂ i ts' _ _ h
    simp only [fixFrom, Except.ok.injEq] at h
    subst h
    exact ⟨_, _, rfl⟩
  | cons t ts ih =>
    intro s₁ s₂ i ts' hW hR h
    unfold fixFrom at h
    split at h
    · cases h
    · rename_i s1 rp fx hn
      split at h
      · cases h
      · rename_i t' ha
        split at h
        · cases h
        · rename_i tl hr
          cases h
          obtain ⟨s₂', fx', hn2, hR'⟩ := hstep s₁ s₂ i t s1 rp fx t' (hW t List.mem_cons_self) hR hn ha
          obtain ⟨s', fxs, h2⟩ := ih s1 s₂' (i + 1) tl (fun u hu => hW u (List.mem_cons_of_mem _ hu)) hR' hr
          unfold runFrom
          rw [hn2]; simp only; rw [h2]
          exact ⟨_, _, rfl⟩

theorem scan_fix_nil_of_sim_wf (r : Rule Cfg St) (hl : IsLocal r) (c : Cfg) (R : St → St → Prop) (W : Tok → Prop)
    (hinit : R (r.init c) (r.init c))
    (hstep : ∀ s₁ s₂ i t s₁' rp fx t', W t → R s₁ s₂ → r.next c true s₁ i t = .ok (s₁', rp, fx) →
      applyGroup t (reqPairs fx) = .ok t' →
      ∃ s₂' fx', r.next c false s₂ i t' = .ok (s₂', [], fx') ∧ R s₁' s₂')
    (toks toks' : List Tok) (hW : ∀ t ∈ toks, W t) (h : fix r c toks = .ok toks') : scan r c toks' = .ok [] := by
  rw [fix_ok_iff r hl] at h
  obtain ⟨s', fxs, h2⟩ := scanFrom_fixFrom_nil_wf r c R W hstep toks _ _ 0 toks' hW hinit h
  unfold scan; rw [h2]

end Verif.Model.TokenRules
