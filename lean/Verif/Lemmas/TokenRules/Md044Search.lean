import Verif.Model.TokenRules.Md044
import Verif.Props.C02
/-!
  MD044 — lemmas about one search (`search044`) and about the replacement (`applyAll044`):
  the CPython tables on the length-preserving part, `findSub`, what a hit is (`GoodHit`), totality on the domain, the fuel of the
  name loop, and the string-level H1 lemma `search_fixed`: the search of the fixed string finds nothing when the names are
  pairwise `compat044`.
-/
namespace Verif.Model.TokenRules
open Verif.Model.Codec (removeAll plain isSpecial)

/-! ## tables -/
theorem lowerC_simple {c : Char} (h : simpleC c = true) : lowerC c = [lc044 c] := by
  unfold simpleC at h
  unfold lowerC
  simp only [bne_iff_ne, ne_eq] at h
  simp [h]

theorem lowerS_simple : ∀ {s : Str}, simpleS s = true → lowerS s = s.map lc044
  | [], _ => rfl
  | c :: cs, h => by
    unfold simpleS at h
    simp only [List.all_cons, Bool.and_eq_true] at h
    simp only [lowerS, lowerC_simple h.1, List.map_cons, List.singleton_append, List.cons.injEq, true_and]
    exact lowerS_simple h.2

theorem lowerS_length {s : Str} (h : simpleS s = true) : (lowerS s).length = s.length := by
  rw [lowerS_simple h, List.length_map]

theorem isAlnum_of_lc_eq {a b : Char} (ha : simpleC a = true) (hb : simpleC b = true) (h : lc044 a = lc044 b) :
    isAlnum044 a = isAlnum044 b := by
  unfold simpleC at ha hb
  simp only [bne_iff_ne, ne_eq] at ha hb
  have h1 : (a == cİ) = false := by simp [ha]
  have h2 : (b == cİ) = false := by simp [hb]
  unfold isAlnum044
  rw [h, h1, h2]

theorem simpleS_mem {s : Str} (h : simpleS s = true) {c : Char} (hc : c ∈ s) : simpleC c = true := by
  unfold simpleS at h
  rw [List.all_eq_true] at h
  exact h c hc

theorem simpleS_getElem? {s : Str} (h : simpleS s = true) {i : Nat} {c : Char} (hc : s[i]? = some c) : simpleC c = true :=
  simpleS_mem h (List.mem_of_getElem? hc)

/-! ## `findSub` -/
theorem findSub_some (pat : Str) : ∀ (s : Str) (start i : Nat), findSub pat s start = some i →
    start ≤ i ∧ i ≤ s.length ∧ pat.isPrefixOf (s.drop i) = true := by
  intro s
  induction s with
  | nil =>
    intro start i h
    cases start with
    | zero =>
      unfold findSub at h
      split at h
      · rename_i hp; cases h; exact ⟨Nat.le_refl _, Nat.le_refl _, by simpa using hp⟩
      · cases h
    | succ n => simp [findSub] at h
  | cons x xs ih =>
    intro start i h
    cases start with
    | zero =>
      unfold findSub at h
      split at h
      · rename_i hp; cases h; exact ⟨Nat.le_refl _, Nat.zero_le _, by simpa using hp⟩
      · simp only [Option.map_eq_some_iff] at h
        obtain ⟨k, hk, rfl⟩ := h
        obtain ⟨_, h2, h3⟩ := ih 0 k hk
        exact ⟨Nat.zero_le _, by simp only [List.length_cons]; omega, by simpa using h3⟩
    | succ n =>
      simp only [findSub, Option.map_eq_some_iff] at h
      obtain ⟨k, hk, rfl⟩ := h
      obtain ⟨h1, h2, h3⟩ := ih n k hk
      exact ⟨by omega, by simp only [List.length_cons]; omega, by simpa using h3⟩

theorem isPrefixOf_length {a b : Str} (h : a.isPrefixOf b = true) : a.length ≤ b.length := by
  rw [List.isPrefixOf_iff_prefix] at h
  exact h.length_le

theorem findSub_bound (pat s : Str) (start i : Nat) (h : findSub pat s start = some i) : i + pat.length ≤ s.length := by
  obtain ⟨_, h2, h3⟩ := findSub_some pat s start i h
  have := isPrefixOf_length h3
  rw [List.length_drop] at this
  omega

/-- a lower-case match on the length-preserving part: position-wise equal lower case -/
theorem slice_of_prefix {name s : Str} {i : Nat} (h : (name.map lc044).isPrefixOf ((s.map lc044).drop i) = true) :
    ((s.drop i).take name.length).map lc044 = name.map lc044 ∧ ((s.drop i).take name.length).length = name.length := by
  rw [List.isPrefixOf_iff_prefix] at h
  obtain ⟨r, hr⟩ := h
  have hlen : name.length ≤ (s.drop i).length := by
    have := congrArg List.length hr
    simp only [List.length_append, List.length_map, List.length_drop] at this
    rw [List.length_drop]; omega
  refine ⟨?_, by rw [List.length_take]; omega⟩
  rw [List.map_take, List.map_drop, ← hr]
  have : name.length = (name.map lc044).length := by simp
  rw [this, List.take_left]

/-! ## `adjust_for_newlines`: no line break means the column is the end index -/
theorem adjNlGo_mono (en : Nat) : ∀ (cs : Str) (k : Nat) (col line : Int),
    line ≤ (adjNlGo en k cs (col, line)).2 ∧ ((adjNlGo en k cs (col, line)).2 = line → (adjNlGo en k cs (col, line)).1 = col) := by
  intro cs
  induction cs with
  | nil => intro k col line; simp [adjNlGo]
  | cons c cs ih =>
    intro k col line
    unfold adjNlGo
    split
    · obtain ⟨h1, _⟩ := ih (k + 1) (-((en : Int) - (k : Int))) (line + 1)
      exact ⟨by omega, fun h => by omega⟩
    · exact ih (k + 1) col line

theorem adjNl_line0 (src : Str) (start en : Nat) (h : (adjNl src start en).2 = 0) : (adjNl src start en).1 = (en : Int) := by
  unfold adjNl at h ⊢
  exact (adjNlGo_mono en _ start en 0).2 h

/-- the two `assert`s of `__search_for_possible_matches` never fail when the caller's `same_line_offset` is ≤ 0 -/
theorem posAdj044_ok (low : Str) (start fi : Nat) (sameLine sx sy : Int) (h : sameLine ≤ 0) :
    ∃ p, posAdj044 low start fi sameLine sx sy = .ok p := by
  unfold posAdj044
  have h0 := adjNl_line0 low start fi
  cases hadj : adjNl low start fi with
  | mk col line =>
    rw [hadj] at h0
    simp only at h0 ⊢
    by_cases hl : line = 0 ∧ sy = 0
    · have : col = (fi : Int) := h0 hl.1
      have hc : ¬ (col < 0 ∨ sameLine > 0) := by omega
      simp only [hl, and_self, ↓reduceIte, hc]
      exact ⟨_, rfl⟩
    · simp only [hl, ↓reduceIte]
      exact ⟨_, rfl⟩

/-! ## what a hit is -/
structure GoodHit (orig low : Str) (names : List Str) (h : Hit044) : Prop where
  mem : h.cap ∈ names
  pre : (lowerS h.cap).isPrefixOf (low.drop h.idx) = true
  found : h.found = sliceAt orig h.idx h.cap.length
  ne : h.found ≠ h.cap
  len : h.found.length = h.cap.length
  before : ∀ c, 0 < h.idx → orig[h.idx - 1]? = some c → isAlnum044 c = false
  after : ∀ c, orig[h.idx + h.cap.length]? = some c → isAlnum044 c = false

theorem check044_cases (orig : Str) (fi : Nat) (cap : Str) (dl dc : Int) (hs : List Hit044)
    (h : check044 orig fi cap dl dc = .ok hs) :
    (hs = [] ∨ hs = [⟨fi, cap, sliceAt orig fi cap.length, dl, dc⟩]) ∧
    ∀ x ∈ hs, x.idx = fi ∧ x.cap = cap ∧ x.found = sliceAt orig fi cap.length ∧ x.found ≠ cap ∧ x.found.length = cap.length ∧
      (∀ c, 0 < fi → orig[fi - 1]? = some c → isAlnum044 c = false) ∧ (∀ c, orig[fi + cap.length]? = some c → isAlnum044 c = false) := by
  unfold check044 at h
  split at h
  · cases h
  · rename_i before hb
    split at h
    · cases h; exact ⟨Or.inl rfl, by intro x hx; cases hx⟩
    · rename_i ha
      split at h
      · cases h; exact ⟨Or.inl rfl, by intro x hx; cases hx⟩
      · rename_i hbf
        split at h
        · cases h; exact ⟨Or.inl rfl, by intro x hx; cases hx⟩
        · rename_i hne
          split at h
          · cases h
          · rename_i hl
            cases h
            refine ⟨Or.inr rfl, ?_⟩
            intro x hx
            simp only [List.mem_singleton] at hx
            subst hx
            refine ⟨rfl, rfl, rfl, hne, by simpa using hl, ?_, ?_⟩
            · intro c hpos hc
              simp only [Bool.not_eq_true] at hbf
              subst hbf
              simp only [beforeAlnum, hpos, ↓reduceIte, hc, Option.map_some, Option.some.injEq] at hb
              exact hb
            · intro c hc
              simp only [afterAlnum, hc, Bool.not_eq_true] at ha
              exact ha

theorem nameLoop044_good (orig low name : Str) (sl sx sy : Int) (names : List Str) (hn : name ∈ names) :
    ∀ (fuel start : Nat) (hs : List Hit044), nameLoop044 orig low name sl sx sy fuel start = .ok hs →
      ∀ h ∈ hs, GoodHit orig low names h := by
  intro fuel
  induction fuel with
  | zero => intro start hs h; simp [nameLoop044] at h
  | succ fuel ih =>
    intro start hs h
    unfold nameLoop044 at h
    split at h
    · cases h; intro x hx; cases hx
    · rename_i fi hf
      split at h
      · cases h
      · rename_i dl dc hp
        split at h
        · cases h
        · rename_i h1 hc
          split at h
          · cases h
          · rename_i hs2 hr
            cases h
            intro x hx
            rcases List.mem_append.mp hx with hx | hx
            · obtain ⟨_, hall⟩ := check044_cases orig fi name dl dc h1 hc
              obtain ⟨e1, e2, e3, e4, e5, e6, e7⟩ := hall x hx
              obtain ⟨_, _, hpre⟩ := findSub_some _ _ _ _ hf
              exact ⟨by rw [e2]; exact hn, by rw [e1, e2]; exact hpre, by rw [e1, e2]; exact e3, by rw [e2]; exact e4,
                by rw [e2]; exact e5, by rw [e1]; exact e6, by rw [e1, e2]; exact e7⟩
            · exact ih _ _ hr x hx

theorem searchNames044_good (orig low : Str) (sl sx sy : Int) (names : List Str) :
    ∀ (ns : List Str) (hs : List Hit044), (∀ n ∈ ns, n ∈ names) → searchNames044 orig low sl sx sy ns = .ok hs →
      ∀ h ∈ hs, GoodHit orig low names h := by
  intro ns
  induction ns with
  | nil => intro hs _ h; simp only [searchNames044, Except.ok.injEq] at h; subst h; intro x hx; cases hx
  | cons n ns ih =>
    intro hs hsub h
    unfold searchNames044 at h
    split at h
    · cases h
    · rename_i h1 hl
      split at h
      · cases h
      · rename_i h2 hr
        cases h
        intro x hx
        rcases List.mem_append.mp hx with hx | hx
        · exact nameLoop044_good orig low n sl sx sy names (hsub n List.mem_cons_self) _ _ _ hl x hx
        · exact ih h2 (fun m hm => hsub m (List.mem_cons_of_mem _ hm)) hr x hx

/-! ## the replacement -/
/-- `applyAll044` on bare hits -/
def applyHits (s : Str) (hs : List Hit044) : Str := hs.foldl (fun acc h => replAt acc h.idx h.cap) s

theorem applyAll044_eq (s : Str) (items : List PHit044) : applyAll044 s items = applyHits s (items.map (·.2)) := by
  unfold applyAll044 applyHits
  rw [List.foldl_map]

theorem replAt_length (s cap : Str) (i : Nat) (h : i + cap.length ≤ s.length) : (replAt s i cap).length = s.length := by
  unfold replAt
  simp only [List.length_append, List.length_take, List.length_drop]
  omega

theorem replAt_get (s cap : Str) (i : Nat) (h : i + cap.length ≤ s.length) (j : Nat) :
    (replAt s i cap)[j]? = if i ≤ j ∧ j < i + cap.length then cap[j - i]? else s[j]? := by
  unfold replAt
  have hti : (s.take i).length = i := by rw [List.length_take]; omega
  by_cases h1 : j < i
  · have : ¬ (i ≤ j ∧ j < i + cap.length) := by omega
    rw [List.append_assoc, List.getElem?_append_left (by omega), if_neg this, List.getElem?_take_of_lt h1]
  · by_cases h2 : j < i + cap.length
    · have : i ≤ j ∧ j < i + cap.length := by omega
      rw [List.append_assoc, List.getElem?_append_right (by omega), hti, List.getElem?_append_left (by omega), if_pos this]
    · have : ¬ (i ≤ j ∧ j < i + cap.length) := by omega
      rw [List.getElem?_append_right (by simp only [List.length_append, hti]; omega), if_neg this, List.getElem?_drop]
      simp only [List.length_append, hti]
      congr 1; omega

theorem sliceAt_map (f : Char → Char) (s : Str) (i n : Nat) : (sliceAt s i n).map f = sliceAt (s.map f) i n := by
  unfold sliceAt; rw [List.map_take, List.map_drop]

theorem split_sliceAt (s : Str) (i n : Nat) : s = s.take i ++ sliceAt s i n ++ s.drop (i + n) := by
  unfold sliceAt
  have h1 : s = s.take i ++ s.drop i := (List.take_append_drop i s).symm
  have h2 : s.drop i = (s.drop i).take n ++ (s.drop i).drop n := (List.take_append_drop n _).symm
  rw [List.drop_drop] at h2
  rw [List.append_assoc, ← h2]
  exact h1

theorem replAt_map_lc (s cap : Str) (i : Nat) (hm : (sliceAt s i cap.length).map lc044 = cap.map lc044) :
    (replAt s i cap).map lc044 = s.map lc044 := by
  have h := split_sliceAt s i cap.length
  conv => rhs; rw [h]
  unfold replAt
  simp only [List.map_append, hm]

theorem sliceAt_replAt (s cap : Str) (i : Nat) (h : i + cap.length ≤ s.length) : sliceAt (replAt s i cap) i cap.length = cap := by
  unfold sliceAt replAt
  have hti : (s.take i).length = i := by rw [List.length_take]; omega
  rw [List.append_assoc, List.drop_append_of_le_length (by omega), List.drop_of_length_le (by omega), List.nil_append]
  exact List.take_left' rfl

/-- the items are inside the text and match it in lower case -/
def InText (s : Str) (h : Hit044) : Prop :=
  h.idx + h.cap.length ≤ s.length ∧ (sliceAt s h.idx h.cap.length).map lc044 = h.cap.map lc044

theorem applyHits_inv (s : Str) : ∀ (hs : List Hit044) (cur : Str), (∀ h ∈ hs, InText s h) →
    cur.length = s.length → cur.map lc044 = s.map lc044 →
    (applyHits cur hs).length = s.length ∧ (applyHits cur hs).map lc044 = s.map lc044 := by
  intro hs
  induction hs with
  | nil => intro cur _ h1 h2; exact ⟨h1, h2⟩
  | cons h hs ih =>
    intro cur hin h1 h2
    obtain ⟨hr, hm⟩ := hin h List.mem_cons_self
    have hm' : (sliceAt cur h.idx h.cap.length).map lc044 = h.cap.map lc044 := by
      rw [sliceAt_map, h2, ← sliceAt_map]; exact hm
    show (applyHits (replAt cur h.idx h.cap) hs).length = _ ∧ _
    exact ih _ (fun x hx => hin x (List.mem_cons_of_mem _ hx)) (by rw [replAt_length _ _ _ (by omega)]; exact h1)
      (by rw [replAt_map_lc _ _ _ hm']; exact h2)

def Covers (h : Hit044) (j : Nat) : Prop := h.idx ≤ j ∧ j < h.idx + h.cap.length

/-- every character of the new text is the old one, or the character of a required capitalisation that covers the position -/
theorem applyHits_get (s : Str) : ∀ (hs : List Hit044) (cur : Str), (∀ h ∈ hs, h.idx + h.cap.length ≤ s.length) →
    cur.length = s.length → ∀ j,
      (∃ h ∈ hs, Covers h j ∧ (applyHits cur hs)[j]? = h.cap[j - h.idx]?) ∨
      ((∀ h ∈ hs, ¬ Covers h j) ∧ (applyHits cur hs)[j]? = cur[j]?) := by
  intro hs
  induction hs with
  | nil => intro cur _ _ j; right; exact ⟨(by intro h hh; cases hh), rfl⟩
  | cons h hs ih =>
    intro cur hin hlen j
    have hr := hin h List.mem_cons_self
    have hl1 : (replAt cur h.idx h.cap).length = s.length := by rw [replAt_length _ _ _ (by omega)]; exact hlen
    rcases ih (replAt cur h.idx h.cap) (fun x hx => hin x (List.mem_cons_of_mem _ hx)) hl1 j with ⟨x, hx, hc, he⟩ | ⟨hnone, he⟩
    · left; exact ⟨x, List.mem_cons_of_mem _ hx, hc, he⟩
    · have hg := replAt_get cur h.cap h.idx (by omega) j
      by_cases hc : h.idx ≤ j ∧ j < h.idx + h.cap.length
      · left
        refine ⟨h, List.mem_cons_self, hc, ?_⟩
        show (applyHits (replAt cur h.idx h.cap) hs)[j]? = _
        rw [he, hg, if_pos hc]
      · right
        refine ⟨?_, ?_⟩
        · intro x hx
          rcases List.mem_cons.mp hx with rfl | hx
          · exact hc
          · exact hnone x hx
        · show (applyHits (replAt cur h.idx h.cap) hs)[j]? = _
          rw [he, hg, if_neg hc]

theorem applyHits_all (p : Char → Bool) : ∀ (hs : List Hit044) (cur : Str), cur.all p = true → (∀ h ∈ hs, h.cap.all p = true) →
    (applyHits cur hs).all p = true := by
  intro hs
  induction hs with
  | nil => intro cur h _; exact h
  | cons h hs ih =>
    intro cur hc hh
    apply ih _ _ (fun x hx => hh x (List.mem_cons_of_mem _ hx))
    unfold replAt
    rw [List.all_append, List.all_append, hh h List.mem_cons_self]
    rw [List.all_eq_true] at hc
    simp only [Bool.and_true, Bool.and_eq_true, List.all_eq_true]
    exact ⟨fun c hcm => hc c (List.mem_of_mem_take hcm), fun c hcm => hc c (List.mem_of_mem_drop hcm)⟩

theorem applyHits_append (s : Str) (a b : List Hit044) : applyHits s (a ++ b) = applyHits (applyHits s a) b := by
  unfold applyHits; rw [List.foldl_append]

/-- `assert new_text != text_to_check` never fails: the LAST replacement is still visible -/
theorem applyHits_ne (s : Str) (hs : List Hit044) (hne : hs ≠ []) (hin : ∀ h ∈ hs, InText s h)
    (hdiff : ∀ h ∈ hs, sliceAt s h.idx h.cap.length ≠ h.cap) : applyHits s hs ≠ s := by
  obtain ⟨init, last, rfl⟩ : ∃ init last, hs = init ++ [last] := by
    refine ⟨hs.dropLast, hs.getLast hne, ?_⟩
    exact (List.dropLast_concat_getLast hne).symm
  intro heq
  rw [applyHits_append] at heq
  have hl := hin last (by simp)
  have hlen := (applyHits_inv s init s (fun h hh => hin h (by simp [hh])) rfl rfl).1
  have : sliceAt (applyHits (applyHits s init) [last]) last.idx last.cap.length = last.cap := by
    show sliceAt (replAt (applyHits s init) last.idx last.cap) _ _ = _
    exact sliceAt_replAt _ _ _ (by rw [hlen]; exact hl.1)
  rw [heq] at this
  exact hdiff last (by simp) this

/-- a good hit on a simple text is inside the text -/
theorem GoodHit.inText {s : Str} {names : List Str} {h : Hit044} (hs : simpleS s = true)
    (hn : ∀ n ∈ names, simpleS n = true) (g : GoodHit s (lowerS s) names h) : InText s h := by
  have hp := g.pre
  rw [lowerS_simple hs, lowerS_simple (hn _ g.mem)] at hp
  obtain ⟨h1, h2⟩ := slice_of_prefix hp
  have hb : h.cap.length ≤ (s.drop h.idx).length := by
    have := isPrefixOf_length hp
    simpa using this
  rw [List.length_drop] at hb
  have hlen := g.len
  rw [g.found] at hlen
  unfold sliceAt at hlen
  rw [List.length_take, List.length_drop] at hlen
  refine ⟨?_, h1⟩
  have hpos : h.cap.length = 0 ∨ 0 < h.cap.length := by omega
  rcases hpos with h0 | hpos
  · -- an empty name never differs from what is found
    exfalso
    apply g.ne
    rw [g.found]
    have : h.cap = [] := List.length_eq_zero_iff.mp h0
    rw [this]; rfl
  · omega

/-! ## totality on the domain -/
theorem check044_ok (orig : Str) (fi : Nat) (cap : Str) (dl dc : Int) (h : fi + cap.length ≤ orig.length) :
    ∃ hs, check044 orig fi cap dl dc = .ok hs := by
  unfold check044
  have hb : ∃ b, beforeAlnum orig fi = some b := by
    unfold beforeAlnum
    by_cases hp : fi > 0
    · have : fi - 1 < orig.length := by omega
      simp only [hp, ↓reduceIte, List.getElem?_eq_getElem this, Option.map_some]
      exact ⟨_, rfl⟩
    · simp only [hp, ↓reduceIte]; exact ⟨_, rfl⟩
  obtain ⟨b, hb⟩ := hb
  rw [hb]
  simp only
  have hl : (sliceAt orig fi cap.length).length = cap.length := by
    unfold sliceAt; rw [List.length_take, List.length_drop]; omega
  split
  · exact ⟨_, rfl⟩
  · split
    · exact ⟨_, rfl⟩
    · split
      · exact ⟨_, rfl⟩
      · simp only [hl, ne_eq, not_true_eq_false, ↓reduceIte]; exact ⟨_, rfl⟩

/-- the fuel `len + 2` of the name loop is never exhausted for a non-empty name; no `assert`, no IndexError on simple text -/
theorem nameLoop044_total (orig name : Str) (sl sx sy : Int) (hsl : sl ≤ 0) (ho : simpleS orig = true) (hn : simpleS name = true)
    (hne : name ≠ []) : ∀ (fuel start : Nat), start ≤ orig.length → orig.length + 2 ≤ fuel + start →
      ∃ hs, nameLoop044 orig (lowerS orig) name sl sx sy fuel start = .ok hs := by
  have hnl : 0 < name.length := List.length_pos_iff.mpr hne
  intro fuel
  induction fuel with
  | zero => intro start h1 h2; omega
  | succ fuel ih =>
    intro start h1 h2
    unfold nameLoop044
    split
    · exact ⟨_, rfl⟩
    · rename_i fi hf
      obtain ⟨hge, _, _⟩ := findSub_some _ _ _ _ hf
      have hb := findSub_bound _ _ _ _ hf
      rw [lowerS_length ho, lowerS_length hn] at hb
      obtain ⟨p, hp⟩ := posAdj044_ok (lowerS orig) start fi sl sx sy hsl
      rw [hp]
      obtain ⟨h1', hc⟩ := check044_ok orig fi name p.1 p.2 hb
      simp only [hc]
      obtain ⟨hs2, hr⟩ := ih (fi + name.length) hb (by omega)
      rw [hr]
      exact ⟨_, rfl⟩

theorem searchNames044_total (orig : Str) (sl sx sy : Int) (hsl : sl ≤ 0) (ho : simpleS orig = true) :
    ∀ (ns : List Str), (∀ n ∈ ns, simpleS n = true ∧ n ≠ []) → ∃ hs, searchNames044 orig (lowerS orig) sl sx sy ns = .ok hs := by
  intro ns
  induction ns with
  | nil => intro _; exact ⟨_, rfl⟩
  | cons n ns ih =>
    intro h
    obtain ⟨h1, h2⟩ := h n List.mem_cons_self
    unfold searchNames044
    obtain ⟨a, ha⟩ := nameLoop044_total orig n sl sx sy hsl ho h1 h2 ((lowerS orig).length + 2) 0 (Nat.zero_le _)
      (by rw [lowerS_length ho]; omega)
    rw [ha]
    obtain ⟨b, hb⟩ := ih (fun m hm => h m (List.mem_cons_of_mem _ hm))
    rw [hb]
    exact ⟨_, rfl⟩

/-! ## name lists whose required capitalisations never contradict each other -/
def agreeLc : Str → Str → Bool
  | x :: xs, y :: ys => lc044 x == lc044 y && agreeLc xs ys
  | _, _ => true

def agreeEq : Str → Str → Bool
  | x :: xs, y :: ys => x == y && agreeEq xs ys
  | _, _ => true

/-- wherever `b` can lie over `a` from its first character on with the same lower case, the characters are the same -/
def overlapOk (a b : Str) : Bool := !agreeLc a b || agreeEq a b

/-- every way two names can overlap in a text (one starting inside the other) is `overlapOk` -/
def compat044 (n m : Str) : Bool :=
  (List.range n.length).all (fun d => overlapOk (n.drop d) m) && (List.range m.length).all (fun d => overlapOk n (m.drop d))

def compatAll044 (names : List Str) : Bool := names.all (fun a => names.all (fun b => compat044 a b))

theorem agreeLc_of_get : ∀ (a b : Str), (∀ (q : Nat) (x y : Char), a[q]? = some x → b[q]? = some y → lc044 x = lc044 y) → agreeLc a b = true
  | [], _, _ => by simp [agreeLc]
  | _ :: _, [], _ => by simp [agreeLc]
  | x :: xs, y :: ys, h => by
    simp only [agreeLc, Bool.and_eq_true, beq_iff_eq]
    exact ⟨h 0 x y rfl rfl, agreeLc_of_get xs ys (fun q x' y' hx hy => h (q + 1) x' y' (by simpa using hx) (by simpa using hy))⟩

theorem agreeEq_get : ∀ (a b : Str), agreeEq a b = true → ∀ (q : Nat) (x y : Char), a[q]? = some x → b[q]? = some y → x = y
  | [], _, _ => by intro q x y hx; simp at hx
  | _ :: _, [], _ => by intro q x y _ hy; simp at hy
  | x :: xs, y :: ys, h => by
    simp only [agreeEq, Bool.and_eq_true, beq_iff_eq] at h
    intro q x' y' hx hy
    cases q with
    | zero => simp only [List.getElem?_cons_zero, Option.some.injEq] at hx hy; rw [← hx, ← hy]; exact h.1
    | succ q => exact agreeEq_get xs ys h.2 q x' y' (by simpa using hx) (by simpa using hy)

/-- a lower-case match, position by position -/
theorem prefix_get {name low : Str} {i : Nat} (h : (name.map lc044).isPrefixOf (low.drop i) = true) (q : Nat) (x : Char)
    (hx : name[q]? = some x) : low[i + q]? = some (lc044 x) := by
  rw [List.isPrefixOf_iff_prefix] at h
  obtain ⟨r, hr⟩ := h
  have : (low.drop i)[q]? = some (lc044 x) := by
    rw [← hr, List.getElem?_append_left (by
      have := (List.getElem?_eq_some_iff.mp hx).1
      simpa using this)]
    simp [hx]
  rwa [List.getElem?_drop] at this

/-- two names lying over the same text position with the text's lower case agree there, when they are `compat044` -/
theorem compat_char {n m low : Str} {fi fj : Nat} (hc : compat044 n m = true)
    (hn : (n.map lc044).isPrefixOf (low.drop fi) = true) (hm : (m.map lc044).isPrefixOf (low.drop fj) = true)
    (j k : Nat) (hpos : fi + j = fj + k) (x y : Char) (hx : n[j]? = some x) (hy : m[k]? = some y) : x = y := by
  unfold compat044 at hc
  simp only [Bool.and_eq_true, List.all_eq_true, List.mem_range] at hc
  have hjl : j < n.length := (List.getElem?_eq_some_iff.mp hx).1
  have hkl : k < m.length := (List.getElem?_eq_some_iff.mp hy).1
  by_cases hle : fi ≤ fj
  · -- `m` starts inside `n` at offset `d`
    have hd : fj - fi < n.length := by omega
    have ho := hc.1 (fj - fi) hd
    unfold overlapOk at ho
    have hag : agreeLc (n.drop (fj - fi)) m = true := by
      apply agreeLc_of_get
      intro q a b ha hb
      rw [List.getElem?_drop] at ha
      have h1 := prefix_get hn _ a ha
      have h2 := prefix_get hm _ b hb
      have : fi + (fj - fi + q) = fj + q := by omega
      rw [this, h2] at h1
      exact (Option.some.inj h1).symm
    rw [hag] at ho
    simp only [Bool.not_true, Bool.false_or] at ho
    have hx' : (n.drop (fj - fi))[k]? = some x := by
      rw [List.getElem?_drop]
      have : fj - fi + k = j := by omega
      rw [this]; exact hx
    exact agreeEq_get _ _ ho k x y hx' hy
  · have hd : fi - fj < m.length := by omega
    have ho := hc.2 (fi - fj) hd
    unfold overlapOk at ho
    have hag : agreeLc n (m.drop (fi - fj)) = true := by
      apply agreeLc_of_get
      intro q a b ha hb
      rw [List.getElem?_drop] at hb
      have h1 := prefix_get hn _ a ha
      have h2 := prefix_get hm _ b hb
      have : fj + (fi - fj + q) = fi + q := by omega
      rw [this, h1] at h2
      exact Option.some.inj h2
    rw [hag] at ho
    simp only [Bool.not_true, Bool.false_or] at ho
    have hy' : (m.drop (fi - fj))[j]? = some y := by
      rw [List.getElem?_drop]
      have : fi - fj + j = k := by omega
      rw [this]; exact hy
    exact agreeEq_get _ _ ho j x y hx hy'

/-! ## the search of the fixed string finds nothing -/
structure FixCtx (s : Str) (names : List Str) (items : List Hit044) : Prop where
  simple : simpleS s = true
  namesSimple : ∀ n ∈ names, simpleS n = true
  compat : compatAll044 names = true
  good : ∀ h ∈ items, GoodHit s (lowerS s) names h

theorem sliceAt_get (s : Str) (i n j : Nat) : (sliceAt s i n)[j]? = if j < n then s[i + j]? else none := by
  unfold sliceAt
  by_cases h : j < n
  · rw [List.getElem?_take_of_lt h, List.getElem?_drop, if_pos h]
  · rw [if_neg h, List.getElem?_take_eq_none (by omega)]

theorem compatAll_mem {names : List Str} (h : compatAll044 names = true) {a b : Str} (ha : a ∈ names) (hb : b ∈ names) :
    compat044 a b = true := by
  unfold compatAll044 at h
  rw [List.all_eq_true] at h
  have := h a ha
  rw [List.all_eq_true] at this
  exact this b hb

theorem FixCtx.inText {s : Str} {names : List Str} {items : List Hit044} (cx : FixCtx s names items) :
    ∀ h ∈ items, InText s h := fun h hh => (cx.good h hh).inText cx.simple cx.namesSimple

theorem FixCtx.inv {s : Str} {names : List Str} {items : List Hit044} (cx : FixCtx s names items) :
    (applyHits s items).length = s.length ∧ (applyHits s items).map lc044 = s.map lc044 :=
  applyHits_inv s items s cx.inText rfl rfl

/-- a standalone candidate that was right stays right, one that was wrong has been replaced — and no other replacement spoils it -/
theorem cand_fixed {s : Str} {names : List Str} {items : List Hit044} (cx : FixCtx s names items) (n : Str) (hn : n ∈ names) (fi : Nat)
    (hpre : (lowerS n).isPrefixOf ((lowerS s).drop fi) = true)
    (hcase : sliceAt s fi n.length = n ∨ ∃ it ∈ items, it.idx = fi ∧ it.cap = n) :
    sliceAt (applyHits s items) fi n.length = n := by
  rw [lowerS_simple cx.simple, lowerS_simple (cx.namesSimple n hn)] at hpre
  apply List.ext_getElem?
  intro j
  rw [sliceAt_get]
  by_cases hj : j < n.length
  · rw [if_pos hj]
    have hx : n[j]? = some n[j] := List.getElem?_eq_getElem hj
    rw [hx]
    have hlow := prefix_get hpre j _ hx
    have hlt : fi + j < s.length := by
      have := (List.getElem?_eq_some_iff.mp hlow).1
      simpa using this
    rcases applyHits_get s items s (fun h hh => (cx.inText h hh).1) rfl (fi + j) with ⟨it, hit, hcov, he⟩ | ⟨hnone, he⟩
    · rw [he]
      have hk : fi + j - it.idx < it.cap.length := by unfold Covers at hcov; omega
      have hy : it.cap[fi + j - it.idx]? = some it.cap[fi + j - it.idx] := List.getElem?_eq_getElem hk
      rw [hy]
      congr 1
      have hg := cx.good it hit
      have hp2 := hg.pre
      rw [lowerS_simple cx.simple, lowerS_simple (cx.namesSimple _ hg.mem)] at hp2
      have := compat_char (compatAll_mem cx.compat hn hg.mem) hpre hp2 j (fi + j - it.idx)
        (by unfold Covers at hcov; omega) _ _ hx hy
      exact this.symm
    · rw [he]
      rcases hcase with hsl | ⟨it, hit, h1, h2⟩
      · have := sliceAt_get s fi n.length j
        rw [hsl, if_pos hj] at this
        rw [← this, hx]
      · exfalso
        apply hnone it hit
        unfold Covers
        rw [h1, h2]; omega
  · rw [if_neg hj, List.getElem?_eq_none (by omega)]

theorem getElem?_of_map_eq {a b : Str} (h : a.map lc044 = b.map lc044) (j : Nat) :
    (a[j]? = none ∧ b[j]? = none) ∨ ∃ x y, a[j]? = some x ∧ b[j]? = some y ∧ lc044 x = lc044 y := by
  have := congrArg (fun l => l[j]?) h
  simp only [List.getElem?_map] at this
  cases ha : a[j]? with
  | none => rw [ha] at this; cases hb : b[j]? with
    | none => left; exact ⟨rfl, rfl⟩
    | some y => rw [hb] at this; cases this
  | some x =>
    rw [ha] at this
    cases hb : b[j]? with
    | none => rw [hb] at this; cases this
    | some y => rw [hb] at this; right; exact ⟨x, y, rfl, rfl, by simpa using this⟩

/-- the neighbours keep their `isalnum` class -/
theorem alnum_get_eq {a b : Str} (ha : simpleS a = true) (hb : simpleS b = true) (h : a.map lc044 = b.map lc044) (j : Nat) :
    a[j]?.map isAlnum044 = b[j]?.map isAlnum044 := by
  rcases getElem?_of_map_eq h j with ⟨h1, h2⟩ | ⟨x, y, h1, h2, h3⟩
  · rw [h1, h2]
  · rw [h1, h2]
    simp only [Option.map_some, Option.some.injEq]
    exact isAlnum_of_lc_eq (simpleS_getElem? ha h1) (simpleS_getElem? hb h2) h3

theorem beforeAlnum_eq {a b : Str} (ha : simpleS a = true) (hb : simpleS b = true) (h : a.map lc044 = b.map lc044) (fi : Nat) :
    beforeAlnum a fi = beforeAlnum b fi := by
  unfold beforeAlnum
  split
  · exact alnum_get_eq ha hb h _
  · rfl

theorem afterAlnum_eq {a b : Str} (ha : simpleS a = true) (hb : simpleS b = true) (h : a.map lc044 = b.map lc044) (k : Nat) :
    afterAlnum a k = afterAlnum b k := by
  unfold afterAlnum
  have := alnum_get_eq ha hb h k
  cases h1 : a[k]? <;> cases h2 : b[k]? <;> rw [h1, h2] at this <;> simp_all

theorem FixCtx.simple' {s : Str} {names : List Str} {items : List Hit044} (cx : FixCtx s names items) :
    simpleS (applyHits s items) = true :=
  applyHits_all simpleC items s cx.simple (fun h hh => cx.namesSimple _ (cx.good h hh).mem)

theorem check044_fixed {s : Str} {names : List Str} {items : List Hit044} (cx : FixCtx s names items) (n : Str) (hn : n ∈ names)
    (fi : Nat) (hpre : (lowerS n).isPrefixOf ((lowerS s).drop fi) = true) (dl dc dl' dc' : Int) (h1 : List Hit044)
    (hold : check044 s fi n dl dc = .ok h1) (hsub : ∀ h ∈ h1, h ∈ items) :
    check044 (applyHits s items) fi n dl' dc' = .ok [] := by
  have hb := beforeAlnum_eq cx.simple' cx.simple cx.inv.2 fi
  have ha := afterAlnum_eq cx.simple' cx.simple cx.inv.2 (fi + n.length)
  unfold check044 at hold ⊢
  rw [hb, ha]
  split at hold
  · cases hold
  · rename_i before hbv
    split at hold
    · rename_i h; rw [if_pos h]
    · rename_i h
      rw [if_neg h]
      split at hold
      · rename_i h; rw [if_pos h]
      · rename_i h
        rw [if_neg h]
        split at hold
        · rename_i hsl
          rw [if_pos (cand_fixed cx n hn fi hpre (Or.inl hsl))]
        · split at hold
          · cases hold
          · cases hold
            have := hsub _ List.mem_cons_self
            rw [if_pos (cand_fixed cx n hn fi hpre (Or.inr ⟨_, this, rfl, rfl⟩))]

theorem nameLoop044_fixed {s : Str} {names : List Str} {items : List Hit044} (cx : FixCtx s names items) (n : Str) (hn : n ∈ names)
    (sl sx sy sl' sx' sy' : Int) (hsl : sl' ≤ 0) :
    ∀ (fuel start : Nat) (hs : List Hit044), nameLoop044 s (lowerS s) n sl sx sy fuel start = .ok hs → (∀ h ∈ hs, h ∈ items) →
      nameLoop044 (applyHits s items) (lowerS s) n sl' sx' sy' fuel start = .ok [] := by
  intro fuel
  induction fuel with
  | zero => intro start hs h; simp [nameLoop044] at h
  | succ fuel ih =>
    intro start hs h hsub
    unfold nameLoop044 at h ⊢
    split at h
    · rfl
    · rename_i fi hf
      obtain ⟨p, hp⟩ := posAdj044_ok (lowerS s) start fi sl' sx' sy' hsl
      rw [hp]
      split at h
      · cases h
      · rename_i dl dc _
        split at h
        · cases h
        · rename_i h1 hc
          split at h
          · cases h
          · rename_i hs2 hr
            cases h
            obtain ⟨_, _, hpre⟩ := findSub_some _ _ _ _ hf
            have := check044_fixed cx n hn fi hpre dl dc p.1 p.2 h1 hc (fun x hx => hsub x (List.mem_append_left _ hx))
            simp only [this]
            rw [ih _ _ hr (fun x hx => hsub x (List.mem_append_right _ hx))]
            rfl

theorem searchNames044_fixed_go {s : Str} {names : List Str} {items : List Hit044} (cx : FixCtx s names items)
    (sl sx sy sl' sx' sy' : Int) (hsl : sl' ≤ 0) :
    ∀ (ns : List Str) (hs : List Hit044), (∀ n ∈ ns, n ∈ names) → searchNames044 s (lowerS s) sl sx sy ns = .ok hs →
      (∀ h ∈ hs, h ∈ items) → searchNames044 (applyHits s items) (lowerS s) sl' sx' sy' ns = .ok [] := by
  intro ns
  induction ns with
  | nil => intros; rfl
  | cons n ns ih =>
    intro hs hsub h hitems
    unfold searchNames044 at h ⊢
    split at h
    · cases h
    · rename_i h1 hl
      split at h
      · cases h
      · rename_i h2 hr
        cases h
        rw [nameLoop044_fixed cx n (hsub n List.mem_cons_self) sl sx sy sl' sx' sy' hsl _ _ _ hl
          (fun x hx => hitems x (List.mem_append_left _ hx))]
        simp only
        rw [ih h2 (fun m hm => hsub m (List.mem_cons_of_mem _ hm)) hr (fun x hx => hitems x (List.mem_append_right _ hx))]
        rfl

/-- STRING-LEVEL H1: replace every hit of a search in the searched string — the same search (any offsets) then finds nothing -/
theorem searchNames044_fixed (s : Str) (names : List Str) (items : List Hit044) (sl sx sy sl' sx' sy' : Int) (hsl : sl' ≤ 0)
    (hs : simpleS s = true) (hn : ∀ n ∈ names, simpleS n = true) (hc : compatAll044 names = true)
    (h : searchNames044 s (lowerS s) sl sx sy names = .ok items) :
    searchNames044 (applyHits s items) (lowerS (applyHits s items)) sl' sx' sy' names = .ok [] := by
  have cx : FixCtx s names items := ⟨hs, hn, hc, searchNames044_good s (lowerS s) sl sx sy names names items (fun _ h => h) h⟩
  rw [lowerS_simple cx.simple', cx.inv.2, ← lowerS_simple hs]
  exact searchNames044_fixed_go cx sl sx sy sl' sx' sy' hsl names items (fun _ h => h) h (fun _ h => h)

end Verif.Model.TokenRules
