import Verif.Lemmas.TokenRules.Md037Scan
/-!
  MD037 — the scan as "the reports of the pairs that close": which pairs close (`closedGo037`, `specPairs037`) does not depend on the
  two conditions of `__check`; the reports are those of the closed pairs in order (`repAll037`).
-/
namespace Verif.Model.TokenRules
open Verif.Model

theorem pairsGo037_eq (c1 c2 : Emph037 → Emph037 → Bool) : ∀ (es st : List Emph037),
    pairsGo037 c1 c2 st es =
      match repAll037 c1 c2 (closedGo037 st es).2 with
      | .error x => .error x
      | .ok rs => .ok ((closedGo037 st es).1, rs) := by
  intro es
  induction es with
  | nil => intro st; cases st <;> rfl
  | cons e es ih =>
    intro st
    cases st with
    | nil => rw [pairsGo037, closedGo037, ih]
    | cons b rest =>
      rw [pairsGo037, closedGo037]
      by_cases hm : b.ch = e.ch ∧ b.len = e.len
      · rw [if_pos hm, if_pos hm, repAll037]
        dsimp only
        cases pairReports037 c1 c2 b e with
        | error x => rfl
        | ok r =>
          dsimp only
          rw [ih]
          cases repAll037 c1 c2 (closedGo037 rest es).2 with
          | error x => rfl
          | ok rs => rfl
      · rw [if_neg hm, if_neg hm, ih]

theorem repAll037_append (c1 c2 : Emph037 → Emph037 → Bool) : ∀ (p q : List (Emph037 × Emph037)),
    repAll037 c1 c2 (p ++ q) =
      match repAll037 c1 c2 p with
      | .error x => .error x
      | .ok r =>
        match repAll037 c1 c2 q with
        | .error x => .error x
        | .ok r' => .ok (r ++ r') := by
  intro p
  induction p with
  | nil =>
    intro q
    rw [List.nil_append, repAll037]
    cases repAll037 c1 c2 q with
    | error x => rfl
    | ok r => rfl
  | cons x p ih =>
    intro q
    rw [List.cons_append, repAll037, repAll037, ih]
    cases pairReports037 c1 c2 x.1 x.2 with
    | error e => rfl
    | ok r =>
      dsimp only
      cases repAll037 c1 c2 p with
      | error e => rfl
      | ok rs =>
        dsimp only
        cases repAll037 c1 c2 q with
        | error e => rfl
        | ok rs' => simp [List.append_assoc]

theorem specPairs037_cons (cur : Option (List Emph037)) (i : Nat) (t : Tok2) (ts : List Tok2) :
    specPairs037 cur i (t :: ts) =
      if isBlockStart037 t.kind then specPairs037 (some []) (i + 1) ts
      else if isBlockEnd037 t.kind then specPairs037 none (i + 1) ts
      else
        match cur with
        | some st =>
          if t.kind = .text then
            (closedGo037 st ((eligibles037 t.text).map (mkEmph037 i t.text t.line t.col))).2 ++
              specPairs037 (some (closedGo037 st ((eligibles037 t.text).map (mkEmph037 i t.text t.line t.col))).1) (i + 1) ts
          else specPairs037 cur (i + 1) ts
        | none => specPairs037 none (i + 1) ts := by
  rfl

theorem specGo037_eq (c1 c2 : Emph037 → Emph037 → Bool) : ∀ (ts : List Tok2) (cur : Option (List Emph037)) (i : Nat),
    specGo037 c1 c2 cur i ts = repAll037 c1 c2 (specPairs037 cur i ts) := by
  intro ts
  induction ts with
  | nil => intro cur i; rfl
  | cons t ts ih =>
    intro cur i
    rw [specGo037_cons, specPairs037_cons]
    by_cases h1 : isBlockStart037 t.kind = true
    · rw [if_pos h1, if_pos h1, ih]
    · rw [if_neg h1, if_neg h1]
      by_cases h2 : isBlockEnd037 t.kind = true
      · rw [if_pos h2, if_pos h2, ih]
      · rw [if_neg h2, if_neg h2]
        cases cur with
        | none => dsimp only; rw [ih]
        | some st =>
          dsimp only
          by_cases h3 : t.kind = .text
          · rw [if_pos h3, if_pos h3, pairsGo037_eq, repAll037_append]
            cases repAll037 c1 c2 (closedGo037 st ((eligibles037 t.text).map (mkEmph037 i t.text t.line t.col))).2 with
            | error x => rfl
            | ok rs => dsimp only; rw [ih]; rfl
          · rw [if_neg h3, if_neg h3, ih]

/-- the scan of a stream: the reports of its closed pairs, in the order they close -/
theorem scan037_pairs (toks : List Tok2) : scan2 md037 () toks = repAll037 firstCond037 secondCond037 (closedPairs037 toks) := by
  rw [scan037_eq_spec]; exact specGo037_eq _ _ toks none 0

theorem repAll037_congr (c1 c2 c1' c2' : Emph037 → Emph037 → Bool) : ∀ (ps : List (Emph037 × Emph037)),
    (∀ p ∈ ps, c1 p.1 p.2 = c1' p.1 p.2 ∧ c2 p.1 p.2 = c2' p.1 p.2) → repAll037 c1 c2 ps = repAll037 c1' c2' ps := by
  intro ps
  induction ps with
  | nil => intro _; rfl
  | cons p ps ih =>
    intro h
    obtain ⟨e1, e2⟩ := h p List.mem_cons_self
    rw [repAll037, repAll037, ih (fun q hq => h q (List.mem_cons_of_mem _ hq))]
    unfold pairReports037
    rw [e1, e2]

/-! ## every run of a closed pair comes from a text token of the stream -/

theorem closedGo037_all (P : Emph037 → Prop) : ∀ (es st : List Emph037), (∀ e ∈ st, P e) → (∀ e ∈ es, P e) →
    (∀ e ∈ (closedGo037 st es).1, P e) ∧ ∀ p ∈ (closedGo037 st es).2, P p.1 ∧ P p.2 := by
  intro es
  induction es with
  | nil => intro st hs _; cases st <;> exact ⟨hs, by intro p hp; cases hp⟩
  | cons e es ih =>
    intro st hs he
    have hes : ∀ x ∈ es, P x := fun x hx => he x (List.mem_cons_of_mem _ hx)
    have hpe : P e := he e List.mem_cons_self
    cases st with
    | nil =>
      rw [closedGo037]
      exact ih [e] (by intro x hx; simp only [List.mem_singleton] at hx; rw [hx]; exact hpe) hes
    | cons b rest =>
      rw [closedGo037]
      by_cases hm : b.ch = e.ch ∧ b.len = e.len
      · rw [if_pos hm]
        have := ih rest (fun x hx => hs x (List.mem_cons_of_mem _ hx)) hes
        refine ⟨this.1, ?_⟩
        intro p hp
        rcases List.mem_cons.mp hp with h | h
        · rw [h]; exact ⟨hs b List.mem_cons_self, hpe⟩
        · exact this.2 p h
      · rw [if_neg hm]
        exact ih (e :: b :: rest) (by
          intro x hx
          rcases List.mem_cons.mp hx with h | h
          · rw [h]; exact hpe
          · exact hs x h) hes

theorem specPairs037_all (P : Emph037 → Prop) : ∀ (ts : List Tok2) (cur : Option (List Emph037)) (i : Nat),
    (∀ t ∈ ts, t.kind = .text → ∀ j f, P (mkEmph037 j t.text t.line t.col f)) → (∀ st, cur = some st → ∀ e ∈ st, P e) →
    ∀ p ∈ specPairs037 cur i ts, P p.1 ∧ P p.2 := by
  intro ts
  induction ts with
  | nil => intro cur i _ _ p hp; cases hp
  | cons t ts ih =>
    intro cur i ht hc p hp
    have hts : ∀ t' ∈ ts, t'.kind = .text → ∀ j f, P (mkEmph037 j t'.text t'.line t'.col f) :=
      fun t' h' => ht t' (List.mem_cons_of_mem _ h')
    rw [specPairs037_cons] at hp
    by_cases h1 : isBlockStart037 t.kind = true
    · rw [if_pos h1] at hp
      exact ih (some []) (i + 1) hts (by intro st hst e he; cases hst; cases he) p hp
    · rw [if_neg h1] at hp
      by_cases h2 : isBlockEnd037 t.kind = true
      · rw [if_pos h2] at hp
        exact ih none (i + 1) hts (by intro st hst; cases hst) p hp
      · rw [if_neg h2] at hp
        cases cur with
        | none => exact ih none (i + 1) hts (by intro st hst; cases hst) p hp
        | some st =>
          dsimp only at hp
          by_cases h3 : t.kind = .text
          · rw [if_pos h3] at hp
            have hcl := closedGo037_all P ((eligibles037 t.text).map (mkEmph037 i t.text t.line t.col)) st (hc st rfl) (by
              intro e he
              obtain ⟨f, _, rfl⟩ := List.mem_map.mp he
              exact ht t List.mem_cons_self h3 i f)
            rcases List.mem_append.mp hp with h | h
            · exact hcl.2 p h
            · exact ih _ (i + 1) hts (by intro st' hst'; cases hst'; exact hcl.1) p h
          · rw [if_neg h3] at hp
            exact ih (some st) (i + 1) hts hc p hp

/-! ## texts without characters of the marker codec -/

/-- no U+0008, U+0007, U+0005 -/
def Plain037 (s : Str) : Prop := Codec.BS ∉ s ∧ Codec.AL ∉ s ∧ Codec.ESC ∉ s

theorem removeAll_plain037 (s : Str) (h : Plain037 s) : Codec.removeAll s = .ok s := by
  have g : ∀ (c : Char), c ∉ s → ∀ i, s[i]? = some c → 0 < i ∧ s[i - 1]? = some Codec.ESC :=
    fun c hc i hi => absurd (List.mem_of_getElem? hi) hc
  unfold Codec.removeAll Codec.removeAllN Codec.removeBackspaces Codec.resolveReplacementMarkers Codec.resolveEscapes
  rw [Verif.Lemmas.Codec.cutAll_guarded Codec.BS false 0 s (g _ h.1)]
  show (do let b ← Codec.replAll false s; let c ← (pure b : Codec.Res); Codec.cutAll Codec.ESC false 1 c) = _
  rw [Verif.Lemmas.Codec.replAll_guarded false s (g _ h.2.1)]
  show Codec.cutAll Codec.ESC false 1 s = _
  exact Verif.Lemmas.Codec.cutAll_guarded Codec.ESC false 1 s (g _ h.2.2)

theorem Plain037.take {s : Str} (h : Plain037 s) (n : Nat) : Plain037 (s.take n) :=
  ⟨fun hm => h.1 (List.mem_of_mem_take hm), fun hm => h.2.1 (List.mem_of_mem_take hm), fun hm => h.2.2 (List.mem_of_mem_take hm)⟩

theorem report037_plain (e : Emph037) (adjust : Int) (h : Plain037 e.text) : report037 e adjust = .ok (plainPos037 e adjust) := by
  unfold report037
  rw [removeAll_plain037 _ (h.take e.start)]
  rfl

/-- the reports of one closed pair in plain text -/
def plainPair037 (p : Emph037 × Emph037) : List Report :=
  (if firstCond037 p.1 p.2 then [plainPos037 p.1 p.2.len] else []) ++ (if secondCond037 p.1 p.2 then [plainPos037 p.2 (-1)] else [])

theorem repAll037_plain : ∀ (ps : List (Emph037 × Emph037)), (∀ p ∈ ps, Plain037 p.1.text ∧ Plain037 p.2.text) →
    repAll037 firstCond037 secondCond037 ps = .ok (ps.flatMap plainPair037) := by
  intro ps
  induction ps with
  | nil => intro _; rfl
  | cons p ps ih =>
    intro h
    obtain ⟨h1, h2⟩ := h p List.mem_cons_self
    rw [repAll037, ih (fun q hq => h q (List.mem_cons_of_mem _ hq))]
    unfold pairReports037
    rw [report037_plain p.1 _ h1, report037_plain p.2 _ h2]
    simp only [List.flatMap_cons, plainPair037]
    by_cases c1 : firstCond037 p.1 p.2 = true <;> by_cases c2 : secondCond037 p.1 p.2 = true <;> simp [c1, c2, Except.map]

end Verif.Model.TokenRules
