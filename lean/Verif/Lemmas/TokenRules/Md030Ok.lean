import Verif.Lemmas.TokenRules.Md030Fix
import Verif.Lemmas.TokenRules.Md030Lead
/-!
  MD030 over `Tok2`: the fix does not raise on a stream that satisfies `wf030` (list ends name their starts …) and `cover030`
  (the tracker's line counts stay inside `leading_spaces`); under `wf030` alone the only possible exception is the `IndexError` of
  `__next_token_list_end_registrations`.
-/
namespace Verif.Model.TokenRules

/-! ## dict lemmas -/
theorem dictGet_dictSet_same030 {α : Type} (k : Nat) (v : α) : ∀ (d : List (Nat × α)), dictGet030 k (dictSet030 k v d) = some v := by
  intro d
  induction d with
  | nil => simp [dictSet030, dictGet030]
  | cons p d ih =>
    obtain ⟨k', v'⟩ := p
    unfold dictSet030
    by_cases h : k' = k
    · simp [h, dictGet030]
    · simp [h, dictGet030, ih]

theorem dictGet_dictSet_ne030 {α : Type} (k k' : Nat) (v : α) (hne : k' ≠ k) : ∀ (d : List (Nat × α)),
    dictGet030 k (dictSet030 k' v d) = dictGet030 k d := by
  intro d
  induction d with
  | nil => simp [dictSet030, dictGet030, hne]
  | cons p d ih =>
    obtain ⟨k'', v''⟩ := p
    unfold dictSet030
    by_cases h : k'' = k'
    · subst h
      simp [dictGet030, hne]
    · simp only [h, ↓reduceIte, dictGet030]
      rw [ih]

theorem dictSet_keys030 {α : Type} (k : Nat) (v : α) : ∀ (d : List (Nat × α)) (x : Nat × α), x ∈ dictSet030 k v d → x.1 = k ∨ x ∈ d := by
  intro d
  induction d with
  | nil => intro x hx; simp only [dictSet030, List.mem_singleton] at hx; subst hx; exact .inl rfl
  | cons p d ih =>
    intro x hx
    obtain ⟨k', v'⟩ := p
    unfold dictSet030 at hx
    split at hx
    · rcases List.mem_cons.mp hx with hx | hx
      · subst hx; exact .inl rfl
      · exact .inr (List.mem_cons_of_mem _ hx)
    · rcases List.mem_cons.mp hx with hx | hx
      · subst hx; exact .inr List.mem_cons_self
      · rcases ih x hx with h | h
        · exact .inl h
        · exact .inr (List.mem_cons_of_mem _ h)

/-! ## the tracker part of a level -/
structure FrOk030 (all : List Tok2) (fr : Fr030f) : Prop where
  starts : ∀ p ∈ fr.ents, (dictGet030 p.1 fr.starts).isSome = true
  ends : ∀ p ∈ fr.ents, p.1 ≠ fr.cur → ∃ b, dictGet030 p.1 fr.ends = some b ∧ b ≤ fr.lineCount
  head : ∃ p0 rest t0, fr.ents = p0 :: rest ∧ all[p0.1]? = some t0 ∧ (t0.kind = .ulist ∨ t0.kind = .olist)

def StOk030 (all : List Tok2) (s : St030f) : Prop := ∀ fr ∈ s.stack, FrOk030 all fr

theorem FrOk030.addLines030 {all : List Tok2} {fr : Fr030f} (h : FrOk030 all fr) (n : Nat) :
    FrOk030 all { fr with lineCount := fr.lineCount + n } :=
  ⟨h.starts, fun p hp hne => by
    obtain ⟨b, h1, h2⟩ := h.ends p hp hne
    exact ⟨b, h1, Nat.le_trans h2 (Nat.le_add_right _ _)⟩, h.head⟩

theorem stOk_addLines030 (all : List Tok2) (n : Nat) (st : List Fr030f) (h : ∀ fr ∈ st, FrOk030 all fr) :
    ∀ fr ∈ addLines030 n st, FrOk030 all fr := by
  cases st with
  | nil => intro fr hfr; cases hfr
  | cons a rest =>
    intro fr hfr
    simp only [Verif.Model.TokenRules.addLines030, List.mem_cons] at hfr
    rcases hfr with hfr | hfr
    · subst hfr; exact (h a List.mem_cons_self).addLines030 n
    · exact h fr (List.mem_cons_of_mem _ hfr)

theorem StOk030.track {all : List Tok2} {s : St030f} (h : StOk030 all s) (t : Tok2) : StOk030 all (track030 s t) := by
  unfold StOk030 track030
  simp only
  split
  · exact stOk_addLines030 all 1 _ h
  · exact stOk_addLines030 all _ _ h

theorem bumpLastF_head030 (es : List (Nat × Ent030)) (p0 : Nat × Ent030) (rest : List (Nat × Ent030)) (h : es = p0 :: rest) :
    ∃ q0 rest', bumpLastF030 es = q0 :: rest' ∧ q0.1 = p0.1 := by
  subst h
  cases rest with
  | nil => exact ⟨_, [], rfl, rfl⟩
  | cons q qs => exact ⟨p0, _, rfl, rfl⟩

theorem StOk030.step {all : List Tok2} {s s' : St030f} {i : Nat} {t : Tok2} (hS : StOk030 all s) (ht : all[i]? = some t)
    (h : step030f s i t = .ok s') : StOk030 all s' := by
  cases hc : cls030 t.kind with
  | start =>
    rw [step030f_start s i t hc] at h
    cases h
    apply StOk030.track
    intro fr hfr
    simp only [listStart030f, List.mem_cons] at hfr
    rcases hfr with hfr | hfr
    · subst hfr
      refine ⟨?_, ?_, ⟨entOf030 i t, [], t, rfl, ht, cls_start_kind030 t hc⟩⟩
      · intro p hp
        simp only [List.mem_singleton] at hp
        subst hp
        simp [entOf030, dictGet030]
      · intro p hp hne
        simp only [List.mem_singleton] at hp
        subst hp
        exact absurd rfl hne
    · exact hS fr hfr
  | stop =>
    rw [step030f_stop s i t hc] at h
    cases hs : s.stack with
    | nil => rw [hs] at h; cases h
    | cons fr rest =>
      rw [hs] at h
      cases h
      apply StOk030.track
      intro fr' hfr'
      exact hS fr' (by rw [hs]; exact List.mem_cons_of_mem _ hfr')
  | item =>
    rw [step030f_item s i t hc] at h
    cases hs : s.stack with
    | nil => rw [hs] at h; cases h
    | cons fr rest =>
      rw [hs] at h
      cases h
      apply StOk030.track
      intro fr' hfr'
      simp only [List.mem_cons] at hfr'
      rcases hfr' with hfr' | hfr'
      · subst hfr'
        have hfr := hS fr (by rw [hs]; exact List.mem_cons_self)
        refine ⟨?_, ?_, ?_⟩
        · intro p hp
          simp only [newItem030f, List.mem_append, List.mem_singleton] at hp ⊢
          rcases hp with hp | hp
          · by_cases hpi : i = p.1
            · rw [hpi, dictGet_dictSet_same030]; rfl
            · rw [dictGet_dictSet_ne030 _ _ _ hpi]; exact hfr.starts p hp
          · subst hp
            simp [entOf030, dictGet_dictSet_same030]
        · intro p hp hne
          simp only [newItem030f, List.mem_append, List.mem_singleton] at hp hne ⊢
          rcases hp with hp | hp
          · by_cases hpc : fr.cur = p.1
            · rw [hpc, dictGet_dictSet_same030]
              exact ⟨_, rfl, Nat.le_refl _⟩
            · rw [dictGet_dictSet_ne030 _ _ _ hpc]
              exact hfr.ends p hp (fun e => hpc e.symm)
          · subst hp
            exact absurd rfl hne
        · obtain ⟨p0, rest0, t0, h1, h2, h3⟩ := hfr.head
          exact ⟨p0, rest0 ++ [entOf030 i t], t0, by simp [newItem030f, h1], h2, h3⟩
      · exact hS fr' (by rw [hs]; exact List.mem_cons_of_mem _ hfr')
  | para =>
    rw [step030f_para s i t hc] at h
    cases hs : s.stack with
    | nil =>
      rw [hs] at h
      cases h
      exact hS.track t
    | cons fr rest =>
      rw [hs] at h
      cases h
      apply StOk030.track
      intro fr' hfr'
      simp only [List.mem_cons] at hfr'
      rcases hfr' with hfr' | hfr'
      · subst hfr'
        have hfr := hS fr (by rw [hs]; exact List.mem_cons_self)
        refine ⟨?_, ?_, ?_⟩
        · intro p hp
          obtain ⟨q, hq, h1, _⟩ := bumpLastF_mem030 _ p hp
          simp only
          rw [h1]; exact hfr.starts q hq
        · intro p hp hne
          obtain ⟨q, hq, h1, _⟩ := bumpLastF_mem030 _ p hp
          simp only at hne ⊢
          rw [h1] at hne ⊢
          exact hfr.ends q hq hne
        · obtain ⟨p0, rest0, t0, h1, h2, h3⟩ := hfr.head
          obtain ⟨q0, rest', h4, h5⟩ := bumpLastF_head030 fr.ents p0 rest0 h1
          exact ⟨q0, rest', t0, h4, by rw [h5]; exact h2, h3⟩
      · exact hS fr' (by rw [hs]; exact List.mem_cons_of_mem _ hfr')
  | other =>
    rw [step030f_other s i t hc] at h
    cases h
    exact hS.track t

/-! ## one closing -/
/-- the end token names the start token of the level it closes -/
def ClWf030 (cl : Fr030f × Tok2) : Prop := ∃ p, cl.1.ents.head? = some p ∧ cl.2.startIdx = some p.1

/-- the level's line count stays inside the `leading_spaces` of the token the end token names -/
def ClCover030 (all : List Tok2) (cl : Fr030f × Tok2) : Prop :=
  ∀ j lt n, cl.2.startIdx = some j → all[j]? = some lt → leadLines030 lt = some n → cl.1.lineCount ≤ n

theorem regMap030_keys : ∀ (vs : List (Nat × Ent030 × Int)) (d : List (Nat × Int)) (x : Nat × Int),
    x ∈ vs.foldl (fun d v => dictSet030 v.1 v.2.2 d) d → x ∈ d ∨ ∃ v ∈ vs, v.1 = x.1 := by
  intro vs
  induction vs with
  | nil => intro d x hx; exact .inl hx
  | cons v vs ih =>
    intro d x hx
    simp only [List.foldl_cons] at hx
    rcases ih _ x hx with h | ⟨w, hw, hwx⟩
    · rcases dictSet_keys030 _ _ d x h with h' | h'
      · exact .inr ⟨v, List.mem_cons_self, h'.symm⟩
      · exact .inl h'
    · exact .inr ⟨w, List.mem_cons_of_mem _ hw, hwx⟩

/-- the loop over the registrations: no `KeyError`; no `IndexError` either when the end indices stay inside the lines -/
theorem regsGo030_ok (fr : Fr030f) (bound : Nat) :
    ∀ (regs : List (Nat × Int)) (ls : List Str),
      (∀ r ∈ regs, ∃ a b, startStop030 fr r.1 = .ok (a, b) ∧ b ≤ bound) →
      (bound ≤ ls.length → ∃ ls', regsGo030 fr regs ls = .ok ls') ∧
      ((∃ ls', regsGo030 fr regs ls = .ok ls') ∨ regsGo030 fr regs ls = .error .indexError) := by
  intro regs
  induction regs with
  | nil => intro ls _; exact ⟨fun _ => ⟨ls, rfl⟩, .inl ⟨ls, rfl⟩⟩
  | cons r regs ih =>
    intro ls hr
    obtain ⟨k, adj⟩ := r
    obtain ⟨a, b, hab, hb⟩ := hr (k, adj) List.mem_cons_self
    have hr' : ∀ r ∈ regs, ∃ a b, startStop030 fr r.1 = .ok (a, b) ∧ b ≤ bound :=
      fun r h => hr r (List.mem_cons_of_mem _ h)
    unfold regsGo030
    simp only at hab
    rw [hab]
    simp only
    constructor
    · intro hbound
      have hok : ∃ ls1, adjLines030 adj (b - a) a ls = .ok ls1 ∧ ls1.length = ls.length := by
        by_cases hba : b ≤ a
        · have : b - a = 0 := by omega
          rw [this]
          exact ⟨ls, rfl, rfl⟩
        · exact adjLines030_ok adj (b - a) a ls (by omega)
      obtain ⟨ls1, h1, h2⟩ := hok
      rw [h1]
      simp only
      exact (ih ls1 hr').1 (by omega)
    · cases h1 : adjLines030 adj (b - a) a ls with
      | error e =>
        right
        simp only
        -- the only failure of the line loop is the index
        have : ∀ (n k : Nat) (ls : List Str) e, adjLines030 adj n k ls = .error e → e = .indexError := by
          intro n
          induction n with
          | zero => intro k ls e h; cases h
          | succ n ihn =>
            intro k ls e h
            unfold adjLines030 at h
            split at h
            · exact ihn _ _ e h
            · split at h
              · cases h; rfl
              · split at h
                · exact ihn _ _ e h
                · exact ihn _ _ e h
        rw [this _ _ _ e h1]
      | ok ls1 =>
        simp only
        exact (ih ls1 hr').2

theorem listEnd030f_ok (c : C030) (all : List Tok2) (cl : Fr030f × Tok2) (hF : FrOk030 all cl.1) (hW : ClWf030 cl) :
    (ClCover030 all cl → ∃ o, listEnd030f c true all cl.1 cl.2 = .ok o) ∧
    ((∃ o, listEnd030f c true all cl.1 cl.2 = .ok o) ∨ listEnd030f c true all cl.1 cl.2 = .error .indexError) := by
  obtain ⟨fr, t⟩ := cl
  simp only at hF hW ⊢
  obtain ⟨p0, rest0, t0, hents, ht0, hk0⟩ := hF.head
  obtain ⟨p, hp, hsi⟩ := hW
  simp only [hents, List.head?_cons, Option.some.injEq] at hp
  subst hp
  -- every token of the level has its start and stop after `ListTracker.list_end`
  have hss : ∀ q ∈ fr.ents, ∃ a b, startStop030 { fr with ends := dictSet030 fr.cur fr.lineCount fr.ends } q.1 = .ok (a, b) ∧
      b ≤ fr.lineCount := by
    intro q hq
    unfold startStop030
    simp only
    have h1 := hF.starts q hq
    cases hs : dictGet030 q.1 fr.starts with
    | none => rw [hs] at h1; cases h1
    | some a =>
      simp only
      by_cases hqc : fr.cur = q.1
      · rw [hqc, dictGet_dictSet_same030]
        exact ⟨a, _, rfl, Nat.le_refl _⟩
      · rw [dictGet_dictSet_ne030 _ _ _ hqc]
        obtain ⟨b, hb1, hb2⟩ := hF.ends q hq (fun e => hqc e.symm)
        rw [hb1]
        exact ⟨a, b, rfl, hb2⟩
  have hregs : ∀ r ∈ regMap030 (viol030 c fr.ordered fr.ents), ∃ a b,
      startStop030 { fr with ends := dictSet030 fr.cur fr.lineCount fr.ends } r.1 = .ok (a, b) ∧ b ≤ fr.lineCount := by
    intro r hr
    rcases regMap030_keys _ [] r hr with h | ⟨v, hv, hvr⟩
    · cases h
    · obtain ⟨hv1, _, _⟩ := (mem_viol030 c _ _ v).mp hv
      have := hss (v.1, v.2.1) hv1
      simpa [hvr] using this
  unfold listEnd030f
  simp only [↓reduceIte]
  split
  · exact ⟨fun _ => ⟨_, rfl⟩, .inl ⟨_, rfl⟩⟩
  · unfold regs030
    have hsi' : t.startIdx = some p0.1 := hsi
    simp only [hsi', ht0]
    have hk : ¬ (t0.kind ≠ .ulist ∧ t0.kind ≠ .olist) := by
      rintro ⟨h1, h2⟩
      rcases hk0 with h | h
      · exact h1 h
      · exact h2 h
    simp only [hk, ↓reduceIte]
    cases hld : t0.leading with
    | none => exact ⟨fun _ => ⟨_, rfl⟩, .inl ⟨_, rfl⟩⟩
    | some ld =>
      simp only
      by_cases hemp : ld.isEmpty = true
      · simp only [hemp, ↓reduceIte]
        exact ⟨fun _ => ⟨_, rfl⟩, .inl ⟨_, rfl⟩⟩
      · simp only [hemp, Bool.false_eq_true, ↓reduceIte]
        obtain ⟨g1, g2⟩ := regsGo030_ok { fr with ends := dictSet030 fr.cur fr.lineCount fr.ends } fr.lineCount
          _ (splitOn1 '\n' ld) hregs
        constructor
        · intro hcov
          have hn : leadLines030 t0 = some (splitOn1 '\n' ld).length := by
            unfold leadLines030
            simp [hld, hemp]
          have := hcov p0.1 t0 _ hsi' ht0 hn
          obtain ⟨ls', hls'⟩ := g1 this
          rw [hls']
          by_cases hd : joinWith ['\n'] ls' = ld <;> simp [hd]
        · rcases g2 with ⟨ls', hls'⟩ | herr
          · left
            rw [hls']
            by_cases hd : joinWith ['\n'] ls' = ld <;> simp [hd]
          · right
            rw [herr]

/-! ## all closings of a well-formed stream -/
theorem wfTok030_stop (s : St030f) (t : Tok2) (fr : Fr030f) (rest : List Fr030f) (hc : cls030 t.kind = .stop)
    (hs : s.stack = fr :: rest) (h : wfTok030 s t = true) : ClWf030 (fr, t) := by
  unfold wfTok030 at h
  rcases cls_stop_kind030 t hc with hk | hk <;> rw [hk] at h <;> simp only [hs] at h
  all_goals
    cases hsi : t.startIdx with
    | none => rw [hsi] at h; simp at h
    | some j =>
      cases hh : fr.ents.head? with
      | none => rw [hsi, hh] at h; simp at h
      | some p =>
        rw [hsi, hh] at h
        simp only [decide_eq_true_eq] at h
        exact ⟨p, hh, by subst h; exact hsi⟩

theorem coverTok030_stop (all : List Tok2) (s : St030f) (t : Tok2) (fr : Fr030f) (rest : List Fr030f)
    (hc : cls030 t.kind = .stop) (hs : s.stack = fr :: rest) (h : coverTok030 all s t = true) : ClCover030 all (fr, t) := by
  unfold coverTok030 at h
  intro j lt n hj hlt hn
  simp only at hj ⊢
  rcases cls_stop_kind030 t hc with hk | hk <;> rw [hk] at h <;> simp only [hs, hj, hlt, hn, decide_eq_true_eq] at h <;> exact h

theorem closings_wf030 (all : List Tok2) : ∀ (ts : List Tok2) (s : St030f) (i : Nat), StOk030 all s → all.drop i = ts →
    wfGo030 s i ts = true →
    (∃ s', steps030 s i ts = .ok s') ∧ (∀ cl ∈ closings030 s i ts, FrOk030 all cl.1 ∧ ClWf030 cl) ∧
    (coverGo030 all s i ts = true → ∀ cl ∈ closings030 s i ts, ClCover030 all cl) := by
  intro ts
  induction ts with
  | nil => intro s i _ _ _; exact ⟨⟨s, rfl⟩, (by intro cl h; cases h), (by intro _ cl h; cases h)⟩
  | cons t ts ih =>
    intro s i hS hd hw
    obtain ⟨ht, hd'⟩ := drop_cons_get030 all i t ts hd
    unfold wfGo030 at hw
    simp only [Bool.and_eq_true] at hw
    obtain ⟨hw1, hw2⟩ := hw
    cases hst : step030f s i t with
    | error e => rw [hst] at hw2; cases hw2
    | ok s1 =>
      rw [hst] at hw2
      simp only at hw2
      obtain ⟨⟨s', hs'⟩, ih2, ih3⟩ := ih s1 (i + 1) (hS.step ht hst) hd' hw2
      unfold steps030 closings030 coverGo030
      simp only [hst, Bool.and_eq_true]
      refine ⟨⟨s', hs'⟩, ?_, ?_⟩
      · intro cl hcl
        rcases List.mem_append.mp hcl with hcl | hcl
        · unfold closing030 at hcl
          split at hcl
          · rename_i hc
            cases hs : s.stack with
            | nil => rw [hs] at hcl; cases hcl
            | cons fr rest =>
              rw [hs] at hcl
              simp only [List.mem_singleton] at hcl
              subst hcl
              exact ⟨hS fr (by rw [hs]; exact List.mem_cons_self), wfTok030_stop s t fr rest hc hs hw1⟩
          · cases hcl
        · exact ih2 cl hcl
      · rintro ⟨hc1, hc2⟩ cl hcl
        rcases List.mem_append.mp hcl with hcl | hcl
        · unfold closing030 at hcl
          split at hcl
          · rename_i hc
            cases hs : s.stack with
            | nil => rw [hs] at hcl; cases hcl
            | cons fr rest =>
              rw [hs] at hcl
              simp only [List.mem_singleton] at hcl
              subst hcl
              exact coverTok030_stop all s t fr rest hc hs hc1
          · cases hcl
        · exact ih3 hc2 cl hcl

theorem outs030_ok_of_all (c : C030) (all : List Tok2) : ∀ (cs : List (Fr030f × Tok2)),
    (∀ cl ∈ cs, ∃ o, listEnd030f c true all cl.1 cl.2 = .ok o) → ∃ o, outs030 c true all cs = .ok o := by
  intro cs
  induction cs with
  | nil => intro _; exact ⟨_, rfl⟩
  | cons cl cs ih =>
    intro h
    obtain ⟨o1, h1⟩ := h cl List.mem_cons_self
    obtain ⟨o2, h2⟩ := ih (fun x hx => h x (List.mem_cons_of_mem _ hx))
    unfold outs030
    rw [h1, h2]
    exact ⟨_, rfl⟩

theorem outs030_ok_or_index (c : C030) (all : List Tok2) : ∀ (cs : List (Fr030f × Tok2)),
    (∀ cl ∈ cs, (∃ o, listEnd030f c true all cl.1 cl.2 = .ok o) ∨ listEnd030f c true all cl.1 cl.2 = .error .indexError) →
    (∃ o, outs030 c true all cs = .ok o) ∨ outs030 c true all cs = .error .indexError := by
  intro cs
  induction cs with
  | nil => intro _; exact .inl ⟨_, rfl⟩
  | cons cl cs ih =>
    intro h
    unfold outs030
    rcases h cl List.mem_cons_self with ⟨o1, h1⟩ | h1
    · rw [h1]
      simp only
      rcases ih (fun x hx => h x (List.mem_cons_of_mem _ hx)) with ⟨o2, h2⟩ | h2
      · rw [h2]; exact .inl ⟨_, rfl⟩
      · rw [h2]; exact .inr rfl
    · rw [h1]; exact .inr rfl

end Verif.Model.TokenRules
