import Verif.Lemmas.TokenRules.Md044Step
/-!
  MD044 — which fields of which token kinds a fix step writes (`mayWrite044`), that `_modify_token` accepts them, and that every
  other component of the token is preserved.
-/
namespace Verif.Model.TokenRules

/-- the fields MD044 may request on a token of this kind, in the order of `__apply_replacement_items` -/
def mayWrite044 : Kind → List Field2
  | .text => [.base .tokenText]
  | .codeSpan => [.base .spanText]
  | .lrd => [.linkName, .base .linkNameDebug, .linkTitleRaw, .linkTitle]
  | .link => [.linkTitle, .preLinkTitle, .base .textFromBlocks]
  | .image => [.linkTitle, .base .textFromBlocks]
  | _ => []

/-- everything MD044 never writes -/
def others044 (t : Tok2) : Tok2 :=
  { t with toTok := { t.toTok with text := [] }, linkTitle := none, preLinkTitle := none, linkName := [], titleRaw := [] }

theorem applyNormal044_fields (i : Nat) (s : Str) (items : List PHit044) (f : Field2) (rs : List FixReq2)
    (h : applyNormal044 i s items f = .ok rs) : (rs.map (·.field)).Sublist [f] ∧ ∀ q ∈ rs, ∃ v, q.val = .str v := by
  unfold applyNormal044 at h
  split at h
  · cases h
  · cases h; exact ⟨List.Sublist.refl _, by intro q hq; simp only [List.mem_singleton] at hq; rw [hq]; exact ⟨_, rfl⟩⟩

theorem applyMatching044_fields (i : Nat) (s : Option Str) (items : List PHit044) (p : Part044) (f : Field2) (rs : List FixReq2)
    (h : applyMatching044 i s items p f = .ok rs) : (rs.map (·.field)).Sublist [f] ∧ ∀ q ∈ rs, ∃ v, q.val = .str v := by
  unfold applyMatching044 at h
  split at h
  · cases h
  · split at h
    · cases h; exact ⟨List.nil_sublist _, by intro q hq; cases hq⟩
    · cases h; exact ⟨List.Sublist.refl _, by intro q hq; simp only [List.mem_singleton] at hq; rw [hq]; exact ⟨_, rfl⟩⟩

theorem str_append {a b : List FixReq2} (ha : ∀ q ∈ a, ∃ v, q.val = .str v) (hb : ∀ q ∈ b, ∃ v, q.val = .str v) :
    ∀ q ∈ a ++ b, ∃ v, q.val = .str v := by
  intro q hq
  rcases List.mem_append.mp hq with hq | hq
  · exact ha q hq
  · exact hb q hq

/-- the requests of one step: fields a sublist of `mayWrite044`, values strings -/
theorem applyItems044_fields (i : Nat) (t : Tok2) (items : List PHit044) (rs : List FixReq2)
    (h : applyItems044 i t items = .ok rs) : (rs.map (·.field)).Sublist (mayWrite044 t.kind) ∧ ∀ q ∈ rs, ∃ v, q.val = .str v := by
  unfold applyItems044 at h
  split at h
  · rename_i hk; rw [hk]; exact applyNormal044_fields _ _ _ _ _ h
  · rename_i hk; rw [hk]; exact applyNormal044_fields _ _ _ _ _ h
  · rename_i hk; rw [hk]
    obtain ⟨a, r1, ha, g1, rfl⟩ := seqReq_ok h
    obtain ⟨b, r2, hb, g2, rfl⟩ := seqReq_ok g1
    obtain ⟨c', d, hc, hd, rfl⟩ := seqReq_ok g2
    have h1 := applyMatching044_fields _ _ _ _ _ _ ha
    have h2 : (b.map (·.field)).Sublist [.base .linkNameDebug] ∧ ∀ q ∈ b, ∃ v, q.val = .str v := by
      split at hb
      · cases hb; exact ⟨List.nil_sublist _, by intro q hq; cases hq⟩
      · exact applyMatching044_fields _ _ _ _ _ _ hb
    have h3 := applyMatching044_fields _ _ _ _ _ _ hc
    have h4 : (d.map (·.field)).Sublist [.linkTitle] ∧ ∀ q ∈ d, ∃ v, q.val = .str v := by
      split at hd
      · exact applyMatching044_fields _ _ _ _ _ _ hd
      · cases hd; exact ⟨List.nil_sublist _, by intro q hq; cases hq⟩
    refine ⟨?_, str_append h1.2 (str_append h2.2 (str_append h3.2 h4.2))⟩
    simp only [List.map_append]
    exact List.Sublist.append h1.1 (List.Sublist.append h2.1 (List.Sublist.append h3.1 h4.1))
  · rename_i hk; rw [hk]
    obtain ⟨a, r1, ha, g1, rfl⟩ := seqReq_ok h
    obtain ⟨b, c', hb, hc, rfl⟩ := seqReq_ok g1
    have h1 := applyMatching044_fields _ _ _ _ _ _ ha
    have h2 := applyMatching044_fields _ _ _ _ _ _ hb
    have h3 := applyMatching044_fields _ _ _ _ _ _ hc
    refine ⟨?_, str_append h1.2 (str_append h2.2 h3.2)⟩
    simp only [List.map_append]
    exact List.Sublist.append h1.1 (List.Sublist.append h2.1 h3.1)
  · rename_i hk; rw [hk]
    obtain ⟨a, b, ha, hb, rfl⟩ := seqReq_ok h
    have h1 := applyMatching044_fields _ _ _ _ _ _ ha
    have h2 := applyMatching044_fields _ _ _ _ _ _ hb
    refine ⟨?_, str_append h1.2 h2.2⟩
    simp only [List.map_append]
    exact List.Sublist.append h1.1 h2.1
  · cases h

/-- `_modify_token` accepts every field of `mayWrite044` with a string value, changes exactly that component -/
theorem modify2_mayWrite (t : Tok2) (f : Field2) (s : Str) (hf : f ∈ mayWrite044 t.kind) :
    ∃ t', modify2 t f (.str s) = some t' ∧ others044 t' = others044 t ∧
      (f ≠ .linkTitle → t'.linkTitle = t.linkTitle) ∧ (f ≠ .preLinkTitle → t'.preLinkTitle = t.preLinkTitle) ∧
      (f ≠ .linkName → t'.linkName = t.linkName) ∧ (f ≠ .linkTitleRaw → t'.titleRaw = t.titleRaw) ∧
      ((∀ g, f ≠ .base g) → t'.text = t.text) := by
  cases hk : t.kind <;> rw [hk] at hf <;> simp only [mayWrite044, List.mem_cons, List.not_mem_nil, or_false] at hf
  all_goals
    (rcases hf with rfl | rfl | rfl | rfl) <;>
      simp [modify2, modify, hk, others044]

instance : LawfulBEq Field where
  eq_of_beq {a b} h := by cases a <;> cases b <;> first | rfl | cases h
  rfl {a} := by cases a <;> rfl

instance : LawfulBEq Field2 where
  eq_of_beq {a b} h := by
    cases a <;> cases b <;> first | rfl | cases h | skip
    rename_i f g
    have : (f == g) = true := h
    rw [eq_of_beq this]
  rfl {a} := by
    cases a <;> first | rfl | skip
    rename_i f
    show (f == f) = true
    exact beq_self_eq_true f

theorem hasDup2_false_of_nodup : ∀ (l : List Field2), l.Nodup → hasDup2 l = false
  | [], _ => rfl
  | f :: fs, h => by
    rw [List.nodup_cons] at h
    simp only [hasDup2, Bool.or_eq_false_iff]
    exact ⟨by simpa using h.1, hasDup2_false_of_nodup fs h.2⟩

theorem mayWrite044_nodup (k : Kind) : (mayWrite044 k).Nodup := by
  cases k <;> simp [mayWrite044]

/-- a chain of accepted requests succeeds and preserves everything outside the written components -/
theorem modAll2_mayWrite : ∀ (g : List (Field2 × Val)) (t : Tok2), (∀ p ∈ g, p.1 ∈ mayWrite044 t.kind ∧ ∃ v, p.2 = .str v) →
    ∃ t', modAll2 t g = .ok t' ∧ others044 t' = others044 t ∧
      (.linkTitle ∉ g.map (·.1) → t'.linkTitle = t.linkTitle) ∧ (.preLinkTitle ∉ g.map (·.1) → t'.preLinkTitle = t.preLinkTitle) ∧
      (.linkName ∉ g.map (·.1) → t'.linkName = t.linkName) ∧ (.linkTitleRaw ∉ g.map (·.1) → t'.titleRaw = t.titleRaw) ∧
      ((∀ f ∈ g.map (·.1), ∀ b, f ≠ .base b) → t'.text = t.text) := by
  intro g
  induction g with
  | nil => intro t _; exact ⟨t, rfl, rfl, fun _ => rfl, fun _ => rfl, fun _ => rfl, fun _ => rfl, fun _ => rfl⟩
  | cons p g ih =>
    intro t h
    obtain ⟨f, v⟩ := p
    obtain ⟨hf, s, hv⟩ := h (f, v) List.mem_cons_self
    simp only at hf hv
    subst hv
    obtain ⟨t1, hm, ho, h1, h2, h3, h4, h5⟩ := modify2_mayWrite t f s hf
    have hk : t1.kind = t.kind := (modify2_kind_idx044 t t1 f (.str s) hm).2
    obtain ⟨t', hm', ho', g1, g2, g3, g4, g5⟩ := ih t1 (fun p hp => by rw [hk]; exact h p (List.mem_cons_of_mem _ hp))
    refine ⟨t', by simp only [modAll2, hm]; exact hm', ho'.trans ho, ?_, ?_, ?_, ?_, ?_⟩
    · intro hn
      simp only [List.map_cons, List.mem_cons, not_or] at hn
      rw [g1 hn.2, h1 (Ne.symm hn.1)]
    · intro hn
      simp only [List.map_cons, List.mem_cons, not_or] at hn
      rw [g2 hn.2, h2 (Ne.symm hn.1)]
    · intro hn
      simp only [List.map_cons, List.mem_cons, not_or] at hn
      rw [g3 hn.2, h3 (Ne.symm hn.1)]
    · intro hn
      simp only [List.map_cons, List.mem_cons, not_or] at hn
      rw [g4 hn.2, h4 (Ne.symm hn.1)]
    · intro hn
      rw [g5 (fun f' hf' => hn f' (by simp only [List.map_cons, List.mem_cons]; exact Or.inr hf')),
        h5 (fun b => hn f (by simp) b)]

/-- `__apply_token_fix` on the requests of one MD044 step never refuses -/
theorem applyGroup2_step (i : Nat) (t : Tok2) (items : List PHit044) (rs : List FixReq2) (h : applyItems044 i t items = .ok rs) :
    ∃ t', applyGroup2 t (reqPairs044 rs) = .ok t' ∧ others044 t' = others044 t ∧
      (.linkTitle ∉ mayWrite044 t.kind → t'.linkTitle = t.linkTitle) ∧ (.preLinkTitle ∉ mayWrite044 t.kind → t'.preLinkTitle = t.preLinkTitle) ∧
      (.linkName ∉ mayWrite044 t.kind → t'.linkName = t.linkName) ∧ (.linkTitleRaw ∉ mayWrite044 t.kind → t'.titleRaw = t.titleRaw) ∧
      ((∀ f ∈ mayWrite044 t.kind, ∀ b, f ≠ .base b) → t'.text = t.text) := by
  obtain ⟨hsub, hstr⟩ := applyItems044_fields i t items rs h
  have hmap : (reqPairs044 rs).map (·.1) = rs.map (·.field) := by simp [reqPairs044, List.map_map, Function.comp_def]
  have hnd : hasDup2 ((reqPairs044 rs).map (·.1)) = false := by
    rw [hmap]; exact hasDup2_false_of_nodup _ (hsub.nodup (mayWrite044_nodup _))
  unfold applyGroup2
  rw [hnd]
  simp only [Bool.false_eq_true, ↓reduceIte]
  obtain ⟨t', hm, ho, g1, g2, g3, g4, g5⟩ := modAll2_mayWrite (reqPairs044 rs) t (by
    intro p hp
    simp only [reqPairs044, List.mem_map] at hp
    obtain ⟨q, hq, rfl⟩ := hp
    exact ⟨hsub.subset (List.mem_map.mpr ⟨q, hq, rfl⟩), hstr q hq⟩)
  rw [hmap] at g1 g2 g3 g4 g5
  exact ⟨t', hm, ho, fun hn => g1 (fun hc => hn (hsub.subset hc)), fun hn => g2 (fun hc => hn (hsub.subset hc)),
    fun hn => g3 (fun hc => hn (hsub.subset hc)), fun hn => g4 (fun hc => hn (hsub.subset hc)),
    fun hn => g5 (fun f hf => hn f (hsub.subset hf))⟩

end Verif.Model.TokenRules
