import Verif.Lemmas.TokenRules.ReplSplice
/-!
  Generic theory of `applyFixes2` with replacement records — part 4: ONE record, the line numbers of the result.
  `__apply_replacement_fix` moves every token behind the replaced range by
      `line_number_delta = (last.line − first.line + 1) − (end_token.line − start.line + 1)`
  (`last` / `first` = last / first token of the replacement list, `start` = the first non-end token from the start token on).
-/
namespace Verif.Model.TokenRules

theorem reTok_line (w : Work) (p : Nat) (x : WTok) (t' : Tok2) (h : reTok w p x = some t') :
    ∃ t, tokOf w.store x = some t ∧ t'.line = t.line := by
  cases x with
  | orig i =>
    simp only [reTok] at h
    cases hs : w.store[i]? with
    | none => simp [hs] at h
    | some u =>
      simp only [hs, Option.map_some, Option.some.injEq] at h
      refine ⟨u, hs, ?_⟩
      rw [← h]; cases u.startIdx <;> rfl
  | new o u =>
    simp only [reTok, Option.some.injEq] at h
    refine ⟨u, rfl, ?_⟩
    rw [← h]; cases u.startIdx <;> rfl

theorem applyFixes2_single (toks : List Tok2) (r : Repl) (h : ReplsOk toks.length 0 [r]) :
    ∃ (a : Nat) (first endTok : Tok2) (l0 ll : Int) (out : List Tok2),
      r.startIdx ≤ a ∧ a ≤ r.endIdx ∧ toks[a]? = some first ∧
      (∀ ts, toks[r.startIdx]? = some ts → ts.kind.isEnd = false → a = r.startIdx) ∧
      toks[r.endIdx]? = some endTok ∧
      r.toks.head? >>= RTok.line toks = some l0 ∧ r.toks.getLast? >>= RTok.line toks = some ll ∧
      applyFixes2 toks [] [r] = .ok out ∧
      (∀ (q : Nat) (t : Tok2), q < r.startIdx → toks[q]? = some t → ∃ t', out[q]? = some t' ∧ t'.line = t.line) ∧
      (∀ (m : Nat) (t : Tok2), toks[r.endIdx + 1 + m]? = some t →
         ∃ t', out[r.startIdx + r.toks.length + m]? = some t' ∧
           t'.line = (adjLine ((ll - l0 + 1) - (endTok.line - first.line + 1)) t).line) := by
  have hok := h
  obtain ⟨h1, h2, h3, h4, h5, _⟩ := h
  have hpre0 : InStore 0 ([] : List WTok) := fun _ hm => by simp at hm
  obtain ⟨a, first, endTok, l0, ll, ha1, ha2, ha3, ha4, hend, hl0, hll, hδ⟩ :=
    replDelta_inv toks.length 0 toks [] r rfl hpre0 h1 h2 h3 h4 h5
  obtain ⟨store', A0, x, x', hA, hap, hx, _, hlen', _, hline'⟩ :=
    applyRepl_step toks.length 0 toks [] r rfl hpre0 h1 h2 h3 h4 h5 _ _ _ _ hδ rfl rfl
  generalize hd : (ll - l0 + 1) - (endTok.line - first.line + 1) = d at hline' hx hδ hap
  generalize hL' : A0 ++ [x'] ++ (List.range' (r.endIdx + 1) (toks.length - (r.endIdx + 1))).map WTok.orig = L' at hap
  have hout : applyFixes2 toks [] [r] = .ok (reindex ⟨store', L'⟩ 0 L') := by
    have hc := collide_ok toks.length [r] 0 [] hok (fun _ hm => by simp at hm)
    have hf : applyFields toks [] = .ok toks := rfl
    have hl : (List.range toks.length).map WTok.orig = [] ++ (List.range' 0 (toks.length - 0)).map WTok.orig := by
      rw [List.range_eq_range']; rfl
    unfold applyFixes2
    simp only [hf, List.map_nil, firstOcc, hc, hl, applyRepls, hap]
  -- the elements of the new list
  have hAlen : A0.length + 1 = r.startIdx + r.toks.length := by
    have := congrArg List.length hA
    simp only [List.nil_append, List.length_append, List.length_map, List.length_range', tagNew_length, List.length_cons,
      List.length_nil] at this
    omega
  have htl : 0 < r.toks.length := List.length_pos_iff.mpr h4
  have hAin : InStore (r.endIdx + 1) (A0 ++ [x]) := by
    rw [← hA]
    intro i hm
    rcases List.mem_append.mp hm with hm | hm
    · rcases List.mem_append.mp hm with hm | hm
      · simp at hm
      · simp only [List.mem_map, List.mem_range'_1, WTok.orig.injEq] at hm
        obtain ⟨a, ha, rfl⟩ := hm; omega
    · have := (h5 _ (mem_tagNew_orig _ _ _ hm)).2; omega
  have hin : InStore store'.length L' := by
    rw [hlen', ← hL']
    intro i hm
    rcases List.mem_append.mp hm with hm | hm
    · rcases List.mem_append.mp hm with hm | hm
      · have := hAin i (List.mem_append_left _ hm); omega
      · simp only [List.mem_singleton] at hm
        have := hAin i (List.mem_append_right _ (by rw [hx.orig i hm.symm]; simp)); omega
    · simp only [List.mem_map, List.mem_range'_1, WTok.orig.injEq] at hm
      obtain ⟨a, ha, rfl⟩ := hm; omega
  refine ⟨a, first, endTok, l0, ll, _, ha1, ha2, ha3, ha4, hend, hl0, hll, hout, ?_, ?_⟩
  · intro q t hq ht
    have hqn : q < toks.length := by
      rcases Nat.lt_or_ge q toks.length with h | h
      · exact h
      · rw [List.getElem?_eq_none h] at ht; cases ht
    have hLq : L'[q]? = some (.orig q) := by
      rw [← hL', List.append_assoc, List.getElem?_append_left (by omega)]
      have : (A0 ++ [x])[q]? = some (.orig q) := by
        rw [← hA, List.nil_append, List.getElem?_append_left (by simp; omega), List.getElem?_map, List.getElem?_range' (by omega)]
        simp
      rwa [List.getElem?_append_left (by omega)] at this
    rw [reindex_getElem? _ _ _ _ hin, hLq]
    simp only [Option.bind_some]
    have hs' : store'[q]? = some store'[q] := List.getElem?_eq_getElem (by omega)
    cases hr : reTok ⟨store', L'⟩ (0 + q) (.orig q) with
    | none => simp [reTok, hs'] at hr
    | some t' =>
      obtain ⟨u, hu, hul⟩ := reTok_line _ _ _ _ hr
      refine ⟨t', rfl, ?_⟩
      have := hline' q
      simp only [tokOf] at hu
      rw [hu, ht] at this
      simp only [Option.map_some, Option.some.injEq] at this
      rw [hul, this]
      have : ¬ r.endIdx < q := by omega
      simp [this]
  · intro m t ht
    have hqn : r.endIdx + 1 + m < toks.length := by
      rcases Nat.lt_or_ge (r.endIdx + 1 + m) toks.length with h | h
      · exact h
      · rw [List.getElem?_eq_none h] at ht; cases ht
    have hLq : L'[r.startIdx + r.toks.length + m]? = some (.orig (r.endIdx + 1 + m)) := by
      rw [← hL', List.getElem?_append_right (by simp; omega), List.getElem?_map, List.getElem?_range' (by simp; omega)]
      simp only [List.length_append, List.length_cons, List.length_nil, Option.map_some, Option.some.injEq, WTok.orig.injEq]
      omega
    rw [reindex_getElem? _ _ _ _ hin, hLq]
    simp only [Option.bind_some]
    have hs' : store'[r.endIdx + 1 + m]? = some store'[r.endIdx + 1 + m] := List.getElem?_eq_getElem (by omega)
    cases hr : reTok ⟨store', L'⟩ (0 + (r.startIdx + r.toks.length + m)) (.orig (r.endIdx + 1 + m)) with
    | none => simp [reTok, hs'] at hr
    | some t' =>
      obtain ⟨u, hu, hul⟩ := reTok_line _ _ _ _ hr
      refine ⟨t', rfl, ?_⟩
      have := hline' (r.endIdx + 1 + m)
      simp only [tokOf] at hu
      rw [hu, ht] at this
      simp only [Option.map_some, Option.some.injEq] at this
      rw [hul, this]
      have : r.endIdx < r.endIdx + 1 + m := by omega
      simp [this, hd]

end Verif.Model.TokenRules
