import Verif.Lemmas.TokenRules.Md044Local
import Verif.Lemmas.TokenRules.Md044Search
/-!
  MD044 — one `next_token` step: locality, what the fix of a text / code-span token is, what the scan of such a token is.
-/
namespace Verif.Model.TokenRules
open Verif.Model.Codec (removeAll plain isSpecial)

theorem bind_ok044 {α β : Type} {x : Except Err2 α} {f : α → Except Err2 β} {b : β} :
    (x >>= f) = .ok b ↔ ∃ a, x = .ok a ∧ f a = .ok b := by
  cases x with
  | error e => simp [bind, Except.bind]
  | ok a => simp [bind, Except.bind]

/-! ## `remove_all_from_text` on marker-free text -/
theorem removeAll_plain044 (s : Str) (h : plain s = true) : removeAll s = .ok s := by
  have henc : ∀ (l : Str), plain l = true → Verif.Model.Codec.encode (l.map .lit) = l ∧ Verif.Model.Codec.sourceOf (l.map .lit) = l ∧
      Verif.Model.Codec.MarkerFree (l.map .lit) := by
    intro l
    induction l with
    | nil => intro _; exact ⟨rfl, rfl, by unfold Verif.Model.Codec.MarkerFree; rfl⟩
    | cons c cs ih =>
      intro hp
      unfold plain at hp
      simp only [List.all_cons, Bool.and_eq_true, Bool.not_eq_true'] at hp
      obtain ⟨h1, h2, h3⟩ := ih (by unfold plain; exact hp.2)
      refine ⟨?_, ?_, ?_⟩
      · simp only [List.map_cons, Verif.Model.Codec.encode, Verif.Model.Codec.Piece.encode,
          Verif.Lemmas.Codec.escapeSpecial_single hp.1, h1, List.singleton_append]
      · simp only [List.map_cons, Verif.Model.Codec.sourceOf, Verif.Model.Codec.Piece.source, h2, List.singleton_append]
      · unfold Verif.Model.Codec.MarkerFree at h3 ⊢
        simp only [List.map_cons, List.all_cons, Verif.Model.Codec.Piece.markerFree, hp.1, Bool.not_false, h3, Bool.and_self]
  obtain ⟨h1, h2, h3⟩ := henc s h
  have := Verif.Props.C02.remove_encode (s.map .lit) h3
  rw [h1, h2] at this
  exact this

/-! ## locality -/
theorem applyNormal044_idx (i : Nat) (s : Str) (items : List PHit044) (f : Field2) (rs : List FixReq2)
    (h : applyNormal044 i s items f = .ok rs) : ∀ q ∈ rs, q.idx = i := by
  unfold applyNormal044 at h
  split at h
  · cases h
  · cases h; intro q hq; simp only [List.mem_singleton] at hq; rw [hq]

theorem applyMatching044_idx (i : Nat) (s : Option Str) (items : List PHit044) (p : Part044) (f : Field2) (rs : List FixReq2)
    (h : applyMatching044 i s items p f = .ok rs) : ∀ q ∈ rs, q.idx = i := by
  unfold applyMatching044 at h
  split at h
  · cases h
  · split at h
    · cases h; intro q hq; cases hq
    · cases h; intro q hq; simp only [List.mem_singleton] at hq; rw [hq]

theorem seqReq_ok {a b : Except Err2 (List FixReq2)} {r : List FixReq2} (h : seqReq a b = .ok r) :
    ∃ x y, a = .ok x ∧ b = .ok y ∧ r = x ++ y := by
  unfold seqReq at h
  split at h
  · cases h
  · split at h
    · cases h
    · cases h; exact ⟨_, _, rfl, rfl, rfl⟩

theorem seq044_ok {a b : Except Err2 (List PHit044)} {r : List PHit044} (h : seq044 a b = .ok r) :
    ∃ x y, a = .ok x ∧ b = .ok y ∧ r = x ++ y := by
  unfold seq044 at h
  split at h
  · cases h
  · split at h
    · cases h
    · cases h; exact ⟨_, _, rfl, rfl, rfl⟩

theorem optMatching_idx (i : Nat) (cond : Bool) (s : Option Str) (items : List PHit044) (p : Part044) (f : Field2) (rs : List FixReq2)
    (h : (if cond = true then Except.ok [] else applyMatching044 i s items p f) = .ok rs) : ∀ q ∈ rs, q.idx = i := by
  split at h
  · cases h; intro q hq; cases hq
  · exact applyMatching044_idx _ _ _ _ _ _ h

theorem applyItems044_idx (i : Nat) (t : Tok2) (items : List PHit044) (rs : List FixReq2)
    (h : applyItems044 i t items = .ok rs) : ∀ q ∈ rs, q.idx = i := by
  unfold applyItems044 at h
  split at h
  · exact applyNormal044_idx _ _ _ _ _ h
  · exact applyNormal044_idx _ _ _ _ _ h
  · -- lrd
    obtain ⟨a, r1, ha, g1, rfl⟩ := seqReq_ok h
    obtain ⟨b, r2, hb, g2, rfl⟩ := seqReq_ok g1
    obtain ⟨c', d, hc, hd, rfl⟩ := seqReq_ok g2
    have h1 := applyMatching044_idx _ _ _ _ _ _ ha
    have h2 := optMatching_idx _ _ _ _ _ _ _ hb
    have h3 := applyMatching044_idx _ _ _ _ _ _ hc
    have h4 : ∀ q ∈ d, q.idx = i := by
      split at hd
      · exact applyMatching044_idx _ _ _ _ _ _ hd
      · cases hd; intro q hq; cases hq
    intro q hq
    simp only [List.mem_append] at hq
    rcases hq with hq | hq | hq | hq
    · exact h1 q hq
    · exact h2 q hq
    · exact h3 q hq
    · exact h4 q hq
  · -- link
    obtain ⟨a, r1, ha, g1, rfl⟩ := seqReq_ok h
    obtain ⟨b, c', hb, hc, rfl⟩ := seqReq_ok g1
    intro q hq
    simp only [List.mem_append] at hq
    rcases hq with hq | hq | hq
    · exact applyMatching044_idx _ _ _ _ _ _ ha q hq
    · exact applyMatching044_idx _ _ _ _ _ _ hb q hq
    · exact applyMatching044_idx _ _ _ _ _ _ hc q hq
  · -- image
    obtain ⟨a, b, ha, hb, rfl⟩ := seqReq_ok h
    intro q hq
    simp only [List.mem_append] at hq
    rcases hq with hq | hq
    · exact applyMatching044_idx _ _ _ _ _ _ ha q hq
    · exact applyMatching044_idx _ _ _ _ _ _ hb q hq
  · cases h

/-- MD044 requests only name the current token and there is no replacement record -/
theorem md044_local : IsLocal044 md044 := by
  intro c all s i t s' o h
  show o.repls = [] ∧ _
  simp only [md044, next044] at h
  split at h
  · cases h; exact ⟨rfl, by intro q hq; cases hq⟩
  · split at h
    · cases h
    · split at h
      · split at h
        · cases h; exact ⟨rfl, by intro q hq; cases hq⟩
        · split at h
          · cases h
          · rename_i reqs hr
            cases h
            exact ⟨rfl, applyItems044_idx _ _ _ _ hr⟩
      · cases h; exact ⟨rfl, by intro q hq; cases hq⟩

/-! ## the step on a text / code-span token -/
theorem tag044_ok (p : Part044) (r : Except Err2 (List Hit044)) (x : List PHit044) :
    tag044 p r = .ok x ↔ ∃ hs, r = .ok hs ∧ x = hs.map (fun h => (p, h)) := by
  unfold tag044
  cases r with
  | error e => simp
  | ok hs => simp [eq_comm]

theorem map_snd_tag (p : Part044) (hs : List Hit044) : (hs.map (fun h => (p, h))).map (·.2) = hs := by
  rw [List.map_map]; exact List.map_id' hs

/-- names of the domain of the H1 / idempotence theorems -/
structure NamesOk (names : List Str) : Prop where
  simple : ∀ n ∈ names, simpleS n = true
  nonempty : ∀ n ∈ names, n ≠ []
  plain : ∀ n ∈ names, plain n = true

/-- the fix of a searched text: every hit replaced -/
def fixStr044 (names : List Str) (sl : Int) (s : Str) : Str :=
  match searchNames044 s (lowerS s) sl 0 0 names with
  | .ok items => applyHits s items
  | .error _ => s

theorem fixStr044_spec (names : List Str) (hn : NamesOk names) (sl : Int) (hsl : sl ≤ 0) (s : Str) (hs : simpleS s = true) :
    ∃ items, searchNames044 s (lowerS s) sl 0 0 names = .ok items ∧ fixStr044 names sl s = applyHits s items ∧
      (∀ h ∈ items, GoodHit s (lowerS s) names h) ∧ (items ≠ [] → applyHits s items ≠ s) := by
  obtain ⟨items, hi⟩ := searchNames044_total s sl 0 0 hsl hs names (fun n h => ⟨hn.simple n h, hn.nonempty n h⟩)
  have hg := searchNames044_good s (lowerS s) sl 0 0 names names items (fun _ h => h) hi
  refine ⟨items, hi, by unfold fixStr044; rw [hi], hg, ?_⟩
  intro hne
  apply applyHits_ne s items hne (fun h hh => (hg h hh).inText hs hn.simple)
  intro h hh
  have := (hg h hh).ne
  rw [(hg h hh).found] at this
  exact this

theorem fixStr044_plain (names : List Str) (hn : NamesOk names) (sl : Int) (s : Str) (hp : plain s = true) :
    plain (fixStr044 names sl s) = true := by
  unfold fixStr044
  split
  · rename_i items hi
    have hg := searchNames044_good s (lowerS s) sl 0 0 names names items (fun _ h => h) hi
    exact applyHits_all _ items s hp (fun h hh => hn.plain _ (hg h hh).mem)
  · exact hp

theorem fixStr044_simple (names : List Str) (hn : NamesOk names) (sl : Int) (s : Str) (hp : simpleS s = true) :
    simpleS (fixStr044 names sl s) = true := by
  unfold fixStr044
  split
  · rename_i items hi
    have hg := searchNames044_good s (lowerS s) sl 0 0 names names items (fun _ h => h) hi
    exact applyHits_all _ items s hp (fun h hh => hn.simple _ (hg h hh).mem)
  · exact hp

/-- searching the fixed text (any mode, any offsets) finds nothing -/
theorem search044_fixStr (names : List Str) (hn : NamesOk names) (hc : compatAll044 names = true) (sl sl' sx' sy' : Int) (hsl : sl ≤ 0)
    (hsl' : sl' ≤ 0) (s : Str) (hs : simpleS s = true) (hp : plain s = true) (keep : Bool) :
    search044 names keep (fixStr044 names sl s) sl' sx' sy' = .ok [] := by
  obtain ⟨items, hi, he, _, _⟩ := fixStr044_spec names hn sl hsl s hs
  unfold search044
  have hpl := fixStr044_plain names hn sl s hp
  have : (if keep = true then Except.ok (fixStr044 names sl s) else removeAll (fixStr044 names sl s)) = .ok (fixStr044 names sl s) := by
    cases keep
    · simp only [Bool.false_eq_true, ↓reduceIte]; exact removeAll_plain044 _ hpl
    · rfl
  rw [this]
  simp only
  rw [he]
  exact searchNames044_fixed s names items sl 0 0 sl' sx' sy' hsl' hs hn.simple hc hi

/-! ## the step on the tokens of the H1 domain -/
/-- the token kinds of the H1 / idempotence domain: text and code spans with marker-free `simpleS` text, and every kind the rule
    does not look into (no link, image, link reference definition, end-link) -/
def plainTok044 (t : Tok2) : Bool :=
  match t.kind with
  | .text | .codeSpan => simpleS t.text && plain t.text
  | .link | .image | .lrd | .linkEnd => false
  | _ => true

/-- what the fix makes of a token of the domain -/
def fixedTok044 (c : C044) (s : St044) (t : Tok2) : Tok2 :=
  match t.kind with
  | .text =>
    if !s.inCode || c.codeBlocks then { t with toTok := { t.toTok with text := fixStr044 c.names 0 t.text } } else t
  | .codeSpan =>
    if c.codeSpans then { t with toTok := { t.toTok with text := fixStr044 c.names (spanOffset044 t) t.text } } else t
  | _ => t

def stateNext044 (c : C044) (s : St044) (t : Tok2) : St044 := if c.names.isEmpty then s else state044 s t

theorem fixedTok044_kind (c : C044) (s : St044) (t : Tok2) : (fixedTok044 c s t).kind = t.kind := by
  unfold fixedTok044
  split
  · split <;> rfl
  · split <;> rfl
  · rfl

theorem state044_kind (s : St044) (t t' : Tok2) (h : t'.kind = t.kind) : state044 s t' = state044 s t := by
  unfold state044; rw [h]

theorem spanOffset044_le (t : Tok2) : spanOffset044 t ≤ 0 := by unfold spanOffset044; omega

theorem hits044_other (c : C044) (fm : Bool) (all : List Tok2) (s : St044) (t : Tok2)
    (h1 : t.kind ≠ .text) (h2 : t.kind ≠ .codeSpan) (h3 : t.kind ≠ .linkEnd) (h4 : t.kind ≠ .image) (h5 : t.kind ≠ .lrd)
    (h6 : t.kind ≠ .link) : hits044 c fm all s t = .ok [] := by
  unfold hits044
  split <;> first | contradiction | rfl

theorem tok_eta044 (t : Tok2) : ({ t with toTok := { t.toTok with text := t.text } } : Tok2) = t := rfl

theorem fixStr044_nil (sl : Int) (s : Str) : fixStr044 [] sl s = s := by
  unfold fixStr044; simp [searchNames044, applyHits]

/-- the textual part of a fix step: the hits of a search with `keep_text_with_markers`, then `__apply_normal_replacement` -/
theorem normal_step (names : List Str) (hn : NamesOk names) (sl : Int) (hsl : sl ≤ 0) (i : Nat) (text : Str) (hs : simpleS text = true)
    (f : Field2) :
    ∃ hits, tag044 .none (search044 names true text sl 0 0) = .ok hits ∧
      ((hits.isEmpty = true ∧ fixStr044 names sl text = text) ∨
       (hits.isEmpty = false ∧ applyNormal044 i text hits f = .ok [⟨i, f, .str (fixStr044 names sl text)⟩])) := by
  obtain ⟨items, hi, he, _, hne⟩ := fixStr044_spec names hn sl hsl text hs
  refine ⟨items.map (fun h => (Part044.none, h)), ?_, ?_⟩
  · rw [tag044_ok]; exact ⟨items, by unfold search044; exact hi, rfl⟩
  · cases items with
    | nil => left; exact ⟨rfl, by rw [he]; rfl⟩
    | cons x xs =>
      right
      refine ⟨rfl, ?_⟩
      unfold applyNormal044
      rw [applyAll044_eq, map_snd_tag, ← he]
      rw [if_neg (by rw [he]; exact hne (by simp))]

theorem fix_step (c : C044) (hn : NamesOk c.names) (all : List Tok2) (s : St044) (i : Nat) (t : Tok2) (hW : plainTok044 t = true) :
    ∃ o, next044 c true all s i t = .ok (stateNext044 c s t, o) ∧ applyGroup2 t (reqPairs044 o.reqs) = .ok (fixedTok044 c s t) := by
  unfold next044 stateNext044
  by_cases hne : c.names.isEmpty = true
  · rw [if_pos hne, if_pos hne]
    refine ⟨{}, rfl, ?_⟩
    have : c.names = [] := by simpa using hne
    simp only [reqPairs044, List.map_nil, applyGroup2_nil044, Except.ok.injEq]
    unfold fixedTok044
    rw [this]
    split
    · split
      · rw [fixStr044_nil]
      · rfl
    · split
      · rw [fixStr044_nil]
      · rfl
    · rfl
  · rw [if_neg hne, if_neg hne]
    by_cases hk1 : t.kind = .text
    · have hs : simpleS t.text = true := by
        unfold plainTok044 at hW; rw [hk1] at hW; simp only [Bool.and_eq_true] at hW; exact hW.1
      unfold hits044 fixedTok044
      rw [hk1]
      simp only
      by_cases hcb : (!s.inCode || c.codeBlocks) = true
      · rw [if_pos hcb, if_pos hcb]
        obtain ⟨hits, hh, hcase⟩ := normal_step c.names hn 0 (Int.le_refl _) i t.text hs (.base .tokenText)
        rw [hh]
        simp only [↓reduceIte]
        rcases hcase with ⟨he, hf⟩ | ⟨he, hf⟩
        · rw [if_pos he, hf]
          exact ⟨{}, rfl, by simp [reqPairs044, applyGroup2_nil044]⟩
        · rw [if_neg (by rw [he]; simp)]
          unfold applyItems044
          rw [hk1]
          simp only [hf]
          refine ⟨_, rfl, ?_⟩
          simp only [reqPairs044, List.map_cons, List.map_nil, applyGroup2_single044, modify2, modify, hk1, Option.map_some]
      · rw [if_neg hcb, if_neg hcb]
        exact ⟨{}, rfl, by simp [reqPairs044, applyGroup2_nil044]⟩
    · by_cases hk2 : t.kind = .codeSpan
      · have hs : simpleS t.text = true := by
          unfold plainTok044 at hW; rw [hk2] at hW; simp only [Bool.and_eq_true] at hW; exact hW.1
        unfold hits044 fixedTok044
        rw [hk2]
        simp only
        by_cases hcb : c.codeSpans = true
        · rw [if_pos hcb, if_pos hcb]
          obtain ⟨hits, hh, hcase⟩ := normal_step c.names hn (spanOffset044 t) (spanOffset044_le t) i t.text hs (.base .spanText)
          rw [hh]
          simp only [↓reduceIte]
          rcases hcase with ⟨he, hf⟩ | ⟨he, hf⟩
          · rw [if_pos he, hf]
            exact ⟨{}, rfl, by simp [reqPairs044, applyGroup2_nil044]⟩
          · rw [if_neg (by rw [he]; simp)]
            unfold applyItems044
            rw [hk2]
            simp only [hf]
            refine ⟨_, rfl, ?_⟩
            simp only [reqPairs044, List.map_cons, List.map_nil, applyGroup2_single044, modify2, modify, hk2, Option.map_some]
        · rw [if_neg hcb, if_neg hcb]
          exact ⟨{}, rfl, by simp [reqPairs044, applyGroup2_nil044]⟩
      · have hk : t.kind ≠ .linkEnd ∧ t.kind ≠ .image ∧ t.kind ≠ .lrd ∧ t.kind ≠ .link := by
          unfold plainTok044 at hW
          refine ⟨?_, ?_, ?_, ?_⟩ <;> (intro hk; rw [hk] at hW; cases hW)
        rw [hits044_other c true all s t hk1 hk2 hk.1 hk.2.1 hk.2.2.1 hk.2.2.2]
        simp only [↓reduceIte, List.isEmpty_nil]
        refine ⟨{}, rfl, ?_⟩
        simp only [reqPairs044, List.map_nil, applyGroup2_nil044, Except.ok.injEq]
        unfold fixedTok044
        split <;> first | contradiction | rfl

/-- a step (either mode) on the FIXED token of the domain finds nothing -/
theorem fixed_step (c : C044) (hn : NamesOk c.names) (hc : compatAll044 c.names = true) (fm : Bool) (all : List Tok2) (s : St044) (i : Nat)
    (t : Tok2) (hW : plainTok044 t = true) :
    next044 c fm all s i (fixedTok044 c s t) = .ok (stateNext044 c s t, {}) := by
  unfold next044 stateNext044
  by_cases hne : c.names.isEmpty = true
  · rw [if_pos hne, if_pos hne]
  · rw [if_neg hne, if_neg hne, state044_kind s t _ (fixedTok044_kind c s t)]
    have key : hits044 c fm all s (fixedTok044 c s t) = .ok [] := by
      by_cases hk1 : t.kind = .text
      · have hs : simpleS t.text = true ∧ plain t.text = true := by
          unfold plainTok044 at hW; rw [hk1] at hW; simpa using hW
        unfold hits044
        rw [fixedTok044_kind, hk1]
        simp only
        split
        · rename_i hcb
          unfold fixedTok044
          rw [hk1]
          simp only [hcb, ↓reduceIte]
          rw [search044_fixStr c.names hn hc 0 0 0 0 (Int.le_refl _) (Int.le_refl _) t.text hs.1 hs.2 fm]
          rfl
        · rfl
      · by_cases hk2 : t.kind = .codeSpan
        · have hs : simpleS t.text = true ∧ plain t.text = true := by
            unfold plainTok044 at hW; rw [hk2] at hW; simpa using hW
          unfold hits044
          rw [fixedTok044_kind, hk2]
          simp only
          split
          · rename_i hcb
            unfold fixedTok044
            rw [hk2]
            simp only [hcb, ↓reduceIte]
            have : spanOffset044 { t with toTok := { t.toTok with text := fixStr044 c.names (spanOffset044 t) t.text } } = spanOffset044 t := rfl
            rw [this, search044_fixStr c.names hn hc (spanOffset044 t) (spanOffset044 t) 0 0 (spanOffset044_le t) (spanOffset044_le t)
              t.text hs.1 hs.2 fm]
            rfl
          · rfl
        · have hk : t.kind ≠ .linkEnd ∧ t.kind ≠ .image ∧ t.kind ≠ .lrd ∧ t.kind ≠ .link := by
            unfold plainTok044 at hW
            refine ⟨?_, ?_, ?_, ?_⟩ <;> (intro hk; rw [hk] at hW; cases hW)
          have hkk := fixedTok044_kind c s t
          exact hits044_other c fm all s _ (by rw [hkk]; exact hk1) (by rw [hkk]; exact hk2) (by rw [hkk]; exact hk.1)
            (by rw [hkk]; exact hk.2.1) (by rw [hkk]; exact hk.2.2.1) (by rw [hkk]; exact hk.2.2.2)
    rw [key]
    cases fm <;> rfl

/-- the decidable form of `NamesOk` -/
def namesOk044 (names : List Str) : Bool := names.all (fun n => simpleS n && !n.isEmpty && plain n)

theorem namesOk044_iff (names : List Str) (h : namesOk044 names = true) : NamesOk names := by
  unfold namesOk044 at h
  rw [List.all_eq_true] at h
  refine ⟨?_, ?_, ?_⟩ <;> intro n hn <;> have := h n hn <;> simp only [Bool.and_eq_true, Bool.not_eq_true', List.isEmpty_eq_false_iff] at this
  · exact this.1.1
  · exact this.1.2
  · exact this.2

end Verif.Model.TokenRules
