import Verif.Lemmas.TokenRules.Basic
import Verif.Model.TokenRules.MD035
namespace Verif.Model.TokenRules

abbrev rpos' (r : Report) : Int × Int := (r.line, r.col)
abbrev tpos' (t : Tok) : Int × Int := (t.line, t.col)

/-! ## MD035 -/
theorem modify_tbreak (t : Tok) (hk : t.kind = .tbreak) (a : Char) (as : Str) :
    applyGroup t (reqPairs [⟨i, .startCharacter, .str [a]⟩, ⟨i, .restOfLine, .str (a :: as)⟩]) =
      .ok { t with startChar := [a], rest := a :: as } := by
  have hd : hasDup [Field.startCharacter, Field.restOfLine] = false := by decide
  simp only [reqPairs, List.map_cons, List.map_nil, applyGroup, hd, Bool.false_eq_true, ↓reduceIte, modAll]
  simp [modify, hk]

/-- the two outcomes of a fix-mode step -/
theorem next035_fix_cases (c : C035) (actual : Str) (i : Nat) (t : Tok) a' rp fx
    (h : next035 c true actual i t = .ok (a', rp, fx)) :
    (fx = [] ∧ rp = [] ∧ (t.kind = .tbreak → actual = [] ∨ actual = t.rest) ∧ ∀ fm, next035 c fm actual i t = .ok (a', [], [])) ∨
    (∃ a as, t.kind = .tbreak ∧ actual = a :: as ∧ a :: as ≠ t.rest ∧ a' = actual ∧ rp = [] ∧
      fx = [⟨i, .startCharacter, .str [a]⟩, ⟨i, .restOfLine, .str (a :: as)⟩]) := by
  unfold next035 at h
  by_cases hk : t.kind = .tbreak
  · rw [hk] at h
    simp only at h
    cases actual with
    | nil =>
      simp only [Except.ok.injEq, Prod.mk.injEq] at h
      obtain ⟨rfl, rfl, rfl⟩ := h
      exact .inl ⟨rfl, rfl, fun _ => .inl rfl, fun fm => by unfold next035; rw [hk]⟩
    | cons a as =>
      simp only at h
      by_cases hne : a :: as ≠ t.rest
      · rw [if_pos hne] at h
        simp only [↓reduceIte, Except.ok.injEq, Prod.mk.injEq] at h
        obtain ⟨rfl, rfl, rfl⟩ := h
        exact .inr ⟨a, as, hk, rfl, hne, rfl, rfl, rfl⟩
      · rw [if_neg hne] at h
        simp only [Except.ok.injEq, Prod.mk.injEq] at h
        obtain ⟨rfl, rfl, rfl⟩ := h
        refine .inl ⟨rfl, rfl, fun _ => .inr (by simpa using hne), fun fm => ?_⟩
        unfold next035; rw [hk]; simp only; rw [if_neg hne]
  · have : next035 c true actual i t = .ok (actual, [], []) := by
      unfold next035; split <;> simp_all
    unfold next035 at this
    rw [this] at h
    simp only [Except.ok.injEq, Prod.mk.injEq] at h
    obtain ⟨rfl, rfl, rfl⟩ := h
    exact .inl ⟨rfl, rfl, fun h => absurd h hk, fun fm => by unfold next035; split <;> simp_all⟩

theorem md035_local : IsLocal md035 := by
  intro c s i t s' rp fx h q hq
  rcases next035_fix_cases c s i t s' rp fx h with ⟨rfl, _⟩ | ⟨_, _, _, _, _, _, _, rfl⟩
  · simp at hq
  · simp at hq; rcases hq with rfl | rfl <;> rfl

theorem md035_step (c : C035) (s : Str) (i : Nat) (t : Tok) s' rp fx t'
    (hn : next035 c true s i t = .ok (s', rp, fx)) (ha : applyGroup t (reqPairs fx) = .ok t') :
    ∀ fm, next035 c fm s i t' = .ok (s', [], []) := by
  rcases next035_fix_cases c s i t s' rp fx hn with ⟨rfl, _, _, h⟩ | ⟨a, as, hk, rfl, hne, rfl, _, rfl⟩
  · simp only [List.map_nil, applyGroup_nil, Except.ok.injEq] at ha
    subst ha; exact h
  · rw [modify_tbreak t hk] at ha
    cases ha
    intro fm
    unfold next035
    simp [hk]

def Style035 (t t' : Tok) : Prop :=
  t' = { t with startChar := t'.startChar, rest := t'.rest } ∧ (t' ≠ t → t.kind = .tbreak)

theorem md035_step_style (c : C035) (s : Str) (i : Nat) (t : Tok) s' rp fx t'
    (hn : next035 c true s i t = .ok (s', rp, fx)) (ha : applyGroup t (reqPairs fx) = .ok t') : Style035 t t' := by
  rcases next035_fix_cases c s i t s' rp fx hn with ⟨rfl, _, _, h⟩ | ⟨a, as, hk, rfl, hne, rfl, _, rfl⟩
  · simp only [List.map_nil, applyGroup_nil, Except.ok.injEq] at ha
    subst ha; exact ⟨rfl, fun h => absurd rfl h⟩
  · rw [modify_tbreak t hk] at ha
    cases ha
    exact ⟨rfl, fun _ => hk⟩

theorem md035_step_ok (c : C035) (s : Str) (i : Nat) (t : Tok) :
    ∃ s' rp fx t', next035 c true s i t = .ok (s', rp, fx) ∧ applyGroup t (reqPairs fx) = .ok t' := by
  by_cases hk : t.kind = .tbreak
  · cases s with
    | nil => exact ⟨_, _, _, t, by unfold next035; rw [hk], by simp [applyGroup_nil]⟩
    | cons a as =>
      by_cases hne : a :: as ≠ t.rest
      · exact ⟨_, _, _, _, by unfold next035; rw [hk]; simp only; rw [if_pos hne]; rfl, modify_tbreak t hk a as⟩
      · exact ⟨_, _, _, t, by unfold next035; rw [hk]; simp only; rw [if_neg hne], by simp [applyGroup_nil]⟩
  · exact ⟨s, [], [], t, by unfold next035; split <;> simp_all, by simp [applyGroup_nil]⟩

theorem md035_runFrom_scan (c : C035) : ∀ (ts : List Tok) (s : Str) (i : Nat),
    ∃ s' rps, runFrom md035 c false s i ts = .ok (s', rps, []) ∧ rps.map rpos' = (spec035Go s ts).map tpos' := by
  intro ts
  induction ts with
  | nil => intro s i; exact ⟨s, [], rfl, rfl⟩
  | cons t ts ih =>
    intro s i
    by_cases hk : t.kind = .tbreak
    · cases s with
      | nil =>
        obtain ⟨s', rps, hr, hrps⟩ := ih t.rest (i + 1)
        have hn : md035.next c false [] i t = .ok (t.rest, [], []) := by
          show next035 c false [] i t = _; unfold next035; rw [hk]
        refine ⟨s', rps, ?_, ?_⟩
        · unfold runFrom; rw [hn]; simp only; rw [hr]; rfl
        · rw [hrps]; simp only [spec035Go]; rw [hk]
      | cons a as =>
        obtain ⟨s', rps, hr, hrps⟩ := ih (a :: as) (i + 1)
        by_cases hne : a :: as ≠ t.rest
        · have hn : ∃ rp, md035.next c false (a :: as) i t = .ok (a :: as, rp, []) ∧ rp.map rpos' = [tpos' t] := by
            refine ⟨[⟨t.line, t.col, some ("Expected: ".toList ++ (a :: as) ++ ", Actual: ".toList ++ t.rest)⟩], ?_, rfl⟩
            show next035 c false (a :: as) i t = _; unfold next035; rw [hk]; simp only; rw [if_pos hne]; rfl
          obtain ⟨rp, hn, hrp⟩ := hn
          refine ⟨s', rp ++ rps, runFrom_cons_ok md035 c false _ _ s' i t ts rp [] rps [] hn hr, ?_⟩
          rw [List.map_append, hrp, hrps]; simp only [spec035Go]; rw [hk]; simp only; rw [if_pos hne]; rfl
        · have hn : md035.next c false (a :: as) i t = .ok (a :: as, [], []) := by
            show next035 c false (a :: as) i t = _; unfold next035; rw [hk]; simp only; rw [if_neg hne]
          refine ⟨s', rps, ?_, ?_⟩
          · unfold runFrom; rw [hn]; simp only; rw [hr]; rfl
          · rw [hrps]; simp only [spec035Go]; rw [hk]; simp only; rw [if_neg hne]; rfl
    · obtain ⟨s', rps, hr, hrps⟩ := ih s (i + 1)
      have hn : md035.next c false s i t = .ok (s, [], []) := by
        show next035 c false s i t = _; unfold next035; split <;> simp_all
      refine ⟨s', rps, ?_, ?_⟩
      · unfold runFrom; rw [hn]; simp only; rw [hr]; rfl
      · rw [hrps]; simp only [spec035Go]

end Verif.Model.TokenRules
