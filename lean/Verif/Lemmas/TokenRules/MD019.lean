import Verif.Lemmas.TokenRules.Basic
import Verif.Model.TokenRules.MD019
namespace Verif.Model.TokenRules

theorem removeAll_space : Verif.Model.Codec.removeAll [' '] = .ok [' '] := by decide

theorem resolved019_space (col hc : Int) : resolved019 col hc [' '] = .ok [' '] := by
  unfold resolved019
  rw [removeAll_space]
  rfl

theorem modify_text_ws (t : Tok) (hk : t.kind = .text) (s : Str) :
    modify t .extractedWhitespace (.str s) = some { t with ws := s } := by
  simp [modify, hk]

theorem next019_fix_cases (s : St019) (i : Nat) (t : Tok) s' rp fx (h : next019 () true s i t = .ok (s', rp, fx)) :
    (fx = [] ∧ rp = [] ∧ ∀ fm, next019 () fm s i t = .ok (s', [], [])) ∨
    (t.kind = .text ∧ s' = { atx := none } ∧ (∃ a, s.atx = some a) ∧ rp = [] ∧ fx = [⟨i, .extractedWhitespace, .str [' ']⟩]) := by
  unfold next019 at h
  by_cases hk : t.kind = .text
  · rw [hk] at h
    simp only at h
    cases ha : s.atx with
    | none =>
      rw [ha] at h
      simp only [Except.ok.injEq, Prod.mk.injEq] at h
      obtain ⟨rfl, rfl, rfl⟩ := h
      exact .inl ⟨rfl, rfl, fun fm => by unfold next019; rw [hk]; simp only; rw [ha]⟩
    | some a =>
      obtain ⟨line, col, hc⟩ := a
      rw [ha] at h
      simp only at h
      cases hr : resolved019 col hc t.ws with
      | error e => rw [hr] at h; cases h
      | ok r =>
        rw [hr] at h
        simp only at h
        by_cases hl : r.length > 1
        · rw [if_pos hl] at h
          simp only [↓reduceIte, Except.ok.injEq, Prod.mk.injEq] at h
          obtain ⟨rfl, rfl, rfl⟩ := h
          exact .inr ⟨hk, rfl, ⟨_, rfl⟩, rfl, rfl⟩
        · rw [if_neg hl] at h
          simp only [Except.ok.injEq, Prod.mk.injEq] at h
          obtain ⟨rfl, rfl, rfl⟩ := h
          refine .inl ⟨rfl, rfl, fun fm => ?_⟩
          unfold next019; rw [hk]; simp only; rw [ha]; simp only; rw [hr]; simp only; rw [if_neg hl]
  · have key : ∀ fm, next019 () fm s i t = next019 () true s i t := by
      intro fm; unfold next019; split <;> simp_all
    have hshape : fx = [] ∧ rp = [] := by
      split at h
      · split at h <;> (simp only [Except.ok.injEq, Prod.mk.injEq] at h; exact ⟨h.2.2.symm, h.2.1.symm⟩)
      · simp only [Except.ok.injEq, Prod.mk.injEq] at h; exact ⟨h.2.2.symm, h.2.1.symm⟩
      · rename_i hk'; exact absurd hk' hk
      · simp only [Except.ok.injEq, Prod.mk.injEq] at h; exact ⟨h.2.2.symm, h.2.1.symm⟩
    obtain ⟨rfl, rfl⟩ := hshape
    exact .inl ⟨rfl, rfl, fun fm => by rw [key fm]; unfold next019; exact h⟩

theorem md019_local : IsLocal md019 := by
  intro c s i t s' rp fx h q hq
  rcases next019_fix_cases s i t s' rp fx h with ⟨rfl, _⟩ | ⟨_, _, _, _, rfl⟩
  · simp at hq
  · simp at hq; simp [hq]

theorem md019_step (s : St019) (i : Nat) (t : Tok) s' rp fx t' (hn : next019 () true s i t = .ok (s', rp, fx))
    (ha : applyGroup t (reqPairs fx) = .ok t') : ∀ fm, next019 () fm s i t' = .ok (s', [], []) := by
  rcases next019_fix_cases s i t s' rp fx hn with ⟨rfl, _, h⟩ | ⟨hk, rfl, ⟨a, hs⟩, _, rfl⟩
  · simp only [List.map_nil, applyGroup_nil, Except.ok.injEq] at ha
    subst ha; exact h
  · simp only [List.map_cons, List.map_nil, applyGroup_single, modify_text_ws t hk] at ha
    cases ha
    intro fm
    obtain ⟨line, col, hc⟩ := a
    have hk' : ({ t with ws := [' '] } : Tok).kind = .text := hk
    unfold next019
    rw [hk']; simp only
    rw [hs]; simp only
    rw [resolved019_space]; rfl

def Style019 (t t' : Tok) : Prop :=
  t' = { t with ws := t'.ws } ∧ (t' ≠ t → t.kind = .text ∧ t'.ws = [' '])

theorem md019_step_style (s : St019) (i : Nat) (t : Tok) s' rp fx t' (hn : next019 () true s i t = .ok (s', rp, fx))
    (ha : applyGroup t (reqPairs fx) = .ok t') : Style019 t t' := by
  rcases next019_fix_cases s i t s' rp fx hn with ⟨rfl, _, h⟩ | ⟨hk, rfl, _, _, rfl⟩
  · simp only [List.map_nil, applyGroup_nil, Except.ok.injEq] at ha
    subst ha; exact ⟨rfl, fun h => absurd rfl h⟩
  · simp only [List.map_cons, List.map_nil, applyGroup_single, modify_text_ws t hk] at ha
    cases ha
    exact ⟨rfl, fun _ => ⟨hk, rfl⟩⟩

end Verif.Model.TokenRules

namespace Verif.Model.TokenRules

theorem md019_step_ok (s : St019) (i : Nat) (t : Tok) (hW : wf019 t = true) :
    ∃ s' rp fx t', next019 () true s i t = .ok (s', rp, fx) ∧ applyGroup t (reqPairs fx) = .ok t' := by
  by_cases hk : t.kind = .text
  · unfold wf019 at hW
    rw [hk] at hW
    simp only at hW
    cases ha : s.atx with
    | none => exact ⟨_, _, _, t, by unfold next019; rw [hk]; simp only; rw [ha], by simp [applyGroup_nil]⟩
    | some a =>
      obtain ⟨line, col, hc⟩ := a
      cases hr : Verif.Model.Codec.removeAll t.ws with
      | error e => rw [hr] at hW; cases hW
      | ok r0 =>
        have : ∃ r, resolved019 col hc t.ws = .ok r := by
          unfold resolved019; rw [hr]; simp only; split <;> exact ⟨_, rfl⟩
        obtain ⟨r, hres⟩ := this
        by_cases hl : r.length > 1
        · refine ⟨{ atx := none }, [], [⟨i, .extractedWhitespace, .str [' ']⟩], { t with ws := [' '] }, ?_, ?_⟩
          · unfold next019; rw [hk]; simp only; rw [ha]; simp only; rw [hres]; simp only; rw [if_pos hl]; rfl
          · simp only [List.map_cons, List.map_nil, applyGroup_single, modify_text_ws t hk]
        · refine ⟨{ atx := none }, [], [], t, ?_, by simp [applyGroup_nil]⟩
          unfold next019; rw [hk]; simp only; rw [ha]; simp only; rw [hres]; simp only; rw [if_neg hl]
  · by_cases hka : t.kind = .atx
    · by_cases htr : t.trailing = 0
      · exact ⟨_, _, _, t, by unfold next019; rw [hka]; simp only; rw [if_pos htr], by simp [applyGroup_nil]⟩
      · exact ⟨_, _, _, t, by unfold next019; rw [hka]; simp only; rw [if_neg htr], by simp [applyGroup_nil]⟩
    · by_cases hkp : t.kind = .paraEnd
      · exact ⟨_, _, _, t, by unfold next019; rw [hkp], by simp [applyGroup_nil]⟩
      · exact ⟨s, [], [], t, by unfold next019; split <;> simp_all, by simp [applyGroup_nil]⟩

end Verif.Model.TokenRules
