import Verif.Model.TokenRules.Md023Spec
/-!
  MD023, scan mode: the reports of a run that does not raise are `headScan023 false` (the implemented condition).
  Simulation `Rel023` between the rule's state and the open heading of `headScan023`.
-/
namespace Verif.Model.TokenRules

theorem splitOn1_ne_nil (c : Char) : ∀ (s : Str), splitOn1 c s ≠ [] := by
  intro s
  induction s with
  | nil => simp [splitOn1]
  | cons x xs ih =>
    unfold splitOn1
    split
    · simp
    · split
      · simp
      · simp

/-- `__handle_text_split_end` in scan mode: the flag -/
theorem splitEnd023_flags (cm : CM023) (L L' : Loop023) (e : Str) (i : Nat) (h : splitEnd023 cm L e i = .ok L') :
    L'.anyWs = (L.anyWs || leadLine023 e) ∧ L'.seenFirst = L.seenFirst := by
  unfold splitEnd023 at h
  unfold leadLine023 leadPart023
  cases hl : leadSplit023 e with
  | none =>
    rw [hl] at h
    simp only [Except.ok.injEq] at h
    subst h
    simp [plainEnd023]
  | some p =>
    obtain ⟨a, b⟩ := p
    rw [hl] at h
    simp only at h
    split at h
    · cases h
    · simp only [Except.ok.injEq] at h
      subst h
      simp

/-- the per-line loop in scan mode -/
theorem loop023_scan (cm : CM023) (isEnd : Bool) : ∀ (st es : List Str) (L L' : Loop023) (i : Nat), es.length = st.length →
    loop023 false cm isEnd L i st (some es) = .ok L' →
    L'.anyWs = (L.anyWs || (if L.seenFirst then es else es.tail).any leadLine023) ∧
    L'.seenFirst = (L.seenFirst || !es.isEmpty) := by
  intro st
  induction st with
  | nil =>
    intro es L L' i hl h
    cases es with
    | nil =>
      simp only [loop023, Except.ok.injEq] at h
      subst h
      simp
    | cons _ _ => simp at hl
  | cons x xs ih =>
    intro es L L' i hl h
    cases es with
    | nil => simp at hl
    | cons e es =>
      simp only [List.length_cons, Nat.add_right_cancel_iff] at hl
      unfold loop023 at h
      split at h
      · cases h
      · rename_i L1 hs1
        unfold split023 stripLine023 at hs1
        simp only [Bool.false_eq_true, ↓reduceIte] at hs1
        by_cases hsf : L.seenFirst = true
        · simp only [hsf, ↓reduceIte] at hs1
          obtain ⟨ha, hf⟩ := splitEnd023_flags cm L L1 e i hs1
          obtain ⟨ha2, hf2⟩ := ih es L1 L' (i + 1) hl h
          rw [ha2, hf2, ha, hf, hsf]
          simp [Bool.or_assoc]
        · simp only [hsf, Bool.false_eq_true, ↓reduceIte, Except.ok.injEq] at hs1
          subst hs1
          obtain ⟨ha2, hf2⟩ := ih es _ L' (i + 1) hl h
          rw [ha2, hf2]
          simp [hsf]

/-- state of the rule ↔ open heading of `headScan023 false` -/
def Rel023 (s : St023) : Option (Tok2 × List Str) → Prop
  | none => s.setext = none
  | some (h, ls) =>
    s.setext = some (h.line, h.col) ∧ s.anyWs = (!h.ws.isEmpty || ls.tail.any leadLine023) ∧
    (s.anyWs = false → s.seenFirst = !ls.isEmpty)

theorem endLines023_eq (t : Tok2) : endLines023 t = if (t.endWs.getD []).isEmpty then [] else splitOn1 '\n' (t.endWs.getD []) := by
  unfold endLines023
  cases t.endWs with
  | none => simp
  | some e => simp

theorem Rel023_congr {s s' : St023} {o : Option (Tok2 × List Str)} (h1 : s'.setext = s.setext) (h2 : s'.anyWs = s.anyWs)
    (h3 : s'.seenFirst = s.seenFirst) (hR : Rel023 s o) : Rel023 s' o := by
  cases o with
  | none => show s'.setext = none; rw [h1]; exact hR
  | some p =>
    obtain ⟨h, ls⟩ := p
    show s'.setext = _ ∧ s'.anyWs = _ ∧ (s'.anyWs = false → s'.seenFirst = _)
    rw [h1, h2, h3]; exact hR

theorem tail_any_append {ls ms : List Str} (h : ls.tail.any leadLine023 = true) : (ls ++ ms).tail.any leadLine023 = true := by
  cases ls with
  | nil => simp at h
  | cons l ls =>
    simp only [List.tail_cons, List.cons_append] at h ⊢
    rw [List.any_append, h]; rfl

/-- `__handle_text` in scan mode -/
theorem text023_scan (s s' : St023) (i : Nat) (t : Tok2) (r : List FixReq2) (o : Option (Tok2 × List Str)) (hR : Rel023 s o)
    (h : text023 false s i t.text t.endWs false = .ok (s', r)) :
    Rel023 s' (o.map (fun p => (p.1, p.2 ++ endLines023 t))) := by
  obtain ⟨cm, se, aw, sf, lsk, ca⟩ := s
  unfold text023 at h
  cases o with
  | none =>
    have hs : se = none := hR
    subst hs
    simp only [Option.isNone_none, Bool.true_or, ↓reduceIte, Except.ok.injEq, Prod.mk.injEq] at h
    obtain ⟨rfl, _⟩ := h
    rfl
  | some p =>
    obtain ⟨hd, ls⟩ := p
    obtain ⟨h1, h2, h3⟩ := hR
    simp only at h1 h2 h3
    subst h1
    simp only [Option.isNone_some, Bool.false_or, Bool.not_false, Bool.and_true, Bool.false_eq_true] at h
    show Rel023 s' (some (hd, ls ++ endLines023 t))
    cases aw with
    | true =>
      simp only [Bool.true_or, ↓reduceIte, Except.ok.injEq, Prod.mk.injEq] at h
      obtain ⟨rfl, _⟩ := h
      refine ⟨rfl, ?_, ?_⟩
      · show true = _
        by_cases hw : hd.ws.isEmpty = true
        · simp only [hw, Bool.not_true, Bool.false_or] at h2 ⊢
          exact (tail_any_append h2.symm).symm
        · simp [hw]
      · intro hf
        cases hf
    | false =>
      simp only [Bool.false_or] at h
      by_cases he : (t.endWs.getD []).isEmpty = true
      · simp only [he, ↓reduceIte, Except.ok.injEq, Prod.mk.injEq] at h
        obtain ⟨rfl, _⟩ := h
        rw [endLines023_eq, he]
        simp only [↓reduceIte, List.append_nil]
        exact ⟨rfl, h2, h3⟩
      · simp only [he, Bool.false_eq_true, ↓reduceIte, Bool.not_false, Bool.not_true] at h
        cases hew : t.endWs with
        | none => rw [hew] at he; simp at he
        | some e =>
          rw [hew] at h he
          simp only [Option.map_some] at h
          split at h
          · cases h
          · rename_i hlen
            have hlen' : (splitOn1 '\n' e).length = (splitOn1 '\n' t.text).length := by simpa using hlen
            split at h
            · cases h
            · rename_i L hloop
              obtain ⟨hA, hF⟩ := loop023_scan cm false _ _ _ L 0 hlen' hloop
              simp only [Bool.false_or] at hA
              simp only [Except.ok.injEq, Prod.mk.injEq] at h
              obtain ⟨rfl, _⟩ := h
              have hes : splitOn1 '\n' e ≠ [] := splitOn1_ne_nil _ _
              have hel : endLines023 t = splitOn1 '\n' e := by
                rw [endLines023_eq, hew]; simp only [Option.getD_some] at he ⊢; simp [he]
              rw [hel]
              have hw : hd.ws.isEmpty = true := by
                cases hq : hd.ws.isEmpty with
                | true => rfl
                | false => rw [hq] at h2; simp at h2
              have hlt : ls.tail.any leadLine023 = false := by
                rw [hw] at h2; simpa using h2.symm
              have hsf := h3 rfl
              subst hsf
              refine ⟨rfl, ?_, ?_⟩
              · show L.anyWs = _
                rw [hA, hw]
                cases ls with
                | nil => simp
                | cons l ls =>
                  simp only [List.isEmpty_cons, Bool.not_false, ↓reduceIte, Bool.not_true, List.cons_append, List.tail_cons,
                    Bool.false_or]
                  simp only [List.tail_cons] at hlt
                  rw [List.any_append, hlt]; simp
              · intro _
                show L.seenFirst = _
                rw [hF]
                cases hq : (splitOn1 '\n' e) with
                | nil => exact absurd hq hes
                | cons a b => simp

/-- `__handle_setext_heading_end` in scan mode, in closed form -/
theorem setextEnd023_false (s : St023) (i : Nat) (t : Tok2) :
    setextEnd023 false s i t =
      if (s.anyWs || !t.ws.isEmpty) = true then
        match s.setext with
        | none => .error .assertion
        | some (line, col) =>
          .ok ({ s with anyWs := s.anyWs || !t.ws.isEmpty, setext := none }, { reports := [⟨line, col, none⟩], reqs := [] })
      else .ok ({ s with anyWs := s.anyWs || !t.ws.isEmpty, setext := none }, { reqs := [] }) := by
  obtain ⟨cm, se, aw, sf, lsk, ca⟩ := s
  unfold setextEnd023 reHandle023 endWs023 endReport023
  cases lsk with
  | none =>
    by_cases hw : t.ws.isEmpty = true
    · cases aw <;> cases se <;> simp [hw]
    · cases aw <;> cases se <;> simp [hw]
  | some p =>
    obtain ⟨j, tx, ew⟩ := p
    by_cases hw : t.ws.isEmpty = true
    · cases aw <;> cases se <;> simp [hw]
    · cases aw <;> cases se <;> simp [hw]

theorem setextEnd023_scan (s s' : St023) (i : Nat) (t : Tok2) (out : Out) (o : Option (Tok2 × List Str)) (hR : Rel023 s o)
    (h : setextEnd023 false s i t = .ok (s', out)) :
    out.reports = hsEnd023 false o t ∧ Rel023 s' none := by
  unfold hsEnd023
  simp only [Bool.false_eq_true, ↓reduceIte]
  rw [setextEnd023_false] at h
  obtain ⟨cm, se, aw, sf, lsk, ca⟩ := s
  cases o with
  | none =>
    have hs : se = none := hR
    subst hs
    split at h
    · cases h
    · simp only [Except.ok.injEq, Prod.mk.injEq] at h
      obtain ⟨rfl, rfl⟩ := h
      exact ⟨rfl, rfl⟩
  | some p =>
    obtain ⟨hd, ls⟩ := p
    obtain ⟨h1, h2, h3⟩ := hR
    simp only at h1 h2 h3
    subst h1 h2
    split at h
    · rename_i hc
      simp only [Except.ok.injEq, Prod.mk.injEq] at h
      obtain ⟨rfl, rfl⟩ := h
      simp only [hc, ↓reduceIte]
      exact ⟨rfl, rfl⟩
    · rename_i hc
      simp only [Except.ok.injEq, Prod.mk.injEq] at h
      obtain ⟨rfl, rfl⟩ := h
      simp only [hc, ↓reduceIte]
      exact ⟨rfl, rfl⟩

/-- the heading / text dispatch in scan mode -/
theorem dispatch023_scan (s s2 : St023) (i : Nat) (t : Tok2) (o2 : Out) (o : Option (Tok2 × List Str))
    (hR : Rel023 s o) (hd : dispatch023 false s i t = .ok (s2, o2)) :
    o2.reports = hsOut023 false o t ∧ Rel023 s2 (hsNext023 o t) := by
  unfold dispatch023 at hd
  unfold hsOut023 hsNext023
  cases hk : t.kind <;> simp only [hk] at hd ⊢
  case atx =>
    unfold atx023 at hd
    split at hd
    · rename_i hw
      simp only [Except.ok.injEq, Prod.mk.injEq] at hd
      obtain ⟨rfl, rfl⟩ := hd
      simp only [hw, ↓reduceIte]
      exact ⟨by first | rfl | trivial, hR⟩
    · rename_i hw
      simp only [Bool.false_eq_true, ↓reduceIte, Except.ok.injEq, Prod.mk.injEq] at hd
      obtain ⟨rfl, rfl⟩ := hd
      simp only [hw, Bool.false_eq_true, ↓reduceIte]
      exact ⟨by first | rfl | trivial, hR⟩
  case setext =>
    simp only [setext023, Except.ok.injEq, Prod.mk.injEq] at hd
    obtain ⟨rfl, rfl⟩ := hd
    refine ⟨by cases t.ws <;> rfl, ?_⟩
    show Rel023 _ (some (t, []))
    refine ⟨rfl, by simp, fun _ => rfl⟩
  case text =>
    split at hd
    · cases hd
    · rename_i s3 r3 ht
      simp only [Except.ok.injEq, Prod.mk.injEq] at hd
      obtain ⟨rfl, rfl⟩ := hd
      exact ⟨rfl, text023_scan _ _ i t r3 o hR ht⟩
  case setextEnd =>
    exact setextEnd023_scan s s2 i t o2 o hR hd
  all_goals
    simp only [Except.ok.injEq, Prod.mk.injEq] at hd
    obtain ⟨rfl, rfl⟩ := hd
    exact ⟨rfl, hR⟩

/-- one `next_token` call in scan mode -/
theorem next023_scan (all : List Tok2) (s s' : St023) (i : Nat) (t : Tok2) (out : Out) (o : Option (Tok2 × List Str))
    (hR : Rel023 s o) (h : next023 () false all s i t = .ok (s', out)) :
    out.reports = hsOut023 false o t ∧ Rel023 s' (hsNext023 o t) := by
  unfold next023 at h
  split at h
  · cases h
  · rename_i cm1 hpre
    split at h
    · cases h
    · rename_i s2 o2 hd
      split at h
      · cases h
      · rename_i cm3 hpost
        simp only [Except.ok.injEq, Prod.mk.injEq] at h
        obtain ⟨rfl, rfl⟩ := h
        have hR1 : Rel023 { s with cm := cm1 } o := Rel023_congr rfl rfl rfl hR
        obtain ⟨h1, h2⟩ := dispatch023_scan _ s2 i t o2 o hR1 hd
        exact ⟨h1, Rel023_congr rfl rfl rfl h2⟩

theorem runFrom2_023_scan (all : List Tok2) : ∀ (ts : List Tok2) (s s' : St023) (i : Nat) (out : Out) (o : Option (Tok2 × List Str)),
    Rel023 s o → runFrom2 md023 () false all s i ts = .ok (s', out) → out.reports = headScan023 false o ts := by
  intro ts
  induction ts with
  | nil =>
    intro s s' i out o _ h
    simp only [runFrom2, Except.ok.injEq, Prod.mk.injEq] at h
    obtain ⟨_, rfl⟩ := h
    rfl
  | cons t ts ih =>
    intro s s' i out o hR h
    unfold runFrom2 at h
    split at h
    · cases h
    · rename_i s1 o1 hn
      split at h
      · cases h
      · rename_i s2 os hr
        simp only [Except.ok.injEq, Prod.mk.injEq] at h
        obtain ⟨_, rfl⟩ := h
        obtain ⟨h1, h2⟩ := next023_scan all s s1 i t o1 o hR hn
        have := ih s1 s2 (i + 1) os _ h2 hr
        show (o1.reports ++ os.reports) = _
        rw [h1, this]
        rfl

/-! ## implemented condition = documented condition when no collected FIRST line has a leading part -/

/-- no text token's `end_whitespace` starts with a line that has a leading part -/
def firstPlain023 (t : Tok2) : Bool :=
  match endLines023 t with
  | l :: _ => !leadLine023 l
  | [] => true

def headPlain023 : List Str → Bool
  | l :: _ => !leadLine023 l
  | [] => true

theorem any_tail_of_headPlain {ls : List Str} (h : headPlain023 ls = true) : ls.any leadLine023 = ls.tail.any leadLine023 := by
  cases ls with
  | nil => rfl
  | cons l ls =>
    have : leadLine023 l = false := by simpa [headPlain023] using h
    simp [this]

theorem headPlain023_append {ls ms : List Str} (h1 : headPlain023 ls = true) (h2 : headPlain023 ms = true) :
    headPlain023 (ls ++ ms) = true := by
  cases ls with
  | nil => exact h2
  | cons l ls => exact h1

theorem headScan023_first_irrelevant : ∀ (ts : List Tok2) (o : Option (Tok2 × List Str)),
    (∀ t ∈ ts, t.kind = .text → firstPlain023 t = true) → (∀ h ls, o = some (h, ls) → headPlain023 ls = true) →
    headScan023 false o ts = headScan023 true o ts := by
  intro ts
  induction ts with
  | nil => intro o _ _; rfl
  | cons t ts ih =>
    intro o hts ho
    unfold headScan023
    have hnext : ∀ h ls, hsNext023 o t = some (h, ls) → headPlain023 ls = true := by
      intro h ls hn
      unfold hsNext023 at hn
      cases hk : t.kind <;> simp only [hk] at hn
      case setext => cases hn; rfl
      case setextEnd => cases hn
      case text =>
        cases o with
        | none => cases hn
        | some p =>
          obtain ⟨h0, ls0⟩ := p
          simp only [Option.map_some, Option.some.injEq, Prod.mk.injEq] at hn
          obtain ⟨_, rfl⟩ := hn
          apply headPlain023_append (ho h0 ls0 rfl)
          have := hts t List.mem_cons_self hk
          unfold firstPlain023 at this
          unfold headPlain023
          exact this
      all_goals exact ho h ls hn
    rw [ih (hsNext023 o t) (fun u hu => hts u (List.mem_cons_of_mem _ hu)) hnext]
    congr 1
    unfold hsOut023
    cases hk : t.kind <;> simp only
    unfold hsEnd023
    cases o with
    | none => rfl
    | some p =>
      obtain ⟨h0, ls0⟩ := p
      simp only [Bool.false_eq_true, ↓reduceIte]
      rw [any_tail_of_headPlain (ho h0 ls0 rfl)]

end Verif.Model.TokenRules
