import Verif.Lemmas.TokenRules.MD004
import Verif.Model.RuleSpec.Blocks
/-! `spec004` (the documented condition over the token stream) = the reference condition `RuleSpec.md004`
    (written from the rule page over LeanMark's events), when both see the same unordered lists. -/
namespace Verif.Model.TokenRules
open Verif.Model.RuleSpec (md004Sub)

/-- an unordered-list start as the reference sees it: (bullet character, line, nesting level) -/
def refUl (u : Bul × Tok × Int) : Char × Nat × Nat := (u.1.char, u.2.1.line.toNat, u.2.2.toNat)

def s004Ref : S004 → Verif.Model.RuleSpec.S004
  | .consistent => .consistent
  | .fixed .asterisk => .asterisk
  | .fixed .plus => .plus
  | .fixed .dash => .dash
  | .sublist => .sublist

theorem char_inj (a b : Bul) : (a.char == b.char) = decide (a = b) := by
  cases a <;> cases b <;> decide

theorem wrongBullet_ref (want : Bul) (us : List (Bul × Tok × Int)) :
    (wrongBullet want us).map (fun t => t.line.toNat) =
      ((us.map refUl).flatMap (fun u => if u.1 == want.char then [] else [((u.2.1, none) : Nat × Option Nat)])).map (·.1) := by
  induction us with
  | nil => rfl
  | cons u us ih =>
    unfold wrongBullet at ih ⊢
    rw [List.filterMap_cons, List.map_cons, List.flatMap_cons, List.map_append, ← ih]
    simp only [refUl, char_inj]
    by_cases h : u.1 = want <;> simp [h]

theorem lookup_ref (lv : Int) (hlv : 0 ≤ lv) : ∀ (tbl : List (Int × Bul)), (∀ p ∈ tbl, 0 ≤ p.1) →
    (tbl.map (fun p => (p.1.toNat, p.2.char))).lookup lv.toNat = (tbl.lookup lv).map Bul.char := by
  intro tbl
  induction tbl with
  | nil => intro _; rfl
  | cons p tbl ih =>
    intro hp
    obtain ⟨a, b⟩ := p
    have ha : 0 ≤ a := hp (a, b) List.mem_cons_self
    have ih' := ih (fun q hq => hp q (List.mem_cons_of_mem _ hq))
    by_cases h : lv = a
    · subst h; simp [List.lookup]
    · have h1 : (lv == a) = false := by simp [h]
      have h2 : (lv.toNat == a.toNat) = false := by simp; omega
      simp only [List.map_cons, List.lookup, h1, h2]
      exact ih'

theorem wrongSub_ref : ∀ (us : List (Bul × Tok × Int)) (tbl : List (Int × Bul)), (∀ p ∈ tbl, 0 ≤ p.1) → (∀ u ∈ us, 0 ≤ u.2.2) →
    (wrongSub tbl us).map (fun t => t.line.toNat) =
      (md004Sub (tbl.map (fun p => (p.1.toNat, p.2.char))) (us.map refUl)).map (·.1) := by
  intro us
  induction us with
  | nil => intro tbl _ _; rfl
  | cons u us ih =>
    intro tbl htbl hus
    obtain ⟨b, t, lv⟩ := u
    have hlv : 0 ≤ lv := hus (b, t, lv) List.mem_cons_self
    have hus' : ∀ u ∈ us, 0 ≤ u.2.2 := fun u hu => hus u (List.mem_cons_of_mem _ hu)
    simp only [wrongSub, List.map_cons, refUl, md004Sub]
    rw [lookup_ref lv hlv tbl htbl]
    cases hl : tbl.lookup lv with
    | none =>
      simp only [Option.map_none]
      have := ih ((lv, b) :: tbl) (by intro p hp; rcases List.mem_cons.mp hp with rfl | hp; exact hlv; exact htbl p hp) hus'
      simpa [refUl] using this
    | some want =>
      simp only [Option.map_some, List.map_append]
      rw [ih tbl htbl hus']
      congr 1
      rw [char_inj]
      by_cases h : b = want <;> simp [h]

end Verif.Model.TokenRules
