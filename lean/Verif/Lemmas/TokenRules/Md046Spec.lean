import Verif.Lemmas.TokenRules.Md046
import Verif.Lemmas.TokenRules.Basic
import Verif.Model.RuleSpec.Blocks
/-!
  MD046 — `spec046` (documented condition over the token stream) reads only kind / line / column, and equals the reference condition
  `RuleSpec.md046` (written from the rule page over LeanMark's events) when both see the same code blocks.
-/
namespace Verif.Model.TokenRules

/-! ## what the scan reads -/
theorem specGo046_congr {ts ts' : List Tok2}
    (h : All₂ (fun t t' => t'.kind = t.kind ∧ t'.line = t.line ∧ t'.col = t.col) ts ts') :
    ∀ a, specGo046 a ts' = specGo046 a ts := by
  induction h with
  | nil => intro a; rfl
  | @cons t t' ts ts' hab _ ih =>
    intro a
    obtain ⟨hk, hl, hc⟩ := hab
    have h1 : mism046 a t' = mism046 a t := by unfold mism046 isCode046 sty046; rw [hk]
    have h2 : step046 a t' = step046 a t := by unfold step046 isCode046 sty046; rw [hk]
    have h3 : report046 a t' = report046 a t := by unfold report046 sty046; rw [hk, hl, hc]
    simp only [specGo046, h1, h2, h3, ih]

/-! ## faithful = reference -/
/-- the code block start tokens of a stream -/
def codeStarts046 (toks : List Tok2) : List Tok2 := toks.filter isCode046

theorem offending046_filter (req : Option Sty046) (toks : List Tok2) :
    offending046 req toks = (codeStarts046 toks).filter (fun t => decide (req ≠ some (sty046 t))) := by
  unfold offending046 codeStarts046
  rw [List.filter_filter]
  congr 1
  funext t
  exact Bool.and_comm _ _

theorem firstSty046_eq (toks : List Tok2) : firstSty046 toks = (codeStarts046 toks).head?.map sty046 := by
  unfold firstSty046 codeStarts046
  rw [List.head?_filter]

theorem fixed046_ref (s : Sty046) : ∀ (cs : List Tok2) (bs : List Verif.Model.RuleSpec.Block),
    bs.map (fun b => (Verif.Model.RuleSpec.isFencedK b.k, b.line)) = cs.map (fun t => (decide (t.kind = .fence), t.line.toNat)) →
    (cs.filter (fun t => decide (some s ≠ some (sty046 t)))).map (fun t => t.line.toNat) =
      (bs.flatMap (fun b => if Verif.Model.RuleSpec.isFencedK b.k == decide (s = .fenced) then []
        else [((b.line, none) : Nat × Option Nat)])).map (·.1) := by
  intro cs
  induction cs with
  | nil => intro bs h; cases bs with
    | nil => rfl
    | cons _ _ => simp at h
  | cons t ts ih =>
    intro bs h
    cases bs with
    | nil => simp at h
    | cons r rs =>
      simp only [List.map_cons, List.cons.injEq, Prod.mk.injEq] at h
      obtain ⟨⟨h1, h2⟩, h3⟩ := h
      rw [List.filter_cons, List.flatMap_cons, List.map_append, ← ih rs h3, h1]
      cases s <;> by_cases hk : t.kind = .fence <;> simp [sty046, hk, h2]

end Verif.Model.TokenRules
