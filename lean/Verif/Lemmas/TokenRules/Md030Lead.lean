import Verif.Model.TokenRules.Md030
/-!
  MD030's adjustment of `leading_spaces`: the number of lines never changes and every new line is a prefix of the old line followed
  by spaces only (`TrailAdj030`) — whatever indices the tracker supplies.
-/
namespace Verif.Model.TokenRules

/-- `l'` is a prefix of `l` followed by spaces -/
def TrailAdj030 (l l' : Str) : Prop := ∃ p n, l' = l.take p ++ List.replicate n ' '

theorem TrailAdj030.refl (l : Str) : TrailAdj030 l l := ⟨l.length, 0, by simp⟩

theorem TrailAdj030.adjLine {l x : Str} (a : Int) (h : TrailAdj030 l x) : TrailAdj030 l (adjLine030 a x) := by
  obtain ⟨p, n, rfl⟩ := h
  unfold adjLine030
  split
  · generalize (l.take p ++ List.replicate n ' ').length - a.toNat = m
    refine ⟨min m p, min (m - (l.take p).length) n, ?_⟩
    rw [List.take_append, List.take_take, List.take_replicate]
  · refine ⟨p, n + (-a).toNat, ?_⟩
    rw [List.append_assoc, List.replicate_append_replicate]

/-- the line loop: same number of lines, every line `TrailAdj030`-related to where it started -/
theorem adjLines030_rel (orig : List Str) (adj : Int) : ∀ (n k : Nat) (ls ls' : List Str),
    ls.length = orig.length → (∀ (i : Nat) x y, orig[i]? = some x → ls[i]? = some y → TrailAdj030 x y) →
    adjLines030 adj n k ls = .ok ls' →
    ls'.length = orig.length ∧ (∀ (i : Nat) x y, orig[i]? = some x → ls'[i]? = some y → TrailAdj030 x y) := by
  intro n
  induction n with
  | zero =>
    intro k ls ls' hl hr h
    simp only [adjLines030, Except.ok.injEq] at h
    subst h
    exact ⟨hl, hr⟩
  | succ n ih =>
    intro k ls ls' hl hr h
    unfold adjLines030 at h
    split at h
    · exact ih (k + 1) ls ls' hl hr h
    · split at h
      · cases h
      · rename_i l hlk
        split at h
        · exact ih (k + 1) ls ls' hl hr h
        · refine ih (k + 1) _ ls' (by simpa using hl) ?_ h
          intro i x y hx hy
          rw [List.getElem?_set] at hy
          split at hy
          · rename_i hki
            split at hy
            · cases hy
              subst hki
              exact (hr k x l hx hlk).adjLine adj
            · cases hy
          · exact hr i x y hx hy

theorem regsGo030_rel (orig : List Str) (fr : Fr030f) : ∀ (regs : List (Nat × Int)) (ls ls' : List Str),
    ls.length = orig.length → (∀ (i : Nat) x y, orig[i]? = some x → ls[i]? = some y → TrailAdj030 x y) →
    regsGo030 fr regs ls = .ok ls' →
    ls'.length = orig.length ∧ (∀ (i : Nat) x y, orig[i]? = some x → ls'[i]? = some y → TrailAdj030 x y) := by
  intro regs
  induction regs with
  | nil =>
    intro ls ls' hl hr h
    simp only [regsGo030, Except.ok.injEq] at h
    subst h
    exact ⟨hl, hr⟩
  | cons r regs ih =>
    intro ls ls' hl hr h
    obtain ⟨k, adj⟩ := r
    unfold regsGo030 at h
    split at h
    · cases h
    · rename_i a b _
      split at h
      · cases h
      · rename_i ls1 h1
        obtain ⟨hl1, hr1⟩ := adjLines030_rel orig adj _ _ ls ls1 hl hr h1
        exact ih ls1 ls' hl1 hr1 h

/-- how a rebuilt `leading_spaces` relates to the old one -/
def LeadAdj030 (ld ld' : Str) : Prop :=
  ∃ ls', ld' = joinWith ['\n'] ls' ∧ ls'.length = (splitOn1 '\n' ld).length ∧
    ∀ (i : Nat) x y, (splitOn1 '\n' ld)[i]? = some x → ls'[i]? = some y → TrailAdj030 x y

theorem regsGo030_leadAdj (fr : Fr030f) (regs : List (Nat × Int)) (ld : Str) (ls : List Str)
    (h : regsGo030 fr regs (splitOn1 '\n' ld) = .ok ls) : LeadAdj030 ld (joinWith ['\n'] ls) := by
  obtain ⟨h1, h2⟩ := regsGo030_rel (splitOn1 '\n' ld) fr regs _ ls rfl
    (by intro i x y hx hy; rw [hx] at hy; cases hy; exact TrailAdj030.refl x) h
  exact ⟨ls, rfl, h1, h2⟩

/-! ## no `IndexError` when the indices stay inside the lines -/
theorem adjLines030_ok (adj : Int) : ∀ (n k : Nat) (ls : List Str), k + n ≤ ls.length →
    ∃ ls', adjLines030 adj n k ls = .ok ls' ∧ ls'.length = ls.length := by
  intro n
  induction n with
  | zero => intro k ls _; exact ⟨ls, rfl, rfl⟩
  | succ n ih =>
    intro k ls hk
    unfold adjLines030
    split
    · exact ih (k + 1) ls (by omega)
    · have hlt : k < ls.length := by omega
      have : ls[k]? = some ls[k] := by simp [hlt]
      rw [this]
      simp only
      split
      · exact ih (k + 1) ls (by omega)
      · obtain ⟨ls', h1, h2⟩ := ih (k + 1) (ls.set k (adjLine030 adj ls[k])) (by simp; omega)
        exact ⟨ls', h1, by simpa using h2⟩

end Verif.Model.TokenRules
