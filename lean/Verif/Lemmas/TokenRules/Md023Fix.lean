import Verif.Model.TokenRules.Md023
import Verif.Lemmas.TokenRules.Md023Apply
/-!
  MD023, fix mode: every registered request is one of four kinds (`Good023`), whatever the stream — the state invariant `Inv023` ties the
  token references the rule keeps (container stack, last skipped text token, split `leading_spaces` cache) to the stream.
-/
namespace Verif.Model.TokenRules

/-! ## the `dict` model -/
theorem dget_ddel {α : Type} (d : List (Nat × α)) (k q : Nat) : dget (ddel d k) q = if q = k then none else dget d q := by
  induction d with
  | nil => simp [ddel, dget]
  | cons p d ih =>
    obtain ⟨k', v⟩ := p
    unfold ddel at ih ⊢
    simp only [List.filter_cons]
    by_cases h : k' = k
    · subst h
      simp only [bne_self_eq_false, Bool.false_eq_true, ↓reduceIte]
      rw [ih]
      by_cases hq : q = k'
      · simp [hq]
      · simp only [hq, ↓reduceIte]
        conv => rhs; unfold dget
        have : ¬ k' = q := fun e => hq e.symm
        simp [this]
    · have : (k' != k) = true := by simpa using h
      simp only [this, ↓reduceIte]
      unfold dget
      by_cases hq : k' = q
      · subst hq; simp [h]
      · simp only [hq, ↓reduceIte]; exact ih

theorem dget_dset {α : Type} (d : List (Nat × α)) (k q : Nat) (v : α) : dget (dset d k v) q = if q = k then some v else dget d q := by
  unfold dset
  conv => lhs; unfold dget
  by_cases h : k = q
  · subst h; simp
  · have : ¬ q = k := fun e => h e.symm
    simp only [h, ↓reduceIte, this]
    rw [dget_ddel]; simp [this]

/-! ## `All₂` helpers -/
theorem All₂.snoc023 {α β : Type} {P : α → β → Prop} {as : List α} {bs : List β} {a : α} {b : β} (h : All₂ P as bs) (hp : P a b) :
    All₂ P (as ++ [a]) (bs ++ [b]) := by
  induction h with
  | nil => exact .cons hp .nil
  | cons hq _ ih => exact .cons hq ih

theorem All₂.append023 {α β : Type} {P : α → β → Prop} {as cs : List α} {bs ds : List β} (h : All₂ P as bs) (h2 : All₂ P cs ds) :
    All₂ P (as ++ cs) (bs ++ ds) := by
  induction h with
  | nil => exact h2
  | cons hq _ ih => exact .cons hq ih

theorem All₂.set023 {α β : Type} {P : α → β → Prop} {as : List α} {bs : List β} (h : All₂ P as bs) (v : β) (hv : ∀ a, P a v) :
    ∀ k, All₂ P as (bs.set k v) := by
  induction h with
  | nil => intro k; exact .nil
  | cons hq _ ih =>
    intro k
    cases k with
    | zero => exact .cons (hv _) (by assumption)
    | succ k => exact .cons hq (ih k)

theorem All₂.refl023 {α : Type} {P : α → α → Prop} (hr : ∀ a, P a a) : ∀ (l : List α), All₂ P l l
  | [] => .nil
  | a :: l => .cons (hr a) (All₂.refl023 hr l)

theorem All₂.of_get023 {α β : Type} {P : α → β → Prop} : ∀ (as : List α) (bs : List β), bs.length = as.length →
    (∀ (i : Nat) (a : α), as[i]? = some a → ∃ b, bs[i]? = some b ∧ P a b) → All₂ P as bs := by
  intro as
  induction as with
  | nil => intro bs hl _; cases bs with | nil => exact .nil | cons _ _ => simp at hl
  | cons a as ih =>
    intro bs hl h
    cases bs with
    | nil => simp at hl
    | cons b bs =>
      obtain ⟨b', hb, hp⟩ := h 0 a rfl
      simp only [List.getElem?_cons_zero, Option.some.injEq] at hb
      subst hb
      refine .cons hp (ih bs (by simpa using hl) ?_)
      intro i x hx
      exact h (i + 1) x (by simpa using hx)

theorem pySet_eq_set {α : Type} (l : List α) (i : Int) (v : α) (l' : List α) (h : pySet l i v = some l') : ∃ k, l' = l.set k v := by
  unfold pySet at h
  split at h
  · split at h
    · cases h; exact ⟨_, rfl⟩
    · cases h
  · split at h
    · cases h; exact ⟨_, rfl⟩
    · cases h

/-! ## the invariant -/
def LeadLine023 (indent : Int) (x x' : Str) : Prop := x' = x ∨ x' = spaces023 indent

def StackInv023 (toks : List Tok2) (i : Nat) (stack : List Cont023) : Prop :=
  ∀ ct ∈ stack, ct.idx < i ∧ ∃ t, toks[ct.idx]? = some t ∧ ct = cont023 ct.idx t ∧ (t.kind = .bquote ∨ t.kind = .ulist ∨ t.kind = .olist)

def CacheInv023 (toks : List Tok2) (cache : Cache023) : Prop :=
  ∀ j sp, dget cache j = some sp → ∃ t l, toks[j]? = some t ∧ (t.kind = .ulist ∨ t.kind = .olist) ∧ t.leading = some l ∧
    All₂ (LeadLine023 t.indent) (splitOn1 '\n' l) sp

/-- `__fix_adjustments`: the cache stays a line-wise rewrite of the lists' `leading_spaces`; the result is `""` or, for a TAB, `" "` -/
theorem fixAdj023_good (toks : List Tok2) (i : Nat) (cm : CM023) (cache cache' : Cache023) (ex w : Str) (ind : Int)
    (hS : StackInv023 toks i cm.stack) (hC : CacheInv023 toks cache) (h : fixAdj023 cm cache ex ind = .ok (cache', w)) :
    CacheInv023 toks cache' ∧ (w = [] ∨ (w = [' '] ∧ ∃ r, ex = '\t' :: r)) := by
  unfold fixAdj023 at h
  split at h
  · cases h; exact ⟨hC, .inl rfl⟩
  · rename_i ct rest hst
    split at h
    · cases h
    · rename_i c r
      split at h
      · cases h
        refine ⟨hC, ?_⟩
        by_cases hc : c = '\t'
        · subst hc; simp
        · simp [hc]
      · rename_i hbq
        split at h
        · rename_i hc
          subst hc
          split at h
          · cases h
          · rename_i track _
            split at h
            · cases h
            · rename_i adj _
              split at h
              · cases h
              · rename_i sp hsp
                split at h
                · cases h
                · rename_i sp' hset
                  cases h
                  refine ⟨?_, .inl rfl⟩
                  obtain ⟨k, rfl⟩ := pySet_eq_set _ _ _ _ hset
                  obtain ⟨_, t, ht, hct, hk⟩ := hS ct (by rw [hst]; exact List.mem_cons_self)
                  have hlead : ct.leading = t.leading := by rw [hct]; rfl
                  have hind : ct.indent = t.indent := by rw [hct]; rfl
                  have hkind : t.kind = .ulist ∨ t.kind = .olist := by
                    rcases hk with hk | hk | hk
                    · exfalso; apply hbq; rw [hct]; simp only [cont023, hk]; rfl
                    · exact .inl hk
                    · exact .inr hk
                  intro j spj hj
                  rw [dget_dset] at hj
                  by_cases hji : j = ct.idx
                  · simp only [hji, ↓reduceIte, Option.some.injEq] at hj
                    subst hj
                    rw [hji]
                    cases hd : dget cache ct.idx with
                    | some sp0 =>
                      rw [hd] at hsp
                      simp only [Option.some.injEq] at hsp
                      subst hsp
                      obtain ⟨t', l, ht', hk', hl', hall⟩ := hC ct.idx sp0 hd
                      rw [ht] at ht'
                      cases ht'
                      refine ⟨t, l, ht, hk', hl', ?_⟩
                      rw [hind]
                      exact hall.set023 _ (fun _ => .inr rfl) k
                    | none =>
                      rw [hd] at hsp
                      simp only at hsp
                      cases hl : ct.leading with
                      | none => rw [hl] at hsp; cases hsp
                      | some l =>
                        rw [hl] at hsp
                        simp only [Option.map_some, Option.some.injEq] at hsp
                        subst hsp
                        refine ⟨t, l, ht, hkind, by rw [← hlead, hl], ?_⟩
                        rw [hind]
                        exact (All₂.refl023 (fun _ => .inl rfl) _).set023 _ (fun _ => .inr rfl) k
                  · simp only [hji, ↓reduceIte] at hj
                    exact hC j spj hj
        · cases h; exact ⟨hC, .inl rfl⟩

/-! ## the per-line loop in fix mode -/
def TextLine023 (l l' : Str) : Prop := l' = l ∨ (startsAlert l = true ∧ l' = stripMarker l)

/-- what `__handle_text_split_end` / `__handle_text_split` may do to one `end_whitespace` line: keep it; put a `\x02` in front of a non-empty
    line; replace the non-empty leading part `a` of `a \x02 b` by nothing (or by one space when `a` starts with a TAB) — an entry that
    ends up as the bare `\x02` becomes empty -/
def EndLine023 (l l' : Str) : Prop :=
  l' = l ∨ (l ≠ [] ∧ l' = wsSplitCh :: l) ∨
  ∃ a b fs, leadSplit023 l = some (a, b) ∧ (fs = [] ∨ (fs = [' '] ∧ ∃ r, a = '\t' :: r)) ∧
    l' = (if fs ++ wsSplitCh :: b = [wsSplitCh] then [] else fs ++ wsSplitCh :: b)

theorem splitEnd023_fix (toks : List Tok2) (n : Nat) (cm : CM023) (L L' : Loop023) (e : Str) (k : Nat)
    (hS : StackInv023 toks n cm.stack) (hC : CacheInv023 toks L.cache) (h : splitEnd023 cm L e k = .ok L') :
    CacheInv023 toks L'.cache ∧ L'.newText = L.newText ∧ ∃ e', L'.newEnd = L.newEnd ++ [e'] ∧ EndLine023 e e' := by
  unfold splitEnd023 at h
  cases hl : leadSplit023 e with
  | none =>
    rw [hl] at h
    simp only [Except.ok.injEq] at h
    subst h
    refine ⟨hC, rfl, _, rfl, ?_⟩
    by_cases he : e.isEmpty = true
    · simp only [he, ↓reduceIte]; exact .inl rfl
    · simp only [he, Bool.false_eq_true, ↓reduceIte]
      exact .inr (.inl ⟨by intro h0; apply he; rw [h0]; rfl, rfl⟩)
  | some p =>
    obtain ⟨a, b⟩ := p
    rw [hl] at h
    simp only at h
    split at h
    · cases h
    · rename_i cache' fs hfa
      simp only [Except.ok.injEq] at h
      subst h
      obtain ⟨hC', hw⟩ := fixAdj023_good toks n cm L.cache cache' a fs k hS hC hfa
      exact ⟨hC', rfl, _, rfl, .inr (.inr ⟨a, b, fs, hl, hw, rfl⟩)⟩

theorem split023_fix (toks : List Tok2) (n : Nat) (cm : CM023) (isEnd : Bool) (L L' : Loop023) (x : Str) (nse : Option Str) (k : Nat)
    (hS : StackInv023 toks n cm.stack) (hC : CacheInv023 toks L.cache) (h : split023 true cm isEnd L x nse k = .ok L') :
    CacheInv023 toks L'.cache ∧ (∃ x', L'.newText = L.newText ++ [x'] ∧ TextLine023 x x') ∧
    (match nse with
     | some e => ∃ e', L'.newEnd = L.newEnd ++ [e'] ∧ EndLine023 e e'
     | none => L'.newEnd = L.newEnd) := by
  unfold split023 at h
  split at h
  · cases h
  · rename_i L1 h1
    have hL1 : CacheInv023 toks L1.cache ∧ (∃ x', L1.newText = L.newText ++ [x'] ∧ TextLine023 x x') ∧ L1.newEnd = L.newEnd := by
      unfold stripLine023 at h1
      simp only [↓reduceIte] at h1
      split at h1
      · rename_i hal
        split at h1
        · cases h1
        · rename_i cache' w hfa
          simp only [Except.ok.injEq] at h1
          subst h1
          exact ⟨(fixAdj023_good toks n cm L.cache cache' _ w _ hS hC hfa).1, ⟨_, rfl, .inr ⟨hal, rfl⟩⟩, rfl⟩
      · simp only [Except.ok.injEq] at h1
        subst h1
        exact ⟨hC, ⟨_, rfl, .inl rfl⟩, rfl⟩
    obtain ⟨hC1, hT1, hE1⟩ := hL1
    cases nse with
    | none =>
      simp only [Except.ok.injEq] at h
      subst h
      exact ⟨hC1, hT1, hE1⟩
    | some e =>
      simp only at h
      split at h
      · obtain ⟨hC2, hT2, e', hE2, hrel⟩ := splitEnd023_fix toks n cm L1 L' e k hS hC1 h
        refine ⟨hC2, ?_, e', by rw [hE2, hE1], hrel⟩
        rw [hT2]; exact hT1
      · simp only [Except.ok.injEq] at h
        subst h
        exact ⟨hC1, hT1, e, by simp [hE1], .inl rfl⟩

theorem loop023_fix (toks : List Tok2) (n : Nat) (cm : CM023) (isEnd : Bool) (hS : StackInv023 toks n cm.stack) :
    ∀ (st : List Str) (se : Option (List Str)) (L L' : Loop023) (k : Nat), CacheInv023 toks L.cache →
    loop023 true cm isEnd L k st se = .ok L' →
    CacheInv023 toks L'.cache ∧ (∃ txs, L'.newText = L.newText ++ txs ∧ All₂ TextLine023 st txs) ∧
    (match se with
     | some es => ∃ ens, L'.newEnd = L.newEnd ++ ens ∧ All₂ EndLine023 (es.take st.length) ens
     | none => L'.newEnd = L.newEnd) := by
  intro st
  induction st with
  | nil =>
    intro se L L' k hC h
    simp only [loop023, Except.ok.injEq] at h
    subst h
    refine ⟨hC, ⟨[], by simp, .nil⟩, ?_⟩
    cases se with
    | none => rfl
    | some es => exact ⟨[], by simp, by simpa using All₂.nil⟩
  | cons x xs ih =>
    intro se L L' k hC h
    cases se with
    | none =>
      unfold loop023 at h
      split at h
      · cases h
      · rename_i L1 h1
        obtain ⟨hC1, ⟨x', hT1, hx⟩, hE1⟩ := split023_fix toks n cm isEnd L L1 x none k hS hC h1
        obtain ⟨hC2, ⟨txs, hT2, hxs⟩, hE2⟩ := ih none L1 L' (k + 1) hC1 h
        simp only at hE1 hE2
        refine ⟨hC2, ⟨x' :: txs, by rw [hT2, hT1]; simp, .cons hx hxs⟩, by rw [hE2, hE1]⟩
    | some es =>
      cases es with
      | nil => simp [loop023] at h
      | cons e es =>
        unfold loop023 at h
        split at h
        · cases h
        · rename_i L1 h1
          obtain ⟨hC1, ⟨x', hT1, hx⟩, e', hE1, he⟩ := split023_fix toks n cm isEnd L L1 x (some e) k hS hC h1
          obtain ⟨hC2, ⟨txs, hT2, hxs⟩, ens, hE2, hes⟩ := ih (some es) L1 L' (k + 1) hC1 h
          refine ⟨hC2, ⟨x' :: txs, by rw [hT2, hT1]; simp, .cons hx hxs⟩, e' :: ens, by rw [hE2, hE1]; simp, ?_⟩
          simpa using All₂.cons he hes

/-! ## the requests of one `next_token` call -/
/-- the four kinds of request, relative to the token they name -/
def WsReq023 (t : Tok2) (f : Field2) (v : Val) : Prop :=
  ∃ c r w, (t.kind = .atx ∨ t.kind = .setext ∨ t.kind = .setextEnd) ∧
    f = .base .extractedWhitespace ∧ t.ws = c :: r ∧ v = .str w ∧ (w = [] ∨ (w = [' '] ∧ c = '\t'))

def EndReq023 (t : Tok2) (f : Field2) (v : Val) : Prop :=
  ∃ e ls', t.kind = .text ∧ f = .endWhitespace ∧ t.endWs = some e ∧
    v = .str (joinWith nl023 ls') ∧ All₂ EndLine023 (splitOn1 '\n' e) ls'

def TextReq023 (t : Tok2) (f : Field2) (v : Val) : Prop :=
  ∃ ls', t.kind = .text ∧ f = .base .tokenText ∧
    v = .str (joinWith nl023 ls') ∧ All₂ TextLine023 (splitOn1 '\n' t.text) ls'

def LeadReq023 (t : Tok2) (f : Field2) (v : Val) : Prop :=
  ∃ l ls', (t.kind = .ulist ∨ t.kind = .olist) ∧ f = .base .leadingSpaces ∧ t.leading = some l ∧
    v = .str (joinWith nl023 ls') ∧ All₂ (LeadLine023 t.indent) (splitOn1 '\n' l) ls'

def GoodFor023 (t : Tok2) (f : Field2) (v : Val) : Prop := WsReq023 t f v ∨ EndReq023 t f v ∨ TextReq023 t f v ∨ LeadReq023 t f v

def Good023 (toks : List Tok2) (q : FixReq2) : Prop := ∃ t, toks[q.idx]? = some t ∧ GoodFor023 t q.field q.val

def SkipInv023 (toks : List Tok2) (ls : Option (Nat × Str × Option Str)) : Prop :=
  ∀ j tx ew, ls = some (j, tx, ew) → ∃ t, toks[j]? = some t ∧ t.kind = .text ∧ t.text = tx ∧ t.endWs = ew

structure Inv023 (toks : List Tok2) (i : Nat) (s : St023) : Prop where
  stack : StackInv023 toks i s.cm.stack
  cache : CacheInv023 toks s.cache
  skipped : SkipInv023 toks s.lastSkipped

/-- `__handle_text` in fix mode -/
theorem text023_fix (toks : List Tok2) (n : Nat) (s s' : St023) (j : Nat) (tx : Str) (ew : Option Str) (isEnd : Bool) (r : List FixReq2)
    (hS : StackInv023 toks n s.cm.stack) (hC : CacheInv023 toks s.cache) (h : text023 true s j tx ew isEnd = .ok (s', r)) :
    s'.cm = s.cm ∧ CacheInv023 toks s'.cache ∧ (s'.lastSkipped = none ∨ s'.lastSkipped = some (j, tx, ew)) ∧
    ∀ q ∈ r, q.idx = j ∧
      ((∃ e ls', ew = some e ∧ q.field = .endWhitespace ∧ q.val = .str (joinWith nl023 ls') ∧ All₂ EndLine023 (splitOn1 '\n' e) ls') ∨
       (∃ ls', q.field = .base .tokenText ∧ q.val = .str (joinWith nl023 ls') ∧ All₂ TextLine023 (splitOn1 '\n' tx) ls')) := by
  obtain ⟨cm, se, aw, sf, lsk, ca⟩ := s
  unfold text023 at h
  split at h
  · simp only [Except.ok.injEq, Prod.mk.injEq] at h
    obtain ⟨rfl, rfl⟩ := h
    exact ⟨rfl, hC, .inr rfl, by intro q hq; cases hq⟩
  · simp only [Bool.true_or, Bool.not_true, Bool.false_eq_true, ↓reduceIte] at h
    cases ew with
    | none =>
      simp only [Option.map_none, Bool.false_eq_true, ↓reduceIte] at h
      split at h
      · cases h
      · rename_i L hloop
        obtain ⟨hC', ⟨txs, hT, hTx⟩, _⟩ := loop023_fix toks n cm isEnd hS _ _ _ L 0 hC hloop
        simp only [List.nil_append] at hT
        simp only [Except.ok.injEq, Prod.mk.injEq] at h
        obtain ⟨rfl, rfl⟩ := h
        refine ⟨rfl, hC', .inl rfl, ?_⟩
        intro q hq
        simp only [List.nil_append] at hq
        split at hq
        · simp only [List.mem_singleton] at hq
          subst hq
          exact ⟨rfl, .inr ⟨txs, rfl, by rw [hT], hTx⟩⟩
        · cases hq
    | some e =>
      simp only [Option.map_some] at h
      split at h
      · cases h
      · rename_i hlen
        have hl : (splitOn1 '\n' e).length = (splitOn1 '\n' tx).length := by simpa using hlen
        split at h
        · cases h
        · rename_i L hloop
          obtain ⟨hC', ⟨txs, hT, hTx⟩, hE⟩ := loop023_fix toks n cm isEnd hS _ _ _ L 0 hC hloop
          simp only [List.nil_append] at hT
          obtain ⟨ens, hE1, hE2⟩ := hE
          simp only [List.nil_append] at hE1
          rw [← hl, List.take_length] at hE2
          simp only [Except.ok.injEq, Prod.mk.injEq] at h
          obtain ⟨rfl, rfl⟩ := h
          refine ⟨rfl, hC', .inl rfl, ?_⟩
          intro q hq
          rcases List.mem_append.mp hq with hq | hq
          · split at hq
            · simp only [List.mem_singleton] at hq
              subst hq
              exact ⟨rfl, .inl ⟨e, ens, rfl, rfl, by rw [hE1], hE2⟩⟩
            · cases hq
          · split at hq
            · simp only [List.mem_singleton] at hq
              subst hq
              exact ⟨rfl, .inr ⟨txs, rfl, by rw [hT], hTx⟩⟩
            · cases hq

theorem bqAdd023_stack (cm cm' : CM023) (d : Int) (h : bqAdd023 cm d = .ok cm') : cm'.stack = cm.stack := by
  unfold bqAdd023 at h
  split at h
  · cases h
  · cases h; rfl

theorem cmPre023_stack (cm cm' : CM023) (t : Tok2) (h : cmPre023 cm t = .ok cm') : cm'.stack = cm.stack := by
  unfold cmPre023 at h
  split at h
  · exact bqAdd023_stack _ _ _ h
  · cases h; rfl

theorem popStack023_stack (cm cm' : CM023) (h : popStack023 cm = .ok cm') : ∃ ct, cm.stack = ct :: cm'.stack := by
  unfold popStack023 at h
  split at h
  · cases h
  · rename_i ct r hst
    cases h
    exact ⟨ct, hst⟩

/-- `manage_container_tokens`: the stack is kept, pushed with the current token, or popped -/
theorem cmPost023_stack (cm cm' : CM023) (i : Nat) (t : Tok2) (h : cmPost023 cm i t = .ok cm') :
    cm'.stack = cm.stack ∨
    (cm'.stack = cont023 i t :: cm.stack ∧ (t.kind = .bquote ∨ t.kind = .ulist ∨ t.kind = .olist)) ∨
    ∃ ct, cm.stack = ct :: cm'.stack := by
  unfold cmPost023 at h
  have hdef : ∀ (h : (if cm.stack.isEmpty then Except.ok cm else cmLeaf023 cm t) = Except.ok cm'), cm'.stack = cm.stack := by
    intro h
    split at h
    · cases h; rfl
    · unfold cmLeaf023 at h
      split at h
      · cases h
      · rename_i d ll _
        exact bqAdd023_stack { cm with lastLeaf := ll } cm' d h
  cases hk : t.kind <;> simp only [hk] at h
  case bquote => cases h; exact .inr (.inl ⟨rfl, .inl rfl⟩)
  case ulist => cases h; exact .inr (.inl ⟨rfl, .inr (.inl rfl)⟩)
  case olist => cases h; exact .inr (.inl ⟨rfl, .inr (.inr rfl)⟩)
  case bquoteEnd =>
    split at h
    · cases h
    · obtain ⟨ct, hct⟩ := popStack023_stack _ _ h
      exact .inr (.inr ⟨ct, hct⟩)
  case li =>
    split at h
    · cases h
    · cases h; exact .inl rfl
  case ulistEnd =>
    split at h
    · cases h
    · cases h
    · obtain ⟨ct, hct⟩ := popStack023_stack _ _ h
      exact .inr (.inr ⟨ct, hct⟩)
  case olistEnd =>
    split at h
    · cases h
    · cases h
    · obtain ⟨ct, hct⟩ := popStack023_stack _ _ h
      exact .inr (.inr ⟨ct, hct⟩)
  all_goals exact .inl (hdef h)

theorem StackInv023.mono {toks : List Tok2} {i : Nat} {st : List Cont023} (h : StackInv023 toks i st) : StackInv023 toks (i + 1) st :=
  fun ct hct => ⟨Nat.lt_succ_of_lt (h ct hct).1, (h ct hct).2⟩

theorem cmPost023_inv (toks : List Tok2) (cm cm' : CM023) (i : Nat) (t : Tok2) (ht : toks[i]? = some t)
    (hS : StackInv023 toks i cm.stack) (h : cmPost023 cm i t = .ok cm') : StackInv023 toks (i + 1) cm'.stack := by
  rcases cmPost023_stack cm cm' i t h with h1 | ⟨h1, hk⟩ | ⟨ct, h1⟩
  · rw [h1]; exact hS.mono
  · rw [h1]
    intro ct hct
    rcases List.mem_cons.mp hct with rfl | hct
    · exact ⟨Nat.lt_succ_self _, t, ht, rfl, hk⟩
    · exact hS.mono ct hct
  · intro c hc
    exact hS.mono c (by rw [h1]; exact List.mem_cons_of_mem _ hc)

/-- the heading / text dispatch in fix mode -/
theorem dispatch023_fix (toks : List Tok2) (i : Nat) (s s2 : St023) (t : Tok2) (o : Out) (hI : Inv023 toks i s)
    (ht : toks[i]? = some t) (h : dispatch023 true s i t = .ok (s2, o)) :
    s2.cm = s.cm ∧ CacheInv023 toks s2.cache ∧ SkipInv023 toks s2.lastSkipped ∧ o.repls = [] ∧ ∀ q ∈ o.reqs, Good023 toks q := by
  unfold dispatch023 at h
  cases hk : t.kind <;> simp only [hk] at h
  case atx =>
    unfold atx023 at h
    split at h
    · cases h; exact ⟨rfl, hI.cache, hI.skipped, rfl, by intro q hq; cases hq⟩
    · rename_i hw
      simp only [↓reduceIte] at h
      split at h
      · cases h
      · rename_i cache' w hfa
        cases h
        obtain ⟨hC', hw'⟩ := fixAdj023_good toks i s.cm s.cache cache' t.ws w 0 hI.stack hI.cache hfa
        refine ⟨rfl, hC', hI.skipped, rfl, ?_⟩
        intro q hq
        simp only [List.mem_singleton] at hq
        subst hq
        cases hws : t.ws with
        | nil => rw [hws] at hw; simp at hw
        | cons c r =>
          refine ⟨t, ht, .inl ⟨c, r, w, .inl hk, rfl, hws, rfl, ?_⟩⟩
          rcases hw' with h0 | ⟨h1, r', hr'⟩
          · exact .inl h0
          · rw [hws] at hr'; cases hr'; exact .inr ⟨h1, rfl⟩
  case setext =>
    simp only [setext023, Except.ok.injEq, Prod.mk.injEq] at h
    obtain ⟨rfl, rfl⟩ := h
    refine ⟨rfl, hI.cache, ?_, rfl, ?_⟩
    · intro j tx ew hj; cases hj
    intro q hq
    cases hws : t.ws with
    | nil => simp only [hws] at hq; cases hq
    | cons c r =>
      simp only [hws, ↓reduceIte, List.mem_singleton] at hq
      subst hq
      refine ⟨t, ht, .inl ⟨c, r, _, .inr (.inl hk), rfl, hws, rfl, ?_⟩⟩
      by_cases hc : c = '\t'
      · simp [hc]
      · simp [hc]
  case text =>
    cases htx : text023 true s i t.text t.endWs false with
    | error e => rw [htx] at h; cases h
    | ok p =>
      obtain ⟨s3, r3⟩ := p
      rw [htx] at h
      cases h
      obtain ⟨h1, h2, h3, h4⟩ := text023_fix toks i s _ i t.text t.endWs false _ hI.stack hI.cache htx
      refine ⟨h1, h2, ?_, rfl, ?_⟩
      · intro j tx ew hj
        rcases h3 with h3 | h3
        · rw [h3] at hj; cases hj
        · rw [h3] at hj; cases hj; exact ⟨t, ht, hk, rfl, rfl⟩
      · intro q hq
        obtain ⟨hqi, hq'⟩ := h4 q hq
        rcases hq' with ⟨e, ls', he, hf, hv, hall⟩ | ⟨ls', hf, hv, hall⟩
        · exact ⟨t, by rw [hqi]; exact ht, .inr (.inl ⟨e, ls', hk, hf, he, hv, hall⟩)⟩
        · exact ⟨t, by rw [hqi]; exact ht, .inr (.inr (.inl ⟨ls', hk, hf, hv, hall⟩))⟩
  case setextEnd =>
    unfold setextEnd023 at h
    split at h
    · cases h
    · rename_i s1 r1 hre
      have h1 : s1.cm = s.cm ∧ CacheInv023 toks s1.cache ∧ SkipInv023 toks s1.lastSkipped ∧ ∀ q ∈ r1, Good023 toks q := by
        unfold reHandle023 at hre
        split at hre
        · rename_i j tx ew hls
          simp only [↓reduceIte] at hre
          obtain ⟨a1, a2, a3, a4⟩ := text023_fix toks i s s1 j tx ew true r1 hI.stack hI.cache hre
          obtain ⟨tj, htj, hkj, htxj, hewj⟩ := hI.skipped j tx ew hls
          refine ⟨a1, a2, ?_, ?_⟩
          · intro j' tx' ew' hj
            rcases a3 with a3 | a3
            · rw [a3] at hj; cases hj
            · rw [a3] at hj; cases hj; exact ⟨tj, htj, hkj, htxj, hewj⟩
          · intro q hq
            obtain ⟨hqi, hq'⟩ := a4 q hq
            rcases hq' with ⟨e, ls', he, hf, hv, hall⟩ | ⟨ls', hf, hv, hall⟩
            · exact ⟨tj, by rw [hqi]; exact htj, .inr (.inl ⟨e, ls', hkj, hf, by rw [hewj]; exact he, hv, hall⟩)⟩
            · exact ⟨tj, by rw [hqi]; exact htj, .inr (.inr (.inl ⟨ls', hkj, hf, hv, by rw [htxj]; exact hall⟩))⟩
        · cases hre
          exact ⟨rfl, hI.cache, hI.skipped, by intro q hq; cases hq⟩
      obtain ⟨b1, b2, b3, b4⟩ := h1
      split at h
      · cases h
      · rename_i s2' r2 hws
        have h2 : s2'.cm = s.cm ∧ CacheInv023 toks s2'.cache ∧ SkipInv023 toks s2'.lastSkipped ∧ ∀ q ∈ r2, Good023 toks q := by
          unfold endWs023 at hws
          split at hws
          · cases hws; exact ⟨b1, b2, b3, by intro q hq; cases hq⟩
          · rename_i hw
            simp only [↓reduceIte] at hws
            split at hws
            · cases hws
            · rename_i cache' w hfa
              cases hws
              obtain ⟨hC', hw'⟩ := fixAdj023_good toks i s1.cm s1.cache cache' t.ws w 0 (by rw [b1]; exact hI.stack) b2 hfa
              refine ⟨b1, hC', b3, ?_⟩
              intro q hq
              simp only [List.mem_singleton] at hq
              subst hq
              cases hws' : t.ws with
              | nil => rw [hws'] at hw; simp at hw
              | cons c r =>
                refine ⟨t, ht, .inl ⟨c, r, w, .inr (.inr hk), rfl, hws', rfl, ?_⟩⟩
                rcases hw' with h0 | ⟨h1, r', hr'⟩
                · exact .inl h0
                · rw [hws'] at hr'; cases hr'; exact .inr ⟨h1, rfl⟩
        obtain ⟨c1, c2, c3, c4⟩ := h2
        have hgood : ∀ q ∈ r1 ++ r2, Good023 toks q := by
          intro q hq
          rcases List.mem_append.mp hq with hq | hq
          · exact b4 q hq
          · exact c4 q hq
        unfold endReport023 at h
        split at h
        · split at h
          · cases h
          · cases h; exact ⟨c1, c2, c3, rfl, hgood⟩
        · cases h; exact ⟨c1, c2, c3, rfl, hgood⟩
  all_goals
    cases h
    exact ⟨rfl, hI.cache, hI.skipped, rfl, by intro q hq; cases hq⟩

/-- one `next_token` call in fix mode -/
theorem next023_fix (toks : List Tok2) (i : Nat) (s s' : St023) (t : Tok2) (o : Out) (hI : Inv023 toks i s)
    (ht : toks[i]? = some t) (h : next023 () true toks s i t = .ok (s', o)) :
    Inv023 toks (i + 1) s' ∧ o.repls = [] ∧ ∀ q ∈ o.reqs, Good023 toks q := by
  unfold next023 at h
  split at h
  · cases h
  · rename_i cm1 hpre
    split at h
    · cases h
    · rename_i s2 o2 hd
      split at h
      · cases h
      · rename_i cm3 hpost
        cases h
        have hI1 : Inv023 toks i { s with cm := cm1 } :=
          ⟨by show StackInv023 toks i cm1.stack; rw [cmPre023_stack _ _ _ hpre]; exact hI.stack, hI.cache, hI.skipped⟩
        obtain ⟨d1, d2, d3, d4, d5⟩ := dispatch023_fix toks i _ s2 t o2 hI1 ht hd
        have hS2 : StackInv023 toks i s2.cm.stack := by rw [d1]; exact hI1.stack
        refine ⟨⟨cmPost023_inv toks s2.cm cm3 i t ht hS2 hpost, d2, d3⟩, d4, ?_⟩
        intro q hq
        rcases List.mem_append.mp hq with hq | hq
        · exact d5 q hq
        · unfold listEnd023 at hq
          split at hq
          · split at hq
            · rename_i j hj
              split at hq
              · rename_i sp hsp
                simp only [List.mem_singleton] at hq
                subst hq
                obtain ⟨tj, l, htj, hkj, hlj, hall⟩ := d2 j sp hsp
                exact ⟨tj, htj, .inr (.inr (.inr ⟨l, sp, hkj, rfl, hlj, rfl, hall⟩))⟩
              · cases hq
            · cases hq
          · cases hq

theorem runFrom2_023_fix (toks : List Tok2) : ∀ (ts : List Tok2) (pre : List Tok2) (s s' : St023) (out : Out),
    toks = pre ++ ts → Inv023 toks pre.length s → runFrom2 md023 () true toks s pre.length ts = .ok (s', out) →
    out.repls = [] ∧ ∀ q ∈ out.reqs, Good023 toks q := by
  intro ts
  induction ts with
  | nil =>
    intro pre s s' out _ _ h
    simp only [runFrom2, Except.ok.injEq, Prod.mk.injEq] at h
    obtain ⟨_, rfl⟩ := h
    exact ⟨rfl, by intro q hq; cases hq⟩
  | cons t ts ih =>
    intro pre s s' out hpre hI h
    unfold runFrom2 at h
    split at h
    · cases h
    · rename_i s1 o1 hn
      split at h
      · cases h
      · rename_i s2 os hr
        simp only [Except.ok.injEq, Prod.mk.injEq] at h
        obtain ⟨_, rfl⟩ := h
        have ht : toks[pre.length]? = some t := by rw [hpre]; simp
        obtain ⟨hI1, h1, h2⟩ := next023_fix toks pre.length s s1 t o1 hI ht hn
        have := ih (pre ++ [t]) s1 s2 os (by rw [hpre]; simp) (by simpa using hI1) (by simpa using hr)
        refine ⟨?_, ?_⟩
        · show o1.repls ++ os.repls = []
          rw [h1, this.1]; rfl
        · intro q hq
          have hq' : q ∈ o1.reqs ++ os.reqs := hq
          rcases List.mem_append.mp hq' with hq' | hq'
          · exact h2 q hq'
          · exact this.2 q hq'

theorem Inv023_init (toks : List Tok2) : Inv023 toks 0 (md023.init ()) :=
  ⟨(by unfold StackInv023; intro ct hct; cases hct), (by unfold CacheInv023; intro j sp hj; cases hj), (by unfold SkipInv023; intro j tx ew hj; cases hj)⟩

/-- every request of a fix-mode run is `Good023`; there are no replacement records -/
theorem fixOut023_good (toks : List Tok2) (o : Out) (h : fixOut md023 () toks = .ok o) : o.repls = [] ∧ ∀ q ∈ o.reqs, Good023 toks q := by
  unfold fixOut at h
  split at h
  · cases h
  · rename_i s' o' hr
    cases h
    exact runFrom2_023_fix toks toks [] _ s' o rfl (Inv023_init toks) hr

end Verif.Model.TokenRules
