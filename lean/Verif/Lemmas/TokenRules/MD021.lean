import Verif.Lemmas.TokenRules.Basic
import Verif.Model.TokenRules.MD021
/-!
  MD021 is the one modelled rule with a NON-LOCAL request: the whitespace of the first text token of a closed ATX heading is
  rewritten when the END token of the heading arrives.  The generic one-step lemmas do not apply; H1 and idempotence are proved
  by an induction over the stream with the global request list fixed (`md021_suffix`): the scan-mode state on the fixed
  stream is related to the fix-mode state on the original one by `Rel021`, which says "no left error is seen when the first
  text token is going to be rewritten".
-/
namespace Verif.Model.TokenRules

abbrev wsReq (j : Nat) : FixReq := ⟨j, .extractedWhitespace, .str [' ']⟩
abbrev edReq (i : Nat) : FixReq := ⟨i, .extraEndData, .str [' ']⟩

/-! ## the shape of one fix-mode step -/
/-- requests of one step: none — or, at an ATX end token, the whitespace of the remembered first text token (when the left side
    was in error) followed by the end data of the current token (when the closing whitespace is too long) -/
theorem next021_fix_shape (s : St021) (i : Nat) (t : Tok) s1 rp fx (h : next021 () true s i t = .ok (s1, rp, fx)) :
    rp = [] ∧
    ((t.kind ≠ .atxEnd ∧ fx = []) ∨
     (t.kind = .atxEnd ∧ s1 = { atx := none, leftErr := s.leftErr, first := none, last := none } ∧
       ∃ extra0 extra, t.endData = some extra0 ∧ endData021 s extra0 = .ok extra ∧
        ((s.leftErr = false ∧ extra.length ≤ 1 ∧ fx = []) ∨
         ((s.leftErr = true ∨ extra.length > 1) ∧ s.atx.isSome ∧
           fx = (if s.leftErr then (match s.first with | some j => [wsReq j] | none => []) else []) ++
                (if extra.length > 1 then [edReq i] else []) ∧
           (s.leftErr = true → s.first.isSome))))) := by
  unfold next021 at h
  by_cases hk : t.kind = .atxEnd
  · rw [hk] at h
    simp only at h
    cases hed : t.endData with
    | none => rw [hed] at h; cases h
    | some extra0 =>
      rw [hed] at h
      simp only at h
      cases hx : endData021 s extra0 with
      | error e => rw [hx] at h; cases h
      | ok extra =>
        rw [hx] at h
        simp only at h
        by_cases htr : (s.leftErr || decide (extra.length > 1)) = true
        · rw [if_pos htr] at h
          cases hatx : s.atx with
          | none => rw [hatx] at h; cases h
          | some a =>
            obtain ⟨line, col, hc⟩ := a
            rw [hatx] at h
            simp only [↓reduceIte] at h
            cases hle : s.leftErr with
            | false =>
              rw [hle] at h htr
              simp only [Bool.false_eq_true, ↓reduceIte, List.nil_append, Except.ok.injEq, Prod.mk.injEq] at h
              obtain ⟨rfl, rfl, rfl⟩ := h
              refine ⟨rfl, .inr ⟨hk, by simp, extra0, extra, rfl, hx, .inr ⟨?_, rfl, by simp, by simp⟩⟩⟩
              simpa using htr
            | true =>
              rw [hle] at h
              simp only [↓reduceIte] at h
              cases hf : s.first with
              | none => rw [hf] at h; cases h
              | some j =>
                rw [hf] at h
                simp only [Except.ok.injEq, Prod.mk.injEq] at h
                obtain ⟨rfl, rfl, rfl⟩ := h
                exact ⟨rfl, .inr ⟨hk, by simp, extra0, extra, rfl, hx, .inr ⟨.inl rfl, rfl, by simp, by simp⟩⟩⟩
        · rw [if_neg htr] at h
          simp only [Except.ok.injEq, Prod.mk.injEq] at h
          obtain ⟨rfl, rfl, rfl⟩ := h
          simp only [Bool.or_eq_true, decide_eq_true_eq, not_or, Bool.not_eq_true] at htr
          exact ⟨rfl, .inr ⟨hk, rfl, extra0, extra, rfl, hx, .inl ⟨htr.1, by omega, rfl⟩⟩⟩
  · have : rp = [] ∧ fx = [] := by
      split at h
      · simp only [Except.ok.injEq, Prod.mk.injEq] at h; exact ⟨h.2.1.symm, h.2.2.symm⟩
      · simp only [Except.ok.injEq, Prod.mk.injEq] at h; exact ⟨h.2.1.symm, h.2.2.symm⟩
      · rename_i h'; exact absurd h' hk
      · split at h
        · split at h
          · cases h
          · simp only [Except.ok.injEq, Prod.mk.injEq] at h; exact ⟨h.2.1.symm, h.2.2.symm⟩
        · simp only [Except.ok.injEq, Prod.mk.injEq] at h; exact ⟨h.2.1.symm, h.2.2.symm⟩
      · simp only [Except.ok.injEq, Prod.mk.injEq] at h; exact ⟨h.2.1.symm, h.2.2.symm⟩
    exact ⟨this.1, .inl ⟨hk, this.2⟩⟩

end Verif.Model.TokenRules

namespace Verif.Model.TokenRules

/-! ## requests that reach back: only the whitespace of the remembered first text token -/
/-- every request of a run from `(s, k)` names a token at or after `k`, or is the whitespace request for `s.first` -/
def Low021 (fxs : List FixReq) (k : Nat) (s : St021) : Prop :=
  ∀ q ∈ fxs, k ≤ q.idx ∨ (s.first = some q.idx ∧ q = wsReq q.idx)

/-- how one fix-mode step changes `first` -/
theorem next021_first (s : St021) (i : Nat) (t : Tok) s1 rp fx (h : next021 () true s i t = .ok (s1, rp, fx)) :
    s1.first = s.first ∨ s1.first = some i ∨ s1.first = none := by
  by_cases hk : t.kind = .atxEnd
  · obtain ⟨_, hs⟩ := next021_fix_shape s i t s1 rp fx h
    rcases hs with ⟨hne, _⟩ | ⟨_, rfl, _⟩
    · exact absurd hk hne
    · right; right; rfl
  · unfold next021 at h
    split at h
    · simp only [Except.ok.injEq, Prod.mk.injEq] at h; left; rw [← h.1]
    · simp only [Except.ok.injEq, Prod.mk.injEq] at h; left; rw [← h.1]
    · rename_i hk'; exact absurd hk' hk
    · split at h
      · split at h
        · cases h
        · simp only [Except.ok.injEq, Prod.mk.injEq] at h; right; left; rw [← h.1]
      · simp only [Except.ok.injEq, Prod.mk.injEq] at h; left; rw [← h.1]
    · simp only [Except.ok.injEq, Prod.mk.injEq] at h; left; rw [← h.1]

theorem runFrom021_low : ∀ (ts : List Tok) (s : St021) (k : Nat) s_end rps fxs,
    runFrom md021 () true s k ts = .ok (s_end, rps, fxs) → (∀ j, s.first = some j → j < k) → Low021 fxs k s := by
  intro ts
  induction ts with
  | nil => intro s k s_end rps fxs h _ q hq; simp [runFrom] at h; simp [h.2.2] at hq
  | cons t ts ih =>
    intro s k s_end rps fxs h hlt q hq
    unfold runFrom at h
    split at h
    · cases h
    · rename_i s1 rp fx hn
      split at h
      · cases h
      · rename_i s2 rps' fxs' hr
        simp only [Except.ok.injEq, Prod.mk.injEq] at h
        obtain ⟨_, _, rfl⟩ := h
        have hn' : next021 () true s k t = .ok (s1, rp, fx) := hn
        have hfirst := next021_first s k t s1 rp fx hn'
        have hlt1 : ∀ j, s1.first = some j → j < k + 1 := by
          intro j hj
          rcases hfirst with h1 | h1 | h1
          · rw [h1] at hj; have := hlt j hj; omega
          · rw [h1] at hj; cases hj; omega
          · rw [h1] at hj; cases hj
        rcases List.mem_append.mp hq with hq | hq
        · -- a request of this step
          obtain ⟨_, hs⟩ := next021_fix_shape s k t s1 rp fx hn'
          rcases hs with ⟨_, rfl⟩ | ⟨_, _, _, _, _, _, hc⟩
          · simp at hq
          · rcases hc with ⟨_, _, rfl⟩ | ⟨_, _, rfl, _⟩
            · simp at hq
            · rcases List.mem_append.mp hq with hq | hq
              · split at hq
                · split at hq
                  · rename_i j hj
                    simp only [List.mem_singleton] at hq
                    subst hq
                    right; exact ⟨hj, rfl⟩
                  · simp at hq
                · simp at hq
              · split at hq
                · simp only [List.mem_singleton] at hq
                  subst hq; left; exact Nat.le_refl _
                · simp at hq
        · have := ih s1 (k + 1) s2 rps' fxs' hr hlt1 q hq
          rcases this with h1 | ⟨h1, h2⟩
          · left; omega
          · rcases hfirst with h3 | h3 | h3
            · right; rw [← h3]; exact ⟨h1, h2⟩
            · rw [h3] at h1; cases h1; left; exact Nat.le_refl _
            · rw [h3] at h1; cases h1

theorem low_group_nil (fxs : List FixReq) (i : Nat) (s1 : St021) (hlow : Low021 fxs (i + 1) s1) (hf : s1.first ≠ some i) :
    groupOf fxs i = [] := by
  apply groupOf_none
  intro q hq heq
  rcases hlow q hq with h | ⟨h, _⟩
  · omega
  · rw [heq] at h; exact hf h

theorem low_group_first (fxs : List FixReq) (i : Nat) (s1 : St021) (hlow : Low021 fxs (i + 1) s1) :
    ∃ n, groupOf fxs i = List.replicate n (Field.extractedWhitespace, Val.str [' ']) ∧ (n = 0 → wsReq i ∉ fxs) := by
  induction fxs with
  | nil => exact ⟨0, rfl, fun _ h => by simp at h⟩
  | cons q qs ih =>
    obtain ⟨n, hn, h0⟩ := ih (fun q' hq' => hlow q' (List.mem_cons_of_mem _ hq'))
    by_cases hq : q.idx = i
    · have := hlow q List.mem_cons_self
      rcases this with h | ⟨_, h⟩
      · omega
      · refine ⟨n + 1, ?_, fun h => by omega⟩
        have hqi : (q.idx == i) = true := by simp [hq]
        simp only [groupOf, List.filter_cons, hqi, ↓reduceIte, List.map_cons, List.replicate_succ]
        rw [h]
        simp only [List.cons.injEq, true_and]
        exact hn
    · refine ⟨n, ?_, fun h hm => ?_⟩
      · have hqi : (q.idx == i) = false := by simp [hq]
        simp only [groupOf, List.filter_cons, hqi]
        exact hn
      · rcases List.mem_cons.mp hm with h1 | h1
        · rw [← h1] at hq; exact hq rfl
        · exact h0 h h1

/-- applying `n` identical whitespace requests -/
theorem apply_replicate_ws (t t' : Tok) (n : Nat)
    (h : applyGroup t (List.replicate n (Field.extractedWhitespace, Val.str [' '])) = .ok t') :
    (n = 0 ∧ t' = t) ∨ (n = 1 ∧ modify t .extractedWhitespace (.str [' ']) = some t') := by
  match n with
  | 0 => left; simp only [List.replicate_zero, applyGroup_nil, Except.ok.injEq] at h; exact ⟨rfl, h.symm⟩
  | 1 =>
    right
    simp only [List.replicate_one, applyGroup_single] at h
    split at h
    · rename_i tm hm; cases h; exact ⟨rfl, hm⟩
    · cases h
  | n + 2 =>
    have : hasDup ((List.replicate (n + 2) (Field.extractedWhitespace, Val.str [' '])).map (·.1)) = true := by
      have e : (Field.extractedWhitespace == Field.extractedWhitespace) = true := by decide
      simp [List.replicate_succ, hasDup, e]
    unfold applyGroup at h
    rw [this] at h
    cases h

end Verif.Model.TokenRules

namespace Verif.Model.TokenRules

/-! ## step equations -/
theorem next021_atx (fm : Bool) (s : St021) (i : Nat) (t : Tok) (hk : t.kind = .atx) :
    next021 () fm s i t =
      .ok ({ s with atx := if t.trailing ≠ 0 then some (t.line, t.col, t.hashCount) else s.atx, leftErr := false }, [], []) := by
  unfold next021; rw [hk]

theorem next021_paraEnd (fm : Bool) (s : St021) (i : Nat) (t : Tok) (hk : t.kind = .paraEnd) :
    next021 () fm s i t = .ok ({ s with atx := none }, [], []) := by
  unfold next021; rw [hk]

theorem next021_other (fm : Bool) (s : St021) (i : Nat) (t : Tok) (h1 : t.kind ≠ .atx) (h2 : t.kind ≠ .paraEnd)
    (h3 : t.kind ≠ .atxEnd) (h4 : t.kind ≠ .text) : next021 () fm s i t = .ok (s, [], []) := by
  unfold next021; split <;> simp_all

theorem next021_text_first (fm : Bool) (s : St021) (i : Nat) (t : Tok) (hk : t.kind = .text) (hf : s.first = none)
    l c hc (ha : s.atx = some (l, c, hc)) r (hr : startWs021 c hc t.ws = .ok r) :
    next021 () fm s i t =
      .ok ({ s with leftErr := s.leftErr || decide (r.length > 1), first := some i, last := some (t.text, t.col) }, [], []) := by
  unfold next021; rw [hk]; simp only [hf, Option.isNone_none, ↓reduceIte, ha]; rw [hr]

theorem next021_text_skip (fm : Bool) (s : St021) (i : Nat) (t : Tok) (hk : t.kind = .text)
    (h : (if s.first.isNone then s.atx else none) = none) :
    next021 () fm s i t = .ok ({ s with last := some (t.text, t.col) }, [], []) := by
  unfold next021; rw [hk]; simp only; rw [h]

theorem endData021_congr (s s' : St021) (e : Str) (h : s'.last = s.last) : endData021 s' e = endData021 s e := by
  unfold endData021; rw [h]

theorem endData021_space (s : St021) : endData021 s [' '] = .ok [' '] := by
  unfold endData021
  have : ([' '] : Str).contains '\t' = false := by decide
  rw [this]; rfl

theorem startWs021_space (c hc : Int) : startWs021 c hc [' '] = .ok [' '] := by
  unfold startWs021
  have h1 : Verif.Model.Codec.removeAll [' '] = .ok [' '] := by decide
  rw [h1]
  rfl

theorem next021_end_quiet (fm : Bool) (s : St021) (i : Nat) (t : Tok) (hk : t.kind = .atxEnd) e0 extra
    (he : t.endData = some e0) (hx : endData021 s e0 = .ok extra) (hl : s.leftErr = false) (hlen : extra.length ≤ 1) :
    next021 () fm s i t = .ok ({ atx := none, leftErr := false, first := none, last := none }, [], []) := by
  unfold next021; rw [hk]; simp only; rw [he]; simp only; rw [hx]; simp only
  have : ¬ ((s.leftErr || decide (extra.length > 1)) = true) := by simp [hl]; omega
  rw [if_neg this, hl]

/-! ## the simulation relation -/
structure Rel021 (fxs : List FixReq) (i : Nat) (s s' : St021) : Prop where
  atx : s'.atx = s.atx
  first : s'.first = s.first
  last : s'.last = s.last
  lt : ∀ j, s.first = some j → j < i
  fresh : s.atx.isSome → s.first = none → s.leftErr = false
  /-- the scan of the fixed stream sees a left error only if the fix run does AND the first text token is not going to be rewritten -/
  err : s'.leftErr = true → s.leftErr = true ∧ ∀ j, s.first = some j → wsReq j ∉ fxs

end Verif.Model.TokenRules

namespace Verif.Model.TokenRules

theorem modify_end_data (t : Tok) (hk : t.kind = .atxEnd) (s : Str) :
    modify t .extraEndData (.str s) = some { t with endData := some s } := by
  simp [modify, hk]

theorem modify_ws_text (t : Tok) (hk : t.kind = .text) (s : Str) :
    modify t .extractedWhitespace (.str s) = some { t with ws := s } := by
  simp [modify, hk]

/-- ONE STEP of the simulation.  `fxs'` are the requests of the rest of the fix run (from the state after this step): together with
    this step's requests they decide how the current token is rewritten. -/
theorem md021_step (s s' : St021) (i : Nat) (t t' : Tok) s1 rp fx fxs'
    (hn : next021 () true s i t = .ok (s1, rp, fx)) (hlow : Low021 fxs' (i + 1) s1)
    (ha : applyGroup t (groupOf (fx ++ fxs') i) = .ok t') (hR : Rel021 (fx ++ fxs') i s s') :
    ∀ fm, ∃ s1', next021 () fm s' i t' = .ok (s1', [], []) ∧ Rel021 fxs' (i + 1) s1 s1' := by
  rw [groupOf_append] at ha
  obtain ⟨_, hshape⟩ := next021_fix_shape s i t s1 rp fx hn
  by_cases hkE : t.kind = .atxEnd
  · -- the end token of an ATX heading
    rcases hshape with ⟨hne, _⟩ | ⟨_, rfl, e0, extra, he, hx, hc⟩
    · exact absurd hkE hne
    · have hg' : groupOf fxs' i = [] := low_group_nil fxs' i _ hlow (by simp)
      rw [hg', List.append_nil] at ha
      have hx' : endData021 s' e0 = .ok extra := by rw [endData021_congr s s' e0 hR.last]; exact hx
      rcases hc with ⟨hl, hlen, rfl⟩ | ⟨htr, hatx, rfl, hfs⟩
      · -- nothing to fix
        have hl' : s'.leftErr = false := by
          cases h : s'.leftErr with
          | false => rfl
          | true => have := (hR.err h).1; rw [hl] at this; cases this
        simp only [groupOf, List.filter_nil, List.map_nil, applyGroup_nil, Except.ok.injEq] at ha
        subst ha
        intro fm
        refine ⟨_, next021_end_quiet fm s' i t hkE e0 extra he hx' hl' hlen, ?_⟩
        exact ⟨rfl, rfl, rfl, fun j h => (by cases h), fun h => (by cases h), fun h => (by cases h)⟩
      · -- the fix run acted: the scan of the fixed stream must not see the left error
        have hl' : s'.leftErr = false := by
          cases h : s'.leftErr with
          | false => rfl
          | true =>
            obtain ⟨h1, h2⟩ := hR.err h
            have := hfs h1
            rw [Option.isSome_iff_exists] at this
            obtain ⟨j, hj⟩ := this
            exact absurd (by rw [h1, hj]; simp) (h2 j hj)
        intro fm
        by_cases hlong : extra.length > 1
        · -- the end data is rewritten to one space
          have hgi : groupOf ((if s.leftErr then (match s.first with | some j => [wsReq j] | none => []) else []) ++
              (if extra.length > 1 then [edReq i] else [])) i = [(Field.extraEndData, Val.str [' '])] := by
            rw [groupOf_append, if_pos hlong]
            have h1 : groupOf (if s.leftErr then (match s.first with | some j => [wsReq j] | none => []) else []) i = [] := by
              apply groupOf_none
              intro q hq
              split at hq
              · split at hq
                · rename_i j hj
                  simp only [List.mem_singleton] at hq
                  subst hq
                  have := hR.lt j hj
                  simp only; omega
                · simp at hq
              · simp at hq
            rw [h1]
            simp [groupOf]
          rw [hgi, applyGroup_single, modify_end_data t hkE] at ha
          cases ha
          refine ⟨_, next021_end_quiet fm s' i { t with endData := some [' '] } hkE [' '] [' '] rfl
            (endData021_space s') hl' (by simp), ?_⟩
          exact ⟨rfl, rfl, rfl, fun j h => (by cases h), fun h => (by cases h), fun h => (by cases h)⟩
        · -- only the first text token is rewritten (it lies before this token)
          have hgi : groupOf ((if s.leftErr then (match s.first with | some j => [wsReq j] | none => []) else []) ++
              (if extra.length > 1 then [edReq i] else [])) i = [] := by
            rw [if_neg hlong, List.append_nil]
            apply groupOf_none
            intro q hq
            split at hq
            · split at hq
              · rename_i j hj
                simp only [List.mem_singleton] at hq
                subst hq
                have := hR.lt j hj
                simp only; omega
              · simp at hq
            · simp at hq
          rw [hgi, applyGroup_nil] at ha
          cases ha
          refine ⟨_, next021_end_quiet fm s' i t hkE e0 extra he hx' hl' (by omega), ?_⟩
          exact ⟨rfl, rfl, rfl, fun j h => (by cases h), fun h => (by cases h), fun h => (by cases h)⟩
  · -- every other kind registers nothing
    have hfx : fx = [] := by
      rcases hshape with ⟨_, h⟩ | ⟨h, _⟩
      · exact h
      · exact absurd h hkE
    subst hfx
    simp only [groupOf, List.filter_nil, List.map_nil, List.nil_append] at ha
    rw [List.nil_append] at hR
    by_cases hkT : t.kind = .text
    · by_cases hfirst : (if s.first.isNone then s.atx else none) = none
      · -- not the first text token of a closed heading
        have hs1 : s1 = { s with last := some (t.text, t.col) } := by
          rw [next021_text_skip true s i t hkT hfirst] at hn
          simp only [Except.ok.injEq, Prod.mk.injEq] at hn; exact hn.1.symm
        have hne : s1.first ≠ some i := by
          rw [hs1]; intro h; have := hR.lt i h; omega
        have hgroup : groupOf fxs' i = [] := low_group_nil fxs' i s1 hlow hne
        have ha' : applyGroup t (groupOf fxs' i) = .ok t' := ha
        rw [hgroup, applyGroup_nil] at ha'
        cases ha'
        intro fm
        have hfirst' : (if s'.first.isNone then s'.atx else none) = none := by rw [hR.first, hR.atx]; exact hfirst
        refine ⟨_, next021_text_skip fm s' i t hkT hfirst', ?_⟩
        rw [hs1]
        exact ⟨hR.atx, hR.first, rfl, fun j h => (by have := hR.lt j h; omega), hR.fresh, hR.err⟩
      · -- the first text token of a closed ATX heading
        have hfn : s.first = none := by
          cases h : s.first with
          | none => rfl
          | some j => rw [h] at hfirst; simp at hfirst
        cases hatx : s.atx with
        | none => rw [hfn, hatx] at hfirst; simp at hfirst
        | some a =>
          obtain ⟨l, c, hc⟩ := a
          cases hr : startWs021 c hc t.ws with
          | error e =>
            unfold next021 at hn
            rw [hkT] at hn
            simp only [hfn, Option.isNone_none, ↓reduceIte, hatx] at hn
            rw [hr] at hn; cases hn
          | ok r =>
            have hs1 : s1 = { s with leftErr := s.leftErr || decide (r.length > 1), first := some i, last := some (t.text, t.col) } := by
              rw [next021_text_first true s i t hkT hfn l c hc hatx r hr] at hn
              simp only [Except.ok.injEq, Prod.mk.injEq] at hn; exact hn.1.symm
            have hsl : s.leftErr = false := hR.fresh (by rw [hatx]; rfl) hfn
            obtain ⟨n, hgn, hn0⟩ := low_group_first fxs' i s1 hlow
            have ha' : applyGroup t (groupOf fxs' i) = .ok t' := ha
            rw [hgn] at ha'
            have hf' : s'.first = none := by rw [hR.first]; exact hfn
            have hatx' : s'.atx = some (l, c, hc) := by rw [hR.atx]; exact hatx
            intro fm
            rcases apply_replicate_ws t t' n ha' with ⟨h0, ht⟩ | ⟨h1, hm⟩
            · -- not rewritten
              rw [ht]
              refine ⟨_, next021_text_first fm s' i t hkT hf' l c hc hatx' r hr, ?_⟩
              rw [hs1]
              refine ⟨hR.atx, rfl, rfl, fun j h => (by cases h; omega), fun _ h => (by cases h), ?_⟩
              intro herr
              simp only [Bool.or_eq_true, decide_eq_true_eq] at herr
              refine ⟨?_, fun j hj => by cases hj; exact hn0 h0⟩
              simp only [Bool.or_eq_true, decide_eq_true_eq]
              rcases herr with h | h
              · exact .inl (hR.err h).1
              · exact .inr h
            · -- rewritten to a single space: no left error on re-scan
              rw [modify_ws_text t hkT] at hm
              cases hm
              have hl' : s'.leftErr = false := by
                cases h : s'.leftErr with
                | false => rfl
                | true => have := (hR.err h).1; rw [hsl] at this; cases this
              have hkT' : ({ t with ws := [' '] } : Tok).kind = .text := hkT
              refine ⟨_, next021_text_first fm s' i { t with ws := [' '] } hkT' hf' l c hc hatx' [' '] (startWs021_space c hc), ?_⟩
              rw [hs1]
              refine ⟨hR.atx, rfl, rfl, fun j h => (by cases h; omega), fun _ h => (by cases h), ?_⟩
              intro herr
              simp [hl'] at herr
    · -- atx, paragraph end, anything else: the token is not rewritten
      have hs1f : s1.first = s.first := by
        by_cases hkA : t.kind = .atx
        · rw [next021_atx true s i t hkA] at hn
          simp only [Except.ok.injEq, Prod.mk.injEq] at hn; rw [← hn.1]
        · by_cases hkP : t.kind = .paraEnd
          · rw [next021_paraEnd true s i t hkP] at hn
            simp only [Except.ok.injEq, Prod.mk.injEq] at hn; rw [← hn.1]
          · rw [next021_other true s i t hkA hkP hkE hkT] at hn
            simp only [Except.ok.injEq, Prod.mk.injEq] at hn; rw [← hn.1]
      have hne : s1.first ≠ some i := by
        rw [hs1f]; intro h; have := hR.lt i h; omega
      have hgroup : groupOf fxs' i = [] := low_group_nil fxs' i s1 hlow hne
      have ha' : applyGroup t (groupOf fxs' i) = .ok t' := ha
      rw [hgroup, applyGroup_nil] at ha'
      cases ha'
      intro fm
      by_cases hkA : t.kind = .atx
      · rw [next021_atx true s i t hkA] at hn
        simp only [Except.ok.injEq, Prod.mk.injEq] at hn
        obtain ⟨rfl, _, _⟩ := hn
        refine ⟨_, next021_atx fm s' i t hkA, ?_⟩
        refine ⟨(by simp only; rw [hR.atx]), hR.first, hR.last, fun j h => (by have := hR.lt j h; omega), fun _ _ => rfl, ?_⟩
        intro h; cases h
      · by_cases hkP : t.kind = .paraEnd
        · rw [next021_paraEnd true s i t hkP] at hn
          simp only [Except.ok.injEq, Prod.mk.injEq] at hn
          obtain ⟨rfl, _, _⟩ := hn
          refine ⟨_, next021_paraEnd fm s' i t hkP, ?_⟩
          exact ⟨rfl, hR.first, hR.last, fun j h => (by have := hR.lt j h; omega), fun h => (by cases h), hR.err⟩
        · rw [next021_other true s i t hkA hkP hkE hkT] at hn
          simp only [Except.ok.injEq, Prod.mk.injEq] at hn
          obtain ⟨rfl, _, _⟩ := hn
          refine ⟨_, next021_other fm s' i t hkA hkP hkE hkT, ?_⟩
          exact ⟨hR.atx, hR.first, hR.last, fun j h => (by have := hR.lt j h; omega), hR.fresh, hR.err⟩

end Verif.Model.TokenRules

namespace Verif.Model.TokenRules

theorem next021_fx_idx (s : St021) (i : Nat) (t : Tok) s1 rp fx (h : next021 () true s i t = .ok (s1, rp, fx))
    (hlt : ∀ j, s.first = some j → j < i) : ∀ q ∈ fx, q.idx ≤ i ∧ (q = wsReq q.idx ∨ q = edReq q.idx) := by
  intro q hq
  obtain ⟨_, hs⟩ := next021_fix_shape s i t s1 rp fx h
  rcases hs with ⟨_, rfl⟩ | ⟨_, _, _, _, _, _, hc⟩
  · simp at hq
  · rcases hc with ⟨_, _, rfl⟩ | ⟨_, _, rfl, _⟩
    · simp at hq
    · rcases List.mem_append.mp hq with hq | hq
      · split at hq
        · split at hq
          · rename_i j hj
            simp only [List.mem_singleton] at hq
            subst hq
            have := hlt j hj
            exact ⟨by simp only; omega, .inl rfl⟩
          · simp at hq
        · simp at hq
      · split at hq
        · simp only [List.mem_singleton] at hq
          subst hq; exact ⟨Nat.le_refl _, .inr rfl⟩
        · simp at hq

/-- the whole stream: the scan (and a second fix pass) of the fixed stream is silent -/
theorem md021_suffix (reqs : List FixReq) : ∀ (ts : List Tok) (s s' : St021) (i : Nat) s_end rps fxs ts',
    runFrom md021 () true s i ts = .ok (s_end, rps, fxs) →
    (∀ j, i ≤ j → groupOf reqs j = groupOf fxs j) →
    applyFrom reqs i ts = .ok ts' →
    Rel021 fxs i s s' →
    ∀ fm, ∃ s_end', runFrom md021 () fm s' i ts' = .ok (s_end', [], []) := by
  intro ts
  induction ts with
  | nil =>
    intro s s' i s_end rps fxs ts' _ _ ha _ fm
    simp only [applyFrom, Except.ok.injEq] at ha
    subst ha
    exact ⟨s', rfl⟩
  | cons t ts ih =>
    intro s s' i s_end rps fxs ts' h hg ha hR fm
    unfold runFrom at h
    split at h
    · cases h
    · rename_i s1 rp fx hn
      split at h
      · cases h
      · rename_i s2 rps' fxs' hr
        simp only [Except.ok.injEq, Prod.mk.injEq] at h
        obtain ⟨_, _, rfl⟩ := h
        have hn' : next021 () true s i t = .ok (s1, rp, fx) := hn
        unfold applyFrom at ha
        split at ha
        · cases ha
        · rename_i t' hat
          split at ha
          · cases ha
          · rename_i rest' har
            cases ha
            have hlt1 : ∀ j, s1.first = some j → j < i + 1 := by
              intro j hj
              rcases next021_first s i t s1 rp fx hn' with h1 | h1 | h1
              · rw [h1] at hj; have := hR.lt j hj; omega
              · rw [h1] at hj; cases hj; omega
              · rw [h1] at hj; cases hj
            have hlow := runFrom021_low ts s1 (i + 1) s2 rps' fxs' hr hlt1
            rw [hg i (Nat.le_refl _)] at hat
            obtain ⟨s1', hq, hR'⟩ := md021_step s s' i t t' s1 rp fx fxs' hn' hlow hat hR fm
            have hg' : ∀ j, i + 1 ≤ j → groupOf reqs j = groupOf fxs' j := by
              intro j hj
              rw [hg j (by omega), groupOf_append, groupOf_none fx j]
              · rfl
              · intro q hq'
                have := (next021_fx_idx s i t s1 rp fx hn' hR.lt q hq').1
                omega
            obtain ⟨s_end', hrest⟩ := ih s1 s1' (i + 1) s2 rps' fxs' rest' hr hg' har hR' fm
            exact ⟨s_end', by simpa using runFrom_cons_ok md021 () fm s' s1' s_end' i t' rest' [] [] [] [] hq hrest⟩

theorem rel021_init : Rel021 fxs 0 (md021.init ()) (md021.init ()) :=
  ⟨rfl, rfl, rfl, fun j h => (by cases h), fun h => (by cases h), fun h => (by cases h)⟩

theorem md021_fix_quiet (toks toks' : List Tok) (h : fix md021 () toks = .ok toks') :
    ∀ fm, ∃ s_end', runFrom md021 () fm (md021.init ()) 0 toks' = .ok (s_end', [], []) := by
  unfold fix fixReqs at h
  split at h
  · cases h
  · rename_i fxs hf
    split at hf
    · cases hf
    · rename_i s_end rps fxs' hr
      cases hf
      unfold applyFixes at h
      split at h
      · cases h
      · exact md021_suffix fxs toks _ _ 0 s_end rps fxs toks' hr (fun _ _ => rfl) h rel021_init

theorem applyFrom_nil : ∀ (ts : List Tok) (i : Nat), applyFrom [] i ts = .ok ts := by
  intro ts
  induction ts with
  | nil => intro _; rfl
  | cons t ts ih =>
    intro i
    unfold applyFrom
    simp only [groupOf, List.filter_nil, List.map_nil, applyGroup_nil]
    rw [ih]

/-! ## what the fix may change -/
theorem modify_ws_shape (t t' : Tok) (s : Str) (h : modify t .extractedWhitespace (.str s) = some t') :
    t' = { t with ws := s } := by
  unfold modify at h
  split at h <;> simp [leafMod, baseMod, listMod] at h <;> exact h.symm

theorem modify_ed_shape (t t' : Tok) (s : Str) (h : modify t .extraEndData (.str s) = some t') :
    t' = { t with endData := some s } := by
  unfold modify at h
  split at h <;> simp [leafMod, baseMod, listMod] at h <;> exact h.symm

/-- only `extracted_whitespace` and `extra_end_data` change, each to a single space -/
def Style021 (t t' : Tok) : Prop :=
  t' = { t with ws := t'.ws, endData := t'.endData } ∧ (t'.ws = t.ws ∨ t'.ws = [' ']) ∧
  (t'.endData = t.endData ∨ t'.endData = some [' '])

theorem style021_refl (t : Tok) : Style021 t t := ⟨rfl, .inl rfl, .inl rfl⟩

theorem modAll_style021 : ∀ (g : List (Field × Val)) (t t0 t' : Tok),
    (∀ p ∈ g, p = (Field.extractedWhitespace, Val.str [' ']) ∨ p = (Field.extraEndData, Val.str [' '])) →
    Style021 t0 t → modAll t g = .ok t' → Style021 t0 t' := by
  intro g
  induction g with
  | nil => intro t t0 t' _ hs h; simp only [modAll, Except.ok.injEq] at h; subst h; exact hs
  | cons p g ih =>
    intro t t0 t' hp hs h
    obtain ⟨f, v⟩ := p
    simp only [modAll] at h
    cases hm : modify t f v with
    | none => rw [hm] at h; cases h
    | some tm =>
      rw [hm] at h
      have hp1 := hp (f, v) List.mem_cons_self
      have hs' : Style021 t0 tm := by
        obtain ⟨h1, h2, h3⟩ := hs
        rcases hp1 with hp1 | hp1
        · simp only [Prod.mk.injEq] at hp1
          obtain ⟨rfl, rfl⟩ := hp1
          have := modify_ws_shape t tm _ hm
          subst this
          exact ⟨by rw [h1], .inr rfl, h3⟩
        · simp only [Prod.mk.injEq] at hp1
          obtain ⟨rfl, rfl⟩ := hp1
          have := modify_ed_shape t tm _ hm
          subst this
          exact ⟨by rw [h1], h2, .inr rfl⟩
      exact ih tm t0 t' (fun q hq => hp q (List.mem_cons_of_mem _ hq)) hs' h

theorem applyFrom_style021 (reqs : List FixReq) (hreq : ∀ q ∈ reqs, q = wsReq q.idx ∨ q = edReq q.idx) :
    ∀ (ts : List Tok) (i : Nat) ts', applyFrom reqs i ts = .ok ts' → All₂ Style021 ts ts' := by
  intro ts
  induction ts with
  | nil => intro i ts' h; simp only [applyFrom, Except.ok.injEq] at h; subst h; exact .nil
  | cons t ts ih =>
    intro i ts' h
    unfold applyFrom at h
    split at h
    · cases h
    · rename_i t' hat
      split at h
      · cases h
      · rename_i rest' har
        cases h
        refine .cons ?_ (ih (i + 1) rest' har)
        unfold applyGroup at hat
        split at hat
        · cases hat
        · refine modAll_style021 _ t t t' ?_ (style021_refl t) hat
          intro p hp
          simp only [groupOf, List.mem_map, List.mem_filter] at hp
          obtain ⟨q, ⟨hq, _⟩, rfl⟩ := hp
          rcases hreq q hq with h1 | h1
          · left; rw [h1]
          · right; rw [h1]

theorem runFrom021_reqs : ∀ (ts : List Tok) (s : St021) (k : Nat) s_end rps fxs,
    runFrom md021 () true s k ts = .ok (s_end, rps, fxs) → (∀ j, s.first = some j → j < k) →
    ∀ q ∈ fxs, q = wsReq q.idx ∨ q = edReq q.idx := by
  intro ts
  induction ts with
  | nil => intro s k s_end rps fxs h _ q hq; simp [runFrom] at h; simp [h.2.2] at hq
  | cons t ts ih =>
    intro s k s_end rps fxs h hlt q hq
    unfold runFrom at h
    split at h
    · cases h
    · rename_i s1 rp fx hn
      split at h
      · cases h
      · rename_i s2 rps' fxs' hr
        simp only [Except.ok.injEq, Prod.mk.injEq] at h
        obtain ⟨_, _, rfl⟩ := h
        have hn' : next021 () true s k t = .ok (s1, rp, fx) := hn
        rcases List.mem_append.mp hq with hq | hq
        · exact (next021_fx_idx s k t s1 rp fx hn' hlt q hq).2
        · refine ih s1 (k + 1) s2 rps' fxs' hr ?_ q hq
          intro j hj
          rcases next021_first s k t s1 rp fx hn' with h1 | h1 | h1
          · rw [h1] at hj; have := hlt j hj; omega
          · rw [h1] at hj; cases hj; omega
          · rw [h1] at hj; cases hj

end Verif.Model.TokenRules
