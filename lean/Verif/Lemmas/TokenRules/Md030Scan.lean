import Verif.Model.TokenRules.Md030
import Verif.Lemmas.TokenRules.Basic
/-!
  MD030 over `Tok2`, scan mode: the reports are those of the old scan-only model `md030` on the projected stream.
  `proj030` forgets what the old model does not have (the token indices and the `ListTracker` part of each level).
-/
namespace Verif.Model.TokenRules

def projFr030 (fr : Fr030f) : Bool × List Ent030 := (fr.ordered, fr.ents.map (·.2))

def proj030 (s : St030f) : St030 := s.stack.map projFr030

theorem addLines_proj030 (n : Nat) (st : List Fr030f) : (addLines030 n st).map projFr030 = st.map projFr030 := by
  cases st with
  | nil => rfl
  | cons fr rest => rfl

theorem track030_stack_proj (s : St030f) (t : Tok2) : proj030 (track030 s t) = proj030 s := by
  unfold proj030 track030
  simp only
  split <;> simp [addLines_proj030]

theorem bumpLastF_proj030 (es : List (Nat × Ent030)) : (bumpLastF030 es).map (·.2) = bumpLast (es.map (·.2)) := by
  induction es with
  | nil => rfl
  | cons p ps ih =>
    cases ps with
    | nil => rfl
    | cons q qs =>
      simp only [bumpLastF030, List.map_cons, bumpLast]
      simp only [List.map_cons] at ih
      rw [ih]

/-- one step: same failure, same reports, related states -/
theorem next030f_scan (c : C030) (all : List Tok2) (s : St030f) (i : Nat) (t : Tok2) :
    (∀ e, next030 c false (proj030 s) i t.toTok = .error e → next030f c false all s i t = .error e.to2) ∧
    (∀ s2 rp fx, next030 c false (proj030 s) i t.toTok = .ok (s2, rp, fx) →
      fx = [] ∧ ∃ s', next030f c false all s i t = .ok (s', ⟨rp, [], []⟩) ∧ proj030 s' = s2) := by
  obtain ⟨stack, wb⟩ := s
  have simple : ∀ st : St030f, proj030 (track030 st t) = proj030 st := fun st => track030_stack_proj st t
  unfold next030f step030f out030f next030
  cases hk : t.kind <;> simp only [Bool.false_eq_true, ↓reduceIte, proj030]
  case ulist | olist =>
    refine ⟨(by intro e h; cases h), ?_⟩
    intro s2 rp fx h
    simp only [Except.ok.injEq, Prod.mk.injEq] at h
    obtain ⟨h1, h2, h3⟩ := h
    subst h1 h2 h3
    refine ⟨rfl, _, rfl, ?_⟩
    have := simple (listStart030f ⟨stack, wb⟩ i t)
    simp only [proj030] at this
    rw [this]
    simp [listStart030f, projFr030, entOf030, hk] <;> decide
  case ulistEnd | olistEnd =>
    cases stack with
    | nil =>
      simp only [List.map_nil]
      refine ⟨?_, (by intro s2 rp fx h; cases h)⟩
      intro e h
      simp only [Except.error.injEq] at h
      subst h; rfl
    | cons fr rest =>
      simp only [List.map_cons, projFr030]
      refine ⟨(by intro e h; cases h), ?_⟩
      intro s2 rp fx h
      simp only [Except.ok.injEq, Prod.mk.injEq] at h
      obtain ⟨h1, h2, h3⟩ := h
      subst h1 h2 h3
      refine ⟨rfl, track030 ⟨rest, wb⟩ t, ?_, ?_⟩
      · simp only [listEnd030f, Bool.false_eq_true, ↓reduceIte]
      · have := simple ⟨rest, wb⟩
        simp only [proj030] at this
        rw [this]
  case li =>
    cases stack with
    | nil =>
      simp only [List.map_nil]
      refine ⟨?_, (by intro s2 rp fx h; cases h)⟩
      intro e h
      simp only [Except.error.injEq] at h
      subst h; rfl
    | cons fr rest =>
      simp only [List.map_cons, projFr030]
      refine ⟨(by intro e h; cases h), ?_⟩
      intro s2 rp fx h
      simp only [Except.ok.injEq, Prod.mk.injEq] at h
      obtain ⟨h1, h2, h3⟩ := h
      subst h1 h2 h3
      refine ⟨rfl, _, rfl, ?_⟩
      have := simple ⟨newItem030f fr i t :: rest, false⟩
      simp only [proj030] at this
      rw [this]
      simp [newItem030f, projFr030, entOf030]
  case para =>
    cases stack with
    | nil =>
      simp only [List.map_nil]
      refine ⟨(by intro e h; cases h), ?_⟩
      intro s2 rp fx h
      simp only [Except.ok.injEq, Prod.mk.injEq] at h
      obtain ⟨h1, h2, h3⟩ := h
      subst h1 h2 h3
      refine ⟨rfl, _, rfl, ?_⟩
      have := simple ⟨[], wb⟩
      simpa [proj030] using this
    | cons fr rest =>
      simp only [List.map_cons, projFr030]
      refine ⟨(by intro e h; cases h), ?_⟩
      intro s2 rp fx h
      simp only [Except.ok.injEq, Prod.mk.injEq] at h
      obtain ⟨h1, h2, h3⟩ := h
      subst h1 h2 h3
      refine ⟨rfl, _, rfl, ?_⟩
      have := simple ⟨{ fr with ents := bumpLastF030 fr.ents } :: rest, wb⟩
      simp only [proj030] at this
      rw [this]
      simp [projFr030, bumpLastF_proj030]
  all_goals
    refine ⟨(by intro e h; cases h), ?_⟩
    intro s2 rp fx h
    simp only [Except.ok.injEq, Prod.mk.injEq] at h
    obtain ⟨h1, h2, h3⟩ := h
    subst h1 h2 h3
    refine ⟨rfl, _, rfl, ?_⟩
    have := simple ⟨stack, wb⟩
    simpa [proj030] using this

/-- the runs correspond -/
theorem runFrom2_scan030 (c : C030) (all : List Tok2) : ∀ (ts : List Tok2) (s : St030f) (i : Nat),
    (∀ e, runFrom md030 c false (proj030 s) i (ts.map (·.toTok)) = .error e →
      runFrom2 md030f c false all s i ts = .error e.to2) ∧
    (∀ s2 rps fxs, runFrom md030 c false (proj030 s) i (ts.map (·.toTok)) = .ok (s2, rps, fxs) →
      ∃ s', runFrom2 md030f c false all s i ts = .ok (s', ⟨rps, [], []⟩) ∧ proj030 s' = s2) := by
  intro ts
  induction ts with
  | nil =>
    intro s i
    refine ⟨(by intro e h; cases h), ?_⟩
    intro s2 rps fxs h
    simp only [List.map_nil, runFrom, Except.ok.injEq, Prod.mk.injEq] at h
    obtain ⟨h1, h2, _⟩ := h
    subst h1 h2
    exact ⟨s, rfl, rfl⟩
  | cons t ts ih =>
    intro s i
    obtain ⟨hE, hO⟩ := next030f_scan c all s i t
    simp only [List.map_cons, runFrom, runFrom2]
    rw [show md030.next = next030 from rfl, show md030f.next = next030f from rfl]
    cases hn : next030 c false (proj030 s) i t.toTok with
    | error e0 =>
      rw [hE e0 hn]
      refine ⟨?_, (by intro s2 rps fxs h; cases h)⟩
      intro e h
      simp only [Except.error.injEq] at h
      subst h; rfl
    | ok x =>
      obtain ⟨s2, rp, fx⟩ := x
      obtain ⟨hfx, s', hs', hp⟩ := hO s2 rp fx hn
      subst hfx
      rw [hs']
      simp only
      subst hp
      obtain ⟨ihE, ihO⟩ := ih s' (i + 1)
      cases hr : runFrom md030 c false (proj030 s') (i + 1) (ts.map (·.toTok)) with
      | error e1 =>
        rw [ihE e1 hr]
        refine ⟨?_, (by intro s2 rps fxs h; cases h)⟩
        intro e h
        simp only [Except.error.injEq] at h
        subst h; rfl
      | ok y =>
        obtain ⟨s3, rps, fxs⟩ := y
        obtain ⟨s'', hs'', hp''⟩ := ihO s3 rps fxs hr
        rw [hs'']
        refine ⟨(by intro e h; cases h), ?_⟩
        intro s4 rps4 fxs4 h
        simp only [Except.ok.injEq, Prod.mk.injEq] at h
        obtain ⟨h1, h2, _⟩ := h
        subst h1 h2
        exact ⟨s'', rfl, hp''⟩

/-- the scan reports of the two-mode model over `Tok2` are those of the old scan-only model on the projected stream -/
theorem scan2_md030f_eq_old (c : C030) (toks : List Tok2) :
    scan2 md030f c toks = (scan md030 c (toks.map (·.toTok))).mapError Err.to2 := by
  unfold scan2 scan
  obtain ⟨hE, hO⟩ := runFrom2_scan030 c toks toks (md030f.init c) 0
  have hinit : proj030 (md030f.init c) = md030.init c := rfl
  rw [hinit] at hE hO
  cases hr : runFrom md030 c false (md030.init c) 0 (toks.map (·.toTok)) with
  | error e => rw [hE e hr]; rfl
  | ok y =>
    obtain ⟨s3, rps, fxs⟩ := y
    obtain ⟨s', hs', _⟩ := hO s3 rps fxs hr
    rw [hs']; rfl

/-! ## what the scan reads -/
/-- the fields `next030` reads -/
def Reads030 (t t' : Tok) : Prop :=
  t'.kind = t.kind ∧ t'.line = t.line ∧ t'.col = t.col ∧ t'.indent = t.indent ∧ t'.content.length = t.content.length

theorem runFrom_md030_reads (c : C030) (fm : Bool) : ∀ (ts ts' : List Tok), All₂ Reads030 ts ts' → ∀ (s : St030) (i : Nat),
    runFrom md030 c fm s i ts' = runFrom md030 c fm s i ts := by
  intro ts ts' h
  induction h with
  | nil => intro s i; rfl
  | @cons a b as bs hp _ ih =>
    intro s i
    obtain ⟨h1, h2, h3, h4, h5⟩ := hp
    unfold runFrom
    have : md030.next c fm s i b = md030.next c fm s i a := by
      show next030 c fm s i b = next030 c fm s i a
      unfold next030 ent030
      simp only [h1, h2, h3, h4, h5]
    rw [this]
    split
    · rfl
    · rw [ih]

theorem scan_md030_reads (c : C030) (ts ts' : List Tok) (h : All₂ Reads030 ts ts') : scan md030 c ts' = scan md030 c ts := by
  unfold scan
  rw [runFrom_md030_reads c false ts ts' h]

end Verif.Model.TokenRules
