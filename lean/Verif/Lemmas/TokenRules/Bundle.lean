import Verif.Lemmas.TokenRules.Product
import Verif.Lemmas.TokenRules.MD001
import Verif.Lemmas.TokenRules.MD004
import Verif.Lemmas.TokenRules.MD029
import Verif.Lemmas.TokenRules.MD048
import Verif.Lemmas.TokenRules.MD038
import Verif.Lemmas.TokenRules.MD019
/-!
  The level-1 token pass with several of the modelled rules enabled at once: `Good` instances of the single rules, the
  table of pairwise invisibility (`Inert`: the fields one rule's fix may change are not read by the other rule), and the
  two bundles
     bundleA = MD001 ⊗ MD004 ⊗ MD029 ⊗ MD035 ⊗ MD039        bundleB = MD019 ⊗ MD004 ⊗ MD029 ⊗ MD035 ⊗ MD039
  (MD001 and MD019 cannot be in one bundle: `md001_md019_interference`; MD038 is in none: its own H1 fails.)
-/
namespace Verif.Model.TokenRules

def Style039 (t t' : Tok) : Prop :=
  t' = { t with text := t'.text } ∧ (t' = t ∨ ((t.kind = .link ∨ t.kind = .image ∨ t.kind = .lrd) ∧ t'.text = stripAw t.text))

def good001 (c : C001) : Good md001 c where
  R := Eq
  S := Style001
  loc := md001_local
  init := rfl
  step := fun s₁ _ i t s₁' rp fx t' hR hn ha =>
    ⟨md001_step_style c s₁ i t s₁' rp fx t' hn ha, fun fm => ⟨s₁', hR ▸ md001_step_quiet c s₁ i t s₁' rp fx t' hn ha fm, rfl⟩⟩

def good004 (c : C004) : Good md004 c where
  R := Eq
  S := Style004
  loc := md004_local
  init := rfl
  step := fun s₁ _ i t s₁' rp fx t' hR hn ha =>
    ⟨md004_step_style c s₁ i t s₁' rp fx t' hn ha, fun fm => ⟨s₁', hR ▸ md004_step c s₁ i t s₁' rp fx t' hn ha fm, rfl⟩⟩

def good029 (c : C029) : Good md029 c where
  R := R029 c
  S := Style029
  loc := md029_local
  init := ⟨rfl, .nil⟩
  step := fun s₁ s₂ i t s₁' rp fx t' hR hn ha =>
    ⟨md029_step_style c s₁ i t s₁' rp fx t' hn ha, fun fm => md029_step c s₁ s₂ i t s₁' rp fx t' hR hn ha fm⟩

def good035 (c : C035) : Good md035 c where
  R := Eq
  S := Style035
  loc := md035_local
  init := rfl
  step := fun s₁ _ i t s₁' rp fx t' hR hn ha =>
    ⟨md035_step_style c s₁ i t s₁' rp fx t' hn ha, fun fm => ⟨s₁', hR ▸ md035_step c s₁ i t s₁' rp fx t' hn ha fm, rfl⟩⟩

def good048 (c : C048) : Good md048 c where
  R := Eq
  S := Style048
  loc := md048_local
  init := rfl
  step := fun s₁ _ i t s₁' rp fx t' hR hn ha =>
    ⟨md048_step_style c s₁ i t s₁' rp fx t' hn ha, fun fm => ⟨s₁', hR ▸ md048_step c s₁ i t s₁' rp fx t' hn ha fm, rfl⟩⟩

def good039 : Good md039 () where
  R := Eq
  S := Style039
  loc := md039_local
  init := rfl
  step := fun _ _ i t _ rp fx t' _ hn ha =>
    ⟨md039_apply i t rp fx t' hn ha, fun fm => ⟨(), md039_step i t rp fx t' hn ha fm, rfl⟩⟩

def good019 : Good md019 () where
  R := Eq
  S := Style019
  loc := md019_local
  init := rfl
  step := fun s₁ _ i t s₁' rp fx t' hR hn ha =>
    ⟨md019_step_style s₁ i t s₁' rp fx t' hn ha, fun fm => ⟨s₁', hR ▸ md019_step s₁ i t s₁' rp fx t' hn ha fm, rfl⟩⟩

/-! ## invisibility table: `inert_A_B` — what MD A's fix may change is not read by MD B -/

theorem inert_001_004 (c : C004) : Inert Style001 md004 c := by
  intro fm s i t t' h
  rw [h.1]
  show next004 c fm s i _ = next004 c fm s i t
  unfold next004 ensure004 seqType
  rfl

theorem inert_001_029 (c : C029) : Inert Style001 md029 c := by
  intro fm s i t t' h
  rw [h.1]
  show next029 c fm s i _ = next029 c fm s i t
  unfold next029 matchFirst matchNext reportInvalid
  rfl

theorem inert_001_035 (c : C035) : Inert Style001 md035 c := by
  intro fm s i t t' h
  rw [h.1]
  show next035 c fm s i _ = next035 c fm s i t
  unfold next035
  rfl

theorem inert_001_039  : Inert Style001 md039 () := by
  intro fm s i t t' h
  rw [h.1]
  show next039 () fm s i _ = next039 () fm s i t
  unfold next039
  rfl

theorem inert_004_001 (c : C001) : Inert Style004 md001 c := by
  intro fm s i t t' h
  rw [h.1]
  show next001 c fm s i _ = next001 c fm s i t
  unfold next001 hash001
  rfl

theorem inert_004_029 (c : C029) : Inert Style004 md029 c := by
  intro fm s i t t' h
  rw [h.1]
  show next029 c fm s i _ = next029 c fm s i t
  unfold next029 matchFirst matchNext reportInvalid
  rfl

theorem inert_004_035 (c : C035) : Inert Style004 md035 c := by
  intro fm s i t t' h
  rw [h.1]
  show next035 c fm s i _ = next035 c fm s i t
  unfold next035
  rfl

theorem inert_004_039  : Inert Style004 md039 () := by
  intro fm s i t t' h
  rw [h.1]
  show next039 () fm s i _ = next039 () fm s i t
  unfold next039
  rfl

theorem inert_029_001 (c : C001) : Inert Style029 md001 c := by
  intro fm s i t t' h
  rw [h.1]
  show next001 c fm s i _ = next001 c fm s i t
  unfold next001 hash001
  rfl

theorem inert_029_004 (c : C004) : Inert Style029 md004 c := by
  intro fm s i t t' h
  rw [h.1]
  show next004 c fm s i _ = next004 c fm s i t
  unfold next004 ensure004 seqType
  rfl

theorem inert_029_035 (c : C035) : Inert Style029 md035 c := by
  intro fm s i t t' h
  rw [h.1]
  show next035 c fm s i _ = next035 c fm s i t
  unfold next035
  rfl

theorem inert_029_039  : Inert Style029 md039 () := by
  intro fm s i t t' h
  rw [h.1]
  show next039 () fm s i _ = next039 () fm s i t
  unfold next039
  rfl

theorem inert_035_001 (c : C001) : Inert Style035 md001 c := by
  intro fm s i t t' h
  rw [h.1]
  show next001 c fm s i _ = next001 c fm s i t
  unfold next001 hash001
  rfl

theorem inert_035_004 (c : C004) : Inert Style035 md004 c := by
  intro fm s i t t' h
  rw [h.1]
  show next004 c fm s i _ = next004 c fm s i t
  unfold next004 ensure004 seqType
  rfl

theorem inert_035_029 (c : C029) : Inert Style035 md029 c := by
  intro fm s i t t' h
  rw [h.1]
  show next029 c fm s i _ = next029 c fm s i t
  unfold next029 matchFirst matchNext reportInvalid
  rfl

theorem inert_035_039  : Inert Style035 md039 () := by
  intro fm s i t t' h
  rw [h.1]
  show next039 () fm s i _ = next039 () fm s i t
  unfold next039
  rfl

theorem inert_039_001 (c : C001) : Inert Style039 md001 c := by
  intro fm s i t t' h
  rw [h.1]
  show next001 c fm s i _ = next001 c fm s i t
  unfold next001 hash001
  rfl

theorem inert_039_004 (c : C004) : Inert Style039 md004 c := by
  intro fm s i t t' h
  rw [h.1]
  show next004 c fm s i _ = next004 c fm s i t
  unfold next004 ensure004 seqType
  rfl

theorem inert_039_029 (c : C029) : Inert Style039 md029 c := by
  intro fm s i t t' h
  rw [h.1]
  show next029 c fm s i _ = next029 c fm s i t
  unfold next029 matchFirst matchNext reportInvalid
  rfl

theorem inert_039_035 (c : C035) : Inert Style039 md035 c := by
  intro fm s i t t' h
  rw [h.1]
  show next035 c fm s i _ = next035 c fm s i t
  unfold next035
  rfl

theorem inert_019_004 (c : C004) : Inert Style019 md004 c := by
  intro fm s i t t' h
  rw [h.1]
  show next004 c fm s i _ = next004 c fm s i t
  unfold next004 ensure004 seqType
  rfl

theorem inert_004_019  : Inert Style004 md019 () := by
  intro fm s i t t' h
  rw [h.1]
  show next019 () fm s i _ = next019 () fm s i t
  unfold next019
  rfl

theorem inert_019_029 (c : C029) : Inert Style019 md029 c := by
  intro fm s i t t' h
  rw [h.1]
  show next029 c fm s i _ = next029 c fm s i t
  unfold next029 matchFirst matchNext reportInvalid
  rfl

theorem inert_029_019  : Inert Style029 md019 () := by
  intro fm s i t t' h
  rw [h.1]
  show next019 () fm s i _ = next019 () fm s i t
  unfold next019
  rfl

theorem inert_019_035 (c : C035) : Inert Style019 md035 c := by
  intro fm s i t t' h
  rw [h.1]
  show next035 c fm s i _ = next035 c fm s i t
  unfold next035
  rfl

theorem inert_035_019  : Inert Style035 md019 () := by
  intro fm s i t t' h
  rw [h.1]
  show next019 () fm s i _ = next019 () fm s i t
  unfold next019
  rfl

theorem inert_019_039  : Inert Style019 md039 () := by
  intro fm s i t t' h
  rw [h.1]
  show next039 () fm s i _ = next039 () fm s i t
  unfold next039
  rfl

theorem inert_039_019  : Inert Style039 md019 () := by
  intro fm s i t t' h
  rw [h.1]
  show next019 () fm s i _ = next019 () fm s i t
  unfold next019
  rfl

end Verif.Model.TokenRules

namespace Verif.Model.TokenRules
/-! ## the bundles -/
abbrev CfgK := C004 × C029 × C035 × Unit

/-- MD004 ⊗ MD029 ⊗ MD035 ⊗ MD039 -/
def bundleK := md004 ⊗ md029 ⊗ md035 ⊗ md039

def good35_39 (c35 : C035) : Good (md035 ⊗ md039) (c35, ()) :=
  Good.prod (c := (c35, ())) (good035 c35) good039 inert_035_039 (inert_039_035 c35)

def good29K (c29 : C029) (c35 : C035) : Good (md029 ⊗ md035 ⊗ md039) (c29, c35, ()) :=
  Good.prod (c := (c29, c35, ())) (good029 c29) (good35_39 c35)
    (Inert.prod_right (c := (c35, ())) (inert_029_035 c35) inert_029_039)
    (Inert.prod_left (inert_035_029 c29) (inert_039_029 c29))

def goodK (c : CfgK) : Good bundleK c :=
  Good.prod (c := c) (good004 c.1) (good29K c.2.1 c.2.2.1)
    (Inert.prod_right (c := (c.2.1, c.2.2.1, ())) (inert_004_029 c.2.1)
      (Inert.prod_right (c := (c.2.2.1, ())) (inert_004_035 c.2.2.1) inert_004_039))
    (Inert.prod_left (inert_029_004 c.1) (Inert.prod_left (inert_035_004 c.1) (inert_039_004 c.1)))

/-- MD001 ⊗ MD004 ⊗ MD029 ⊗ MD035 ⊗ MD039 -/
def bundleA := md001 ⊗ bundleK
/-- MD004 ⊗ MD019 ⊗ MD029 ⊗ MD035 ⊗ MD039 (plug-in order, as `PluginManager` calls them) -/
def bundleB := md004 ⊗ md019 ⊗ md029 ⊗ md035 ⊗ md039

abbrev CfgB := C004 × Unit × C029 × C035 × Unit

def goodA (c : C001 × CfgK) : Good bundleA c :=
  Good.prod (c := c) (good001 c.1) (goodK c.2)
    (Inert.prod_right (c := c.2) (inert_001_004 c.2.1)
      (Inert.prod_right (c := (c.2.2.1, c.2.2.2.1, ())) (inert_001_029 c.2.2.1)
        (Inert.prod_right (c := (c.2.2.2.1, ())) (inert_001_035 c.2.2.2.1) inert_001_039)))
    (Inert.prod_left (inert_004_001 c.1)
      (Inert.prod_left (inert_029_001 c.1) (Inert.prod_left (inert_035_001 c.1) (inert_039_001 c.1))))

def good19K (c29 : C029) (c35 : C035) : Good (md019 ⊗ md029 ⊗ md035 ⊗ md039) ((), c29, c35, ()) :=
  Good.prod (c := ((), c29, c35, ())) good019 (good29K c29 c35)
    (Inert.prod_right (c := (c29, c35, ())) (inert_019_029 c29)
      (Inert.prod_right (c := (c35, ())) (inert_019_035 c35) inert_019_039))
    (Inert.prod_left inert_029_019 (Inert.prod_left inert_035_019 inert_039_019))

def goodB (c : CfgB) : Good bundleB c :=
  Good.prod (c := c) (good004 c.1) (good19K c.2.2.1 c.2.2.2.1)
    (Inert.prod_right (c := c.2) inert_004_019
      (Inert.prod_right (c := (c.2.2.1, c.2.2.2.1, ())) (inert_004_029 c.2.2.1)
        (Inert.prod_right (c := (c.2.2.2.1, ())) (inert_004_035 c.2.2.2.1) inert_004_039)))
    (Inert.prod_left (inert_019_004 c.1)
      (Inert.prod_left (inert_029_004 c.1) (Inert.prod_left (inert_035_004 c.1) (inert_039_004 c.1))))

end Verif.Model.TokenRules
