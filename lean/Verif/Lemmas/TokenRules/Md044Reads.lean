import Verif.Lemmas.TokenRules.Md044Total
/-!
  MD044 — the scan reads only the fields of `Reads044`; the fix writes only the fields of `Writes044`.
-/
namespace Verif.Model.TokenRules

/-- two tokens agree in every field the MD044 scan reads -/
structure Reads044 (t t' : Tok2) : Prop where
  kind : t'.kind = t.kind
  line : t'.line = t.line
  col : t'.col = t.col
  text : t'.text = t.text
  startIdx : t'.startIdx = t.startIdx
  labelType : t'.labelType = t.labelType
  linkTitle : t'.linkTitle = t.linkTitle
  preLinkTitle : t'.preLinkTitle = t.preLinkTitle
  activeUri : t'.activeUri = t.activeUri
  beforeLinkWs : t'.beforeLinkWs = t.beforeLinkWs
  beforeTitleWs : t'.beforeTitleWs = t.beforeTitleWs
  boundChar : t'.boundChar = t.boundChar
  startTicks : t'.startTicks = t.startTicks
  leadWs : t'.leadWs = t.leadWs
  linkName : t'.linkName = t.linkName
  destWs : t'.destWs = t.destWs
  dest : t'.dest = t.dest
  titleWs : t'.titleWs = t.titleWs
  titleRaw : t'.titleRaw = t.titleRaw

theorem Reads044.refl (t : Tok2) : Reads044 t t := by constructor <;> rfl

theorem inlineTitleHits044_congr (names : List Str) (part : Part044) (pre : Str) (t t' : Tok2) (h : Reads044 t t') :
    inlineTitleHits044 names part pre t' = inlineTitleHits044 names part pre t := by
  unfold inlineTitleHits044 activeTitle044 linkFull044 linkBody044
  rw [h.beforeLinkWs, h.beforeTitleWs, h.boundChar, h.preLinkTitle, h.linkTitle, h.text, h.activeUri]

theorem startTok044_congr (all all' : List Tok2) (ha : All₂ Reads044 all all') (t t' : Tok2) (h : Reads044 t t') :
    (startTok044 all' t' = none ∧ startTok044 all t = none) ∨
    ∃ lt lt', startTok044 all' t' = some lt' ∧ startTok044 all t = some lt ∧ Reads044 lt lt' := by
  unfold startTok044
  rw [h.startIdx]
  cases hs : t.startIdx with
  | none => left; exact ⟨rfl, rfl⟩
  | some j =>
    simp only [Option.bind_some]
    rcases all₂_getElem044 ha j with ⟨h1, h2⟩ | ⟨a, b, h1, h2, hab⟩
    · left; rw [h1, h2]; exact ⟨rfl, rfl⟩
    · rw [h1, h2]
      simp only [hab.kind]
      by_cases hk : a.kind = .link ∨ a.kind = .image
      · right; exact ⟨a, b, by rw [if_pos hk], by rw [if_pos hk], hab⟩
      · left; exact ⟨by rw [if_neg hk], by rw [if_neg hk]⟩

theorem hits044_scan_congr (c : C044) (all all' : List Tok2) (ha : All₂ Reads044 all all') (s : St044) (t t' : Tok2) (h : Reads044 t t') :
    hits044 c false all' s t' = hits044 c false all s t := by
  unfold hits044
  rw [h.kind]
  split
  · rw [h.text]
  · unfold spanOffset044; rw [h.text, h.startTicks, h.leadWs]
  · simp only [Bool.false_eq_true, ↓reduceIte]
    rcases startTok044_congr all all' ha t t' h with ⟨h1, h2⟩ | ⟨lt, lt', h1, h2, hl⟩
    · rw [h1, h2]
    · rw [h1, h2]; simp only; rw [hl.labelType, inlineTitleHits044_congr _ _ _ lt lt' hl]
  · simp only [Bool.false_eq_true, ↓reduceIte]
    rw [h.text, h.labelType, inlineTitleHits044_congr _ _ _ t t' h]
  · simp only [Bool.false_eq_true, ↓reduceIte, Bool.false_and]
    unfold lrdOffset044 lrdFull044 lrdName044
    rw [h.text, h.linkName, h.destWs, h.dest, h.titleWs, h.titleRaw]
  · rfl
  · rfl

theorem next044_scan_congr (c : C044) (all all' : List Tok2) (ha : All₂ Reads044 all all') (s : St044) (i : Nat) (t t' : Tok2)
    (h : Reads044 t t') : next044 c false all' s i t' = next044 c false all s i t := by
  unfold next044
  rw [hits044_scan_congr c all all' ha s t t' h]
  have hst : state044 s t' = state044 s t := state044_kind s t t' h.kind
  have hrep : (repTok044 all' t').line = (repTok044 all t).line ∧ (repTok044 all' t').col = (repTok044 all t).col := by
    unfold repTok044
    rw [h.kind]
    split
    · rcases startTok044_congr all all' ha t t' h with ⟨h1, h2⟩ | ⟨lt, lt', h1, h2, hl⟩
      · rw [h1, h2]; exact ⟨h.line, h.col⟩
      · rw [h1, h2]; exact ⟨hl.line, hl.col⟩
    · exact ⟨h.line, h.col⟩
  rw [hst, hrep.1, hrep.2]
  simp only [Bool.false_eq_true, ↓reduceIte]

theorem runFrom2_scan_congr (c : C044) (all all' : List Tok2) (ha : All₂ Reads044 all all') :
    ∀ (ts ts' : List Tok2), All₂ Reads044 ts ts' → ∀ (s : St044) (i : Nat),
      runFrom2 md044 c false all' s i ts' = runFrom2 md044 c false all s i ts := by
  intro ts ts' h
  induction h with
  | nil => intros; rfl
  | cons hp _ ih =>
    intro s i
    unfold runFrom2
    have : md044.next c false all' s i _ = md044.next c false all s i _ := next044_scan_congr c all all' ha s i _ _ hp
    rw [this]
    split
    · rfl
    · rw [ih]

/-! ## the fields the fix writes -/
/-- `t` with the fields MD044's fix may write (and the start-token reference, which `reindex` normalises) taken from `t'` -/
def written044 (t t' : Tok2) : Tok2 :=
  { t with toTok := { t.toTok with text := t'.text }, linkTitle := t'.linkTitle, preLinkTitle := t'.preLinkTitle,
           linkName := t'.linkName, titleRaw := t'.titleRaw, startIdx := t'.startIdx }

theorem eq_of_others044 (t t' : Tok2) (h : others044 t' = others044 t) (hs : t'.startIdx = t.startIdx) : t' = written044 t t' := by
  obtain ⟨⟨k, l, c, hc, tr, ks, sq, ct, ind, ws, ld, sc, rs, fc, tx, ed⟩, ew, si, lt, ti, pt, au, blw, btw, bc, st, lw, tw, ln, dw, de, tws, trw, pl⟩ := t
  obtain ⟨⟨k', l', c', hc', tr', ks', sq', ct', ind', ws', ld', sc', rs', fc', tx', ed'⟩, ew', si', lt', ti', pt', au', blw', btw', bc', st', lw', tw', ln', dw', de', tws', trw', pl'⟩ := t'
  simp only [others044, Tok2.mk.injEq, Tok.mk.injEq] at h
  simp only [written044, Tok2.mk.injEq, Tok.mk.injEq]
  simp_all

theorem normIdx044_written (n : Nat) (t t' : Tok2) (h : t' = written044 t t') : normIdx044 n t' = written044 t (normIdx044 n t') := by
  unfold normIdx044
  split
  · rw [h]; rfl
  · exact h

end Verif.Model.TokenRules
