import Verif.Lemmas.TokenRules.Md023Style
import Verif.Lemmas.TokenRules.Md023Scan
/-!
  MD023: on a stream that satisfies `wf023` neither the scan nor the fix raises (`md023_scan_ok`, `md023_fix_ok`).
  Simulation `Sim023` between the bookkeeping of `wf023` and the rule's state, next to the invariant `Inv023`.
-/
namespace Verif.Model.TokenRules

theorem pySet_some {α : Type} (l : List α) (i : Int) (v : α) (h1 : -(l.length : Int) ≤ i) (h2 : i < (l.length : Int)) :
    ∃ l', pySet l i v = some l' := by
  unfold pySet
  by_cases h0 : 0 ≤ i
  · simp only [h0, ↓reduceIte]
    have : i.toNat < l.length := by omega
    simp [this]
  · simp only [h0, ↓reduceIte, h1]
    exact ⟨_, rfl⟩

theorem tabHead023_cons (c : Char) (r : Str) : tabHead023 (c :: r) = true ↔ c = '\t' := by
  unfold tabHead023; simp

/-- `__fix_adjustments` does not raise at a site that `idxOk023` accepts -/
theorem fixAdj023_ok (toks : List Tok2) (i : Nat) (cm : CM023) (cache : Cache023) (ex : Str) (ind : Int)
    (hS : StackInv023 toks i cm.stack) (hC : CacheInv023 toks cache) (hex : ex ≠ [])
    (hidx : tabHead023 ex = true → idxOk023 cm ind = true) : ∃ cache' w, fixAdj023 cm cache ex ind = .ok (cache', w) := by
  obtain ⟨stack, bq, lam, ll⟩ := cm
  unfold fixAdj023
  cases stack with
  | nil => exact ⟨_, _, rfl⟩
  | cons ct rest =>
    cases ex with
    | nil => exact absurd rfl hex
    | cons c r =>
      simp only
      by_cases hbq : ct.isBq = true
      · simp only [hbq, ↓reduceIte]; exact ⟨_, _, rfl⟩
      · simp only [hbq, Bool.false_eq_true, ↓reduceIte]
        by_cases hc : c = '\t'
        · simp only [hc, ↓reduceIte]
          have hi := hidx ((tabHead023_cons c r).mpr hc)
          unfold idxOk023 at hi
          simp only [hbq, Bool.false_or] at hi
          cases hl : ct.leading with
          | none => rw [hl] at hi; simp at hi
          | some l =>
            cases hb : dget bq (ct :: rest).length with
            | none => rw [hl, hb] at hi; simp at hi
            | some track =>
              cases ha : dget lam (ct :: rest).length with
              | none => rw [hl, hb, ha] at hi; simp at hi
              | some adj =>
                rw [hl, hb, ha] at hi
                simp only [decide_eq_true_eq] at hi
                simp only
                obtain ⟨_, t, ht, hct, _⟩ := hS ct List.mem_cons_self
                have hlead : t.leading = some l := by rw [← hl, hct]; rfl
                cases hd : dget cache ct.idx with
                | some sp =>
                  simp only
                  obtain ⟨t', l', ht', _, hl', hall⟩ := hC ct.idx sp hd
                  rw [ht] at ht'
                  cases ht'
                  rw [hlead] at hl'
                  cases hl'
                  have hlen := hall.length_eq
                  obtain ⟨sp', hsp'⟩ := pySet_some sp (track - adj + ind) (spaces023 ct.indent) (by rw [← hlen]; exact hi.1) (by rw [← hlen]; exact hi.2)
                  rw [hsp']
                  exact ⟨_, _, rfl⟩
                | none =>
                  simp only [Option.map_some]
                  obtain ⟨sp', hsp'⟩ := pySet_some (splitOn1 '\n' l) (track - adj + ind) (spaces023 ct.indent) hi.1 hi.2
                  rw [hsp']
                  exact ⟨_, _, rfl⟩
        · simp only [hc, ↓reduceIte]; exact ⟨_, _, rfl⟩

theorem leadSplit023_ne (e a b : Str) (h : leadSplit023 e = some (a, b)) : a ≠ [] := by
  unfold leadSplit023 at h
  split at h
  · split at h
    · cases h
    · rename_i hne
      cases h
      intro h0; apply hne; rw [h0]; rfl
  · cases h

theorem stripLine023_ok (toks : List Tok2) (n : Nat) (cm : CM023) (isEnd : Bool) (hS : StackInv023 toks n cm.stack) (L : Loop023) (x : Str)
    (hC : CacheInv023 toks L.cache) (h1 : startsAlert x = true → idxOk023 cm (if isEnd then -1 else 0) = true) :
    ∃ L1, stripLine023 true cm isEnd L x = .ok L1 ∧ CacheInv023 toks L1.cache := by
  unfold stripLine023
  simp only [↓reduceIte]
  by_cases hal : startsAlert x = true
  · simp only [hal, ↓reduceIte]
    obtain ⟨c', w, hfa⟩ := fixAdj023_ok toks n cm L.cache ['\t'] (if isEnd = true then -1 else 0) hS hC (by simp) (fun _ => h1 hal)
    rw [hfa]
    exact ⟨_, rfl, (fixAdj023_good toks n cm L.cache c' _ w _ hS hC hfa).1⟩
  · simp only [hal, Bool.false_eq_true, ↓reduceIte]
    exact ⟨_, rfl, hC⟩

theorem split023_ok (toks : List Tok2) (n : Nat) (cm : CM023) (isEnd : Bool) (hS : StackInv023 toks n cm.stack) (L : Loop023) (x : Str)
    (nse : Option Str) (k : Nat) (hC : CacheInv023 toks L.cache)
    (h1 : startsAlert x = true → idxOk023 cm (if isEnd then -1 else 0) = true)
    (h2 : ∀ e a, nse = some e → leadPart023 e = some a → tabHead023 a = true → idxOk023 cm k = true) :
    ∃ L1, split023 true cm isEnd L x nse k = .ok L1 := by
  unfold split023
  obtain ⟨L1, hL1, hC1⟩ := stripLine023_ok toks n cm isEnd hS L x hC h1
  rw [hL1]
  simp only
  cases nse with
  | none => exact ⟨_, rfl⟩
  | some e =>
    simp only
    by_cases hsf : L1.seenFirst = true
    · simp only [hsf, ↓reduceIte]
      unfold splitEnd023
      cases hls : leadSplit023 e with
      | none => exact ⟨_, rfl⟩
      | some p =>
        obtain ⟨a, b⟩ := p
        simp only
        obtain ⟨c', w, hfa⟩ := fixAdj023_ok toks n cm L1.cache a k hS hC1 (leadSplit023_ne e a b hls)
          (fun ht => h2 e a rfl (by unfold leadPart023; rw [hls]; rfl) ht)
        rw [hfa]
        exact ⟨_, rfl⟩
    · simp only [hsf, Bool.false_eq_true, ↓reduceIte]
      exact ⟨_, rfl⟩

/-- the per-line loop, fix mode: no exception when every TAB site of the token is accepted -/
theorem loop023_ok (toks : List Tok2) (n : Nat) (cm : CM023) (isEnd : Bool) (hS : StackInv023 toks n cm.stack) :
    ∀ (st : List Str) (se : Option (List Str)) (L : Loop023) (k : Nat), CacheInv023 toks L.cache →
    textSites023 cm (if isEnd then -1 else 0) k st se = true → ∃ L', loop023 true cm isEnd L k st se = .ok L' := by
  intro st
  induction st with
  | nil => intro se L k _ _; exact ⟨L, by simp [loop023]⟩
  | cons x xs ih =>
    intro se L k hC hsites
    cases se with
    | none =>
      unfold textSites023 at hsites
      simp only [Bool.and_eq_true, Bool.or_eq_true, Bool.not_eq_eq_eq_not, Bool.not_true] at hsites
      obtain ⟨hs1, hs2⟩ := hsites
      obtain ⟨L1, hL1⟩ := split023_ok toks n cm isEnd hS L x none k hC
        (by intro hal; rcases hs1 with h | h
            · rw [hal] at h; cases h
            · exact h) (by intro e a he; cases he)
      obtain ⟨hC1, _, _⟩ := split023_fix toks n cm isEnd L L1 x none k hS hC hL1
      obtain ⟨L', hL'⟩ := ih none L1 (k + 1) hC1 hs2
      exact ⟨L', by unfold loop023; rw [hL1]; exact hL'⟩
    | some es =>
      cases es with
      | nil => simp [textSites023] at hsites
      | cons e es =>
        unfold textSites023 at hsites
        simp only [Bool.and_eq_true, Bool.or_eq_true, Bool.not_eq_eq_eq_not, Bool.not_true] at hsites
        obtain ⟨⟨hs1, hs3⟩, hs2⟩ := hsites
        obtain ⟨L1, hL1⟩ := split023_ok toks n cm isEnd hS L x (some e) k hC
          (by intro hal; rcases hs1 with h | h
              · rw [hal] at h; cases h
              · exact h)
          (by intro e' a he hlp hth
              cases he
              rw [hlp] at hs3
              simp only [Bool.or_eq_true, Bool.not_eq_eq_eq_not, Bool.not_true] at hs3
              rcases hs3 with h | h
              · rw [hth] at h; cases h
              · exact h)
        obtain ⟨hC1, _, _⟩ := split023_fix toks n cm isEnd L L1 x (some e) k hS hC hL1
        obtain ⟨L', hL'⟩ := ih (some es) L1 (k + 1) hC1 hs2
        exact ⟨L', by unfold loop023; rw [hL1]; exact hL'⟩

/-! ## `__handle_text` in fix mode: success and shape -/
def key023 (q : FixReq2) : Nat × Field2 := (q.idx, q.field)

/-- the fix-mode skip condition of `__handle_text` -/
def skip023 (s : St023) (ew : Option Str) (isEnd : Bool) : Bool := s.setext.isNone || ((ew.getD []).isEmpty && !isEnd)

theorem skipCond023 (s : St023) (ew : Option Str) (isEnd : Bool) :
    (s.setext.isNone || (s.anyWs && !true) || ((ew.getD []).isEmpty && !isEnd)) = skip023 s ew isEnd := by
  unfold skip023; simp

theorem text023_skip (s : St023) (j : Nat) (tx : Str) (ew : Option Str) (isEnd : Bool) (h : skip023 s ew isEnd = true) :
    text023 true s j tx ew isEnd = .ok ({ s with lastSkipped := some (j, tx, ew) }, []) := by
  unfold text023
  rw [skipCond023, h]
  simp only [↓reduceIte]

/-- `__handle_text` in fix mode when the token is not skipped -/
theorem text023_run (s : St023) (j : Nat) (tx : Str) (ew : Option Str) (isEnd : Bool) (h : skip023 s ew isEnd = false) :
    text023 true s j tx ew isEnd =
      if lenOk023 tx ew then
        match loop023 true s.cm isEnd { anyWs := s.anyWs, seenFirst := s.seenFirst, cache := s.cache } 0 (splitOn1 '\n' tx)
            (ew.map (splitOn1 '\n')) with
        | .error e => .error e
        | .ok L =>
          .ok ({ s with lastSkipped := none, anyWs := L.anyWs, seenFirst := L.seenFirst, cache := L.cache },
               (match ew with
                | some e => if joinWith nl023 L.newEnd ≠ e then [⟨j, .endWhitespace, .str (joinWith nl023 L.newEnd)⟩] else []
                | none => []) ++
               (if joinWith nl023 L.newText ≠ tx then [⟨j, .base .tokenText, .str (joinWith nl023 L.newText)⟩] else []))
      else .error .assertion := by
  unfold text023
  rw [skipCond023, h]
  simp only [Bool.false_eq_true, ↓reduceIte, Bool.true_or, Bool.not_true]
  unfold lenOk023
  cases ew with
  | none => simp only [Option.map_none, Bool.false_eq_true, ↓reduceIte]; rfl
  | some e =>
    simp only [Option.map_some]
    by_cases hl : (splitOn1 '\n' e).length = (splitOn1 '\n' tx).length
    · simp only [hl, ne_eq, not_true_eq_false, decide_false, Bool.false_eq_true, ↓reduceIte, beq_self_eq_true]
      try rfl
    · have h2 : ((splitOn1 '\n' e).length == (splitOn1 '\n' tx).length) = false := by simpa using hl
      simp only [ne_eq, hl, not_false_eq_true, decide_true, ↓reduceIte, h2, Bool.false_eq_true]
      try rfl

theorem text023_ok (toks : List Tok2) (n : Nat) (s : St023) (j : Nat) (tx : Str) (ew : Option Str) (isEnd : Bool)
    (hS : StackInv023 toks n s.cm.stack) (hC : CacheInv023 toks s.cache)
    (h : skip023 s ew isEnd = true ∨
         (lenOk023 tx ew = true ∧ textSites023 s.cm (if isEnd then -1 else 0) 0 (splitOn1 '\n' tx) (ew.map (splitOn1 '\n')) = true)) :
    ∃ s' r, text023 true s j tx ew isEnd = .ok (s', r) := by
  by_cases hsk : skip023 s ew isEnd = true
  · exact ⟨_, _, text023_skip s j tx ew isEnd hsk⟩
  · rcases h with h | ⟨hlen, hsites⟩
    · exact absurd h hsk
    · rw [text023_run s j tx ew isEnd (by simpa using hsk), hlen]
      simp only [↓reduceIte]
      obtain ⟨L', hL'⟩ := loop023_ok toks n s.cm isEnd hS (splitOn1 '\n' tx) (ew.map (splitOn1 '\n'))
        { anyWs := s.anyWs, seenFirst := s.seenFirst, cache := s.cache } 0 hC hsites
      rw [hL']
      exact ⟨_, _, rfl⟩

/-- shape of a successful `__handle_text` in fix mode -/
theorem text023_shape (s s' : St023) (j : Nat) (tx : Str) (ew : Option Str) (isEnd : Bool) (r : List FixReq2)
    (h : text023 true s j tx ew isEnd = .ok (s', r)) :
    s'.cm = s.cm ∧ s'.setext = s.setext ∧
    (if skip023 s ew isEnd then s'.lastSkipped = some (j, tx, ew) ∧ r = [] else s'.lastSkipped = none) ∧
    (r.map key023).Nodup ∧ ∀ q ∈ r, q.idx = j ∧ (q.field = .endWhitespace ∨ q.field = .base .tokenText) := by
  by_cases hsk : skip023 s ew isEnd = true
  · rw [text023_skip s j tx ew isEnd hsk] at h
    cases h
    simp [hsk]
  · simp only [hsk, Bool.false_eq_true, ↓reduceIte]
    rw [text023_run s j tx ew isEnd (by simpa using hsk)] at h
    split at h
    · split at h
      · cases h
      · rename_i L _
        simp only [Except.ok.injEq, Prod.mk.injEq] at h
        obtain ⟨rfl, rfl⟩ := h
        refine ⟨rfl, rfl, rfl, ?_, ?_⟩
        · cases ew with
          | none => simp only [List.nil_append]; split <;> simp [key023]
          | some e => simp only; split <;> split <;> simp [key023]
        · intro q hq
          rcases List.mem_append.mp hq with hq | hq
          · cases ew with
            | none => cases hq
            | some e =>
              simp only at hq
              split at hq
              · simp only [List.mem_singleton] at hq; subst hq; exact ⟨rfl, .inl rfl⟩
              · cases hq
          · split at hq
            · simp only [List.mem_singleton] at hq; subst hq; exact ⟨rfl, .inr rfl⟩
            · cases hq
    · cases h

/-! ## the simulation -/
structure Sim023 (w : W023) (s : St023) : Prop where
  cm : w.cm = s.cm
  inSetext : w.inSetext = s.setext.isSome
  lastSk : w.lastSk = s.lastSkipped.map (·.2)

def SkipLt023 (s : St023) (i : Nat) : Prop := ∀ j tx ew, s.lastSkipped = some (j, tx, ew) → j < i

/-- the container stack, top first, holds strictly decreasing stream indices -/
def Sorted023 (st : List Cont023) : Prop := List.Pairwise (fun a b => b.idx < a.idx) st

def isContKind023 : Kind → Bool
  | .bquote | .bquoteEnd | .ulist | .olist | .ulistEnd | .olistEnd | .li => true
  | _ => false

/-- what the heading / text dispatch leaves behind in fix mode -/
structure Disp023 (i : Nat) (s : St023) (t : Tok2) (s2 : St023) (o : Out) : Prop where
  cm : s2.cm = s.cm
  setext : s2.setext.isSome = (match t.kind with | .setext => true | .setextEnd => false | _ => s.setext.isSome)
  skipped : s2.lastSkipped = (match t.kind with
    | .setext => none | .setextEnd => none
    | .text => if skip023 s t.endWs false then some (i, t.text, t.endWs) else none
    | _ => s.lastSkipped)
  nodup : (o.reqs.map key023).Nodup
  reqs : ∀ q ∈ o.reqs, q.field ≠ .base .leadingSpaces ∧ (q.idx = i ∨ (t.kind = .setextEnd ∧ ∃ tx ew, s.lastSkipped = some (q.idx, tx, ew)))
  quiet : t.kind = .text → skip023 s t.endWs false = true → o.reqs = []
  cont : isContKind023 t.kind = true → o.reqs = []

theorem atx023_wf (toks : List Tok2) (i : Nat) (s : St023) (t : Tok2) (w : W023) (hI : Inv023 toks i s) (hk : t.kind = .atx)
    (hok : wfOk023 w s.cm t = true) : ∃ s2 o, atx023 true s i t = .ok (s2, o) ∧ Disp023 i s t s2 o := by
  unfold wfOk023 at hok
  simp only [hk, Bool.or_eq_true, Bool.not_eq_eq_eq_not, Bool.not_true] at hok
  unfold atx023
  by_cases hw : t.ws.isEmpty = true
  · simp only [hw, ↓reduceIte]
    exact ⟨_, _, rfl, ⟨rfl, (by simp [hk]), (by simp [hk]), (by simp [key023]), (by intro q hq; cases hq), (fun _ _ => rfl), (fun _ => rfl)⟩⟩
  · simp only [hw, Bool.false_eq_true, ↓reduceIte]
    obtain ⟨c', wv, hfa⟩ := fixAdj023_ok toks i s.cm s.cache t.ws 0 hI.stack hI.cache (by intro h0; apply hw; rw [h0]; rfl)
      (by intro hth; rcases hok with h | h
          · rw [hth] at h; cases h
          · exact h)
    rw [hfa]
    refine ⟨_, _, rfl, ⟨rfl, (by simp [hk]), (by simp [hk]), (by simp [key023]), ?_, (fun h => by rw [hk] at h; cases h), (fun h => by rw [hk] at h; cases h)⟩⟩
    intro q hq
    simp only [List.mem_singleton] at hq
    subst hq
    exact ⟨by simp, .inl rfl⟩

theorem setextEnd023_wf (toks : List Tok2) (i : Nat) (s : St023) (t : Tok2) (w : W023) (hI : Inv023 toks i s) (hk : t.kind = .setextEnd)
    (hS : w.inSetext = s.setext.isSome) (hL : w.lastSk = s.lastSkipped.map (·.2)) (hLt : SkipLt023 s i)
    (hok : wfOk023 w s.cm t = true) : ∃ s2 o, setextEnd023 true s i t = .ok (s2, o) ∧ Disp023 i s t s2 o := by
  unfold wfOk023 at hok
  simp only [hk, Bool.and_eq_true, Bool.or_eq_true, Bool.not_eq_eq_eq_not, Bool.not_true] at hok
  obtain ⟨⟨hin, hws⟩, hlast⟩ := hok
  have hset : s.setext.isSome = true := by rw [← hS]; exact hin
  -- the re-handled text token
  have h1 : ∃ s1 r1, reHandle023 true s = .ok (s1, r1) ∧
      s1.cm = s.cm ∧ s1.setext = s.setext ∧ s1.lastSkipped = none ∧ CacheInv023 toks s1.cache ∧ (r1.map key023).Nodup ∧
      ∀ q ∈ r1, q.field ≠ .base .leadingSpaces ∧ ∃ tx ew, s.lastSkipped = some (q.idx, tx, ew) := by
    unfold reHandle023
    cases hls : s.lastSkipped with
    | none => exact ⟨s, [], rfl, rfl, rfl, hls, hI.cache, by simp, by intro q hq; cases hq⟩
    | some p =>
      obtain ⟨j, tx, ew⟩ := p
      simp only [↓reduceIte]
      rw [hls] at hL
      simp only [Option.map_some] at hL
      rw [hL] at hlast
      simp only [Bool.and_eq_true] at hlast
      have hnsk : skip023 s ew true = false := by
        unfold skip023
        cases hse : s.setext with
        | none => rw [hse] at hset; cases hset
        | some _ => simp
      obtain ⟨s1, r1, ht1⟩ := text023_ok toks i s j tx ew true hI.stack hI.cache (.inr ⟨hlast.1, by simpa using hlast.2⟩)
      obtain ⟨a1, a2, a3, a4, a5⟩ := text023_shape s s1 j tx ew true r1 ht1
      rw [hnsk] at a3
      simp only [Bool.false_eq_true, ↓reduceIte] at a3
      obtain ⟨_, b2, _, _⟩ := text023_fix toks i s s1 j tx ew true r1 hI.stack hI.cache ht1
      refine ⟨s1, r1, ht1, a1, a2, a3, b2, a4, ?_⟩
      intro q hq
      obtain ⟨hqi, hqf⟩ := a5 q hq
      refine ⟨by rcases hqf with h | h <;> rw [h] <;> simp, tx, ew, by rw [hqi]⟩
  obtain ⟨s1, r1, he1, c1, c2, c3, c4, c5, c6⟩ := h1
  -- the underline's whitespace
  have h2 : ∃ s2 r2, endWs023 true s1 i t = .ok (s2, r2) ∧
      s2.cm = s.cm ∧ s2.setext = s.setext ∧ s2.lastSkipped = none ∧ (r2 = [] ∨ ∃ wv, r2 = [⟨i, .base .extractedWhitespace, .str wv⟩]) := by
    unfold endWs023
    by_cases hw : t.ws.isEmpty = true
    · simp only [hw, ↓reduceIte]
      exact ⟨s1, [], rfl, c1, c2, c3, .inl rfl⟩
    · simp only [hw, Bool.false_eq_true, ↓reduceIte]
      obtain ⟨c', wv, hfa⟩ := fixAdj023_ok toks i s1.cm s1.cache t.ws 0 (by rw [c1]; exact hI.stack) c4 (by intro h0; apply hw; rw [h0]; rfl)
        (by intro hth; rw [c1]; rcases hws with h | h
            · rw [hth] at h; cases h
            · exact h)
      rw [hfa]
      exact ⟨_, _, rfl, c1, c2, c3, .inr ⟨wv, rfl⟩⟩
  obtain ⟨s2, r2, he2, d1, d2, d3, d4⟩ := h2
  unfold setextEnd023
  rw [he1]
  simp only
  rw [he2]
  simp only
  have hnd : ((r1 ++ r2).map key023).Nodup := by
    rcases d4 with rfl | ⟨wv, rfl⟩
    · simpa using c5
    · rw [List.map_append, List.nodup_append]
      refine ⟨c5, by simp, ?_⟩
      intro a ha b hb
      simp only [List.map_cons, List.map_nil, List.mem_singleton] at hb
      subst hb
      obtain ⟨q, hq, rfl⟩ := List.mem_map.mp ha
      obtain ⟨_, tx, ew, hq2⟩ := c6 q hq
      have := hLt q.idx tx ew hq2
      intro heq
      have : q.idx = i := congrArg Prod.fst heq
      omega
  have hreq : ∀ q ∈ r1 ++ r2, q.field ≠ .base .leadingSpaces ∧ (q.idx = i ∨ (t.kind = .setextEnd ∧ ∃ tx ew, s.lastSkipped = some (q.idx, tx, ew))) := by
    intro q hq
    rcases List.mem_append.mp hq with hq | hq
    · obtain ⟨h1, h2⟩ := c6 q hq
      exact ⟨h1, .inr ⟨hk, h2⟩⟩
    · rcases d4 with rfl | ⟨wv, rfl⟩
      · cases hq
      · simp only [List.mem_singleton] at hq
        subst hq
        exact ⟨by simp, .inl rfl⟩
  have hfin : ∀ (s3 : St023) (o : Out), s3.cm = s2.cm → s3.lastSkipped = s2.lastSkipped → s3.setext = none → o.reqs = r1 ++ r2 →
      Disp023 i s t s3 o := by
    intro s3 o h3a h3b h3c ho
    exact ⟨(by rw [h3a]; exact d1), (by simp [hk, h3c]), (by simp only [hk]; rw [h3b]; exact d3), (by rw [ho]; exact hnd),
      (by rw [ho]; exact hreq), (fun h => by rw [hk] at h; cases h), (fun h => by rw [hk] at h; cases h)⟩
  unfold endReport023
  cases hse : s2.setext with
  | none => rw [d2] at hse; rw [hse] at hset; cases hset
  | some p =>
    obtain ⟨line, col⟩ := p
    by_cases ha : s2.anyWs = true
    · simp only [ha, ↓reduceIte]
      exact ⟨_, _, rfl, hfin _ _ rfl rfl rfl rfl⟩
    · simp only [ha, Bool.false_eq_true, ↓reduceIte]
      exact ⟨_, _, rfl, hfin _ _ rfl rfl rfl rfl⟩

theorem text023_wf (toks : List Tok2) (i : Nat) (s : St023) (t : Tok2) (w : W023) (hI : Inv023 toks i s) (hk : t.kind = .text)
    (hS : w.inSetext = s.setext.isSome) (hok : wfOk023 w s.cm t = true) :
    ∃ s2 r, text023 true s i t.text t.endWs false = .ok (s2, r) ∧ Disp023 i s t s2 { reqs := r } := by
  unfold wfOk023 at hok
  simp only [hk, Bool.or_eq_true, Bool.not_eq_eq_eq_not, Bool.not_true, Bool.and_eq_true] at hok
  have hcond : skip023 s t.endWs false = true ∨
      (lenOk023 t.text t.endWs = true ∧ textSites023 s.cm (if false = true then -1 else 0) 0 (splitOn1 '\n' t.text) (t.endWs.map (splitOn1 '\n')) = true) := by
    rcases hok with h | h
    · left
      unfold skip023
      rw [hS] at h
      cases hse : s.setext with
      | none => simp
      | some _ =>
        rw [hse] at h
        simp only [Option.isSome_some, Bool.true_and, Bool.not_eq_false'] at h
        simp [h]
    · right; simpa using h
  obtain ⟨s2, r, htx⟩ := text023_ok toks i s i t.text t.endWs false hI.stack hI.cache hcond
  obtain ⟨a1, a2, a3, a4, a5⟩ := text023_shape s s2 i t.text t.endWs false r htx
  refine ⟨s2, r, htx, ⟨a1, (by simp only [hk]; rw [a2]), ?_, a4, ?_, ?_, (fun h => by rw [hk] at h; cases h)⟩⟩
  · simp only [hk]
    by_cases hsk : skip023 s t.endWs false = true
    · simp only [hsk, ↓reduceIte] at a3 ⊢; exact a3.1
    · simp only [hsk, Bool.false_eq_true, ↓reduceIte] at a3 ⊢; exact a3
  · intro q hq
    obtain ⟨h1, h2⟩ := a5 q hq
    exact ⟨by rcases h2 with h | h <;> rw [h] <;> simp, .inl h1⟩
  · intro _ hsk
    simp only [hsk, ↓reduceIte] at a3
    exact a3.2

/-- the heading / text dispatch in fix mode does not raise on a token that `wfOk023` accepts -/
theorem dispatch023_wf (toks : List Tok2) (i : Nat) (s : St023) (t : Tok2) (w : W023) (hI : Inv023 toks i s)
    (hS : w.inSetext = s.setext.isSome) (hL : w.lastSk = s.lastSkipped.map (·.2)) (hLt : SkipLt023 s i)
    (hok : wfOk023 w s.cm t = true) : ∃ s2 o, dispatch023 true s i t = .ok (s2, o) ∧ Disp023 i s t s2 o := by
  unfold dispatch023
  cases hk : t.kind <;> simp only
  case atx => exact atx023_wf toks i s t w hI hk hok
  case setextEnd => exact setextEnd023_wf toks i s t w hI hk hS hL hLt hok
  case text =>
    obtain ⟨s2, r, h1, h2⟩ := text023_wf toks i s t w hI hk hS hok
    rw [h1]
    exact ⟨_, _, rfl, h2⟩
  case setext =>
    refine ⟨_, _, rfl, ⟨rfl, (by simp [hk, setext023]), (by simp [hk, setext023]), ?_, ?_, (fun h => by rw [hk] at h; cases h),
      (fun h => by rw [hk] at h; cases h)⟩⟩
    · simp only [setext023]
      cases t.ws with
      | nil => simp
      | cons c r => simp [key023]
    · intro q hq
      simp only [setext023] at hq
      cases hws : t.ws with
      | nil => rw [hws] at hq; cases hq
      | cons c r =>
        rw [hws] at hq
        simp only [↓reduceIte, List.mem_singleton] at hq
        subst hq
        exact ⟨by simp, .inl rfl⟩
  all_goals
    exact ⟨_, _, rfl, ⟨rfl, (by simp [hk]), (by simp [hk]), (by simp), (by intro q hq; cases hq), (fun h => by rw [hk] at h; cases h),
      (fun _ => rfl)⟩⟩

/-! ## one `next_token` call on a well-formed stream -/

/-- the (token, field) pairs a run from state `s` at index `i` may still name -/
def Allowed023 (s : St023) (i : Nat) (k : Nat × Field2) : Prop :=
  i ≤ k.1 ∨ (k.2 ≠ .base .leadingSpaces ∧ ∃ tx ew, s.lastSkipped = some (k.1, tx, ew)) ∨
  (k.2 = .base .leadingSpaces ∧ ∃ ct ∈ s.cm.stack, ct.idx = k.1)

theorem cmPost023_listEnd (cm cm' : CM023) (i : Nat) (t : Tok2) (hk : t.kind = .ulistEnd ∨ t.kind = .olistEnd)
    (h : cmPost023 cm i t = .ok cm') : ∃ ct, cm.stack = ct :: cm'.stack := by
  unfold cmPost023 at h
  rcases hk with hk | hk <;> simp only [hk] at h <;>
  · split at h
    · cases h
    · cases h
    · obtain ⟨ct, hct⟩ := popStack023_stack _ _ h
      exact ⟨ct, hct⟩

theorem listEnd023_shape (s2 : St023) (t : Tok2) :
    listEnd023 true s2 t = [] ∨
    ∃ j sp, (t.kind = .ulistEnd ∨ t.kind = .olistEnd) ∧ t.startIdx = some j ∧
      listEnd023 true s2 t = [⟨j, .base .leadingSpaces, .str (joinWith nl023 sp)⟩] := by
  unfold listEnd023
  split
  · rename_i hc
    split
    · rename_i j hj
      split
      · rename_i sp _
        exact .inr ⟨j, sp, hc.1, hj, rfl⟩
      · exact .inl rfl
    · exact .inl rfl
  · exact .inl rfl

theorem Sorted023_post (toks : List Tok2) (cm cm' : CM023) (i : Nat) (t : Tok2) (hS : StackInv023 toks i cm.stack)
    (hSo : Sorted023 cm.stack) (h : cmPost023 cm i t = .ok cm') : Sorted023 cm'.stack := by
  rcases cmPost023_stack cm cm' i t h with h1 | ⟨h1, _⟩ | ⟨ct, h1⟩
  · rw [h1]; exact hSo
  · rw [h1]
    exact List.Pairwise.cons (fun b hb => (hS b hb).1) hSo
  · unfold Sorted023 at hSo
    rw [h1] at hSo
    exact (List.pairwise_cons.mp hSo).2

structure Step023 (w' : W023) (i : Nat) (s s' : St023) (o : Out) : Prop where
  sim : Sim023 w' s'
  lt : SkipLt023 s' (i + 1)
  sorted : Sorted023 s'.cm.stack
  nodup : (o.reqs.map key023).Nodup
  allowed : ∀ q ∈ o.reqs, Allowed023 s i (key023 q)
  fresh : ∀ q ∈ o.reqs, ¬ Allowed023 s' (i + 1) (key023 q)
  mono : ∀ k, Allowed023 s' (i + 1) k → Allowed023 s i k

theorem next023_wf (toks : List Tok2) (i : Nat) (s : St023) (t : Tok2) (w w' : W023) (hSim : Sim023 w s) (hI : Inv023 toks i s)
    (hLt : SkipLt023 s i) (hSo : Sorted023 s.cm.stack) (hw : wfStep023 w i t = some w') :
    ∃ s' o, next023 () true toks s i t = .ok (s', o) ∧ Step023 w' i s s' o := by
  unfold wfStep023 at hw
  rw [hSim.cm] at hw
  cases hpre : cmPre023 s.cm t with
  | error e => rw [hpre] at hw; cases hw
  | ok cm1 =>
    rw [hpre] at hw
    simp only at hw
    by_cases hok : wfOk023 w cm1 t = true
    · simp only [hok, ↓reduceIte] at hw
      cases hpost : cmPost023 cm1 i t with
      | error e => rw [hpost] at hw; cases hw
      | ok cm2 =>
        rw [hpost] at hw
        simp only [Option.some.injEq] at hw
        subst hw
        have hst1 : cm1.stack = s.cm.stack := cmPre023_stack _ _ _ hpre
        have hI1 : Inv023 toks i { s with cm := cm1 } :=
          ⟨by show StackInv023 toks i cm1.stack; rw [hst1]; exact hI.stack, hI.cache, hI.skipped⟩
        obtain ⟨s2, o, hd, D⟩ := dispatch023_wf toks i { s with cm := cm1 } t w hI1 hSim.inSetext hSim.lastSk hLt hok
        have hcm2 : s2.cm = cm1 := D.cm
        have hsk2 : s2.lastSkipped = (match t.kind with
            | .setext => none | .setextEnd => none
            | .text => if skip023 s t.endWs false then some (i, t.text, t.endWs) else none
            | _ => s.lastSkipped) := D.skipped
        unfold next023
        rw [hpre]
        simp only
        rw [hd]
        simp only
        rw [hcm2, hpost]
        refine ⟨_, _, rfl, ?_⟩
        -- facts about the stack after the token
        have hstack : (cm2.stack = s.cm.stack ∨ cm2.stack = cont023 i t :: s.cm.stack) ∨ ∃ ct, s.cm.stack = ct :: cm2.stack := by
          rcases cmPost023_stack cm1 cm2 i t hpost with h1 | ⟨h1, _⟩ | ⟨ct, h1⟩
          · exact .inl (.inl (by rw [h1, hst1]))
          · exact .inl (.inr (by rw [h1, hst1]))
          · exact .inr ⟨ct, by rw [← hst1, h1]⟩
        have hmem : ∀ ct ∈ cm2.stack, ct ∈ s.cm.stack ∨ ct.idx = i := by
          intro ct hct
          rcases hstack with (h1 | h1) | ⟨c0, h1⟩
          · rw [h1] at hct; exact .inl hct
          · rw [h1] at hct
            rcases List.mem_cons.mp hct with rfl | hct
            · exact .inr rfl
            · exact .inl hct
          · rw [h1]; exact .inl (List.mem_cons_of_mem _ hct)
        have hskip' : ∀ j tx ew, s2.lastSkipped = some (j, tx, ew) → s.lastSkipped = some (j, tx, ew) ∨ j = i := by
          intro j tx ew hj
          rw [hsk2] at hj
          cases hk : t.kind <;> simp only [hk] at hj <;> first | (cases hj; done) | exact .inl hj | skip
          split at hj
          · cases hj; exact .inr rfl
          · cases hj
        have hle := listEnd023_shape s2 t
        refine ⟨⟨?_, ?_, ?_⟩, ?_, ?_, ?_, ?_, ?_, ?_⟩
        · -- Sim: cm
          show (wfNext023 w cm2 t).cm = cm2
          unfold wfNext023
          cases t.kind <;> simp only <;> try rfl
          split <;> rfl
        · show (wfNext023 w cm2 t).inSetext = s2.setext.isSome
          rw [D.setext]
          unfold wfNext023
          have := hSim.inSetext
          cases hk : t.kind <;> simp only <;> first | exact this | rfl | skip
          split <;> exact this
        · show (wfNext023 w cm2 t).lastSk = s2.lastSkipped.map (·.2)
          rw [hsk2]
          unfold wfNext023
          have h1 := hSim.lastSk
          have h2 := hSim.inSetext
          cases hk : t.kind <;> simp only <;> first | exact h1 | rfl | skip
          unfold skip023
          rw [h2]
          cases hse : s.setext <;> simp <;> split <;> simp_all
        · -- SkipLt
          intro j tx ew hj
          rcases hskip' j tx ew hj with h | h
          · exact Nat.lt_succ_of_lt (hLt j tx ew h)
          · rw [h]; exact Nat.lt_succ_self _
        · exact Sorted023_post toks cm1 cm2 i t hI1.stack (by rw [hst1]; exact hSo) hpost
        · -- nodup
          show ((o.reqs ++ listEnd023 true s2 t).map key023).Nodup
          rcases hle with h0 | ⟨j, sp, hk, hj, h0⟩
          · rw [h0, List.append_nil]; exact D.nodup
          · have : o.reqs = [] := D.cont (by rcases hk with hk | hk <;> rw [hk] <;> rfl)
            rw [this, h0]; simp
        · -- allowed
          intro q hq
          have hq' : q ∈ o.reqs ++ listEnd023 true s2 t := hq
          rcases List.mem_append.mp hq' with hq' | hq'
          · obtain ⟨h1, h2⟩ := D.reqs q hq'
            rcases h2 with h2 | ⟨_, tx, ew, h2⟩
            · exact .inl (by show i ≤ q.idx; omega)
            · exact .inr (.inl ⟨h1, tx, ew, h2⟩)
          · rcases hle with h0 | ⟨j, sp, hk, hj, h0⟩
            · rw [h0] at hq'; cases hq'
            · rw [h0] at hq'
              simp only [List.mem_singleton] at hq'
              subst hq'
              -- the named list is the top of the stack
              unfold wfOk023 at hok
              rcases hk with hk | hk <;> simp only [hk] at hok <;>
              · cases hcs : cm1.stack with
                | nil => rw [hcs] at hok; cases hok
                | cons ct rest =>
                  rw [hcs] at hok
                  simp only [Bool.and_eq_true, Bool.not_eq_eq_eq_not, Bool.not_true, beq_iff_eq] at hok
                  rw [hj] at hok
                  have : j = ct.idx := Option.some.inj hok.2
                  exact .inr (.inr ⟨rfl, ct, by rw [← hst1, hcs]; exact List.mem_cons_self, this.symm⟩)
        · -- fresh
          intro q hq hall
          have hq' : q ∈ o.reqs ++ listEnd023 true s2 t := hq
          rcases List.mem_append.mp hq' with hq' | hq'
          · obtain ⟨h1, h2⟩ := D.reqs q hq'
            rcases hall with h | ⟨_, tx, ew, h⟩ | ⟨h, _⟩
            · have h' : i + 1 ≤ q.idx := h
              rcases h2 with h2 | ⟨_, tx, ew, h2⟩
              · omega
              · have := hLt q.idx tx ew h2; omega
            · have h' : s2.lastSkipped = some (q.idx, tx, ew) := h
              rw [hsk2] at h'
              rcases h2 with h2 | ⟨hk, tx', ew', h2⟩
              · cases hk : t.kind <;> simp only [hk] at h' <;> first | (cases h'; done) | skip
                case text =>
                  split at h'
                  · rename_i hskp
                    have := D.quiet hk hskp
                    rw [this] at hq'; cases hq'
                  · cases h'
                all_goals
                  have := hLt q.idx tx ew h'
                  omega
              · simp only [hk] at h'; cases h'
            · exact h1 h
          · rcases hle with h0 | ⟨j, sp, hk, hj, h0⟩
            · rw [h0] at hq'; cases hq'
            · rw [h0] at hq'
              simp only [List.mem_singleton] at hq'
              subst hq'
              unfold wfOk023 at hok
              obtain ⟨ct0, hpop⟩ := cmPost023_listEnd cm1 cm2 i t hk hpost
              have hct0 : j = ct0.idx := by
                rcases hk with hk | hk <;> simp only [hk] at hok <;>
                · rw [hpop] at hok
                  simp only [Bool.and_eq_true, Bool.not_eq_eq_eq_not, Bool.not_true, beq_iff_eq] at hok
                  rw [hj] at hok
                  exact Option.some.inj hok.2
              have hSo1 : Sorted023 cm1.stack := by rw [hst1]; exact hSo
              unfold Sorted023 at hSo1
              rw [hpop] at hSo1
              have hlt := (List.pairwise_cons.mp hSo1).1
              rcases hall with h | ⟨h, _⟩ | ⟨_, ct, hct, h⟩
              · have h' : i + 1 ≤ j := h
                have := (hI1.stack ct0 (by show ct0 ∈ cm1.stack; rw [hpop]; exact List.mem_cons_self)).1
                omega
              · exact h rfl
              · have h' : ct.idx = j := h
                have := hlt ct hct
                omega
        · -- mono
          intro k hk
          rcases hk with h | ⟨h1, tx, ew, h2⟩ | ⟨h1, ct, hct, h2⟩
          · exact .inl (by omega)
          · rcases hskip' k.1 tx ew h2 with h | h
            · exact .inr (.inl ⟨h1, tx, ew, h⟩)
            · exact .inl (by omega)
          · rcases hmem ct hct with h | h
            · exact .inr (.inr ⟨h1, ct, h, h2⟩)
            · exact .inl (by omega)
    · simp only [hok, Bool.false_eq_true, ↓reduceIte] at hw
      cases hw

/-! ## the whole run -/
theorem wfFrom023_cons (w : W023) (i : Nat) (t : Tok2) (ts : List Tok2) (h : wfFrom023 w i (t :: ts) = true) :
    ∃ w', wfStep023 w i t = some w' ∧ wfFrom023 w' (i + 1) ts = true := by
  unfold wfFrom023 at h
  split at h
  · rename_i w' hw; exact ⟨w', hw, h⟩
  · cases h

theorem runFrom2_023_wf (toks : List Tok2) : ∀ (ts pre : List Tok2) (s : St023) (w : W023), toks = pre ++ ts →
    wfFrom023 w pre.length ts = true → Sim023 w s → Inv023 toks pre.length s → SkipLt023 s pre.length → Sorted023 s.cm.stack →
    ∃ s' out, runFrom2 md023 () true toks s pre.length ts = .ok (s', out) ∧ (out.reqs.map key023).Nodup ∧
      ∀ q ∈ out.reqs, Allowed023 s pre.length (key023 q) := by
  intro ts
  induction ts with
  | nil =>
    intro pre s w _ _ _ _ _ _
    exact ⟨s, {}, rfl, by simp, by intro q hq; cases hq⟩
  | cons t ts ih =>
    intro pre s w hpre hwf hSim hI hLt hSo
    obtain ⟨w', hw1, hw2⟩ := wfFrom023_cons w pre.length t ts hwf
    obtain ⟨s1, o, hn, S⟩ := next023_wf toks pre.length s t w w' hSim hI hLt hSo hw1
    have ht : toks[pre.length]? = some t := by rw [hpre]; simp
    obtain ⟨hI1, _, _⟩ := next023_fix toks pre.length s s1 t o hI ht hn
    obtain ⟨s', os, hr, hnd, hal⟩ := ih (pre ++ [t]) s1 w' (by rw [hpre]; simp) (by simpa using hw2) S.sim (by simpa using hI1)
      (by simpa using S.lt) S.sorted
    refine ⟨s', o ++ os, ?_, ?_, ?_⟩
    · unfold runFrom2
      have hn' : md023.next () true toks s pre.length t = .ok (s1, o) := hn
      rw [hn']
      simp only
      have hr' : runFrom2 md023 () true toks s1 (pre.length + 1) ts = .ok (s', os) := by simpa using hr
      rw [hr']
    · show ((o.reqs ++ os.reqs).map key023).Nodup
      rw [List.map_append, List.nodup_append]
      refine ⟨S.nodup, hnd, ?_⟩
      intro a ha b hb hab
      subst hab
      obtain ⟨q, hq, rfl⟩ := List.mem_map.mp ha
      obtain ⟨q', hq', hqq⟩ := List.mem_map.mp hb
      have := hal q' hq'
      rw [hqq] at this
      exact S.fresh q hq (by simpa using this)
    · intro q hq
      have hq' : q ∈ o.reqs ++ os.reqs := hq
      rcases List.mem_append.mp hq' with hq' | hq'
      · exact S.allowed q hq'
      · exact S.mono _ (by simpa using hal q hq')

/-! ## applying the requests -/
theorem field_eq_of_beq023 (a b : Field) (h : (a == b) = true) : a = b := by
  cases a <;> cases b <;> first | rfl | exact absurd h (by decide)

theorem field2_eq_of_beq023 (a b : Field2) (h : (a == b) = true) : a = b := by
  cases a <;> cases b <;> first | rfl | (rw [beq_base] at h; rw [field_eq_of_beq023 _ _ h]) | exact absurd h (by decide) | (exact absurd h (by intro h'; cases h'))

theorem contains_false023 (f : Field2) : ∀ (fs : List Field2), f ∉ fs → fs.contains f = false := by
  intro fs
  induction fs with
  | nil => intro _; rfl
  | cons g gs ih =>
    intro h
    rw [List.contains_cons]
    have h1 : (f == g) = false := by
      cases hb : (f == g) with
      | false => rfl
      | true => exact absurd (field2_eq_of_beq023 f g hb) (fun e => h (by rw [e]; exact List.mem_cons_self))
    rw [h1, ih (fun hm => h (List.mem_cons_of_mem _ hm))]
    rfl

theorem hasDup2_of_nodup : ∀ (l : List Field2), l.Nodup → hasDup2 l = false := by
  intro l
  induction l with
  | nil => intro _; rfl
  | cons f fs ih =>
    intro h
    obtain ⟨h1, h2⟩ := List.nodup_cons.mp h
    unfold hasDup2
    rw [ih h2]
    rw [contains_false023 f fs h1]; rfl

theorem group_fields_nodup (i : Nat) : ∀ (reqs : List FixReq2), (reqs.map key023).Nodup →
    ((reqs.filter (·.idx == i)).map (·.field)).Nodup := by
  intro reqs
  induction reqs with
  | nil => intro _; simp
  | cons q rest ih =>
    intro h
    simp only [List.map_cons] at h
    obtain ⟨h1, h2⟩ := List.nodup_cons.mp h
    simp only [List.filter_cons]
    by_cases hq : (q.idx == i) = true
    · simp only [hq, ↓reduceIte, List.map_cons]
      refine List.nodup_cons.mpr ⟨?_, ih h2⟩
      intro hm
      obtain ⟨q', hq', hf⟩ := List.mem_map.mp hm
      obtain ⟨hq'1, hq'2⟩ := List.mem_filter.mp hq'
      apply h1
      refine List.mem_map.mpr ⟨q', hq'1, ?_⟩
      have e1 : q'.idx = i := by simpa using hq'2
      have e2 : q.idx = i := by simpa using hq
      unfold key023
      rw [e1, e2, hf]
    · simp only [hq, Bool.false_eq_true, ↓reduceIte]
      exact ih h2

/-- a `Good` request is accepted by the `_modify_token` of the token class it names -/
theorem modify2_accept023 (t0 t1 : Tok2) (f : Field2) (v : Val) (hg : GoodFor023 t0 f v) (hk : t1.kind = t0.kind) :
    ∃ t2, modify2 t1 f v = some t2 := by
  rcases hg with ⟨c, r, w, hk0, rfl, _, rfl, _⟩ | ⟨e, ls', hk0, rfl, _, rfl, _⟩ | ⟨ls', hk0, rfl, rfl, _⟩ | ⟨l, ls', hk0, rfl, _, rfl, _⟩
  · rw [← hk] at hk0
    unfold modify2 modify
    rcases hk0 with h | h | h <;> simp [h, leafMod]
  · rw [← hk] at hk0
    unfold modify2
    simp [hk0]
  · rw [← hk] at hk0
    unfold modify2 modify
    simp [hk0]
  · rw [← hk] at hk0
    unfold modify2 modify
    rcases hk0 with h | h <;> simp [h, listMod]

theorem modAll2_ok023 (t0 : Tok2) : ∀ (g : List (Field2 × Val)) (t1 : Tok2), (∀ p ∈ g, GoodFor023 t0 p.1 p.2) → Sty023 t0 t1 →
    ∃ t', modAll2 t1 g = .ok t' := by
  intro g
  induction g with
  | nil => intro t1 _ _; exact ⟨t1, rfl⟩
  | cons p g ih =>
    intro t1 hg hs
    obtain ⟨f, v⟩ := p
    have hk : t1.kind = t0.kind := by rw [hs.rest]
    obtain ⟨t2, h2⟩ := modify2_accept023 t0 t1 f v (hg (f, v) List.mem_cons_self) hk
    unfold modAll2
    rw [h2]
    exact ih t2 (fun p hp => hg p (List.mem_cons_of_mem _ hp)) (modify2_sty023 t0 t1 t2 f v (hg (f, v) List.mem_cons_self) hs h2)

/-- `md023_fix_ok`: on a well-formed stream the fix raises nothing — neither the rule nor the application of its requests -/
theorem fix2_023_ok (toks : List Tok2) (hW : wf023 toks = true) : ∃ toks', fix2 md023 () toks = .ok toks' := by
  obtain ⟨s', out, hr, hnd, _⟩ := runFrom2_023_wf toks toks [] (md023.init ()) {} rfl hW ⟨rfl, rfl, rfl⟩ (Inv023_init toks)
    (by intro j tx ew h; cases h) List.Pairwise.nil
  have hfo : fixOut md023 () toks = .ok out := by
    unfold fixOut
    have : runFrom2 md023 () true toks (md023.init ()) 0 toks = .ok (s', out) := hr
    rw [this]
  obtain ⟨hrep, hgood⟩ := fixOut023_good toks out hfo
  unfold fix2
  rw [hfo]
  simp only
  rw [hrep, applyFixes2_noRepl023]
  obtain ⟨fin, hfin⟩ := applyFields_ok023 toks out.reqs
    (by intro q hq
        obtain ⟨t, ht, _⟩ := hgood q hq
        rcases Nat.lt_or_ge q.idx toks.length with h | h
        · exact h
        · rw [List.getElem?_eq_none h] at ht; cases ht)
    (by intro i t hti
        unfold applyGroup2
        have hnd' : hasDup2 ((groupOf2 out.reqs i).map (·.1)) = false := by
          apply hasDup2_of_nodup
          unfold groupOf2
          rw [List.map_map]
          exact group_fields_nodup i out.reqs hnd
        rw [hnd']
        simp only [Bool.false_eq_true, ↓reduceIte]
        apply modAll2_ok023 t _ t _ (Sty023.refl t)
        intro p hp
        unfold groupOf2 at hp
        obtain ⟨q, hq, rfl⟩ := List.mem_map.mp hp
        obtain ⟨hq1, hq2⟩ := List.mem_filter.mp hq
        have hqi : q.idx = i := by simpa using hq2
        obtain ⟨tq, htq, hg⟩ := hgood q hq1
        rw [hqi, hti] at htq
        cases htq
        exact hg)
  rw [hfin]
  exact ⟨_, rfl⟩

/-! ## scan mode on a well-formed stream -/
theorem split023_scan_ok (toks : List Tok2) (n : Nat) (cm : CM023) (isEnd : Bool) (hS : StackInv023 toks n cm.stack) (L : Loop023) (x : Str)
    (nse : Option Str) (k : Nat) (hC : CacheInv023 toks L.cache)
    (h2 : ∀ e a, nse = some e → leadPart023 e = some a → tabHead023 a = true → idxOk023 cm k = true) :
    ∃ L1, split023 false cm isEnd L x nse k = .ok L1 ∧ CacheInv023 toks L1.cache := by
  unfold split023 stripLine023
  simp only [Bool.false_eq_true, ↓reduceIte]
  cases nse with
  | none => exact ⟨_, rfl, hC⟩
  | some e =>
    simp only
    by_cases hsf : L.seenFirst = true
    · simp only [hsf, ↓reduceIte]
      have : ∃ L1, splitEnd023 cm L e k = .ok L1 := by
        unfold splitEnd023
        cases hls : leadSplit023 e with
        | none => exact ⟨_, rfl⟩
        | some p =>
          obtain ⟨a, b⟩ := p
          simp only
          obtain ⟨c', w, hfa⟩ := fixAdj023_ok toks n cm L.cache a k hS hC (leadSplit023_ne e a b hls)
            (fun ht => h2 e a rfl (by unfold leadPart023; rw [hls]; rfl) ht)
          rw [hfa]
          exact ⟨_, rfl⟩
      obtain ⟨L1, hL1⟩ := this
      exact ⟨L1, hL1, (splitEnd023_fix toks n cm L L1 e k hS hC hL1).1⟩
    · simp only [hsf, Bool.false_eq_true, ↓reduceIte]
      exact ⟨_, rfl, hC⟩

theorem loop023_scan_ok (toks : List Tok2) (n : Nat) (cm : CM023) (isEnd : Bool) (ind0 : Int) (hS : StackInv023 toks n cm.stack) :
    ∀ (st : List Str) (se : Option (List Str)) (L : Loop023) (k : Nat), CacheInv023 toks L.cache →
    textSites023 cm ind0 k st se = true → ∃ L', loop023 false cm isEnd L k st se = .ok L' ∧ CacheInv023 toks L'.cache := by
  intro st
  induction st with
  | nil => intro se L k hC _; exact ⟨L, by simp [loop023], hC⟩
  | cons x xs ih =>
    intro se L k hC hsites
    cases se with
    | none =>
      unfold textSites023 at hsites
      simp only [Bool.and_eq_true] at hsites
      obtain ⟨L1, hL1, hC1⟩ := split023_scan_ok toks n cm isEnd hS L x none k hC (by intro e a he; cases he)
      obtain ⟨L', hL', hC'⟩ := ih none L1 (k + 1) hC1 hsites.2
      exact ⟨L', by unfold loop023; rw [hL1]; exact hL', hC'⟩
    | some es =>
      cases es with
      | nil => simp [textSites023] at hsites
      | cons e es =>
        unfold textSites023 at hsites
        simp only [Bool.and_eq_true] at hsites
        obtain ⟨⟨_, hs3⟩, hs2⟩ := hsites
        obtain ⟨L1, hL1, hC1⟩ := split023_scan_ok toks n cm isEnd hS L x (some e) k hC
          (by intro e' a he hlp hth
              cases he
              rw [hlp] at hs3
              simp only [Bool.or_eq_true, Bool.not_eq_eq_eq_not, Bool.not_true] at hs3
              rcases hs3 with h | h
              · rw [hth] at h; cases h
              · exact h)
        obtain ⟨L', hL', hC'⟩ := ih (some es) L1 (k + 1) hC1 hs2
        exact ⟨L', by unfold loop023; rw [hL1]; exact hL', hC'⟩

/-- `__handle_text` in scan mode does not raise on a text token that `wfOk023` accepts -/
theorem text023_scan_ok (toks : List Tok2) (n : Nat) (s : St023) (i : Nat) (t : Tok2) (w : W023) (hS : StackInv023 toks n s.cm.stack)
    (hC : CacheInv023 toks s.cache) (hk : t.kind = .text) (hin : w.inSetext = s.setext.isSome) (hok : wfOk023 w s.cm t = true) :
    ∃ s' r, text023 false s i t.text t.endWs false = .ok (s', r) ∧ s'.cm = s.cm ∧ s'.setext = s.setext ∧ CacheInv023 toks s'.cache := by
  unfold text023
  by_cases hsk : (s.setext.isNone || (s.anyWs && !false) || ((t.endWs.getD []).isEmpty && !false)) = true
  · simp only [hsk, ↓reduceIte]
    exact ⟨_, _, rfl, rfl, rfl, hC⟩
  · simp only [hsk, Bool.false_eq_true, ↓reduceIte]
    simp only [Bool.not_false, Bool.and_true, Bool.or_eq_true, not_or, Bool.not_eq_true] at hsk
    obtain ⟨⟨hs1, hs2⟩, hs3⟩ := hsk
    simp only [hs2, Bool.not_false, Bool.or_true, Bool.not_true, Bool.false_eq_true, ↓reduceIte]
    unfold wfOk023 at hok
    simp only [hk, Bool.or_eq_true, Bool.not_eq_eq_eq_not, Bool.not_true, Bool.and_eq_true] at hok
    have hsome : s.setext.isSome = true := by
      cases hse : s.setext with
      | none => rw [hse] at hs1; simp at hs1
      | some _ => rfl
    rcases hok with h | ⟨hlen, hsites⟩
    · rw [hin, hsome, hs3] at h; simp at h
    · cases hew : t.endWs with
      | none => rw [hew] at hs3; simp at hs3
      | some e =>
        rw [hew] at hlen hsites
        unfold lenOk023 at hlen
        have hl : (splitOn1 '\n' e).length = (splitOn1 '\n' t.text).length := by simpa using hlen
        simp only [Option.map_some, hl, ne_eq, not_true_eq_false, decide_false, Bool.false_eq_true, ↓reduceIte]
        obtain ⟨L', hL', hC'⟩ := loop023_scan_ok toks n s.cm false 0 hS (splitOn1 '\n' t.text) (some (splitOn1 '\n' e))
          { anyWs := false, seenFirst := s.seenFirst, cache := s.cache } 0 hC (by simpa using hsites)
        rw [hL']
        exact ⟨_, _, rfl, rfl, rfl, hC'⟩

theorem next023_scan_wf (toks : List Tok2) (i : Nat) (s : St023) (t : Tok2) (w w' : W023) (hcm : w.cm = s.cm)
    (hin : w.inSetext = s.setext.isSome) (hS : StackInv023 toks i s.cm.stack) (hC : CacheInv023 toks s.cache)
    (ht : toks[i]? = some t) (hw : wfStep023 w i t = some w') :
    ∃ s' o, next023 () false toks s i t = .ok (s', o) ∧ w'.cm = s'.cm ∧ w'.inSetext = s'.setext.isSome ∧
      StackInv023 toks (i + 1) s'.cm.stack ∧ CacheInv023 toks s'.cache := by
  unfold wfStep023 at hw
  rw [hcm] at hw
  cases hpre : cmPre023 s.cm t with
  | error e => rw [hpre] at hw; cases hw
  | ok cm1 =>
    rw [hpre] at hw
    simp only at hw
    by_cases hok : wfOk023 w cm1 t = true
    · simp only [hok, ↓reduceIte] at hw
      cases hpost : cmPost023 cm1 i t with
      | error e => rw [hpost] at hw; cases hw
      | ok cm2 =>
        rw [hpost] at hw
        simp only [Option.some.injEq] at hw
        subst hw
        have hst1 : cm1.stack = s.cm.stack := cmPre023_stack _ _ _ hpre
        have hS1 : StackInv023 toks i cm1.stack := by rw [hst1]; exact hS
        have hd : ∃ s2 o, dispatch023 false { s with cm := cm1 } i t = .ok (s2, o) ∧ s2.cm = cm1 ∧
            s2.setext.isSome = (match t.kind with | .setext => true | .setextEnd => false | _ => s.setext.isSome) ∧
            CacheInv023 toks s2.cache := by
          unfold dispatch023
          cases hk : t.kind <;> simp only
          case atx =>
            unfold atx023
            split
            · exact ⟨_, _, rfl, rfl, rfl, hC⟩
            · exact ⟨_, _, rfl, rfl, rfl, hC⟩
          case setext => exact ⟨_, _, rfl, rfl, rfl, hC⟩
          case text =>
            obtain ⟨s2, r, h1, h2, h3, h4⟩ := text023_scan_ok toks i { s with cm := cm1 } i t w hS1 hC hk hin hok
            rw [h1]
            exact ⟨_, _, rfl, h2, by rw [h3], h4⟩
          case setextEnd =>
            rw [setextEnd023_false]
            unfold wfOk023 at hok
            simp only [hk, Bool.and_eq_true] at hok
            have hsome : s.setext.isSome = true := by rw [← hin]; exact hok.1.1
            cases hse : s.setext with
            | none => rw [hse] at hsome; cases hsome
            | some p =>
              obtain ⟨line, col⟩ := p
              simp only [hse]
              split
              · exact ⟨_, _, rfl, rfl, rfl, hC⟩
              · exact ⟨_, _, rfl, rfl, rfl, hC⟩
          all_goals exact ⟨_, _, rfl, rfl, rfl, hC⟩
        obtain ⟨s2, o, hd1, hd2, hd3, hd4⟩ := hd
        unfold next023
        rw [hpre]
        simp only
        rw [hd1]
        simp only
        rw [hd2, hpost]
        refine ⟨_, _, rfl, ?_, ?_, cmPost023_inv toks cm1 cm2 i t ht hS1 hpost, hd4⟩
        · show (wfNext023 w cm2 t).cm = cm2
          unfold wfNext023
          cases t.kind <;> simp only <;> try rfl
          split <;> rfl
        · show (wfNext023 w cm2 t).inSetext = s2.setext.isSome
          rw [hd3]
          unfold wfNext023
          cases hk : t.kind <;> simp only <;> first | exact hin | rfl | skip
          split <;> exact hin
    · simp only [hok, Bool.false_eq_true, ↓reduceIte] at hw
      cases hw

theorem runFrom2_023_scan_wf (toks : List Tok2) : ∀ (ts pre : List Tok2) (s : St023) (w : W023), toks = pre ++ ts →
    wfFrom023 w pre.length ts = true → w.cm = s.cm → w.inSetext = s.setext.isSome → StackInv023 toks pre.length s.cm.stack →
    CacheInv023 toks s.cache → ∃ s' out, runFrom2 md023 () false toks s pre.length ts = .ok (s', out) := by
  intro ts
  induction ts with
  | nil => intro pre s w _ _ _ _ _ _; exact ⟨s, {}, rfl⟩
  | cons t ts ih =>
    intro pre s w hpre hwf hcm hin hS hC
    obtain ⟨w', hw1, hw2⟩ := wfFrom023_cons w pre.length t ts hwf
    have ht : toks[pre.length]? = some t := by rw [hpre]; simp
    obtain ⟨s1, o, hn, a1, a2, a3, a4⟩ := next023_scan_wf toks pre.length s t w w' hcm hin hS hC ht hw1
    obtain ⟨s', os, hr⟩ := ih (pre ++ [t]) s1 w' (by rw [hpre]; simp) (by simpa using hw2) a1 a2 (by simpa using a3) a4
    refine ⟨s', o ++ os, ?_⟩
    unfold runFrom2
    have hn' : md023.next () false toks s pre.length t = .ok (s1, o) := hn
    rw [hn']
    simp only
    have hr' : runFrom2 md023 () false toks s1 (pre.length + 1) ts = .ok (s', os) := by simpa using hr
    rw [hr']

theorem scan2_023_ok (toks : List Tok2) (hW : wf023 toks = true) : ∃ rps, scan2 md023 () toks = .ok rps := by
  obtain ⟨s', out, hr⟩ := runFrom2_023_scan_wf toks toks [] (md023.init ()) {} rfl hW rfl rfl
    (by intro ct hct; cases hct) (by intro j sp hj; cases hj)
  unfold scan2
  have : runFrom2 md023 () false toks (md023.init ()) 0 toks = .ok (s', out) := hr
  rw [this]
  exact ⟨_, rfl⟩

end Verif.Model.TokenRules
