import Verif.Lemmas.TokenRules.Basic
import Verif.Model.TokenRules.MD029
namespace Verif.Model.TokenRules

/-! ## `int(str(n)) == n` -/
theorem pyInt_pyStr (n : Int) (hn : 0 ≤ n) : pyInt (pyStr n) = some n := by
  unfold pyStr
  have : ¬ n < 0 := by omega
  rw [if_neg this]
  unfold pyInt
  have h1 : (Nat.toDigits 10 n.toNat).isEmpty = false := by
    cases h : Nat.toDigits 10 n.toNat with
    | nil => exact absurd h Nat.toDigits_ne_nil
    | cons _ _ => rfl
  have h2 : (Nat.toDigits 10 n.toNat).all Char.isDigit = true := by
    rw [List.all_eq_true]
    intro c hc
    exact Nat.isDigit_of_mem_toDigits (by omega) (by omega) hc
  rw [h1, h2]
  simp only [Bool.not_true, Bool.or_self, Bool.false_eq_true, ↓reduceIte, Nat.ofDigitChars_ten_toDigits]
  congr 1
  exact Int.toNat_of_nonneg hn

theorem pyInt_nonneg (s : Str) (n : Int) (h : pyInt s = some n) : 0 ≤ n := by
  unfold pyInt at h
  split at h
  · cases h
  · simp only [Option.some.injEq] at h; rw [← h]; exact Int.natCast_nonneg _

/-! ## the shape of a fix-mode `__report_invalid` -/
theorem reportInvalid_fix (i : Nat) (t : Tok) (initial : Bool) (sty : Sty029) (last new : Option Int) ent rp fx
    (h : reportInvalid true i t initial sty last new = .ok (ent, rp, fx)) :
    ∃ txt expected, matchInfo sty initial last = .ok (txt, expected) ∧ ent = (some sty, some expected) ∧ rp = [] ∧
      (fx = [⟨i, .listStartContent, .str (pyStr expected)⟩] ∨
       ∃ d : Int, fx = [⟨i, .listStartContent, .str (pyStr expected)⟩, ⟨i, .indentLevel, .int d⟩]) := by
  unfold reportInvalid at h
  cases hm : matchInfo sty initial last with
  | error e => rw [hm] at h; cases h
  | ok p =>
    obtain ⟨txt, expected⟩ := p
    rw [hm] at h
    simp only [↓reduceIte, Except.ok.injEq, Prod.mk.injEq] at h
    obtain ⟨rfl, rfl, rfl⟩ := h
    refine ⟨txt, expected, rfl, rfl, rfl, ?_⟩
    split
    · split
      · exact .inr ⟨_, rfl⟩
      · exact .inl rfl
    · exact .inl rfl

/-- applying such a request list to an ordered-list start or a list item -/
theorem apply_content (t t' : Tok) (i : Nat) (s : Str) (fx : List FixReq)
    (hfx : fx = [⟨i, .listStartContent, .str s⟩] ∨ ∃ d : Int, fx = [⟨i, .listStartContent, .str s⟩, ⟨i, .indentLevel, .int d⟩])
    (ha : applyGroup t (reqPairs fx) = .ok t') :
    (t.kind = .olist ∨ t.kind = .ulist ∨ t.kind = .li) ∧ t'.kind = t.kind ∧ t'.content = s ∧
      t' = { t with content := s, indent := t'.indent } := by
  rcases hfx with rfl | ⟨d, rfl⟩
  · simp only [List.map_cons, List.map_nil, applyGroup_single] at ha
    split at ha
    · rename_i tm hm
      cases ha
      unfold modify at hm
      split at hm <;> simp [leafMod, baseMod, listMod] at hm
      all_goals (subst hm; simp_all)
    · cases ha
  · have hd : hasDup [Field.listStartContent, Field.indentLevel] = false := by decide
    simp only [List.map_cons, List.map_nil, applyGroup, hd, Bool.false_eq_true, ↓reduceIte, modAll] at ha
    cases hm : modify t .listStartContent (.str s) with
    | none => rw [hm] at ha; cases ha
    | some tm =>
      rw [hm] at ha
      simp only at ha
      cases hm2 : modify tm .indentLevel (.int d) with
      | none => rw [hm2] at ha; cases ha
      | some tm2 =>
        rw [hm2] at ha
        cases ha
        unfold modify at hm
        split at hm <;> simp [leafMod, baseMod, listMod] at hm
        all_goals (subst hm; unfold modify at hm2; simp_all [listMod]; subst hm2; simp)

end Verif.Model.TokenRules

namespace Verif.Model.TokenRules

def okEnt (e : Ent029) : Prop := (e.1 = some .oneOrOrdered → e.2 = some 1) ∧ (∀ l, e.2 = some l → 0 ≤ l)

/-- fix-mode entry on the original stream vs entry on the fixed stream: equal, or — style `one_or_ordered`, first item
    renumbered to 1 — "ordered from 1" vs "1 seen, style still open" (they agree from the next item on) -/
def relE (c : C029) (e₁ e₂ : Ent029) : Prop :=
  (e₁ = e₂ ∧ okEnt e₁) ∨ (c.style = .oneOrOrdered ∧ e₁ = (some .ordered, some 1) ∧ e₂ = (some .oneOrOrdered, some 1))

def R029 (c : C029) (s₁ s₂ : St029) : Prop := s₁.lists = s₂.lists ∧ All₂ (relE c) s₁.ols s₂.ols

theorem matchInfo_initial (sty : Sty029) (last : Option Int) txt expected (h : matchInfo sty true last = .ok (txt, expected)) :
    (sty = .ordered ∧ expected = 1) ∨ (sty = .one ∧ expected = 1) ∨ (sty = .zero ∧ expected = 0) := by
  unfold matchInfo at h
  cases sty <;> simp at h <;> simp [h.2]

theorem matchInfo_next (sty : Sty029) (last : Option Int) txt expected (h : matchInfo sty false last = .ok (txt, expected)) :
    (sty = .ordered ∧ ∃ l, last = some l ∧ expected = l + 1) ∨ (sty = .one ∧ expected = 1) ∨ (sty = .zero ∧ expected = 0) := by
  unfold matchInfo at h
  cases sty <;> simp at h
  · right; left; exact ⟨rfl, h.2.symm⟩
  · cases last with
    | none => simp at h
    | some l => simp at h; left; exact ⟨rfl, l, rfl, h.2.symm⟩
  · right; right; exact ⟨rfl, h.2.symm⟩

/-- `__match_first_item` on a token whose number is known -/
theorem matchFirst_valid (c : C029) (fm : Bool) (i : Nat) (t : Tok) (last : Int) (hp : pyInt t.content = some last)
    (hv : firstValid c (firstSty c last) last = true) :
    matchFirst c fm i t = .ok ((some (firstSty c last), some last), [], []) := by
  unfold matchFirst
  rw [hp]
  simp only
  rw [if_pos hv]

theorem md029_first (c : C029) (i : Nat) (t : Tok) ent rp fx t'
    (hn : matchFirst c true i t = .ok (ent, rp, fx)) (ha : applyGroup t (reqPairs fx) = .ok t') :
    t'.kind = t.kind ∧ ∀ fm, ∃ ent', matchFirst c fm i t' = .ok (ent', [], []) ∧ relE c ent ent' := by
  unfold matchFirst at hn
  cases hp : pyInt t.content with
  | none => rw [hp] at hn; cases hn
  | some last =>
    rw [hp] at hn
    simp only at hn
    have hl0 := pyInt_nonneg _ _ hp
    by_cases hv : firstValid c (firstSty c last) last = true
    · -- valid
      rw [if_pos hv] at hn
      simp only [Except.ok.injEq, Prod.mk.injEq] at hn
      obtain ⟨rfl, rfl, rfl⟩ := hn
      simp only [List.map_nil, applyGroup_nil, Except.ok.injEq] at ha
      subst ha
      refine ⟨rfl, fun fm => ⟨_, matchFirst_valid c fm i t last hp hv, .inl ⟨rfl, ?_, ?_⟩⟩⟩
      · intro h
        simp only [Option.some.injEq, firstSty] at h
        split at h
        · cases h
        · rename_i hc
          simp only [Option.some.injEq]
          by_cases h1 : last = 1
          · exact h1
          · exact absurd ⟨h, h1⟩ hc
      · intro l hl; simp only [Option.some.injEq] at hl; omega
    · -- invalid: the number is replaced by the expected first number
      rw [if_neg hv] at hn
      obtain ⟨txt, expected, hm, rfl, rfl, hfx⟩ := reportInvalid_fix i t true _ _ _ ent rp fx hn
      obtain ⟨_, hk, hc, _⟩ := apply_content t t' i _ fx hfx ha
      refine ⟨hk, fun fm => ?_⟩
      have hexp := matchInfo_initial _ _ _ _ hm
      have hp' : pyInt t'.content = some expected := by
        rw [hc]; apply pyInt_pyStr
        rcases hexp with ⟨_, h⟩ | ⟨_, h⟩ | ⟨_, h⟩ <;> omega
      rcases hexp with ⟨hs, rfl⟩ | ⟨hs, rfl⟩ | ⟨hs, rfl⟩
      · -- ordered, expected 1
        by_cases hcs : c.style = .oneOrOrdered
        · refine ⟨(some .oneOrOrdered, some 1), ?_, .inr ⟨hcs, by rw [hs], rfl⟩⟩
          have := matchFirst_valid c fm i t' 1 hp' (by simp [firstSty, firstValid, hcs])
          simpa [firstSty, hcs] using this
        · have hcs' : c.style = .ordered := by
            unfold firstSty at hs
            split at hs
            · rename_i h; exact absurd h.1 hcs
            · exact hs
          refine ⟨(some .ordered, some 1), ?_, .inl ⟨by rw [hs], by simp [okEnt]⟩⟩
          have := matchFirst_valid c fm i t' 1 hp' (by simp [firstSty, firstValid, hcs'])
          simpa [firstSty, hcs'] using this
      · have hcs' : c.style = .one := by
          unfold firstSty at hs
          split at hs
          · cases hs
          · exact hs
        refine ⟨(some .one, some 1), ?_, .inl ⟨by rw [hs], by simp [okEnt]⟩⟩
        have := matchFirst_valid c fm i t' 1 hp' (by simp [firstSty, firstValid, hcs'])
        simpa [firstSty, hcs'] using this
      · have hcs' : c.style = .zero := by
          unfold firstSty at hs
          split at hs
          · cases hs
          · exact hs
        refine ⟨(some .zero, some 0), ?_, .inl ⟨by rw [hs], by rw [hs]; simp [okEnt]⟩⟩
        have := matchFirst_valid c fm i t' 0 hp' (by simp [firstSty, firstValid, hcs'])
        simpa [firstSty, hcs'] using this

end Verif.Model.TokenRules

namespace Verif.Model.TokenRules

theorem matchNext_valid (fm : Bool) (i : Nat) (t : Tok) (e : Ent029) (sty0 : Sty029) (new : Int)
    (h1 : e.1 = some sty0) (hp : pyInt t.content = some new) (hv : nextValid (nextSty sty0 new) e.2 new = .ok true) :
    matchNext fm i t e = .ok ((some (nextSty sty0 new), some new), [], []) := by
  unfold matchNext
  rw [h1]; simp only
  rw [hp]; simp only
  rw [hv]

theorem nextSty_ne (sty0 : Sty029) (new : Int) : nextSty sty0 new ≠ .oneOrOrdered := by
  unfold nextSty
  split
  · split <;> simp
  · assumption

theorem okEnt_next (sty0 : Sty029) (new n : Int) (hn : 0 ≤ n) : okEnt (some (nextSty sty0 new), some n) := by
  refine ⟨fun h => ?_, fun l hl => ?_⟩
  · simp only [Option.some.injEq] at h; exact absurd h (nextSty_ne sty0 new)
  · simp only [Option.some.injEq] at hl; omega

theorem md029_next (c : C029) (i : Nat) (t : Tok) (e₁ e₂ e₁' : Ent029) rp fx t' (hrel : relE c e₁ e₂)
    (hn : matchNext true i t e₁ = .ok (e₁', rp, fx)) (ha : applyGroup t (reqPairs fx) = .ok t') :
    t'.kind = t.kind ∧ ∀ fm, ∃ e₂', matchNext fm i t' e₂ = .ok (e₂', [], []) ∧ relE c e₁' e₂' := by
  obtain ⟨s1, l1⟩ := e₁
  cases s1 with
  | none =>
    -- the list is no longer checked
    unfold matchNext at hn
    simp only [Except.ok.injEq, Prod.mk.injEq] at hn
    obtain ⟨rfl, rfl, rfl⟩ := hn
    simp only [List.map_nil, applyGroup_nil, Except.ok.injEq] at ha
    subst ha
    rcases hrel with ⟨rfl, hok⟩ | ⟨_, h, _⟩
    · exact ⟨rfl, fun fm => ⟨_, by unfold matchNext; rfl, .inl ⟨rfl, hok⟩⟩⟩
    · cases h
  | some sty0 =>
    unfold matchNext at hn
    simp only at hn
    cases hp : pyInt t.content with
    | none => rw [hp] at hn; cases hn
    | some new =>
      rw [hp] at hn
      simp only at hn
      have hnew0 := pyInt_nonneg _ _ hp
      cases hv : nextValid (nextSty sty0 new) l1 new with
      | error er => rw [hv] at hn; cases hn
      | ok v =>
        rw [hv] at hn
        cases v with
        | true =>
          simp only [Except.ok.injEq, Prod.mk.injEq] at hn
          obtain ⟨rfl, rfl, rfl⟩ := hn
          simp only [List.map_nil, applyGroup_nil, Except.ok.injEq] at ha
          subst ha
          refine ⟨rfl, fun fm => ?_⟩
          rcases hrel with ⟨rfl, _⟩ | ⟨_, h1, rfl⟩
          · exact ⟨_, matchNext_valid fm i t _ sty0 new rfl hp hv, .inl ⟨rfl, okEnt_next sty0 new new hnew0⟩⟩
          · simp only [Prod.mk.injEq, Option.some.injEq] at h1
            obtain ⟨rfl, rfl⟩ := h1
            have h2 : new = 2 := by
              simp only [nextSty, nextValid] at hv
              simpa using hv
            subst h2
            refine ⟨(some .ordered, some 2), ?_, .inl ⟨by simp [nextSty], okEnt_next _ _ _ (by omega)⟩⟩
            have := matchNext_valid fm i t (some .oneOrOrdered, some 1) .oneOrOrdered 2 rfl hp (by simp [nextSty, nextValid])
            simpa [nextSty] using this
        | false =>
          simp only at hn
          obtain ⟨txt, expected, hm, rfl, rfl, hfx⟩ := reportInvalid_fix i t false _ _ _ e₁' rp fx hn
          obtain ⟨_, hk, hc, _⟩ := apply_content t t' i _ fx hfx ha
          refine ⟨hk, fun fm => ?_⟩
          have hexp := matchInfo_next _ _ _ _ hm
          rcases hrel with ⟨rfl, hok⟩ | ⟨_, h1, rfl⟩
          · -- same entry on both sides
            have hexp0 : 0 ≤ expected := by
              rcases hexp with ⟨_, l, hl, rfl⟩ | ⟨_, rfl⟩ | ⟨_, rfl⟩
              · have := hok.2 l hl; omega
              · omega
              · omega
            have hp' : pyInt t'.content = some expected := by rw [hc]; exact pyInt_pyStr _ hexp0
            have hsty : nextSty sty0 expected = nextSty sty0 new ∧
                nextValid (nextSty sty0 new) l1 expected = .ok true := by
              by_cases h0 : sty0 = .oneOrOrdered
              · subst h0
                have hl1 : l1 = some 1 := hok.1 rfl
                subst hl1
                by_cases hn1 : new = 1
                · subst hn1; simp [nextSty, nextValid] at hv
                · have hs : nextSty .oneOrOrdered new = .ordered := by simp [nextSty, hn1]
                  rw [hs] at hexp ⊢
                  rcases hexp with ⟨_, l, hl, rfl⟩ | ⟨h, _⟩ | ⟨h, _⟩
                  · simp only [Option.some.injEq] at hl; subst hl
                    simp [nextSty, nextValid]
                  · cases h
                  · cases h
              · have hs : ∀ m, nextSty sty0 m = sty0 := by intro m; simp [nextSty, h0]
                rw [hs, hs]
                refine ⟨rfl, ?_⟩
                rw [hs] at hexp
                rcases hexp with ⟨h, l, hl, rfl⟩ | ⟨h, rfl⟩ | ⟨h, rfl⟩ <;> subst h
                · subst hl; simp [nextValid]
                · simp [nextValid]
                · simp [nextValid]
            refine ⟨(some (nextSty sty0 new), some expected), ?_, .inl ⟨rfl, okEnt_next sty0 new expected hexp0⟩⟩
            have := matchNext_valid fm i t' (some sty0, l1) sty0 expected rfl hp' (by rw [hsty.1]; exact hsty.2)
            rw [hsty.1] at this
            exact this
          · -- "ordered from 1" vs "1 seen, style open"
            simp only [Prod.mk.injEq, Option.some.injEq] at h1
            obtain ⟨rfl, rfl⟩ := h1
            have hs : nextSty .ordered new = .ordered := by simp [nextSty]
            rw [hs] at hexp ⊢
            have hexp2 : expected = 2 := by
              rcases hexp with ⟨_, l, hl, rfl⟩ | ⟨h, _⟩ | ⟨h, _⟩
              · simp only [Option.some.injEq] at hl; subst hl; rfl
              · cases h
              · cases h
            subst hexp2
            have hp' : pyInt t'.content = some 2 := by rw [hc]; exact pyInt_pyStr _ (by omega)
            refine ⟨(some .ordered, some 2), ?_, .inl ⟨rfl, by simp [okEnt]⟩⟩
            have := matchNext_valid fm i t' (some .oneOrOrdered, some 1) .oneOrOrdered 2 rfl hp' (by simp [nextSty, nextValid])
            simpa [nextSty] using this

end Verif.Model.TokenRules

namespace Verif.Model.TokenRules

theorem all₂_cons_left {α β : Type} {P : α → β → Prop} {a : α} {as : List α} {l : List β} (h : All₂ P (a :: as) l) :
    ∃ b bs, l = b :: bs ∧ P a b ∧ All₂ P as bs := by
  cases h with
  | cons hp ht => exact ⟨_, _, rfl, hp, ht⟩

theorem all₂_nil_left {α β : Type} {P : α → β → Prop} {l : List β} (h : All₂ P ([] : List α) l) : l = [] := by
  cases h; rfl

theorem next029_other (c : C029) (fm : Bool) (s : St029) (i : Nat) (t : Tok)
    (h1 : t.kind ≠ .ulist) (h2 : t.kind ≠ .olist) (h3 : t.kind ≠ .ulistEnd) (h4 : t.kind ≠ .olistEnd) (h5 : t.kind ≠ .li) :
    next029 c fm s i t = .ok (s, [], []) := by
  unfold next029; split <;> simp_all

/-- one step of the simulation: the fixed token makes neither mode act, and the states stay related -/
theorem md029_step (c : C029) (s₁ s₂ : St029) (i : Nat) (t : Tok) s₁' rp fx t' (hR : R029 c s₁ s₂)
    (hn : next029 c true s₁ i t = .ok (s₁', rp, fx)) (ha : applyGroup t (reqPairs fx) = .ok t') :
    ∀ fm, ∃ s₂', next029 c fm s₂ i t' = .ok (s₂', [], []) ∧ R029 c s₁' s₂' := by
  obtain ⟨hlists, hols⟩ := hR
  by_cases hko : t.kind = .olist
  · unfold next029 at hn
    rw [hko] at hn
    simp only at hn
    cases hm : matchFirst c true i t with
    | error e => rw [hm] at hn; cases hn
    | ok p =>
      obtain ⟨ent, rp', fx'⟩ := p
      rw [hm] at hn
      simp only [Except.ok.injEq, Prod.mk.injEq] at hn
      obtain ⟨rfl, rfl, rfl⟩ := hn
      obtain ⟨hk, hfirst⟩ := md029_first c i t ent _ _ t' hm ha
      intro fm
      obtain ⟨ent', hm', hrel⟩ := hfirst fm
      refine ⟨{ lists := true :: s₂.lists, ols := ent' :: s₂.ols }, ?_, by simp [hlists], .cons hrel hols⟩
      unfold next029
      rw [hk, hko]; simp only
      rw [hm']
  · by_cases hkl : t.kind = .li
    · unfold next029 at hn
      rw [hkl] at hn
      simp only at hn
      cases hl : s₁.lists with
      | nil => rw [hl] at hn; cases hn
      | cons b ls =>
        rw [hl] at hn
        cases b with
        | false =>
          simp only [Except.ok.injEq, Prod.mk.injEq] at hn
          obtain ⟨rfl, rfl, rfl⟩ := hn
          simp only [List.map_nil, applyGroup_nil, Except.ok.injEq] at ha
          subst ha
          intro fm
          refine ⟨s₂, ?_, hlists, hols⟩
          unfold next029; rw [hkl]; simp only; rw [← hlists, hl]
        | true =>
          simp only at hn
          cases ho : s₁.ols with
          | nil => rw [ho] at hn; cases hn
          | cons e os =>
            rw [ho] at hn
            simp only at hn
            cases hm : matchNext true i t e with
            | error er => rw [hm] at hn; cases hn
            | ok p =>
              obtain ⟨e', rp', fx'⟩ := p
              rw [hm] at hn
              simp only [Except.ok.injEq, Prod.mk.injEq] at hn
              obtain ⟨rfl, rfl, rfl⟩ := hn
              rw [ho] at hols
              obtain ⟨e₂, os₂, ho₂, hrel, hrest⟩ := all₂_cons_left hols
              obtain ⟨hk, hnext⟩ := md029_next c i t e e₂ e' _ _ t' hrel hm ha
              intro fm
              obtain ⟨e₂', hm', hrel'⟩ := hnext fm
              refine ⟨{ s₂ with ols := e₂' :: os₂ }, ?_, (by show true :: ls = s₂.lists; rw [← hl, hlists]), .cons hrel' hrest⟩
              unfold next029
              rw [hk, hkl]; simp only
              rw [← hlists, hl]; simp only
              rw [ho₂]; simp only
              rw [hm']
    · -- the other kinds never register a request
      have hfx : fx = [] ∧ rp = [] := by
        unfold next029 at hn
        split at hn
        · simp only [Except.ok.injEq, Prod.mk.injEq] at hn; exact ⟨hn.2.2.symm, hn.2.1.symm⟩
        · rename_i h; exact absurd h hko
        · split at hn
          · cases hn
          · simp only [Except.ok.injEq, Prod.mk.injEq] at hn; exact ⟨hn.2.2.symm, hn.2.1.symm⟩
        · split at hn
          · cases hn
          · split at hn
            · cases hn
            · simp only [Except.ok.injEq, Prod.mk.injEq] at hn; exact ⟨hn.2.2.symm, hn.2.1.symm⟩
        · rename_i h; exact absurd h hkl
        · simp only [Except.ok.injEq, Prod.mk.injEq] at hn; exact ⟨hn.2.2.symm, hn.2.1.symm⟩
      obtain ⟨rfl, rfl⟩ := hfx
      simp only [List.map_nil, applyGroup_nil, Except.ok.injEq] at ha
      subst ha
      intro fm
      by_cases hku : t.kind = .ulist
      · have hn2 : next029 c fm s₂ i t = .ok ({ s₂ with lists := false :: s₂.lists }, [], []) := by
          unfold next029; rw [hku]
        unfold next029 at hn
        rw [hku] at hn
        simp only [Except.ok.injEq, Prod.mk.injEq] at hn
        obtain ⟨rfl, _, _⟩ := hn
        exact ⟨_, hn2, (by show false :: s₁.lists = false :: s₂.lists; rw [hlists]), hols⟩
      · by_cases hkue : t.kind = .ulistEnd
        · unfold next029 at hn ⊢
          rw [hkue] at hn ⊢
          simp only at hn ⊢
          cases hl : s₁.lists with
          | nil => rw [hl] at hn; cases hn
          | cons b ls =>
            rw [hl] at hn
            simp only [Except.ok.injEq, Prod.mk.injEq] at hn
            obtain ⟨rfl, _, _⟩ := hn
            rw [← hlists, hl]
            exact ⟨_, rfl, rfl, hols⟩
        · by_cases hkoe : t.kind = .olistEnd
          · unfold next029 at hn ⊢
            rw [hkoe] at hn ⊢
            simp only at hn ⊢
            cases hl : s₁.lists with
            | nil => rw [hl] at hn; cases hn
            | cons b ls =>
              rw [hl] at hn
              simp only at hn
              cases ho : s₁.ols with
              | nil => rw [ho] at hn; cases hn
              | cons e os =>
                rw [ho] at hn
                simp only [Except.ok.injEq, Prod.mk.injEq] at hn
                obtain ⟨rfl, _, _⟩ := hn
                rw [ho] at hols
                obtain ⟨e₂, os₂, ho₂, _, hrest⟩ := all₂_cons_left hols
                rw [← hlists, hl, ho₂]
                exact ⟨_, rfl, rfl, hrest⟩
          · rw [next029_other c true s₁ i t hku hko hkue hkoe hkl] at hn
            simp only [Except.ok.injEq, Prod.mk.injEq] at hn
            obtain ⟨rfl, _, _⟩ := hn
            exact ⟨s₂, next029_other c fm s₂ i t hku hko hkue hkoe hkl, hlists, hols⟩

end Verif.Model.TokenRules

namespace Verif.Model.TokenRules

def ReqShape (i : Nat) (fx : List FixReq) : Prop :=
  ∃ expected : Int, fx = [⟨i, .listStartContent, .str (pyStr expected)⟩] ∨
    ∃ d : Int, fx = [⟨i, .listStartContent, .str (pyStr expected)⟩, ⟨i, .indentLevel, .int d⟩]

theorem matchFirst_fx (c : C029) (i : Nat) (t : Tok) ent rp fx (h : matchFirst c true i t = .ok (ent, rp, fx)) :
    fx = [] ∨ ReqShape i fx := by
  unfold matchFirst at h
  cases hp : pyInt t.content with
  | none => rw [hp] at h; cases h
  | some last =>
    rw [hp] at h
    simp only at h
    split at h
    · simp only [Except.ok.injEq, Prod.mk.injEq] at h; exact .inl h.2.2.symm
    · obtain ⟨_, expected, _, _, _, hfx⟩ := reportInvalid_fix i t true _ _ _ ent rp fx h
      exact .inr ⟨expected, hfx⟩

theorem matchNext_fx (i : Nat) (t : Tok) (e : Ent029) ent rp fx (h : matchNext true i t e = .ok (ent, rp, fx)) :
    fx = [] ∨ ReqShape i fx := by
  unfold matchNext at h
  split at h
  · simp only [Except.ok.injEq, Prod.mk.injEq] at h; exact .inl h.2.2.symm
  · split at h
    · cases h
    · split at h
      · cases h
      · simp only [Except.ok.injEq, Prod.mk.injEq] at h; exact .inl h.2.2.symm
      · obtain ⟨_, expected, _, _, _, hfx⟩ := reportInvalid_fix i t false _ _ _ ent rp fx h
        exact .inr ⟨expected, hfx⟩

/-- the requests of one fix-mode step: none, or the new number (and possibly the indent) of the current token -/
theorem next029_fx_shape (c : C029) (s : St029) (i : Nat) (t : Tok) s' rp fx (hn : next029 c true s i t = .ok (s', rp, fx)) :
    fx = [] ∨ ReqShape i fx := by
  unfold next029 at hn
  split at hn
  · simp only [Except.ok.injEq, Prod.mk.injEq] at hn; exact .inl hn.2.2.symm
  · cases hm : matchFirst c true i t with
    | error e => rw [hm] at hn; cases hn
    | ok p =>
      obtain ⟨ent, rp', fx'⟩ := p
      rw [hm] at hn
      simp only [Except.ok.injEq, Prod.mk.injEq] at hn
      obtain ⟨_, _, rfl⟩ := hn
      exact matchFirst_fx c i t ent rp' fx' hm
  · split at hn
    · cases hn
    · simp only [Except.ok.injEq, Prod.mk.injEq] at hn; exact .inl hn.2.2.symm
  · split at hn
    · cases hn
    · split at hn
      · cases hn
      · simp only [Except.ok.injEq, Prod.mk.injEq] at hn; exact .inl hn.2.2.symm
  · split at hn
    · cases hn
    · simp only [Except.ok.injEq, Prod.mk.injEq] at hn; exact .inl hn.2.2.symm
    · split at hn
      · cases hn
      · rename_i e os _
        cases hm : matchNext true i t e with
        | error er => rw [hm] at hn; cases hn
        | ok p =>
          obtain ⟨ent, rp', fx'⟩ := p
          rw [hm] at hn
          simp only [Except.ok.injEq, Prod.mk.injEq] at hn
          obtain ⟨_, _, rfl⟩ := hn
          exact matchNext_fx i t e ent rp' fx' hm
  · simp only [Except.ok.injEq, Prod.mk.injEq] at hn; exact .inl hn.2.2.symm

theorem md029_local : IsLocal md029 := by
  intro c s i t s' rp fx h q hq
  rcases next029_fx_shape c s i t s' rp fx h with rfl | ⟨e, rfl | ⟨d, rfl⟩⟩
  · simp at hq
  · simp at hq; simp [hq]
  · simp at hq; rcases hq with rfl | rfl <;> rfl

/-- what one step may change: `list_start_content` and `indent_level` of an ordered-list start or a list item;
    the new content is the decimal form of an integer -/
def Style029 (t t' : Tok) : Prop :=
  t' = { t with content := t'.content, indent := t'.indent } ∧
  (t' ≠ t → (t.kind = .olist ∨ t.kind = .ulist ∨ t.kind = .li) ∧ ∃ n : Int, t'.content = pyStr n)

theorem md029_step_style (c : C029) (s : St029) (i : Nat) (t : Tok) s' rp fx t'
    (hn : next029 c true s i t = .ok (s', rp, fx)) (ha : applyGroup t (reqPairs fx) = .ok t') : Style029 t t' := by
  rcases next029_fx_shape c s i t s' rp fx hn with rfl | ⟨e, hfx⟩
  · simp only [List.map_nil, applyGroup_nil, Except.ok.injEq] at ha
    subst ha; exact ⟨rfl, fun h => absurd rfl h⟩
  · obtain ⟨hk, _, hc, heq⟩ := apply_content t t' i _ fx hfx ha
    refine ⟨?_, fun _ => ⟨hk, e, hc⟩⟩
    rw [hc]; exact heq

end Verif.Model.TokenRules

namespace Verif.Model.TokenRules
/-! ## the fix never fails on a well-formed stream -/

theorem apply_reqShape_ok (t : Tok) (i : Nat) (fx : List FixReq) (hk : t.kind = .olist ∨ t.kind = .li)
    (hfx : fx = [] ∨ ReqShape i fx) : ∃ t', applyGroup t (reqPairs fx) = .ok t' := by
  rcases hfx with rfl | ⟨e, rfl | ⟨d, rfl⟩⟩
  · exact ⟨t, by simp [applyGroup_nil]⟩
  · simp only [List.map_cons, List.map_nil, applyGroup_single]
    rcases hk with hk | hk <;> simp [modify, listMod, hk]
  · have hd : hasDup [Field.listStartContent, Field.indentLevel] = false := by decide
    simp only [List.map_cons, List.map_nil, applyGroup, hd, Bool.false_eq_true, ↓reduceIte, modAll]
    rcases hk with hk | hk <;> simp [modify, listMod, hk]

def EntOk (e : Ent029) : Prop := ∃ sty l, e = (some sty, some l)

theorem reportInvalid_fix_ok (i : Nat) (t : Tok) (initial : Bool) (sty : Sty029) (last new : Option Int)
    (h1 : sty ≠ .oneOrOrdered) (h2 : initial = false → sty = .ordered → ∃ l, last = some l) :
    ∃ ent rp fx, reportInvalid true i t initial sty last new = .ok (ent, rp, fx) ∧ EntOk ent := by
  have : ∃ txt expected, matchInfo sty initial last = .ok (txt, expected) := by
    unfold matchInfo
    cases sty with
    | oneOrOrdered => exact absurd rfl h1
    | one => exact ⟨_, _, rfl⟩
    | zero => exact ⟨_, _, rfl⟩
    | ordered =>
      cases initial with
      | true => exact ⟨_, _, rfl⟩
      | false =>
        obtain ⟨l, rfl⟩ := h2 rfl rfl
        exact ⟨_, _, rfl⟩
  obtain ⟨txt, expected, hm⟩ := this
  unfold reportInvalid
  rw [hm]
  exact ⟨_, _, _, rfl, sty, expected, rfl⟩

theorem firstSty_invalid_ne (c : C029) (last : Int) (h : ¬ firstValid c (firstSty c last) last = true) :
    firstSty c last ≠ .oneOrOrdered := by
  intro h2; rw [h2] at h; simp [firstValid] at h

theorem matchFirst_ok (c : C029) (i : Nat) (t : Tok) (hp : (pyInt t.content).isSome) :
    ∃ ent rp fx, matchFirst c true i t = .ok (ent, rp, fx) ∧ EntOk ent := by
  rw [Option.isSome_iff_exists] at hp
  obtain ⟨last, hp⟩ := hp
  unfold matchFirst
  rw [hp]; simp only
  by_cases hv : firstValid c (firstSty c last) last = true
  · rw [if_pos hv]; exact ⟨_, _, _, rfl, _, _, rfl⟩
  · rw [if_neg hv]
    exact reportInvalid_fix_ok i t true _ _ _ (firstSty_invalid_ne c last hv) (fun h => by cases h)

theorem matchNext_ok (i : Nat) (t : Tok) (e : Ent029) (he : EntOk e) (hp : (pyInt t.content).isSome) :
    ∃ ent rp fx, matchNext true i t e = .ok (ent, rp, fx) ∧ EntOk ent := by
  obtain ⟨sty0, l, rfl⟩ := he
  rw [Option.isSome_iff_exists] at hp
  obtain ⟨new, hp⟩ := hp
  unfold matchNext
  simp only
  rw [hp]; simp only
  have hne := nextSty_ne sty0 new
  cases hs : nextSty sty0 new with
  | oneOrOrdered => exact absurd hs hne
  | one =>
    simp only [nextValid]
    cases hb : (new == 1) with
    | true => exact ⟨_, _, _, rfl, _, _, rfl⟩
    | false => exact reportInvalid_fix_ok i t false .one _ _ (by simp) (fun _ h => by cases h)
  | zero =>
    simp only [nextValid]
    cases hb : (new == 0) with
    | true => exact ⟨_, _, _, rfl, _, _, rfl⟩
    | false => exact reportInvalid_fix_ok i t false .zero _ _ (by simp) (fun _ h => by cases h)
  | ordered =>
    simp only [nextValid]
    cases hb : (new == l + 1) with
    | true => exact ⟨_, _, _, rfl, _, _, rfl⟩
    | false => exact reportInvalid_fix_ok i t false .ordered _ _ (by simp) (fun _ _ => ⟨l, rfl⟩)

def P029 (s : St029) (ts : List Tok) : Prop :=
  wfS029 s.lists ts = true ∧ s.ols.length = (s.lists.filter id).length ∧ ∀ e ∈ s.ols, EntOk e

theorem md029_step_ok (c : C029) (s : St029) (i : Nat) (t : Tok) (ts : List Tok) (hP : P029 s (t :: ts)) :
    ∃ s' rp fx t', next029 c true s i t = .ok (s', rp, fx) ∧ applyGroup t (reqPairs fx) = .ok t' ∧ P029 s' ts := by
  obtain ⟨hwf, hlen, hent⟩ := hP
  unfold wfS029 at hwf
  by_cases hku : t.kind = .ulist
  · rw [hku] at hwf
    refine ⟨{ s with lists := false :: s.lists }, [], [], t, by unfold next029; rw [hku], by simp [applyGroup_nil], hwf, ?_, hent⟩
    simpa using hlen
  by_cases hko : t.kind = .olist
  · rw [hko] at hwf
    simp only [Bool.and_eq_true] at hwf
    obtain ⟨ent, rp, fx, hm, hok⟩ := matchFirst_ok c i t hwf.1
    obtain ⟨t', ha⟩ := apply_reqShape_ok t i fx (.inl hko) (matchFirst_fx c i t ent rp fx hm)
    refine ⟨{ lists := true :: s.lists, ols := ent :: s.ols }, rp, fx, t', ?_, ha, hwf.2, ?_, ?_⟩
    · unfold next029; rw [hko]; simp only; rw [hm]
    · simp [hlen]
    · intro e he; rcases List.mem_cons.mp he with rfl | he
      · exact hok
      · exact hent e he
  by_cases hkue : t.kind = .ulistEnd
  · rw [hkue] at hwf
    simp only at hwf
    cases hl : s.lists with
    | nil => rw [hl] at hwf; cases hwf
    | cons b st =>
      rw [hl] at hwf
      cases b with
      | true => cases hwf
      | false =>
        refine ⟨{ s with lists := st }, [], [], t, ?_, by simp [applyGroup_nil], hwf, ?_, hent⟩
        · unfold next029; rw [hkue]; simp only; rw [hl]
        · rw [hl] at hlen; simpa using hlen
  by_cases hkoe : t.kind = .olistEnd
  · rw [hkoe] at hwf
    simp only at hwf
    cases hl : s.lists with
    | nil => rw [hl] at hwf; cases hwf
    | cons b st =>
      rw [hl] at hwf
      cases b with
      | false => cases hwf
      | true =>
        rw [hl] at hlen
        cases ho : s.ols with
        | nil => rw [ho] at hlen; simp at hlen
        | cons e os =>
          refine ⟨{ lists := st, ols := os }, [], [], t, ?_, by simp [applyGroup_nil], hwf, ?_, ?_⟩
          · unfold next029; rw [hkoe]; simp only; rw [hl]; simp only; rw [ho]
          · rw [ho] at hlen; simpa using hlen
          · intro e' he'; exact hent e' (by rw [ho]; exact List.mem_cons_of_mem _ he')
  by_cases hkl : t.kind = .li
  · rw [hkl] at hwf
    simp only at hwf
    cases hl : s.lists with
    | nil => rw [hl] at hwf; cases hwf
    | cons b st =>
      rw [hl] at hwf
      cases b with
      | false =>
        refine ⟨s, [], [], t, ?_, by simp [applyGroup_nil], by rw [hl]; exact hwf, hlen, hent⟩
        unfold next029; rw [hkl]; simp only; rw [hl]
      | true =>
        simp only [Bool.and_eq_true] at hwf
        rw [hl] at hlen
        cases ho : s.ols with
        | nil => rw [ho] at hlen; simp at hlen
        | cons e os =>
          obtain ⟨ent, rp, fx, hm, hok⟩ := matchNext_ok i t e (hent e (by rw [ho]; exact List.mem_cons_self)) hwf.1
          obtain ⟨t', ha⟩ := apply_reqShape_ok t i fx (.inr hkl) (matchNext_fx i t e ent rp fx hm)
          refine ⟨{ s with ols := ent :: os }, rp, fx, t', ?_, ha, by rw [hl]; exact hwf.2, ?_, ?_⟩
          · unfold next029; rw [hkl]; simp only; rw [hl]; simp only; rw [ho]; simp only; rw [hm]
          · rw [ho] at hlen; simpa [hl] using hlen
          · intro e' he'; rcases List.mem_cons.mp he' with rfl | he'
            · exact hok
            · exact hent e' (by rw [ho]; exact List.mem_cons_of_mem _ he')
  · refine ⟨s, [], [], t, next029_other c true s i t hku hko hkue hkoe hkl, by simp [applyGroup_nil], ?_, hlen, hent⟩
    split at hwf <;> simp_all

end Verif.Model.TokenRules
