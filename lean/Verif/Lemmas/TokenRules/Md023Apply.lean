import Verif.Model.TokenRules.Basic2
import Verif.Lemmas.TokenRules.Lift
/-!
  (MD023's own copy of the generic facts about `applyFixes2`; names suffixed `023`.)
  What `applyFixes2` does when a rule registers field requests only (no replacement records), position by position:
  the token at index `i` becomes `applyGroup2` of the requests that name `i`; afterwards `reindex` normalises `startIdx`
  (an index that points outside the stream becomes `none` — never the case for the abstraction of a real stream).
-/
namespace Verif.Model.TokenRules

/-- what `reindex` does to a token of an unchanged-length stream -/
def normIdx023 (n : Nat) (t : Tok2) : Tok2 :=
  match t.startIdx with
  | some j => { t with startIdx := if j < n then some j else none }
  | none => t

theorem normIdx_idem023 (n : Nat) (t : Tok2) : normIdx023 n (normIdx023 n t) = normIdx023 n t := by
  unfold normIdx023
  cases h : t.startIdx with
  | none => simp [h]
  | some j =>
    by_cases hj : j < n
    · simp [hj]
    · simp [hj]

theorem normIdx_of_lt023 (n : Nat) (t : Tok2) (h : ∀ j, t.startIdx = some j → j < n) : normIdx023 n t = t := by
  unfold normIdx023
  cases hs : t.startIdx with
  | none => rfl
  | some j =>
    have := h j hs
    simp only [this, ↓reduceIte]
    rw [← hs]

theorem applyGroup2_nil023 (t : Tok2) : applyGroup2 t [] = .ok t := by
  simp [applyGroup2, hasDup2, modAll2]

theorem groupOf2_nil_of_not_mem023 (reqs : List FixReq2) (i : Nat) (h : i ∉ reqs.map (·.idx)) : groupOf2 reqs i = [] := by
  unfold groupOf2
  have : reqs.filter (·.idx == i) = [] := by
    rw [List.filter_eq_nil_iff]
    intro q hq hqi
    apply h
    have : q.idx = i := by simpa using hqi
    exact List.mem_map.mpr ⟨q, hq, this⟩
  rw [this]; rfl

/-- the loop over the dict: processed indices carry the applied group, the others are untouched -/
theorem applyFieldsGo_get023 (reqs : List FixReq2) : ∀ (order : List Nat) (cur fin : List Tok2), order.Nodup →
    applyFieldsGo reqs order cur = .ok fin →
    fin.length = cur.length ∧
    (∀ i ∈ order, ∃ t t', cur[i]? = some t ∧ applyGroup2 t (groupOf2 reqs i) = .ok t' ∧ fin[i]? = some t') ∧
    (∀ i, i ∉ order → fin[i]? = cur[i]?) := by
  intro order
  induction order with
  | nil =>
    intro cur fin _ h
    simp only [applyFieldsGo, Except.ok.injEq] at h
    subst h
    exact ⟨rfl, (by intro i hi; cases hi), fun _ _ => rfl⟩
  | cons i is ih =>
    intro cur fin hnd h
    unfold applyFieldsGo at h
    split at h
    · cases h
    · rename_i t hci
      split at h
      · cases h
      · rename_i t' hg
        obtain ⟨hni, hnd'⟩ := List.nodup_cons.mp hnd
        obtain ⟨hlen, hin, hout⟩ := ih (cur.set i t') fin hnd' h
        have hilt : i < cur.length := by
          rcases Nat.lt_or_ge i cur.length with h' | h'
          · exact h'
          · rw [List.getElem?_eq_none h'] at hci; cases hci
        refine ⟨by simpa using hlen, ?_, ?_⟩
        · intro j hj
          rcases List.mem_cons.mp hj with hj | hj
          · subst hj
            refine ⟨t, t', hci, hg, ?_⟩
            rw [hout j hni, List.getElem?_set]
            simp [hilt]
          · obtain ⟨u, u', h1, h2, h3⟩ := hin j hj
            refine ⟨u, u', ?_, h2, h3⟩
            rw [List.getElem?_set] at h1
            have : i ≠ j := by intro e; subst e; exact hni hj
            simpa [this] using h1
        · intro j hj
          have hji : i ≠ j := by intro e; subst e; exact hj List.mem_cons_self
          have hj' : j ∉ is := fun h' => hj (List.mem_cons_of_mem _ h')
          rw [hout j hj', List.getElem?_set]
          simp [hji]

/-- `applyFields`, position by position -/
theorem applyFields_get023 (ts fin : List Tok2) (reqs : List FixReq2) (h : applyFields ts reqs = .ok fin) :
    fin.length = ts.length ∧
    ∀ i t, ts[i]? = some t → ∃ t', applyGroup2 t (groupOf2 reqs i) = .ok t' ∧ fin[i]? = some t' := by
  unfold applyFields at h
  obtain ⟨hlen, hin, hout⟩ := applyFieldsGo_get023 reqs _ ts fin (firstOcc_nodup [] _) h
  refine ⟨hlen, ?_⟩
  intro i t hti
  by_cases hi : i ∈ firstOcc [] (reqs.map (·.idx))
  · obtain ⟨u, u', h1, h2, h3⟩ := hin i hi
    rw [hti] at h1
    cases h1
    exact ⟨u', h2, h3⟩
  · have : i ∉ reqs.map (·.idx) := by
      intro hm
      exact hi ((firstOcc_mem [] _ i).mpr ⟨hm, by simp⟩)
    rw [groupOf2_nil_of_not_mem023 reqs i this, applyGroup2_nil023]
    exact ⟨t, rfl, by rw [hout i hi, hti]⟩

/-- every request names a token of the stream and every group applies: `applyFields` succeeds -/
theorem applyFieldsGo_ok023 (reqs : List FixReq2) (ts : List Tok2)
    (hg : ∀ i t, ts[i]? = some t → ∃ t', applyGroup2 t (groupOf2 reqs i) = .ok t') :
    ∀ (order : List Nat) (cur : List Tok2), order.Nodup → (∀ i ∈ order, i < ts.length ∧ cur[i]? = ts[i]?) →
      ∃ fin, applyFieldsGo reqs order cur = .ok fin := by
  intro order
  induction order with
  | nil => intro cur _ _; exact ⟨cur, rfl⟩
  | cons i is ih =>
    intro cur hnd hin
    obtain ⟨hilt, hci⟩ := hin i List.mem_cons_self
    have hti : ts[i]? = some ts[i] := by simp [hilt]
    obtain ⟨t', ht'⟩ := hg i ts[i] hti
    obtain ⟨hni, hnd'⟩ := List.nodup_cons.mp hnd
    unfold applyFieldsGo
    rw [hci, hti]
    simp only [ht']
    apply ih _ hnd'
    intro j hj
    have hji : i ≠ j := by intro e; subst e; exact hni hj
    refine ⟨(hin j (List.mem_cons_of_mem _ hj)).1, ?_⟩
    rw [List.getElem?_set]
    simp only [hji, ↓reduceIte]
    exact (hin j (List.mem_cons_of_mem _ hj)).2

theorem applyFields_ok023 (ts : List Tok2) (reqs : List FixReq2) (hr : ∀ q ∈ reqs, q.idx < ts.length)
    (hg : ∀ i t, ts[i]? = some t → ∃ t', applyGroup2 t (groupOf2 reqs i) = .ok t') :
    ∃ fin, applyFields ts reqs = .ok fin := by
  unfold applyFields
  apply applyFieldsGo_ok023 reqs ts hg _ ts (firstOcc_nodup [] _)
  intro i hi
  obtain ⟨hm, _⟩ := (firstOcc_mem [] _ i).mp hi
  obtain ⟨q, hq, rfl⟩ := List.mem_map.mp hm
  exact ⟨hr q hq, rfl⟩

/-! ## no replacement records -/
theorem reindex_range'_norm023 (ts : List Tok2) : ∀ (m k p : Nat), k + m ≤ ts.length →
    reindex ⟨ts, (List.range' 0 ts.length).map .orig⟩ p ((List.range' k m).map WTok.orig) =
      ((ts.drop k).take m).map (normIdx023 ts.length) := by
  intro m
  induction m with
  | zero => intro k p _; simp [reindex]
  | succ m ih =>
    intro k p hk
    have hlt : k < ts.length := by omega
    simp only [List.range'_succ, List.map_cons, reindex]
    rw [ih (k + 1) (p + 1) (by omega)]
    have hget : ts[k]? = some ts[k] := by simp [hlt]
    rw [hget]
    simp only
    have hd : ts.drop k = ts[k] :: ts.drop (k + 1) := by
      rw [List.drop_eq_getElem_cons hlt]
    rw [hd, List.take_succ_cons, List.map_cons]
    congr 1
    unfold normIdx023
    cases hs : ts[k].startIdx with
    | none => rfl
    | some j =>
      simp only
      rw [findTag_range']
      by_cases hj : j < ts.length
      · simp [hj]
      · simp [hj]

/-- `applyFixes2` without replacement records -/
theorem applyFixes2_noRepl023 (toks : List Tok2) (reqs : List FixReq2) :
    applyFixes2 toks reqs [] =
      match applyFields toks reqs with
      | .error e => .error e
      | .ok ts => .ok (ts.map (normIdx023 ts.length)) := by
  unfold applyFixes2
  cases h : applyFields toks reqs with
  | error e => rfl
  | ok ts =>
    simp only [collide, applyRepls]
    rw [List.range_eq_range']
    have := reindex_range'_norm023 ts ts.length 0 0 (by simp)
    simp only [List.drop_zero, List.take_length] at this
    rw [this]

theorem applyFields_nil023 (ts : List Tok2) : applyFields ts [] = .ok ts := by
  simp [applyFields, firstOcc, applyFieldsGo]

end Verif.Model.TokenRules
