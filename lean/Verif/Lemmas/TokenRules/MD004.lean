import Verif.Lemmas.TokenRules.Basic
import Verif.Model.TokenRules.MD004
namespace Verif.Model.TokenRules

theorem seqType_set (t : Tok) (b : Bul) : seqType { t with seq := [b.char] } = .ok b := by
  cases b <;> simp [seqType, Bul.char]

/-- a successful `list_start_sequence` request -/
theorem modify_seq (t t' : Tok) (s : Str) (h : modify t .listStartSequence (.str s) = some t') :
    (t.kind = .ulist ∨ t.kind = .olist) ∧ t' = { t with seq := s } := by
  unfold modify at h
  split at h <;> simp [leafMod, baseMod, listMod] at h
  · rename_i hk; exact ⟨.inl hk, h.symm⟩
  · rename_i hk; exact ⟨.inr hk, h.symm⟩

/-- what a step on an unordered-list start is made of -/
theorem next004_ulist (c : C004) (fm : Bool) (s : St004) (i : Nat) (t : Tok) (hk : t.kind = .ulist) s' rp fx
    (h : next004 c fm s i t = .ok (s', rp, fx)) :
    ∃ actual this want, ensure004 c s t = .ok actual ∧ seqType t = .ok this ∧ actual.lookup s.level = some want ∧
      s' = { actual := actual, level := s.level + 1 } ∧
      ((want = this ∧ rp = [] ∧ fx = []) ∨
       (want ≠ this ∧ fm = true ∧ rp = [] ∧ fx = [⟨i, .listStartSequence, .str [want.char]⟩]) ∨
       (want ≠ this ∧ fm = false ∧ rp = [⟨t.line, t.col, some (extra004 want this)⟩] ∧ fx = [])) := by
  unfold next004 at h
  rw [hk] at h
  simp only at h
  cases he : ensure004 c s t with
  | error e => rw [he] at h; cases h
  | ok actual =>
    rw [he] at h
    simp only at h
    cases hs : seqType t with
    | error e => rw [hs] at h; cases h
    | ok this =>
      rw [hs] at h
      simp only at h
      cases hl : actual.lookup s.level with
      | none => rw [hl] at h; cases h
      | some want =>
        rw [hl] at h
        simp only at h
        refine ⟨actual, this, want, rfl, rfl, hl, ?_⟩
        by_cases hw : want = this
        · simp only [hw, ne_eq, not_true_eq_false, ↓reduceIte, Except.ok.injEq, Prod.mk.injEq] at h
          obtain ⟨rfl, rfl, rfl⟩ := h
          exact ⟨rfl, .inl ⟨hw, rfl, rfl⟩⟩
        · simp only [ne_eq, hw, not_false_eq_true, ↓reduceIte] at h
          cases fm with
          | true =>
            simp only [↓reduceIte, Except.ok.injEq, Prod.mk.injEq] at h
            obtain ⟨rfl, rfl, rfl⟩ := h
            exact ⟨rfl, .inr (.inl ⟨hw, rfl, rfl, rfl⟩)⟩
          | false =>
            simp only [Bool.false_eq_true, ↓reduceIte, Except.ok.injEq, Prod.mk.injEq] at h
            obtain ⟨rfl, rfl, rfl⟩ := h
            exact ⟨rfl, .inr (.inr ⟨hw, rfl, rfl, rfl⟩)⟩

theorem next004_ulist_quiet (c : C004) (fm : Bool) (s : St004) (i : Nat) (t : Tok) (hk : t.kind = .ulist) actual this
    (he : ensure004 c s t = .ok actual) (hs : seqType t = .ok this) (hl : actual.lookup s.level = some this) :
    next004 c fm s i t = .ok ({ actual := actual, level := s.level + 1 }, [], []) := by
  unfold next004
  rw [hk]; simp only
  rw [he]; simp only
  rw [hs]; simp only
  rw [hl]; simp

theorem next004_other (c : C004) (fm : Bool) (s : St004) (i : Nat) (t : Tok) (hk : t.kind ≠ .ulist) s' rp fx
    (h : next004 c fm s i t = .ok (s', rp, fx)) :
    rp = [] ∧ fx = [] ∧ ∀ fm', next004 c fm' s i t = .ok (s', [], []) := by
  unfold next004 at h ⊢
  split at h
  · rename_i hk'; exact absurd hk' hk
  · simp only [Except.ok.injEq, Prod.mk.injEq] at h; obtain ⟨rfl, rfl, rfl⟩ := h; exact ⟨rfl, rfl, fun _ => rfl⟩
  · simp only [Except.ok.injEq, Prod.mk.injEq] at h; obtain ⟨rfl, rfl, rfl⟩ := h; exact ⟨rfl, rfl, fun _ => rfl⟩

theorem md004_local : IsLocal md004 := by
  intro c s i t s' rp fx h q hq
  change next004 c true s i t = _ at h
  by_cases hk : t.kind = .ulist
  · obtain ⟨_, _, _, _, _, _, _, h5⟩ := next004_ulist c true s i t hk s' rp fx h
    rcases h5 with ⟨_, _, rfl⟩ | ⟨_, _, _, rfl⟩ | ⟨_, _, _, rfl⟩
    · simp at hq
    · simp at hq; simp [hq]
    · simp at hq
  · obtain ⟨_, rfl, _⟩ := next004_other c true s i t hk s' rp fx h
    simp at hq

/-- when the wanted bullet differs from the token's, the entry of the level did not come from the token:
    `ensure004` does not depend on the bullet -/
theorem ensure004_indep (c : C004) (s : St004) (t : Tok) actual this want
    (he : ensure004 c s t = .ok actual) (hs : seqType t = .ok this) (hl : actual.lookup s.level = some want)
    (hne : want ≠ this) (sq : Str) : ensure004 c s { t with seq := sq } = .ok actual := by
  unfold ensure004 at he ⊢
  cases hlk : s.actual.lookup s.level with
  | some b => simp only [hlk] at he ⊢; exact he
  | none =>
    simp only [hlk] at he ⊢
    by_cases hb : c.style = .sublist ∨ (c.style = .consistent ∧ s.actual = [])
    · rw [if_pos hb] at he
      rw [hs] at he
      simp only [Except.ok.injEq] at he
      subst he
      simp at hl
      exact absurd hl.symm hne
    · rw [if_neg hb] at he ⊢; exact he

/-- one step: on the fixed token, from the same state, both modes do nothing and reach the same state -/
theorem md004_step (c : C004) (s : St004) (i : Nat) (t : Tok) s' rp fx t'
    (hn : next004 c true s i t = .ok (s', rp, fx)) (ha : applyGroup t (reqPairs fx) = .ok t') :
    ∀ fm, next004 c fm s i t' = .ok (s', [], []) := by
  by_cases hk : t.kind = .ulist
  · obtain ⟨actual, this, want, he, hs, hl, rfl, h5⟩ := next004_ulist c true s i t hk s' rp fx hn
    rcases h5 with ⟨hw, rfl, rfl⟩ | ⟨hw, _, rfl, rfl⟩ | ⟨_, hf, _, _⟩
    · simp only [List.map_nil, applyGroup_nil, Except.ok.injEq] at ha
      subst ha
      intro fm
      exact next004_ulist_quiet c fm s i t hk actual this he hs (hw ▸ hl)
    · simp only [List.map_cons, List.map_nil, applyGroup_single] at ha
      split at ha
      · rename_i tm hm
        cases ha
        obtain ⟨_, rfl⟩ := modify_seq _ _ _ hm
        intro fm
        exact next004_ulist_quiet c fm s i { t with seq := [want.char] } hk actual want
          (ensure004_indep c s t actual this want he hs hl hw _) (seqType_set t want) hl
      · cases ha
    · cases hf
  · obtain ⟨rfl, rfl, h3⟩ := next004_other c true s i t hk s' rp fx hn
    simp only [List.map_nil, applyGroup_nil, Except.ok.injEq] at ha
    subst ha
    exact h3

/-- what one step may change: the bullet of an unordered-list start, to one of the three bullets -/
def Style004 (t t' : Tok) : Prop :=
  t' = { t with seq := t'.seq } ∧ (t' ≠ t → t.kind = .ulist ∧ ∃ b : Bul, t'.seq = [b.char])

theorem md004_step_style (c : C004) (s : St004) (i : Nat) (t : Tok) s' rp fx t'
    (hn : next004 c true s i t = .ok (s', rp, fx)) (ha : applyGroup t (reqPairs fx) = .ok t') : Style004 t t' := by
  by_cases hk : t.kind = .ulist
  · obtain ⟨actual, this, want, he, hs, hl, rfl, h5⟩ := next004_ulist c true s i t hk s' rp fx hn
    rcases h5 with ⟨hw, rfl, rfl⟩ | ⟨hw, _, rfl, rfl⟩ | ⟨_, hf, _, _⟩
    · simp only [List.map_nil, applyGroup_nil, Except.ok.injEq] at ha
      subst ha; exact ⟨rfl, fun h => absurd rfl h⟩
    · simp only [List.map_cons, List.map_nil, applyGroup_single] at ha
      split at ha
      · rename_i tm hm
        cases ha
        obtain ⟨_, rfl⟩ := modify_seq _ _ _ hm
        exact ⟨rfl, fun _ => ⟨hk, want, rfl⟩⟩
      · cases ha
    · cases hf
  · obtain ⟨rfl, rfl, h3⟩ := next004_other c true s i t hk s' rp fx hn
    simp only [List.map_nil, applyGroup_nil, Except.ok.injEq] at ha
    subst ha; exact ⟨rfl, fun h => absurd rfl h⟩

end Verif.Model.TokenRules

namespace Verif.Model.TokenRules
/-! ## association-list look-ups -/
theorem lookup_cons_self {β : Type} (k : Int) (v : β) (l : List (Int × β)) : ((k, v) :: l).lookup k = some v := by
  simp [List.lookup]

theorem lookup_cons_ne {β : Type} (k a : Int) (v : β) (l : List (Int × β)) (h : k ≠ a) :
    ((a, v) :: l).lookup k = l.lookup k := by
  have : (k == a) = false := by simp [h]
  simp [List.lookup, this]

theorem lookup_mem {β : Type} (k : Int) (v : β) : ∀ (l : List (Int × β)), l.lookup k = some v → (k, v) ∈ l := by
  intro l
  induction l with
  | nil => intro h; simp [List.lookup] at h
  | cons p l ih =>
    intro h
    obtain ⟨a, w⟩ := p
    by_cases hk : k = a
    · subst hk; rw [lookup_cons_self] at h; cases h; exact List.mem_cons_self
    · rw [lookup_cons_ne k a w l hk] at h; exact List.mem_cons_of_mem _ (ih h)

/-! ## fix never fails on a well-formed balanced stream -/
def Inv004 (c : C004) (s : St004) (ts : List Tok) : Prop :=
  match c.style with
  | .fixed _ => (s.actual.lookup 0).isSome
  | .sublist => True
  | .consistent => (s.actual = [] ∧ s.level = 0 ∧ balanced004 0 ts = true) ∨ (s.actual.lookup 0).isSome

theorem wf004_seqType (t : Tok) (hk : t.kind = .ulist) (hw : wf004 t = true) : ∃ b, seqType t = .ok b := by
  unfold wf004 at hw
  rw [hk] at hw
  simp only [decide_eq_true_eq] at hw
  unfold seqType
  rcases hw with h | h | h <;> simp [h]

theorem modify_seq_ulist (t : Tok) (hk : t.kind = .ulist) (sq : Str) :
    modify t .listStartSequence (.str sq) = some { t with seq := sq } := by
  unfold modify; rw [hk]; simp [listMod, hk]

/-- the part of a fix-mode step on a list start after `ensure004` succeeded -/
theorem next004_ulist_ok (c : C004) (s : St004) (i : Nat) (t : Tok) (hk : t.kind = .ulist) actual this want
    (he : ensure004 c s t = .ok actual) (hs : seqType t = .ok this) (hl : actual.lookup s.level = some want) :
    ∃ rp fx t', next004 c true s i t = .ok ({ actual := actual, level := s.level + 1 }, rp, fx) ∧
      applyGroup t (reqPairs fx) = .ok t' := by
  unfold next004
  rw [hk]; simp only
  rw [he]; simp only
  rw [hs]; simp only
  rw [hl]; simp only
  by_cases hw : want = this
  · simp only [hw, ne_eq, not_true_eq_false, ↓reduceIte]
    exact ⟨_, _, t, rfl, by simp [applyGroup_nil]⟩
  · simp only [ne_eq, hw, not_false_eq_true, ↓reduceIte]
    refine ⟨_, _, { t with seq := [want.char] }, rfl, ?_⟩
    simp only [List.map_cons, List.map_nil, applyGroup_single, modify_seq_ulist t hk]

theorem md004_step_ok (c : C004) (s : St004) (i : Nat) (t : Tok) (ts : List Tok)
    (hP : (∀ u ∈ t :: ts, wf004 u = true) ∧ Inv004 c s (t :: ts)) :
    ∃ s' rp fx t', next004 c true s i t = .ok (s', rp, fx) ∧ applyGroup t (reqPairs fx) = .ok t' ∧
      ((∀ u ∈ ts, wf004 u = true) ∧ Inv004 c s' ts) := by
  obtain ⟨hW, hI⟩ := hP
  have hWts : ∀ u ∈ ts, wf004 u = true := fun u hu => hW u (List.mem_cons_of_mem _ hu)
  by_cases hk : t.kind = .ulist
  · obtain ⟨this, hs⟩ := wf004_seqType t hk (hW t List.mem_cons_self)
    -- `ensure004` succeeds, its result has an entry for the level and keeps the invariant
    have hens : ∃ actual want, ensure004 c s t = .ok actual ∧ actual.lookup s.level = some want ∧
        Inv004 c { actual := actual, level := s.level + 1 } ts := by
      unfold ensure004
      cases hlk : s.actual.lookup s.level with
      | some w =>
        refine ⟨s.actual, w, rfl, hlk, ?_⟩
        unfold Inv004 at hI ⊢
        split at hI
        · exact hI
        · trivial
        · rcases hI with ⟨h1, _, _⟩ | h
          · rw [h1] at hlk; simp [List.lookup] at hlk
          · exact .inr h
      | none =>
        simp only
        by_cases hb : c.style = .sublist ∨ (c.style = .consistent ∧ s.actual = [])
        · rw [if_pos hb, hs]
          refine ⟨_, this, rfl, lookup_cons_self _ _ _, ?_⟩
          unfold Inv004 at hI ⊢
          split at hI
          · rename_i hst; rcases hb with hb | ⟨hb, _⟩ <;> simp [hst] at hb
          · trivial
          · rcases hI with ⟨_, h2, _⟩ | h
            · right; simp only; rw [h2, lookup_cons_self]; rfl
            · rw [Option.isSome_iff_exists] at h
              obtain ⟨b0, hb0⟩ := h
              have : (0 : Int) ≠ s.level := by intro h0; rw [← h0, hb0] at hlk; cases hlk
              right; simp only; rw [lookup_cons_ne 0 _ _ _ this, hb0]; rfl
        · rw [if_neg hb]
          have h0 : (s.actual.lookup 0).isSome := by
            unfold Inv004 at hI
            split at hI
            · exact hI
            · rename_i hst; exact absurd (.inl hst) hb
            · rename_i hst
              rcases hI with ⟨h1, _, _⟩ | h
              · exact absurd (.inr ⟨hst, h1⟩) hb
              · exact h
          rw [Option.isSome_iff_exists] at h0
          obtain ⟨b0, hb0⟩ := h0
          rw [hb0]
          refine ⟨_, b0, rfl, lookup_cons_self _ _ _, ?_⟩
          have : (0 : Int) ≠ s.level := by intro h0; rw [← h0, hb0] at hlk; cases hlk
          have hnew : (((s.level, b0) :: s.actual).lookup 0).isSome := by
            rw [lookup_cons_ne 0 _ _ _ this, hb0]; rfl
          unfold Inv004
          split
          · exact hnew
          · trivial
          · exact .inr hnew
    obtain ⟨actual, want, he, hl, hI'⟩ := hens
    obtain ⟨rp, fx, t', hn, ha⟩ := next004_ulist_ok c s i t hk actual this want he hs hl
    exact ⟨_, rp, fx, t', hn, ha, hWts, hI'⟩
  · by_cases hke : t.kind = .ulistEnd
    · refine ⟨{ s with level := s.level - 1 }, [], [], t, ?_, by simp [applyGroup_nil], hWts, ?_⟩
      · unfold next004; rw [hke]
      · unfold Inv004 at hI ⊢
        split at hI
        · exact hI
        · trivial
        · rcases hI with ⟨_, _, h3⟩ | h
          · unfold balanced004 at h3; rw [hke] at h3; simp at h3
          · exact .inr h
    · refine ⟨s, [], [], t, ?_, by simp [applyGroup_nil], hWts, ?_⟩
      · unfold next004; split <;> simp_all
      · unfold Inv004 at hI ⊢
        split at hI
        · exact hI
        · trivial
        · rcases hI with ⟨h1, h2, h3⟩ | h
          · left; refine ⟨h1, h2, ?_⟩
            unfold balanced004 at h3; split at h3 <;> simp_all
          · exact .inr h

end Verif.Model.TokenRules

namespace Verif.Model.TokenRules
/-! ## scan = the documented condition -/
abbrev rpos (r : Report) : Int × Int := (r.line, r.col)
abbrev tpos (t : Tok) : Int × Int := (t.line, t.col)

/-- scan-mode step on a list start after `ensure004` succeeded -/
theorem next004_scan_ulist (c : C004) (s : St004) (i : Nat) (t : Tok) (hk : t.kind = .ulist) actual this want
    (he : ensure004 c s t = .ok actual) (hs : seqType t = .ok this) (hl : actual.lookup s.level = some want) :
    ∃ rp, next004 c false s i t = .ok ({ actual := actual, level := s.level + 1 }, rp, []) ∧
      rp.map rpos = if this = want then [] else [tpos t] := by
  unfold next004
  rw [hk]; simp only
  rw [he]; simp only
  rw [hs]; simp only
  rw [hl]; simp only
  by_cases hw : want = this
  · simp [hw]
  · have : ¬ this = want := fun h => hw h.symm
    simp [hw, this]

theorem next004_skip (c : C004) (fm : Bool) (s : St004) (i : Nat) (t : Tok) (hk : t.kind ≠ .ulist) (hke : t.kind ≠ .ulistEnd) :
    next004 c fm s i t = .ok (s, [], []) := by
  unfold next004; split <;> simp_all

theorem ulOf_skip (lv : Int) (t : Tok) (ts : List Tok) (hk : t.kind ≠ .ulist) (hke : t.kind ≠ .ulistEnd) :
    ulOf lv (t :: ts) = ulOf lv ts := by
  simp only [ulOf]

theorem ulOf_ulist (lv : Int) (t : Tok) (ts : List Tok) (hk : t.kind = .ulist) (b : Bul) (hs : seqType t = .ok b) :
    ulOf lv (t :: ts) = (b, t, lv) :: ulOf (lv + 1) ts := by
  simp only [ulOf]; rw [hk]; simp only; rw [hs]

theorem ulOf_end (lv : Int) (t : Tok) (ts : List Tok) (hk : t.kind = .ulistEnd) :
    ulOf lv (t :: ts) = ulOf (lv - 1) ts := by
  simp only [ulOf]; rw [hk]

/-- once level 0 is recorded and every recorded style is `b` (fixed styles from the start, `consistent` after the first
    list): every list start with another bullet is reported -/
theorem runFrom004_fixed (c : C004) (hns : c.style ≠ .sublist) (b : Bul) :
    ∀ (ts : List Tok) (s : St004) (i : Nat) (lv : Int), (∀ p ∈ s.actual, p.2 = b) → s.actual.lookup 0 = some b →
      (∀ t ∈ ts, wf004 t = true) →
      ∃ s' rps, runFrom md004 c false s i ts = .ok (s', rps, []) ∧ rps.map rpos = (wrongBullet b (ulOf lv ts)).map tpos := by
  intro ts
  induction ts with
  | nil => intro s i lv _ _ _; exact ⟨s, [], rfl, rfl⟩
  | cons t ts ih =>
    intro s i lv hall h0 hW
    have hWts : ∀ u ∈ ts, wf004 u = true := fun u hu => hW u (List.mem_cons_of_mem _ hu)
    by_cases hk : t.kind = .ulist
    · obtain ⟨this, hs⟩ := wf004_seqType t hk (hW t List.mem_cons_self)
      have hens : ∃ actual, ensure004 c s t = .ok actual ∧ actual.lookup s.level = some b ∧
          (∀ p ∈ actual, p.2 = b) ∧ actual.lookup 0 = some b := by
        unfold ensure004
        cases hlk : s.actual.lookup s.level with
        | some w =>
          have := hall _ (lookup_mem _ _ _ hlk)
          simp only at this; subst this
          exact ⟨s.actual, rfl, hlk, hall, h0⟩
        | none =>
          simp only
          have hne : s.actual ≠ [] := by intro h; rw [h] at h0; simp [List.lookup] at h0
          have hb : ¬ (c.style = .sublist ∨ (c.style = .consistent ∧ s.actual = [])) := by
            intro h; rcases h with h | ⟨_, h⟩
            · exact hns h
            · exact hne h
          rw [if_neg hb, h0]
          have : (0 : Int) ≠ s.level := by intro h; rw [← h, h0] at hlk; cases hlk
          refine ⟨_, rfl, lookup_cons_self _ _ _, ?_, by rw [lookup_cons_ne 0 _ _ _ this, h0]⟩
          intro p hp
          rcases List.mem_cons.mp hp with rfl | hp
          · rfl
          · exact hall p hp
      obtain ⟨actual, he, hl, hall', h0'⟩ := hens
      obtain ⟨rp, hn, hrp⟩ := next004_scan_ulist c s i t hk actual this b he hs hl
      obtain ⟨s', rps, hr, hrps⟩ := ih { actual := actual, level := s.level + 1 } (i + 1) (lv + 1) hall' h0' hWts
      refine ⟨s', rp ++ rps, runFrom_cons_ok md004 c false s _ s' i t ts rp [] rps [] hn hr, ?_⟩
      rw [List.map_append, hrp, hrps]
      rw [ulOf_ulist lv t ts hk this hs]
      unfold wrongBullet
      rw [List.filterMap_cons]
      by_cases hw : this = b <;> simp [hw]
    · by_cases hke : t.kind = .ulistEnd
      · have hn : md004.next c false s i t = .ok ({ s with level := s.level - 1 }, [], []) := by
          show next004 c false s i t = _
          unfold next004; rw [hke]
        obtain ⟨s', rps, hr, hrps⟩ := ih { s with level := s.level - 1 } (i + 1) (lv - 1) hall h0 hWts
        refine ⟨s', rps, by simpa using runFrom_cons_ok md004 c false s _ s' i t ts [] [] rps [] hn hr, ?_⟩
        rw [hrps, ulOf_end lv t ts hke]
      · obtain ⟨s', rps, hr, hrps⟩ := ih s (i + 1) lv hall h0 hWts
        refine ⟨s', rps, by simpa using runFrom_cons_ok md004 c false s _ s' i t ts [] [] rps [] (next004_skip c false s i t hk hke) hr, ?_⟩
        rw [hrps, ulOf_skip lv t ts hk hke]

/-- `consistent`, before the first list -/
theorem runFrom004_pre (c : C004) (hc : c.style = .consistent) :
    ∀ (ts : List Tok) (s : St004) (i : Nat), s.actual = [] → s.level = 0 → balanced004 0 ts = true →
      (∀ t ∈ ts, wf004 t = true) →
      ∃ s' rps, runFrom md004 c false s i ts = .ok (s', rps, []) ∧
        rps.map rpos = (match ulOf 0 ts with | u :: rest => wrongBullet u.1 rest | [] => []).map tpos := by
  intro ts
  induction ts with
  | nil => intro s i _ _ _ _; exact ⟨s, [], rfl, rfl⟩
  | cons t ts ih =>
    intro s i ha hl hbal hW
    have hWts : ∀ u ∈ ts, wf004 u = true := fun u hu => hW u (List.mem_cons_of_mem _ hu)
    by_cases hk : t.kind = .ulist
    · obtain ⟨this, hs⟩ := wf004_seqType t hk (hW t List.mem_cons_self)
      have he : ensure004 c s t = .ok [(0, this)] := by
        unfold ensure004
        rw [ha, hl]
        simp [List.lookup, hc, hs]
      obtain ⟨rp, hn, hrp⟩ := next004_scan_ulist c s i t hk [(0, this)] this this he hs (by rw [hl]; exact lookup_cons_self _ _ _)
      have hns : c.style ≠ .sublist := by rw [hc]; simp
      obtain ⟨s', rps, hr, hrps⟩ := runFrom004_fixed c hns this ts { actual := [(0, this)], level := s.level + 1 } (i + 1) 1
        (by intro p hp; simp at hp; rw [hp]) (lookup_cons_self _ _ _) hWts
      refine ⟨s', rp ++ rps, runFrom_cons_ok md004 c false s _ s' i t ts rp [] rps [] hn hr, ?_⟩
      rw [List.map_append, hrp, hrps]
      rw [ulOf_ulist 0 t ts hk this hs]; simp
    · by_cases hke : t.kind = .ulistEnd
      · unfold balanced004 at hbal; rw [hke] at hbal; simp at hbal
      · have hbal' : balanced004 0 ts = true := by
          unfold balanced004 at hbal; split at hbal <;> simp_all
        obtain ⟨s', rps, hr, hrps⟩ := ih s (i + 1) ha hl hbal' hWts
        refine ⟨s', rps, by simpa using runFrom_cons_ok md004 c false s _ s' i t ts [] [] rps [] (next004_skip c false s i t hk hke) hr, ?_⟩
        rw [hrps, ulOf_skip 0 t ts hk hke]

/-- `sublist` -/
theorem runFrom004_sub (c : C004) (hc : c.style = .sublist) :
    ∀ (ts : List Tok) (s : St004) (i : Nat), (∀ t ∈ ts, wf004 t = true) →
      ∃ s' rps, runFrom md004 c false s i ts = .ok (s', rps, []) ∧
        rps.map rpos = (wrongSub s.actual (ulOf s.level ts)).map tpos := by
  intro ts
  induction ts with
  | nil => intro s i _; exact ⟨s, [], rfl, rfl⟩
  | cons t ts ih =>
    intro s i hW
    have hWts : ∀ u ∈ ts, wf004 u = true := fun u hu => hW u (List.mem_cons_of_mem _ hu)
    by_cases hk : t.kind = .ulist
    · obtain ⟨this, hs⟩ := wf004_seqType t hk (hW t List.mem_cons_self)
      cases hlk : s.actual.lookup s.level with
      | some w =>
        have he : ensure004 c s t = .ok s.actual := by unfold ensure004; rw [hlk]
        obtain ⟨rp, hn, hrp⟩ := next004_scan_ulist c s i t hk s.actual this w he hs hlk
        obtain ⟨s', rps, hr, hrps⟩ := ih { actual := s.actual, level := s.level + 1 } (i + 1) hWts
        refine ⟨s', rp ++ rps, runFrom_cons_ok md004 c false s _ s' i t ts rp [] rps [] hn hr, ?_⟩
        rw [List.map_append, hrp, hrps]
        rw [ulOf_ulist s.level t ts hk this hs]
        simp only [wrongSub]; rw [hlk]; simp only [List.map_append]
        by_cases hw : this = w <;> simp [hw]
      | none =>
        have he : ensure004 c s t = .ok ((s.level, this) :: s.actual) := by
          unfold ensure004; rw [hlk]; simp [hc, hs]
        obtain ⟨rp, hn, hrp⟩ := next004_scan_ulist c s i t hk _ this this he hs (lookup_cons_self _ _ _)
        obtain ⟨s', rps, hr, hrps⟩ := ih { actual := (s.level, this) :: s.actual, level := s.level + 1 } (i + 1) hWts
        refine ⟨s', rp ++ rps, runFrom_cons_ok md004 c false s _ s' i t ts rp [] rps [] hn hr, ?_⟩
        rw [List.map_append, hrp, hrps]
        rw [ulOf_ulist s.level t ts hk this hs]
        simp only [wrongSub]; rw [hlk]; simp
    · by_cases hke : t.kind = .ulistEnd
      · have hn : md004.next c false s i t = .ok ({ s with level := s.level - 1 }, [], []) := by
          show next004 c false s i t = _
          unfold next004; rw [hke]
        obtain ⟨s', rps, hr, hrps⟩ := ih { s with level := s.level - 1 } (i + 1) hWts
        refine ⟨s', rps, by simpa using runFrom_cons_ok md004 c false s _ s' i t ts [] [] rps [] hn hr, ?_⟩
        rw [hrps, ulOf_end s.level t ts hke]
      · obtain ⟨s', rps, hr, hrps⟩ := ih s (i + 1) hWts
        refine ⟨s', rps, by simpa using runFrom_cons_ok md004 c false s _ s' i t ts [] [] rps [] (next004_skip c false s i t hk hke) hr, ?_⟩
        rw [hrps, ulOf_skip s.level t ts hk hke]

/-- the well-formedness the tie checks on every real stream: bullets are `*`, `+`, `-`; no prefix of the stream has more
    unordered-list ends than starts. -/
def WF004 (toks : List Tok) : Prop := (∀ t ∈ toks, wf004 t = true) ∧ balanced004 0 toks = true

end Verif.Model.TokenRules
