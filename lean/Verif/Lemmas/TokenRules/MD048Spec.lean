import Verif.Lemmas.TokenRules.MD048
import Verif.Model.RuleSpec.Blocks
/-! `spec048` / `spec035` (documented condition over the token stream) = the reference conditions `RuleSpec.md048` / `RuleSpec.md035`
    (written from the rule pages over LeanMark's events), when both see the same fenced blocks / thematic breaks. -/
namespace Verif.Model.TokenRules

/-- the fenced-code-block starts of a stream -/
def fencesOf (toks : List Tok) : List Tok := toks.filter (fun t => decide (t.kind = .fence))

theorem spec048Go_filter : ∀ (toks : List Tok) (want : Option Fence), spec048Go want toks = spec048Go want (fencesOf toks) := by
  intro toks
  induction toks with
  | nil => intro _; rfl
  | cons t ts ih =>
    intro want
    by_cases hk : t.kind = .fence
    · have : fencesOf (t :: ts) = t :: fencesOf ts := by simp [fencesOf, hk]
      rw [this]
      simp only [spec048Go, hk]
      cases want with
      | none => exact ih _
      | some w => simp only; rw [ih]
    · have : fencesOf (t :: ts) = fencesOf ts := by simp [fencesOf, hk]
      rw [this, ← ih]
      simp only [spec048Go]

/-- on a list of fence starts, with the wanted style known -/
theorem spec048Go_fixed (w : Fence) : ∀ (fs : List Tok), (∀ t ∈ fs, t.kind = .fence) →
    spec048Go (some w) fs = fs.filter (fun t => decide (w ≠ fenceOf t)) := by
  intro fs
  induction fs with
  | nil => intro _; rfl
  | cons t ts ih =>
    intro h
    have hk := h t List.mem_cons_self
    simp only [spec048Go, hk]
    rw [ih (fun u hu => h u (List.mem_cons_of_mem _ hu)), List.filter_cons]
    by_cases hw : w ≠ fenceOf t <;> simp [hw]

theorem fence_char_inj (a b : Fence) : (a.char == b.char) = decide (a = b) := by
  cases a <;> cases b <;> decide

/-- the reference's `fixed want` over fences that correspond to the tokens -/
theorem fixed048_ref (w : Fence) : ∀ (fs : List Tok) (rs : List Verif.Model.RuleSpec.Fence),
    rs.map (fun f => (f.ch, f.b.line)) = fs.map (fun t => ((fenceOf t).char, t.line.toNat)) →
    (fs.filter (fun t => decide (w ≠ fenceOf t))).map (fun t => t.line.toNat) =
      (rs.flatMap (fun f => if f.ch == w.char then [] else [((f.b.line, none) : Nat × Option Nat)])).map (·.1) := by
  intro fs
  induction fs with
  | nil => intro rs h; cases rs with
    | nil => rfl
    | cons _ _ => simp at h
  | cons t ts ih =>
    intro rs h
    cases rs with
    | nil => simp at h
    | cons r rs =>
      simp only [List.map_cons, List.cons.injEq, Prod.mk.injEq] at h
      obtain ⟨⟨h1, h2⟩, h3⟩ := h
      rw [List.filter_cons, List.flatMap_cons, List.map_append, ← ih rs h3, h1, fence_char_inj]
      by_cases hw : w = fenceOf t
      · subst hw
        simp
      · have : ¬ fenceOf t = w := fun h => hw h.symm
        simp [hw, this, h2]

/-! ## thematic breaks -/
def breaksOf (toks : List Tok) : List Tok := toks.filter (fun t => decide (t.kind = .tbreak))

theorem spec035Go_filter : ∀ (toks : List Tok) (want : Str), spec035Go want toks = spec035Go want (breaksOf toks) := by
  intro toks
  induction toks with
  | nil => intro _; rfl
  | cons t ts ih =>
    intro want
    by_cases hk : t.kind = .tbreak
    · have : breaksOf (t :: ts) = t :: breaksOf ts := by simp [breaksOf, hk]
      rw [this]
      simp only [spec035Go, hk]
      cases want with
      | nil => exact ih _
      | cons a as => simp only; rw [ih]
    · have : breaksOf (t :: ts) = breaksOf ts := by simp [breaksOf, hk]
      rw [this, ← ih]
      simp only [spec035Go]

theorem spec035Go_fixed (a : Char) (as : Str) : ∀ (bs : List Tok), (∀ t ∈ bs, t.kind = .tbreak) →
    spec035Go (a :: as) bs = bs.filter (fun t => decide (a :: as ≠ t.rest)) := by
  intro bs
  induction bs with
  | nil => intro _; rfl
  | cons t ts ih =>
    intro h
    have hk := h t List.mem_cons_self
    simp only [spec035Go, hk]
    rw [ih (fun u hu => h u (List.mem_cons_of_mem _ hu)), List.filter_cons]
    by_cases hw : a :: as ≠ t.rest <;> simp [hw]

theorem fixed035_ref (ls : List Verif.Model.LeanMark.Line) (w : Str) : ∀ (bs : List Tok) (rs : List Verif.Model.RuleSpec.Block),
    rs.map (fun b => (Verif.Model.RuleSpec.hrText ls b, b.line)) = bs.map (fun t => (t.rest, t.line.toNat)) →
    (bs.filter (fun t => decide (w ≠ t.rest))).map (fun t => t.line.toNat) =
      (rs.flatMap (fun b => if Verif.Model.RuleSpec.hrText ls b == w then [] else [((b.line, none) : Nat × Option Nat)])).map (·.1) := by
  intro bs
  induction bs with
  | nil => intro rs h; cases rs with
    | nil => rfl
    | cons _ _ => simp at h
  | cons t ts ih =>
    intro rs h
    cases rs with
    | nil => simp at h
    | cons r rs =>
      simp only [List.map_cons, List.cons.injEq, Prod.mk.injEq] at h
      obtain ⟨⟨h1, h2⟩, h3⟩ := h
      rw [List.filter_cons, List.flatMap_cons, List.map_append, ← ih rs h3, h1]
      by_cases hw : w = t.rest
      · subst hw
        simp
      · have : ¬ t.rest = w := fun h => hw h.symm
        simp [hw, this, h2]

end Verif.Model.TokenRules
