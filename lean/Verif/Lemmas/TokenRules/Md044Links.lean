import Verif.Lemmas.TokenRules.Md044Reads
/-!
  MD044 — H1 and idempotence on streams WITH links, images (without `pre_link_title`), link reference definitions and end-link
  tokens whose searched fields are marker-free and `simpleS`: the step lemmas.
-/
namespace Verif.Model.TokenRules
open Verif.Model.Codec (removeAll plain)

/-! ## the value of every written component after `__apply_token_fix` -/
theorem mayWrite044_base_unique (k : Kind) (b b' : Field) (h : Field2.base b ∈ mayWrite044 k) (h' : Field2.base b' ∈ mayWrite044 k) :
    b = b' := by
  cases k <;> simp [mayWrite044] at h h' <;> rw [h, h']

theorem modify2_value (t : Tok2) (f : Field2) (s : Str) (hf : f ∈ mayWrite044 t.kind) (t' : Tok2) (h : modify2 t f (.str s) = some t') :
    (f = .linkTitle → t'.linkTitle = some s) ∧ (f = .preLinkTitle → t'.preLinkTitle = some s) ∧ (f = .linkName → t'.linkName = s) ∧
    (f = .linkTitleRaw → t'.titleRaw = s) ∧ (∀ b, f = .base b → t'.text = s) := by
  cases hk : t.kind <;> rw [hk] at hf <;> simp only [mayWrite044, List.mem_cons, List.not_mem_nil, or_false] at hf
  all_goals
    (rcases hf with rfl | rfl | rfl | rfl) <;>
      (simp only [modify2, modify, hk, Option.map_some, Option.some.injEq] at h; subst h; simp)

/-- after a chain of accepted requests with pairwise different fields every requested component has the requested value -/
theorem modAll2_values : ∀ (g : List (Field2 × Val)) (t t' : Tok2), (∀ p ∈ g, p.1 ∈ mayWrite044 t.kind ∧ ∃ v, p.2 = .str v) →
    (g.map (·.1)).Nodup → modAll2 t g = .ok t' →
    (∀ v, (Field2.linkTitle, Val.str v) ∈ g → t'.linkTitle = some v) ∧ (∀ v, (Field2.preLinkTitle, Val.str v) ∈ g → t'.preLinkTitle = some v) ∧
    (∀ v, (Field2.linkName, Val.str v) ∈ g → t'.linkName = v) ∧ (∀ v, (Field2.linkTitleRaw, Val.str v) ∈ g → t'.titleRaw = v) ∧
    (∀ b v, (Field2.base b, Val.str v) ∈ g → t'.text = v) := by
  intro g
  induction g with
  | nil => intro t t' _ _ _; refine ⟨?_, ?_, ?_, ?_, ?_⟩ <;> intros <;> rename_i h <;> cases h
  | cons p g ih =>
    intro t t' h hnd hm
    obtain ⟨f, v⟩ := p
    obtain ⟨hf, s, hv⟩ := h (f, v) List.mem_cons_self
    simp only at hf hv
    subst hv
    simp only [List.map_cons, List.nodup_cons] at hnd
    obtain ⟨t1, hm1, _⟩ := modify2_mayWrite t f s hf
    have hk : t1.kind = t.kind := (modify2_kind_idx044 t t1 f (.str s) hm1).2
    simp only [modAll2, hm1] at hm
    have hrest : ∀ p ∈ g, p.1 ∈ mayWrite044 t1.kind ∧ ∃ v, p.2 = .str v := fun p hp => by rw [hk]; exact h p (List.mem_cons_of_mem _ hp)
    obtain ⟨a1, a2, a3, a4, a5⟩ := ih t1 t' hrest hnd.2 hm
    obtain ⟨t'', hm'', _, g1, g2, g3, g4, g5⟩ := modAll2_mayWrite g t1 hrest
    rw [hm] at hm''
    cases hm''
    obtain ⟨v1, v2, v3, v4, v5⟩ := modify2_value t f s hf t1 hm1
    refine ⟨?_, ?_, ?_, ?_, ?_⟩
    · intro v hv
      rcases List.mem_cons.mp hv with hv | hv
      · simp only [Prod.mk.injEq, Val.str.injEq] at hv
        obtain ⟨rfl, rfl⟩ := hv
        rw [g1 hnd.1, v1 rfl]
      · exact a1 v hv
    · intro v hv
      rcases List.mem_cons.mp hv with hv | hv
      · simp only [Prod.mk.injEq, Val.str.injEq] at hv
        obtain ⟨rfl, rfl⟩ := hv
        rw [g2 hnd.1, v2 rfl]
      · exact a2 v hv
    · intro v hv
      rcases List.mem_cons.mp hv with hv | hv
      · simp only [Prod.mk.injEq, Val.str.injEq] at hv
        obtain ⟨rfl, rfl⟩ := hv
        rw [g3 hnd.1, v3 rfl]
      · exact a3 v hv
    · intro v hv
      rcases List.mem_cons.mp hv with hv | hv
      · simp only [Prod.mk.injEq, Val.str.injEq] at hv
        obtain ⟨rfl, rfl⟩ := hv
        rw [g4 hnd.1, v4 rfl]
      · exact a4 v hv
    · intro b v hv
      rcases List.mem_cons.mp hv with hv | hv
      · simp only [Prod.mk.injEq, Val.str.injEq] at hv
        obtain ⟨rfl, rfl⟩ := hv
        have hnb : ∀ f' ∈ g.map (·.1), ∀ b', f' ≠ Field2.base b' := by
          intro f' hf' b' hb'
          subst hb'
          obtain ⟨q, hq, hq'⟩ := List.mem_map.mp hf'
          have hmem : Field2.base b' ∈ mayWrite044 t.kind := by
            have := (hrest q hq).1
            rw [hq', hk] at this
            exact this
          have := mayWrite044_base_unique t.kind b b' hf hmem
          subst this
          exact hnd.1 hf'
        rw [g5 hnb, v5 b rfl]
      · exact a5 b v hv

/-! ## the fix of a searched field, with arbitrary offsets -/
def fixStrG (names : List Str) (sl sx sy : Int) (s : Str) : Str :=
  match searchNames044 s (lowerS s) sl sx sy names with
  | .ok items => applyHits s items
  | .error _ => s

theorem fixStr044_eq (names : List Str) (sl : Int) (s : Str) : fixStr044 names sl s = fixStrG names sl 0 0 s := rfl

/-- marker-free and without length-changing lower case -/
def good044 (s : Str) : Bool := simpleS s && plain s

theorem good044_iff {s : Str} (h : good044 s = true) : simpleS s = true ∧ plain s = true := by
  unfold good044 at h; simpa using h

theorem fixStrG_spec (names : List Str) (hn : NamesOk names) (sl sx sy : Int) (hsl : sl ≤ 0) (s : Str) (hs : simpleS s = true) :
    ∃ items, searchNames044 s (lowerS s) sl sx sy names = .ok items ∧ fixStrG names sl sx sy s = applyHits s items ∧
      (fixStrG names sl sx sy s).length = s.length := by
  obtain ⟨items, hi⟩ := searchNames044_total s sl sx sy hsl hs names (fun n h => ⟨hn.simple n h, hn.nonempty n h⟩)
  have hg := searchNames044_good s (lowerS s) sl sx sy names names items (fun _ h => h) hi
  have he : fixStrG names sl sx sy s = applyHits s items := by unfold fixStrG; rw [hi]
  refine ⟨items, hi, he, ?_⟩
  rw [he]
  exact (applyHits_inv s items s (fun h hh => (hg h hh).inText hs hn.simple) rfl rfl).1

theorem fixStrG_good (names : List Str) (hn : NamesOk names) (sl sx sy : Int) (s : Str) (hg : good044 s = true) :
    good044 (fixStrG names sl sx sy s) = true := by
  obtain ⟨h1, h2⟩ := good044_iff hg
  unfold fixStrG
  split
  · rename_i items hi
    have hgd := searchNames044_good s (lowerS s) sl sx sy names names items (fun _ h => h) hi
    have e1 : simpleS (applyHits s items) = true := applyHits_all _ items s h1 (fun h hh => hn.simple _ (hgd h hh).mem)
    have e2 : plain (applyHits s items) = true := applyHits_all _ items s h2 (fun h hh => hn.plain _ (hgd h hh).mem)
    unfold good044
    rw [e1, e2]
    rfl
  · exact hg

theorem search044_plain (names : List Str) (s : Str) (hp : plain s = true) (keep : Bool) (sl sx sy : Int) :
    search044 names keep s sl sx sy = searchNames044 s (lowerS s) sl sx sy names := by
  unfold search044
  cases keep
  · simp only [Bool.false_eq_true, ↓reduceIte, removeAll_plain044 s hp]
  · rfl

/-- searching the fixed field (any mode, any offsets) finds nothing -/
theorem search044_fixStrG (names : List Str) (hn : NamesOk names) (hc : compatAll044 names = true) (sl sx sy sl' sx' sy' : Int)
    (hsl : sl ≤ 0) (hsl' : sl' ≤ 0) (s : Str) (hg : good044 s = true) (keep : Bool) :
    search044 names keep (fixStrG names sl sx sy s) sl' sx' sy' = .ok [] := by
  obtain ⟨h1, h2⟩ := good044_iff hg
  obtain ⟨items, hi, he, _⟩ := fixStrG_spec names hn sl sx sy hsl s h1
  rw [search044_plain names _ (good044_iff (fixStrG_good names hn sl sx sy s hg)).2, he]
  exact searchNames044_fixed s names items sl sx sy sl' sx' sy' hsl' h1 hn.simple hc hi

theorem adjSearch044_fixStrG (names : List Str) (hn : NamesOk names) (hc : compatAll044 names = true) (sl sx sy sl' : Int)
    (hsl : sl ≤ 0) (hsl' : sl' ≤ 0) (s body full : Str) (hg : good044 s = true) :
    adjSearch044 names body full (fixStrG names sl sx sy s) sl' = .ok [] := by
  unfold adjSearch044
  split
  exact search044_fixStrG names hn hc sl sx sy sl' _ _ hsl hsl' s hg false

theorem fixStrG_nil (names : List Str) (sl sx sy : Int) (s : Str)
    (h : searchNames044 s (lowerS s) sl sx sy names = .ok []) : fixStrG names sl sx sy s = s := by
  unfold fixStrG; rw [h]; rfl

theorem filter_tag_same (p : Part044) (hs : List Hit044) :
    (hs.map (fun h => (p, h))).filter (fun h => decide (h.1 = p)) = hs.map (fun h => (p, h)) := by
  rw [List.filter_eq_self]
  intro a ha
  obtain ⟨h, _, rfl⟩ := List.mem_map.mp ha
  simp

theorem filter_tag_other (p q : Part044) (hpq : p ≠ q) (hs : List Hit044) :
    (hs.map (fun h => (p, h))).filter (fun h => decide (h.1 = q)) = [] := by
  rw [List.filter_eq_nil_iff]
  intro a ha
  obtain ⟨h, _, rfl⟩ := List.mem_map.mp ha
  simp [hpq]

/-- `__apply_matching_replacement` on a field whose hits are `hs0`: no request (nothing changes) or one request with the fixed field -/
theorem matching_cases (i : Nat) (s : Str) (items : List PHit044) (p : Part044) (f : Field2) (hs0 : List Hit044)
    (hfil : items.filter (fun h => decide (h.1 = p)) = hs0.map (fun h => (p, h))) :
    (applyMatching044 i (some s) items p f = .ok [] ∧ applyHits s hs0 = s) ∨
    (applyMatching044 i (some s) items p f = .ok [⟨i, f, .str (applyHits s hs0)⟩]) := by
  unfold applyMatching044
  simp only
  rw [hfil, applyAll044_eq, map_snd_tag]
  by_cases h : applyHits s hs0 = s
  · left; rw [if_pos h]; exact ⟨rfl, h⟩
  · right; rw [if_neg h]

/-! ## the token after `__apply_token_fix`, component by component -/
theorem applyGroup2_values (i : Nat) (t : Tok2) (items : List PHit044) (rs : List FixReq2) (t' : Tok2)
    (hr : applyItems044 i t items = .ok rs) (ha : applyGroup2 t (reqPairs044 rs) = .ok t') :
    t' = written044 t t' ∧
    (∀ v, (⟨i, .linkTitle, .str v⟩ : FixReq2) ∈ rs → t'.linkTitle = some v) ∧ ((∀ q ∈ rs, q.field ≠ .linkTitle) → t'.linkTitle = t.linkTitle) ∧
    (∀ v, (⟨i, .preLinkTitle, .str v⟩ : FixReq2) ∈ rs → t'.preLinkTitle = some v) ∧ ((∀ q ∈ rs, q.field ≠ .preLinkTitle) → t'.preLinkTitle = t.preLinkTitle) ∧
    (∀ v, (⟨i, .linkName, .str v⟩ : FixReq2) ∈ rs → t'.linkName = v) ∧ ((∀ q ∈ rs, q.field ≠ .linkName) → t'.linkName = t.linkName) ∧
    (∀ v, (⟨i, .linkTitleRaw, .str v⟩ : FixReq2) ∈ rs → t'.titleRaw = v) ∧ ((∀ q ∈ rs, q.field ≠ .linkTitleRaw) → t'.titleRaw = t.titleRaw) ∧
    (∀ b v, (⟨i, .base b, .str v⟩ : FixReq2) ∈ rs → t'.text = v) ∧ ((∀ q ∈ rs, ∀ b, q.field ≠ .base b) → t'.text = t.text) := by
  obtain ⟨hsub, hstr⟩ := applyItems044_fields i t items rs hr
  have hmap : (reqPairs044 rs).map (·.1) = rs.map (·.field) := by simp [reqPairs044, List.map_map, Function.comp_def]
  have hnd : ((reqPairs044 rs).map (·.1)).Nodup := by rw [hmap]; exact hsub.nodup (mayWrite044_nodup _)
  have hacc : ∀ p ∈ reqPairs044 rs, p.1 ∈ mayWrite044 t.kind ∧ ∃ v, p.2 = .str v := by
    intro p hp
    simp only [reqPairs044, List.mem_map] at hp
    obtain ⟨q, hq, rfl⟩ := hp
    exact ⟨hsub.subset (List.mem_map.mpr ⟨q, hq, rfl⟩), hstr q hq⟩
  have hm : modAll2 t (reqPairs044 rs) = .ok t' := by
    unfold applyGroup2 at ha
    rw [hasDup2_false_of_nodup _ hnd] at ha
    simpa using ha
  obtain ⟨a1, a2, a3, a4, a5⟩ := modAll2_values (reqPairs044 rs) t t' hacc hnd hm
  obtain ⟨t'', hm'', ho, g1, g2, g3, g4, g5⟩ := modAll2_mayWrite (reqPairs044 rs) t hacc
  rw [hm] at hm''
  cases hm''
  have hidx := (applyGroup2_kind_idx044 t t' _ ha).1
  have hpair : ∀ (f : Field2) (v : Str), (⟨i, f, .str v⟩ : FixReq2) ∈ rs → (f, Val.str v) ∈ reqPairs044 rs := by
    intro f v h
    exact List.mem_map.mpr ⟨_, h, rfl⟩
  have hno : ∀ f : Field2, (∀ q ∈ rs, q.field ≠ f) → f ∉ (reqPairs044 rs).map (·.1) := by
    intro f h hc
    rw [hmap] at hc
    obtain ⟨q, hq, hq'⟩ := List.mem_map.mp hc
    exact h q hq hq'
  refine ⟨eq_of_others044 t t' ho hidx, fun v h => a1 v (hpair _ v h), fun h => g1 (hno _ h), fun v h => a2 v (hpair _ v h),
    fun h => g2 (hno _ h), fun v h => a3 v (hpair _ v h), fun h => g3 (hno _ h), fun v h => a4 v (hpair _ v h), fun h => g4 (hno _ h),
    fun b v h => a5 b v (hpair _ v h), ?_⟩
  intro h
  apply g5
  intro f hf b hb
  rw [hmap] at hf
  obtain ⟨q, hq, hq'⟩ := List.mem_map.mp hf
  exact h q hq b (hq'.trans hb)

theorem mem_single_req {i : Nat} {f : Field2} {v : Val} {q : FixReq2} (h : q ∈ [(⟨i, f, v⟩ : FixReq2)]) : q.field = f := by
  simp only [List.mem_singleton] at h; rw [h]

/-- the fields of the requests of one `__apply_matching_replacement` -/
theorem matching_field (i : Nat) (s : Option Str) (items : List PHit044) (p : Part044) (f : Field2) (rs : List FixReq2)
    (h : applyMatching044 i s items p f = .ok rs) : ∀ q ∈ rs, q.field = f := by
  unfold applyMatching044 at h
  split at h
  · cases h
  · split at h
    · cases h; intro q hq; cases hq
    · cases h; intro q hq; exact mem_single_req hq

/-! ## one field of one token through a fix step -/
/-- the result of `__apply_matching_replacement` for one field: nothing (the field stays) or one request with the new value -/
def PartOk (i : Nat) (part : List FixReq2) (f : Field2) (old new : Str) : Prop :=
  (part = [] ∧ new = old) ∨ part = [⟨i, f, .str new⟩]

theorem written044_ext (t a b : Tok2) (h1 : a.text = b.text) (h2 : a.linkTitle = b.linkTitle) (h3 : a.preLinkTitle = b.preLinkTitle)
    (h4 : a.linkName = b.linkName) (h5 : a.titleRaw = b.titleRaw) (h6 : a.startIdx = b.startIdx) : written044 t a = written044 t b := by
  unfold written044; rw [h1, h2, h3, h4, h5, h6]

section comps
variable {i : Nat} {t t' : Tok2} {rs part : List FixReq2} {old new : Str}

theorem comp_linkTitle
    (hv : ∀ v, (⟨i, .linkTitle, .str v⟩ : FixReq2) ∈ rs → t'.linkTitle = some v) (hn : (∀ q ∈ rs, q.field ≠ .linkTitle) → t'.linkTitle = t.linkTitle)
    (hsub : ∀ q ∈ part, q ∈ rs) (hoth : ∀ q ∈ rs, q.field = .linkTitle → q ∈ part) (hp : PartOk i part .linkTitle old new)
    (hold : t.linkTitle = some old) : t'.linkTitle = some new := by
  rcases hp with ⟨rfl, rfl⟩ | rfl
  · rw [hn (fun q hq hf => by cases hoth q hq hf), hold]
  · exact hv new (hsub _ (by simp))

theorem comp_preLinkTitle
    (hv : ∀ v, (⟨i, .preLinkTitle, .str v⟩ : FixReq2) ∈ rs → t'.preLinkTitle = some v)
    (hn : (∀ q ∈ rs, q.field ≠ .preLinkTitle) → t'.preLinkTitle = t.preLinkTitle)
    (hsub : ∀ q ∈ part, q ∈ rs) (hoth : ∀ q ∈ rs, q.field = .preLinkTitle → q ∈ part) (hp : PartOk i part .preLinkTitle old new)
    (hold : t.preLinkTitle = some old) : t'.preLinkTitle = some new := by
  rcases hp with ⟨rfl, rfl⟩ | rfl
  · rw [hn (fun q hq hf => by cases hoth q hq hf), hold]
  · exact hv new (hsub _ (by simp))

theorem comp_linkName
    (hv : ∀ v, (⟨i, .linkName, .str v⟩ : FixReq2) ∈ rs → t'.linkName = v) (hn : (∀ q ∈ rs, q.field ≠ .linkName) → t'.linkName = t.linkName)
    (hsub : ∀ q ∈ part, q ∈ rs) (hoth : ∀ q ∈ rs, q.field = .linkName → q ∈ part) (hp : PartOk i part .linkName old new)
    (hold : t.linkName = old) : t'.linkName = new := by
  rcases hp with ⟨rfl, rfl⟩ | rfl
  · rw [hn (fun q hq hf => by cases hoth q hq hf), hold]
  · exact hv new (hsub _ (by simp))

theorem comp_titleRaw
    (hv : ∀ v, (⟨i, .linkTitleRaw, .str v⟩ : FixReq2) ∈ rs → t'.titleRaw = v) (hn : (∀ q ∈ rs, q.field ≠ .linkTitleRaw) → t'.titleRaw = t.titleRaw)
    (hsub : ∀ q ∈ part, q ∈ rs) (hoth : ∀ q ∈ rs, q.field = .linkTitleRaw → q ∈ part) (hp : PartOk i part .linkTitleRaw old new)
    (hold : t.titleRaw = old) : t'.titleRaw = new := by
  rcases hp with ⟨rfl, rfl⟩ | rfl
  · rw [hn (fun q hq hf => by cases hoth q hq hf), hold]
  · exact hv new (hsub _ (by simp))

theorem comp_text {b : Field}
    (hv : ∀ b v, (⟨i, .base b, .str v⟩ : FixReq2) ∈ rs → t'.text = v) (hn : (∀ q ∈ rs, ∀ b, q.field ≠ .base b) → t'.text = t.text)
    (hsub : ∀ q ∈ part, q ∈ rs) (hoth : ∀ q ∈ rs, ∀ b', q.field = .base b' → q ∈ part) (hp : PartOk i part (.base b) old new)
    (hold : t.text = old) : t'.text = new := by
  rcases hp with ⟨rfl, rfl⟩ | rfl
  · rw [hn (fun q hq b' hf => by cases hoth q hq b' hf), hold]
  · exact hv b new (hsub _ (by simp))

end comps

/-- `matching_cases` as a `PartOk` -/
theorem matching_part (i : Nat) (s : Str) (items : List PHit044) (p : Part044) (f : Field2) (hs0 : List Hit044)
    (hfil : items.filter (fun h => decide (h.1 = p)) = hs0.map (fun h => (p, h))) :
    ∃ part, applyMatching044 i (some s) items p f = .ok part ∧ PartOk i part f s (applyHits s hs0) := by
  rcases matching_cases i s items p f hs0 hfil with ⟨h1, h2⟩ | h1
  · exact ⟨[], h1, Or.inl ⟨rfl, h2⟩⟩
  · exact ⟨_, h1, Or.inr rfl⟩

theorem partOk_field {i : Nat} {part : List FixReq2} {f : Field2} {old new : Str} (h : PartOk i part f old new) :
    ∀ q ∈ part, q.field = f := by
  rcases h with ⟨rfl, _⟩ | rfl
  · intro q hq; cases hq
  · intro q hq; exact mem_single_req hq

/-! ## link tokens -/
/-- domain of a link / image token: the optional strings are there, label text, title and pre-title are `good044` -/
def okRef044 (t : Tok2) : Bool :=
  match t.linkTitle, t.preLinkTitle with
  | some lt, some pt => good044 t.text && good044 lt && good044 pt && inlineOk044 t
  | _, _ => false

/-- `label_type == inline and pre_link_title` -/
def preCond044 (t : Tok2) : Bool := decide (t.labelType = inlineLbl) && truthy044 t.preLinkTitle

def fixedLink044 (names : List Str) (t : Tok2) : Tok2 :=
  { t with toTok := { t.toTok with text := fixStrG names 0 0 0 t.text },
           linkTitle := t.linkTitle.map (fixStrG names 0 0 0),
           preLinkTitle := if preCond044 t then t.preLinkTitle.map (fixStrG names 0 0 0) else t.preLinkTitle }

theorem fixStrG_names_nil (sl sx sy : Int) (s : Str) : fixStrG [] sl sx sy s = s := rfl

theorem fixedLink044_nil (t : Tok2) : fixedLink044 [] t = t := by
  unfold fixedLink044
  have : (fixStrG [] 0 0 0) = id := by funext s; rfl
  rw [this]
  simp only [id_eq, Option.map_id_fun, ite_self]

theorem okRef044_iff {t : Tok2} (h : okRef044 t = true) :
    ∃ lt pt, t.linkTitle = some lt ∧ t.preLinkTitle = some pt ∧ good044 t.text = true ∧ good044 lt = true ∧ good044 pt = true ∧
      inlineOk044 t = true := by
  unfold okRef044 at h
  split at h
  · rename_i lt pt h1 h2
    simp only [Bool.and_eq_true] at h
    exact ⟨lt, pt, h1, h2, h.1.1.1, h.1.1.2, h.1.2, h.2⟩
  · cases h

theorem fix_step_link (c : C044) (hn : NamesOk c.names) (all : List Tok2) (s : St044) (i : Nat) (t : Tok2) (hk : t.kind = .link)
    (hW : okRef044 t = true) :
    ∃ o, next044 c true all s i t = .ok (stateNext044 c s t, o) ∧ applyGroup2 t (reqPairs044 o.reqs) = .ok (fixedLink044 c.names t) := by
  obtain ⟨lt, pt, hlt, hpt, g1, g2, g3, _⟩ := okRef044_iff hW
  unfold next044 stateNext044
  by_cases hne : c.names.isEmpty = true
  · rw [if_pos hne, if_pos hne]
    have : c.names = [] := by simpa using hne
    rw [this, fixedLink044_nil]
    exact ⟨{}, rfl, applyGroup2_nil044 t⟩
  · rw [if_neg hne, if_neg hne]
    obtain ⟨i1, hi1, he1, _⟩ := fixStrG_spec c.names hn 0 0 0 (Int.le_refl _) lt (good044_iff g2).1
    obtain ⟨i2, hi2, he2, _⟩ := fixStrG_spec c.names hn 0 0 0 (Int.le_refl _) t.text (good044_iff g1).1
    obtain ⟨i3, hi3, he3, _⟩ := fixStrG_spec c.names hn 0 0 0 (Int.le_refl _) pt (good044_iff g3).1
    -- the third search runs only for an inline link with a pre-title
    have hthird : ∃ i3', (if t.labelType = inlineLbl ∧ truthy044 t.preLinkTitle = true then
          tag044 .preLinkTitle (search044 c.names false (t.preLinkTitle.getD []) 0 0 0) else .ok [])
          = .ok (i3'.map (fun h => (Part044.preLinkTitle, h))) ∧
        (if preCond044 t then fixStrG c.names 0 0 0 pt else pt) = applyHits pt i3' := by
      unfold preCond044
      by_cases hc : t.labelType = inlineLbl ∧ truthy044 t.preLinkTitle = true
      · refine ⟨i3, ?_, ?_⟩
        · rw [if_pos hc, hpt]
          simp only [Option.getD_some]
          rw [search044_plain c.names pt (good044_iff g3).2, hi3]; rfl
        · simp only [hc.1, hc.2, decide_true, Bool.and_self, ↓reduceIte]; exact he3
      · refine ⟨[], ?_, ?_⟩
        · rw [if_neg hc]; rfl
        · have : (decide (t.labelType = inlineLbl) && truthy044 t.preLinkTitle) = false := by
            rw [Bool.eq_false_iff]; intro h; simp only [Bool.and_eq_true, decide_eq_true_eq] at h; exact hc h
          rw [this]; rfl
    obtain ⟨i3', h3a, h3b⟩ := hthird
    have hhits : hits044 c true all s t = .ok (i1.map (fun h => (Part044.linkTitle, h)) ++
        (i2.map (fun h => (Part044.textFromBlocks, h)) ++ i3'.map (fun h => (Part044.preLinkTitle, h)))) := by
      unfold hits044
      rw [hk]
      simp only [↓reduceIte, hlt]
      rw [search044_plain c.names lt (good044_iff g2).2, hi1, search044_plain c.names t.text (good044_iff g1).2, hi2, h3a]
      rfl
    rw [hhits]
    simp only [↓reduceIte]
    -- the fixed token in terms of the hits
    have hfixed : fixedLink044 c.names t = written044 t (fixedLink044 c.names t) := rfl
    by_cases hemp : (i1.map (fun h => (Part044.linkTitle, h)) ++
        (i2.map (fun h => (Part044.textFromBlocks, h)) ++ i3'.map (fun h => (Part044.preLinkTitle, h)))).isEmpty = true
    · rw [if_pos hemp]
      refine ⟨{}, rfl, ?_⟩
      simp only [List.isEmpty_iff, List.append_eq_nil_iff, List.map_eq_nil_iff] at hemp
      obtain ⟨rfl, rfl, rfl⟩ := hemp
      simp only [reqPairs044, List.map_nil, applyGroup2_nil044, Except.ok.injEq]
      show written044 t t = written044 t (fixedLink044 c.names t)
      apply written044_ext
      · show t.text = fixStrG c.names 0 0 0 t.text
        rw [he2]; rfl
      · show t.linkTitle = t.linkTitle.map (fixStrG c.names 0 0 0)
        rw [hlt]; simp only [Option.map_some]; rw [he1]; rfl
      · show t.preLinkTitle = (if preCond044 t then t.preLinkTitle.map (fixStrG c.names 0 0 0) else t.preLinkTitle)
        rw [hpt]
        have : (if preCond044 t = true then Option.map (fixStrG c.names 0 0 0) (some pt) else some pt)
            = some (if preCond044 t then fixStrG c.names 0 0 0 pt else pt) := by split <;> rfl
        rw [this, h3b]; rfl
      · rfl
      · rfl
      · rfl
    · rw [if_neg hemp]
      -- `__apply_replacement_items`
      have f1 : (i1.map (fun h => (Part044.linkTitle, h)) ++ (i2.map (fun h => (Part044.textFromBlocks, h)) ++
          i3'.map (fun h => (Part044.preLinkTitle, h)))).filter (fun h => decide (h.1 = Part044.linkTitle)) = i1.map (fun h => (Part044.linkTitle, h)) := by
        simp only [List.filter_append, filter_tag_same, filter_tag_other _ _ (by decide : Part044.textFromBlocks ≠ Part044.linkTitle),
          filter_tag_other _ _ (by decide : Part044.preLinkTitle ≠ Part044.linkTitle), List.append_nil]
      have f2 : (i1.map (fun h => (Part044.linkTitle, h)) ++ (i2.map (fun h => (Part044.textFromBlocks, h)) ++
          i3'.map (fun h => (Part044.preLinkTitle, h)))).filter (fun h => decide (h.1 = Part044.preLinkTitle)) = i3'.map (fun h => (Part044.preLinkTitle, h)) := by
        simp only [List.filter_append, filter_tag_same, filter_tag_other _ _ (by decide : Part044.textFromBlocks ≠ Part044.preLinkTitle),
          filter_tag_other _ _ (by decide : Part044.linkTitle ≠ Part044.preLinkTitle), List.nil_append]
      have f3 : (i1.map (fun h => (Part044.linkTitle, h)) ++ (i2.map (fun h => (Part044.textFromBlocks, h)) ++
          i3'.map (fun h => (Part044.preLinkTitle, h)))).filter (fun h => decide (h.1 = Part044.textFromBlocks)) = i2.map (fun h => (Part044.textFromBlocks, h)) := by
        simp only [List.filter_append, filter_tag_same, filter_tag_other _ _ (by decide : Part044.linkTitle ≠ Part044.textFromBlocks),
          filter_tag_other _ _ (by decide : Part044.preLinkTitle ≠ Part044.textFromBlocks), List.nil_append, List.append_nil]
      obtain ⟨a, ha, pa⟩ := matching_part i lt _ .linkTitle .linkTitle i1 f1
      obtain ⟨b, hb, pb⟩ := matching_part i pt _ .preLinkTitle .preLinkTitle i3' f2
      obtain ⟨d, hd, pd⟩ := matching_part i t.text _ .textFromBlocks (.base .textFromBlocks) i2 f3
      have hitems : applyItems044 i t (i1.map (fun h => (Part044.linkTitle, h)) ++ (i2.map (fun h => (Part044.textFromBlocks, h)) ++
          i3'.map (fun h => (Part044.preLinkTitle, h)))) = .ok (a ++ (b ++ d)) := by
        unfold applyItems044
        rw [hk]
        simp only [hlt, hpt, ha, hb, hd, seqReq]
      rw [hitems]
      simp only
      obtain ⟨t', ht', _⟩ := applyGroup2_step i t _ _ hitems
      refine ⟨_, rfl, ?_⟩
      rw [ht']
      congr 1
      obtain ⟨hw, v1, n1, v2, n2, _, n3, _, n4, v5, n5⟩ := applyGroup2_values i t _ _ t' hitems ht'
      have fa := partOk_field pa
      have fb := partOk_field pb
      have fd := partOk_field pd
      rw [hw]
      show written044 t t' = written044 t (fixedLink044 c.names t)
      apply written044_ext
      · show t'.text = fixStrG c.names 0 0 0 t.text
        rw [he2]
        refine comp_text v5 n5 (part := d) (by intro q hq; simp [hq]) ?_ pd rfl
        intro q hq b' hf
        simp only [List.mem_append] at hq
        rcases hq with hq | hq | hq
        · rw [fa q hq] at hf; cases hf
        · rw [fb q hq] at hf; cases hf
        · exact hq
      · show t'.linkTitle = t.linkTitle.map (fixStrG c.names 0 0 0)
        rw [hlt]; simp only [Option.map_some]; rw [he1]
        refine comp_linkTitle v1 n1 (part := a) (by intro q hq; simp [hq]) ?_ pa hlt
        intro q hq hf
        simp only [List.mem_append] at hq
        rcases hq with hq | hq | hq
        · exact hq
        · rw [fb q hq] at hf; cases hf
        · rw [fd q hq] at hf; cases hf
      · show t'.preLinkTitle = (if preCond044 t then t.preLinkTitle.map (fixStrG c.names 0 0 0) else t.preLinkTitle)
        rw [hpt]
        have : (if preCond044 t = true then Option.map (fixStrG c.names 0 0 0) (some pt) else some pt)
            = some (if preCond044 t then fixStrG c.names 0 0 0 pt else pt) := by split <;> rfl
        rw [this, h3b]
        refine comp_preLinkTitle v2 n2 (part := b) (by intro q hq; simp [hq]) ?_ pb hpt
        intro q hq hf
        simp only [List.mem_append] at hq
        rcases hq with hq | hq | hq
        · rw [fa q hq] at hf; cases hf
        · exact hq
        · rw [fd q hq] at hf; cases hf
      · show t'.linkName = t.linkName
        apply n3
        intro q hq hf
        simp only [List.mem_append] at hq
        rcases hq with hq | hq | hq
        · rw [fa q hq] at hf; cases hf
        · rw [fb q hq] at hf; cases hf
        · rw [fd q hq] at hf; cases hf
      · show t'.titleRaw = t.titleRaw
        apply n4
        intro q hq hf
        simp only [List.mem_append] at hq
        rcases hq with hq | hq | hq
        · rw [fa q hq] at hf; cases hf
        · rw [fb q hq] at hf; cases hf
        · rw [fd q hq] at hf; cases hf
      · exact (applyGroup2_kind_idx044 t t' _ ht').1

/-! ## image tokens -/
def fixedImage044 (names : List Str) (t : Tok2) : Tok2 :=
  { t with toTok := { t.toTok with text := fixStrG names 0 0 0 t.text }, linkTitle := t.linkTitle.map (fixStrG names 0 0 0) }

theorem fixedImage044_nil (t : Tok2) : fixedImage044 [] t = t := by
  unfold fixedImage044
  have : (fixStrG [] 0 0 0) = id := by funext s; rfl
  rw [this]
  simp only [id_eq, Option.map_id_fun]

theorem fix_step_image (c : C044) (hn : NamesOk c.names) (all : List Tok2) (s : St044) (i : Nat) (t : Tok2) (hk : t.kind = .image)
    (hW : okRef044 t = true) :
    ∃ o, next044 c true all s i t = .ok (stateNext044 c s t, o) ∧ applyGroup2 t (reqPairs044 o.reqs) = .ok (fixedImage044 c.names t) := by
  obtain ⟨lt, pt, hlt, hpt, g1, g2, _, _⟩ := okRef044_iff hW
  unfold next044 stateNext044
  by_cases hne : c.names.isEmpty = true
  · rw [if_pos hne, if_pos hne]
    have : c.names = [] := by simpa using hne
    rw [this, fixedImage044_nil]
    exact ⟨{}, rfl, applyGroup2_nil044 t⟩
  · rw [if_neg hne, if_neg hne]
    obtain ⟨i0, hi0, _, _⟩ := fixStrG_spec c.names hn (-2) 0 0 (by omega) t.text (good044_iff g1).1
    obtain ⟨i1, hi1, he1, _⟩ := fixStrG_spec c.names hn 0 0 0 (Int.le_refl _) lt (good044_iff g2).1
    obtain ⟨i2, hi2, he2, _⟩ := fixStrG_spec c.names hn 0 0 0 (Int.le_refl _) t.text (good044_iff g1).1
    have hhits : hits044 c true all s t = .ok (i0.map (fun h => (Part044.none, h)) ++
        (i1.map (fun h => (Part044.linkTitle, h)) ++ i2.map (fun h => (Part044.textFromBlocks, h)))) := by
      unfold hits044
      rw [hk]
      simp only [↓reduceIte, hlt]
      rw [search044_plain c.names lt (good044_iff g2).2 false 0 0 0, hi1, search044_plain c.names t.text (good044_iff g1).2 false 0 0 0, hi2,
        search044_plain c.names t.text (good044_iff g1).2 false (-2) 0 0, hi0]
      rfl
    rw [hhits]
    simp only [↓reduceIte]
    have f1 : (i0.map (fun h => (Part044.none, h)) ++ (i1.map (fun h => (Part044.linkTitle, h)) ++
        i2.map (fun h => (Part044.textFromBlocks, h)))).filter (fun h => decide (h.1 = Part044.linkTitle)) = i1.map (fun h => (Part044.linkTitle, h)) := by
      simp only [List.filter_append, filter_tag_same, filter_tag_other _ _ (by decide : Part044.none ≠ Part044.linkTitle),
        filter_tag_other _ _ (by decide : Part044.textFromBlocks ≠ Part044.linkTitle), List.nil_append, List.append_nil]
    have f3 : (i0.map (fun h => (Part044.none, h)) ++ (i1.map (fun h => (Part044.linkTitle, h)) ++
        i2.map (fun h => (Part044.textFromBlocks, h)))).filter (fun h => decide (h.1 = Part044.textFromBlocks)) = i2.map (fun h => (Part044.textFromBlocks, h)) := by
      simp only [List.filter_append, filter_tag_same, filter_tag_other _ _ (by decide : Part044.none ≠ Part044.textFromBlocks),
        filter_tag_other _ _ (by decide : Part044.linkTitle ≠ Part044.textFromBlocks), List.nil_append]
    obtain ⟨a, ha, pa⟩ := matching_part i lt _ .linkTitle .linkTitle i1 f1
    obtain ⟨d, hd, pd⟩ := matching_part i t.text _ .textFromBlocks (.base .textFromBlocks) i2 f3
    have hitems : applyItems044 i t (i0.map (fun h => (Part044.none, h)) ++ (i1.map (fun h => (Part044.linkTitle, h)) ++
        i2.map (fun h => (Part044.textFromBlocks, h)))) = .ok (a ++ d) := by
      unfold applyItems044
      rw [hk]
      simp only [hlt, ha, hd, seqReq]
    obtain ⟨t', ht', _⟩ := applyGroup2_step i t _ _ hitems
    obtain ⟨hw, v1, n1, _, n2, _, n3, _, n4, v5, n5⟩ := applyGroup2_values i t _ _ t' hitems ht'
    have fa := partOk_field pa
    have fd := partOk_field pd
    have hfin : t' = fixedImage044 c.names t := by
      rw [hw]
      show written044 t t' = written044 t (fixedImage044 c.names t)
      apply written044_ext
      · show t'.text = fixStrG c.names 0 0 0 t.text
        rw [he2]
        refine comp_text v5 n5 (part := d) (by intro q hq; simp [hq]) ?_ pd rfl
        intro q hq b' hf
        simp only [List.mem_append] at hq
        rcases hq with hq | hq
        · rw [fa q hq] at hf; cases hf
        · exact hq
      · show t'.linkTitle = t.linkTitle.map (fixStrG c.names 0 0 0)
        rw [hlt]; simp only [Option.map_some]; rw [he1]
        refine comp_linkTitle v1 n1 (part := a) (by intro q hq; simp [hq]) ?_ pa hlt
        intro q hq hf
        simp only [List.mem_append] at hq
        rcases hq with hq | hq
        · exact hq
        · rw [fd q hq] at hf; cases hf
      · show t'.preLinkTitle = t.preLinkTitle
        apply n2
        intro q hq hf
        simp only [List.mem_append] at hq
        rcases hq with hq | hq
        · rw [fa q hq] at hf; cases hf
        · rw [fd q hq] at hf; cases hf
      · show t'.linkName = t.linkName
        apply n3
        intro q hq hf
        simp only [List.mem_append] at hq
        rcases hq with hq | hq
        · rw [fa q hq] at hf; cases hf
        · rw [fd q hq] at hf; cases hf
      · show t'.titleRaw = t.titleRaw
        apply n4
        intro q hq hf
        simp only [List.mem_append] at hq
        rcases hq with hq | hq
        · rw [fa q hq] at hf; cases hf
        · rw [fd q hq] at hf; cases hf
      · exact (applyGroup2_kind_idx044 t t' _ ht').1
    by_cases hemp : (i0.map (fun h => (Part044.none, h)) ++ (i1.map (fun h => (Part044.linkTitle, h)) ++
        i2.map (fun h => (Part044.textFromBlocks, h)))).isEmpty = true
    · rw [if_pos hemp]
      refine ⟨{}, rfl, ?_⟩
      simp only [List.isEmpty_iff, List.append_eq_nil_iff, List.map_eq_nil_iff] at hemp
      obtain ⟨_, e1, e2⟩ := hemp
      simp only [reqPairs044, List.map_nil, applyGroup2_nil044, Except.ok.injEq]
      show written044 t t = written044 t (fixedImage044 c.names t)
      apply written044_ext
      · show t.text = fixStrG c.names 0 0 0 t.text
        rw [he2, e2]; rfl
      · show t.linkTitle = t.linkTitle.map (fixStrG c.names 0 0 0)
        rw [hlt]; simp only [Option.map_some]; rw [he1, e1]; rfl
      · rfl
      · rfl
      · rfl
      · rfl
    · rw [if_neg hemp, hitems]
      simp only
      exact ⟨_, rfl, by rw [ht', hfin]⟩

/-! ## link reference definitions -/
/-- `start_x_offset, start_y_offset` of `__adjust_for_newlines_and_search` -/
def adjXY (body full : Str) : Int × Int := if body.contains '\n' then adjNl full 0 full.length else (0, 0)

theorem adjSearch044_eq (names : List Str) (body full s : Str) (sl : Int) :
    adjSearch044 names body full s sl = search044 names false s sl (adjXY body full).1 (adjXY body full).2 := by
  unfold adjSearch044 adjXY
  split
  rename_i heq
  rw [heq]

def lrdX (t : Tok2) : Int := (adjXY (lrdFull044 t) (lrdFull044 t)).1
def lrdY (t : Tok2) : Int := (adjXY (lrdFull044 t) (lrdFull044 t)).2

def okLrd044 (t : Tok2) : Bool :=
  good044 t.text && good044 t.linkName && good044 t.titleRaw && (match t.linkTitle with | some lt => good044 lt | none => true)

def fixedLrd044 (names : List Str) (t : Tok2) : Tok2 :=
  { t with toTok := { t.toTok with text := if t.text.isEmpty then t.text else fixStrG names (-1) 0 0 t.text },
           linkName := fixStrG names (-1) 0 0 t.linkName,
           titleRaw := fixStrG names (lrdOffset044 t) (lrdX t) (lrdY t) t.titleRaw,
           linkTitle := if truthy044 t.linkTitle then t.linkTitle.map (fixStrG names (lrdOffset044 t) (lrdX t) (lrdY t)) else t.linkTitle }

theorem fixedLrd044_nil (t : Tok2) : fixedLrd044 [] t = t := by
  unfold fixedLrd044
  have : ∀ sl sx sy, (fixStrG [] sl sx sy) = id := by intro sl sx sy; funext s; rfl
  simp only [this, id_eq, Option.map_id_fun, ite_self]

theorem partOk_refl (i : Nat) (f : Field2) (s : Str) : PartOk i [] f s s := Or.inl ⟨rfl, rfl⟩

theorem fix_step_lrd (c : C044) (hn : NamesOk c.names) (all : List Tok2) (s : St044) (i : Nat) (t : Tok2) (hk : t.kind = .lrd)
    (hW : okLrd044 t = true) :
    ∃ o, next044 c true all s i t = .ok (stateNext044 c s t, o) ∧ applyGroup2 t (reqPairs044 o.reqs) = .ok (fixedLrd044 c.names t) := by
  unfold okLrd044 at hW
  simp only [Bool.and_eq_true] at hW
  obtain ⟨⟨⟨g1, g2⟩, g3⟩, g4⟩ := hW
  unfold next044 stateNext044
  by_cases hne : c.names.isEmpty = true
  · rw [if_pos hne, if_pos hne]
    have : c.names = [] := by simpa using hne
    rw [this, fixedLrd044_nil]
    exact ⟨{}, rfl, applyGroup2_nil044 t⟩
  · rw [if_neg hne, if_neg hne]
    have hoff := lrdOffset044_le t
    obtain ⟨iD, hiD, heD, _⟩ := fixStrG_spec c.names hn (-1) 0 0 (by omega) t.text (good044_iff g1).1
    obtain ⟨iN, hiN, heN, _⟩ := fixStrG_spec c.names hn (-1) 0 0 (by omega) t.linkName (good044_iff g2).1
    obtain ⟨iR, hiR, heR, _⟩ := fixStrG_spec c.names hn (lrdOffset044 t) (lrdX t) (lrdY t) hoff t.titleRaw (good044_iff g3).1
    -- the debug name is searched only when it is not empty
    have hD : ∃ iD', (if t.text.isEmpty = true then Except.ok [] else tag044 .linkNameDebug (search044 c.names false t.text (-1) 0 0))
          = .ok (iD'.map (fun h => (Part044.linkNameDebug, h))) ∧
        (if t.text.isEmpty then t.text else fixStrG c.names (-1) 0 0 t.text) = applyHits t.text iD' ∧ (t.text.isEmpty = true → iD' = []) := by
      by_cases hc : t.text.isEmpty = true
      · exact ⟨[], by rw [if_pos hc]; rfl, by rw [if_pos hc]; rfl, fun _ => rfl⟩
      · refine ⟨iD, ?_, ?_, fun h => absurd h hc⟩
        · rw [if_neg hc, search044_plain c.names t.text (good044_iff g1).2, hiD]; rfl
        · rw [if_neg hc]; exact heD
    obtain ⟨iD', hDa, hDb, hDc⟩ := hD
    -- the title is searched only when it is truthy
    have hT : ∃ iT', (if (true && truthy044 t.linkTitle) = true then
            tag044 .linkTitle (adjSearch044 c.names (lrdFull044 t) (lrdFull044 t) (t.linkTitle.getD []) (lrdOffset044 t)) else Except.ok [])
          = .ok (iT'.map (fun h => (Part044.linkTitle, h))) ∧
        (if truthy044 t.linkTitle then t.linkTitle.map (fixStrG c.names (lrdOffset044 t) (lrdX t) (lrdY t)) else t.linkTitle)
          = t.linkTitle.map (fun lt => applyHits lt iT') ∧ (truthy044 t.linkTitle = false → iT' = []) := by
      by_cases hc : truthy044 t.linkTitle = true
      · cases hlt : t.linkTitle with
        | none => rw [hlt] at hc; cases hc
        | some lt =>
          rw [hlt] at g4 hc
          obtain ⟨iT, hiT, heT, _⟩ := fixStrG_spec c.names hn (lrdOffset044 t) (lrdX t) (lrdY t) hoff lt (good044_iff g4).1
          refine ⟨iT, ?_, ?_, fun h => by rw [hc] at h; cases h⟩
          · simp only [Bool.true_and, hc, ↓reduceIte, Option.getD_some]
            rw [adjSearch044_eq, search044_plain c.names lt (good044_iff g4).2]
            show tag044 _ (searchNames044 lt (lowerS lt) (lrdOffset044 t) (lrdX t) (lrdY t) c.names) = _
            rw [hiT]; rfl
          · simp only [hc, ↓reduceIte, Option.map_some, heT]
      · have hc' : truthy044 t.linkTitle = false := by simpa using hc
        refine ⟨[], ?_, ?_, fun _ => rfl⟩
        · simp only [Bool.true_and, hc', Bool.false_eq_true, ↓reduceIte]; rfl
        · simp only [hc', Bool.false_eq_true, ↓reduceIte]
          cases t.linkTitle <;> rfl
    obtain ⟨iT', hTa, hTb, hTc⟩ := hT
    have hhits : hits044 c true all s t = .ok ((iD'.map (fun h => (Part044.linkNameDebug, h)) ++ iN.map (fun h => (Part044.linkName, h))) ++
        (iR.map (fun h => (Part044.linkTitleRaw, h)) ++ iT'.map (fun h => (Part044.linkTitle, h)))) := by
      unfold hits044
      rw [hk]
      simp only [↓reduceIte]
      rw [hDa, hTa, search044_plain c.names t.linkName (good044_iff g2).2, hiN, adjSearch044_eq,
        search044_plain c.names t.titleRaw (good044_iff g3).2]
      show seq044 _ (seq044 (tag044 _ (searchNames044 t.titleRaw (lowerS t.titleRaw) (lrdOffset044 t) (lrdX t) (lrdY t) c.names)) _) = _
      rw [hiR]
      rfl
    rw [hhits]
    simp only [↓reduceIte]
    generalize hI : ((iD'.map (fun h => (Part044.linkNameDebug, h)) ++ iN.map (fun h => (Part044.linkName, h))) ++
        (iR.map (fun h => (Part044.linkTitleRaw, h)) ++ iT'.map (fun h => (Part044.linkTitle, h)))) = items
    by_cases hemp : items.isEmpty = true
    · rw [if_pos hemp]
      refine ⟨{}, rfl, ?_⟩
      rw [← hI] at hemp
      simp only [List.isEmpty_iff, List.append_eq_nil_iff, List.map_eq_nil_iff] at hemp
      obtain ⟨⟨e1, e2⟩, e3, e4⟩ := hemp
      simp only [reqPairs044, List.map_nil, applyGroup2_nil044, Except.ok.injEq]
      show written044 t t = written044 t (fixedLrd044 c.names t)
      apply written044_ext
      · show t.text = (if t.text.isEmpty then t.text else fixStrG c.names (-1) 0 0 t.text)
        rw [hDb, e1]; rfl
      · show t.linkTitle = (if truthy044 t.linkTitle then t.linkTitle.map (fixStrG c.names (lrdOffset044 t) (lrdX t) (lrdY t)) else t.linkTitle)
        rw [hTb, e4]
        cases t.linkTitle <;> rfl
      · rfl
      · show t.linkName = fixStrG c.names (-1) 0 0 t.linkName
        rw [heN, e2]; rfl
      · show t.titleRaw = fixStrG c.names (lrdOffset044 t) (lrdX t) (lrdY t) t.titleRaw
        rw [heR, e3]; rfl
      · rfl
    · rw [if_neg hemp]
      have fN : items.filter (fun h => decide (h.1 = Part044.linkName))
          = iN.map (fun h => (Part044.linkName, h)) := by
        rw [← hI]
        simp only [List.filter_append, filter_tag_same, filter_tag_other _ _ (by decide : Part044.linkNameDebug ≠ Part044.linkName),
          filter_tag_other _ _ (by decide : Part044.linkTitleRaw ≠ Part044.linkName),
          filter_tag_other _ _ (by decide : Part044.linkTitle ≠ Part044.linkName), List.nil_append, List.append_nil]
      have fD : items.filter (fun h => decide (h.1 = Part044.linkNameDebug))
          = iD'.map (fun h => (Part044.linkNameDebug, h)) := by
        rw [← hI]
        simp only [List.filter_append, filter_tag_same, filter_tag_other _ _ (by decide : Part044.linkName ≠ Part044.linkNameDebug),
          filter_tag_other _ _ (by decide : Part044.linkTitleRaw ≠ Part044.linkNameDebug),
          filter_tag_other _ _ (by decide : Part044.linkTitle ≠ Part044.linkNameDebug), List.append_nil]
      have fR : items.filter (fun h => decide (h.1 = Part044.linkTitleRaw))
          = iR.map (fun h => (Part044.linkTitleRaw, h)) := by
        rw [← hI]
        simp only [List.filter_append, filter_tag_same, filter_tag_other _ _ (by decide : Part044.linkName ≠ Part044.linkTitleRaw),
          filter_tag_other _ _ (by decide : Part044.linkNameDebug ≠ Part044.linkTitleRaw),
          filter_tag_other _ _ (by decide : Part044.linkTitle ≠ Part044.linkTitleRaw), List.nil_append, List.append_nil]
      have fT : items.filter (fun h => decide (h.1 = Part044.linkTitle))
          = iT'.map (fun h => (Part044.linkTitle, h)) := by
        rw [← hI]
        simp only [List.filter_append, filter_tag_same, filter_tag_other _ _ (by decide : Part044.linkName ≠ Part044.linkTitle),
          filter_tag_other _ _ (by decide : Part044.linkNameDebug ≠ Part044.linkTitle),
          filter_tag_other _ _ (by decide : Part044.linkTitleRaw ≠ Part044.linkTitle), List.nil_append]
      obtain ⟨a, ha, pa⟩ := matching_part i t.linkName _ .linkName .linkName iN fN
      obtain ⟨c', hc', pc⟩ := matching_part i t.titleRaw _ .linkTitleRaw .linkTitleRaw iR fR
      -- the two optional calls
      have hb : ∃ b, (if t.text.isEmpty = true then Except.ok [] else applyMatching044 i (some t.text) items .linkNameDebug (.base .linkNameDebug)) = .ok b ∧
          PartOk i b (.base .linkNameDebug) t.text (applyHits t.text iD') := by
        by_cases hc : t.text.isEmpty = true
        · refine ⟨[], by rw [if_pos hc], ?_⟩
          rw [hDc hc]; exact partOk_refl _ _ _
        · rw [if_neg hc]; exact matching_part i t.text _ .linkNameDebug (.base .linkNameDebug) iD' fD
      obtain ⟨b, hb, pb⟩ := hb
      have hd : ∃ d, (if truthy044 t.linkTitle = true then applyMatching044 i t.linkTitle items .linkTitle .linkTitle else Except.ok []) = .ok d ∧
          ((truthy044 t.linkTitle = false ∧ d = []) ∨ ∃ lt, t.linkTitle = some lt ∧ PartOk i d .linkTitle lt (applyHits lt iT')) := by
        by_cases hc : truthy044 t.linkTitle = true
        · cases hlt : t.linkTitle with
          | none => rw [hlt] at hc; cases hc
          | some lt =>
            rw [hlt] at hc
            simp only [hc, ↓reduceIte]
            obtain ⟨d, hd1, hd2⟩ := matching_part i lt _ .linkTitle .linkTitle iT' fT
            exact ⟨d, hd1, Or.inr ⟨lt, rfl, hd2⟩⟩
        · have hc' : truthy044 t.linkTitle = false := by simpa using hc
          exact ⟨[], by rw [if_neg hc], Or.inl ⟨hc', rfl⟩⟩
      obtain ⟨d, hd, pd⟩ := hd
      have hitems : applyItems044 i t items = .ok (a ++ (b ++ (c' ++ d))) := by
        unfold applyItems044
        rw [hk]
        simp only [ha, hb, hc', hd, seqReq]
      rw [hitems]
      simp only
      obtain ⟨t', ht', _⟩ := applyGroup2_step i t _ _ hitems
      refine ⟨_, rfl, ?_⟩
      rw [ht']
      congr 1
      obtain ⟨hw, v1, n1, _, n2, v3, n3, v4, n4, v5, n5⟩ := applyGroup2_values i t _ _ t' hitems ht'
      have fa := partOk_field pa
      have fb := partOk_field pb
      have fc := partOk_field pc
      have fd : ∀ q ∈ d, q.field = .linkTitle := by
        rcases pd with ⟨_, rfl⟩ | ⟨lt, _, hp⟩
        · intro q hq; cases hq
        · exact partOk_field hp
      rw [hw]
      show written044 t t' = written044 t (fixedLrd044 c.names t)
      apply written044_ext
      · show t'.text = (if t.text.isEmpty then t.text else fixStrG c.names (-1) 0 0 t.text)
        rw [hDb]
        refine comp_text v5 n5 (part := b) (by intro q hq; simp [hq]) ?_ pb rfl
        intro q hq b' hf
        simp only [List.mem_append] at hq
        rcases hq with hq | hq | hq | hq
        · rw [fa q hq] at hf; cases hf
        · exact hq
        · rw [fc q hq] at hf; cases hf
        · rw [fd q hq] at hf; cases hf
      · show t'.linkTitle = (if truthy044 t.linkTitle then t.linkTitle.map (fixStrG c.names (lrdOffset044 t) (lrdX t) (lrdY t)) else t.linkTitle)
        rw [hTb]
        have hoth : ∀ q ∈ a ++ (b ++ (c' ++ d)), q.field = .linkTitle → q ∈ d := by
          intro q hq hf
          simp only [List.mem_append] at hq
          rcases hq with hq | hq | hq | hq
          · rw [fa q hq] at hf; cases hf
          · rw [fb q hq] at hf; cases hf
          · rw [fc q hq] at hf; cases hf
          · exact hq
        rcases pd with ⟨htr, rfl⟩ | ⟨lt, hlt, hp⟩
        · rw [n1 (fun q hq hf => by cases hoth q hq hf), hTc htr]
          cases t.linkTitle <;> rfl
        · rw [hlt]
          simp only [Option.map_some]
          exact comp_linkTitle v1 n1 (part := d) (by intro q hq; simp [hq]) hoth hp hlt
      · show t'.preLinkTitle = t.preLinkTitle
        apply n2
        intro q hq hf
        simp only [List.mem_append] at hq
        rcases hq with hq | hq | hq | hq
        · rw [fa q hq] at hf; cases hf
        · rw [fb q hq] at hf; cases hf
        · rw [fc q hq] at hf; cases hf
        · rw [fd q hq] at hf; cases hf
      · show t'.linkName = fixStrG c.names (-1) 0 0 t.linkName
        rw [heN]
        refine comp_linkName v3 n3 (part := a) (by intro q hq; simp [hq]) ?_ pa rfl
        intro q hq hf
        simp only [List.mem_append] at hq
        rcases hq with hq | hq | hq | hq
        · exact hq
        · rw [fb q hq] at hf; cases hf
        · rw [fc q hq] at hf; cases hf
        · rw [fd q hq] at hf; cases hf
      · show t'.titleRaw = fixStrG c.names (lrdOffset044 t) (lrdX t) (lrdY t) t.titleRaw
        rw [heR]
        refine comp_titleRaw v4 n4 (part := c') (by intro q hq; simp [hq]) ?_ pc rfl
        intro q hq hf
        simp only [List.mem_append] at hq
        rcases hq with hq | hq | hq | hq
        · rw [fa q hq] at hf; cases hf
        · rw [fb q hq] at hf; cases hf
        · exact hq
        · rw [fd q hq] at hf; cases hf
      · exact (applyGroup2_kind_idx044 t t' _ ht').1

/-! ## a step on the FIXED link / image / definition / end-link token finds nothing -/
theorem truthy_fixStrG (names : List Str) (hn : NamesOk names) (sl sx sy : Int) (hsl : sl ≤ 0) (s : Str) (hs : simpleS s = true) :
    truthy044 (some (fixStrG names sl sx sy s)) = truthy044 (some s) := by
  obtain ⟨_, _, _, hlen⟩ := fixStrG_spec names hn sl sx sy hsl s hs
  unfold truthy044
  simp only
  cases h1 : fixStrG names sl sx sy s <;> cases h2 : s <;> simp_all

theorem seq044_nil : seq044 (.ok []) (.ok []) = .ok [] := rfl

/-- the title search of an inline link / image whose title (and pre-title) has been fixed -/
theorem inlineTitleHits044_fixed (names : List Str) (hn : NamesOk names) (hc : compatAll044 names = true) (part : Part044) (pre : Str)
    (t t' : Tok2) (lt pt : Str) (_hlt : t.linkTitle = some lt) (_hpt : t.preLinkTitle = some pt) (g2 : good044 lt = true)
    (g3 : good044 pt = true) (hio : inlineOk044 t = true) (hin : t.labelType = inlineLbl)
    (h1 : t'.beforeLinkWs = t.beforeLinkWs) (h2 : t'.beforeTitleWs = t.beforeTitleWs) (h3 : t'.boundChar = t.boundChar)
    (h4 : t'.linkTitle = some (fixStrG names 0 0 0 lt))
    (h5 : t'.preLinkTitle = some (if pt.isEmpty then pt else fixStrG names 0 0 0 pt)) :
    inlineTitleHits044 names part pre t' = .ok [] := by
  unfold inlineOk044 at hio
  simp only [hin, bne_self_eq_false, Bool.false_or, Bool.and_eq_true] at hio
  obtain ⟨a, ha⟩ := Option.isSome_iff_exists.mp hio.1.1
  obtain ⟨b, hb⟩ := Option.isSome_iff_exists.mp hio.1.2
  obtain ⟨d, hd⟩ := Option.isSome_iff_exists.mp hio.2
  unfold inlineTitleHits044
  rw [h1, h2, h3, ha, hb, hd]
  simp only
  have hact : ∃ x, good044 x = true ∧ activeTitle044 t' = some (fixStrG names 0 0 0 x) := by
    unfold activeTitle044
    rw [h4, h5]
    simp only
    by_cases he : pt.isEmpty = true
    · simp only [he, ↓reduceIte]
      exact ⟨lt, g2, rfl⟩
    · have hne : (fixStrG names 0 0 0 pt).isEmpty = false := by
        have := truthy_fixStrG names hn 0 0 0 (Int.le_refl _) pt (good044_iff g3).1
        unfold truthy044 at this
        simp only at this
        simp only [Bool.not_eq_true] at he
        rw [he] at this
        simpa using this
      simp only [he, Bool.false_eq_true, ↓reduceIte, hne]
      exact ⟨pt, g3, rfl⟩
  obtain ⟨x, gx, hx⟩ := hact
  rw [hx]
  simp only
  rw [adjSearch044_fixStrG names hn hc 0 0 0 _ (Int.le_refl _) (by omega) x _ _ gx]
  rfl

theorem preCond044_iff (t : Tok2) (pt : Str) (hpt : t.preLinkTitle = some pt) :
    preCond044 t = true ↔ t.labelType = inlineLbl ∧ pt.isEmpty = false := by
  unfold preCond044 truthy044
  rw [hpt]
  simp

/-- fix mode on the fixed link token: the three searches find nothing -/
theorem hits044_fixedLink (c : C044) (hn : NamesOk c.names) (hc : compatAll044 c.names = true) (fm : Bool) (all : List Tok2) (s : St044)
    (t : Tok2) (hk : t.kind = .link) (hW : okRef044 t = true) : hits044 c fm all s (fixedLink044 c.names t) = .ok [] := by
  obtain ⟨lt, pt, hlt, hpt, g1, g2, g3, _⟩ := okRef044_iff hW
  unfold hits044
  have hkind : (fixedLink044 c.names t).kind = .link := hk
  rw [hkind]
  simp only
  cases fm with
  | false => rfl
  | true =>
    simp only [↓reduceIte]
    have e1 : (fixedLink044 c.names t).linkTitle = some (fixStrG c.names 0 0 0 lt) := by
      show t.linkTitle.map _ = _; rw [hlt]; rfl
    have e2 : (fixedLink044 c.names t).text = fixStrG c.names 0 0 0 t.text := rfl
    have e3 : (fixedLink044 c.names t).labelType = t.labelType := rfl
    have e4 : (fixedLink044 c.names t).preLinkTitle = (if preCond044 t then some (fixStrG c.names 0 0 0 pt) else some pt) := by
      show (if preCond044 t then t.preLinkTitle.map _ else t.preLinkTitle) = _
      rw [hpt]; rfl
    rw [e1]
    simp only
    rw [e2, e3, search044_fixStrG c.names hn hc 0 0 0 0 0 0 (Int.le_refl _) (Int.le_refl _) lt g2 false,
      search044_fixStrG c.names hn hc 0 0 0 0 0 0 (Int.le_refl _) (Int.le_refl _) t.text g1 false]
    by_cases hp : preCond044 t = true
    · rw [e4, if_pos hp]
      obtain ⟨hin, hne⟩ := (preCond044_iff t pt hpt).mp hp
      have htr : truthy044 (some (fixStrG c.names 0 0 0 pt)) = true := by
        rw [truthy_fixStrG c.names hn 0 0 0 (Int.le_refl _) pt (good044_iff g3).1]
        unfold truthy044; simp [hne]
      simp only [hin, htr, and_self, ↓reduceIte, Option.getD_some]
      rw [search044_fixStrG c.names hn hc 0 0 0 0 0 0 (Int.le_refl _) (Int.le_refl _) pt g3 false]
      rfl
    · rw [e4, if_neg hp]
      have : ¬ (t.labelType = inlineLbl ∧ truthy044 (some pt) = true) := by
        intro h
        apply hp
        rw [preCond044_iff t pt hpt]
        refine ⟨h.1, ?_⟩
        have := h.2
        unfold truthy044 at this
        simpa using this
      rw [if_neg this]
      rfl

theorem hits044_fixedImage (c : C044) (hn : NamesOk c.names) (hc : compatAll044 c.names = true) (fm : Bool) (all : List Tok2) (s : St044)
    (t : Tok2) (hk : t.kind = .image) (hW : okRef044 t = true) (hpre : t.preLinkTitle = some []) :
    hits044 c fm all s (fixedImage044 c.names t) = .ok [] := by
  obtain ⟨lt, pt, hlt, hpt, g1, g2, g3, hio⟩ := okRef044_iff hW
  rw [hpre] at hpt
  cases hpt
  unfold hits044
  have hkind : (fixedImage044 c.names t).kind = .image := hk
  rw [hkind]
  simp only
  have e1 : (fixedImage044 c.names t).linkTitle = some (fixStrG c.names 0 0 0 lt) := by
    show t.linkTitle.map _ = _; rw [hlt]; rfl
  have e2 : (fixedImage044 c.names t).text = fixStrG c.names 0 0 0 t.text := rfl
  rw [e2, search044_fixStrG c.names hn hc 0 0 0 (-2) 0 0 (Int.le_refl _) (by omega) t.text g1 false]
  cases fm with
  | true =>
    simp only [↓reduceIte, e1]
    rw [search044_fixStrG c.names hn hc 0 0 0 0 0 0 (Int.le_refl _) (Int.le_refl _) lt g2 false,
      search044_fixStrG c.names hn hc 0 0 0 0 0 0 (Int.le_refl _) (Int.le_refl _) t.text g1 false]
    rfl
  | false =>
    simp only [Bool.false_eq_true, ↓reduceIte]
    have e3 : (fixedImage044 c.names t).labelType = t.labelType := rfl
    rw [e3]
    split
    · rename_i hin
      rw [inlineTitleHits044_fixed c.names hn hc .y _ t (fixedImage044 c.names t) lt [] hlt hpre g2 g3 hio hin rfl rfl rfl e1
        (by show t.preLinkTitle = _; rw [hpre]; rfl)]
      rfl
    · rfl

theorem hits044_fixedLrd (c : C044) (hn : NamesOk c.names) (hc : compatAll044 c.names = true) (fm : Bool) (all : List Tok2) (s : St044)
    (t : Tok2) (hk : t.kind = .lrd) (hW : okLrd044 t = true) : hits044 c fm all s (fixedLrd044 c.names t) = .ok [] := by
  unfold okLrd044 at hW
  simp only [Bool.and_eq_true] at hW
  obtain ⟨⟨⟨g1, g2⟩, g3⟩, g4⟩ := hW
  have hoff := lrdOffset044_le t
  have hoff' := lrdOffset044_le (fixedLrd044 c.names t)
  have e1 : (fixedLrd044 c.names t).text = (if t.text.isEmpty then t.text else fixStrG c.names (-1) 0 0 t.text) := rfl
  have e2 : (fixedLrd044 c.names t).linkName = fixStrG c.names (-1) 0 0 t.linkName := rfl
  have e3 : (fixedLrd044 c.names t).titleRaw = fixStrG c.names (lrdOffset044 t) (lrdX t) (lrdY t) t.titleRaw := rfl
  have e4 : (fixedLrd044 c.names t).linkTitle =
      (if truthy044 t.linkTitle then t.linkTitle.map (fixStrG c.names (lrdOffset044 t) (lrdX t) (lrdY t)) else t.linkTitle) := rfl
  -- the fixed debug name is empty exactly when the debug name is
  have hempty : (fixedLrd044 c.names t).text.isEmpty = t.text.isEmpty := by
    rw [e1]
    by_cases he : t.text.isEmpty = true
    · rw [if_pos he]
    · rw [if_neg he]
      have := truthy_fixStrG c.names hn (-1) 0 0 (by omega) t.text (good044_iff g1).1
      unfold truthy044 at this
      simp only at this
      have he' : t.text.isEmpty = false := by simpa using he
      rw [he'] at this ⊢
      simpa using this
  have hname : search044 c.names false (lrdName044 (fixedLrd044 c.names t)) (-1) 0 0 = .ok [] := by
    unfold lrdName044
    rw [hempty]
    by_cases he : t.text.isEmpty = true
    · rw [if_pos he, e2]
      exact search044_fixStrG c.names hn hc (-1) 0 0 (-1) 0 0 (by omega) (by omega) t.linkName g2 false
    · rw [if_neg he, e1, if_neg he]
      exact search044_fixStrG c.names hn hc (-1) 0 0 (-1) 0 0 (by omega) (by omega) t.text g1 false
  have hraw : adjSearch044 c.names (lrdFull044 (fixedLrd044 c.names t)) (lrdFull044 (fixedLrd044 c.names t))
      (fixedLrd044 c.names t).titleRaw (lrdOffset044 (fixedLrd044 c.names t)) = .ok [] := by
    rw [e3]
    exact adjSearch044_fixStrG c.names hn hc _ _ _ _ hoff hoff' t.titleRaw _ _ g3
  unfold hits044
  have hkind : (fixedLrd044 c.names t).kind = .lrd := hk
  rw [hkind]
  simp only
  rw [hraw]
  cases fm with
  | false =>
    simp only [Bool.false_eq_true, ↓reduceIte, Bool.false_and]
    rw [hname]
    rfl
  | true =>
    simp only [↓reduceIte, Bool.true_and]
    have hD : (if (fixedLrd044 c.names t).text.isEmpty = true then Except.ok []
        else tag044 Part044.linkNameDebug (search044 c.names false (fixedLrd044 c.names t).text (-1) 0 0)) = .ok [] := by
      rw [hempty]
      by_cases he : t.text.isEmpty = true
      · rw [if_pos he]
      · rw [if_neg he, e1, if_neg he, search044_fixStrG c.names hn hc (-1) 0 0 (-1) 0 0 (by omega) (by omega) t.text g1 false]
        rfl
    have hN : search044 c.names false (fixedLrd044 c.names t).linkName (-1) 0 0 = .ok [] := by
      rw [e2]
      exact search044_fixStrG c.names hn hc (-1) 0 0 (-1) 0 0 (by omega) (by omega) t.linkName g2 false
    have hT : (if truthy044 (fixedLrd044 c.names t).linkTitle = true then
          tag044 Part044.linkTitle (adjSearch044 c.names (lrdFull044 (fixedLrd044 c.names t)) (lrdFull044 (fixedLrd044 c.names t))
            ((fixedLrd044 c.names t).linkTitle.getD []) (lrdOffset044 (fixedLrd044 c.names t)))
        else Except.ok []) = .ok [] := by
      rw [e4]
      cases hlt : t.linkTitle with
      | none => simp [truthy044]
      | some lt =>
        rw [hlt] at g4
        by_cases htr : truthy044 (some lt) = true
        · simp only [htr, ↓reduceIte, Option.map_some, Option.getD_some]
          rw [truthy_fixStrG c.names hn _ _ _ hoff lt (good044_iff g4).1, htr]
          simp only [↓reduceIte]
          rw [adjSearch044_fixStrG c.names hn hc _ _ _ _ hoff hoff' lt _ _ g4]
          rfl
        · simp only [htr, Bool.false_eq_true, ↓reduceIte]
    rw [hD, hN, hT]
    rfl

/-! ## all kinds together -/
/-- the domain of H1 / idempotence WITH links: text and code spans as before; link tokens with `good044` label text, title and
    pre-title; image tokens likewise and WITHOUT a pre-title (`md044_fix_keeps_trigger_image`); definitions with `good044` fields;
    an end-link token names a link token of the stream -/
def linkTok044 (all : List Tok2) (t : Tok2) : Bool :=
  match t.kind with
  | .text | .codeSpan => simpleS t.text && plain t.text
  | .link => okRef044 t
  | .image => okRef044 t && decide (t.preLinkTitle = some [])
  | .lrd => okLrd044 t
  | .linkEnd => (match startTok044 all t with | some lt => decide (lt.kind = .link) | none => false)
  | _ => true

def fixedTok044' (c : C044) (s : St044) (t : Tok2) : Tok2 :=
  match t.kind with
  | .link => fixedLink044 c.names t
  | .image => fixedImage044 c.names t
  | .lrd => fixedLrd044 c.names t
  | _ => fixedTok044 c s t

theorem fixedTok044'_kind (c : C044) (s : St044) (t : Tok2) : (fixedTok044' c s t).kind = t.kind := by
  unfold fixedTok044'
  split
  · rfl
  · rfl
  · rfl
  · exact fixedTok044_kind c s t

theorem linkTok044_plain (all : List Tok2) (t : Tok2) (h : linkTok044 all t = true) (h1 : t.kind ≠ .link) (h2 : t.kind ≠ .image)
    (h3 : t.kind ≠ .lrd) (h4 : t.kind ≠ .linkEnd) : plainTok044 t = true := by
  unfold linkTok044 at h
  unfold plainTok044
  split <;> first | contradiction | (split at h <;> first | contradiction | exact h | rfl)

theorem fix_step' (c : C044) (hn : NamesOk c.names) (all : List Tok2) (s : St044) (i : Nat) (t : Tok2) (hW : linkTok044 all t = true) :
    ∃ o, next044 c true all s i t = .ok (stateNext044 c s t, o) ∧ applyGroup2 t (reqPairs044 o.reqs) = .ok (fixedTok044' c s t) := by
  by_cases h1 : t.kind = .link
  · have : fixedTok044' c s t = fixedLink044 c.names t := by unfold fixedTok044'; rw [h1]
    rw [this]
    exact fix_step_link c hn all s i t h1 (by unfold linkTok044 at hW; rw [h1] at hW; exact hW)
  · by_cases h2 : t.kind = .image
    · have : fixedTok044' c s t = fixedImage044 c.names t := by unfold fixedTok044'; rw [h2]
      rw [this]
      exact fix_step_image c hn all s i t h2 (by unfold linkTok044 at hW; rw [h2] at hW; simp only [Bool.and_eq_true] at hW; exact hW.1)
    · by_cases h3 : t.kind = .lrd
      · have : fixedTok044' c s t = fixedLrd044 c.names t := by unfold fixedTok044'; rw [h3]
        rw [this]
        exact fix_step_lrd c hn all s i t h3 (by unfold linkTok044 at hW; rw [h3] at hW; exact hW)
      · have hf : fixedTok044' c s t = fixedTok044 c s t := by
          unfold fixedTok044'
          split <;> first | contradiction | rfl
        rw [hf]
        by_cases h4 : t.kind = .linkEnd
        · have hft : fixedTok044 c s t = t := by unfold fixedTok044; rw [h4]
          rw [hft]
          unfold next044 stateNext044
          split
          · exact ⟨{}, rfl, applyGroup2_nil044 t⟩
          · have : hits044 c true all s t = .ok [] := by unfold hits044; rw [h4]; rfl
            rw [this]
            exact ⟨{}, rfl, applyGroup2_nil044 t⟩
        · exact fix_step c hn all s i t (linkTok044_plain all t hW h1 h2 h3 h4)

theorem startTok044_mem {all : List Tok2} {t lt : Tok2} (h : startTok044 all t = some lt) : lt ∈ all := by
  unfold startTok044 at h
  cases hs : t.startIdx with
  | none => rw [hs] at h; cases h
  | some j =>
    rw [hs] at h
    simp only [Option.bind_some] at h
    cases hg : all[j]? with
    | none => rw [hg] at h; cases h
    | some u =>
      rw [hg] at h
      simp only at h
      split at h
      · cases h; exact List.mem_of_getElem? hg
      · cases h

/-- a step (either mode) on the fixed token; `hend`: the start token of an end-link token in the fixed stream is the fixed link token -/
theorem fixed_step' (c : C044) (hn : NamesOk c.names) (hc : compatAll044 c.names = true) (fm : Bool) (all all' : List Tok2)
    (hWall : ∀ u ∈ all, linkTok044 all u = true)
    (hend : ∀ t lt, startTok044 all t = some lt → lt.kind = .link → startTok044 all' t = some (fixedLink044 c.names lt))
    (s : St044) (i : Nat) (t : Tok2) (hW : linkTok044 all t = true) :
    next044 c fm all' s i (fixedTok044' c s t) = .ok (stateNext044 c s t, {}) := by
  by_cases h1 : t.kind = .link ∨ t.kind = .image ∨ t.kind = .lrd ∨ t.kind = .linkEnd
  · unfold next044 stateNext044
    by_cases hne : c.names.isEmpty = true
    · rw [if_pos hne, if_pos hne]
    · rw [if_neg hne, if_neg hne, state044_kind s t _ (fixedTok044'_kind c s t)]
      have key : hits044 c fm all' s (fixedTok044' c s t) = .ok [] := by
        rcases h1 with hk | hk | hk | hk
        · have : fixedTok044' c s t = fixedLink044 c.names t := by unfold fixedTok044'; rw [hk]
          rw [this]
          exact hits044_fixedLink c hn hc fm all' s t hk (by unfold linkTok044 at hW; rw [hk] at hW; exact hW)
        · have : fixedTok044' c s t = fixedImage044 c.names t := by unfold fixedTok044'; rw [hk]
          rw [this]
          unfold linkTok044 at hW; rw [hk] at hW; simp only [Bool.and_eq_true, decide_eq_true_eq] at hW
          exact hits044_fixedImage c hn hc fm all' s t hk hW.1 hW.2
        · have : fixedTok044' c s t = fixedLrd044 c.names t := by unfold fixedTok044'; rw [hk]
          rw [this]
          exact hits044_fixedLrd c hn hc fm all' s t hk (by unfold linkTok044 at hW; rw [hk] at hW; exact hW)
        · have hft : fixedTok044' c s t = t := by unfold fixedTok044' fixedTok044; rw [hk]
          rw [hft]
          unfold hits044
          rw [hk]
          simp only
          cases fm with
          | true => rfl
          | false =>
            simp only [Bool.false_eq_true, ↓reduceIte]
            unfold linkTok044 at hW; rw [hk] at hW
            simp only at hW
            cases hst : startTok044 all t with
            | none => rw [hst] at hW; cases hW
            | some lt =>
              rw [hst] at hW
              simp only [decide_eq_true_eq] at hW
              rw [hend t lt hst hW]
              simp only
              have hlW := hWall lt (startTok044_mem hst)
              unfold linkTok044 at hlW; rw [hW] at hlW
              obtain ⟨ltt, pt, hlt, hpt, g1, g2, g3, hio⟩ := okRef044_iff hlW
              have e3 : (fixedLink044 c.names lt).labelType = lt.labelType := rfl
              rw [e3]
              split
              · rename_i hin
                have e5 : (fixedLink044 c.names lt).preLinkTitle = some (if pt.isEmpty then pt else fixStrG c.names 0 0 0 pt) := by
                  show (if preCond044 lt then lt.preLinkTitle.map _ else lt.preLinkTitle) = _
                  rw [hpt]
                  by_cases hp : preCond044 lt = true
                  · obtain ⟨_, hne'⟩ := (preCond044_iff lt pt hpt).mp hp
                    rw [if_pos hp, hne']; rfl
                  · rw [if_neg hp]
                    have : pt.isEmpty = true := by
                      by_cases he : pt.isEmpty = true
                      · exact he
                      · exact absurd ((preCond044_iff lt pt hpt).mpr ⟨hin, by simpa using he⟩) hp
                    rw [this]; rfl
                exact inlineTitleHits044_fixed c.names hn hc .x _ lt (fixedLink044 c.names lt) ltt pt hlt hpt g2 g3 hio hin rfl rfl rfl
                  (by show lt.linkTitle.map _ = _; rw [hlt]; rfl) e5
              · rfl
      rw [key]
      cases fm <;> rfl
  · simp only [not_or] at h1
    have hf : fixedTok044' c s t = fixedTok044 c s t := by
      unfold fixedTok044'
      split <;> first | (rename_i hk; first | exact absurd hk h1.1 | exact absurd hk h1.2.1 | exact absurd hk h1.2.2.1) | rfl
    rw [hf]
    exact fixed_step c hn hc fm all' s i t (linkTok044_plain all t hW h1.1 h1.2.1 h1.2.2.1 h1.2.2.2)

/-- the start token of an end-link token in the fixed stream -/
theorem startTok044_fixed (c : C044) (all all' : List Tok2) (hWall : ∀ u ∈ all, linkTok044 all u = true)
    (hrel : All₂ (fun t t' => linkTok044 all t = true → ∃ s, t' = fixedTok044' c s t) all all')
    (t lt : Tok2) (h : startTok044 all t = some lt) (hk : lt.kind = .link) :
    startTok044 all' t = some (fixedLink044 c.names lt) := by
  have hmem := startTok044_mem h
  unfold startTok044 at h ⊢
  cases hs : t.startIdx with
  | none => rw [hs] at h; cases h
  | some j =>
    rw [hs] at h
    simp only [Option.bind_some] at h ⊢
    rcases all₂_getElem044 hrel j with ⟨h1, _⟩ | ⟨a, b, h1, h2, hab⟩
    · rw [h1] at h; cases h
    · rw [h1] at h
      simp only at h
      split at h
      · have hal : a = lt := Option.some.inj h
        rw [hal] at hab
        obtain ⟨s0, hb⟩ := hab (hWall lt hmem)
        have hb' : b = fixedLink044 c.names lt := by rw [hb]; unfold fixedTok044'; rw [hk]
        rw [h2]
        simp only
        have hkb : b.kind = .link := by rw [hb']; exact hk
        rw [if_pos (Or.inl hkb), hb']
      · cases h

end Verif.Model.TokenRules
