import Verif.Lemmas.TokenRules.Md030Fix
import Verif.Lemmas.TokenRules.Md030Scan
/-!
  MD030 over `Tok2`: the run on a stream that differs from another one only in `indent_level` / `leading_spaces` / `startIdx`
  is the same run with the entries' indents replaced (`reindSt030`).  With `fix_indent_key030`: the closings of the FIXED stream have no
  failing entry — H1 and idempotence.
-/
namespace Verif.Model.TokenRules

/-- what MD030's fix may change of a token -/
def Same030 (t t' : Tok2) : Prop := t' = { t with indent := t'.indent, leading := t'.leading, startIdx := t'.startIdx }

def reindE030 (f : Nat → Int) (p : Nat × Ent030) : Nat × Ent030 := (p.1, { p.2 with indent := f p.1 })
def reindFr030 (f : Nat → Int) (fr : Fr030f) : Fr030f := { fr with ents := fr.ents.map (reindE030 f) }
def reindSt030 (f : Nat → Int) (s : St030f) : St030f := { s with stack := s.stack.map (reindFr030 f) }

theorem Same030.kind {t t' : Tok2} (h : Same030 t t') : t'.kind = t.kind := congrArg (·.kind) h
theorem Same030.line {t t' : Tok2} (h : Same030 t t') : t'.line = t.line := congrArg (·.line) h
theorem Same030.col {t t' : Tok2} (h : Same030 t t') : t'.col = t.col := congrArg (·.col) h
theorem Same030.content {t t' : Tok2} (h : Same030 t t') : t'.content = t.content := congrArg (·.content) h
theorem Same030.text {t t' : Tok2} (h : Same030 t t') : t'.text = t.text := congrArg (·.text) h
theorem Same030.leadWs {t t' : Tok2} (h : Same030 t t') : t'.leadWs = t.leadWs := congrArg (·.leadWs) h
theorem Same030.trailWs {t t' : Tok2} (h : Same030 t t') : t'.trailWs = t.trailWs := congrArg (·.trailWs) h

theorem countNl030_same {t t' : Tok2} (h : Same030 t t') : countNl030 t' = countNl030 t := by
  unfold countNl030
  rw [h.kind, h.text, h.leadWs, h.trailWs]

theorem addLines_reind030 (f : Nat → Int) (n : Nat) (st : List Fr030f) :
    addLines030 n (st.map (reindFr030 f)) = (addLines030 n st).map (reindFr030 f) := by
  cases st <;> rfl

theorem track030_reind (f : Nat → Int) (s : St030f) {t t' : Tok2} (h : Same030 t t') :
    track030 (reindSt030 f s) t' = reindSt030 f (track030 s t) := by
  unfold track030 reindSt030
  simp only [h.kind, countNl030_same h, List.isEmpty_map]
  split <;> simp [addLines_reind030]

theorem bumpLastF_reind030 (f : Nat → Int) (es : List (Nat × Ent030)) :
    bumpLastF030 (es.map (reindE030 f)) = (bumpLastF030 es).map (reindE030 f) := by
  induction es with
  | nil => rfl
  | cons p ps ih =>
    cases ps with
    | nil => rfl
    | cons q qs =>
      simp only [List.map_cons, bumpLastF030]
      simp only [List.map_cons] at ih
      rw [ih]

theorem entOf030_reind (f : Nat → Int) (i : Nat) {t t' : Tok2} (h : Same030 t t') (hf : f i = t'.indent) :
    entOf030 i t' = reindE030 f (entOf030 i t) := by
  unfold entOf030 reindE030 ent030
  simp only [hf]
  rw [show t'.toTok.line = t.toTok.line from h.line, show t'.toTok.col = t.toTok.col from h.col,
    show t'.toTok.content = t.toTok.content from h.content]

theorem cls030_same {t t' : Tok2} (h : Same030 t t') : cls030 t'.kind = cls030 t.kind := by rw [h.kind]

theorem step030f_reind (f : Nat → Int) (s : St030f) (i : Nat) {t t' : Tok2} (h : Same030 t t') (hf : f i = t'.indent) :
    step030f (reindSt030 f s) i t' =
      match step030f s i t with
      | .error e => .error e
      | .ok s1 => .ok (reindSt030 f s1) := by
  cases hc : cls030 t.kind with
  | start =>
    rw [step030f_start s i t hc, step030f_start _ i t' (by rw [cls030_same h, hc])]
    simp only
    rw [← track030_reind f _ h]
    congr 2
    simp only [listStart030f, reindSt030, List.map_cons, reindFr030, List.map_nil, entOf030_reind f i h hf, h.kind]
  | stop =>
    rw [step030f_stop s i t hc, step030f_stop _ i t' (by rw [cls030_same h, hc])]
    obtain ⟨stack, wb⟩ := s
    cases stack with
    | nil => rfl
    | cons fr rest =>
      simp only [reindSt030, List.map_cons]
      have := track030_reind f ⟨rest, wb⟩ h
      simp only [reindSt030] at this
      rw [this]
  | item =>
    rw [step030f_item s i t hc, step030f_item _ i t' (by rw [cls030_same h, hc])]
    obtain ⟨stack, wb⟩ := s
    cases stack with
    | nil => rfl
    | cons fr rest =>
      simp only [reindSt030, List.map_cons]
      have := track030_reind f ⟨newItem030f fr i t :: rest, false⟩ h
      simp only [reindSt030, List.map_cons] at this
      rw [← this]
      congr 3
      simp only [newItem030f, reindFr030, List.map_append, List.map_cons, List.map_nil, entOf030_reind f i h hf]
  | para =>
    rw [step030f_para s i t hc, step030f_para _ i t' (by rw [cls030_same h, hc])]
    obtain ⟨stack, wb⟩ := s
    cases stack with
    | nil =>
      simp only [reindSt030, List.map_nil]
      have := track030_reind f ⟨[], wb⟩ h
      simp only [reindSt030, List.map_nil] at this
      rw [this]
    | cons fr rest =>
      simp only [reindSt030, List.map_cons]
      have := track030_reind f ⟨{ fr with ents := bumpLastF030 fr.ents } :: rest, wb⟩ h
      simp only [reindSt030, List.map_cons] at this
      rw [← this]
      congr 3
      simp only [reindFr030, bumpLastF_reind030]
  | other =>
    rw [step030f_other s i t hc, step030f_other _ i t' (by rw [cls030_same h, hc])]
    simp only
    rw [track030_reind f s h]

theorem closing030_reind (f : Nat → Int) (s : St030f) {t t' : Tok2} (h : Same030 t t') :
    (closing030 (reindSt030 f s) t').map (·.1) = (closing030 s t).map (fun cl => reindFr030 f cl.1) := by
  unfold closing030
  rw [cls030_same h]
  split
  · obtain ⟨stack, wb⟩ := s
    cases stack <;> rfl
  · rfl

theorem steps_closings_reind030 (f : Nat → Int) : ∀ (ts ts' : List Tok2), All₂ Same030 ts ts' → ∀ (s : St030f) (i : Nat),
    (∀ j t', ts'[j]? = some t' → f (i + j) = t'.indent) →
    steps030 (reindSt030 f s) i ts' = (match steps030 s i ts with
      | .error e => .error e
      | .ok s1 => .ok (reindSt030 f s1)) ∧
    (closings030 (reindSt030 f s) i ts').map (·.1) = (closings030 s i ts).map (fun cl => reindFr030 f cl.1) := by
  intro ts ts' hs
  induction hs with
  | nil => intro s i _; exact ⟨rfl, rfl⟩
  | @cons t t' ts ts' hp _ ih =>
    intro s i hf
    have hf0 : f i = t'.indent := by simpa using hf 0 t' rfl
    have hstep := step030f_reind f s i hp hf0
    unfold steps030 closings030
    rw [hstep]
    cases hst : step030f s i t with
    | error e =>
      simp only [List.append_nil]
      exact ⟨trivial, closing030_reind f s hp⟩
    | ok s1 =>
      simp only
      obtain ⟨ih1, ih2⟩ := ih s1 (i + 1) (by
        intro j u hu
        have := hf (j + 1) u (by simpa using hu)
        rw [← this]; congr 1; omega)
      refine ⟨ih1, ?_⟩
      rw [List.map_append, List.map_append, closing030_reind f s hp, ih2]

/-! ## pointwise to `All₂` -/
theorem All₂_of_get030 {α β : Type} (P : α → β → Prop) : ∀ (as : List α) (bs : List β), as.length = bs.length →
    (∀ (i : Nat) a b, as[i]? = some a → bs[i]? = some b → P a b) → All₂ P as bs := by
  intro as
  induction as with
  | nil =>
    intro bs hl _
    cases bs with
    | nil => exact .nil
    | cons b bs => cases hl
  | cons a as ih =>
    intro bs hl h
    cases bs with
    | nil => cases hl
    | cons b bs =>
      refine .cons (h 0 a b rfl rfl) (ih bs (by simpa using hl) ?_)
      intro i x y hx hy
      exact h (i + 1) x y (by simpa using hx) (by simpa using hy)

/-- the fixed stream, token by token: the group of requests naming the token, applied; then `startIdx` normalised -/
theorem fix2_md030f_get (c : C030) (toks toks' : List Tok2) (h : fix2 md030f c toks = .ok toks') :
    toks'.length = toks.length ∧
    ∃ o, outs030 c true toks (closings030 {} 0 toks) = .ok o ∧
      ∀ i t, toks[i]? = some t → ∃ t1, hasDup2 ((groupOf2 o.reqs i).map (·.1)) = false ∧
        modAll2 t (groupOf2 o.reqs i) = .ok t1 ∧ toks'[i]? = some (normIdx030 toks.length t1) := by
  obtain ⟨s_end, o, ts1, _, houts, hts1, htoks', hlen⟩ := fix2_md030f_parts c toks toks' h
  refine ⟨by rw [htoks', List.length_map, hlen], o, houts, ?_⟩
  intro i t ht
  obtain ⟨_, hget⟩ := applyFields_get030 toks ts1 o.reqs hts1
  obtain ⟨t1, hg, ht1⟩ := hget i t ht
  obtain ⟨hdup, hmod⟩ := (applyGroup2_ok_iff030 t t1 _).mp hg
  refine ⟨t1, hdup, hmod, ?_⟩
  rw [htoks', List.getElem?_map, ht1, hlen]; rfl

theorem normIdx_same030 (n : Nat) (t : Tok2) : Same030 t (normIdx030 n t) := by
  unfold Same030 normIdx030
  split <;> rfl

theorem fix2_md030f_same (c : C030) (toks toks' : List Tok2) (h : fix2 md030f c toks = .ok toks') :
    All₂ Same030 toks toks' := by
  obtain ⟨hlen, o, houts, hget⟩ := fix2_md030f_get c toks toks' h
  apply All₂_of_get030 _ _ _ hlen.symm
  intro i t t' ht ht'
  obtain ⟨t1, _, hmod, hi⟩ := hget i t ht
  rw [ht'] at hi
  cases hi
  obtain ⟨m1, _⟩ := modAll2_style030 _ t t1 (group_style030 c toks _ o houts i) hmod
  unfold Same030 normIdx030
  split
  · rw [m1]
  · rw [m1]

/-! ## the closings of the fixed stream -/
/-- the indents of a stream, by index -/
def indentOf030 (toks : List Tok2) (k : Nat) : Int := ((toks[k]?).map (·.indent)).getD 0

theorem adj030_fixed (c : C030) (ordered : Bool) (e : Ent030) :
    adj030 c ordered { e with indent := e.indent - adj030 c ordered e } = 0 := by
  simp only [adj030, delta030]
  generalize required030 c ordered e.paras = r
  generalize (if ordered = true then (e.contentLen : Int) else 0) = x
  omega

/-- after a successful fix no entry of any closing of the fixed stream fails the check -/
theorem fix_no_viol030 (c : C030) (toks toks' : List Tok2) (h : fix2 md030f c toks = .ok toks') :
    (∀ cl ∈ closings030 {} 0 toks', viol030 c cl.1.ordered cl.1.ents = []) ∧
    ∃ s_end, steps030 {} 0 toks' = .ok s_end := by
  have hsame := fix2_md030f_same c toks toks' h
  obtain ⟨s_end, _, _, hsteps, _, _, _, _⟩ := fix2_md030f_parts c toks toks' h
  obtain ⟨h1, h2⟩ := steps_closings_reind030 (indentOf030 toks') toks toks' hsame {} 0 (by
    intro j t' hj
    simp [indentOf030, hj])
  have hinit : reindSt030 (indentOf030 toks') {} = {} := rfl
  rw [hinit] at h1 h2
  rw [hsteps] at h1
  refine ⟨?_, _, h1⟩
  intro cl' hcl'
  have hm : cl'.1 ∈ (closings030 {} 0 toks').map (·.1) := List.mem_map.mpr ⟨cl', hcl', rfl⟩
  rw [h2] at hm
  obtain ⟨cl, hcl, hfr⟩ := List.mem_map.mp hm
  rw [← hfr, viol030_nil_iff]
  intro p' hp'
  simp only [reindFr030, List.mem_map] at hp'
  obtain ⟨p, hp, rfl⟩ := hp'
  obtain ⟨t, t', _, ht', _, hind⟩ := fix_indent_key030 c toks toks' h cl hcl p hp
  have : indentOf030 toks' p.1 = p.2.indent - adj030 c cl.1.ordered p.2 := by
    simp [indentOf030, ht', hind]
  simp only [reindE030, this]
  exact adj030_fixed c cl.1.ordered p.2

/-! ## scan mode: reports from failing entries -/
/-- `report_next_token_error` for a failing entry -/
def repOf030 (c : C030) (ordered : Bool) (v : Nat × Ent030 × Int) : Report :=
  ⟨v.2.1.line, v.2.1.col, some ("Expected: ".toList ++ pyStr (required030 c ordered v.2.1.paras) ++ "; Actual: ".toList ++
    pyStr (delta030 ordered v.2.1))⟩

theorem check030_eq_viol (c : C030) (ordered : Bool) (ents : List (Nat × Ent030)) :
    check030 c ordered (ents.map (·.2)) = (viol030 c ordered ents).map (repOf030 c ordered) := by
  induction ents with
  | nil => rfl
  | cons p ps ih =>
    unfold check030 viol030 at ih ⊢
    simp only [List.map_cons, List.filterMap_cons]
    by_cases hd : delta030 ordered p.2 = required030 c ordered p.2.paras
    · have h1 : ¬ (delta030 ordered p.2 - required030 c ordered p.2.paras ≠ 0) := by omega
      have h2 : ¬ (p.2.indent - p.2.col - (if ordered = true then (p.2.contentLen : Int) else 0) ≠
          (if ordered = true then if p.2.paras > 1 then c.olMulti else c.olSingle
            else if p.2.paras > 1 then c.ulMulti else c.ulSingle)) := by
        intro hne; exact hne hd
      simp only [h1, h2, ↓reduceIte]
      exact ih
    · have h1 : delta030 ordered p.2 - required030 c ordered p.2.paras ≠ 0 := by omega
      have h2 : p.2.indent - p.2.col - (if ordered = true then (p.2.contentLen : Int) else 0) ≠
          (if ordered = true then if p.2.paras > 1 then c.olMulti else c.olSingle
            else if p.2.paras > 1 then c.ulMulti else c.ulSingle) := hd
      simp only [h1, h2, ne_eq, not_false_eq_true, ↓reduceIte, List.map_cons]
      rw [ih]
      rfl

/-- the output of a scan-mode run -/
theorem outs030_scan (c : C030) (all : List Tok2) : ∀ (cs : List (Fr030f × Tok2)),
    outs030 c false all cs =
      .ok ⟨cs.flatMap (fun cl => (viol030 c cl.1.ordered cl.1.ents).map (repOf030 c cl.1.ordered)), [], []⟩ := by
  intro cs
  induction cs with
  | nil => rfl
  | cons cl cs ih =>
    unfold outs030
    rw [ih]
    simp only [listEnd030f, Bool.false_eq_true, ↓reduceIte, List.flatMap_cons, check030_eq_viol]
    rfl

theorem outs030_fix_quiet (c : C030) (all : List Tok2) : ∀ (cs : List (Fr030f × Tok2)),
    (∀ cl ∈ cs, viol030 c cl.1.ordered cl.1.ents = []) → outs030 c true all cs = .ok {} := by
  intro cs
  induction cs with
  | nil => intro _; rfl
  | cons cl cs ih =>
    intro h
    unfold outs030
    rw [listEnd030f_fix_quiet c all cl.1 cl.2 (h cl List.mem_cons_self), ih (fun x hx => h x (List.mem_cons_of_mem _ hx))]
    rfl

/-- the scan of a stream, by its closings -/
theorem scan2_md030f_eq (c : C030) (toks : List Tok2) :
    scan2 md030f c toks =
      match steps030 {} 0 toks with
      | .error e => .error e
      | .ok _ => .ok ((closings030 {} 0 toks).flatMap (fun cl => (viol030 c cl.1.ordered cl.1.ents).map (repOf030 c cl.1.ordered))) := by
  unfold scan2
  cases hs : steps030 {} 0 toks with
  | error e =>
    cases hr : runFrom2 md030f c false toks (md030f.init c) 0 toks with
    | error e' =>
      -- the only failures of a scan-mode run are those of `steps030`
      simp only
      have : ∀ (ts : List Tok2) (s : St030f) (i : Nat) e e', steps030 s i ts = .error e →
          runFrom2 md030f c false toks s i ts = .error e' → e' = e := by
        intro ts
        induction ts with
        | nil => intro s i e e' h; cases h
        | cons t ts ih =>
          intro s i e e' h1 h2
          unfold steps030 at h1
          unfold runFrom2 at h2
          rw [show md030f.next = next030f from rfl] at h2
          unfold next030f at h2
          cases hst : step030f s i t with
          | error e0 =>
            rw [hst] at h1 h2
            cases h1; cases h2; rfl
          | ok s1 =>
            rw [hst] at h1 h2
            simp only at h1 h2
            rw [out030f_eq_outs, outs030_scan] at h2
            simp only at h2
            cases hr' : runFrom2 md030f c false toks s1 (i + 1) ts with
            | error e1 =>
              rw [hr'] at h2
              cases h2
              exact ih s1 (i + 1) e e' h1 hr'
            | ok x => rw [hr'] at h2; cases h2
      rw [this toks _ 0 e e' hs hr]
    | ok x =>
      obtain ⟨s', o⟩ := x
      obtain ⟨h1, _⟩ := runFrom2_md030f_ok c false toks toks _ 0 s' o hr
      rw [show md030f.init c = ({} : St030f) from rfl, hs] at h1
      cases h1
  | ok s_end =>
    have := runFrom2_md030f_of c false toks toks {} 0 s_end _ hs (outs030_scan c toks _)
    rw [show md030f.init c = ({} : St030f) from rfl, this]

end Verif.Model.TokenRules
