import Verif.Lemmas.TokenRules.Basic
import Verif.Model.TokenRules.MD001
namespace Verif.Model.TokenRules

/-- the two ways a fix-mode step of MD001 can end -/
theorem next001_fix_cases (c : C001) (last : Int) (i : Nat) (t : Tok) s' rp fx
    (h : next001 c true last i t = .ok (s', rp, fx)) :
    (fx = [] ∧ next001 c false last i t = .ok (s', [], [])) ∨
    (∃ hc, hash001 c t = some hc ∧ hc ≠ 0 ∧ last ≠ 0 ∧ hc > last + 1 ∧ s' = last + 1 ∧
      fx = [⟨i, .hashCount, .int (last + 1)⟩]) := by
  unfold next001 at h ⊢
  split at h
  · simp only [Except.ok.injEq, Prod.mk.injEq] at h
    obtain ⟨rfl, rfl, rfl⟩ := h
    left; simp
  · rename_i hc hh
    split at h
    · simp only [Except.ok.injEq, Prod.mk.injEq] at h
      obtain ⟨rfl, rfl, rfl⟩ := h
      left; simp [*]
    · rename_i h0
      split at h
      · rename_i htr
        simp only [↓reduceIte, Except.ok.injEq, Prod.mk.injEq] at h
        obtain ⟨rfl, rfl, rfl⟩ := h
        right
        exact ⟨hc, hh, h0, htr.1, by omega, rfl, rfl⟩
      · rename_i htr
        simp only [Except.ok.injEq, Prod.mk.injEq] at h
        obtain ⟨rfl, rfl, rfl⟩ := h
        left; simp [h0, htr]

theorem md001_local : IsLocal md001 := by
  intro c s i t s' rp fx h q hq
  rcases next001_fix_cases c s i t s' rp fx h with ⟨rfl, _⟩ | ⟨_, _, _, _, _, _, rfl⟩
  · simp at hq
  · simp at hq; simp [hq]

/-- a successful `hash_count` request: the token is an ATX heading and the value is within 1…6 -/
theorem modify_hashCount (t t' : Tok) (n : Int) (h : modify t .hashCount (.int n) = some t') :
    t.kind = .atx ∧ 1 ≤ n ∧ n ≤ 6 ∧ t' = { t with hashCount := n } := by
  unfold modify at h
  split at h <;> simp [leafMod, baseMod, listMod] at h
  rename_i hk
  obtain ⟨⟨h1, h6⟩, rfl⟩ := h
  exact ⟨hk, h1, h6, rfl⟩

theorem hash001_set (c : C001) (t : Tok) (n : Int) (hk : t.kind = .atx) :
    hash001 c { t with hashCount := n } = some n := by
  simp [hash001, hk]

/-- one step: scan on the fixed token, from the same state, reports nothing and reaches the same state -/
theorem md001_step_scan (c : C001) (s₁ s₂ : Int) (i : Nat) (t : Tok) s₁' rp fx t'
    (hR : s₁ = s₂) (hn : next001 c true s₁ i t = .ok (s₁', rp, fx))
    (ha : applyGroup t (reqPairs fx) = .ok t') :
    ∃ s₂' fx', next001 c false s₂ i t' = .ok (s₂', [], fx') ∧ s₁' = s₂' := by
  subst hR
  rcases next001_fix_cases c s₁ i t s₁' rp fx hn with ⟨rfl, h2⟩ | ⟨hc, hh, h0, hl, hgt, rfl, rfl⟩
  · simp only [reqPairs, List.map_nil, applyGroup_nil, Except.ok.injEq] at ha
    subst ha
    exact ⟨_, _, h2, rfl⟩
  · simp only [reqPairs, List.map_cons, List.map_nil, applyGroup_single] at ha
    split at ha
    · rename_i tm hm
      cases ha
      obtain ⟨hk, h1, h6, rfl⟩ := modify_hashCount _ _ _ hm
      refine ⟨s₁ + 1, [], ?_, rfl⟩
      unfold next001
      rw [hash001_set c t _ hk]
      have : ¬ (s₁ + 1 = 0) := by omega
      simp only [this, ↓reduceIte]
      have : ¬ (s₁ ≠ 0 ∧ s₁ + 1 > s₁ ∧ s₁ + 1 - s₁ > 1) := by omega
      simp only [this, ↓reduceIte]
    · cases ha

/-- one step: a second fix-mode step on the fixed token requests nothing -/
theorem md001_step_fix (c : C001) (s₁ s₂ : Int) (i : Nat) (t : Tok) s₁' rp fx t'
    (hR : s₁ = s₂) (hn : next001 c true s₁ i t = .ok (s₁', rp, fx))
    (ha : applyGroup t (reqPairs fx) = .ok t') :
    ∃ s₂' rp' fx', next001 c true s₂ i t' = .ok (s₂', rp', fx') ∧ applyGroup t' (reqPairs fx') = .ok t' ∧ s₁' = s₂' := by
  subst hR
  rcases next001_fix_cases c s₁ i t s₁' rp fx hn with ⟨rfl, h2⟩ | ⟨hc, hh, h0, hl, hgt, rfl, rfl⟩
  · simp only [reqPairs, List.map_nil, applyGroup_nil, Except.ok.injEq] at ha
    subst ha
    exact ⟨_, _, _, hn, by simp [reqPairs, applyGroup_nil], rfl⟩
  · simp only [reqPairs, List.map_cons, List.map_nil, applyGroup_single] at ha
    split at ha
    · rename_i tm hm
      cases ha
      obtain ⟨hk, h1, h6, rfl⟩ := modify_hashCount _ _ _ hm
      refine ⟨s₁ + 1, [], [], ?_, by simp [reqPairs, applyGroup_nil], rfl⟩
      unfold next001
      rw [hash001_set c t _ hk]
      have : ¬ (s₁ + 1 = 0) := by omega
      simp only [this, ↓reduceIte]
      have : ¬ (s₁ ≠ 0 ∧ s₁ + 1 > s₁ ∧ s₁ + 1 - s₁ > 1) := by omega
      simp only [this, ↓reduceIte]
    · cases ha

/-- the fix is `clamp001` -/
theorem md001_fixFrom_clamp (c : C001) :
    ∀ (ts : List Tok) (last : Int) (i : Nat) ts', fixFrom md001 c last i ts = .ok ts' → ts' = clamp001 c last ts := by
  intro ts
  induction ts with
  | nil => intro last i ts' h; simp [fixFrom] at h; simp [clamp001, h]
  | cons t ts ih =>
    intro last i ts' h
    unfold fixFrom at h
    rw [show md001.next c true last i t = next001 c true last i t from rfl] at h
    unfold next001 at h
    unfold clamp001
    cases hh : hash001 c t with
    | none =>
      simp only [hh, List.map_nil, applyGroup_nil] at h ⊢
      split at h
      · cases h
      · rename_i tl hr; cases h; rw [ih _ _ _ hr]
    | some hc =>
      simp only [hh] at h ⊢
      by_cases h0 : hc = 0
      · simp only [h0, ↓reduceIte, List.map_nil, applyGroup_nil] at h ⊢
        split at h
        · cases h
        · rename_i tl hr; cases h; rw [ih _ _ _ hr]
      · simp only [h0, ↓reduceIte] at h ⊢
        by_cases htr : last ≠ 0 ∧ hc > last ∧ hc - last > 1
        · rw [if_pos htr] at h ⊢
          simp only [List.map_cons, List.map_nil, applyGroup_single] at h ⊢
          cases hm : modify t .hashCount (.int (last + 1)) with
          | none => simp only [hm] at h; cases h
          | some tm =>
            simp only [hm] at h
            obtain ⟨hk, h1, h6, rfl⟩ := modify_hashCount _ _ _ hm
            split at h
            · cases h
            · rename_i tl hr; cases h; rw [ih _ _ _ hr]
        · rw [if_neg htr] at h ⊢
          simp only [List.map_nil, applyGroup_nil] at h ⊢
          split at h
          · cases h
          · rename_i tl hr; cases h; rw [ih _ _ _ hr]

/-- `clamp001` changes only `hash_count`, only of ATX headings … -/
theorem clamp001_all₂ (c : C001) : ∀ (ts : List Tok) (last : Int),
    All₂ (fun t t' => t' = { t with hashCount := t'.hashCount } ∧ (t' ≠ t → t.kind = .atx ∨ t.kind = .setext ∨ t.kind = .frontMatter))
      ts (clamp001 c last ts) := by
  intro ts
  induction ts with
  | nil => intro _; exact .nil
  | cons t ts ih =>
    intro last
    unfold clamp001
    split
    · exact .cons ⟨rfl, by simp⟩ (ih _)
    · rename_i hc hh
      split
      · exact .cons ⟨rfl, by simp⟩ (ih _)
      · split
        · refine .cons ⟨rfl, ?_⟩ (ih _)
          intro _
          unfold hash001 at hh
          split at hh <;> simp_all
        · exact .cons ⟨rfl, by simp⟩ (ih _)

/-! ## scan = the documented condition -/
def scanGo001 (c : C001) : Int → List Tok → List Report
  | _, [] => []
  | last, t :: ts =>
    match hash001 c t with
    | none => scanGo001 c last ts
    | some h =>
      if h = 0 then scanGo001 c last ts
      else (if last ≠ 0 ∧ h > last ∧ h - last > 1 then [⟨t.line, t.col, some (extra001 last h)⟩] else []) ++ scanGo001 c h ts

theorem md001_runFrom_scan (c : C001) : ∀ (ts : List Tok) (last : Int) (i : Nat),
    ∃ s', runFrom md001 c false last i ts = .ok (s', scanGo001 c last ts, []) := by
  intro ts
  induction ts with
  | nil => intro last i; exact ⟨_, rfl⟩
  | cons t ts ih =>
    intro last i
    unfold runFrom scanGo001
    rw [show md001.next c false last i t = next001 c false last i t from rfl]
    unfold next001
    cases hh : hash001 c t with
    | none => obtain ⟨s', h⟩ := ih last (i + 1); simp [h]
    | some hc =>
      simp only
      by_cases h0 : hc = 0
      · obtain ⟨s', h⟩ := ih last (i + 1); simp [h0, h]
      · obtain ⟨s', h⟩ := ih hc (i + 1)
        by_cases htr : last ≠ 0 ∧ hc > last ∧ hc - last > 1 <;> simp [h0, htr, h]

end Verif.Model.TokenRules

namespace Verif.Model.TokenRules

/-- one step of the fix: only `hash_count` of an ATX heading changes, and it goes DOWN, to a level ≥ 1 -/
def Style001 (t t' : Tok) : Prop :=
  t' = { t with hashCount := t'.hashCount } ∧
  (t' ≠ t → t.kind = .atx ∧ t'.hashCount < t.hashCount ∧ 1 ≤ t'.hashCount ∧ t'.hashCount ≤ 6)

theorem md001_step_style (c : C001) (s : Int) (i : Nat) (t : Tok) s' rp fx t'
    (hn : next001 c true s i t = .ok (s', rp, fx)) (ha : applyGroup t (reqPairs fx) = .ok t') :
    Style001 t t' := by
  rcases next001_fix_cases c s i t s' rp fx hn with ⟨rfl, _⟩ | ⟨hc, hh, h0, hl, hgt, rfl, rfl⟩
  · simp only [List.map_nil, applyGroup_nil, Except.ok.injEq] at ha
    subst ha; exact ⟨rfl, fun h => absurd rfl h⟩
  · simp only [List.map_cons, List.map_nil, applyGroup_single] at ha
    split at ha
    · rename_i tm hm
      cases ha
      obtain ⟨hk, h1, h6, rfl⟩ := modify_hashCount _ _ _ hm
      refine ⟨rfl, fun _ => ⟨hk, ?_, h1, h6⟩⟩
      simp only [hash001, hk, Option.some.injEq] at hh
      simp only; omega
    · cases ha

/-- one step succeeds on a well-formed token when the remembered level is within 0…6 -/
theorem md001_step_ok (c : C001) (s : Int) (i : Nat) (t : Tok) (hI : 0 ≤ s ∧ s ≤ 6) (hW : wf001 t = true) :
    ∃ s' rp fx t', next001 c true s i t = .ok (s', rp, fx) ∧ applyGroup t (reqPairs fx) = .ok t' ∧ (0 ≤ s' ∧ s' ≤ 6) := by
  unfold next001
  cases hh : hash001 c t with
  | none => exact ⟨_, _, _, t, rfl, by simp [applyGroup_nil], hI⟩
  | some hc =>
    simp only
    by_cases h0 : hc = 0
    · rw [if_pos h0]; exact ⟨_, _, _, t, rfl, by simp [applyGroup_nil], hI⟩
    · rw [if_neg h0]
      have hrange : 1 ≤ hc ∧ hc ≤ 6 ∧ (2 < hc → t.kind = .atx ∧ t.hashCount = hc) := by
        unfold hash001 at hh
        unfold wf001 at hW
        split at hh
        · simp_all
        · simp_all; omega
        · split at hh
          · simp only [Option.some.injEq] at hh; omega
          · cases hh
        · cases hh
      by_cases htr : s ≠ 0 ∧ hc > s ∧ hc - s > 1
      · rw [if_pos htr]
        obtain ⟨hk, _⟩ := hrange.2.2 (by omega)
        have hm : modify t .hashCount (.int (s + 1)) = some { t with hashCount := s + 1 } := by
          unfold modify
          rw [hk]
          have : 1 ≤ s + 1 ∧ s + 1 ≤ 6 := by omega
          simp [this]
        refine ⟨_, _, _, { t with hashCount := s + 1 }, rfl, ?_, by omega⟩
        simp only [List.map_cons, List.map_nil, applyGroup_single, hm]
      · rw [if_neg htr]
        exact ⟨_, _, _, t, rfl, by simp [applyGroup_nil], by omega⟩

/-! ## the documented condition -/
theorem headings001_cons (c : C001) (t : Tok) (ts : List Tok) :
    headings001 c (t :: ts) =
      (match hash001 c t with
       | some h => if h = 0 then [] else [(h, t)]
       | none => []) ++ headings001 c ts := by
  unfold headings001
  rw [List.filterMap_cons]
  cases hash001 c t with
  | none => rfl
  | some h => by_cases h0 : h = 0 <;> simp [h0]

/-- on well-formed streams (every level ≥ 1) the code's test is "exceeds the previous level by more than one" -/
theorem scanGo001_eq_jumps (c : C001) : ∀ (ts : List Tok) (last : Int), (∀ t ∈ ts, wf001 t = true) → 0 ≤ last →
    (scanGo001 c last ts).map (fun r => (r.line, r.col)) =
      (jumps001 (if last = 0 then none else some last) (headings001 c ts)).map (fun t => (t.line, t.col)) := by
  intro ts
  induction ts with
  | nil => intro last _ _; simp [scanGo001, headings001, jumps001]
  | cons t ts ih =>
    intro last hW hl
    have hWt := hW t List.mem_cons_self
    have hWts : ∀ u ∈ ts, wf001 u = true := fun u hu => hW u (List.mem_cons_of_mem _ hu)
    unfold scanGo001
    rw [headings001_cons]
    cases hh : hash001 c t with
    | none => simpa using ih last hWts hl
    | some hc =>
      simp only
      by_cases h0 : hc = 0
      · simp only [h0, ↓reduceIte]; simpa using ih last hWts hl
      · simp only [h0, ↓reduceIte]
        have hpos : 1 ≤ hc := by
          unfold hash001 at hh
          unfold wf001 at hWt
          split at hh
          · simp_all
          · simp_all
          · split at hh
            · simp only [Option.some.injEq] at hh; omega
            · cases hh
          · cases hh
        have ihc := ih hc hWts (by omega)
        simp only [h0, ↓reduceIte] at ihc
        by_cases hl0 : last = 0
        · subst hl0
          simp only [ne_eq, not_true_eq_false, false_and, ↓reduceIte, List.nil_append, List.cons_append, jumps001]
          exact ihc
        · simp only [hl0, ↓reduceIte, List.cons_append, List.nil_append, jumps001, List.map_append]
          rw [← ihc]
          congr 1
          by_cases hj : hc > last + 1
          · have : last ≠ 0 ∧ hc > last ∧ hc - last > 1 := by omega
            rw [if_pos hj, if_pos this]; rfl
          · have : ¬ (last ≠ 0 ∧ hc > last ∧ hc - last > 1) := by omega
            rw [if_neg hj, if_neg this]; rfl

end Verif.Model.TokenRules

namespace Verif.Model.TokenRules

/-- one step, both modes: the fixed token is silent and leads to the same state -/
theorem md001_step_quiet (c : C001) (s : Int) (i : Nat) (t : Tok) s' rp fx t'
    (hn : next001 c true s i t = .ok (s', rp, fx)) (ha : applyGroup t (reqPairs fx) = .ok t') :
    ∀ fm, next001 c fm s i t' = .ok (s', [], []) := by
  intro fm
  cases fm with
  | false =>
    obtain ⟨s₂', fx', h1, h2⟩ := md001_step_scan c s s i t s' rp fx t' rfl hn ha
    subst h2
    have : fx' = [] := by
      unfold next001 at h1
      split at h1
      · simp only [Except.ok.injEq, Prod.mk.injEq] at h1; exact h1.2.2.symm
      · split at h1
        · simp only [Except.ok.injEq, Prod.mk.injEq] at h1; exact h1.2.2.symm
        · split at h1
          · simp only [Bool.false_eq_true, ↓reduceIte, Except.ok.injEq, Prod.mk.injEq] at h1; exact h1.2.2.symm
          · simp only [Except.ok.injEq, Prod.mk.injEq] at h1; exact h1.2.2.symm
    rw [this] at h1; exact h1
  | true =>
    obtain ⟨s₂', rp', fx', h1, h2, h3⟩ := md001_step_fix c s s i t s' rp fx t' rfl hn ha
    subst h3
    have hrp : rp' = [] := by
      unfold next001 at h1
      split at h1
      · simp only [Except.ok.injEq, Prod.mk.injEq] at h1; exact h1.2.1.symm
      · split at h1
        · simp only [Except.ok.injEq, Prod.mk.injEq] at h1; exact h1.2.1.symm
        · split at h1
          · simp only [↓reduceIte, Except.ok.injEq, Prod.mk.injEq] at h1; exact h1.2.1.symm
          · simp only [Except.ok.injEq, Prod.mk.injEq] at h1; exact h1.2.1.symm
    subst hrp
    rcases next001_fix_cases c s i t' s' [] fx' h1 with ⟨rfl, _⟩ | ⟨hc, hh, h0, hl, hgt, hs, rfl⟩
    · exact h1
    · -- a second request would change the token again, but the second application left it unchanged: impossible
      simp only [List.map_cons, List.map_nil, applyGroup_single] at h2
      split at h2
      · rename_i tm hm
        obtain ⟨hk, _, _, rfl⟩ := modify_hashCount _ _ _ hm
        simp only [Except.ok.injEq] at h2
        have := congrArg Tok.hashCount h2
        simp only [hash001, hk, Option.some.injEq] at hh
        simp only at this
        omega
      · cases h2

end Verif.Model.TokenRules
