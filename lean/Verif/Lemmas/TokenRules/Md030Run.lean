import Verif.Model.TokenRules.Md030
import Verif.Lemmas.TokenRules.Basic
/-!
  MD030 over `Tok2`: the run of the rule as (a) the state sequence `steps030` (independent of mode, configuration and the rest of the
  stream) and (b) the list of CLOSINGS `closings030` — for every list end token the frame of the level it closes — to which
  `listEnd030f` is applied.  Reports and requests are the concatenation of the closings' outputs.
-/
namespace Verif.Model.TokenRules

/-! ## the five classes of tokens the rule tells apart -/
inductive Cls030 where
  | start | stop | item | para | other
  deriving DecidableEq, Repr

def cls030 : Kind → Cls030
  | .ulist | .olist => .start
  | .ulistEnd | .olistEnd => .stop
  | .li => .item
  | .para => .para
  | _ => .other

theorem step030f_start (s : St030f) (i : Nat) (t : Tok2) (h : cls030 t.kind = .start) :
    step030f s i t = .ok (track030 (listStart030f s i t) t) := by
  unfold step030f; cases hk : t.kind <;> simp_all [cls030] <;> (cases s.stack <;> rfl)

theorem step030f_stop (s : St030f) (i : Nat) (t : Tok2) (h : cls030 t.kind = .stop) :
    step030f s i t = match s.stack with
      | [] => .error .assertion
      | _ :: rest => .ok (track030 { s with stack := rest } t) := by
  unfold step030f; cases hk : t.kind <;> simp_all [cls030] <;> (cases s.stack <;> rfl)

theorem step030f_item (s : St030f) (i : Nat) (t : Tok2) (h : cls030 t.kind = .item) :
    step030f s i t = match s.stack with
      | [] => .error .indexError
      | fr :: rest => .ok (track030 ⟨newItem030f fr i t :: rest, false⟩ t) := by
  unfold step030f; cases hk : t.kind <;> simp_all [cls030] <;> (cases s.stack <;> rfl)

theorem step030f_para (s : St030f) (i : Nat) (t : Tok2) (h : cls030 t.kind = .para) :
    step030f s i t = match s.stack with
      | [] => .ok (track030 s t)
      | fr :: rest => .ok (track030 { s with stack := { fr with ents := bumpLastF030 fr.ents } :: rest } t) := by
  unfold step030f; cases hk : t.kind <;> simp_all [cls030] <;> (cases s.stack <;> rfl)

theorem step030f_other (s : St030f) (i : Nat) (t : Tok2) (h : cls030 t.kind = .other) :
    step030f s i t = .ok (track030 s t) := by
  unfold step030f; cases hk : t.kind <;> simp_all [cls030] <;> (cases s.stack <;> rfl)

theorem out030f_stop (c : C030) (fm : Bool) (all : List Tok2) (s : St030f) (t : Tok2) (h : cls030 t.kind = .stop) :
    out030f c fm all s t = match s.stack with
      | [] => .ok {}
      | fr :: _ => listEnd030f c fm all fr t := by
  unfold out030f; cases hk : t.kind <;> simp_all [cls030] <;> (cases s.stack <;> rfl)

theorem out030f_not_stop (c : C030) (fm : Bool) (all : List Tok2) (s : St030f) (t : Tok2) (h : cls030 t.kind ≠ .stop) :
    out030f c fm all s t = .ok {} := by
  unfold out030f; cases hk : t.kind <;> simp_all [cls030] <;> (cases s.stack <;> rfl)

/-! ## states and closings -/
def steps030 : St030f → Nat → List Tok2 → Except Err2 St030f
  | s, _, [] => .ok s
  | s, i, t :: ts =>
    match step030f s i t with
    | .error e => .error e
    | .ok s' => steps030 s' (i + 1) ts

/-- the closing (if any) the token `t` causes in state `s` -/
def closing030 (s : St030f) (t : Tok2) : List (Fr030f × Tok2) :=
  if cls030 t.kind = .stop then
    match s.stack with
    | [] => []
    | fr :: _ => [(fr, t)]
  else []

def closings030 : St030f → Nat → List Tok2 → List (Fr030f × Tok2)
  | _, _, [] => []
  | s, i, t :: ts =>
    closing030 s t ++
    match step030f s i t with
    | .error _ => []
    | .ok s' => closings030 s' (i + 1) ts

def outs030 (c : C030) (fm : Bool) (all : List Tok2) : List (Fr030f × Tok2) → Except Err2 Out
  | [] => .ok {}
  | cl :: cs =>
    match listEnd030f c fm all cl.1 cl.2 with
    | .error e => .error e
    | .ok o =>
      match outs030 c fm all cs with
      | .error e => .error e
      | .ok os => .ok (o ++ os)

theorem Out.nil_append030 (o : Out) : ({} : Out) ++ o = o := by
  cases o; rfl

theorem Out.append_nil030 (o : Out) : o ++ ({} : Out) = o := by
  obtain ⟨a, b, d⟩ := o
  show Out.append _ _ = _
  simp [Out.append]

theorem out030f_eq_outs (c : C030) (fm : Bool) (all : List Tok2) (s : St030f) (t : Tok2) :
    out030f c fm all s t = outs030 c fm all (closing030 s t) := by
  unfold closing030
  by_cases h : cls030 t.kind = .stop
  · rw [out030f_stop c fm all s t h]
    simp only [h, ↓reduceIte]
    cases s.stack with
    | nil => rfl
    | cons fr rest =>
      simp only [outs030]
      cases listEnd030f c fm all fr t with
      | error e => rfl
      | ok o => simp [Out.append_nil030]
  · rw [out030f_not_stop c fm all s t h]
    simp [h, outs030]

theorem outs030_append (c : C030) (fm : Bool) (all : List Tok2) : ∀ (as bs : List (Fr030f × Tok2)),
    outs030 c fm all (as ++ bs) =
      match outs030 c fm all as with
      | .error e => .error e
      | .ok o =>
        match outs030 c fm all bs with
        | .error e => .error e
        | .ok os => .ok (o ++ os) := by
  intro as
  induction as with
  | nil =>
    intro bs
    simp only [List.nil_append, outs030]
    cases outs030 c fm all bs with
    | error e => rfl
    | ok os => simp [Out.nil_append030]
  | cons a as ih =>
    intro bs
    simp only [List.cons_append, outs030, ih]
    cases listEnd030f c fm all a.1 a.2 with
    | error e => rfl
    | ok o =>
      simp only
      cases outs030 c fm all as with
      | error e => rfl
      | ok o1 =>
        simp only
        cases outs030 c fm all bs with
        | error e => rfl
        | ok o2 =>
          simp only
          obtain ⟨a1, a2, a3⟩ := o
          obtain ⟨b1, b2, b3⟩ := o1
          obtain ⟨c1, c2, c3⟩ := o2
          show Except.ok (Out.append _ (Out.append _ _)) = Except.ok (Out.append (Out.append _ _) _)
          simp [Out.append]

/-- a successful run: its state is `steps030`, its output the closings' outputs -/
theorem runFrom2_md030f_ok (c : C030) (fm : Bool) (all : List Tok2) : ∀ (ts : List Tok2) (s : St030f) (i : Nat) (s' : St030f) (o : Out),
    runFrom2 md030f c fm all s i ts = .ok (s', o) →
    steps030 s i ts = .ok s' ∧ outs030 c fm all (closings030 s i ts) = .ok o := by
  intro ts
  induction ts with
  | nil =>
    intro s i s' o h
    simp only [runFrom2, Except.ok.injEq, Prod.mk.injEq] at h
    obtain ⟨h1, h2⟩ := h
    subst h1 h2
    exact ⟨rfl, rfl⟩
  | cons t ts ih =>
    intro s i s' o h
    unfold runFrom2 at h
    rw [show md030f.next = next030f from rfl] at h
    unfold next030f at h
    cases hst : step030f s i t with
    | error e => rw [hst] at h; cases h
    | ok s1 =>
      rw [hst] at h
      simp only at h
      cases hout : out030f c fm all s t with
      | error e => rw [hout] at h; cases h
      | ok o1 =>
        rw [hout] at h
        simp only at h
        cases hr : runFrom2 md030f c fm all s1 (i + 1) ts with
        | error e => rw [hr] at h; cases h
        | ok x =>
          obtain ⟨s2, o2⟩ := x
          rw [hr] at h
          simp only [Except.ok.injEq, Prod.mk.injEq] at h
          obtain ⟨h1, h2⟩ := h
          subst h1 h2
          obtain ⟨ih1, ih2⟩ := ih s1 (i + 1) s2 o2 hr
          refine ⟨by simp only [steps030, hst]; exact ih1, ?_⟩
          simp only [closings030, hst, outs030_append, ← out030f_eq_outs, hout, ih2]

/-- and conversely -/
theorem runFrom2_md030f_of (c : C030) (fm : Bool) (all : List Tok2) : ∀ (ts : List Tok2) (s : St030f) (i : Nat) (s' : St030f) (o : Out),
    steps030 s i ts = .ok s' → outs030 c fm all (closings030 s i ts) = .ok o →
    runFrom2 md030f c fm all s i ts = .ok (s', o) := by
  intro ts
  induction ts with
  | nil =>
    intro s i s' o h1 h2
    simp only [steps030, Except.ok.injEq] at h1
    simp only [closings030, outs030, Except.ok.injEq] at h2
    subst h1 h2
    rfl
  | cons t ts ih =>
    intro s i s' o h1 h2
    unfold steps030 at h1
    cases hst : step030f s i t with
    | error e => rw [hst] at h1; cases h1
    | ok s1 =>
      rw [hst] at h1
      simp only at h1
      simp only [closings030, hst, outs030_append, ← out030f_eq_outs] at h2
      cases hout : out030f c fm all s t with
      | error e => rw [hout] at h2; cases h2
      | ok o1 =>
        rw [hout] at h2
        simp only at h2
        cases hcs : outs030 c fm all (closings030 s1 (i + 1) ts) with
        | error e => rw [hcs] at h2; cases h2
        | ok o2 =>
          rw [hcs] at h2
          simp only [Except.ok.injEq] at h2
          subst h2
          unfold runFrom2
          rw [show md030f.next = next030f from rfl]
          unfold next030f
          rw [hst]
          simp only [hout]
          rw [ih s1 (i + 1) s' o2 h1 hcs]

/-- when the state sequence does not fail, the run is decided by the closings' outputs (first failure included) -/
theorem runFrom2_md030f_steps_ok (c : C030) (fm : Bool) (all : List Tok2) : ∀ (ts : List Tok2) (s : St030f) (i : Nat) (s' : St030f),
    steps030 s i ts = .ok s' →
    runFrom2 md030f c fm all s i ts =
      match outs030 c fm all (closings030 s i ts) with
      | .error e => .error e
      | .ok o => .ok (s', o) := by
  intro ts
  induction ts with
  | nil =>
    intro s i s' h1
    simp only [steps030, Except.ok.injEq] at h1
    subst h1
    rfl
  | cons t ts ih =>
    intro s i s' h1
    unfold steps030 at h1
    cases hst : step030f s i t with
    | error e => rw [hst] at h1; cases h1
    | ok s1 =>
      rw [hst] at h1
      simp only at h1
      unfold runFrom2
      rw [show md030f.next = next030f from rfl]
      unfold next030f
      simp only [closings030, hst, outs030_append, ← out030f_eq_outs]
      cases hout : out030f c fm all s t with
      | error e => rfl
      | ok o1 =>
        simp only
        rw [ih s1 (i + 1) s' h1]
        cases outs030 c fm all (closings030 s1 (i + 1) ts) with
        | error e => rfl
        | ok o2 => rfl

end Verif.Model.TokenRules
