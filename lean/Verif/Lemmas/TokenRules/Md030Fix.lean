import Verif.Lemmas.TokenRules.Md030Inv
import Verif.Lemmas.TokenRules.Md030Mod
/-!
  MD030 over `Tok2`, fix mode: what a closing requests, and the fixed stream position by position
  (`fix_indent_key030`: after a successful fix every token of every closing has the indent the rule asked for, i.e. its own when
  nothing was asked).
-/
namespace Verif.Model.TokenRules

/-! ## what one closing requests -/
/-- `adjust_amount` of an entry: `delta − required_spaces` -/
def adj030 (c : C030) (ordered : Bool) (e : Ent030) : Int := delta030 ordered e - required030 c ordered e.paras

theorem mem_viol030 (c : C030) (ordered : Bool) (ents : List (Nat × Ent030)) (v : Nat × Ent030 × Int) :
    v ∈ viol030 c ordered ents ↔ (v.1, v.2.1) ∈ ents ∧ v.2.2 = adj030 c ordered v.2.1 ∧ v.2.2 ≠ 0 := by
  unfold viol030
  simp only [List.mem_filterMap]
  constructor
  · rintro ⟨p, hp, h⟩
    split at h
    · rename_i hne
      simp only [Option.some.injEq] at h
      subst h
      exact ⟨hp, rfl, hne⟩
    · cases h
  · rintro ⟨h1, h2, h3⟩
    refine ⟨(v.1, v.2.1), h1, ?_⟩
    have : delta030 ordered v.2.1 - required030 c ordered v.2.1.paras ≠ 0 := by
      have := h2 ▸ h3
      exact this
    simp only [this, ne_eq, not_false_eq_true, ↓reduceIte, Option.some.injEq]
    obtain ⟨a, b, d⟩ := v
    simp only [adj030] at h2
    simp [h2]

theorem viol030_nil_iff (c : C030) (ordered : Bool) (ents : List (Nat × Ent030)) :
    viol030 c ordered ents = [] ↔ ∀ p ∈ ents, adj030 c ordered p.2 = 0 := by
  unfold viol030
  rw [List.filterMap_eq_nil_iff]
  constructor
  · intro h p hp
    have := h p hp
    by_cases h0 : delta030 ordered p.2 - required030 c ordered p.2.paras = 0
    · exact h0
    · simp [h0] at this
  · intro h p hp
    have := h p hp
    simp only [adj030] at this
    simp [this]

/-- the shape of a successful `__next_token_list_end_registrations` -/
theorem regs030_shape (all : List Tok2) (t : Tok2) (fr : Fr030f) (regs : List (Nat × Int)) (rq : List FixReq2)
    (h : regs030 all t fr regs = .ok rq) :
    ∃ j lt, t.startIdx = some j ∧ all[j]? = some lt ∧ (lt.kind = .ulist ∨ lt.kind = .olist) ∧
      (rq = [] ∨ ∃ ld ls, lt.leading = some ld ∧ ld ≠ [] ∧ regsGo030 fr regs (splitOn1 '\n' ld) = .ok ls ∧
        joinWith ['\n'] ls ≠ ld ∧ rq = [⟨j, .base .leadingSpaces, .str (joinWith ['\n'] ls)⟩]) := by
  unfold regs030 at h
  split at h
  · cases h
  · rename_i j hj
    split at h
    · cases h
    · rename_i lt hlt
      split at h
      · cases h
      · rename_i hk
        have hk' : lt.kind = .ulist ∨ lt.kind = .olist := by
          by_cases h1 : lt.kind = .ulist
          · exact .inl h1
          · by_cases h2 : lt.kind = .olist
            · exact .inr h2
            · exact absurd ⟨h1, h2⟩ hk
        refine ⟨j, lt, hj, hlt, hk', ?_⟩
        split at h
        · cases h; exact .inl rfl
        · rename_i ld hld
          split at h
          · cases h; exact .inl rfl
          · rename_i hne
            split at h
            · cases h
            · rename_i ls hls
              simp only at h
              split at h
              · rename_i hdiff
                cases h
                refine .inr ⟨ld, ls, hld, ?_, hls, hdiff, rfl⟩
                intro he; subst he; simp at hne
              · cases h; exact .inl rfl

/-- the shape of a successful list end in fix mode -/
theorem listEnd030f_fix (c : C030) (all : List Tok2) (fr : Fr030f) (t : Tok2) (o : Out)
    (h : listEnd030f c true all fr t = .ok o) :
    o.reports = [] ∧ o.repls = [] ∧ ∃ lead, o.reqs = (viol030 c fr.ordered fr.ents).map indentReq030 ++ lead ∧
      (lead = [] ∨ (viol030 c fr.ordered fr.ents ≠ [] ∧
        regs030 all t { fr with ends := dictSet030 fr.cur fr.lineCount fr.ends } (regMap030 (viol030 c fr.ordered fr.ents)) = .ok lead)) := by
  unfold listEnd030f at h
  simp only [↓reduceIte] at h
  split at h
  · cases h
    exact ⟨rfl, rfl, [], by simp, .inl rfl⟩
  · rename_i hne
    split at h
    · cases h
    · rename_i rq hrq
      cases h
      refine ⟨rfl, rfl, rq, rfl, .inr ⟨?_, hrq⟩⟩
      intro hv
      rw [hv] at hne
      simp [regMap030] at hne

/-- nothing fails the check: nothing is requested, whatever the end token names -/
theorem listEnd030f_fix_quiet (c : C030) (all : List Tok2) (fr : Fr030f) (t : Tok2) (h : viol030 c fr.ordered fr.ents = []) :
    listEnd030f c true all fr t = .ok {} := by
  unfold listEnd030f
  simp only [↓reduceIte, h]
  rfl

/-! ## the output of a fix-mode run -/
theorem outs030_fix (c : C030) (all : List Tok2) : ∀ (cs : List (Fr030f × Tok2)) (o : Out), outs030 c true all cs = .ok o →
    o.reports = [] ∧ o.repls = [] ∧
    (∀ q ∈ o.reqs, ∃ cl ∈ cs, ∃ ocl, listEnd030f c true all cl.1 cl.2 = .ok ocl ∧ q ∈ ocl.reqs) ∧
    (∀ cl ∈ cs, ∃ ocl, listEnd030f c true all cl.1 cl.2 = .ok ocl ∧ ∀ q ∈ ocl.reqs, q ∈ o.reqs) := by
  intro cs
  induction cs with
  | nil =>
    intro o h
    simp only [outs030, Except.ok.injEq] at h
    subst h
    exact ⟨rfl, rfl, (by intro q hq; cases hq), (by intro cl hcl; cases hcl)⟩
  | cons cl cs ih =>
    intro o h
    unfold outs030 at h
    split at h
    · cases h
    · rename_i o1 h1
      split at h
      · cases h
      · rename_i o2 h2
        cases h
        obtain ⟨i1, i2, i3, i4⟩ := ih o2 h2
        obtain ⟨l1, l2, _⟩ := listEnd030f_fix c all cl.1 cl.2 o1 h1
        refine ⟨?_, ?_, ?_, ?_⟩
        · show o1.reports ++ o2.reports = []
          rw [l1, i1]; rfl
        · show o1.repls ++ o2.repls = []
          rw [l2, i2]; rfl
        · intro q hq
          have hq' : q ∈ o1.reqs ++ o2.reqs := hq
          rcases List.mem_append.mp hq' with hq' | hq'
          · exact ⟨cl, List.mem_cons_self, o1, h1, hq'⟩
          · obtain ⟨cl', hcl', ocl, h3, h4⟩ := i3 q hq'
            exact ⟨cl', List.mem_cons_of_mem _ hcl', ocl, h3, h4⟩
        · intro cl' hcl'
          rcases List.mem_cons.mp hcl' with hcl' | hcl'
          · subst hcl'
            refine ⟨o1, h1, ?_⟩
            intro q hq
            show q ∈ o1.reqs ++ o2.reqs
            exact List.mem_append_left _ hq
          · obtain ⟨ocl, h3, h4⟩ := i4 cl' hcl'
            refine ⟨ocl, h3, ?_⟩
            intro q hq
            show q ∈ o1.reqs ++ o2.reqs
            exact List.mem_append_right _ (h4 q hq)

/-- every request of a closing is one of MD030's two shapes; an `indent_level` request comes from a failing entry -/
theorem listEnd030f_req (c : C030) (all : List Tok2) (fr : Fr030f) (t : Tok2) (o : Out)
    (h : listEnd030f c true all fr t = .ok o) (q : FixReq2) (hq : q ∈ o.reqs) :
    (∃ v ∈ viol030 c fr.ordered fr.ents, q = indentReq030 v) ∨
    (∃ s, q.field = .base .leadingSpaces ∧ q.val = .str s ∧ t.startIdx = some q.idx) := by
  obtain ⟨_, _, lead, hl, hlead⟩ := listEnd030f_fix c all fr t o h
  rw [hl] at hq
  rcases List.mem_append.mp hq with hq | hq
  · obtain ⟨v, hv, rfl⟩ := List.mem_map.mp hq
    exact .inl ⟨v, hv, rfl⟩
  · rcases hlead with hlead | ⟨_, hlead⟩
    · rw [hlead] at hq; cases hq
    · obtain ⟨j, lt, hj, _, _, hrq⟩ := regs030_shape all t _ _ lead hlead
      rcases hrq with hrq | ⟨ld, ls, _, _, _, _, hrq⟩
      · rw [hrq] at hq; cases hq
      · rw [hrq] at hq
        simp only [List.mem_singleton] at hq
        subst hq
        exact .inr ⟨_, rfl, rfl, hj⟩

theorem nodup_fst_unique030 {α : Type} : ∀ (l : List (Nat × α)), (l.map (·.1)).Nodup → ∀ k a b, (k, a) ∈ l → (k, b) ∈ l → a = b := by
  intro l
  induction l with
  | nil => intro _ k a b h; cases h
  | cons p ps ih =>
    intro hnd k a b ha hb
    simp only [List.map_cons, List.nodup_cons] at hnd
    obtain ⟨h1, h2⟩ := hnd
    rcases List.mem_cons.mp ha with ha | ha <;> rcases List.mem_cons.mp hb with hb | hb
    · rw [← ha] at hb; cases hb; rfl
    · exfalso; apply h1
      rw [← ha]
      exact List.mem_map.mpr ⟨(k, b), hb, rfl⟩
    · exfalso; apply h1
      rw [← hb]
      exact List.mem_map.mpr ⟨(k, a), ha, rfl⟩
    · exact ih h2 k a b ha hb

/-! ## the fixed stream -/
/-- what `fix2 md030f c toks = .ok toks'` consists of -/
theorem fix2_md030f_parts (c : C030) (toks toks' : List Tok2) (h : fix2 md030f c toks = .ok toks') :
    ∃ s_end o ts1, steps030 {} 0 toks = .ok s_end ∧ outs030 c true toks (closings030 {} 0 toks) = .ok o ∧
      applyFields toks o.reqs = .ok ts1 ∧ toks' = ts1.map (normIdx030 ts1.length) ∧ ts1.length = toks.length := by
  unfold fix2 fixOut at h
  split at h
  · cases h
  · rename_i o ho
    split at ho
    · cases ho
    · rename_i s_end o' hr
      cases ho
      obtain ⟨h1, h2⟩ := runFrom2_md030f_ok c true toks toks _ 0 s_end o hr
      obtain ⟨_, hrepl, _, _⟩ := outs030_fix c toks _ o h2
      rw [hrepl, applyFixes2_noRepl030] at h
      split at h
      · cases h
      · rename_i ts1 hts1
        cases h
        exact ⟨s_end, o, ts1, h1, h2, hts1, rfl, (applyFields_get030 toks ts1 o.reqs hts1).1⟩

/-- every request of the run is one of MD030's two shapes -/
theorem group_style030 (c : C030) (all : List Tok2) (cs : List (Fr030f × Tok2)) (o : Out) (ho : outs030 c true all cs = .ok o)
    (k : Nat) : ∀ p ∈ groupOf2 o.reqs k, IsStyle030 p := by
  intro p hp
  obtain ⟨q, hq, _, rfl⟩ := (mem_groupOf2030 o.reqs k p).mp hp
  obtain ⟨_, _, h3, _⟩ := outs030_fix c all cs o ho
  obtain ⟨cl, _, ocl, hocl, hqo⟩ := h3 q hq
  rcases listEnd030f_req c all cl.1 cl.2 ocl hocl q hqo with ⟨v, _, rfl⟩ | ⟨s, h1, h2, _⟩
  · exact .inl ⟨_, rfl⟩
  · right
    refine ⟨s, ?_⟩
    rw [← h1, ← h2]

/-- after a successful fix every token of every closing has `indent_level = old − adjust_amount` -/
theorem fix_indent_key030 (c : C030) (toks toks' : List Tok2) (h : fix2 md030f c toks = .ok toks') :
    ∀ cl ∈ closings030 {} 0 toks, ∀ p ∈ cl.1.ents, ∃ t t', toks[p.1]? = some t ∧ toks'[p.1]? = some t' ∧
      p.2 = { ent030 t.toTok with paras := p.2.paras } ∧
      t'.indent = p.2.indent - adj030 c cl.1.ordered p.2 := by
  obtain ⟨s_end, o, ts1, hsteps, houts, hts1, htoks', hlen⟩ := fix2_md030f_parts c toks toks' h
  obtain ⟨hnd, _, hdata⟩ := closings_facts030 toks toks {} 0 (Inv030.init toks) (by simp)
  obtain ⟨_, _, hreq, hcl⟩ := outs030_fix c toks _ o houts
  intro cl hclm p hp
  obtain ⟨t, ht, hpe, _, _⟩ := hdata cl hclm p hp
  obtain ⟨_, hget⟩ := applyFields_get030 toks ts1 o.reqs hts1
  obtain ⟨t1, hg, ht1⟩ := hget p.1 t ht
  obtain ⟨hdup, hmod⟩ := (applyGroup2_ok_iff030 t t1 _).mp hg
  obtain ⟨_, m2, _, _, _, m6, _⟩ := modAll2_style030 _ t t1 (group_style030 c toks _ o houts p.1) hmod
  refine ⟨t, normIdx030 ts1.length t1, ht, ?_, hpe, ?_⟩
  · rw [htoks', List.getElem?_map, ht1]; rfl
  · have hni : (normIdx030 ts1.length t1).indent = t1.indent := by
      unfold normIdx030; split <;> rfl
    rw [hni]
    obtain ⟨ocl, hocl, hsub⟩ := hcl cl hclm
    by_cases ha : adj030 c cl.1.ordered p.2 = 0
    · -- nothing asked for this token: no closing asks
      rw [ha, Int.sub_zero]
      have : t1.indent = t.indent := by
        apply m2
        intro v hv
        obtain ⟨q, hq, hqi, hqf⟩ := (mem_groupOf2030 o.reqs p.1 _).mp hv
        obtain ⟨clB, hclB, oB, hoB, hqB⟩ := hreq q hq
        simp only [Prod.mk.injEq] at hqf
        rcases listEnd030f_req c toks clB.1 clB.2 oB hoB q hqB with ⟨w, hw, rfl⟩ | ⟨s, h1, _, _⟩
        · obtain ⟨w1, w2, w3⟩ := (mem_viol030 c _ _ w).mp hw
          simp only [indentReq030] at hqi
          have hidx : p.1 ∈ clIdx030 clB := by
            rw [← hqi]; exact List.mem_map.mpr ⟨_, w1, rfl⟩
          have hidx' : p.1 ∈ clIdx030 cl := List.mem_map.mpr ⟨p, hp, rfl⟩
          have heq := flatMap_nodup_unique030 clIdx030 _ hnd clB hclB cl hclm p.1 hidx hidx'
          subst heq
          have hndc := flatMap_nodup_each030 clIdx030 _ hnd clB hclB
          have : w.2.1 = p.2 := nodup_fst_unique030 clB.1.ents hndc p.1 w.2.1 p.2 (by rw [← hqi]; exact w1) hp
          rw [this] at w2
          rw [w2] at w3
          exact w3 ha
        · rw [h1] at hqf
          cases hqf.1
      rw [this, hpe]; rfl
    · -- the request of this closing is the one that was applied
      have hv : (p.1, p.2, adj030 c cl.1.ordered p.2) ∈ viol030 c cl.1.ordered cl.1.ents :=
        (mem_viol030 c _ _ _).mpr ⟨hp, rfl, ha⟩
      obtain ⟨_, _, lead, hl, _⟩ := listEnd030f_fix c toks cl.1 cl.2 ocl hocl
      have hq : indentReq030 (p.1, p.2, adj030 c cl.1.ordered p.2) ∈ o.reqs := by
        apply hsub
        rw [hl]
        exact List.mem_append_left _ (List.mem_map.mpr ⟨_, hv, rfl⟩)
      apply m6 hdup
      exact (mem_groupOf2030 o.reqs p.1 _).mpr ⟨_, hq, rfl, rfl⟩

end Verif.Model.TokenRules
